import Pi2.NotationThm
/-!
# Python's `==` is truthful beyond `Shape`: no substitution node inside a notation node

`NPat.peqF_expand` (`Pi2/NotationThm.lean`) says that `a == b` decides equality of the expansions for *shaped* patterns
(every metavariable unconstrained on fresh variables, every substitution node meta-headed).  The memoising serialisation
of a K execution module compares patterns that contain the constrained metavariable `phi0` with `x0` fresh
(`functional`, `func_subst_axiom`), which are not shaped.

`NPat.QF` ("quiet"): substitution nodes `ESubst` / `SSubst` are meta-headed and occur only OUTSIDE notation nodes; a
notation node and the values of its map are free of substitution nodes (`SubFree`).  There is NO condition on
metavariables.  On such patterns `Instantiate.simplify` never pushes a substitution through a metavariable, so it never
looks at a constraint; `==` only compares the constraint lists of two metavariables for equality.

Proof by transport: `cln` moves the freshness constraints of every metavariable into its (uninterpreted) positivity
list, injectively (`encC`).  On `SubFree` patterns `instantiate` commutes with `cln`; on `QF` patterns `==` does; `cln`
of a `QF` pattern is shaped and its expansion is `Pat.cln` of the expansion; `Pat.cln` is injective.  Hence
`peqF_expand_QF`: for `QF` patterns, `a == b` answers `decide (a.expand = b.expand)`.
-/
set_option linter.unusedVariables false
set_option linter.unusedSimpArgs false
open Pat

/-! ## the classes -/
namespace NPat

mutual
/-- no substitution node -/
def SubFree : NPat → Bool
  | .evar _ => true | .svar _ => true | .sym _ => true
  | .mv _ _ _ _ _ _ => true
  | .imp l r => l.SubFree && r.SubFree
  | .app l r => l.SubFree && r.SubFree
  | .ex _ p => p.SubFree | .mu _ p => p.SubFree
  | .esub _ _ _ => false | .ssub _ _ _ => false
  | .inst p m => p.SubFree && SubFreeMap m
def SubFreeMap : List (Nat × NPat) → Bool
  | [] => true
  | (_, v) :: r => v.SubFree && SubFreeMap r
end

/-- substitution nodes are meta-headed and occur only outside notation nodes; no condition on metavariables -/
def QF : NPat → Bool
  | .evar _ => true | .svar _ => true | .sym _ => true
  | .mv _ _ _ _ _ _ => true
  | .imp l r => l.QF && r.QF
  | .app l r => l.QF && r.QF
  | .ex _ p => p.QF | .mu _ p => p.QF
  | .esub p _ q => p.isMetaN && p.QF && q.QF
  | .ssub p _ q => p.isMetaN && p.QF && q.QF
  | .inst p m => p.SubFree && SubFreeMap m

theorem subFreeMap_iff (m : List (Nat × NPat)) : SubFreeMap m = true ↔ ∀ kv ∈ m, kv.2.SubFree = true := by
  induction m with
  | nil => simp [SubFreeMap]
  | cons kv r ih => obtain ⟨k, v⟩ := kv; simp [SubFreeMap, ih]

theorem subFreeMap_append (a b : List (Nat × NPat)) : SubFreeMap (a ++ b) = (SubFreeMap a && SubFreeMap b) := by
  induction a with
  | nil => simp [SubFreeMap]
  | cons kv r ih => obtain ⟨k, v⟩ := kv; simp [SubFreeMap, ih, Bool.and_assoc]

theorem SubFree.qf : (p : NPat) → p.SubFree = true → p.QF = true
  | .evar _, _ => rfl | .svar _, _ => rfl | .sym _, _ => rfl
  | .mv _ _ _ _ _ _, _ => rfl
  | .imp l r, h => by
    simp only [SubFree, Bool.and_eq_true] at h
    simp [QF, SubFree.qf l h.1, SubFree.qf r h.2]
  | .app l r, h => by
    simp only [SubFree, Bool.and_eq_true] at h
    simp [QF, SubFree.qf l h.1, SubFree.qf r h.2]
  | .ex _ p, h => by simp only [SubFree] at h; simp [QF, SubFree.qf p h]
  | .mu _ p, h => by simp only [SubFree] at h; simp [QF, SubFree.qf p h]
  | .esub _ _ _, h => by simp [SubFree] at h
  | .ssub _ _ _, h => by simp [SubFree] at h
  | .inst p m, h => by simpa [QF, SubFree] using h

end NPat

/-- no substitution node -/
def Pat.SubFree : Pat → Bool
  | .evar _ => true | .svar _ => true | .sym _ => true
  | .mv _ _ _ _ _ _ => true
  | .imp l r => l.SubFree && r.SubFree
  | .app l r => l.SubFree && r.SubFree
  | .ex _ p => p.SubFree | .mu _ p => p.SubFree
  | .esub _ _ _ => false | .ssub _ _ _ => false

/-! ## moving the freshness constraints out of the way -/

/-- the three lists as one, injectively -/
def encC (ef sf ps : List VId) : List VId := ef.length :: sf.length :: (ef ++ (sf ++ ps))

theorem encC_inj {a b c a' b' c' : List VId} (h : encC a b c = encC a' b' c') : a = a' ∧ b = b' ∧ c = c' := by
  simp only [encC, List.cons.injEq] at h
  obtain ⟨h1, h2, h3⟩ := h
  obtain ⟨e1, h4⟩ := List.append_inj h3 h1
  obtain ⟨e2, e3⟩ := List.append_inj h4 h2
  exact ⟨e1, e2, e3⟩

theorem encC_beq (a b c a' b' c' : List VId) :
    (encC a b c == encC a' b' c') = (a == a' && b == b' && c == c') := by
  by_cases h : encC a b c = encC a' b' c'
  · obtain ⟨rfl, rfl, rfl⟩ := encC_inj h
    simp
  · have : ¬ (a = a' ∧ b = b' ∧ c = c') := by
      rintro ⟨rfl, rfl, rfl⟩; exact h rfl
    have h1 : (encC a b c == encC a' b' c') = false := by simpa using h
    rw [h1]
    by_cases ha : a = a'
    · by_cases hb : b = b'
      · have hc : ¬ c = c' := fun hc => this ⟨ha, hb, hc⟩
        simp [ha, hb, hc]
      · simp [ha, hb]
    · simp [ha]

def Pat.cln : Pat → Pat
  | .evar x => .evar x | .svar x => .svar x | .sym s => .sym s
  | .mv id ef sf ps ns hs => .mv id [] [] (encC ef sf ps) ns hs
  | .imp l r => .imp l.cln r.cln
  | .app l r => .app l.cln r.cln
  | .ex x p => .ex x p.cln | .mu x p => .mu x p.cln
  | .esub p x q => .esub p.cln x q.cln
  | .ssub p x q => .ssub p.cln x q.cln

theorem Pat.cln_inj : ∀ (a b : Pat), a.cln = b.cln → a = b := by
  intro a
  induction a with
  | evar x => intro b h; cases b <;> simp [Pat.cln] at h ⊢; exact h
  | svar x => intro b h; cases b <;> simp [Pat.cln] at h ⊢; exact h
  | sym x => intro b h; cases b <;> simp [Pat.cln] at h ⊢; exact h
  | mv id ef sf ps ns hs =>
    intro b h
    cases b <;> simp [Pat.cln] at h ⊢
    obtain ⟨h1, h2, h3, h4⟩ := h
    obtain ⟨e1, e2, e3⟩ := encC_inj h2
    exact ⟨h1, e1, e2, e3, h3, h4⟩
  | imp l r ihl ihr =>
    intro b h
    cases b <;> simp [Pat.cln] at h ⊢
    exact ⟨ihl _ h.1, ihr _ h.2⟩
  | app l r ihl ihr =>
    intro b h
    cases b <;> simp [Pat.cln] at h ⊢
    exact ⟨ihl _ h.1, ihr _ h.2⟩
  | ex x p ih =>
    intro b h
    cases b <;> simp [Pat.cln] at h ⊢
    exact ⟨h.1, ih _ h.2⟩
  | mu x p ih =>
    intro b h
    cases b <;> simp [Pat.cln] at h ⊢
    exact ⟨h.1, ih _ h.2⟩
  | esub p x q ihp ihq =>
    intro b h
    cases b <;> simp [Pat.cln] at h ⊢
    exact ⟨ihp _ h.1, h.2.1, ihq _ h.2.2⟩
  | ssub p x q ihp ihq =>
    intro b h
    cases b <;> simp [Pat.cln] at h ⊢
    exact ⟨ihp _ h.1, h.2.1, ihq _ h.2.2⟩

/-- on patterns without substitution nodes `instantiate` is plain replacement, which commutes with `cln` -/
theorem Py.inst_cln (δ : VId → Option Pat) : ∀ q : Pat, q.SubFree = true →
    Py.inst (fun k => (δ k).map Pat.cln) q.cln = (Py.inst δ q).cln := by
  intro q
  induction q with
  | evar _ => intro _; rfl
  | svar _ => intro _; rfl
  | sym _ => intro _; rfl
  | mv id ef sf ps ns hs =>
    intro _
    simp only [Pat.cln, Py.inst]
    cases δ id <;> rfl
  | imp l r ihl ihr =>
    intro h; simp only [Pat.SubFree, Bool.and_eq_true] at h
    simp only [Pat.cln, Py.inst, ihl h.1, ihr h.2]
  | app l r ihl ihr =>
    intro h; simp only [Pat.SubFree, Bool.and_eq_true] at h
    simp only [Pat.cln, Py.inst, ihl h.1, ihr h.2]
  | ex x p ih => intro h; simp only [Pat.SubFree] at h; simp only [Pat.cln, Py.inst, ih h]
  | mu x p ih => intro h; simp only [Pat.SubFree] at h; simp only [Pat.cln, Py.inst, ih h]
  | esub _ _ _ _ _ => intro h; simp [Pat.SubFree] at h
  | ssub _ _ _ _ _ => intro h; simp [Pat.SubFree] at h

theorem Py.inst_subFree (δ : VId → Option Pat) (hδ : ∀ k v, δ k = some v → v.SubFree = true) :
    ∀ q : Pat, q.SubFree = true → (Py.inst δ q).SubFree = true := by
  intro q
  induction q with
  | evar _ => intro _; rfl
  | svar _ => intro _; rfl
  | sym _ => intro _; rfl
  | mv id ef sf ps ns hs =>
    intro _
    simp only [Py.inst]
    cases h : δ id with
    | none => rfl
    | some v => exact hδ _ _ h
  | imp l r ihl ihr =>
    intro h; simp only [Pat.SubFree, Bool.and_eq_true] at h
    simp [Py.inst, Pat.SubFree, ihl h.1, ihr h.2]
  | app l r ihl ihr =>
    intro h; simp only [Pat.SubFree, Bool.and_eq_true] at h
    simp [Py.inst, Pat.SubFree, ihl h.1, ihr h.2]
  | ex x p ih => intro h; simp only [Pat.SubFree] at h; simp [Py.inst, Pat.SubFree, ih h]
  | mu x p ih => intro h; simp only [Pat.SubFree] at h; simp [Py.inst, Pat.SubFree, ih h]
  | esub _ _ _ _ _ => intro h; simp [Pat.SubFree] at h
  | ssub _ _ _ _ _ => intro h; simp [Pat.SubFree] at h

namespace NPat

mutual
def cln : NPat → NPat
  | .evar x => .evar x | .svar x => .svar x | .sym s => .sym s
  | .mv id ef sf ps ns hs => .mv id [] [] (encC ef sf ps) ns hs
  | .imp l r => .imp l.cln r.cln
  | .app l r => .app l.cln r.cln
  | .ex x p => .ex x p.cln | .mu x p => .mu x p.cln
  | .esub p x q => .esub p.cln x q.cln
  | .ssub p x q => .ssub p.cln x q.cln
  | .inst p m => .inst p.cln (clnMap m)
def clnMap : List (Nat × NPat) → List (Nat × NPat)
  | [] => []
  | (k, v) :: r => (k, v.cln) :: clnMap r
end

theorem clnMap_eq_map (m : List (Nat × NPat)) : clnMap m = m.map fun kv => (kv.1, kv.2.cln) := by
  induction m with
  | nil => rfl
  | cons kv r ih => obtain ⟨k, v⟩ := kv; simp [clnMap, ih]

theorem clnMap_append (a b : List (Nat × NPat)) : clnMap (a ++ b) = clnMap a ++ clnMap b := by
  simp [clnMap_eq_map]

theorem keys_clnMap (m : List (Nat × NPat)) : keys (clnMap m) = keys m := by
  simp [clnMap_eq_map, keys, List.map_map, Function.comp_def]

theorem isEmpty_clnMap (m : List (Nat × NPat)) : (clnMap m).isEmpty = m.isEmpty := by
  cases m with
  | nil => rfl
  | cons kv r => obtain ⟨k, v⟩ := kv; rfl

theorem lookup_clnMap (m : List (Nat × NPat)) (i : Nat) : Py.lookup (clnMap m) i = (Py.lookup m i).map cln := by
  induction m with
  | nil => rfl
  | cons kv r ih =>
    obtain ⟨k, v⟩ := kv
    simp only [clnMap, Py.lookup]
    split <;> simp [ih]

theorem filter_clnMap (f : Nat × NPat → Bool) (hf : ∀ k v, f (k, cln v) = f (k, v)) (m : List (Nat × NPat)) :
    (clnMap m).filter f = clnMap (m.filter f) := by
  induction m with
  | nil => rfl
  | cons kv r ih =>
    obtain ⟨k, v⟩ := kv
    simp only [clnMap, List.filter_cons, hf, ih]
    split <;> simp [clnMap]

theorem dedupKeys_clnMap (l : List (Nat × NPat)) (seen : List Nat) :
    dedupKeys (clnMap l) seen = clnMap (dedupKeys l seen) := by
  induction l generalizing seen with
  | nil => rfl
  | cons kv r ih =>
    obtain ⟨k, v⟩ := kv
    simp only [clnMap, dedupKeys]
    split
    · exact ih seen
    · simp [clnMap, ih]

theorem subFree_of_lookup (m : List (Nat × NPat)) (h : SubFreeMap m = true) (i : Nat) (v : NPat)
    (hl : Py.lookup m i = some v) : v.SubFree = true :=
  (subFreeMap_iff m).mp h _ (Py.lookup_mem _ _ _ hl)

theorem subFreeMap_filter (f : Nat × NPat → Bool) (m : List (Nat × NPat)) (h : SubFreeMap m = true) :
    SubFreeMap (m.filter f) = true := by
  rw [subFreeMap_iff] at h ⊢
  intro kv hkv
  exact h kv (List.mem_filter.mp hkv).1

theorem subFreeMap_dedupKeys (l : List (Nat × NPat)) (seen : List Nat) (h : SubFreeMap l = true) :
    SubFreeMap (dedupKeys l seen) = true := by
  rw [subFreeMap_iff] at h ⊢
  intro kv hkv
  exact h kv (mem_dedupKeys _ _ _ hkv)

/-! ## `instantiate` commutes with `cln` on patterns without substitution nodes -/

def ClnOK (n : Nat) : Prop :=
  (∀ δ p, p.SubFree = true → SubFreeMap δ = true →
    instF n (clnMap δ) p.cln = (instF n δ p).map cln ∧ ∀ r, instF n δ p = some r → r.SubFree = true) ∧
  (∀ δ m, SubFreeMap m = true → SubFreeMap δ = true →
    mapF n (clnMap δ) (clnMap m) = (mapF n δ m).map clnMap ∧ ∀ r, mapF n δ m = some r → SubFreeMap r = true) ∧
  (∀ p, p.SubFree = true → metavarsF n p.cln = metavarsF n p)

theorem clnOK_zero : ClnOK 0 :=
  ⟨fun δ p _ _ => ⟨by simp [instF], fun r h => by simp [instF] at h⟩,
   fun δ m _ _ => ⟨by simp [mapF], fun r h => by simp [mapF] at h⟩,
   fun p _ => by simp [metavarsF]⟩

theorem clnOK_step (n : Nat) (ih : ClnOK n) : ClnOK (n + 1) := by
  obtain ⟨ihI, ihM, ihV⟩ := ih
  refine ⟨?_, ?_, ?_⟩
  · intro δ p hp hδ
    cases p with
    | evar x => exact ⟨by simp [instF, cln], fun r h => by simp [instF] at h; subst h; rfl⟩
    | svar x => exact ⟨by simp [instF, cln], fun r h => by simp [instF] at h; subst h; rfl⟩
    | sym x => exact ⟨by simp [instF, cln], fun r h => by simp [instF] at h; subst h; rfl⟩
    | mv id ef sf ps ns hs =>
      constructor
      · simp only [cln, instF, lookup_clnMap, Option.map_some]
        cases Py.lookup δ id <;> simp [cln]
      · intro r h
        simp only [instF, Option.some.injEq] at h
        subst h
        cases hl : Py.lookup δ id with
        | none => rfl
        | some q => exact subFree_of_lookup δ hδ id q hl
    | imp l r =>
      simp only [SubFree, Bool.and_eq_true] at hp
      obtain ⟨e1, s1⟩ := ihI δ l hp.1 hδ
      obtain ⟨e2, s2⟩ := ihI δ r hp.2 hδ
      constructor
      · simp only [cln, instF, isEmpty_clnMap, e1, e2]
        split
        · simp [cln]
        · cases instF n δ l <;> cases instF n δ r <;> simp [cln]
      · intro x h
        simp only [instF] at h
        split at h
        · simp only [Option.some.injEq] at h; subst h; simp [SubFree, hp.1, hp.2]
        · simp only [Option.bind_eq_bind, Option.bind_eq_some_iff, Option.pure_def, Option.some.injEq] at h
          obtain ⟨a, ha, b, hb, rfl⟩ := h
          simp [SubFree, s1 a ha, s2 b hb]
    | app l r =>
      simp only [SubFree, Bool.and_eq_true] at hp
      obtain ⟨e1, s1⟩ := ihI δ l hp.1 hδ
      obtain ⟨e2, s2⟩ := ihI δ r hp.2 hδ
      constructor
      · simp only [cln, instF, isEmpty_clnMap, e1, e2]
        split
        · simp [cln]
        · cases instF n δ l <;> cases instF n δ r <;> simp [cln]
      · intro x h
        simp only [instF] at h
        split at h
        · simp only [Option.some.injEq] at h; subst h; simp [SubFree, hp.1, hp.2]
        · simp only [Option.bind_eq_bind, Option.bind_eq_some_iff, Option.pure_def, Option.some.injEq] at h
          obtain ⟨a, ha, b, hb, rfl⟩ := h
          simp [SubFree, s1 a ha, s2 b hb]
    | ex y q =>
      simp only [SubFree] at hp
      obtain ⟨e1, s1⟩ := ihI δ q hp hδ
      constructor
      · simp only [cln, instF, isEmpty_clnMap, e1]
        split
        · simp [cln]
        · cases instF n δ q <;> simp [cln]
      · intro x h
        simp only [instF] at h
        split at h
        · simp only [Option.some.injEq] at h; subst h; simpa [SubFree] using hp
        · simp only [Option.bind_eq_bind, Option.bind_eq_some_iff, Option.pure_def, Option.some.injEq] at h
          obtain ⟨a, ha, rfl⟩ := h
          simpa [SubFree] using s1 a ha
    | mu y q =>
      simp only [SubFree] at hp
      obtain ⟨e1, s1⟩ := ihI δ q hp hδ
      constructor
      · simp only [cln, instF, isEmpty_clnMap, e1]
        split
        · simp [cln]
        · cases instF n δ q <;> simp [cln]
      · intro x h
        simp only [instF] at h
        split at h
        · simp only [Option.some.injEq] at h; subst h; simpa [SubFree] using hp
        · simp only [Option.bind_eq_bind, Option.bind_eq_some_iff, Option.pure_def, Option.some.injEq] at h
          obtain ⟨a, ha, rfl⟩ := h
          simpa [SubFree] using s1 a ha
    | esub _ _ _ => simp [SubFree] at hp
    | ssub _ _ _ => simp [SubFree] at hp
    | inst q m =>
      simp only [SubFree, Bool.and_eq_true] at hp
      obtain ⟨e1, s1⟩ := ihM δ m hp.2 hδ
      have e2 := ihV q hp.1
      constructor
      · simp only [cln, instF, e1, e2, keys_clnMap, Option.bind_eq_bind, Option.pure_def]
        cases hm : mapF n δ m with
        | none => simp
        | some m' =>
          cases hv : metavarsF n q with
          | none => simp
          | some mvs =>
            simp only [Option.map_some, Option.bind_some, Option.some.injEq]
            rw [filter_clnMap _ (fun k v => rfl), dedupKeys_clnMap, ← clnMap_append]
            rfl
      · intro x h
        simp only [instF, Option.bind_eq_bind, Option.bind_eq_some_iff, Option.pure_def, Option.some.injEq] at h
        obtain ⟨m', hm', mvs, _, rfl⟩ := h
        simp only [SubFree, hp.1, Bool.true_and, subFreeMap_append, Bool.and_eq_true]
        exact ⟨s1 m' hm', subFreeMap_dedupKeys _ _ (subFreeMap_filter _ _ hδ)⟩
  · intro δ m hm hδ
    cases m with
    | nil => exact ⟨by simp [mapF, clnMap], fun r h => by simp [mapF] at h; subst h; rfl⟩
    | cons kv r =>
      obtain ⟨k, v⟩ := kv
      simp only [SubFreeMap, Bool.and_eq_true] at hm
      obtain ⟨e1, s1⟩ := ihI δ v hm.1 hδ
      obtain ⟨e2, s2⟩ := ihM δ r hm.2 hδ
      constructor
      · simp only [clnMap, mapF, e1, e2, Option.bind_eq_bind, Option.pure_def]
        cases instF n δ v <;> cases mapF n δ r <;> simp [clnMap]
      · intro x h
        simp only [mapF, Option.bind_eq_bind, Option.bind_eq_some_iff, Option.pure_def, Option.some.injEq] at h
        obtain ⟨a, ha, b, hb, rfl⟩ := h
        simp [SubFreeMap, s1 a ha, s2 b hb]
  · intro p hp
    cases p with
    | evar x => rfl
    | svar x => rfl
    | sym x => rfl
    | mv id ef sf ps ns hs => rfl
    | imp l r =>
      simp only [SubFree, Bool.and_eq_true] at hp
      simp only [cln, metavarsF, ihV l hp.1, ihV r hp.2]
    | app l r =>
      simp only [SubFree, Bool.and_eq_true] at hp
      simp only [cln, metavarsF, ihV l hp.1, ihV r hp.2]
    | ex y q => simp only [SubFree] at hp; simp only [cln, metavarsF, ihV q hp]
    | mu y q => simp only [SubFree] at hp; simp only [cln, metavarsF, ihV q hp]
    | esub _ _ _ => simp [SubFree] at hp
    | ssub _ _ _ => simp [SubFree] at hp
    | inst q m =>
      simp only [SubFree, Bool.and_eq_true] at hp
      obtain ⟨e1, s1⟩ := ihI m q hp.1 hp.2
      simp only [cln, metavarsF, e1, Option.bind_eq_bind]
      cases hi : instF n m q with
      | none => rfl
      | some s => simp only [Option.map_some, Option.bind_some]; exact ihV s (s1 s hi)

theorem clnOK_all (n : Nat) : ClnOK n := by
  induction n with
  | zero => exact clnOK_zero
  | succ n ih => exact clnOK_step n ih

theorem instF_cln {n : Nat} {δ : List (Nat × NPat)} {p : NPat} (hp : p.SubFree = true) (hδ : SubFreeMap δ = true) :
    instF n (clnMap δ) p.cln = (instF n δ p).map cln := ((clnOK_all n).1 δ p hp hδ).1

theorem instF_subFree {n : Nat} {δ : List (Nat × NPat)} {p r : NPat} (hp : p.SubFree = true)
    (hδ : SubFreeMap δ = true) (h : instF n δ p = some r) : r.SubFree = true := ((clnOK_all n).1 δ p hp hδ).2 r h

/-! ## `==` commutes with `cln` on quiet patterns -/

theorem isMetaN_cln (p : NPat) : p.cln.isMetaN = p.isMetaN := by
  cases p <;> rfl

theorem QF.cln_inst {p : NPat} {m : List (Nat × NPat)} (h : (NPat.inst p m).QF = true) :
    p.SubFree = true ∧ SubFreeMap m = true := by
  simpa [QF] using h

/-- the reflected case: a non-notation pattern against a notation node -/
theorem peqF_instR (n : Nat) (a p : NPat) (m : List (Nat × NPat)) (ha : a.isInst = false) :
    peqF (n + 1) a (.inst p m) = (instF n m p).bind fun s => peqF n s a := by
  cases a <;> first | rfl | (simp [isInst] at ha)

theorem isInst_cln (a : NPat) : a.cln.isInst = a.isInst := by
  cases a <;> rfl

def PeqCln (n : Nat) : Prop := ∀ a b, a.QF = true → b.QF = true → peqF n a.cln b.cln = peqF n a b

theorem peqCln_step (n : Nat) (ih : PeqCln n) : PeqCln (n + 1) := by
  intro a b ha hb
  -- a notation node on the left
  have instL : ∀ p m, (NPat.inst p m).QF = true → ∀ b, b.QF = true →
      peqF (n + 1) (NPat.inst p m).cln b.cln = peqF (n + 1) (NPat.inst p m) b := by
    intro p m hpm b hb
    obtain ⟨hp, hm⟩ := QF.cln_inst hpm
    simp only [cln, peqF, Option.bind_eq_bind, instF_cln hp hm]
    cases hi : instF n m p with
    | none => rfl
    | some s =>
      simp only [Option.map_some, Option.bind_some]
      exact ih s b (SubFree.qf s (instF_subFree hp hm hi)) hb
  -- a notation node on the right
  have instR : ∀ a, a.isInst = false → a.QF = true → ∀ p m, (NPat.inst p m).QF = true →
      peqF (n + 1) a.cln (NPat.inst p m).cln = peqF (n + 1) a (NPat.inst p m) := by
    intro a hai ha p m hpm
    obtain ⟨hp, hm⟩ := QF.cln_inst hpm
    have e : (NPat.inst p m).cln = NPat.inst p.cln (clnMap m) := by simp [cln]
    rw [e, peqF_instR n a.cln _ _ (by rw [isInst_cln]; exact hai), peqF_instR n a _ _ hai, instF_cln hp hm]
    cases hi : instF n m p with
    | none => rfl
    | some s =>
      simp only [Option.map_some, Option.bind_some]
      exact ih s a (SubFree.qf s (instF_subFree hp hm hi)) ha
  cases a with
  | inst p m => exact instL p m ha b hb
  | evar x =>
    cases b with
    | inst p m => exact instR _ rfl ha p m hb
    | _ => rfl
  | svar x =>
    cases b with
    | inst p m => exact instR _ rfl ha p m hb
    | _ => rfl
  | sym x =>
    cases b with
    | inst p m => exact instR _ rfl ha p m hb
    | _ => rfl
  | mv id ef sf ps ns hs =>
    cases b with
    | inst p m => exact instR _ rfl ha p m hb
    | mv id' ef' sf' ps' ns' hs' =>
      simp only [cln, peqF, encC_beq, Option.some.injEq]
      simp [Bool.and_assoc]
    | _ => rfl
  | imp l r =>
    cases b with
    | inst p m => exact instR _ rfl ha p m hb
    | imp l' r' =>
      simp only [QF, Bool.and_eq_true] at ha hb
      simp only [cln, peqF, ih l l' ha.1 hb.1, ih r r' ha.2 hb.2]
    | _ => rfl
  | app l r =>
    cases b with
    | inst p m => exact instR _ rfl ha p m hb
    | app l' r' =>
      simp only [QF, Bool.and_eq_true] at ha hb
      simp only [cln, peqF, ih l l' ha.1 hb.1, ih r r' ha.2 hb.2]
    | _ => rfl
  | ex x q =>
    cases b with
    | inst p m => exact instR _ rfl ha p m hb
    | ex y q' =>
      simp only [QF] at ha hb
      simp only [cln, peqF, ih q q' ha hb]
    | _ => rfl
  | mu x q =>
    cases b with
    | inst p m => exact instR _ rfl ha p m hb
    | mu y q' =>
      simp only [QF] at ha hb
      simp only [cln, peqF, ih q q' ha hb]
    | _ => rfl
  | esub q x plug =>
    cases b with
    | inst p m => exact instR _ rfl ha p m hb
    | esub q' x' plug' =>
      simp only [QF, Bool.and_eq_true] at ha hb
      simp only [cln, peqF, ih q q' ha.1.2 hb.1.2, ih plug plug' ha.2 hb.2]
    | _ => rfl
  | ssub q x plug =>
    cases b with
    | inst p m => exact instR _ rfl ha p m hb
    | ssub q' x' plug' =>
      simp only [QF, Bool.and_eq_true] at ha hb
      simp only [cln, peqF, ih q q' ha.1.2 hb.1.2, ih plug plug' ha.2 hb.2]
    | _ => rfl

theorem peqF_cln (n : Nat) : ∀ a b : NPat, a.QF = true → b.QF = true → peqF n a.cln b.cln = peqF n a b := by
  induction n with
  | zero => intro a b _ _; simp [peqF]
  | succ n ih => exact peqCln_step n ih

/-! ## `cln` of a quiet pattern is shaped, and expands to `Pat.cln` of the expansion -/

mutual
theorem cln_shape : (p : NPat) → p.SubFree = true → p.cln.Shape = true
  | .evar _, _ => rfl | .svar _, _ => rfl | .sym _, _ => rfl
  | .mv _ _ _ _ _ _, _ => rfl
  | .imp l r, h => by
    simp only [SubFree, Bool.and_eq_true] at h
    simp [cln, Shape, cln_shape l h.1, cln_shape r h.2]
  | .app l r, h => by
    simp only [SubFree, Bool.and_eq_true] at h
    simp [cln, Shape, cln_shape l h.1, cln_shape r h.2]
  | .ex _ p, h => by simp only [SubFree] at h; simp [cln, Shape, cln_shape p h]
  | .mu _ p, h => by simp only [SubFree] at h; simp [cln, Shape, cln_shape p h]
  | .esub _ _ _, h => by simp [SubFree] at h
  | .ssub _ _ _, h => by simp [SubFree] at h
  | .inst p m, h => by
    simp only [SubFree, Bool.and_eq_true] at h
    simp [cln, Shape, cln_shape p h.1, clnMap_shape m h.2]
theorem clnMap_shape : (m : List (Nat × NPat)) → SubFreeMap m = true → ShapeMap (clnMap m) = true
  | [], _ => rfl
  | (_, v) :: r, h => by
    simp only [SubFreeMap, Bool.and_eq_true] at h
    simp [clnMap, ShapeMap, cln_shape v h.1, clnMap_shape r h.2]
end

theorem cln_shape_QF : (p : NPat) → p.QF = true → p.cln.Shape = true
  | .evar _, _ => rfl | .svar _, _ => rfl | .sym _, _ => rfl
  | .mv _ _ _ _ _ _, _ => rfl
  | .imp l r, h => by
    simp only [QF, Bool.and_eq_true] at h
    simp [cln, Shape, cln_shape_QF l h.1, cln_shape_QF r h.2]
  | .app l r, h => by
    simp only [QF, Bool.and_eq_true] at h
    simp [cln, Shape, cln_shape_QF l h.1, cln_shape_QF r h.2]
  | .ex _ p, h => by simp only [QF] at h; simp [cln, Shape, cln_shape_QF p h]
  | .mu _ p, h => by simp only [QF] at h; simp [cln, Shape, cln_shape_QF p h]
  | .esub p _ q, h => by
    simp only [QF, Bool.and_eq_true] at h
    simp [cln, Shape, isMetaN_cln, h.1.1, cln_shape_QF p h.1.2, cln_shape_QF q h.2]
  | .ssub p _ q, h => by
    simp only [QF, Bool.and_eq_true] at h
    simp [cln, Shape, isMetaN_cln, h.1.1, cln_shape_QF p h.1.2, cln_shape_QF q h.2]
  | .inst p m, h => cln_shape _ (by simpa [QF, SubFree] using h)

mutual
theorem expand_cln : (p : NPat) → p.SubFree = true → p.cln.expand = p.expand.cln ∧ p.expand.SubFree = true
  | .evar _, _ => ⟨rfl, rfl⟩ | .svar _, _ => ⟨rfl, rfl⟩ | .sym _, _ => ⟨rfl, rfl⟩
  | .mv _ _ _ _ _ _, _ => ⟨rfl, rfl⟩
  | .imp l r, h => by
    simp only [SubFree, Bool.and_eq_true] at h
    obtain ⟨e1, s1⟩ := expand_cln l h.1
    obtain ⟨e2, s2⟩ := expand_cln r h.2
    exact ⟨by simp [cln, expand, Pat.cln, e1, e2], by simp [expand, Pat.SubFree, s1, s2]⟩
  | .app l r, h => by
    simp only [SubFree, Bool.and_eq_true] at h
    obtain ⟨e1, s1⟩ := expand_cln l h.1
    obtain ⟨e2, s2⟩ := expand_cln r h.2
    exact ⟨by simp [cln, expand, Pat.cln, e1, e2], by simp [expand, Pat.SubFree, s1, s2]⟩
  | .ex _ p, h => by
    simp only [SubFree] at h
    obtain ⟨e1, s1⟩ := expand_cln p h
    exact ⟨by simp [cln, expand, Pat.cln, e1], by simp [expand, Pat.SubFree, s1]⟩
  | .mu _ p, h => by
    simp only [SubFree] at h
    obtain ⟨e1, s1⟩ := expand_cln p h
    exact ⟨by simp [cln, expand, Pat.cln, e1], by simp [expand, Pat.SubFree, s1]⟩
  | .esub _ _ _, h => by simp [SubFree] at h
  | .ssub _ _ _, h => by simp [SubFree] at h
  | .inst p m, h => by
    simp only [SubFree, Bool.and_eq_true] at h
    obtain ⟨e1, s1⟩ := expand_cln p h.1
    obtain ⟨e2, s2⟩ := lookup_expandMap_cln m h.2
    constructor
    · simp only [cln, expand, e1]
      have : Py.lookup (expand.expandMap (clnMap m)) = fun k => (Py.lookup (expand.expandMap m) k).map Pat.cln := by
        funext k; exact e2 k
      rw [this, Py.inst_cln _ _ s1]
    · simp only [expand]
      exact Py.inst_subFree _ s2 _ s1
theorem lookup_expandMap_cln : (m : List (Nat × NPat)) → SubFreeMap m = true →
    (∀ k, Py.lookup (expand.expandMap (clnMap m)) k = (Py.lookup (expand.expandMap m) k).map Pat.cln) ∧
    (∀ k v, Py.lookup (expand.expandMap m) k = some v → v.SubFree = true)
  | [], _ => ⟨fun _ => rfl, fun k v h => by simp [expand.expandMap, Py.lookup] at h⟩
  | (k0, v0) :: r, h => by
    simp only [SubFreeMap, Bool.and_eq_true] at h
    obtain ⟨e1, s1⟩ := expand_cln v0 h.1
    obtain ⟨e2, s2⟩ := lookup_expandMap_cln r h.2
    constructor
    · intro k
      simp only [clnMap, expand.expandMap, Py.lookup]
      split
      · simp [e1]
      · exact e2 k
    · intro k v hv
      simp only [expand.expandMap, Py.lookup] at hv
      split at hv
      · cases hv; exact s1
      · exact s2 k v hv
end

theorem expand_cln_QF : (p : NPat) → p.QF = true → p.cln.expand = p.expand.cln
  | .evar _, _ => rfl | .svar _, _ => rfl | .sym _, _ => rfl
  | .mv _ _ _ _ _ _, _ => rfl
  | .imp l r, h => by
    simp only [QF, Bool.and_eq_true] at h
    simp [cln, expand, Pat.cln, expand_cln_QF l h.1, expand_cln_QF r h.2]
  | .app l r, h => by
    simp only [QF, Bool.and_eq_true] at h
    simp [cln, expand, Pat.cln, expand_cln_QF l h.1, expand_cln_QF r h.2]
  | .ex _ p, h => by simp only [QF] at h; simp [cln, expand, Pat.cln, expand_cln_QF p h]
  | .mu _ p, h => by simp only [QF] at h; simp [cln, expand, Pat.cln, expand_cln_QF p h]
  | .esub p _ q, h => by
    simp only [QF, Bool.and_eq_true] at h
    simp [cln, expand, Pat.cln, expand_cln_QF p h.1.2, expand_cln_QF q h.2]
  | .ssub p _ q, h => by
    simp only [QF, Bool.and_eq_true] at h
    simp [cln, expand, Pat.cln, expand_cln_QF p h.1.2, expand_cln_QF q h.2]
  | .inst p m, h => (expand_cln _ (by simpa [QF, SubFree] using h)).1

/-- **Python's `==` is truthful on quiet patterns**: whatever the constraints of the metavariables, if no substitution
node occurs inside a notation node (and substitution nodes are meta-headed), `a == b` answers whether the expansions
are equal -/
theorem peqF_expand_QF (n : Nat) (a b : NPat) (r : Bool) (ha : a.QF = true) (hb : b.QF = true)
    (h : peqF n a b = some r) : r = decide (a.expand = b.expand) := by
  rw [← peqF_cln n a b ha hb] at h
  have := peqF_expand n a.cln b.cln r (cln_shape_QF a ha) (cln_shape_QF b hb) h
  rw [expand_cln_QF a ha, expand_cln_QF b hb] at this
  rw [this]
  by_cases e : a.expand = b.expand
  · simp [e]
  · have : ¬ a.expand.cln = b.expand.cln := fun h => e (Pat.cln_inj _ _ h)
    simp [e, this]

end NPat

#print axioms NPat.peqF_expand_QF
