import Pi2.KoreSupport
/-!
# Support for the translated construction of a `LanguageSemantics` (`Pi2/Gen/PyKDef.lean`)

The target language of `vlib/transkdef.py`: the Python statements of the builder classes `BuilderScope`, `KModule`,
`LanguageSemantics` (`from_kore_definition`, `module`, `get_module`, `get_axiom`, `get_sort`, `get_symbol`,
`resolve_to_ksymbol`, `is_rewrite_rule`, `is_equational_rule`; k/kore_convertion/language_semantics.py) and of
`get_proof_hints` (k/kore_convertion/rewrite_steps.py) are translated one by one into the combinators of
`Pi2/InterpSupport.lean` / `Pi2/MatchSupport.lean` / `Pi2/KoreSupport.lean` and the words below.  Hand-written and small:

**The input** — `KDefinition`: a Lean datatype that mirrors the classes of `pyk.kore.syntax` the builder reads
(harness/py/pyk_stub.py: `Definition`, `Module`, `Import`, `SortDecl`, `SymbolDecl` with its `Symbol`, `Axiom`; sorts and
patterns are the model's `Kore.KSort` / `Kore.KTerm`), and `PyLLVMTrace`: the fields of the hint objects of
`llvm_proof_hint.py` that `get_proof_hints` reads.  Names (`str`) are numbers as everywhere in the model; the FOUR strings
the text compares a name with are the numbers of `strName` (`'kseq'` is 999, as in the protocol of the harness).

**The store** — `LanguageSemantics`, `KModule` and `itertools.count` objects are mutable and shared by reference (a module is
referenced from the semantics and from every module that imports it; ALL modules of a semantics share one counter).
The translation is store-passing: `PyLS` is the ONE `LanguageSemantics` object together with the store of every `KModule`
object (`modules`, a reference is the position, in allocation order) and every `count` object (`counters`).  A Python value
of class `KModule` / `count` is a reference (`Nat`); `getMod` / `setMod` / `newModule` / `newCounter` / `nextCounter` are
the store operations.  An attribute that `__init__` does not assign (`_parsing`: neither `KModule.__init__` nor
`LanguageSemantics.__init__` calls `BuilderScope.__init__`) is `none` until it is assigned (`attrGet`: `AttributeError`).

**Sets** — `LanguageSemantics.modules` collects the modules in a `set` of objects that hash by address: the order in
which it is iterated is not determined by the program.  A set is its insertion-ordered listing, enumerated ONLY through
the oracle `so : SetOrder` (a parameter of every function that reaches `LanguageSemantics.modules`); the theorems assume
no more than `SetOrder.Valid` (a permutation).

**The view** — the functions already translated in `Pi2/Gen/PyKore.lean` (`_convert_pattern`, `convert_pattern`,
`convert_substitutions`, `ExecutionProofExp`) work on `PySem` (`Kore.Sig` + the cached scopes) with the hand-written
primitives `PyK.get_sort / get_symbol / resolve_to_ksymbol`.  `semView` is the `PySem` a store stands for, `semBack`
copies the changed cache back.  `Pi2/KDefTie.lean` (`get_sort_view`, `get_symbol_view`, `resolve_to_ksymbol_view`) proves
the old primitives on the view equal to the translated `get_sort` / `get_symbol` / `resolve_to_ksymbol` on the store.
-/
open Pat
namespace PyK
open PyI PyM Kore

/-! ## the input: a Kore definition (`pyk.kore.syntax`) -/

/-- a sentence of a module.  `symbolDecl`: `symbol.name`, `symbol.vars`, `param_sorts`, `sort`, `attrs` -/
inductive KSentence where
  | «import» (module_name : Nat)
  | sortDecl (name : Nat) (hooked : Bool)
  | symbolDecl (symbol_name : Nat) (symbol_vars : List KSort) (param_sorts : List KSort) (sort : KSort) (attrs : List KTerm)
  | «axiom» (pattern : KTerm)
  /-- any other sentence class (alias, claim, …): no branch of the builder's `isinstance` chain matches -/
  | other
deriving Repr, Inhabited

/-- `kore.Module` -/
structure KModuleDef where
  name : Nat
  sentences : List KSentence
deriving Repr, Inhabited

/-- `kore.Definition` -/
structure KDefinition where
  modules : List KModuleDef
deriving Repr, Inhabited

/-- the number that stands for a string literal of the source -/
def strName (s : String) : Nat :=
  if s == "kseq" then 999 else if s == "functional" then 1000001 else if s == "constructor" then 1000002
  else if s == "cell" then 1000003 else 0

/-! ## the input: an LLVM rewrite trace (`llvm_proof_hint.py`) -/

/-- an element of `LLVMRewriteTrace.trace` (`Argument = LLVMStepEvent | kore.Pattern`) -/
inductive PyTraceItem where
  /-- `LLVMRuleEvent(rule_ordinal, substitution)` -/
  | rule (rule_ordinal : Nat) (substitution : List (Nat × KTerm))
  /-- `LLVMSideCondEvent`, `LLVMFunctionEvent`, `LLVMHookEvent`: step events that are not rule events -/
  | otherEvent
  /-- a configuration (`kore.Pattern`) -/
  | config (pattern : KTerm)
deriving Repr, Inhabited

/-- `LLVMRewriteTrace` (`pre_trace` is not read) -/
structure PyLLVMTrace where
  initial_config : KTerm
  trace : List PyTraceItem
deriving Repr, Inhabited

/-! ## the objects of the builder -/

/-- the dataclass `KSort(name, hooked)` -/
structure PyKSortH where
  name : Nat
  hooked : Bool
deriving Repr, Inhabited, DecidableEq

/-- the dataclass `KSortVar(name)` -/
structure PyKSortVar where
  name : Nat
deriving Repr, Inhabited, DecidableEq

/-- `KSort | KSortVar` -/
inductive PySortRef where
  | sort (s : PyKSortH)
  | var (v : PyKSortVar)
deriving Repr, Inhabited, DecidableEq

/-- the dataclass `KSymbol` -/
structure PyKSymbol where
  name : Nat
  sort_params : List PyKSortVar
  output_sort : PySortRef
  input_sorts : List PySortRef
  is_functional : Bool
  is_ctor : Bool
  is_cell : Bool
deriving Repr, Inhabited, DecidableEq

/-- `KModule`: `counter` and `_imported_modules` hold references -/
structure PyKModule where
  _name : Nat
  counter : Nat
  _parsing : Option Bool
  _imported_modules : List Nat
  _sorts : KDict PyKSortH
  _symbols : KDict PyKSymbol
  _axioms : KDict PyAxiom
deriving Repr, Inhabited

/-- the `LanguageSemantics` object and the store (`modules`, `counters`) -/
structure PyLS where
  _parsing : Option Bool
  _imported_modules : List Nat
  _cached_axiom_scopes : KDict PyScope
  _inferred_notations : List PyNotation
  modules : List PyKModule
  counters : List Nat
deriving Inhabited

/-! ## the store -/
/-- dereference a `KModule` -/
def getMod {β} (h : PyLS) (r : Nat) (cont : PyKModule → Py β) : Py β :=
  match h.modules[r]? with
  | some m => cont m
  | none => raise
/-- write a `KModule` object back -/
def setMod (h : PyLS) (r : Nat) (m : PyKModule) : PyLS := { h with modules := h.modules.set r m }
/-- a new `KModule` object -/
def newModule (h : PyLS) (m : PyKModule) : PyLS × Nat := ({ h with modules := h.modules ++ [m] }, h.modules.length)
/-- `itertools.count()` -/
def newCounter (h : PyLS) : PyLS × Nat := ({ h with counters := h.counters ++ [0] }, h.counters.length)
/-- `next(c)` -/
def nextCounter {β} (h : PyLS) (c : Nat) (cont : PyLS × Nat → Py β) : Py β :=
  match h.counters[c]? with
  | some v => cont ({ h with counters := h.counters.set c (v + 1) }, v)
  | none => raise
/-- an attribute that may not have been assigned yet (`AttributeError`) -/
def attrGet {α β} (a : Option α) (cont : α → Py β) : Py β :=
  match a with
  | some v => cont v
  | none => raise

/-! ## sets of objects -/
abbrev SetOrder := List Nat → List Nat
def SetOrder.Valid (so : SetOrder) : Prop := ∀ l, (so l).Perm l
/-- `s.add(x)` -/
def setAdd (s : List Nat) (x : Nat) : List Nat := if s.contains x then s else s ++ [x]
/-- `s.update(xs)` -/
def setUpdate (s : List Nat) (xs : List Nat) : List Nat := xs.foldl setAdd s
/-- iterating a set -/
def setIter (so : SetOrder) (s : List Nat) : List Nat := so s
/-- `dict.fromkeys(xs)` of a sequence of objects (then iterated): first occurrences, in order -/
def fromkeys (xs : List Nat) : List Nat := xs.foldl setAdd []

/-! ## small words -/
/-- `{k: v for …}` / `dict(pairs)`: a later entry for a key replaces the value and keeps the position -/
def kDictOf {α} (kvs : List (Nat × α)) : KDict α := kvs.foldl (fun d kv => kSet d kv.1 kv.2) []
/-- `t[-1]` (`IndexError`) -/
def lastOf {α β} (t : List α) (cont : α → Py β) : Py β :=
  match t.getLast? with
  | some v => cont v
  | none => raise
/-- `t[i]` (`IndexError`) -/
def listIndex {α β} (t : List α) (i : Nat) (cont : α → Py β) : Py β :=
  match t[i]? with
  | some v => cont v
  | none => raise
/-- `any(f(x) for x in xs)` -/
def anyPy {α} : List α → (α → Py Bool) → Py Bool
  | [], _ => ret false
  | x :: xs, f => call (f x) fun b => if b then ret true else anyPy xs f
/-- `try: BODY  except ValueError: HANDLER` where BODY ends in `return` (the translator checks that BODY can only
raise `ValueError`) -/
def tryExcept {α} (body handler : Py α) : Py α :=
  match body with
  | some none => handler
  | r => r
/-- `sym.name` of a value annotated `Symbol` -/
def symName {β} (p : NPat) (cont : Nat → Py β) : Py β :=
  match p with
  | .sym s => cont s
  | _ => raise
/-- `name.startswith(pre)` for the number of an ML symbol name (`symbolName pre k`) -/
def nameStartsWith (s : Nat) (pre : String) : Bool :=
  if pre == "ksym_" then decide (s ≥ 2001 ∧ s < 100000 ∧ (s - 2001) % 2 = 0)
  else if pre == "ksort_" then decide (s ≥ 2000 ∧ s < 100000 ∧ (s - 2000) % 2 = 0) else false
/-- `name.removeprefix(pre)`: the Kore name `k` with `symbolName pre k = s` -/
def nameRemovePrefix (s : Nat) (pre : String) : Nat :=
  if pre == "ksym_" then (s - 2001) / 2 else if pre == "ksort_" then (s - 2000) / 2 else s
/-- an attribute of a `pyk.kore.syntax` object that its class may not have (`AttributeError`) -/
def kattr {α β} (a : Option α) (cont : α → Py β) : Py β :=
  match a with
  | some v => cont v
  | none => raise

/-! ## the view of the store that `Pi2/Gen/PyKore.lean` works on -/
/-- what the conversion and the trace generator use of a `KSymbol` -/
def symDeclOf (s : PyKSymbol) : SymDecl :=
  { name := s.name, nSortParams := s.sort_params.length, nInputs := s.input_sorts.length, isCell := s.is_cell,
    isFunctional := s.is_functional, isKseq := s.name == strName "kseq" }
/-- the declarations of all modules of the store, in allocation order -/
def sigView (h : PyLS) : Sig :=
  { sorts := h.modules.flatMap fun m => m._sorts.map (·.1),
    symbols := h.modules.flatMap fun m => m._symbols.map fun kv => symDeclOf kv.2 }
def semView (h : PyLS) : PySem := { sg := sigView h, _cached_axiom_scopes := h._cached_axiom_scopes }
/-- the cache that a function of `Pi2/Gen/PyKore.lean` has changed -/
def semBack (h : PyLS) (s : PySem) : PyLS := { h with _cached_axiom_scopes := s._cached_axiom_scopes }

end PyK
