import Pi2.Machine
import Pi2.InstUThm
/-!
# The shape of the patterns the machine can build, and `instantiate_in_place` on them

`Pat.instU` (the Rust `instantiate_internal`, with its "unchanged" optimisation) and `Pat.inst` (the model the soundness
proof is about) differ on a substitution node whose head is *not* rebuilt by `apply_esubst` / `apply_ssubst`
(`Pi2.InstUThm`).  `Pat.Shape` of `Pi2.NotationThm` (all `mv` have empty freshness lists) is sufficient but is not an
invariant of the machine: `MetaVar` pushes metavariables with arbitrary constraint lists.  `RShape` below is the exact
condition ("re-applying the substitution of a node to its unchanged children rebuilds the node"), it is implied by
`Shape`, it holds for the axioms, and every instruction preserves it (`step_RShape`): so it holds for every term the
machine ever has on its stack or in its memory (`run_RShape`), starting from the empty state of `verify`.
-/
open Pat
namespace Pat

/-- `apply_esubst` of `x` wraps `p` in an `ESubst` node -/
def rebuildE (x : VId) : Pat → Bool
  | mv _ ef _ _ _ _ => !ef.contains x
  | esub .. => true | ssub .. => true
  | _ => false

/-- `apply_ssubst` of `X` wraps `p` in an `SSubst` node -/
def rebuildS (X : VId) : Pat → Bool
  | mv _ _ sf _ _ _ => !sf.contains X
  | esub .. => true | ssub .. => true
  | _ => false

/-- every substitution node is rebuilt by re-applying its substitution -/
def RShape : Pat → Bool
  | evar _ => true | svar _ => true | sym _ => true | mv .. => true
  | imp l r => l.RShape && r.RShape
  | app l r => l.RShape && r.RShape
  | ex _ p => p.RShape | mu _ p => p.RShape
  | esub p x q => p.rebuildE x && p.RShape && q.RShape
  | ssub p X q => p.rebuildS X && p.RShape && q.RShape

theorem Shape_RShape (p : Pat) (h : p.Shape = true) : p.RShape = true := by
  induction p with
  | esub p x q ihp ihq =>
    simp only [Shape, Bool.and_eq_true] at h
    obtain ⟨⟨hm, hp⟩, hq⟩ := h
    simp only [RShape, Bool.and_eq_true, ihp hp, ihq hq, and_true]
    cases p <;> simp_all [isMeta, rebuildE, Shape]
  | ssub p x q ihp ihq =>
    simp only [Shape, Bool.and_eq_true] at h
    obtain ⟨⟨hm, hp⟩, hq⟩ := h
    simp only [RShape, Bool.and_eq_true, ihp hp, ihq hq, and_true]
    cases p <;> simp_all [isMeta, rebuildS, Shape]
  | _ => simp_all [Shape, RShape]

theorem applyESubst_rebuild (x : VId) (q p : Pat) (h : p.rebuildE x = true) :
    applyESubst x q p = some (esub p x q) := by
  cases p <;> simp_all [rebuildE, applyESubst]

theorem applySSubst_rebuild (X : VId) (q p : Pat) (h : p.rebuildS X = true) :
    applySSubst X q p = some (ssub p X q) := by
  cases p <;> simp_all [rebuildS, applySSubst]

theorem RShape_applyESubst (x : VId) (q : Pat) (hq : q.RShape = true) (p : Pat) (hp : p.RShape = true) :
    ∀ r, applyESubst x q p = some r → r.RShape = true := by
  induction p with
  | evar y =>
    intro r h; simp only [applyESubst] at h
    split at h <;> (simp at h; subst h) <;> first | exact hq | rfl
  | svar y => intro r h; simp [applyESubst] at h; subst h; rfl
  | sym y => intro r h; simp [applyESubst] at h; subst h; rfl
  | mv id ef sf ps ns hs =>
    intro r h; simp only [applyESubst] at h
    split at h <;> simp at h <;> subst h <;> simp_all [RShape, rebuildE]
  | imp l r ihl ihr =>
    intro t h
    simp only [RShape, Bool.and_eq_true] at hp
    simp only [applyESubst] at h
    cases hl : applyESubst x q l with
    | none => simp [hl] at h
    | some l' =>
      cases hr : applyESubst x q r with
      | none => simp [hl, hr] at h
      | some r' =>
        simp [hl, hr] at h; subst h
        simp [RShape, ihl hp.1 l' hl, ihr hp.2 r' hr]
  | app l r ihl ihr =>
    intro t h
    simp only [RShape, Bool.and_eq_true] at hp
    simp only [applyESubst] at h
    cases hl : applyESubst x q l with
    | none => simp [hl] at h
    | some l' =>
      cases hr : applyESubst x q r with
      | none => simp [hl, hr] at h
      | some r' =>
        simp [hl, hr] at h; subst h
        simp [RShape, ihl hp.1 l' hl, ihr hp.2 r' hr]
  | ex y p ih =>
    intro t h
    simp only [RShape] at hp
    simp only [applyESubst] at h
    split at h
    · simp at h; subst h; simpa [RShape] using hp
    · split at h
      · cases hp' : applyESubst x q p with
        | none => simp [hp'] at h
        | some p' => simp [hp'] at h; subst h; simpa [RShape] using ih hp p' hp'
      · simp at h
  | mu y p ih =>
    intro t h
    simp only [RShape] at hp
    simp only [applyESubst] at h
    split at h
    · cases hp' : applyESubst x q p with
      | none => simp [hp'] at h
      | some p' => simp [hp'] at h; subst h; simpa [RShape] using ih hp p' hp'
    · simp at h
  | esub p y r _ _ => intro t h; simp [applyESubst] at h; subst h; simp_all [RShape, rebuildE]
  | ssub p y r _ _ => intro t h; simp [applyESubst] at h; subst h; simp_all [RShape, rebuildE]

theorem RShape_applySSubst (X : VId) (q : Pat) (hq : q.RShape = true) (p : Pat) (hp : p.RShape = true) :
    ∀ r, applySSubst X q p = some r → r.RShape = true := by
  induction p with
  | svar y =>
    intro r h; simp only [applySSubst] at h
    split at h <;> (simp at h; subst h) <;> first | exact hq | rfl
  | evar y => intro r h; simp [applySSubst] at h; subst h; rfl
  | sym y => intro r h; simp [applySSubst] at h; subst h; rfl
  | mv id ef sf ps ns hs =>
    intro r h; simp only [applySSubst] at h
    split at h <;> simp at h <;> subst h <;> simp_all [RShape, rebuildS]
  | imp l r ihl ihr =>
    intro t h
    simp only [RShape, Bool.and_eq_true] at hp
    simp only [applySSubst] at h
    cases hl : applySSubst X q l with
    | none => simp [hl] at h
    | some l' =>
      cases hr : applySSubst X q r with
      | none => simp [hl, hr] at h
      | some r' =>
        simp [hl, hr] at h; subst h
        simp [RShape, ihl hp.1 l' hl, ihr hp.2 r' hr]
  | app l r ihl ihr =>
    intro t h
    simp only [RShape, Bool.and_eq_true] at hp
    simp only [applySSubst] at h
    cases hl : applySSubst X q l with
    | none => simp [hl] at h
    | some l' =>
      cases hr : applySSubst X q r with
      | none => simp [hl, hr] at h
      | some r' =>
        simp [hl, hr] at h; subst h
        simp [RShape, ihl hp.1 l' hl, ihr hp.2 r' hr]
  | mu y p ih =>
    intro t h
    simp only [RShape] at hp
    simp only [applySSubst] at h
    split at h
    · simp at h; subst h; simpa [RShape] using hp
    · split at h
      · cases hp' : applySSubst X q p with
        | none => simp [hp'] at h
        | some p' => simp [hp'] at h; subst h; simpa [RShape] using ih hp p' hp'
      · simp at h
  | ex y p ih =>
    intro t h
    simp only [RShape] at hp
    simp only [applySSubst] at h
    split at h
    · cases hp' : applySSubst X q p with
      | none => simp [hp'] at h
      | some p' => simp [hp'] at h; subst h; simpa [RShape] using ih hp p' hp'
    · simp at h
  | esub p y r _ _ => intro t h; simp [applySSubst] at h; subst h; simp_all [RShape, rebuildS]
  | ssub p y r _ _ => intro t h; simp [applySSubst] at h; subst h; simp_all [RShape, rebuildS]

theorem RShape_inst (θ : VId → Option Pat) (hθ : ∀ k v, θ k = some v → v.RShape = true) (p : Pat)
    (hp : p.RShape = true) : ∀ r, inst θ p = some r → r.RShape = true := by
  induction p with
  | evar y => intro r h; simp [inst] at h; subst h; rfl
  | svar y => intro r h; simp [inst] at h; subst h; rfl
  | sym y => intro r h; simp [inst] at h; subst h; rfl
  | mv id ef sf ps ns hs =>
    intro r h; simp only [inst] at h
    cases hk : θ id with
    | none => simp [hk] at h; subst h; rfl
    | some v =>
      simp only [hk] at h
      split at h
      · simp at h; subst h; exact hθ id v hk
      · simp at h
  | imp l r ihl ihr =>
    intro t h
    simp only [RShape, Bool.and_eq_true] at hp
    simp only [inst] at h
    cases hl : inst θ l with
    | none => simp [hl] at h
    | some l' =>
      cases hr : inst θ r with
      | none => simp [hl, hr] at h
      | some r' =>
        simp [hl, hr] at h; subst h
        simp [RShape, ihl hp.1 l' hl, ihr hp.2 r' hr]
  | app l r ihl ihr =>
    intro t h
    simp only [RShape, Bool.and_eq_true] at hp
    simp only [inst] at h
    cases hl : inst θ l with
    | none => simp [hl] at h
    | some l' =>
      cases hr : inst θ r with
      | none => simp [hl, hr] at h
      | some r' =>
        simp [hl, hr] at h; subst h
        simp [RShape, ihl hp.1 l' hl, ihr hp.2 r' hr]
  | ex y p ih =>
    intro t h
    simp only [RShape] at hp
    simp only [inst] at h
    cases hp' : inst θ p with
    | none => simp [hp'] at h
    | some p' => simp [hp'] at h; subst h; simpa [RShape] using ih hp p' hp'
  | mu y p ih =>
    intro t h
    simp only [RShape] at hp
    simp only [inst] at h
    cases hp' : inst θ p with
    | none => simp [hp'] at h
    | some p' => simp [hp'] at h; subst h; simpa [RShape] using ih hp p' hp'
  | esub p y q ihp ihq =>
    intro t h
    simp only [RShape, Bool.and_eq_true] at hp
    simp only [inst] at h
    cases hp' : inst θ p with
    | none => simp [hp'] at h
    | some p' =>
      cases hq' : inst θ q with
      | none => simp [hp', hq'] at h
      | some q' =>
        simp [hp', hq'] at h
        exact RShape_applyESubst y q' (ihq hp.2 q' hq') p' (ihp hp.1.2 p' hp') t h
  | ssub p y q ihp ihq =>
    intro t h
    simp only [RShape, Bool.and_eq_true] at hp
    simp only [inst] at h
    cases hp' : inst θ p with
    | none => simp [hp'] at h
    | some p' =>
      cases hq' : inst θ q with
      | none => simp [hp', hq'] at h
      | some q' =>
        simp [hp', hq'] at h
        exact RShape_applySSubst y q' (ihq hp.2 q' hq') p' (ihp hp.1.2 p' hp') t h

/-- `instantiate_in_place` (Rust, `instU`) = the simple model `inst`, on every pattern the machine can build.
Generalises `instU_eq_inst` (`Shape` implies `RShape`). -/
theorem instU_eq_inst_RShape (vars : List VId) (plugs : List Pat) (hlen : vars.length = plugs.length)
    (p : Pat) (hs : p.RShape = true) :
    (instU vars plugs p).map (·.getD p) = inst (lookupPlug vars plugs) p := by
  induction p with
  | evar x => simp [instU, inst]
  | svar x => simp [instU, inst]
  | sym x => simp [instU, inst]
  | mv id ef sf ps ns holes =>
    simp only [instU, inst, lookupPlug_eq_idxOf vars plugs hlen]
    cases hq : List.idxOf? id vars with
    | none => simp
    | some pos =>
      have hlt : pos < plugs.length := hlen ▸ idxOf_lt vars id pos hq
      simp only [Option.bind_some, List.getElem?_eq_getElem hlt]
      split <;> simp
  | imp l r ihl ihr =>
    simp only [RShape, Bool.and_eq_true] at hs
    simp only [instU, inst, ← ihl hs.1, ← ihr hs.2]
    cases instU vars plugs l with
    | none => simp
    | some a =>
      cases instU vars plugs r with
      | none => simp
      | some b => cases a <;> cases b <;> simp
  | app l r ihl ihr =>
    simp only [RShape, Bool.and_eq_true] at hs
    simp only [instU, inst, ← ihl hs.1, ← ihr hs.2]
    cases instU vars plugs l with
    | none => simp
    | some a =>
      cases instU vars plugs r with
      | none => simp
      | some b => cases a <;> cases b <;> simp
  | ex x p ih =>
    simp only [RShape] at hs
    simp only [instU, inst, ← ih hs]
    cases instU vars plugs p with
    | none => simp
    | some a => cases a <;> simp
  | mu x p ih =>
    simp only [RShape] at hs
    simp only [instU, inst, ← ih hs]
    cases instU vars plugs p with
    | none => simp
    | some a => cases a <;> simp
  | esub p x plug ihp ihq =>
    simp only [RShape, Bool.and_eq_true] at hs
    obtain ⟨⟨hm, hsp⟩, hsq⟩ := hs
    simp only [instU, inst, ← ihp hsp, ← ihq hsq]
    cases instU vars plugs p with
    | none => simp
    | some a =>
      cases instU vars plugs plug with
      | none => simp
      | some b =>
        cases a <;> cases b <;> simp [applyESubst_rebuild _ _ _ hm, Option.map_map, map_getD_some]
  | ssub p x plug ihp ihq =>
    simp only [RShape, Bool.and_eq_true] at hs
    obtain ⟨⟨hm, hsp⟩, hsq⟩ := hs
    simp only [instU, inst, ← ihp hsp, ← ihq hsq]
    cases instU vars plugs p with
    | none => simp
    | some a =>
      cases instU vars plugs plug with
      | none => simp
      | some b =>
        cases a <;> cases b <;> simp [applySSubst_rebuild _ _ _ hm, Option.map_map, map_getD_some]

theorem lookupPlug_mem : ∀ (ids : List VId) (plugs : List Pat) (k : VId) (v : Pat),
    lookupPlug ids plugs k = some v → v ∈ plugs := by
  intro ids
  induction ids with
  | nil => intro plugs k v h; simp [lookupPlug] at h
  | cons i is ih =>
    intro plugs k v h
    cases plugs with
    | nil => simp [lookupPlug] at h
    | cons p ps =>
      simp only [lookupPlug] at h
      split at h
      · simp at h; subst h; simp
      · exact List.mem_cons_of_mem _ (ih ps k v h)

end Pat

/-! ## the machine invariant -/

def Term.RShape : Term → Bool
  | .pat p => p.RShape
  | .proved p => p.RShape

/-- every term on the stack and in the memory is `RShape` (the claims are only ever compared) -/
def St.RShape (s : St) : Bool := s.stack.all Term.RShape && s.memory.all Term.RShape

theorem St.RShape_empty : St.RShape ⟨[], [], []⟩ = true := rfl

theorem St.RShape_clear {s : St} (h : s.RShape = true) : St.RShape { s with stack := [] } = true := by
  simp only [St.RShape, Bool.and_eq_true] at h ⊢; exact ⟨by simp, h.2⟩

theorem popPats_RShape : ∀ (n : Nat) (st : List Term) (ps : List Pat) (st' : List Term),
    popPats n st = some (ps, st') → st.all Term.RShape = true →
    ps.all Pat.RShape = true ∧ st'.all Term.RShape = true ∧ ps.length = n := by
  intro n
  induction n with
  | zero => intro st ps st' h hst; simp [popPats] at h; obtain ⟨rfl, rfl⟩ := h; simp; simpa using hst
  | succ n ih =>
    intro st ps st' h hst
    cases st with
    | nil => simp [popPats] at h
    | cons t ts =>
      cases t with
      | proved q => simp [popPats] at h
      | pat q =>
        simp only [popPats, Option.map_eq_some_iff] at h
        obtain ⟨⟨ps0, st0⟩, h0, heq⟩ := h
        simp at heq; obtain ⟨rfl, rfl⟩ := heq
        simp only [List.all_cons, Bool.and_eq_true, Term.RShape] at hst
        have ⟨h1, h2, h3⟩ := ih ts ps0 st0 h0 hst.2
        simp [h1, h2, h3, hst.1]

theorem axioms_RShape : prop1P.RShape = true ∧ prop2P.RShape = true ∧ prop3P.RShape = true ∧
    quantP.RShape = true ∧ existP.RShape = true := by decide

/-- every instruction preserves the invariant -/
theorem step_RShape (ph : Phase) (s s' : St) (i : Instr) (j : Option Pat)
    (h : step ph s i = some (s', j)) (hs : s.RShape = true) : s'.RShape = true := by
  obtain ⟨stk, mem, cl⟩ := s
  simp only [St.RShape, Bool.and_eq_true] at hs
  obtain ⟨hstk, hmem⟩ := hs
  cases i <;> simp only [step] at h
  case subst x =>
    split at h
    · rename_i p plug st
      simp only [List.all_cons, Bool.and_eq_true, Term.RShape] at hstk
      simp only [Option.map_eq_some_iff] at h
      obtain ⟨r, hr, heq⟩ := h
      simp at heq; obtain ⟨rfl, _⟩ := heq
      have := Pat.RShape_applySSubst x plug hstk.2.1 p hstk.1 r hr
      simp [St.RShape, Term.RShape, this, hstk.2.2, hmem]
    · simp at h
  case instantiate ids =>
    split at h
    · rename_i p st
      simp only [List.all_cons, Bool.and_eq_true, Term.RShape] at hstk
      cases hpp : popPats ids.length st with
      | none => simp [hpp] at h
      | some pr =>
        obtain ⟨plugs, st'⟩ := pr
        have ⟨h1, h2, _⟩ := popPats_RShape _ _ _ _ hpp hstk.2
        cases hi : Pat.inst (Pat.lookupPlug ids plugs) p with
        | none => simp [hpp, hi] at h
        | some r =>
          simp [hpp, hi] at h; obtain ⟨rfl, _⟩ := h
          have := Pat.RShape_inst _ (fun k v hk => List.all_eq_true.mp h1 v (Pat.lookupPlug_mem ids plugs k v hk)) p hstk.1 r hi
          simp [St.RShape, Term.RShape, this, h2, hmem]
    · rename_i p st
      simp only [List.all_cons, Bool.and_eq_true, Term.RShape] at hstk
      cases hpp : popPats ids.length st with
      | none => simp [hpp] at h
      | some pr =>
        obtain ⟨plugs, st'⟩ := pr
        have ⟨h1, h2, _⟩ := popPats_RShape _ _ _ _ hpp hstk.2
        cases hi : Pat.inst (Pat.lookupPlug ids plugs) p with
        | none => simp [hpp, hi] at h
        | some r =>
          simp [hpp, hi] at h; obtain ⟨rfl, _⟩ := h
          have := Pat.RShape_inst _ (fun k v hk => List.all_eq_true.mp h1 v (Pat.lookupPlug_mem ids plugs k v hk)) p hstk.1 r hi
          simp [St.RShape, Term.RShape, this, h2, hmem]
    · simp at h
  case load i =>
    simp only [Option.map_eq_some_iff] at h
    obtain ⟨t, ht, heq⟩ := h
    simp at heq; obtain ⟨rfl, _⟩ := heq
    have : t.RShape = true := List.all_eq_true.mp hmem t (List.mem_of_getElem? ht)
    simp [St.RShape, this, hstk, hmem]
  case esubst x =>
    split at h
    · rename_i p plug st
      split at h
      · rename_i hc
        simp only [Option.some.injEq, Prod.mk.injEq] at h
        obtain ⟨rfl, _⟩ := h
        simp only [List.all_cons, Bool.and_eq_true, Term.RShape] at hstk
        have : p.rebuildE x = true := by cases p <;> simp_all [Pat.isMeta, Pat.rebuildE, Pat.eFresh]
        simp [St.RShape, Term.RShape, Pat.RShape, this, hstk.1, hstk.2.1, hstk.2.2, hmem]
      · simp at h
    · simp at h
  case ssubst x =>
    split at h
    · rename_i p plug st
      split at h
      · rename_i hc
        simp only [Option.some.injEq, Prod.mk.injEq] at h
        obtain ⟨rfl, _⟩ := h
        simp only [List.all_cons, Bool.and_eq_true, Term.RShape] at hstk
        have : p.rebuildS x = true := by cases p <;> simp_all [Pat.isMeta, Pat.rebuildS, Pat.sFresh]
        simp [St.RShape, Term.RShape, Pat.RShape, this, hstk.1, hstk.2.1, hstk.2.2, hmem]
      · simp at h
    · simp at h
  all_goals (
    repeat' (split at h)
    all_goals (try (simp at h; done))
    all_goals (
      simp only [Option.some.injEq, Prod.mk.injEq] at h
      obtain ⟨rfl, _⟩ := h
      have hax := axioms_RShape
      simp_all [St.RShape, Term.RShape, Pat.RShape]))

theorem run_RShape (ph : Phase) : ∀ (is : List Instr) (s s' : St) (js : List Pat),
    run ph s is = some (s', js) → s.RShape = true → s'.RShape = true := by
  intro is
  induction is with
  | nil => intro s s' js h hs; simp [run] at h; obtain ⟨rfl, _⟩ := h; exact hs
  | cons i is ih =>
    intro s s' js h hs
    simp only [run] at h
    cases h1 : step ph s i with
    | none => simp [h1] at h
    | some r1 =>
      obtain ⟨s1, j⟩ := r1
      cases h2 : run ph s1 is with
      | none => simp [h1, h2] at h
      | some r2 =>
        obtain ⟨s2, js2⟩ := r2
        simp [h1, h2] at h; obtain ⟨rfl, _⟩ := h
        exact ih s1 s2 js2 h2 (step_RShape ph s s1 i j h1 hs)
