import Pi2.Tracker
/-!
# Support for the translated interpreter classes (`Pi2/Gen/PyInterp.lean`)

The target language of `vlib/transinterp.py`: the Python statements of `BasicInterpreter` /
`StatefulInterpreter` / `Interpreter.into_*_phase` are translated one by one into the combinators
below (continuation-passing, so that a method body reads top-down like the Python text).

`Py α = Option (Option α)`: outer `none` = out of fuel (`RecursionError`), inner `none` = the method
raises (`AssertionError`, `ValueError` of an unpacking, `IndexError`), as everywhere in the model.

The model's stack is `List (TTerm × Bool)` with head = top (= Python's `self.stack[-1]`); the
`Bool` is ghost state of the model (residue of a `publish_*`) that Python does not have: every
helper that reads an entry drops it, `pushTop` (`self.stack.append`) sets it to `false`.
`memory` and `claims` are in Python order.
-/
open Pat

/-- the dataclass `Proved` (`proved.py`): one field `conclusion` -/
structure Proved where
  conclusion : NPat
deriving Repr, Inhabited

/-- the dataclass `Claim` (`claim.py`): one field `pattern`; the model stores the pattern -/
abbrev Claim := NPat
def Claim.pattern (c : Claim) : NPat := c

namespace PyI

abbrev Py (α : Type) := Option (Option α)
abbrev Stack := List (TTerm × Bool)

/-- `return v` -/
def ret {α} (a : α) : Py α := some (some a)
/-- an exception -/
def raise {α} : Py α := some none
/-- the value of a call that can raise or run out of fuel -/
def call {α β} (x : Py α) (k : α → Py β) : Py β :=
  match x with
  | none => none
  | some none => some none
  | some (some a) => k a
/-- the value of an operation that can only run out of fuel -/
def fuel {α β} (x : Option α) (k : α → Py β) : Py β :=
  match x with
  | none => none
  | some a => k a
/-- `assert c` -/
def assert_ {β} (c : Bool) (k : Py β) : Py β := if c then k else raise

/-- a value of type `Proved` in a `Pattern | Proved` position -/
def ofProved (p : Proved) : TTerm := .proved p.conclusion

/-- `*rest, a = stk` (`ValueError` if `stk` is empty) -/
def unpackLast1 {β} (stk : Stack) (k : Stack → TTerm → Py β) : Py β :=
  match stk with
  | (a, _) :: st => k st a
  | _ => raise
/-- `*rest, a, b = stk`: `b` is the last element = the top -/
def unpackLast2 {β} (stk : Stack) (k : Stack → TTerm → TTerm → Py β) : Py β :=
  match stk with
  | (b, _) :: (a, _) :: st => k st a b
  | _ => raise
/-- `a, *rest = l` on a list in Python order -/
def unpackFirst1 {α β} (l : List α) (k : α → List α → Py β) : Py β :=
  match l with
  | a :: r => k a r
  | [] => raise
/-- `stk[-1]` (`IndexError` if empty) -/
def topOf {β} (stk : Stack) (k : TTerm → Py β) : Py β :=
  match stk with
  | (a, _) :: _ => k a
  | [] => raise
/-- `stk.pop()`; the continuation gets the remaining list -/
def popTop {β} (stk : Stack) (k : Stack → Py β) : Py β :=
  match stk with
  | _ :: st => k st
  | [] => raise
/-- `stk.append(t)` -/
def pushTop (stk : Stack) (t : TTerm) : Stack := (t, false) :: stk
/-- `stk[-k:]`: the last `k` elements — all of them if there are fewer, and (`-0 == 0`) the whole
list if `k = 0` -/
def sliceFromNeg (k : Nat) (stk : Stack) : Stack := if k = 0 then stk else stk.take k
/-- `stk[:-k]`: all but the last `k` elements; `[]` if `k = 0` (`stk[:0]`) -/
def sliceToNeg (k : Nat) (stk : Stack) : Stack := if k = 0 then [] else stk.drop k
/-- a stack (slice) as the Python list it is: bottom first, no ghost flags -/
def pyList (stk : Stack) : List TTerm := (stk.map (·.1)).reverse
/-- `list(delta.values())` -/
def deltaValues (δ : List (Nat × NPat)) : List NPat := δ.map (·.2)

/-- `Implies.extract(p)`: `unwrap` simplifies notation until the head is not an `Instantiate`
(`headF`), `extract` asserts the head is an `Implies` and returns `(left, right)` -/
def extractImplies {β} (n : Nat) (p : NPat) (k : NPat → NPat → Py β) : Py β :=
  match NPat.headF n p with
  | none => none
  | some (.imp l r) => k l r
  | some _ => raise

/-- `xs == ys` on lists: `False` at once if the lengths differ, otherwise element by element, left
to right, stopping at the first difference -/
def listEqF (n : Nat) (xs ys : List TTerm) : Option Bool :=
  if xs.length != ys.length then some false else go xs ys
where
  go : List TTerm → List TTerm → Option Bool
    | x :: xs, y :: ys => do
        if ← PySt.teqF n x y then go xs ys else pure false
    | _, _ => some true

/-- `t in mem`: some element `m` with `m == t`, left to right -/
def memF (n : Nat) (t : TTerm) : List TTerm → Option Bool
  | [] => some false
  | m :: r => do
      if ← PySt.teqF n m t then pure true else memF n t r

end PyI
