import Pi2.ProofThm
import Pi2.Codec
/-!
# From calls to phases to modules: the checker accepts what the generator serialises
-/
set_option linter.unusedSimpArgs false
set_option linter.unusedVariables false
open PySt

/-! ## B1/B2: one phase -/

/-- everything `sim_step`/`sim_accept` ask of one call -/
def SideOK (s : PySt) (c : Call) : Prop :=
  SideCond s c ∧ touchesResidue s c = false ∧ (∀ nm, c = .symbol nm → nm ≤ s.symtab.length) ∧
  (∀ keys, (c = .instantiate keys ∨ c = .instantiatePattern keys) → keys.Nodup) ∧
  (∀ t, c = .load t → t.body.Shape = true) ∧
  (∀ id ef sf ps ns hs, c = .metavar id ef sf ps ns hs → ef = [] ∧ sf = [])

/-- the side conditions of a history of one phase, along `track1` -/
def AllSide (n : Nat) : PySt → List Call → Prop
  | _, [] => True
  | s, c :: cs => SideOK s c ∧ c ≠ .intoClaim ∧ c ≠ .intoProof ∧
      ∀ s', track1 n s c = some (some s') → AllSide n s' cs

/-- what a call publishes: the expansion of the tracker's top pattern -/
def pubOf (s : PySt) (c : Call) : List Pat :=
  match c, s.stack with
  | .publishAxiom, (.pat a, _) :: _ => [a.expand]
  | .publishClaim, (.pat a, _) :: _ => [a.expand]
  | _, _ => []

/-- the journal of a history, along `track1` -/
def published (n : Nat) : PySt → List Call → List Pat
  | _, [] => []
  | s, c :: cs => pubOf s c ++
      (match track1 n s c with
       | some (some s') => published n s' cs
       | _ => [])

theorem pubOf_quiet (s : PySt) (c : Call) (h : c ≠ .publishAxiom) (h' : c ≠ .publishClaim) :
    pubOf s c = [] := by
  unfold pubOf
  split
  · exact absurd rfl h
  · exact absurd rfl h'
  · rfl

theorem step_nopub (ph : Phase) (m m' : St) (i : Instr) (j : Option Pat) (hi : i ≠ .publish)
    (h : step ph m i = some (m', j)) : j = none ∧ m'.claims = m.claims := by
  cases i with
  | publish => exact absurd rfl hi
  | instantiate ids =>
    simp only [step] at h
    split at h
    · simp only [Option.bind_eq_bind, Option.bind_eq_some_iff, Option.pure_def, Option.some.injEq,
        Prod.mk.injEq] at h
      obtain ⟨_, _, _, _, rfl, rfl⟩ := h
      exact ⟨rfl, rfl⟩
    · simp only [Option.bind_eq_bind, Option.bind_eq_some_iff, Option.pure_def, Option.some.injEq,
        Prod.mk.injEq] at h
      obtain ⟨_, _, _, _, rfl, rfl⟩ := h
      exact ⟨rfl, rfl⟩
    · simp at h
  | subst x =>
    simp only [step] at h
    split at h
    · simp only [Option.map_eq_some_iff, Prod.mk.injEq] at h
      obtain ⟨_, _, rfl, rfl⟩ := h
      exact ⟨rfl, rfl⟩
    · simp at h
  | load k =>
    simp only [step, Option.map_eq_some_iff, Prod.mk.injEq] at h
    obtain ⟨_, _, rfl, rfl⟩ := h
    exact ⟨rfl, rfl⟩
  | _ =>
    simp only [step] at h
    repeat' (split at h)
    all_goals first
      | (simp only [Option.some.injEq, Prod.mk.injEq] at h; obtain ⟨rfl, rfl⟩ := h; exact ⟨rfl, rfl⟩)
      | (simp at h)

/-- what the machine publishes for the instruction of a call is what the tracker publishes -/
theorem step_journal (n : Nat) (s s' : PySt) (m m' : St) (c : Call) (i : Instr) (j : Option Pat)
    (hR : R s m) (hres : touchesResidue s c = false)
    (he : emit1 n s c = some (some [i])) (ht : track1 n s c = some (some s'))
    (hstep : step s.phase m i = some (m', j)) : j.toList = pubOf s c := by
  by_cases hpub : c = .publishAxiom ∨ c = .publishClaim ∨ c = .publishProof
  · rcases hpub with rfl | rfl | rfl
    · simp only [emit1, Option.some.injEq, List.cons.injEq, and_true] at he; subst he
      simp only [track1] at ht
      split at ht
      · next a b st hph hs =>
        simp only [touchesResidue, Call.arity, hs, List.take_succ_cons, List.take_zero,
          List.any_cons, List.any_nil, Bool.or_false] at hres
        subst hres
        have hm : m.stack = .pat a.expand :: (live st).map convT := by
          rw [hR.stack, hs]; simp [convT]
        simp only [step, hph, hm, Option.some.injEq, Prod.mk.injEq] at hstep
        rw [← hstep.2]
        simp [pubOf, hs]
      · simp at ht
    · simp only [emit1, Option.some.injEq, List.cons.injEq, and_true] at he; subst he
      simp only [track1] at ht
      split at ht
      · next a b st hph hs =>
        simp only [touchesResidue, Call.arity, hs, List.take_succ_cons, List.take_zero,
          List.any_cons, List.any_nil, Bool.or_false] at hres
        subst hres
        have hm : m.stack = .pat a.expand :: (live st).map convT := by
          rw [hR.stack, hs]; simp [convT]
        simp only [step, hph, hm, Option.some.injEq, Prod.mk.injEq] at hstep
        rw [← hstep.2]
        simp [pubOf, hs]
      · simp at ht
    · simp only [emit1, Option.some.injEq, List.cons.injEq, and_true] at he; subst he
      simp only [track1] at ht
      split at ht
      · next t b st c0 cs hph hs hcl =>
        rw [pubOf_quiet _ _ (by simp) (by simp)]
        simp only [step, hph] at hstep
        split at hstep
        · split at hstep
          · simp only [Option.some.injEq, Prod.mk.injEq] at hstep
            rw [← hstep.2]; rfl
          · simp at hstep
        · simp at hstep
      · simp at ht
  · have h1 : c ≠ .publishAxiom := fun e => hpub (Or.inl e)
    have h2 : c ≠ .publishClaim := fun e => hpub (Or.inr (Or.inl e))
    have h3 : c ≠ .publishProof := fun e => hpub (Or.inr (Or.inr e))
    rw [pubOf_quiet s c h1 h2]
    have hi : i ≠ .publish := by
      intro e; subst e
      cases c with
      | publishAxiom => exact h1 rfl
      | publishClaim => exact h2 rfl
      | publishProof => exact h3 rfl
      | metavar id ef sf ps ns hs =>
        simp only [emit1] at he
        split at he <;> simp at he
      | load t =>
        simp only [emit1, Option.bind_eq_bind, Option.bind_eq_some_iff] at he
        obtain ⟨oi, _, he⟩ := he
        cases oi <;> simp at he
      | _ => simp [emit1] at he
    rw [(step_nopub _ _ _ _ _ hi hstep).1]; rfl

/-- B1 + B2: within one phase the machine accepts everything the tracker emitted, ends related, and
publishes exactly what the tracker published -/
theorem trackAll_sim_pub (n : Nat) : ∀ (cs : List Call) (s s' : PySt) (m : St)
    (out out' : List Instr × List Instr × List Instr),
    R s m → ShapeSt s → CanonTab s.symtab → AllSide n s cs →
    PySt.trackAll n s cs out = some (some (s', out')) →
    ∃ is m' js, out' = addOut s.phase out is ∧ run s.phase m is = some (m', js) ∧
      R s' m' ∧ ShapeSt s' ∧ CanonTab s'.symtab ∧ js = published n s cs ∧
      s'.phase = s.phase := by
  intro cs
  induction cs with
  | nil =>
    intro s s' m out out' hR hSh hC _ h
    simp only [PySt.trackAll, Option.some.injEq, Prod.mk.injEq] at h
    obtain ⟨rfl, rfl⟩ := h
    exact ⟨[], m, [], by cases s.phase <;> simp [addOut], by simp [run], hR, hSh, hC,
      by simp [published], rfl⟩
  | cons c cs ih =>
    intro s s' m out out' hR hSh hC hside h
    obtain ⟨g, cl, pf⟩ := out
    obtain ⟨⟨hsc, hres, hsym, hkeys, hload, hmv⟩, hnc, hnp, hrest⟩ := hside
    simp only [PySt.trackAll, Option.bind_eq_bind, Option.bind_eq_some_iff] at h
    obtain ⟨oe, he, h⟩ := h
    cases oe with
    | none => simp at h
    | some is1 =>
      simp only [Option.bind_eq_some_iff] at h
      obtain ⟨os, hs, h⟩ := h
      cases os with
      | none => simp at h
      | some s1 =>
        simp only [] at h
        obtain ⟨i, rfl, hacc, hsim, hsh1, hc1⟩ :=
          sim1 n s s1 m c is1 hR hSh hC hsym hkeys hload hmv hnc hnp hres hs he
        obtain ⟨⟨m1, j⟩, hstep⟩ := Option.isSome_iff_exists.mp (hacc hsc)
        have hR1 := hsim m1 j hstep
        have hph : s1.phase = s.phase := (track1_pres n s s1 c hSh hload hmv hs).2.1 hnc hnp
        have hj := step_journal n s s1 m m1 c i j hR hres he hs hstep
        obtain ⟨is2, m', js2, hout, hrun, hR', hsh', hc', hjs, hph'⟩ :=
          ih s1 s' m1 _ out' hR1 hsh1 hc1 (hrest s1 hs) h
        refine ⟨i :: is2, m', j.toList ++ js2, ?_, ?_, hR', hsh', hc', ?_, hph'.trans hph⟩
        · rw [hout, hph, show (i :: is2) = [i] ++ is2 from rfl, ← addOut_addOut]
          cases s.phase <;> rfl
        · rw [hph] at hrun
          simp [run, hstep, hrun]
        · simp only [published, hs, hj, hjs]

/-- B1 -/
theorem trackAll_sim (n : Nat) : ∀ (cs : List Call) (s s' : PySt) (m : St)
    (out out' : List Instr × List Instr × List Instr),
    R s m → ShapeSt s → CanonTab s.symtab → AllSide n s cs →
    PySt.trackAll n s cs out = some (some (s', out')) →
    ∃ is m' js, out' = addOut s.phase out is ∧ run s.phase m is = some (m', js) ∧
      R s' m' ∧ ShapeSt s' ∧ CanonTab s'.symtab := by
  intro cs s s' m out out' hR hSh hC hside h
  obtain ⟨is, m', js, h1, h2, h3, h4, h5, _⟩ :=
    trackAll_sim_pub n cs s s' m out out' hR hSh hC hside h
  exact ⟨is, m', js, h1, h2, h3, h4, h5⟩

/-! ## B3: modules -/

/-! ### the machine's claim stack -/

theorem step_claims (ph : Phase) (m m' : St) (i : Instr) (j : Option Pat)
    (h : step ph m i = some (m', j)) :
    (ph = .gamma → m'.claims = m.claims) ∧ (ph = .claim → m'.claims = j.toList ++ m.claims) := by
  by_cases hi : i = .publish
  · subst hi
    cases ph with
    | gamma =>
      refine ⟨fun _ => ?_, (fun e => by cases e)⟩
      simp only [step] at h
      split at h
      · simp only [Option.some.injEq, Prod.mk.injEq] at h
        obtain ⟨rfl, _⟩ := h; rfl
      · simp at h
    | claim =>
      refine ⟨(fun e => by cases e), fun _ => ?_⟩
      simp only [step] at h
      split at h
      · simp only [Option.some.injEq, Prod.mk.injEq] at h
        obtain ⟨rfl, rfl⟩ := h; rfl
      · simp at h
    | proof => exact ⟨(fun e => by cases e), (fun e => by cases e)⟩
  · obtain ⟨rfl, hc⟩ := step_nopub ph m m' i j hi h
    exact ⟨fun _ => hc, fun _ => by simpa using hc⟩

theorem run_claims (ph : Phase) : ∀ (is : List Instr) (m m' : St) (js : List Pat),
    run ph m is = some (m', js) →
    (ph = .gamma → m'.claims = m.claims) ∧ (ph = .claim → m'.claims = js.reverse ++ m.claims) := by
  intro is
  induction is with
  | nil =>
    intro m m' js h
    simp only [run, Option.some.injEq, Prod.mk.injEq] at h
    obtain ⟨rfl, rfl⟩ := h
    simp
  | cons i is ih =>
    intro m m' js h
    simp only [run, Option.bind_eq_bind, Option.bind_eq_some_iff, Option.pure_def,
      Option.some.injEq, Prod.mk.injEq] at h
    obtain ⟨⟨m1, j⟩, hstep, ⟨m2, js2⟩, hrun, rfl, rfl⟩ := h
    obtain ⟨hg, hc⟩ := step_claims ph m m1 i j hstep
    obtain ⟨hg2, hc2⟩ := ih m1 m2 js2 hrun
    constructor
    · intro e; rw [hg2 e, hg e]
    · intro e
      rw [hc2 e, hc e]
      cases j <;> simp

/-! ### runs of the tracker with one fuel -/

def Reach (n : Nat) : PySt → List Call → PySt → Prop
  | s, [], s' => s' = s
  | s, c :: cs, s' => ∃ s1, track1 n s c = some (some s1) ∧ Reach n s1 cs s'

theorem reach_append (n : Nat) (cs1 cs2 : List Call) (s s' : PySt) :
    Reach n s (cs1 ++ cs2) s' ↔ ∃ s1, Reach n s cs1 s1 ∧ Reach n s1 cs2 s' := by
  induction cs1 generalizing s with
  | nil => simp [Reach]
  | cons c cs ih =>
    simp only [List.cons_append, Reach, ih]
    constructor
    · rintro ⟨s1, h1, s2, h2, h3⟩; exact ⟨s2, ⟨s1, h1, h2⟩, h3⟩
    · rintro ⟨s2, ⟨s1, h1, h2⟩, h3⟩; exact ⟨s1, h1, s2, h2, h3⟩

theorem trackAll_cons (n : Nat) (s s' : PySt) (c : Call) (cs : List Call)
    (out out' : List Instr × List Instr × List Instr)
    (h : trackAll n s (c :: cs) out = some (some (s', out'))) :
    ∃ is s1, emit1 n s c = some (some is) ∧ track1 n s c = some (some s1) ∧
      trackAll n s1 cs (addOut s.phase out is) = some (some (s', out')) := by
  obtain ⟨g, cl, pf⟩ := out
  simp only [PySt.trackAll, Option.bind_eq_bind, Option.bind_eq_some_iff] at h
  obtain ⟨oe, he, h⟩ := h
  cases oe with
  | none => simp at h
  | some is1 =>
    simp only [Option.bind_eq_some_iff] at h
    obtain ⟨os, hs, h⟩ := h
    cases os with
    | none => simp at h
    | some s1 =>
      simp only [] at h
      refine ⟨is1, s1, he, hs, ?_⟩
      have : addOut s.phase (g, cl, pf) is1 = (match s.phase with
            | .gamma => (g ++ is1, cl, pf)
            | .claim => (g, cl ++ is1, pf)
            | .proof => (g, cl, pf ++ is1)) := by cases s.phase <;> rfl
      rw [this]; exact h

theorem trackAll_reach (n : Nat) : ∀ (cs : List Call) (s s' : PySt)
    (out out' : List Instr × List Instr × List Instr),
    trackAll n s cs out = some (some (s', out')) → Reach n s cs s' := by
  intro cs
  induction cs with
  | nil =>
    intro s s' out out' h
    simp only [PySt.trackAll, Option.some.injEq, Prod.mk.injEq] at h
    exact h.1.symm
  | cons c cs ih =>
    intro s s' out out' h
    obtain ⟨is, s1, _, hs, h⟩ := trackAll_cons n s s' c cs out out' h
    exact ⟨s1, hs, ih s1 s' _ out' h⟩

theorem trackAll_append (n : Nat) : ∀ (cs1 cs2 : List Call) (s s' : PySt)
    (out out' : List Instr × List Instr × List Instr),
    trackAll n s (cs1 ++ cs2) out = some (some (s', out')) →
    ∃ s1 out1, trackAll n s cs1 out = some (some (s1, out1)) ∧
      trackAll n s1 cs2 out1 = some (some (s', out')) := by
  intro cs1
  induction cs1 with
  | nil => intro cs2 s s' out out' h; exact ⟨s, out, by simp [PySt.trackAll], by simpa using h⟩
  | cons c cs ih =>
    intro cs2 s s' out out' h
    obtain ⟨g, cl, pf⟩ := out
    rw [List.cons_append] at h
    obtain ⟨is, s1, he, hs, h⟩ := trackAll_cons n s s' c (cs ++ cs2) _ out' h
    obtain ⟨s2, out2, h1, h2⟩ := ih cs2 s1 s' _ out' h
    refine ⟨s2, out2, ?_, h2⟩
    have : addOut s.phase (g, cl, pf) is = (match s.phase with
          | .gamma => (g ++ is, cl, pf)
          | .claim => (g, cl ++ is, pf)
          | .proof => (g, cl, pf ++ is)) := by cases s.phase <;> rfl
    simp only [PySt.trackAll, he, hs, Option.bind_eq_bind, Option.bind_some, ← this]
    exact h1

/-- the side conditions of a whole history; the phase switches are allowed and ask nothing -/
def AllSideM (n : Nat) : PySt → List Call → Prop
  | _, [] => True
  | s, c :: cs => ((c = .intoClaim ∨ c = .intoProof) ∨ SideOK s c) ∧
      ∀ s', track1 n s c = some (some s') → AllSideM n s' cs

theorem allSideM_append (n : Nat) (cs1 cs2 : List Call) (s s1 : PySt)
    (h : AllSideM n s (cs1 ++ cs2)) (hr : Reach n s cs1 s1) :
    AllSideM n s cs1 ∧ AllSideM n s1 cs2 := by
  induction cs1 generalizing s with
  | nil => simp only [Reach] at hr; subst hr; exact ⟨trivial, h⟩
  | cons c cs ih =>
    obtain ⟨s2, hs2, hr⟩ := hr
    obtain ⟨h1, h2⟩ := h
    obtain ⟨ha, hb⟩ := ih s2 (h2 s2 hs2) hr
    refine ⟨⟨h1, ?_⟩, hb⟩
    intro s' hs'
    rw [hs2] at hs'
    cases hs'
    exact ha

theorem allSide_of (n : Nat) (cs : List Call) (s : PySt) (h : AllSideM n s cs)
    (hns : ∀ c ∈ cs, c ≠ .intoClaim ∧ c ≠ .intoProof) : AllSide n s cs := by
  induction cs generalizing s with
  | nil => trivial
  | cons c cs ih =>
    obtain ⟨h1, h2⟩ := h
    obtain ⟨hnc, hnp⟩ := hns c (by simp)
    rcases h1 with (e | e) | hok
    · exact absurd e hnc
    · exact absurd e hnp
    · exact ⟨hok, hnc, hnp, fun s' hs' => ih s' (h2 s' hs')
        (fun x hx => hns x (List.mem_cons_of_mem _ hx))⟩

theorem published_quiet (n : Nat) (cs : List Call) (s : PySt)
    (h : ∀ c ∈ cs, c.quiet = true) : published n s cs = [] := by
  induction cs generalizing s with
  | nil => rfl
  | cons c cs ih =>
    have hq := h c (by simp)
    have h1 : c ≠ .publishAxiom := by intro e; subst e; simp [Call.quiet] at hq
    have h2 : c ≠ .publishClaim := by intro e; subst e; simp [Call.quiet] at hq
    simp only [published, pubOf_quiet s c h1 h2, List.nil_append]
    split
    · exact ih _ (fun x hx => h x (List.mem_cons_of_mem _ hx))
    · rfl

theorem published_append (n : Nat) (cs1 cs2 : List Call) (s s1 : PySt)
    (hr : Reach n s cs1 s1) :
    published n s (cs1 ++ cs2) = published n s cs1 ++ published n s1 cs2 := by
  induction cs1 generalizing s with
  | nil => simp only [Reach] at hr; subst hr; simp [published]
  | cons c cs ih =>
    obtain ⟨s2, hs2, hr⟩ := hr
    simp only [List.cons_append, published, hs2, ih s2 hr, List.append_assoc]

theorem track1_claims (n : Nat) (s s' : PySt) (c : Call) (hc : c ≠ .publishProof)
    (h : track1 n s c = some (some s')) : s'.claims = s.claims := by
  by_cases h1 : c = .intoClaim
  · subst h1
    simp only [track1] at h
    split at h
    · simp only [Option.some.injEq] at h; subst h; rfl
    · simp at h
  · by_cases h2 : c = .intoProof
    · subst h2
      simp only [track1] at h
      split at h
      · simp only [Option.some.injEq] at h; subst h; rfl
      · simp at h
    · exact (track1_frame n s s' c hc h1 h2 h).2.1

theorem reach_claims (n : Nat) (cs : List Call) (s s' : PySt) (hr : Reach n s cs s')
    (h : ∀ c ∈ cs, c ≠ .publishProof) : s'.claims = s.claims := by
  induction cs generalizing s with
  | nil => simp only [Reach] at hr; rw [hr]
  | cons c cs ih =>
    obtain ⟨s1, hs1, hr⟩ := hr
    rw [ih s1 hr (fun x hx => h x (List.mem_cons_of_mem _ hx)),
      track1_claims n s s1 c (h c (by simp)) hs1]

/-! ### the generator's own run against the replay with one fuel -/

theorem sideM_load {s : PySt} {c : Call}
    (h : (c = .intoClaim ∨ c = .intoProof) ∨ SideOK s c) :
    (∀ t, c = .load t → t.body.Shape = true) ∧
    (∀ id ef sf ps ns hs, c = .metavar id ef sf ps ns hs → ef = [] ∧ sf = []) := by
  rcases h with (rfl | rfl) | hok
  · exact ⟨(fun _ e => by cases e), (fun _ _ _ _ _ _ e => by cases e)⟩
  · exact ⟨(fun _ e => by cases e), (fun _ _ _ _ _ _ e => by cases e)⟩
  · exact ⟨hok.2.2.2.2.1, hok.2.2.2.2.2⟩

/-- replaying the calls the generator made (with whatever fuel) with fuel `n` goes through states
equal up to notation -/
theorem exec_congr (n : Nat) {s s' : PySt} {cs : List Call} (hex : Exec s cs s') :
    ∀ t t', StEqG true s t → ShapeSt s → ShapeSt t → AllSideM n t cs → Reach n t cs t' →
    StEqG true s' t' ∧ ShapeSt s' ∧ ShapeSt t' := by
  induction hex with
  | nil s =>
    intro t t' hE hSs hSt _ hr
    simp only [Reach] at hr; subst hr
    exact ⟨hE, hSs, hSt⟩
  | @cons s s1 s' c cs k ht _ ih =>
    intro t t' hE hSs hSt hside hr
    obtain ⟨t1, hk, hr⟩ := hr
    obtain ⟨h1, h2⟩ := hside
    obtain ⟨hload, hmv⟩ := sideM_load h1
    obtain ⟨t1', e, hE1⟩ := track1_congrG true k n s t s1 c c (some t1) hE hSs hSt (Or.inl rfl)
      hload (fun h => by simp at h) ht hk
    cases e
    exact ih t1 t' hE1 (track1_pres k s s1 c hSs hload hmv ht).1
      (track1_pres n t t1 c hSt hload hmv hk).1 (h2 t1 hk) hr

/-- the gamma and claim loops of `execute_full`: compile a pattern, publish it -/
inductive PubTrace (c : Call) : PySt → List NPat → List Call → PySt → Prop
  | nil (s : PySt) : PubTrace c s [] [] s
  | cons {s u s1 s' : PySt} {a t : NPat} {r : List NPat} {cs cs' : List Call} (k : Nat) :
      Exec s cs u → (∀ x ∈ cs, x.quiet = true) → u.stack = (.pat t, false) :: s.stack →
      t.expand = a.expand → track1 k u c = some (some s1) → PubTrace c s1 r cs' s' →
      PubTrace c s (a :: r) (cs ++ c :: cs') s'

theorem quiet_noswitch {c : Call} (h : c.quiet = true) : c ≠ .intoClaim ∧ c ≠ .intoProof := by
  constructor <;> (intro e; subst e; simp [Call.quiet] at h)

theorem quiet_nopublishProof {c : Call} (h : c.quiet = true) : c ≠ .publishProof := by
  intro e; subst e; simp [Call.quiet] at h

theorem PubTrace.noswitch {c : Call} (hc : c = .publishAxiom ∨ c = .publishClaim)
    {s s' : PySt} {as : List NPat} {cs : List Call} (h : PubTrace c s as cs s') :
    ∀ x ∈ cs, x ≠ .intoClaim ∧ x ≠ .intoProof ∧ x ≠ .publishProof := by
  induction h with
  | nil s => simp
  | cons k _ hq _ _ _ _ ih =>
    intro x hx
    rcases List.mem_append.mp hx with hx | hx
    · exact ⟨(quiet_noswitch (hq x hx)).1, (quiet_noswitch (hq x hx)).2,
        quiet_nopublishProof (hq x hx)⟩
    · rcases List.mem_cons.mp hx with rfl | hx
      · rcases hc with rfl | rfl <;> simp
      · exact ih x hx

theorem pub_trace (cfg : Cfg) (n : Nat) (c : Call) (hc : c = .publishAxiom ∨ c = .publishClaim) :
    ∀ (as : List NPat) (s : PySt) (acc : List Call) (s' : PySt) (a' : List Call),
    (∀ a ∈ as, a.Shape = true) → ShapeSt s →
    PModule.executeFull.pub cfg n s acc c as = some (some (s', a')) →
    ∃ cs, a' = acc ++ cs ∧ PubTrace c s as cs s' ∧ ShapeSt s' := by
  intro as
  induction as with
  | nil =>
    intro s acc s' a' _ hSh h
    simp only [PModule.executeFull.pub, Option.some.injEq, Prod.mk.injEq] at h
    obtain ⟨rfl, rfl⟩ := h
    exact ⟨[], by simp, .nil s, hSh⟩
  | cons a r ih =>
    intro s acc s' a' has hSh h
    simp only [PModule.executeFull.pub, Option.bind_eq_bind, Option.bind_eq_some_iff] at h
    obtain ⟨o1, hp, h⟩ := h
    cases o1 with
    | none => simp at h
    | some p1 =>
      obtain ⟨u, a1⟩ := p1
      simp only [Option.bind_eq_some_iff] at h
      obtain ⟨o2, hd, h⟩ := h
      obtain ⟨t, cs, hstk, het, rfl, hex, hq, hshu, _⟩ :=
        PySt.patternF_exec cfg n s a acc u a1 (has a (by simp)) hSh hp
      obtain ⟨y, hy, rfl⟩ := (doCalls_single n u c _ o2).mp hd
      cases y with
      | none => simp at h
      | some s1 =>
        simp only [Option.map_some] at h
        have hsh1 : ShapeSt s1 := (track1_pres n u s1 c hshu
          (fun _ e => by rcases hc with rfl | rfl <;> cases e)
          (fun _ _ _ _ _ _ e => by rcases hc with rfl | rfl <;> cases e) hy).1
        obtain ⟨cs', rfl, htr, hsh'⟩ := ih s1 _ s' a'
          (fun x hx => has x (List.mem_cons_of_mem _ hx)) hsh1 h
        exact ⟨cs ++ c :: cs', by simp, .cons n hex hq hstk het hy htr, hsh'⟩

theorem pub_congr (n : Nat) (c : Call) (hc : c = .publishAxiom ∨ c = .publishClaim)
    {s s' : PySt} {as : List NPat} {cs : List Call} (htr : PubTrace c s as cs s') :
    ∀ t t', StEqG true s t → ShapeSt s → ShapeSt t → AllSideM n t cs → Reach n t cs t' →
    published n t cs = as.map NPat.expand ∧ StEqG true s' t' ∧ ShapeSt s' ∧ ShapeSt t' := by
  induction htr with
  | nil s =>
    intro t t' hE hSs hSt _ hr
    simp only [Reach] at hr; subst hr
    exact ⟨rfl, hE, hSs, hSt⟩
  | @cons s u s1 s' a tt r cs cs' k hex hq hstk het hpub _ ih =>
    intro t t' hE hSs hSt hside hr
    obtain ⟨tu, hr1, hr2⟩ := (reach_append n cs (c :: cs') t t').mp hr
    obtain ⟨hside1, hside2⟩ := allSideM_append n cs (c :: cs') t tu hside hr1
    obtain ⟨hEu, hSu, hStu⟩ := exec_congr n hex t tu hE hSs hSt hside1 hr1
    obtain ⟨t1, hk, hr3⟩ := hr2
    obtain ⟨hc1, hc2⟩ := hside2
    have hload : ∀ x, c = .load x → x.body.Shape = true :=
      fun _ e => by rcases hc with rfl | rfl <;> cases e
    have hmv : ∀ id ef sf ps ns hs, c = .metavar id ef sf ps ns hs → ef = [] ∧ sf = [] :=
      fun _ _ _ _ _ _ e => by rcases hc with rfl | rfl <;> cases e
    obtain ⟨t1', e, hE1⟩ := track1_congrG true k n u tu s1 c c (some t1) hEu hSu hStu (Or.inl rfl)
      hload (fun h => by simp at h) hpub hk
    cases e
    obtain ⟨hp, hE', hS', hSt'⟩ := ih t1 t' hE1 (track1_pres k u s1 c hSu hload hmv hpub).1
      (track1_pres n tu t1 c hStu hload hmv hk).1 (hc2 t1 hk) hr3
    refine ⟨?_, hE', hS', hSt'⟩
    have hstk' := hEu.2.1
    rw [hstk] at hstk'
    obtain ⟨tt', st', htus, hexp, _, _⟩ := stk_pat true tt false _ _ hstk'
    rw [published_append n cs (c :: cs') t tu hr1, published_quiet n cs t hq]
    simp only [List.nil_append, published, hk, hp, List.map_cons]
    congr 1
    rcases hc with rfl | rfl <;> simp [pubOf, htus, hexp, het]

/-- the proof loop of `execute_full`: its calls never switch phase -/
theorem proofs_calls (cfg : Cfg) (m : PModule) (n : Nat) (hax : AxShaped m.axiomsOf) :
    ∀ (pfs : List Pf) (s : PySt) (acc : List Call) (s' : PySt) (a' : List Call),
    (∀ pf ∈ pfs, pf.Shaped) → ShapeSt s →
    PModule.executeFull.proofs cfg m n s acc pfs = some (some (s', a')) →
    ∃ cs, a' = acc ++ cs ∧ ∀ x ∈ cs, x ≠ .intoClaim ∧ x ≠ .intoProof := by
  intro pfs
  induction pfs with
  | nil =>
    intro s acc s' a' _ _ h
    simp only [PModule.executeFull.proofs, Option.some.injEq, Prod.mk.injEq] at h
    exact ⟨[], by simp [h.2], by simp⟩
  | cons pf r ih =>
    intro s acc s' a' hsh hSh h
    simp only [PModule.executeFull.proofs, Option.bind_eq_bind, Option.bind_eq_some_iff] at h
    obtain ⟨o1, hp, h⟩ := h
    cases o1 with
    | none => simp at h
    | some p1 =>
      obtain ⟨u, a1, cc⟩ := p1
      simp only [Option.bind_eq_some_iff] at h
      obtain ⟨o2, hd, h⟩ := h
      obtain ⟨cs, _, rfl, _, hq, hshu, _⟩ :=
        Pf.runF_exec cfg m.axiomsOf n s pf acc u a1 cc hax (hsh pf (by simp)) hSh hp
      obtain ⟨y, hy, rfl⟩ := (doCalls_single n u .publishProof _ o2).mp hd
      cases y with
      | none => simp at h
      | some s1 =>
        simp only [Option.map_some] at h
        have hsh1 : ShapeSt s1 := (track1_pres n u s1 .publishProof hshu
          (fun _ e => by cases e) (fun _ _ _ _ _ _ e => by cases e) hy).1
        obtain ⟨cs', rfl, hns⟩ := ih s1 _ s' a'
          (fun x hx => hsh x (List.mem_cons_of_mem _ hx)) hsh1 h
        refine ⟨cs ++ .publishProof :: cs', by simp, ?_⟩
        intro x hx
        rcases List.mem_append.mp hx with hx | hx
        · exact quiet_noswitch (hq x hx)
        · rcases List.mem_cons.mp hx with rfl | hx
          · simp
          · exact hns x hx

theorem intoClaim_spec (n : Nat) (s s' : PySt) (h : track1 n s .intoClaim = some (some s')) :
    s.phase = .gamma ∧ s' = { s with phase := .claim, stack := [] } := by
  simp only [track1] at h
  split at h
  · next hph => simp only [Option.some.injEq] at h; exact ⟨hph, h.symm⟩
  · simp at h

theorem intoProof_spec (n : Nat) (s s' : PySt) (h : track1 n s .intoProof = some (some s')) :
    s.phase = .claim ∧ s' = { s with phase := .proof, stack := [] } := by
  simp only [track1] at h
  split at h
  · next hph => simp only [Option.some.injEq] at h; exact ⟨hph, h.symm⟩
  · simp at h

theorem addOut_nil (ph : Phase) (out : List Instr × List Instr × List Instr) :
    addOut ph out [] = out := by
  cases ph <;> simp [addOut]

/-- a phase switch on both runs -/
theorem switch_congr (n : Nat) (c : Call) (hc : c = .intoClaim ∨ c = .intoProof)
    (s t s' t' : PySt) (hE : StEqG true s t) (hSs : ShapeSt s) (hSt : ShapeSt t)
    (hs : track1 n s c = some (some s')) (ht : track1 n t c = some (some t')) :
    StEqG true s' t' ∧ ShapeSt s' ∧ ShapeSt t' ∧ t'.symtab = t.symtab := by
  have hload : ∀ x, c = .load x → x.body.Shape = true :=
    fun _ e => by rcases hc with rfl | rfl <;> cases e
  have hmv : ∀ id ef sf ps ns hs, c = .metavar id ef sf ps ns hs → ef = [] ∧ sf = [] :=
    fun _ _ _ _ _ _ e => by rcases hc with rfl | rfl <;> cases e
  obtain ⟨t1', e, hE1⟩ := track1_congrG true n n s t s' c c (some t') hE hSs hSt (Or.inl rfl)
    hload (fun h => by simp at h) hs ht
  cases e
  have hP := track1_pres n t t' c hSt hload hmv ht
  exact ⟨hE1, (track1_pres n s s' c hSs hload hmv hs).1, hP.1,
    hP.2.2 (fun nm e => by rcases hc with rfl | rfl <;> cases e)⟩

/-- B3. The checker accepts the serialised module; the published theory is exactly the declared
axioms (imports first) and the published claims exactly the declared claims reversed — for any
memoisation configuration. -/
theorem module_accepted (cfg : Cfg) (n : Nat) (m : PModule) (s : PySt) (calls : List Call)
    (g c p : List Instr) :
    (∀ a ∈ m.gammaAxioms, a.Shape = true) → (∀ a ∈ m.claimsOf, a.Shape = true) →
    AxShaped m.axiomsOf → (∀ pf ∈ m.proofsOf, pf.Shaped) →
    PModule.executeFull cfg n m = some (some (s, calls)) →
    PySt.trackAll n (PySt.init m.claimsOf) calls ([], [], []) = some (some (s, (g, c, p))) →
    AllSideM n (PySt.init m.claimsOf) calls →
    s.claims = [] →
    verify g c p = some (m.gammaAxioms.map NPat.expand, m.claimsOf.reverse.map NPat.expand) := by
  intro hgam hclm hax hpfs hex hT hside hfin
  have hS0 : ShapeSt (PySt.init m.claimsOf) :=
    ⟨by simp [PySt.init], by simp [PySt.init], by simpa [PySt.init] using hclm⟩
  -- the structure of `executeFull`
  simp only [PModule.executeFull, Option.bind_eq_bind, Option.bind_eq_some_iff] at hex
  obtain ⟨o1, hpub1, hex⟩ := hex
  cases o1 with
  | none => simp at hex
  | some p1 =>
  obtain ⟨e1, a1⟩ := p1
  simp only [Option.bind_eq_some_iff] at hex
  obtain ⟨o2, hd1, hex⟩ := hex
  obtain ⟨y1, hy1, rfl⟩ := (doCalls_single n e1 .intoClaim a1 o2).mp hd1
  cases y1 with
  | none => simp at hex
  | some e2 =>
  simp only [Option.map_some, Option.bind_eq_some_iff] at hex
  obtain ⟨o3, hpub2, hex⟩ := hex
  cases o3 with
  | none => simp at hex
  | some p3 =>
  obtain ⟨e3, a3⟩ := p3
  simp only [Option.bind_eq_some_iff] at hex
  obtain ⟨o4, hd2, hex⟩ := hex
  obtain ⟨y2, hy2, rfl⟩ := (doCalls_single n e3 .intoProof a3 o4).mp hd2
  cases y2 with
  | none => simp at hex
  | some e4 =>
  simp only [Option.map_some] at hex
  obtain ⟨G, hG, trG, hShe1⟩ := pub_trace cfg n .publishAxiom (Or.inl rfl) m.gammaAxioms _ [] e1 a1
    hgam hS0 hpub1
  simp only [List.nil_append] at hG
  have hG' := hG.symm
  subst hG'
  obtain ⟨hE12, hShe2, _, _⟩ := switch_congr n .intoClaim (Or.inl rfl) e1 e1 e2 e2
    (StEqG.refl true e1) hShe1 hShe1 hy1 hy1
  obtain ⟨C, hC, trC, hShe3⟩ := pub_trace cfg n .publishClaim (Or.inr rfl) m.claimsOf.reverse e2 _
    e3 a3 (fun a ha => hclm a (List.mem_reverse.mp ha)) hShe2 hpub2
  subst hC
  obtain ⟨_, hShe4, _, _⟩ := switch_congr n .intoProof (Or.inr rfl) e3 e3 e4 e4
    (StEqG.refl true e3) hShe3 hShe3 hy2 hy2
  obtain ⟨P, hP, hPns⟩ := proofs_calls cfg m n hax m.proofsOf e4 _ s calls hpfs hShe4 hex
  have hcalls : calls = G ++ .intoClaim :: (C ++ .intoProof :: P) := by
    rw [hP]; simp [List.append_assoc]
  subst hcalls
  -- the replay with fuel `n`, phase by phase
  obtain ⟨t1, out1, hT1, hT⟩ := trackAll_append n G _ _ s _ _ hT
  have hr1 := trackAll_reach n G _ t1 _ _ hT1
  obtain ⟨hsideG, hside⟩ := allSideM_append n G _ _ t1 hside hr1
  obtain ⟨is0, t2, he0, hs0, hT⟩ := trackAll_cons n t1 s .intoClaim _ out1 _ hT
  simp only [emit1, Option.some.injEq] at he0
  subst he0
  rw [addOut_nil] at hT
  have hside := hside.2 t2 hs0
  obtain ⟨t3, out3, hT3, hT⟩ := trackAll_append n C _ t2 s _ _ hT
  have hr3 := trackAll_reach n C t2 t3 _ _ hT3
  obtain ⟨hsideC, hside⟩ := allSideM_append n C _ t2 t3 hside hr3
  obtain ⟨is1, t4, he1, hs1, hT⟩ := trackAll_cons n t3 s .intoProof _ out3 _ hT
  simp only [emit1, Option.some.injEq] at he1
  subst he1
  rw [addOut_nil] at hT
  have hsideP := hside.2 t4 hs1
  -- gamma
  obtain ⟨hpG, hE1, _, hSht1⟩ := pub_congr n .publishAxiom (Or.inl rfl) trG _ t1
    (StEqG.refl true _) hS0 hS0 hsideG hr1
  have hR0 : R (PySt.init m.claimsOf) ⟨[], [], []⟩ :=
    ⟨by simp [PySt.init, live], by simp [PySt.init], fun h => by simp [PySt.init] at h⟩
  have hnsG := trG.noswitch (Or.inl rfl)
  obtain ⟨isG, m1, js1, hout1, hrun1, hR1, _, hC1, hjs1, hph1⟩ :=
    trackAll_sim_pub n G _ t1 ⟨[], [], []⟩ _ out1 hR0 hS0 (by simp [PySt.init, CanonTab])
      (allSide_of n G _ hsideG (fun x hx => ⟨(hnsG x hx).1, (hnsG x hx).2.1⟩)) hT1
  -- into the claim phase
  obtain ⟨hE2, _, hSht2, hsym2⟩ := switch_congr n .intoClaim (Or.inl rfl) e1 t1 e2 t2 hE1 hShe1
    hSht1 hy1 hs0
  have hR2 := sim_intoClaim n t1 t2 m1 hR1 hs0
  obtain ⟨_, ht2⟩ := intoClaim_spec n t1 t2 hs0
  have hph2 : t2.phase = .claim := by rw [ht2]
  obtain ⟨hpC, hE3, _, hSht3⟩ := pub_congr n .publishClaim (Or.inr rfl) trC t2 t3 hE2 hShe2 hSht2
    hsideC hr3
  have hnsC := trC.noswitch (Or.inr rfl)
  obtain ⟨isC, m2, js2, hout3, hrun2, hR3, _, hC3, hjs2, hph3⟩ :=
    trackAll_sim_pub n C t2 t3 { m1 with stack := [] } out1 out3 hR2 hSht2 (by rw [hsym2]; exact hC1)
      (allSide_of n C t2 hsideC (fun x hx => ⟨(hnsC x hx).1, (hnsC x hx).2.1⟩)) hT3
  -- the machine's claim stack after the claim phase
  have hcl1 : m1.claims = [] := by
    have := (run_claims .gamma isG ⟨[], [], []⟩ m1 js1 (by simpa [PySt.init] using hrun1)).1 rfl
    simpa using this
  have hcl2 : m2.claims = js2.reverse := by
    have := (run_claims .claim isC { m1 with stack := [] } m2 js2
      (by rw [hph2] at hrun2; exact hrun2)).2 rfl
    simpa [hcl1] using this
  have htc1 : t1.claims = m.claimsOf := by
    rw [reach_claims n G _ t1 hr1 (fun x hx => (hnsG x hx).2.2)]; rfl
  have htc2 : t2.claims = m.claimsOf := by rw [ht2]; exact htc1
  have htc3 : t3.claims = m.claimsOf := by
    rw [reach_claims n C t2 t3 hr3 (fun x hx => (hnsC x hx).2.2), htc2]
  have hclm2 : m2.claims = t3.claims.map NPat.expand := by
    rw [hcl2, hjs2, hpC, htc3]; simp [List.map_reverse]
  -- into the proof phase
  obtain ⟨_, _, hSht4, hsym4⟩ := switch_congr n .intoProof (Or.inr rfl) e3 t3 e4 t4 hE3 hShe3
    hSht3 hy2 hs1
  have hR4 := sim_intoProof n t3 t4 m2 hR3 hclm2 hs1
  obtain ⟨_, ht4⟩ := intoProof_spec n t3 t4 hs1
  have hph4 : t4.phase = .proof := by rw [ht4]
  obtain ⟨isP, m3, js3, hout, hrun3, hR, _, _, _, hphs⟩ :=
    trackAll_sim_pub n P t4 s { m2 with stack := [] } out3 (g, c, p) hR4 hSht4
      (by rw [hsym4]; exact hC3) (allSide_of n P t4 hsideP hPns) hT
  have hcl3 : m3.claims = [] := by
    rw [hR.claims (by rw [hphs, hph4]), hfin]; rfl
  -- the three streams
  have hph0 : (PySt.init m.claimsOf).phase = .gamma := rfl
  rw [hph0] at hout1 hrun1
  rw [hph2] at hout3 hrun2
  rw [hph4] at hout hrun3
  subst hout1
  subst hout3
  simp only [addOut, Prod.mk.injEq] at hout
  obtain ⟨rfl, rfl, rfl⟩ := hout
  simp [verify, hrun1, hrun2, hrun3, hcl3, hjs1, hpG, hjs2, hpC]

#print axioms trackAll_sim
#print axioms trackAll_sim_pub
#print axioms module_accepted
