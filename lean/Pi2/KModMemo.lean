import Pi2.KModEq
import Pi2.KoreModule
/-!
# The memoising serialisation of a K execution module is accepted too

`MemoizingInterpreter.pattern(p)` (`patternF { memo := some S }`): if `p` is `==` to a memory entry, `load` it; else build
it and `save` it if `p ∈ S`.  On the machine `save` appends the top of the stack to the memory and `load i` pushes
entry `i`, so the tracker/machine relation is "the machine's memory is the image of the tracker's" (`MRel`), and what
has to be shown is that the entry `memory.index(p)` found — the first one `==` to `p` — has the expansion of `p`.

That is `NPat.peqF_expand_QF` (`Pi2/KModEq.lean`): `==` is truthful on *quiet* patterns (`NPat.QF`: substitution nodes
meta-headed and outside notation nodes; any metavariable constraints).  Everything `execute_full` of a K module ever
passes to `pattern` is quiet: the propositional fragment, `functional`'s definition with its constrained metavariable,
`func_subst_axiom`, and their sub-patterns.  Invariant `MemOK`: every saved pattern is quiet, every published axiom is
`PeqOK` (truthfully compared with a rule of the fragment by `load_axiom`).

This file redoes `Pi2/KModCompile.lean` and `Pi2/KModRun.lean` for an arbitrary configuration `cfg` (plain or
memoising, any suggestion set), with the memory relation threaded through.
-/
set_option linter.unusedSimpArgs false
set_option linter.unusedVariables false
open Pat PySt

namespace KMod
open NPat

/-! ## quiet patterns of the K fragment -/

mutual
theorem PF.subFree : (p : NPat) → p.PF = true → p.SubFree = true
  | .sym _, _ => rfl
  | .mv _ _ _ _ _ _, _ => rfl
  | .imp l r, h => by
    simp only [PF, Bool.and_eq_true] at h
    simp [NPat.SubFree, PF.subFree l h.1, PF.subFree r h.2]
  | .app l r, h => by
    simp only [PF, Bool.and_eq_true] at h
    simp [NPat.SubFree, PF.subFree l h.1, PF.subFree r h.2]
  | .inst p m, h => by
    simp only [PF, Bool.and_eq_true] at h
    simp [NPat.SubFree, PF.subFree p h.1.1, PFMap.subFree m h.1.2]
  | .mu _ p, h => by
    simp only [PF, Bool.and_eq_true] at h
    rw [isSV0_eq h.2]; rfl
  | .evar _, h => by simp [PF] at h
  | .svar _, h => by simp [PF] at h
  | .ex _ _, h => by simp [PF] at h
  | .esub _ _ _, h => by simp [PF] at h
  | .ssub _ _ _, h => by simp [PF] at h
theorem PFMap.subFree : (m : List (Nat × NPat)) → PFMap m = true → SubFreeMap m = true
  | [], _ => rfl
  | (_, v) :: r, h => by
    simp only [PFMap, Bool.and_eq_true] at h
    simp [SubFreeMap, PF.subFree v h.1, PFMap.subFree r h.2]
end

theorem PF.qf {p : NPat} (h : p.PF = true) : p.QF = true := SubFree.qf p (PF.subFree p h)

/-! ## the memory -/

/-- every saved pattern is quiet; every published axiom is truthfully compared with a rule of the fragment -/
def MemOK (mem : List TTerm) : Prop :=
  (∀ q, TTerm.pat q ∈ mem → q.QF = true) ∧ (∀ a, TTerm.proved a ∈ mem → PeqOK a)

theorem MemOK.nil : MemOK [] := ⟨fun q h => by simp at h, fun a h => by simp at h⟩

theorem MemOK.push_pat {mem : List TTerm} (h : MemOK mem) {q : NPat} (hq : q.QF = true) : MemOK (mem ++ [.pat q]) := by
  refine ⟨fun x hx => ?_, fun a ha => ?_⟩
  · rcases List.mem_append.mp hx with hx | hx
    · exact h.1 x hx
    · simp only [List.mem_singleton, TTerm.pat.injEq] at hx; subst hx; exact hq
  · rcases List.mem_append.mp ha with ha | ha
    · exact h.2 a ha
    · simp at ha

theorem MemOK.push_proved {mem : List TTerm} (h : MemOK mem) {a : NPat} (ha : PeqOK a) :
    MemOK (mem ++ [.proved a]) := by
  refine ⟨fun x hx => ?_, fun b hb => ?_⟩
  · rcases List.mem_append.mp hx with hx | hx
    · exact h.1 x hx
    · simp at hx
  · rcases List.mem_append.mp hb with hb | hb
    · exact h.2 b hb
    · simp only [List.mem_singleton, TTerm.proved.injEq] at hb; subst hb; exact ha

/-- the machine's memory is the image of the tracker's -/
def MRel (ρ : Nat → Nat) (s : PySt) (m : St) : Prop := m.memory = s.memory.map (convR ρ)

/-- the machine state after a segment that ended in tracker state `s'`: the patterns `ps` pushed, the memory the image
of the tracker's -/
def mset (ρ : Nat → Nat) (s' : PySt) (m : St) (ps : List Pat) : St :=
  mpush { m with memory := s'.memory.map (convR ρ) } ps

theorem mset_rel (ρ : Nat → Nat) (s' : PySt) (m : St) (ps : List Pat) : MRel ρ s' (mset ρ s' m ps) := rfl

theorem mset_mset (ρ : Nat → Nat) (s1 s2 : PySt) (m : St) (a b : List Pat) :
    mset ρ s2 (mset ρ s1 m a) b = mset ρ s2 m (b ++ a) := by
  simp [mset, mpush, List.append_assoc]

theorem mset_self {ρ : Nat → Nat} {s s' : PySt} {m : St} (hm : MRel ρ s m) (hs : s'.memory = s.memory)
    (ps : List Pat) : mset ρ s' m ps = mpush m ps := by
  unfold mset
  rw [hs, ← hm]

theorem mset_congr {ρ : Nat → Nat} {s s' : PySt} (hs : s'.memory = s.memory) (m : St) (ps : List Pat) :
    mset ρ s' m ps = mset ρ s m ps := by
  unfold mset; rw [hs]

/-- `top` was pushed; the memory invariant is kept; the symbol table grew -/
structure PushedM (s s' : PySt) (top : List (TTerm × Bool)) : Prop where
  stack : s'.stack = top ++ s.stack
  memory : MemOK s.memory → MemOK s'.memory
  claims : s'.claims = s.claims
  phase : s'.phase = s.phase
  symtab : ∃ e, s'.symtab = s.symtab ++ e

theorem PushedM.refl (s : PySt) : PushedM s s [] := ⟨rfl, id, rfl, rfl, ⟨[], by simp⟩⟩

theorem PushedM.trans {s s1 s2 : PySt} {t1 t2 : List (TTerm × Bool)} (h1 : PushedM s s1 t1)
    (h2 : PushedM s1 s2 t2) : PushedM s s2 (t2 ++ t1) := by
  obtain ⟨e1, he1⟩ := h1.symtab
  obtain ⟨e2, he2⟩ := h2.symtab
  exact ⟨by rw [h2.stack, h1.stack, List.append_assoc], fun h => h2.memory (h1.memory h),
    h2.claims.trans h1.claims, h2.phase.trans h1.phase, ⟨e1 ++ e2, by rw [he2, he1, List.append_assoc]⟩⟩

theorem PushedM.replace {s s2 : PySt} {top : List (TTerm × Bool)} (h : PushedM s s2 top) (e : TTerm × Bool) :
    PushedM s { s2 with stack := e :: s.stack } [e] :=
  ⟨rfl, h.memory, h.claims, h.phase, h.symtab⟩

theorem PushedM.agree {ρ : Nat → Nat} {s s' : PySt} {top : List (TTerm × Bool)} (h : PushedM s s' top)
    (ha : Agree ρ s'.symtab) : Agree ρ s.symtab := by
  obtain ⟨e, he⟩ := h.symtab
  rw [he] at ha
  exact ha.prefix

/-! ## the compilation of a pattern, plain or memoising -/

/-- the result of a compilation, as a proposition -/
def CompM (n : Nat) (ρ : Nat → Nat) (s : PySt) (p : NPat) (acc : List Call) (s' : PySt) (a' : List Call) : Prop :=
  PushedM s s' [entry p] ∧ ∃ cs, a' = acc ++ cs ∧
    ∀ m, MRel ρ s m → ∃ is, Sg n s m cs s' (mset ρ s' m [ren ρ p.expand]) is []

def PatCM (cfg : Cfg) (n : Nat) (k : Nat) : Prop :=
  ∀ (ρ : Nat → Nat) s p acc s' a', patternF cfg k s p acc = some (some (s', a')) → p.MOK = true → p.QF = true →
    Agree ρ s'.symtab → MemOK s.memory → CompM n ρ s p acc s' a'

def ListCM (cfg : Cfg) (n : Nat) (k : Nat) : Prop :=
  ∀ (ρ : Nat → Nat) s ps acc s' a', patternF.patternListF cfg k s ps acc = some (some (s', a')) →
    (∀ p ∈ ps, p.MOK = true) → (∀ p ∈ ps, p.QF = true) → Agree ρ s'.symtab → MemOK s.memory →
    PushedM s s' (ps.reverse.map entry) ∧ ∃ cs, a' = acc ++ cs ∧
      ∀ m, MRel ρ s m → ∃ is, Sg n s m cs s' (mset ρ s' m (ps.reverse.map fun p => ren ρ p.expand)) is []

/-- a call that pushes one pattern and needs nothing -/
theorem leafCM {n k : Nat} (hk : k ≤ n) (ρ : Nat → Nat) {s s' : PySt} {c : Call} {acc a' : List Call}
    (p : NPat) (i : Instr)
    (h : doCalls k s [c] acc = some (some (s', a')))
    (hpush : ∀ n', track1 n' s c = some (some (s.push (.pat p))))
    (he : emit1 n s c = some (some [i]))
    (hs : ∀ m : St, step s.phase m i = some (mpush m [ren ρ p.expand], none))
    (hsc : SideCond s c) (har : c.arity = 0)
    (hkk : ∀ keys, c ≠ .instantiate keys ∧ c ≠ .instantiatePattern keys) :
    CompM n ρ s p acc s' a' := by
  have ht := (MM.doCalls_one h).1
  rw [hpush k] at ht
  simp only [Option.some.injEq] at ht
  subst ht
  refine ⟨⟨rfl, id, rfl, rfl, ⟨[], by simp [PySt.push]⟩⟩, [c], (MM.doCalls_one h).2, ?_⟩
  intro m hm
  refine ⟨[i], ?_⟩
  rw [mset_self (s' := s.push (.pat p)) hm rfl]
  exact (call_sg hk h he (hs m) rfl (sideK_mk _ _ hsc (touches_push0 _ _ har) hkk)).2

/-- two sub-patterns, then one call that replaces them by `res` -/
theorem twoCM {cfg : Cfg} {n k : Nat} (hk : k ≤ n) (ρ : Nat → Nat) (ihP : PatCM cfg n k)
    {s s' : PySt} {acc a' : List Call} (a b res : NPat) (c : Call) (i : Instr)
    (ha : a.MOK = true) (hb : b.MOK = true) (qa : a.QF = true) (qb : b.QF = true)
    (hag : Agree ρ s'.symtab) (hK : MemOK s.memory)
    (hc : ∀ nm, c ≠ .symbol nm)
    (h : (andThen (patternF cfg k s a acc) fun s1 a1 =>
        andThen (patternF cfg k s1 b a1) fun s2 a2 => doCalls k s2 [c] a2) = some (some (s', a')))
    (htr : ∀ (s2 : PySt) st, s2.stack = entry b :: entry a :: st →
      ∀ n', track1 n' s2 c = some (some { s2 with stack := entry res :: st }))
    (he : ∀ s2 : PySt, emit1 n s2 c = some (some [i]))
    (hs : ∀ (ph : Phase) (m : St),
      step ph (mpush m [ren ρ b.expand, ren ρ a.expand]) i = some (mpush m [ren ρ res.expand], none))
    (hsc : ∀ (s2 : PySt) st, s2.stack = entry b :: entry a :: st → SideCond s2 c)
    (har : c.arity = 2)
    (hkk : ∀ keys, c ≠ .instantiate keys ∧ c ≠ .instantiatePattern keys) :
    CompM n ρ s res acc s' a' := by
  rcases andThen_eq_some _ _ _ h with ⟨_, e⟩ | ⟨s1, a1, h1, h⟩
  · cases e
  rcases andThen_eq_some _ _ _ h with ⟨_, e⟩ | ⟨s2, a2, h2, h⟩
  · cases e
  obtain ⟨ht, rfl⟩ := MM.doCalls_one h
  have hsym : s'.symtab = s2.symtab := symtab_of_track1 hc ht
  have ag2 : Agree ρ s2.symtab := hsym ▸ hag
  -- the first sub-pattern needs the naming of the state after it; that state is a prefix of `s2`'s
  have P1' : ∃ e, s2.symtab = s1.symtab ++ e := by
    -- run the second compilation with the naming by position in `s2`
    have hK1 : MemOK s1.memory :=
      (ihP _ s a acc s1 a1 h1 ha qa (agree_idxOf _) hK).1.memory hK
    exact (ihP _ s1 b a1 s2 a2 h2 hb qb (agree_idxOf _) hK1).1.symtab
  obtain ⟨e2, he2⟩ := P1'
  have ag1 : Agree ρ s1.symtab := by rw [he2] at ag2; exact ag2.prefix
  obtain ⟨P1, cs1, e1, S1⟩ := ihP ρ s a acc s1 a1 h1 ha qa ag1 hK
  obtain ⟨P2, cs2, e2', S2⟩ := ihP ρ s1 b a1 s2 a2 h2 hb qb ag2 (P1.memory hK)
  subst e2'; subst e1
  have P12 := P1.trans P2
  have hstk : s2.stack = entry b :: entry a :: s.stack := by simpa using P12.stack
  rw [htr s2 s.stack hstk k] at ht
  simp only [Option.some.injEq] at ht
  subst ht
  refine ⟨P12.replace _, cs1 ++ cs2 ++ [c], by simp, ?_⟩
  intro m hm
  obtain ⟨is1, G1⟩ := S1 m hm
  obtain ⟨is2, G2⟩ := S2 _ (mset_rel ρ s1 m _)
  rw [mset_mset] at G2
  have G3 : Sg n s2 (mset ρ s2 m [ren ρ b.expand, ren ρ a.expand]) [c]
      { s2 with stack := entry res :: s.stack } (mset ρ { s2 with stack := entry res :: s.stack } m [ren ρ res.expand])
      [i] (none : Option Pat).toList :=
    Sg.single (htr s2 s.stack hstk n) (he s2) (hs _ _) rfl
      (sideK_mk _ _ (hsc s2 s.stack hstk)
        (by simp [touchesResidue, har, hstk, entry]) hkk)
  refine ⟨is1 ++ is2 ++ [i], ?_⟩
  have := (G1.append G2).append G3
  simpa using this

/-- one sub-pattern, then one call that replaces it by `res` -/
theorem oneCM {cfg : Cfg} {n k : Nat} (hk : k ≤ n) (ρ : Nat → Nat) (ihP : PatCM cfg n k)
    {s s' : PySt} {acc a' : List Call} (a res : NPat) (c : Call) (i : Instr)
    (ha : a.MOK = true) (qa : a.QF = true) (hag : Agree ρ s'.symtab) (hK : MemOK s.memory)
    (hc : ∀ nm, c ≠ .symbol nm)
    (h : (andThen (patternF cfg k s a acc) fun s1 a1 => doCalls k s1 [c] a1) = some (some (s', a')))
    (htr : ∀ (s2 : PySt) st, s2.stack = entry a :: st →
      ∀ n', track1 n' s2 c = some (some { s2 with stack := entry res :: st }))
    (he : ∀ s2 : PySt, emit1 n s2 c = some (some [i]))
    (hs : ∀ (ph : Phase) (m : St),
      step ph (mpush m [ren ρ a.expand]) i = some (mpush m [ren ρ res.expand], none))
    (hsc : ∀ (s2 : PySt) st, s2.stack = entry a :: st → SideCond s2 c)
    (har : c.arity = 1)
    (hkk : ∀ keys, c ≠ .instantiate keys ∧ c ≠ .instantiatePattern keys) :
    CompM n ρ s res acc s' a' := by
  rcases andThen_eq_some _ _ _ h with ⟨_, e⟩ | ⟨s1, a1, h1, h⟩
  · cases e
  obtain ⟨ht, rfl⟩ := MM.doCalls_one h
  have hsym : s'.symtab = s1.symtab := symtab_of_track1 hc ht
  have ag1 : Agree ρ s1.symtab := hsym ▸ hag
  obtain ⟨P1, cs1, rfl, S1⟩ := ihP ρ s a acc s1 a1 h1 ha qa ag1 hK
  have hstk : s1.stack = entry a :: s.stack := by simpa using P1.stack
  rw [htr s1 s.stack hstk k] at ht
  simp only [Option.some.injEq] at ht
  subst ht
  refine ⟨P1.replace _, cs1 ++ [c], by simp, ?_⟩
  intro m hm
  obtain ⟨is1, G1⟩ := S1 m hm
  have G3 : Sg n s1 (mset ρ s1 m [ren ρ a.expand]) [c]
      { s1 with stack := entry res :: s.stack } (mset ρ { s1 with stack := entry res :: s.stack } m [ren ρ res.expand])
      [i] (none : Option Pat).toList :=
    Sg.single (htr s1 s.stack hstk n) (he s1) (hs _ _) rfl
      (sideK_mk _ _ (hsc s1 s.stack hstk)
        (by simp [touchesResidue, har, hstk, entry]) hkk)
  refine ⟨is1 ++ [i], ?_⟩
  have := G1.append G3
  simpa using this

end KMod

namespace KMod
open NPat

theorem PatCM.frame {cfg : Cfg} {n k : Nat} (ihP : PatCM cfg n k) {s s' : PySt} {p : NPat} {acc a' : List Call}
    (h : patternF cfg k s p acc = some (some (s', a'))) (hp : p.MOK = true) (hq : p.QF = true)
    (hK : MemOK s.memory) : PushedM s s' [entry p] :=
  (ihP _ s p acc s' a' h hp hq (agree_idxOf _) hK).1

theorem ListCM.frame {cfg : Cfg} {n k : Nat} (ihL : ListCM cfg n k) {s s' : PySt} {ps : List NPat} {acc a' : List Call}
    (h : patternF.patternListF cfg k s ps acc = some (some (s', a'))) (hp : ∀ p ∈ ps, p.MOK = true)
    (hq : ∀ p ∈ ps, p.QF = true) (hK : MemOK s.memory) : PushedM s s' (ps.reverse.map entry) :=
  (ihL _ s ps acc s' a' h hp hq (agree_idxOf _) hK).1

theorem subFreeMap_vals {m : List (Nat × NPat)} (h : SubFreeMap m = true) : ∀ v ∈ m.map (·.2), v.QF = true := by
  intro v hv
  obtain ⟨kv, hkv, rfl⟩ := List.mem_map.mp hv
  exact SubFree.qf _ ((subFreeMap_iff m).mp h kv hkv)

/-- a notation node: the values, the body, `instantiate_pattern` -/
theorem instCM {cfg : Cfg} {n k : Nat} (hk : k ≤ n) (ρ : Nat → Nat) (ihP : PatCM cfg n k) (ihL : ListCM cfg n k)
    {s s' : PySt} {acc a' : List Call} (q : NPat) (m : List (Nat × NPat))
    (hq : q.MOK = true) (hm : MOKMap m = true) (hnd : (m.map (·.1)).Nodup)
    (hinst : (Pat.inst (Py.lookup (NPat.expand.expandMap m)) q.expand).isSome = true)
    (qq : q.SubFree = true) (qm : SubFreeMap m = true)
    (hag : Agree ρ s'.symtab) (hK : MemOK s.memory)
    (h : (andThen (patternF.patternListF cfg k s (m.map (·.2)) acc) fun s1 a1 =>
        andThen (patternF cfg k s1 q a1) fun s2 a2 =>
          doCalls k s2 [.instantiatePattern (m.map (·.1))] a2) = some (some (s', a'))) :
    CompM n ρ s (.inst q m) acc s' a' := by
  rcases andThen_eq_some _ _ _ h with ⟨_, e⟩ | ⟨s1, a1, h1, h⟩
  · cases e
  rcases andThen_eq_some _ _ _ h with ⟨_, e⟩ | ⟨s2, a2, h2, h⟩
  · cases e
  obtain ⟨ht, rfl⟩ := MM.doCalls_one h
  have hsym : s'.symtab = s2.symtab := symtab_of_track1 (by simp) ht
  have ag2 : Agree ρ s2.symtab := hsym ▸ hag
  have F1 := ihL.frame h1 (MOKMap_vals hm) (subFreeMap_vals qm) hK
  have F2 := ihP.frame h2 hq (SubFree.qf q qq) (F1.memory hK)
  have ag1 := F2.agree ag2
  obtain ⟨P1, cs1, e1, S1⟩ := ihL ρ s (m.map (·.2)) acc s1 a1 h1 (MOKMap_vals hm) (subFreeMap_vals qm) ag1 hK
  obtain ⟨P2, cs2, e2, S2⟩ := ihP ρ s1 q a1 s2 a2 h2 hq (SubFree.qf q qq) ag2 (P1.memory hK)
  subst e2; subst e1
  have P12 := P1.trans P2
  have hstk : s2.stack = (.pat q, false) :: ((m.map (·.2)).reverse.map entry ++ s.stack) := by
    simpa [entry] using P12.stack
  have hlen : (m.map (·.2)).length = (m.map (·.1)).length := by simp
  have htr : ∀ n', track1 n' s2 (.instantiatePattern (m.map (·.1)))
      = some (some { s2 with stack := entry (.inst q m) :: s.stack }) := by
    intro n'
    have := takePlugs_vals (m.map (·.2)) s.stack
    rw [hlen] at this
    simp only [track1, hstk, this, zip_keys_vals, entry]
  rw [htr k] at ht
  simp only [Option.some.injEq] at ht
  subst ht
  have hz : (m.map (·.1)).zip (m.map (·.2)) = m := zip_keys_vals m
  obtain ⟨r, hr⟩ := Option.isSome_iff_exists.mp hinst
  have hre : r = (NPat.inst q m).expand := by
    have := C11.py_inst_eq_rust _ _ _ hr
    simp only [NPat.expand]
    exact this.symm
  refine ⟨P12.replace _, cs1 ++ cs2 ++ [.instantiatePattern (m.map (·.1))], by simp, ?_⟩
  intro m0 hm0
  obtain ⟨is1, G1⟩ := S1 m0 hm0
  obtain ⟨is2, G2⟩ := S2 _ (mset_rel ρ s1 m0 _)
  rw [mset_mset] at G2
  have hstep := step_inst_pat ρ s2.phase { m0 with memory := s2.memory.map (convR ρ) } q.expand r (m.map (·.1))
    (m.map (·.2)) hnd hlen (by rw [hz]; exact hr)
  rw [hre] at hstep
  have G3 : Sg n s2 (mset ρ s2 m0 ([ren ρ q.expand] ++ (m.map (·.2)).reverse.map fun p => ren ρ p.expand))
      [.instantiatePattern (m.map (·.1))]
      { s2 with stack := entry (.inst q m) :: s.stack }
      (mset ρ { s2 with stack := entry (.inst q m) :: s.stack } m0 [ren ρ (NPat.inst q m).expand])
      [.instantiate (m.map (·.1)).reverse] (none : Option Pat).toList :=
    Sg.single (htr n) rfl hstep rfl
      (sideK_inst s2 _ (m.map (·.1)) (m.map (·.2)) (.pat q) s.stack (Or.inr rfl) hnd hlen hstk
        (by rw [hz]; exact hinst))
  refine ⟨is1 ++ is2 ++ [.instantiate (m.map (·.1)).reverse], ?_⟩
  have := (G1.append G2).append G3
  simpa using this

end KMod

namespace KMod
open NPat

theorem buildCM {cfg : Cfg} {n k : Nat} (hk : k ≤ n) (ρ : Nat → Nat) (ihP : PatCM cfg n k) (ihL : ListCM cfg n k)
    (s : PySt) (p : NPat) (acc : List Call) (s' : PySt) (a' : List Call)
    (h : buildF cfg k s p acc = some (some (s', a'))) (hp : p.MOK = true) (hqf : p.QF = true)
    (hag : Agree ρ s'.symtab) (hK : MemOK s.memory) :
    CompM n ρ s p acc s' a' := by
  cases p with
  | evar x =>
    simp only [buildF] at h
    exact leafCM hk ρ (.evar x) (.evar x) h (fun _ => rfl) rfl
      (fun m => by simp [step, mpush, NPat.expand, ren]) (by simp [SideCond]) rfl (by simp)
  | svar x =>
    simp only [buildF] at h
    exact leafCM hk ρ (.svar x) (.svar x) h (fun _ => rfl) rfl
      (fun m => by simp [step, mpush, NPat.expand, ren]) (by simp [SideCond]) rfl (by simp)
  | sym nm =>
    simp only [buildF] at h
    obtain ⟨ht, rfl⟩ := MM.doCalls_one h
    simp only [track1, Option.some.injEq] at ht
    subst ht
    have hid : symId s.symtab nm = ρ nm := symId_agree s.symtab nm hag
    refine ⟨⟨rfl, id, rfl, rfl, ?_⟩, [.symbol nm], rfl, ?_⟩
    · show ∃ e, (if s.symtab.contains nm then s.symtab else s.symtab ++ [nm]) = s.symtab ++ e
      split
      · exact ⟨[], by simp⟩
      · exact ⟨[nm], rfl⟩
    · intro m hm
      refine ⟨[.sym (symId s.symtab nm)], ?_⟩
      have := call_sg (n := n) hk h (m := m) (m1 := mpush m [ren ρ (NPat.sym nm).expand])
        (i := .sym (symId s.symtab nm)) (j := none) rfl
        (by simp [step, mpush, NPat.expand, ren, hid]) rfl
        (sideK_mk _ _ (by simp [SideCond]) (touches_push0 _ _ rfl) (by simp))
      rw [← mset_self (ρ := ρ) (s := s) (s' := { s.push (.pat (.sym nm)) with
        symtab := if s.symtab.contains nm then s.symtab else s.symtab ++ [nm] }) hm rfl] at this
      exact this.2
  | mv id ef sf ps ns hs =>
    simp only [buildF] at h
    simp only [MOK, Bool.not_eq_true'] at hp
    by_cases hall : (ef.isEmpty && sf.isEmpty && ps.isEmpty && ns.isEmpty && hs.isEmpty) = true
    · have he : ∀ s : PySt, emit1 n s (.metavar id ef sf ps ns hs) = some (some [.cleanmv id]) := by
        intro s; simp only [emit1, hall, if_true]
      simp only [Bool.and_eq_true, List.isEmpty_iff] at hall
      obtain ⟨⟨⟨⟨rfl, rfl⟩, rfl⟩, rfl⟩, rfl⟩ := hall
      exact leafCM hk ρ (.mv id [] [] [] [] []) (.cleanmv id) h (fun _ => rfl) (he s)
        (fun m => by simp [step, mpush, NPat.expand, ren]) (by simp [SideCond]) rfl (by simp)
    · have he : ∀ s : PySt, emit1 n s (.metavar id ef sf ps ns hs)
          = some (some [.metavar id ef sf ps ns hs]) := by
        intro s; simp only [emit1, hall, Bool.false_eq_true, if_false]
      have hp' : ∀ x ∈ hs, x ∉ ef := by simpa using hp
      exact leafCM hk ρ (.mv id ef sf ps ns hs) (.metavar id ef sf ps ns hs) h (fun _ => rfl) (he s)
        (fun m => by simpa [step, mpush, NPat.expand, ren] using hp')
        (by simpa [SideCond] using hp') rfl (by simp)
  | imp l r =>
    simp only [buildF] at h
    simp only [MOK, Bool.and_eq_true] at hp
    simp only [QF, Bool.and_eq_true] at hqf
    exact twoCM hk ρ ihP l r (.imp l r) .implies .implies hp.1 hp.2 hqf.1 hqf.2 hag hK (by simp) h
      (fun s2 st hstk n' => by simp [track1, hstk, entry]) (fun _ => rfl)
      (fun ph m => by simp [step, mpush, NPat.expand, ren])
      (fun _ _ _ => by simp [SideCond]) rfl (by simp)
  | app l r =>
    simp only [buildF] at h
    simp only [MOK, Bool.and_eq_true] at hp
    simp only [QF, Bool.and_eq_true] at hqf
    exact twoCM hk ρ ihP l r (.app l r) .app .app hp.1 hp.2 hqf.1 hqf.2 hag hK (by simp) h
      (fun s2 st hstk n' => by simp [track1, hstk, entry]) (fun _ => rfl)
      (fun ph m => by simp [step, mpush, NPat.expand, ren])
      (fun _ _ _ => by simp [SideCond]) rfl (by simp)
  | ex x q =>
    simp only [buildF] at h
    simp only [MOK] at hp
    simp only [QF] at hqf
    exact oneCM hk ρ ihP q (.ex x q) (.ex x) (.ex x) hp hqf hag hK (by simp) h
      (fun s2 st hstk n' => by simp [track1, hstk, entry]) (fun _ => rfl)
      (fun ph m => by simp [step, mpush, NPat.expand, ren])
      (fun _ _ _ => by simp [SideCond]) rfl (by simp)
  | mu X q =>
    simp only [buildF] at h
    simp only [MOK, Bool.and_eq_true] at hp
    simp only [QF] at hqf
    refine oneCM hk ρ ihP q (.mu X q) (.mu X) (.mu X) hp.1 hqf hag hK (by simp) h
      (fun s2 st hstk n' => by simp [track1, hstk, entry]) (fun _ => rfl)
      (fun ph m => by simp [step, mpush, NPat.expand, ren, hp.2]) ?_ rfl (by simp)
    intro s2 st hstk
    simp only [SideCond]
    intro p b st' hs'
    rw [hstk] at hs'
    cases hs'
    exact hp.2
  | esub q x plug =>
    simp only [buildF] at h
    simp only [MOK, Bool.and_eq_true, Bool.not_eq_true'] at hp
    simp only [QF, Bool.and_eq_true] at hqf
    obtain ⟨⟨⟨⟨hmh, hq⟩, hplug⟩, hne⟩, hfr⟩ := hp
    have hme : q.expand.isMeta = true := NPat.isMeta_expand q (by rw [← isMetaHead_eq]; exact hmh)
    refine twoCM hk ρ ihP plug q (.esub q x plug) (.esubst x) (.esubst x) hplug hq hqf.2 hqf.1.2 hag hK (by simp) h
      (fun s2 st hstk n' => by simp [track1, hstk, entry, hmh]) (fun _ => rfl)
      (fun ph m => by simp [step, mpush, NPat.expand, ren, hme, hne, hfr]) ?_ rfl (by simp)
    intro s2 st hstk
    simp only [SideCond]
    intro p b pl b' st' hs'
    rw [hstk] at hs'
    cases hs'
    exact ⟨hne, hfr⟩
  | ssub q X plug =>
    simp only [buildF] at h
    simp only [MOK, Bool.and_eq_true, Bool.not_eq_true'] at hp
    simp only [QF, Bool.and_eq_true] at hqf
    obtain ⟨⟨⟨⟨hmh, hq⟩, hplug⟩, hne⟩, hfr⟩ := hp
    have hme : q.expand.isMeta = true := NPat.isMeta_expand q (by rw [← isMetaHead_eq]; exact hmh)
    refine twoCM hk ρ ihP plug q (.ssub q X plug) (.ssubst X) (.ssubst X) hplug hq hqf.2 hqf.1.2 hag hK (by simp) h
      (fun s2 st hstk n' => by simp [track1, hstk, entry, hmh]) (fun _ => rfl)
      (fun ph m => by simp [step, mpush, NPat.expand, ren, hme, hne, hfr]) ?_ rfl (by simp)
    intro s2 st hstk
    simp only [SideCond]
    intro p b pl b' st' hs'
    rw [hstk] at hs'
    cases hs'
    exact ⟨hne, hfr⟩
  | inst q m =>
    simp only [buildF] at h
    simp only [MOK, Bool.and_eq_true, decide_eq_true_eq] at hp
    simp only [QF, Bool.and_eq_true] at hqf
    obtain ⟨⟨⟨hq, hm⟩, hnd⟩, hinst⟩ := hp
    exact instCM hk ρ ihP ihL q m hq hm hnd hinst hqf.1 hqf.2 hag hK h

/-- `load` of a saved pattern: the entry `memory.index(p)` finds has the expansion of `p` -/
theorem load_pat_sg {n k : Nat} (hk : k ≤ n) (ρ : Nat → Nat) {s : PySt} {p : NPat} (m : St)
    (hp : p.QF = true)
    (ht : track1 k s (.load (.pat p)) = some (some (s.push (.pat p))))
    (hm : MRel ρ s m) (hK : MemOK s.memory) :
    ∃ i, Sg n s m [.load (.pat p)] (s.push (.pat p)) (mset ρ (s.push (.pat p)) m [ren ρ p.expand]) [.load i] [] := by
  have htn := PySt.track1_mono hk _ _ _ ht
  have htn' := htn
  simp only [track1, Option.bind_eq_bind, Option.bind_eq_some_iff] at htn'
  obtain ⟨oi, hidx, h2⟩ := htn'
  cases oi with
  | none => simp at h2
  | some i =>
    obtain ⟨j, u, hj, hu, hteq⟩ := indexF_found n _ _ 0 i hidx
    have hij : i = j := by omega
    subst hij
    have humem := List.mem_of_getElem? hu
    cases u with
    | proved a => simp [teqF] at hteq
    | pat q =>
      simp only [teqF] at hteq
      have hq := hK.1 q humem
      have hexp : q.expand = p.expand := by
        have := NPat.peqF_expand_QF n q p true hq hp hteq
        simpa using this.symm
      have hmi : m.memory[i]? = some (.pat (ren ρ p.expand)) := by
        rw [hm, List.getElem?_map, hu]
        simp [convR, hexp]
      refine ⟨i, ?_⟩
      rw [mset_self (s' := s.push (.pat p)) hm rfl]
      have := Sg.single (m := m) (m1 := mpush m [ren ρ p.expand])
        (i := .load i) (j := none) htn (by simp [emit1, hidx]) (by simp [step, hmi, mpush]) rfl
        (sideK_mk _ _ (by simp [SideCond]) (touches_push0 _ _ rfl) (by simp))
      simpa using this

theorem patCM_step {cfg : Cfg} {n k : Nat} (hk : k + 1 ≤ n) (ihP : PatCM cfg n k) (ihL : ListCM cfg n k) :
    PatCM cfg n (k + 1) := by
  intro ρ s p acc s' a' h hp hqf hag hK
  rw [patternF_succ] at h
  simp only [Option.bind_eq_some_iff] at h
  obtain ⟨hit, _, h⟩ := h
  cases hit with
  | true =>
    simp only [if_true] at h
    obtain ⟨ht, rfl⟩ := MM.doCalls_one h
    have e := MM.track1_load_eq ht
    subst e
    refine ⟨⟨rfl, id, rfl, rfl, ⟨[], by simp [PySt.push]⟩⟩, [.load (.pat p)], rfl, ?_⟩
    intro m hm
    obtain ⟨i, G⟩ := load_pat_sg (n := n) (by omega) ρ m hqf ht hm hK
    exact ⟨[.load i], G⟩
  | false =>
    simp only [Bool.false_eq_true, if_false] at h
    rcases andThen_eq_some _ _ _ h with ⟨_, e⟩ | ⟨s1, a1, hb, h⟩
    · cases e
    unfold saveF at h
    split at h
    · next S hS =>
      split at h
      · -- the pattern is suggested: `save`
        obtain ⟨ht, rfl⟩ := MM.doCalls_one h
        have hsym : s'.symtab = s1.symtab := symtab_of_track1 (by simp) ht
        have ag1 : Agree ρ s1.symtab := hsym ▸ hag
        obtain ⟨P1, cs1, rfl, S1⟩ := buildCM (by omega) ρ ihP ihL s p acc s1 a1 hb hp hqf ag1 hK
        have hstk : s1.stack = entry p :: s.stack := by simpa using P1.stack
        have ht2 : ∀ n', track1 n' s1 .save = some (some { s1 with memory := s1.memory ++ [.pat p] }) := by
          intro n'; simp [track1, hstk, entry]
        rw [ht2 k] at ht
        simp only [Option.some.injEq] at ht
        subst ht
        refine ⟨⟨P1.stack, fun h => (P1.memory h).push_pat hqf, P1.claims, P1.phase, P1.symtab⟩,
          cs1 ++ [.save], by simp, ?_⟩
        intro m hm
        obtain ⟨is1, G1⟩ := S1 m hm
        have G2 : Sg n s1 (mset ρ s1 m [ren ρ p.expand]) [.save]
            { s1 with memory := s1.memory ++ [.pat p] }
            (mset ρ { s1 with memory := s1.memory ++ [.pat p] } m [ren ρ p.expand]) [.save]
            (none : Option Pat).toList :=
          Sg.single (ht2 n) rfl (by simp [step, mset, mpush, convR]) rfl
            (sideK_mk _ _ (by simp [SideCond]) (by simp [touchesResidue, Call.arity, hstk, entry]) (by simp))
        refine ⟨is1 ++ [.save], ?_⟩
        have := G1.append G2
        simpa using this
      · simp only [Option.some.injEq, Prod.mk.injEq] at h
        obtain ⟨rfl, rfl⟩ := h
        exact buildCM (by omega) ρ ihP ihL s p acc s1 a1 hb hp hqf hag hK
    · simp only [Option.some.injEq, Prod.mk.injEq] at h
      obtain ⟨rfl, rfl⟩ := h
      exact buildCM (by omega) ρ ihP ihL s p acc s1 a1 hb hp hqf hag hK

theorem mset_nil {ρ : Nat → Nat} {s : PySt} {m : St} (hm : MRel ρ s m) : mset ρ s m [] = m := by
  rw [mset_self hm rfl]; rfl

theorem listCM_step {cfg : Cfg} {n k : Nat} (ihP : PatCM cfg n k) (ihL : ListCM cfg n k) :
    ListCM cfg n (k + 1) := by
  intro ρ s ps acc s' a' h hps hqs hag hK
  cases ps with
  | nil =>
    simp only [patternF.patternListF, Option.some.injEq, Prod.mk.injEq] at h
    obtain ⟨rfl, rfl⟩ := h
    refine ⟨PushedM.refl s, [], by simp, fun m hm => ⟨[], ?_⟩⟩
    simp only [List.reverse_nil, List.map_nil]
    rw [mset_nil hm]
    exact Sg.nil s m
  | cons p ps =>
    rw [patternListF_cons] at h
    rcases andThen_eq_some _ _ _ h with ⟨_, e⟩ | ⟨s1, a1, h1, h⟩
    · cases e
    have F1 := ihP.frame h1 (hps p (by simp)) (hqs p (by simp)) hK
    have F2 := ihL.frame h (fun x hx => hps x (List.mem_cons_of_mem _ hx))
      (fun x hx => hqs x (List.mem_cons_of_mem _ hx)) (F1.memory hK)
    obtain ⟨P1, cs1, e1, S1⟩ := ihP ρ s p acc s1 a1 h1 (hps p (by simp)) (hqs p (by simp)) (F2.agree hag) hK
    obtain ⟨P2, cs2, e2, S2⟩ := ihL ρ s1 ps a1 s' a' h (fun x hx => hps x (List.mem_cons_of_mem _ hx))
      (fun x hx => hqs x (List.mem_cons_of_mem _ hx)) hag (P1.memory hK)
    subst e2; subst e1
    refine ⟨by simpa using P1.trans P2, cs1 ++ cs2, by simp, ?_⟩
    intro m hm
    obtain ⟨is1, G1⟩ := S1 m hm
    obtain ⟨is2, G2⟩ := S2 _ (mset_rel ρ s1 m _)
    rw [mset_mset] at G2
    refine ⟨is1 ++ is2, ?_⟩
    have := G1.append G2
    simpa using this

theorem patCM_all (cfg : Cfg) (n : Nat) : ∀ k, k ≤ n → PatCM cfg n k ∧ ListCM cfg n k := by
  intro k
  induction k with
  | zero =>
    intro _
    constructor
    · intro ρ s p acc s' a' h; simp [patternF] at h
    · intro ρ s ps acc s' a' h; simp [patternF.patternListF] at h
  | succ k ih =>
    intro hk
    obtain ⟨ihP, ihL⟩ := ih (by omega)
    exact ⟨patCM_step hk ihP ihL, listCM_step ihP ihL⟩

/-- **`pattern` compiles, plain or memoising**: the tracker pushes `p`, the machine `ren ρ p.expand`; the machine's
memory stays the image of the tracker's; every call satisfies `SideK` -/
theorem pattern_compilesM (cfg : Cfg) {n k : Nat} (hk : k ≤ n) (ρ : Nat → Nat) {s : PySt} {p : NPat} {acc : List Call}
    {s' : PySt} {a' : List Call} (h : patternF cfg k s p acc = some (some (s', a')))
    (hp : p.MOK = true) (hq : p.QF = true) (hag : Agree ρ s'.symtab) (hK : MemOK s.memory) :
    CompM n ρ s p acc s' a' :=
  (patCM_all cfg n k hk).1 ρ s p acc s' a' h hp hq hag hK

theorem patternList_compilesM (cfg : Cfg) {n k : Nat} (hk : k ≤ n) (ρ : Nat → Nat) {s : PySt} {ps : List NPat}
    {acc : List Call} {s' : PySt} {a' : List Call}
    (h : patternF.patternListF cfg k s ps acc = some (some (s', a')))
    (hp : ∀ p ∈ ps, p.MOK = true) (hq : ∀ p ∈ ps, p.QF = true) (hag : Agree ρ s'.symtab) (hK : MemOK s.memory) :
    PushedM s s' (ps.reverse.map entry) ∧ ∃ cs, a' = acc ++ cs ∧
      ∀ m, MRel ρ s m → ∃ is, Sg n s m cs s' (mset ρ s' m (ps.reverse.map fun p => ren ρ p.expand)) is [] :=
  (patCM_all cfg n k hk).2 ρ s ps acc s' a' h hp hq hag hK

end KMod

namespace KMod
open NPat

/-! ## gamma and claim loops -/

/-- the axioms a K module may publish through a memoising serialiser: machine-OK, quiet, and `==` against a rule of
the fragment is truthful -/
def GAxQ (a : NPat) : Prop := a.MOK = true ∧ a.QF = true ∧ PeqOK a

theorem mset_claims (ρ : Nat → Nat) (s' : PySt) (m : St) (cl : List Pat) (ps : List Pat) :
    { mset ρ s' m ps with claims := cl } = mset ρ s' { m with claims := cl } ps := rfl

theorem pubAxiomCM {cfg : Cfg} {n : Nat} :
    ∀ (as : List NPat) (ρ : Nat → Nat) (s : PySt) (acc : List Call) (s' : PySt) (a' : List Call),
    PModule.executeFull.pub cfg n s acc .publishAxiom as = some (some (s', a')) →
    (∀ a ∈ as, GAxQ a) → s.phase = .gamma → Agree ρ s'.symtab → MemOK s.memory →
    (MemOK s'.memory ∧ s'.claims = s.claims ∧ s'.phase = .gamma ∧ ∃ e, s'.symtab = s.symtab ++ e) ∧
    ∃ cs, a' = acc ++ cs ∧ ∀ m : St, MRel ρ s m → ∃ is,
      Sg n s m cs s' (mset ρ s' m []) is (as.map fun a => ren ρ a.expand) := by
  intro as
  induction as with
  | nil =>
    intro ρ s acc s' a' h _ hph _ hK
    simp only [PModule.executeFull.pub, Option.some.injEq, Prod.mk.injEq] at h
    obtain ⟨rfl, rfl⟩ := h
    refine ⟨⟨hK, rfl, hph, ⟨[], by simp⟩⟩, [], by simp, fun m hm => ⟨[], ?_⟩⟩
    rw [mset_nil hm]
    simpa using Sg.nil s m
  | cons a r ih =>
    intro ρ s acc s' a' h has hph hag hK
    simp only [PModule.executeFull.pub, Option.bind_eq_bind, Option.bind_eq_some_iff] at h
    obtain ⟨o1, hp, h⟩ := h
    rcases o1 with _ | ⟨s1, a1⟩
    · simp at h
    simp only [Option.bind_eq_some_iff] at h
    obtain ⟨o2, hd, h⟩ := h
    rcases o2 with _ | ⟨s2, a2⟩
    · simp at h
    simp only [] at h
    obtain ⟨ht, rfl⟩ := MM.doCalls_one hd
    have hsym2 : s2.symtab = s1.symtab := symtab_of_track1 (by simp) ht
    have hph2 : s2.phase = .gamma ∧ s1.phase = .gamma := by
      simp only [track1] at ht
      split at ht
      · next _ _ _ hp1 _ => simp only [Option.some.injEq] at ht; subst ht; exact ⟨hp1, hp1⟩
      · simp at ht
    obtain ⟨hamok, haqf, hapeq⟩ := has a (by simp)
    -- the frame of the first compilation, whatever the naming
    have F1 := (pattern_compilesM cfg (Nat.le_refl n) _ hp hamok haqf (agree_idxOf _) hK).1
    have hstk : s1.stack = entry a :: s.stack := by simpa using F1.stack
    have htr : track1 n s1 .publishAxiom = some (some { s1 with
        stack := (.pat a, true) :: s.stack
        memory := s1.memory ++ [.proved a] }) := by
      simp [track1, hph2.2, hstk, entry]
    rw [htr] at ht
    simp only [Option.some.injEq] at ht
    subst ht
    have hK2 : MemOK (s1.memory ++ [.proved a]) := (F1.memory hK).push_proved hapeq
    obtain ⟨⟨hmem, hcl, hph', e2, he2⟩, cs3, rfl, S3⟩ := ih ρ _ _ s' a' h
      (fun x hx => has x (List.mem_cons_of_mem _ hx)) hph2.1 hag hK2
    have ag2 : Agree ρ s1.symtab := by
      have : Agree ρ (s1.symtab ++ e2) := by rw [← he2]; exact hag
      exact this.prefix
    obtain ⟨P1, cs1, rfl, S1⟩ := pattern_compilesM cfg (Nat.le_refl n) ρ hp hamok haqf ag2 hK
    obtain ⟨e1, he1⟩ := P1.symtab
    refine ⟨⟨hmem, ?_, hph', ⟨e1 ++ e2, ?_⟩⟩, cs1 ++ .publishAxiom :: cs3, by simp, ?_⟩
    · rw [hcl]; exact P1.claims
    · rw [he2]; show s1.symtab ++ e2 = _; rw [he1, List.append_assoc]
    · intro m hm
      obtain ⟨is1, G1⟩ := S1 m hm
      have G2 : Sg n s1 (mset ρ s1 m [ren ρ a.expand]) [.publishAxiom]
          { s1 with
            stack := (.pat a, true) :: s.stack
            memory := s1.memory ++ [.proved a] }
          (mset ρ { s1 with
            stack := (.pat a, true) :: s.stack
            memory := s1.memory ++ [.proved a] } m []) [.publish]
          (some (ren ρ a.expand)).toList :=
        Sg.single htr rfl (by rw [hph2.2]; simp [step, mset, mpush, convR]) rfl
          (sideK_mk _ _ (by simp [SideCond]) (by simp [touchesResidue, Call.arity, hstk, entry]) (by simp))
      obtain ⟨is3, G3⟩ := S3 _ (mset_rel ρ _ m _)
      rw [mset_mset] at G3
      refine ⟨is1 ++ [.publish] ++ is3, ?_⟩
      have := (G1.append G2).append G3
      simpa [List.append_assoc] using this

theorem pubClaimCM {cfg : Cfg} {n : Nat} :
    ∀ (as : List NPat) (ρ : Nat → Nat) (s : PySt) (acc : List Call) (s' : PySt) (a' : List Call),
    PModule.executeFull.pub cfg n s acc .publishClaim as = some (some (s', a')) →
    (∀ a ∈ as, a.MOK = true ∧ a.QF = true) → s.phase = .claim → Agree ρ s'.symtab → MemOK s.memory →
    (MemOK s'.memory ∧ s'.claims = s.claims ∧ s'.phase = .claim ∧ ∃ e, s'.symtab = s.symtab ++ e) ∧
    ∃ cs, a' = acc ++ cs ∧ ∀ m : St, MRel ρ s m → ∃ is,
      Sg n s m cs s' (mset ρ s' { m with claims := (as.map fun a => ren ρ a.expand).reverse ++ m.claims } []) is
        (as.map fun a => ren ρ a.expand) := by
  intro as
  induction as with
  | nil =>
    intro ρ s acc s' a' h _ hph _ hK
    simp only [PModule.executeFull.pub, Option.some.injEq, Prod.mk.injEq] at h
    obtain ⟨rfl, rfl⟩ := h
    refine ⟨⟨hK, rfl, hph, ⟨[], by simp⟩⟩, [], by simp, fun m hm => ⟨[], ?_⟩⟩
    simp only [List.map_nil, List.reverse_nil, List.nil_append]
    rw [mset_nil hm]
    simpa using Sg.nil s m
  | cons a r ih =>
    intro ρ s acc s' a' h has hph hag hK
    simp only [PModule.executeFull.pub, Option.bind_eq_bind, Option.bind_eq_some_iff] at h
    obtain ⟨o1, hp, h⟩ := h
    rcases o1 with _ | ⟨s1, a1⟩
    · simp at h
    simp only [Option.bind_eq_some_iff] at h
    obtain ⟨o2, hd, h⟩ := h
    rcases o2 with _ | ⟨s2, a2⟩
    · simp at h
    simp only [] at h
    obtain ⟨ht, rfl⟩ := MM.doCalls_one hd
    have hsym2 : s2.symtab = s1.symtab := symtab_of_track1 (by simp) ht
    have hph2 : s2.phase = .claim ∧ s1.phase = .claim := by
      simp only [track1] at ht
      split at ht
      · next _ _ _ hp1 _ => simp only [Option.some.injEq] at ht; subst ht; exact ⟨hp1, hp1⟩
      · simp at ht
    obtain ⟨hamok, haqf⟩ := has a (by simp)
    have F1 := (pattern_compilesM cfg (Nat.le_refl n) _ hp hamok haqf (agree_idxOf _) hK).1
    have hstk : s1.stack = entry a :: s.stack := by simpa using F1.stack
    have htr : track1 n s1 .publishClaim = some (some { s1 with stack := (.pat a, true) :: s.stack }) := by
      simp [track1, hph2.2, hstk, entry]
    rw [htr] at ht
    simp only [Option.some.injEq] at ht
    subst ht
    obtain ⟨⟨hmem, hcl, hph', e2, he2⟩, cs3, rfl, S3⟩ := ih ρ _ _ s' a' h
      (fun x hx => has x (List.mem_cons_of_mem _ hx)) hph2.1 hag (F1.memory hK)
    have ag2 : Agree ρ s1.symtab := by
      have : Agree ρ (s1.symtab ++ e2) := by rw [← he2]; exact hag
      exact this.prefix
    obtain ⟨P1, cs1, rfl, S1⟩ := pattern_compilesM cfg (Nat.le_refl n) ρ hp hamok haqf ag2 hK
    obtain ⟨e1, he1⟩ := P1.symtab
    refine ⟨⟨hmem, ?_, hph', ⟨e1 ++ e2, ?_⟩⟩, cs1 ++ .publishClaim :: cs3, by simp, ?_⟩
    · rw [hcl]; exact P1.claims
    · rw [he2]; show s1.symtab ++ e2 = _; rw [he1, List.append_assoc]
    · intro m hm
      obtain ⟨is1, G1⟩ := S1 m hm
      have G2 : Sg n s1 (mset ρ s1 m [ren ρ a.expand]) [.publishClaim]
          { s1 with stack := (.pat a, true) :: s.stack }
          (mset ρ { s1 with stack := (.pat a, true) :: s.stack } { m with claims := ren ρ a.expand :: m.claims } [])
          [.publish] (some (ren ρ a.expand)).toList :=
        Sg.single htr rfl (by rw [hph2.2]; simp [step, mset, mpush]) rfl
          (sideK_mk _ _ (by simp [SideCond]) (by simp [touchesResidue, Call.arity, hstk, entry]) (by simp))
      obtain ⟨is3, G3⟩ := S3 _ (mset_rel ρ _ { m with claims := ren ρ a.expand :: m.claims } _)
      refine ⟨is1 ++ [.publish] ++ is3, ?_⟩
      have := (G1.append G2).append G3
      simpa [List.append_assoc, mset, mpush] using this

end KMod

namespace KMod
open NPat

/-! ## the proof phase -/

/-- `load_axiom(rule)`: what the thunk does, whatever the state and the configuration -/
theorem load_shapeM {cfg : Cfg} {k : Nat} {ax : List NPat} {s s1 : PySt} {rule c : NPat} {acc a1 : List Call}
    (h : Pf.runF cfg ax k s (.loadAxiom rule) acc = some (some (s1, a1, c))) :
    c = rule ∧ s1 = s.push (.proved rule) ∧ a1 = acc ++ [.load (.proved rule)] ∧
      ∃ k', k' ≤ k ∧ track1 k' s (.load (.proved rule)) = some (some s1) := by
  cases k with
  | zero => simp [Pf.runF] at h
  | succ k =>
    rw [runF_succ] at h
    rcases andThen_eq_some _ _ _ h with ⟨_, e⟩ | ⟨s1', a1', hraw, h⟩
    · cases e
    simp only [rawF] at hraw
    obtain ⟨ht, rfl⟩ := MM.doCalls_one hraw
    have e := MM.track1_load_eq ht
    subst e
    simp only [checkF, PySt.push, Option.bind_eq_some_iff] at h
    obtain ⟨o, _, h⟩ := h
    cases o with
    | none => simp at h
    | some adv =>
      simp only [Option.bind_eq_some_iff] at h
      obtain ⟨e, _, h⟩ := h
      cases e with
      | false => simp at h
      | true =>
        simp only [if_true, Option.pure_def, Option.some.injEq, Prod.mk.injEq] at h
        obtain ⟨rfl, rfl, rfl⟩ := h
        exact ⟨rfl, rfl, rfl, k, Nat.le_succ k, ht⟩

/-- the machine side of `load_axiom(rule)`, with saved patterns in the memory -/
theorem load_sgM {n k : Nat} (hk : k ≤ n) (ρ : Nat → Nat) {s : PySt} {rule : NPat} (m : St)
    (hrule : rule.PF = true)
    (ht : track1 k s (.load (.proved rule)) = some (some (s.push (.proved rule))))
    (hmem : MRel ρ s m) (hK : MemOK s.memory) :
    ∃ i, Sg n s m [.load (.proved rule)] (s.push (.proved rule))
      { m with stack := .proved (ren ρ rule.expand) :: m.stack } [.load i] [] := by
  have htn := PySt.track1_mono hk _ _ _ ht
  have htn' := htn
  simp only [track1, Option.bind_eq_bind, Option.bind_eq_some_iff] at htn'
  obtain ⟨oi, hidx, h2⟩ := htn'
  cases oi with
  | none => simp at h2
  | some i =>
    obtain ⟨j, u, hj, hu, hteq⟩ := indexF_found n _ _ 0 i hidx
    have hij : i = j := by omega
    subst hij
    have humem := List.mem_of_getElem? hu
    cases u with
    | pat q => simp [teqF] at hteq
    | proved a =>
      have hok := hK.2 a humem
      simp only [teqF] at hteq
      have hexp := hok n rule hrule hteq
      have hm : m.memory[i]? = some (.proved (ren ρ rule.expand)) := by
        rw [hmem, List.getElem?_map, hu]
        simp [convR, hexp]
      refine ⟨i, ?_⟩
      have := Sg.single (m := m) (m1 := { m with stack := .proved (ren ρ rule.expand) :: m.stack })
        (i := .load i) (j := none) htn (by simp [emit1, hidx]) (by simp [step, hm]) rfl
        (sideK_mk _ _ (by simp [SideCond]) (touches_push0 _ _ rfl) (by simp))
      simpa using this

/-- tracker and machine in the proof phase -/
structure PRelM (ρ : Nat → Nat) (s : PySt) (m : St) : Prop where
  phase : s.phase = .proof
  memory : MRel ρ s m
  claims : m.claims = s.claims.map fun c => ren ρ c.expand
  memK : MemOK s.memory
  clShape : ∀ c ∈ s.claims, c.Shape = true

/-- the machine after a step of the proof loop: the stack as before, the memory the image of the tracker's, one
claim less -/
def mnext (ρ : Nat → Nat) (s2 : PySt) (m : St) : St :=
  { stack := m.stack, memory := s2.memory.map (convR ρ), claims := m.claims.tail }

/-- the conclusion of one step of the proof loop -/
def StepOKM (n : Nat) (ρ : Nat → Nat) (s : PySt) (m : St) (acc : List Call) (s2 : PySt) (a2 : List Call) : Prop :=
  ∃ c0 rest, s.claims = c0 :: rest ∧ s2.claims = rest ∧ MemOK s2.memory ∧ s2.phase = .proof ∧
    (∃ e, s2.symtab = s.symtab ++ e) ∧
    ∃ cs is, a2 = acc ++ cs ∧ Sg n s m cs s2 (mnext ρ s2 m) is []

theorem stepC_loadM {cfg : Cfg} {n : Nat} (ρ : Nat → Nat) (ax : List NPat) {s s1 s2 : PySt} {rule : NPat}
    {acc a1 a2 : List Call} {c : NPat} (m : St) (hrule : rule.PF = true)
    (hrun : Pf.runF cfg ax n s (.loadAxiom rule) acc = some (some (s1, a1, c)))
    (hpub : doCalls n s1 [.publishProof] a1 = some (some (s2, a2)))
    (hrel : PRelM ρ s m) : StepOKM n ρ s m acc s2 a2 := by
  obtain ⟨rfl, rfl, rfl, k', hk', ht⟩ := load_shapeM hrun
  obtain ⟨i, G1⟩ := load_sgM hk' ρ m hrule ht hrel.memory hrel.memK
  obtain ⟨c0, rest, hcl, rfl, rfl, G2⟩ := publishC (Nat.le_refl n) ρ (c := c) (st := s.stack) m m.stack hpub rfl
    hrel.phase (PF.shape _ hrule) hrel.clShape hrel.claims
  refine ⟨c0, rest, hcl, rfl, hrel.memK, hrel.phase, ⟨[], by simp [PySt.push]⟩,
    [.load (.proved c), .publishProof], [.load i, .publish], by simp, ?_⟩
  have := G1.append G2
  have e : mnext ρ { s.push (.proved c) with stack := (.proved c, true) :: s.stack, claims := rest } m
      = { m with stack := m.stack, claims := m.claims.tail } := by
    simp only [mnext, PySt.push]
    rw [← hrel.memory]
  rw [e]
  simpa using this

theorem stepC_dynM {cfg : Cfg} {n : Nat} (ρ : Nat → Nat) (ax : List NPat) {s s1 s2 : PySt} {rule : NPat}
    {σ : List (Nat × NPat)} {acc a1 a2 : List Call} {c : NPat} (m : St) (hrule : rule.PF = true)
    (hσ : PFMap σ = true) (hnd : (σ.map (·.1)).Nodup) (hne : σ.isEmpty = false)
    (hrun : Pf.runF cfg ax n s (.dynInst (.loadAxiom rule) σ) acc = some (some (s1, a1, c)))
    (hpub : doCalls n s1 [.publishProof] a1 = some (some (s2, a2)))
    (hrel : PRelM ρ s m) (hag : Agree ρ s2.symtab) : StepOKM n ρ s m acc s2 a2 := by
  cases n with
  | zero => simp [Pf.runF] at hrun
  | succ k =>
  rw [runF_succ] at hrun
  rcases andThen_eq_some _ _ _ hrun with ⟨_, e⟩ | ⟨s3, a3, hraw, hchk⟩
  · cases e
  simp only [rawF, hne, Bool.false_eq_true, if_false] at hraw
  rcases andThen_eq_some _ _ _ hraw with ⟨_, e⟩ | ⟨t1, b1, h1, hraw⟩
  · cases e
  rcases andThen3_eq_some _ _ _ hraw with ⟨_, e⟩ | ⟨t2, b2, c2, h2, hraw⟩
  · cases e
  obtain ⟨hti, rfl⟩ := MM.doCalls_one hraw
  obtain ⟨rfl, rfl, rfl, k', hk', htl⟩ := load_shapeM h2
  have hsym3 : s3.symtab = t1.symtab := by
    rw [symtab_of_track1 (by simp) hti]; rfl
  have hsym2 : s2.symtab = s1.symtab := symtab_of_track1 (by simp) (MM.doCalls_one hpub).1
  have hvals : ∀ v ∈ σ.map (·.2), v.PF = true := by
    intro v hv
    obtain ⟨kv, hkv, rfl⟩ := List.mem_map.mp hv
    exact (PFMap_iff σ).mp hσ kv hkv
  have hlen : (σ.map (·.2)).length = (σ.map (·.1)).length := by simp
  have hke : (σ.map (·.1)).isEmpty = false := by
    cases σ with
    | nil => simp at hne
    | cons _ _ => rfl
  have hs13 : s1 = s3 ∧ a1 = b1 ++ [.load (.proved c2)] ++ [.instantiate (σ.map (·.1))] := by
    simp only [checkF] at hchk
    split at hchk
    · next c' b' st' hst =>
      simp only [Option.bind_eq_some_iff] at hchk
      obtain ⟨o, _, hchk⟩ := hchk
      cases o with
      | none => simp at hchk
      | some adv =>
        simp only [Option.bind_eq_some_iff] at hchk
        obtain ⟨e, _, hchk⟩ := hchk
        cases e with
        | false => simp at hchk
        | true =>
          simp only [if_true, Option.pure_def, Option.some.injEq, Prod.mk.injEq] at hchk
          obtain ⟨rfl, rfl, rfl⟩ := hchk
          exact ⟨rfl, rfl⟩
    · simp at hchk
  obtain ⟨e13, ea1⟩ := hs13
  subst e13
  subst ea1
  have ag1 : Agree ρ t1.symtab := by rw [← hsym3, ← hsym2]; exact hag
  obtain ⟨P1, cs1, rfl, S1⟩ := patternList_compilesM cfg (n := k + 1) (Nat.le_succ k) ρ h1
    (fun v hv => PF.mok v (hvals v hv)) (fun v hv => PF.qf (hvals v hv)) ag1 hrel.memK
  have hK1 : MemOK t1.memory := P1.memory hrel.memK
  have hstk2 : (t1.push (.proved c2)).stack
      = (.proved c2, false) :: ((σ.map (·.2)).reverse.map entry ++ s.stack) := by
    simp [PySt.push, P1.stack]
  have htp := takePlugs_vals (σ.map (·.2)) s.stack
  rw [hlen] at htp
  have htN := PySt.track1_mono (Nat.le_succ k) _ _ _ hti
  have htN' := htN
  simp only [track1, hstk2, hke, Bool.false_eq_true, if_false, htp, zip_keys_vals,
    Option.bind_eq_bind, Option.bind_eq_some_iff, Option.pure_def, Option.some.injEq] at htN'
  obtain ⟨c3, hinst, hs3⟩ := htN'
  obtain ⟨hce, hcs⟩ := NPat.instF_expand _ σ c2 c3 (PF.shape _ hrule) (PFMap.shape σ hσ) hinst
  obtain ⟨r0, hr0⟩ := Option.isSome_iff_exists.mp
    (Pat.inst_PFS (Py.lookup (NPat.expand.expandMap σ)) c2.expand (PF.pfs c2 hrule))
  have hr0e : r0 = c3.expand := by
    rw [hce]; exact (C11.py_inst_eq_rust _ _ _ hr0).symm
  have hz : (σ.map (·.1)).zip (σ.map (·.2)) = σ := zip_keys_vals σ
  have hph1 : t1.phase = .proof := P1.phase.trans hrel.phase
  -- the pieces
  obtain ⟨is1, G1⟩ := S1 m hrel.memory
  obtain ⟨i, G2⟩ := load_sgM (n := k + 1) (Nat.le_succ_of_le hk') ρ
    (mset ρ t1 m ((σ.map (·.2)).reverse.map fun p => ren ρ p.expand)) hrule htl (mset_rel ρ t1 m _) hK1
  have hstep := step_inst_proved ρ (t1.push (.proved c2)).phase { m with memory := t1.memory.map (convR ρ) }
    c2.expand r0 (σ.map (·.1)) (σ.map (·.2)) hnd hlen (by rw [hz]; exact hr0)
  rw [hr0e] at hstep
  have G3 := Sg.single (n := k + 1) htN (i := .instantiate (σ.map (·.1)).reverse) rfl hstep
    (by rw [← hs3]) (sideK_inst _ _ (σ.map (·.1)) (σ.map (·.2)) (.proved c2) s.stack (Or.inl rfl) hnd hlen
      hstk2 (by rw [hz]; exact Option.isSome_iff_exists.mpr ⟨r0, hr0⟩))
  have hstk3 : s1.stack = (.proved c3, false) :: s.stack := by rw [← hs3]
  have hph3 : s1.phase = .proof := by rw [← hs3]; exact hph1
  have hcl3 : s1.claims = s.claims := by rw [← hs3]; exact P1.claims
  have hmem3 : s1.memory = t1.memory := by rw [← hs3]; rfl
  obtain ⟨c0, rest, hcl, rfl, rfl, G4⟩ := publishC (Nat.le_refl (k + 1)) ρ (c := c3) (st := s.stack)
    { m with memory := t1.memory.map (convR ρ) } m.stack
    hpub hstk3 hph3 hcs (by rw [hcl3]; exact hrel.clShape) (by rw [hcl3]; exact hrel.claims)
  obtain ⟨e1, he1⟩ := P1.symtab
  refine ⟨c0, rest, by rw [← hcl3]; exact hcl, rfl, by show MemOK s1.memory; rw [hmem3]; exact hK1, hph3,
    ⟨e1, by show s1.symtab = _; rw [← he1, ← hsym3]⟩,
    cs1 ++ [.load (.proved c2)] ++ [.instantiate (σ.map (·.1))] ++ [.publishProof],
    is1 ++ [.load i] ++ [.instantiate (σ.map (·.1)).reverse] ++ [.publish], ?_, ?_⟩
  · simp [List.append_assoc]
  · have := ((G1.append G2).append G3).append G4
    have e : mnext ρ { s1 with stack := (.proved c3, true) :: s.stack, claims := rest } m
        = { ({ m with memory := t1.memory.map (convR ρ) } : St) with stack := m.stack, claims := m.claims.tail } := by
      simp only [mnext, hmem3]
    rw [e]
    simpa [mset, mpush] using this

end KMod

namespace KMod
open NPat

theorem stepCM {cfg : Cfg} {n : Nat} (ρ : Nat → Nat) (ax : List NPat) {s s1 s2 : PySt} {pf : Pf}
    {acc a1 a2 : List Call} {c : NPat} (m : St) (hpf : KPf pf)
    (hrun : Pf.runF cfg ax n s pf acc = some (some (s1, a1, c)))
    (hpub : doCalls n s1 [.publishProof] a1 = some (some (s2, a2)))
    (hrel : PRelM ρ s m) (hag : Agree ρ s2.symtab) : StepOKM n ρ s m acc s2 a2 := by
  obtain ⟨rule, σ, hrule, hσ, hnd, rfl⟩ := hpf
  cases hne : σ.isEmpty with
  | true =>
    simp only [hne, if_true] at hrun
    exact stepC_loadM ρ ax m hrule hrun hpub hrel
  | false =>
    simp only [hne, Bool.false_eq_true, if_false] at hrun
    exact stepC_dynM ρ ax m hrule hσ hnd hne hrun hpub hrel hag

/-- the part of `PRelM` that does not mention the machine -/
structure PInvM (s : PySt) : Prop where
  phase : s.phase = .proof
  memK : MemOK s.memory
  clShape : ∀ c ∈ s.claims, c.Shape = true

theorem PRelM.inv {ρ : Nat → Nat} {s : PySt} {m : St} (h : PRelM ρ s m) : PInvM s :=
  ⟨h.phase, h.memK, h.clShape⟩

theorem PInvM.rel {s : PySt} (h : PInvM s) (ρ : Nat → Nat) : PRelM ρ s (fakeM ρ s) :=
  ⟨h.phase, rfl, rfl, h.memK, h.clShape⟩

/-- after a step the relation holds again -/
theorem StepOKM.rel {n : Nat} {ρ : Nat → Nat} {s s2 : PySt} {m : St} {acc a2 : List Call}
    (h : StepOKM n ρ s m acc s2 a2) (hrel : PRelM ρ s m) : PRelM ρ s2 (mnext ρ s2 m) := by
  obtain ⟨c0, rest, hcl, hcl2, hmem, hph, _, _⟩ := h
  refine ⟨hph, rfl, ?_, hmem, ?_⟩
  · show m.claims.tail = _
    rw [hrel.claims, hcl, hcl2]; rfl
  · intro x hx
    rw [hcl2] at hx
    exact hrel.clShape x (by rw [hcl]; exact List.mem_cons_of_mem _ hx)

/-- one step, without a machine: the symbol table grows, the invariant is kept, one claim is consumed -/
theorem stepC_extM {cfg : Cfg} {n : Nat} (ax : List NPat) {s s1 s2 : PySt} {pf : Pf}
    {acc a1 a2 : List Call} {c : NPat} (hpf : KPf pf)
    (hrun : Pf.runF cfg ax n s pf acc = some (some (s1, a1, c)))
    (hpub : doCalls n s1 [.publishProof] a1 = some (some (s2, a2)))
    (hinv : PInvM s) :
    PInvM s2 ∧ (∃ e, s2.symtab = s.symtab ++ e) ∧ s.claims.length = s2.claims.length + 1 := by
  have hrel := hinv.rel (fun nm => s2.symtab.idxOf nm)
  have hstep := stepCM _ ax _ hpf hrun hpub hrel (agree_idxOf s2.symtab)
  have hrel2 := hstep.rel hrel
  obtain ⟨c0, rest, hcl, hcl2, _, _, hext, _⟩ := hstep
  exact ⟨hrel2.inv, hext, by rw [hcl, hcl2]; rfl⟩

theorem proofs_cons_invM {cfg : Cfg} {M : PModule} {n : Nat} {s s' : PySt} {acc a' : List Call} {pf : Pf}
    {r : List Pf} (h : PModule.executeFull.proofs cfg M n s acc (pf :: r) = some (some (s', a'))) :
    ∃ s1 a1 c s2 a2, Pf.runF cfg M.axiomsOf n s pf acc = some (some (s1, a1, c)) ∧
      doCalls n s1 [.publishProof] a1 = some (some (s2, a2)) ∧
      PModule.executeFull.proofs cfg M n s2 a2 r = some (some (s', a')) := by
  simp only [PModule.executeFull.proofs, Option.bind_eq_bind, Option.bind_eq_some_iff] at h
  obtain ⟨o1, hp, h⟩ := h
  rcases o1 with _ | ⟨s1, a1, cc⟩
  · simp at h
  simp only [Option.bind_eq_some_iff] at h
  obtain ⟨o2, hd, h⟩ := h
  rcases o2 with _ | ⟨s2, a2⟩
  · simp at h
  exact ⟨s1, a1, cc, s2, a2, hp, hd, h⟩

theorem proofs_extM {cfg : Cfg} {M : PModule} {n : Nat} :
    ∀ (pfs : List Pf) (s : PySt) (acc : List Call) (s' : PySt) (a' : List Call),
    PModule.executeFull.proofs cfg M n s acc pfs = some (some (s', a')) →
    (∀ pf ∈ pfs, KPf pf) → PInvM s → ∃ e, s'.symtab = s.symtab ++ e := by
  intro pfs
  induction pfs with
  | nil =>
    intro s acc s' a' h _ _
    simp only [PModule.executeFull.proofs, Option.some.injEq, Prod.mk.injEq] at h
    obtain ⟨rfl, rfl⟩ := h
    exact ⟨[], by simp⟩
  | cons pf r ih =>
    intro s acc s' a' h hpfs hinv
    obtain ⟨s1, a1, c, s2, a2, hrun, hpub, hrest⟩ := proofs_cons_invM h
    obtain ⟨hinv2, ⟨e1, he1⟩, _⟩ := stepC_extM M.axiomsOf (hpfs pf (by simp)) hrun hpub hinv
    obtain ⟨e2, he2⟩ := ih s2 a2 s' a' hrest (fun x hx => hpfs x (List.mem_cons_of_mem _ hx)) hinv2
    exact ⟨e1 ++ e2, by rw [he2, he1, List.append_assoc]⟩

/-- the proof loop: every claim is discharged -/
theorem proofsCM {cfg : Cfg} {M : PModule} {n : Nat} (ρ : Nat → Nat) :
    ∀ (pfs : List Pf) (s : PySt) (acc : List Call) (s' : PySt) (a' : List Call) (m : St),
    PModule.executeFull.proofs cfg M n s acc pfs = some (some (s', a')) →
    (∀ pf ∈ pfs, KPf pf) → PRelM ρ s m → Agree ρ s'.symtab → s.claims.length = pfs.length →
    s'.claims = [] ∧ ∃ cs is m', a' = acc ++ cs ∧ Sg n s m cs s' m' is [] ∧ m'.claims = [] := by
  intro pfs
  induction pfs with
  | nil =>
    intro s acc s' a' m h _ hrel _ hlen
    simp only [PModule.executeFull.proofs, Option.some.injEq, Prod.mk.injEq] at h
    obtain ⟨rfl, rfl⟩ := h
    have hcl : s.claims = [] := List.length_eq_zero_iff.mp hlen
    exact ⟨hcl, [], [], m, by simp, Sg.nil s m, by rw [hrel.claims, hcl]; rfl⟩
  | cons pf r ih =>
    intro s acc s' a' m h hpfs hrel hag hlen
    obtain ⟨s1, a1, c, s2, a2, hrun, hpub, hrest⟩ := proofs_cons_invM h
    obtain ⟨hinv2, _, hlen2⟩ := stepC_extM M.axiomsOf (hpfs pf (by simp)) hrun hpub hrel.inv
    obtain ⟨e2, he2⟩ := proofs_extM r s2 a2 s' a' hrest (fun x hx => hpfs x (List.mem_cons_of_mem _ hx)) hinv2
    have ag2 : Agree ρ s2.symtab := by rw [he2] at hag; exact hag.prefix
    have hstep := stepCM ρ M.axiomsOf m (hpfs pf (by simp)) hrun hpub hrel ag2
    have hrel2 := hstep.rel hrel
    obtain ⟨hfin, cs2, is2, m', rfl, G2, hm'⟩ := ih s2 a2 s' a' _ hrest
      (fun x hx => hpfs x (List.mem_cons_of_mem _ hx)) hrel2 hag (by simp at hlen; omega)
    obtain ⟨_, _, _, _, _, _, _, cs1, is1, rfl, G1⟩ := hstep
    exact ⟨hfin, cs1 ++ cs2, is1 ++ is2, m', by simp, by simpa using G1.append G2, hm'⟩

/-! ## the whole module -/

/-- **acceptance of a K-style module, plain or memoising** (any suggestion set): axioms `GAxQ`, claims in the
propositional fragment, one proof `load_axiom` / `dynamic_inst(load_axiom)` per claim.  `ρ` is any naming of the symbols
that names the symbols of the final table by their position. -/
theorem module_acceptedKM (cfg : Cfg) {n : Nat} (M : PModule) (s : PySt) (calls : List Call)
    (hgam : ∀ a ∈ M.gammaAxioms, GAxQ a) (hclm : ∀ a ∈ M.claimsOf, a.PF = true)
    (hpfs : ∀ pf ∈ M.proofsOf, KPf pf) (hlen : M.claimsOf.length = M.proofsOf.length)
    (hex : PModule.executeFull cfg n M = some (some (s, calls)))
    (ρ : Nat → Nat) (hag : Agree ρ s.symtab) :
    s.claims = [] ∧ AllSideK n (PySt.init M.claimsOf) calls ∧
    ∃ g c p, PySt.trackAll n (PySt.init M.claimsOf) calls ([], [], []) = some (some (s, (g, c, p))) ∧
      verify g c p = some (M.gammaAxioms.map (fun a => ren ρ a.expand),
        M.claimsOf.reverse.map (fun a => ren ρ a.expand)) := by
  simp only [PModule.executeFull, Option.bind_eq_bind, Option.bind_eq_some_iff] at hex
  obtain ⟨o1, hpub1, hex⟩ := hex
  rcases o1 with _ | ⟨e1, a1⟩
  · simp at hex
  simp only [Option.bind_eq_some_iff] at hex
  obtain ⟨o2, hd1, hex⟩ := hex
  rcases o2 with _ | ⟨e2, a2⟩
  · simp at hex
  simp only [Option.bind_eq_some_iff] at hex
  obtain ⟨o3, hpub2, hex⟩ := hex
  rcases o3 with _ | ⟨e3, a3⟩
  · simp at hex
  simp only [Option.bind_eq_some_iff] at hex
  obtain ⟨o4, hd2, hex⟩ := hex
  rcases o4 with _ | ⟨e4, a4⟩
  · simp at hex
  simp only [] at hex
  obtain ⟨ht1, rfl⟩ := MM.doCalls_one hd1
  obtain ⟨ht2, rfl⟩ := MM.doCalls_one hd2
  obtain ⟨hphe1, he2⟩ := intoClaim_spec n e1 e2 ht1
  obtain ⟨hphe3, he4⟩ := intoProof_spec n e3 e4 ht2
  have hmokC : ∀ a ∈ M.claimsOf.reverse, a.MOK = true ∧ a.QF = true :=
    fun a ha => ⟨PF.mok a (hclm a (List.mem_reverse.mp ha)), PF.qf (hclm a (List.mem_reverse.mp ha))⟩
  have hph2 : e2.phase = .claim := by rw [he2]
  -- the facts that do not depend on the naming
  obtain ⟨⟨hK1, hcl1, _, _⟩, _⟩ := pubAxiomCM M.gammaAxioms (fun nm => e1.symtab.idxOf nm) _ [] e1 a1 hpub1
    hgam rfl (agree_idxOf _) MemOK.nil
  have hK2 : MemOK e2.memory := by rw [he2]; exact hK1
  obtain ⟨⟨hK3, hcl3, _, _⟩, _⟩ := pubClaimCM M.claimsOf.reverse (fun nm => e3.symtab.idxOf nm) e2 _ e3 a3
    hpub2 hmokC hph2 (agree_idxOf _) hK2
  have hK4 : MemOK e4.memory := by rw [he4]; exact hK3
  have hcl4 : e4.claims = M.claimsOf := by
    rw [he4]; show e3.claims = _
    rw [hcl3, he2]; show e1.claims = _
    rw [hcl1]; rfl
  have hinv4 : PInvM e4 := by
    refine ⟨by rw [he4], hK4, ?_⟩
    intro c hc
    rw [hcl4] at hc
    exact PF.shape c (hclm c hc)
  -- symbol tables
  obtain ⟨eP, hextP⟩ := proofs_extM M.proofsOf e4 _ s calls hex hpfs hinv4
  have ag4 : Agree ρ e4.symtab := by have := hag; rw [hextP] at this; exact this.prefix
  have ag3 : Agree ρ e3.symtab := by rw [he4] at ag4; exact ag4
  obtain ⟨⟨_, _, _, eC, hextC⟩, C, hC, SC⟩ := pubClaimCM M.claimsOf.reverse ρ e2 _ e3 a3
    hpub2 hmokC hph2 ag3 hK2
  have ag2 : Agree ρ e2.symtab := by rw [hextC] at ag3; exact ag3.prefix
  have ag1 : Agree ρ e1.symtab := by rw [he2] at ag2; exact ag2
  obtain ⟨_, G, hG, SG⟩ := pubAxiomCM M.gammaAxioms ρ _ [] e1 a1 hpub1 hgam rfl ag1 MemOK.nil
  simp only [List.nil_append] at hG
  subst hG
  subst hC
  -- the machine
  obtain ⟨isG, GG⟩ := SG ⟨[], [], []⟩ rfl
  obtain ⟨isC, GC⟩ := SC (mset ρ e1 ⟨[], [], []⟩ []) (by rw [he2]; rfl)
  have hrel4 : PRelM ρ e4
      (mset ρ e3 { mset ρ e1 ⟨[], [], []⟩ [] with
        claims := (M.claimsOf.reverse.map fun a => ren ρ a.expand).reverse ++ (mset ρ e1 ⟨[], [], []⟩ []).claims } []) := by
    refine ⟨hinv4.phase, ?_, ?_, hinv4.memK, hinv4.clShape⟩
    · rw [he4]; rfl
    · simp [hcl4, List.map_reverse, mset, mpush]
  obtain ⟨hfin, P, isP, m3, hP, GP, hm3⟩ := proofsCM ρ M.proofsOf e4 _ s calls _ hex hpfs
    hrel4 hag (by rw [hcl4]; exact hlen)
  have hcalls : calls = a1 ++ .intoClaim :: (C ++ .intoProof :: P) := by
    rw [hP]; simp [List.append_assoc]
  subst hcalls
  refine ⟨hfin, ?_, isG, isC, isP, ?_, ?_⟩
  · -- side conditions
    have sP : AllSideK n e4 P := GP.side
    have sIP : AllSideK n e3 (.intoProof :: P) :=
      ⟨Or.inl (Or.inr rfl), fun t ht => by rw [ht2] at ht; cases ht; exact sP⟩
    have sC : AllSideK n e2 (C ++ .intoProof :: P) := allSideK_append n C _ e2 e3 GC.side GC.reach sIP
    have sIC : AllSideK n e1 (.intoClaim :: (C ++ .intoProof :: P)) :=
      ⟨Or.inl (Or.inl rfl), fun t ht => by rw [ht1] at ht; cases ht; exact sC⟩
    exact allSideK_append n a1 _ _ e1 GG.side GG.reach sIC
  · -- the replay
    have h1 := GG.trackAll ([], [], [])
    rw [trackAll_append_eq a1 _ _ e1 _ _ h1, trackAll_cons_eq _ _ (is := []) rfl ht1, addOut_nil]
    have h2 := GC.trackAll (addOut (PySt.init M.claimsOf).phase ([], [], []) isG)
    rw [trackAll_append_eq C _ _ e3 _ _ h2, trackAll_cons_eq _ _ (is := []) rfl ht2, addOut_nil]
    rw [GP.trackAll]
    have hp4 : e4.phase = .proof := hinv4.phase
    rw [hp4, hph2]
    rfl
  · -- the machine accepts
    have r1 := GG.run
    have r2 := GC.run
    have r3 := GP.run
    rw [hph2] at r2
    rw [hinv4.phase] at r3
    have r1' : run .gamma ⟨[], [], []⟩ isG = some (mset ρ e1 ⟨[], [], []⟩ [], _) := r1
    have r2' : run .claim { mset ρ e1 ⟨[], [], []⟩ [] with stack := [] } isC = some (_, _) := r2
    have r3' : run .proof { (mset ρ e3 { mset ρ e1 ⟨[], [], []⟩ [] with
        claims := (M.claimsOf.reverse.map fun a => ren ρ a.expand).reverse ++ (mset ρ e1 ⟨[], [], []⟩ []).claims } [])
          with stack := [] } isP = some (_, _) := r3
    simp only [verify, r1', r2', r3', hm3, Option.bind_eq_bind, Option.bind_some, List.isEmpty_nil, if_true,
      Option.pure_def]

end KMod

namespace KMod
open NPat Kore

/-! ## the module of a K execution trace -/

theorem imports_qf : funcSubstAxiom.QF = true ∧ definednessAxiom.QF = true ∧ fnDef.SubFree = true := by
  decide +kernel

theorem kImports_gaxq : ∀ a ∈ PModule.gammaAxioms.gammaList kImports, GAxQ a := by
  intro a ha
  obtain ⟨h1, h2⟩ := kImports_gax a ha
  rw [kImports_gamma] at ha
  simp only [List.mem_cons, List.not_mem_nil, or_false] at ha
  rcases ha with rfl | rfl
  · exact ⟨h1, imports_qf.1, h2⟩
  · exact ⟨h1, imports_qf.2.1, h2⟩

theorem KAx.gaxq {a : NPat} (h : KAx a) : GAxQ a := by
  obtain ⟨h1, h2⟩ := h.gax
  refine ⟨h1, ?_, h2⟩
  rcases h with h | ⟨v, hv, _, rfl⟩
  · exact PF.qf h
  · simp [QF, imports_qf.2.2, SubFreeMap, PF.subFree v hv]

/-- **acceptance of the module of a trace of the fragment, plain or memoising** (any suggestion set), for every naming
`ρ` that agrees with the final symbol table -/
theorem k_module_memo_core (cfg : Cfg) (sg : Sig) (n0 n : Nat) (init : NPat) (steps : List (NPat × List (Nat × NPat)))
    (st : ExecSt) (subs : List PModule) (s : PySt) (calls : List Call)
    (htrace : traceF sg n0 (initSt init) steps = some (some st)) (hfrag : KSteps steps = true)
    (hsubs : ∀ a ∈ PModule.gammaAxioms.gammaList subs, GAxQ a)
    (hex : PModule.executeFull cfg n (st.module subs) = some (some (s, calls)))
    (ρ : Nat → Nat) (hag : Agree ρ s.symtab) :
    s.claims = [] ∧ AllSideK n (PySt.init st.claims) calls ∧
    ∃ g c p, PySt.trackAll n (PySt.init st.claims) calls ([], [], []) = some (some (s, (g, c, p))) ∧
      verify g c p = some ((st.module subs).gammaAxioms.map (fun a => ren ρ a.expand),
        st.claims.reverse.map (fun a => ren ρ a.expand)) := by
  have hinv := trace_inv sg n0 steps _ st hfrag (kinv_init init) htrace
  refine module_acceptedKM cfg (st.module subs) s calls ?_ hinv.claims hinv.proofs hinv.len hex ρ hag
  intro a ha
  rw [module_gamma] at ha
  rcases List.mem_append.mp ha with ha | ha
  · exact hsubs a ha
  · exact (hinv.axioms a ha).gaxq

end KMod

#print axioms KMod.pattern_compilesM
#print axioms KMod.module_acceptedKM
#print axioms KMod.k_module_memo_core
