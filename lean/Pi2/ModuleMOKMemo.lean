import Pi2.ModuleMOKAccept
import Pi2.ModuleMOKConv
import Pi2.KModMemo
import Pi2.SlotBudget2
/-!
# The memoising serialisation of a machine-OK module is accepted too

`Pi2/KModMemo.lean` redoes the compilation of patterns for an arbitrary configuration `cfg` on the class `NPat.QF`
(quiet patterns).  The patterns of a machine-OK module (`PModule.MOK`) are *shaped* (`NPat.Shape`), a class that is
incomparable with `QF` (a shaped pattern may have a substitution node inside a notation node; a quiet one may have
constrained metavariables).  `==` is truthful on shaped patterns too (`NPat.peqF_expand`), so the same development goes
through with the memory invariant `MemOKS`: every saved pattern and every published axiom is shaped.

Part 1 redoes `pattern_compilesM`, `pubAxiomCM`, `pubClaimCM` on `Shape`; part 2 redoes `runC` (`Pi2/ModuleMOKRun.lean`)
for an arbitrary `cfg`, with the memory relation threaded through; part 3 is `module_acceptedMS`, the analogue of
`module_acceptedM` for an arbitrary `cfg` (no hypothesis on the suggestion list); then `module_len_iffS` and
`module_mok_of_runS`, the analogues of `Pi2/ModuleMOKConv.lean` for an arbitrary `cfg`.
-/
set_option linter.unusedSimpArgs false
set_option linter.unusedVariables false
open Pat PySt

namespace KMod
open NPat

/-! ## part 1: patterns, gamma and claim loops, on `Shape` -/
/-! ## the memory -/

/-- every saved pattern is quiet; every published axiom is truthfully compared with a rule of the fragment -/
def MemOKS (mem : List TTerm) : Prop :=
  (∀ q, TTerm.pat q ∈ mem → q.Shape = true) ∧ (∀ a, TTerm.proved a ∈ mem → a.Shape = true)

theorem MemOKS.nil : MemOKS [] := ⟨fun q h => by simp at h, fun a h => by simp at h⟩

theorem MemOKS.push_pat {mem : List TTerm} (h : MemOKS mem) {q : NPat} (hq : q.Shape = true) : MemOKS (mem ++ [.pat q]) := by
  refine ⟨fun x hx => ?_, fun a ha => ?_⟩
  · rcases List.mem_append.mp hx with hx | hx
    · exact h.1 x hx
    · simp only [List.mem_singleton, TTerm.pat.injEq] at hx; subst hx; exact hq
  · rcases List.mem_append.mp ha with ha | ha
    · exact h.2 a ha
    · simp at ha

theorem MemOKS.push_proved {mem : List TTerm} (h : MemOKS mem) {a : NPat} (ha : a.Shape = true) :
    MemOKS (mem ++ [.proved a]) := by
  refine ⟨fun x hx => ?_, fun b hb => ?_⟩
  · rcases List.mem_append.mp hx with hx | hx
    · exact h.1 x hx
    · simp at hx
  · rcases List.mem_append.mp hb with hb | hb
    · exact h.2 b hb
    · simp only [List.mem_singleton, TTerm.proved.injEq] at hb; subst hb; exact ha


/-- `top` was pushed; the memory invariant is kept; the symbol table grew -/
structure PushedS (s s' : PySt) (top : List (TTerm × Bool)) : Prop where
  stack : s'.stack = top ++ s.stack
  memory : MemOKS s.memory → MemOKS s'.memory
  claims : s'.claims = s.claims
  phase : s'.phase = s.phase
  symtab : ∃ e, s'.symtab = s.symtab ++ e

theorem PushedS.refl (s : PySt) : PushedS s s [] := ⟨rfl, id, rfl, rfl, ⟨[], by simp⟩⟩

theorem PushedS.trans {s s1 s2 : PySt} {t1 t2 : List (TTerm × Bool)} (h1 : PushedS s s1 t1)
    (h2 : PushedS s1 s2 t2) : PushedS s s2 (t2 ++ t1) := by
  obtain ⟨e1, he1⟩ := h1.symtab
  obtain ⟨e2, he2⟩ := h2.symtab
  exact ⟨by rw [h2.stack, h1.stack, List.append_assoc], fun h => h2.memory (h1.memory h),
    h2.claims.trans h1.claims, h2.phase.trans h1.phase, ⟨e1 ++ e2, by rw [he2, he1, List.append_assoc]⟩⟩

theorem PushedS.replace {s s2 : PySt} {top : List (TTerm × Bool)} (h : PushedS s s2 top) (e : TTerm × Bool) :
    PushedS s { s2 with stack := e :: s.stack } [e] :=
  ⟨rfl, h.memory, h.claims, h.phase, h.symtab⟩

theorem PushedS.agree {ρ : Nat → Nat} {s s' : PySt} {top : List (TTerm × Bool)} (h : PushedS s s' top)
    (ha : Agree ρ s'.symtab) : Agree ρ s.symtab := by
  obtain ⟨e, he⟩ := h.symtab
  rw [he] at ha
  exact ha.prefix

/-! ## the compilation of a pattern, plain or memoising -/

/-- the result of a compilation, as a proposition -/
def CompS (n : Nat) (ρ : Nat → Nat) (s : PySt) (p : NPat) (acc : List Call) (s' : PySt) (a' : List Call) : Prop :=
  PushedS s s' [entry p] ∧ ∃ cs, a' = acc ++ cs ∧
    ∀ m, MRel ρ s m → ∃ is, Sg n s m cs s' (mset ρ s' m [ren ρ p.expand]) is []

def PatCS (cfg : Cfg) (n : Nat) (k : Nat) : Prop :=
  ∀ (ρ : Nat → Nat) s p acc s' a', patternF cfg k s p acc = some (some (s', a')) → p.MOK = true → p.Shape = true →
    Agree ρ s'.symtab → MemOKS s.memory → CompS n ρ s p acc s' a'

def ListCS (cfg : Cfg) (n : Nat) (k : Nat) : Prop :=
  ∀ (ρ : Nat → Nat) s ps acc s' a', patternF.patternListF cfg k s ps acc = some (some (s', a')) →
    (∀ p ∈ ps, p.MOK = true) → (∀ p ∈ ps, p.Shape = true) → Agree ρ s'.symtab → MemOKS s.memory →
    PushedS s s' (ps.reverse.map entry) ∧ ∃ cs, a' = acc ++ cs ∧
      ∀ m, MRel ρ s m → ∃ is, Sg n s m cs s' (mset ρ s' m (ps.reverse.map fun p => ren ρ p.expand)) is []

/-- a call that pushes one pattern and needs nothing -/
theorem leafCS {n k : Nat} (hk : k ≤ n) (ρ : Nat → Nat) {s s' : PySt} {c : Call} {acc a' : List Call}
    (p : NPat) (i : Instr)
    (h : doCalls k s [c] acc = some (some (s', a')))
    (hpush : ∀ n', track1 n' s c = some (some (s.push (.pat p))))
    (he : emit1 n s c = some (some [i]))
    (hs : ∀ m : St, step s.phase m i = some (mpush m [ren ρ p.expand], none))
    (hsc : SideCond s c) (har : c.arity = 0)
    (hkk : ∀ keys, c ≠ .instantiate keys ∧ c ≠ .instantiatePattern keys) :
    CompS n ρ s p acc s' a' := by
  have ht := (MM.doCalls_one h).1
  rw [hpush k] at ht
  simp only [Option.some.injEq] at ht
  subst ht
  refine ⟨⟨rfl, id, rfl, rfl, ⟨[], by simp [PySt.push]⟩⟩, [c], (MM.doCalls_one h).2, ?_⟩
  intro m hm
  refine ⟨[i], ?_⟩
  rw [mset_self (s' := s.push (.pat p)) hm rfl]
  exact (call_sg hk h he (hs m) rfl (sideK_mk _ _ hsc (touches_push0 _ _ har) hkk)).2

/-- two sub-patterns, then one call that replaces them by `res` -/
theorem twoCS {cfg : Cfg} {n k : Nat} (hk : k ≤ n) (ρ : Nat → Nat) (ihP : PatCS cfg n k)
    {s s' : PySt} {acc a' : List Call} (a b res : NPat) (c : Call) (i : Instr)
    (ha : a.MOK = true) (hb : b.MOK = true) (qa : a.Shape = true) (qb : b.Shape = true)
    (hag : Agree ρ s'.symtab) (hK : MemOKS s.memory)
    (hc : ∀ nm, c ≠ .symbol nm)
    (h : (andThen (patternF cfg k s a acc) fun s1 a1 =>
        andThen (patternF cfg k s1 b a1) fun s2 a2 => doCalls k s2 [c] a2) = some (some (s', a')))
    (htr : ∀ (s2 : PySt) st, s2.stack = entry b :: entry a :: st →
      ∀ n', track1 n' s2 c = some (some { s2 with stack := entry res :: st }))
    (he : ∀ s2 : PySt, emit1 n s2 c = some (some [i]))
    (hs : ∀ (ph : Phase) (m : St),
      step ph (mpush m [ren ρ b.expand, ren ρ a.expand]) i = some (mpush m [ren ρ res.expand], none))
    (hsc : ∀ (s2 : PySt) st, s2.stack = entry b :: entry a :: st → SideCond s2 c)
    (har : c.arity = 2)
    (hkk : ∀ keys, c ≠ .instantiate keys ∧ c ≠ .instantiatePattern keys) :
    CompS n ρ s res acc s' a' := by
  rcases andThen_eq_some _ _ _ h with ⟨_, e⟩ | ⟨s1, a1, h1, h⟩
  · cases e
  rcases andThen_eq_some _ _ _ h with ⟨_, e⟩ | ⟨s2, a2, h2, h⟩
  · cases e
  obtain ⟨ht, rfl⟩ := MM.doCalls_one h
  have hsym : s'.symtab = s2.symtab := symtab_of_track1 hc ht
  have ag2 : Agree ρ s2.symtab := hsym ▸ hag
  -- the first sub-pattern needs the naming of the state after it; that state is a prefix of `s2`'s
  have P1' : ∃ e, s2.symtab = s1.symtab ++ e := by
    -- run the second compilation with the naming by position in `s2`
    have hK1 : MemOKS s1.memory :=
      (ihP _ s a acc s1 a1 h1 ha qa (agree_idxOf _) hK).1.memory hK
    exact (ihP _ s1 b a1 s2 a2 h2 hb qb (agree_idxOf _) hK1).1.symtab
  obtain ⟨e2, he2⟩ := P1'
  have ag1 : Agree ρ s1.symtab := by rw [he2] at ag2; exact ag2.prefix
  obtain ⟨P1, cs1, e1, S1⟩ := ihP ρ s a acc s1 a1 h1 ha qa ag1 hK
  obtain ⟨P2, cs2, e2', S2⟩ := ihP ρ s1 b a1 s2 a2 h2 hb qb ag2 (P1.memory hK)
  subst e2'; subst e1
  have P12 := P1.trans P2
  have hstk : s2.stack = entry b :: entry a :: s.stack := by simpa using P12.stack
  rw [htr s2 s.stack hstk k] at ht
  simp only [Option.some.injEq] at ht
  subst ht
  refine ⟨P12.replace _, cs1 ++ cs2 ++ [c], by simp, ?_⟩
  intro m hm
  obtain ⟨is1, G1⟩ := S1 m hm
  obtain ⟨is2, G2⟩ := S2 _ (mset_rel ρ s1 m _)
  rw [mset_mset] at G2
  have G3 : Sg n s2 (mset ρ s2 m [ren ρ b.expand, ren ρ a.expand]) [c]
      { s2 with stack := entry res :: s.stack } (mset ρ { s2 with stack := entry res :: s.stack } m [ren ρ res.expand])
      [i] (none : Option Pat).toList :=
    Sg.single (htr s2 s.stack hstk n) (he s2) (hs _ _) rfl
      (sideK_mk _ _ (hsc s2 s.stack hstk)
        (by simp [touchesResidue, har, hstk, entry]) hkk)
  refine ⟨is1 ++ is2 ++ [i], ?_⟩
  have := (G1.append G2).append G3
  simpa using this

/-- one sub-pattern, then one call that replaces it by `res` -/
theorem oneCS {cfg : Cfg} {n k : Nat} (hk : k ≤ n) (ρ : Nat → Nat) (ihP : PatCS cfg n k)
    {s s' : PySt} {acc a' : List Call} (a res : NPat) (c : Call) (i : Instr)
    (ha : a.MOK = true) (qa : a.Shape = true) (hag : Agree ρ s'.symtab) (hK : MemOKS s.memory)
    (hc : ∀ nm, c ≠ .symbol nm)
    (h : (andThen (patternF cfg k s a acc) fun s1 a1 => doCalls k s1 [c] a1) = some (some (s', a')))
    (htr : ∀ (s2 : PySt) st, s2.stack = entry a :: st →
      ∀ n', track1 n' s2 c = some (some { s2 with stack := entry res :: st }))
    (he : ∀ s2 : PySt, emit1 n s2 c = some (some [i]))
    (hs : ∀ (ph : Phase) (m : St),
      step ph (mpush m [ren ρ a.expand]) i = some (mpush m [ren ρ res.expand], none))
    (hsc : ∀ (s2 : PySt) st, s2.stack = entry a :: st → SideCond s2 c)
    (har : c.arity = 1)
    (hkk : ∀ keys, c ≠ .instantiate keys ∧ c ≠ .instantiatePattern keys) :
    CompS n ρ s res acc s' a' := by
  rcases andThen_eq_some _ _ _ h with ⟨_, e⟩ | ⟨s1, a1, h1, h⟩
  · cases e
  obtain ⟨ht, rfl⟩ := MM.doCalls_one h
  have hsym : s'.symtab = s1.symtab := symtab_of_track1 hc ht
  have ag1 : Agree ρ s1.symtab := hsym ▸ hag
  obtain ⟨P1, cs1, rfl, S1⟩ := ihP ρ s a acc s1 a1 h1 ha qa ag1 hK
  have hstk : s1.stack = entry a :: s.stack := by simpa using P1.stack
  rw [htr s1 s.stack hstk k] at ht
  simp only [Option.some.injEq] at ht
  subst ht
  refine ⟨P1.replace _, cs1 ++ [c], by simp, ?_⟩
  intro m hm
  obtain ⟨is1, G1⟩ := S1 m hm
  have G3 : Sg n s1 (mset ρ s1 m [ren ρ a.expand]) [c]
      { s1 with stack := entry res :: s.stack } (mset ρ { s1 with stack := entry res :: s.stack } m [ren ρ res.expand])
      [i] (none : Option Pat).toList :=
    Sg.single (htr s1 s.stack hstk n) (he s1) (hs _ _) rfl
      (sideK_mk _ _ (hsc s1 s.stack hstk)
        (by simp [touchesResidue, har, hstk, entry]) hkk)
  refine ⟨is1 ++ [i], ?_⟩
  have := G1.append G3
  simpa using this

end KMod

namespace KMod
open NPat

theorem PatCS.frame {cfg : Cfg} {n k : Nat} (ihP : PatCS cfg n k) {s s' : PySt} {p : NPat} {acc a' : List Call}
    (h : patternF cfg k s p acc = some (some (s', a'))) (hp : p.MOK = true) (hq : p.Shape = true)
    (hK : MemOKS s.memory) : PushedS s s' [entry p] :=
  (ihP _ s p acc s' a' h hp hq (agree_idxOf _) hK).1

theorem ListCS.frame {cfg : Cfg} {n k : Nat} (ihL : ListCS cfg n k) {s s' : PySt} {ps : List NPat} {acc a' : List Call}
    (h : patternF.patternListF cfg k s ps acc = some (some (s', a'))) (hp : ∀ p ∈ ps, p.MOK = true)
    (hq : ∀ p ∈ ps, p.Shape = true) (hK : MemOKS s.memory) : PushedS s s' (ps.reverse.map entry) :=
  (ihL _ s ps acc s' a' h hp hq (agree_idxOf _) hK).1

theorem shapeMap_valsS {m : List (Nat × NPat)} (h : ShapeMap m = true) : ∀ v ∈ m.map (·.2), v.Shape = true := by
  intro v hv
  obtain ⟨kv, hkv, rfl⟩ := List.mem_map.mp hv
  exact (SlotBudget2.ShapeMap_iff m).mp h kv hkv


/-- a notation node: the values, the body, `instantiate_pattern` -/
theorem instCS {cfg : Cfg} {n k : Nat} (hk : k ≤ n) (ρ : Nat → Nat) (ihP : PatCS cfg n k) (ihL : ListCS cfg n k)
    {s s' : PySt} {acc a' : List Call} (q : NPat) (m : List (Nat × NPat))
    (hq : q.MOK = true) (hm : MOKMap m = true) (hnd : (m.map (·.1)).Nodup)
    (hinst : (Pat.inst (Py.lookup (NPat.expand.expandMap m)) q.expand).isSome = true)
    (qq : q.Shape = true) (qm : ShapeMap m = true)
    (hag : Agree ρ s'.symtab) (hK : MemOKS s.memory)
    (h : (andThen (patternF.patternListF cfg k s (m.map (·.2)) acc) fun s1 a1 =>
        andThen (patternF cfg k s1 q a1) fun s2 a2 =>
          doCalls k s2 [.instantiatePattern (m.map (·.1))] a2) = some (some (s', a'))) :
    CompS n ρ s (.inst q m) acc s' a' := by
  rcases andThen_eq_some _ _ _ h with ⟨_, e⟩ | ⟨s1, a1, h1, h⟩
  · cases e
  rcases andThen_eq_some _ _ _ h with ⟨_, e⟩ | ⟨s2, a2, h2, h⟩
  · cases e
  obtain ⟨ht, rfl⟩ := MM.doCalls_one h
  have hsym : s'.symtab = s2.symtab := symtab_of_track1 (by simp) ht
  have ag2 : Agree ρ s2.symtab := hsym ▸ hag
  have F1 := ihL.frame h1 (MOKMap_vals hm) (shapeMap_valsS qm) hK
  have F2 := ihP.frame h2 hq qq (F1.memory hK)
  have ag1 := F2.agree ag2
  obtain ⟨P1, cs1, e1, S1⟩ := ihL ρ s (m.map (·.2)) acc s1 a1 h1 (MOKMap_vals hm) (shapeMap_valsS qm) ag1 hK
  obtain ⟨P2, cs2, e2, S2⟩ := ihP ρ s1 q a1 s2 a2 h2 hq qq ag2 (P1.memory hK)
  subst e2; subst e1
  have P12 := P1.trans P2
  have hstk : s2.stack = (.pat q, false) :: ((m.map (·.2)).reverse.map entry ++ s.stack) := by
    simpa [entry] using P12.stack
  have hlen : (m.map (·.2)).length = (m.map (·.1)).length := by simp
  have htr : ∀ n', track1 n' s2 (.instantiatePattern (m.map (·.1)))
      = some (some { s2 with stack := entry (.inst q m) :: s.stack }) := by
    intro n'
    have := takePlugs_vals (m.map (·.2)) s.stack
    rw [hlen] at this
    simp only [track1, hstk, this, zip_keys_vals, entry]
  rw [htr k] at ht
  simp only [Option.some.injEq] at ht
  subst ht
  have hz : (m.map (·.1)).zip (m.map (·.2)) = m := zip_keys_vals m
  obtain ⟨r, hr⟩ := Option.isSome_iff_exists.mp hinst
  have hre : r = (NPat.inst q m).expand := by
    have := C11.py_inst_eq_rust _ _ _ hr
    simp only [NPat.expand]
    exact this.symm
  refine ⟨P12.replace _, cs1 ++ cs2 ++ [.instantiatePattern (m.map (·.1))], by simp, ?_⟩
  intro m0 hm0
  obtain ⟨is1, G1⟩ := S1 m0 hm0
  obtain ⟨is2, G2⟩ := S2 _ (mset_rel ρ s1 m0 _)
  rw [mset_mset] at G2
  have hstep := step_inst_pat ρ s2.phase { m0 with memory := s2.memory.map (convR ρ) } q.expand r (m.map (·.1))
    (m.map (·.2)) hnd hlen (by rw [hz]; exact hr)
  rw [hre] at hstep
  have G3 : Sg n s2 (mset ρ s2 m0 ([ren ρ q.expand] ++ (m.map (·.2)).reverse.map fun p => ren ρ p.expand))
      [.instantiatePattern (m.map (·.1))]
      { s2 with stack := entry (.inst q m) :: s.stack }
      (mset ρ { s2 with stack := entry (.inst q m) :: s.stack } m0 [ren ρ (NPat.inst q m).expand])
      [.instantiate (m.map (·.1)).reverse] (none : Option Pat).toList :=
    Sg.single (htr n) rfl hstep rfl
      (sideK_inst s2 _ (m.map (·.1)) (m.map (·.2)) (.pat q) s.stack (Or.inr rfl) hnd hlen hstk
        (by rw [hz]; exact hinst))
  refine ⟨is1 ++ is2 ++ [.instantiate (m.map (·.1)).reverse], ?_⟩
  have := (G1.append G2).append G3
  simpa using this

end KMod

namespace KMod
open NPat

theorem buildCS {cfg : Cfg} {n k : Nat} (hk : k ≤ n) (ρ : Nat → Nat) (ihP : PatCS cfg n k) (ihL : ListCS cfg n k)
    (s : PySt) (p : NPat) (acc : List Call) (s' : PySt) (a' : List Call)
    (h : buildF cfg k s p acc = some (some (s', a'))) (hp : p.MOK = true) (hqf : p.Shape = true)
    (hag : Agree ρ s'.symtab) (hK : MemOKS s.memory) :
    CompS n ρ s p acc s' a' := by
  cases p with
  | evar x =>
    simp only [buildF] at h
    exact leafCS hk ρ (.evar x) (.evar x) h (fun _ => rfl) rfl
      (fun m => by simp [step, mpush, NPat.expand, ren]) (by simp [SideCond]) rfl (by simp)
  | svar x =>
    simp only [buildF] at h
    exact leafCS hk ρ (.svar x) (.svar x) h (fun _ => rfl) rfl
      (fun m => by simp [step, mpush, NPat.expand, ren]) (by simp [SideCond]) rfl (by simp)
  | sym nm =>
    simp only [buildF] at h
    obtain ⟨ht, rfl⟩ := MM.doCalls_one h
    simp only [track1, Option.some.injEq] at ht
    subst ht
    have hid : symId s.symtab nm = ρ nm := symId_agree s.symtab nm hag
    refine ⟨⟨rfl, id, rfl, rfl, ?_⟩, [.symbol nm], rfl, ?_⟩
    · show ∃ e, (if s.symtab.contains nm then s.symtab else s.symtab ++ [nm]) = s.symtab ++ e
      split
      · exact ⟨[], by simp⟩
      · exact ⟨[nm], rfl⟩
    · intro m hm
      refine ⟨[.sym (symId s.symtab nm)], ?_⟩
      have := call_sg (n := n) hk h (m := m) (m1 := mpush m [ren ρ (NPat.sym nm).expand])
        (i := .sym (symId s.symtab nm)) (j := none) rfl
        (by simp [step, mpush, NPat.expand, ren, hid]) rfl
        (sideK_mk _ _ (by simp [SideCond]) (touches_push0 _ _ rfl) (by simp))
      rw [← mset_self (ρ := ρ) (s := s) (s' := { s.push (.pat (.sym nm)) with
        symtab := if s.symtab.contains nm then s.symtab else s.symtab ++ [nm] }) hm rfl] at this
      exact this.2
  | mv id ef sf ps ns hs =>
    simp only [buildF] at h
    simp only [MOK, Bool.not_eq_true'] at hp
    by_cases hall : (ef.isEmpty && sf.isEmpty && ps.isEmpty && ns.isEmpty && hs.isEmpty) = true
    · have he : ∀ s : PySt, emit1 n s (.metavar id ef sf ps ns hs) = some (some [.cleanmv id]) := by
        intro s; simp only [emit1, hall, if_true]
      simp only [Bool.and_eq_true, List.isEmpty_iff] at hall
      obtain ⟨⟨⟨⟨rfl, rfl⟩, rfl⟩, rfl⟩, rfl⟩ := hall
      exact leafCS hk ρ (.mv id [] [] [] [] []) (.cleanmv id) h (fun _ => rfl) (he s)
        (fun m => by simp [step, mpush, NPat.expand, ren]) (by simp [SideCond]) rfl (by simp)
    · have he : ∀ s : PySt, emit1 n s (.metavar id ef sf ps ns hs)
          = some (some [.metavar id ef sf ps ns hs]) := by
        intro s; simp only [emit1, hall, Bool.false_eq_true, if_false]
      have hp' : ∀ x ∈ hs, x ∉ ef := by simpa using hp
      exact leafCS hk ρ (.mv id ef sf ps ns hs) (.metavar id ef sf ps ns hs) h (fun _ => rfl) (he s)
        (fun m => by simpa [step, mpush, NPat.expand, ren] using hp')
        (by simpa [SideCond] using hp') rfl (by simp)
  | imp l r =>
    simp only [buildF] at h
    simp only [MOK, Bool.and_eq_true] at hp
    simp only [NPat.Shape, Bool.and_eq_true] at hqf
    exact twoCS hk ρ ihP l r (.imp l r) .implies .implies hp.1 hp.2 hqf.1 hqf.2 hag hK (by simp) h
      (fun s2 st hstk n' => by simp [track1, hstk, entry]) (fun _ => rfl)
      (fun ph m => by simp [step, mpush, NPat.expand, ren])
      (fun _ _ _ => by simp [SideCond]) rfl (by simp)
  | app l r =>
    simp only [buildF] at h
    simp only [MOK, Bool.and_eq_true] at hp
    simp only [NPat.Shape, Bool.and_eq_true] at hqf
    exact twoCS hk ρ ihP l r (.app l r) .app .app hp.1 hp.2 hqf.1 hqf.2 hag hK (by simp) h
      (fun s2 st hstk n' => by simp [track1, hstk, entry]) (fun _ => rfl)
      (fun ph m => by simp [step, mpush, NPat.expand, ren])
      (fun _ _ _ => by simp [SideCond]) rfl (by simp)
  | ex x q =>
    simp only [buildF] at h
    simp only [MOK] at hp
    simp only [NPat.Shape] at hqf
    exact oneCS hk ρ ihP q (.ex x q) (.ex x) (.ex x) hp hqf hag hK (by simp) h
      (fun s2 st hstk n' => by simp [track1, hstk, entry]) (fun _ => rfl)
      (fun ph m => by simp [step, mpush, NPat.expand, ren])
      (fun _ _ _ => by simp [SideCond]) rfl (by simp)
  | mu X q =>
    simp only [buildF] at h
    simp only [MOK, Bool.and_eq_true] at hp
    simp only [NPat.Shape] at hqf
    refine oneCS hk ρ ihP q (.mu X q) (.mu X) (.mu X) hp.1 hqf hag hK (by simp) h
      (fun s2 st hstk n' => by simp [track1, hstk, entry]) (fun _ => rfl)
      (fun ph m => by simp [step, mpush, NPat.expand, ren, hp.2]) ?_ rfl (by simp)
    intro s2 st hstk
    simp only [SideCond]
    intro p b st' hs'
    rw [hstk] at hs'
    cases hs'
    exact hp.2
  | esub q x plug =>
    simp only [buildF] at h
    simp only [MOK, Bool.and_eq_true, Bool.not_eq_true'] at hp
    simp only [NPat.Shape, Bool.and_eq_true] at hqf
    obtain ⟨⟨⟨⟨hmh, hq⟩, hplug⟩, hne⟩, hfr⟩ := hp
    have hme : q.expand.isMeta = true := NPat.isMeta_expand q (by rw [← isMetaHead_eq]; exact hmh)
    refine twoCS hk ρ ihP plug q (.esub q x plug) (.esubst x) (.esubst x) hplug hq hqf.2 hqf.1.2 hag hK (by simp) h
      (fun s2 st hstk n' => by simp [track1, hstk, entry, hmh]) (fun _ => rfl)
      (fun ph m => by simp [step, mpush, NPat.expand, ren, hme, hne, hfr]) ?_ rfl (by simp)
    intro s2 st hstk
    simp only [SideCond]
    intro p b pl b' st' hs'
    rw [hstk] at hs'
    cases hs'
    exact ⟨hne, hfr⟩
  | ssub q X plug =>
    simp only [buildF] at h
    simp only [MOK, Bool.and_eq_true, Bool.not_eq_true'] at hp
    simp only [NPat.Shape, Bool.and_eq_true] at hqf
    obtain ⟨⟨⟨⟨hmh, hq⟩, hplug⟩, hne⟩, hfr⟩ := hp
    have hme : q.expand.isMeta = true := NPat.isMeta_expand q (by rw [← isMetaHead_eq]; exact hmh)
    refine twoCS hk ρ ihP plug q (.ssub q X plug) (.ssubst X) (.ssubst X) hplug hq hqf.2 hqf.1.2 hag hK (by simp) h
      (fun s2 st hstk n' => by simp [track1, hstk, entry, hmh]) (fun _ => rfl)
      (fun ph m => by simp [step, mpush, NPat.expand, ren, hme, hne, hfr]) ?_ rfl (by simp)
    intro s2 st hstk
    simp only [SideCond]
    intro p b pl b' st' hs'
    rw [hstk] at hs'
    cases hs'
    exact ⟨hne, hfr⟩
  | inst q m =>
    simp only [buildF] at h
    simp only [MOK, Bool.and_eq_true, decide_eq_true_eq] at hp
    simp only [NPat.Shape, Bool.and_eq_true] at hqf
    obtain ⟨⟨⟨hq, hm⟩, hnd⟩, hinst⟩ := hp
    exact instCS hk ρ ihP ihL q m hq hm hnd hinst hqf.1 hqf.2 hag hK h

/-- `load` of a saved pattern: the entry `memory.index(p)` finds has the expansion of `p` -/
theorem load_pat_sgS {n k : Nat} (hk : k ≤ n) (ρ : Nat → Nat) {s : PySt} {p : NPat} (m : St)
    (hp : p.Shape = true)
    (ht : track1 k s (.load (.pat p)) = some (some (s.push (.pat p))))
    (hm : MRel ρ s m) (hK : MemOKS s.memory) :
    ∃ i, Sg n s m [.load (.pat p)] (s.push (.pat p)) (mset ρ (s.push (.pat p)) m [ren ρ p.expand]) [.load i] [] := by
  have htn := PySt.track1_mono hk _ _ _ ht
  have htn' := htn
  simp only [track1, Option.bind_eq_bind, Option.bind_eq_some_iff] at htn'
  obtain ⟨oi, hidx, h2⟩ := htn'
  cases oi with
  | none => simp at h2
  | some i =>
    obtain ⟨j, u, hj, hu, hteq⟩ := indexF_found n _ _ 0 i hidx
    have hij : i = j := by omega
    subst hij
    have humem := List.mem_of_getElem? hu
    cases u with
    | proved a => simp [teqF] at hteq
    | pat q =>
      simp only [teqF] at hteq
      have hq := hK.1 q humem
      have hexp : q.expand = p.expand := by
        have := NPat.peqF_expand n q p true hq hp hteq
        simpa using this.symm
      have hmi : m.memory[i]? = some (.pat (ren ρ p.expand)) := by
        rw [hm, List.getElem?_map, hu]
        simp [convR, hexp]
      refine ⟨i, ?_⟩
      rw [mset_self (s' := s.push (.pat p)) hm rfl]
      have := Sg.single (m := m) (m1 := mpush m [ren ρ p.expand])
        (i := .load i) (j := none) htn (by simp [emit1, hidx]) (by simp [step, hmi, mpush]) rfl
        (sideK_mk _ _ (by simp [SideCond]) (touches_push0 _ _ rfl) (by simp))
      simpa using this

theorem patCS_step {cfg : Cfg} {n k : Nat} (hk : k + 1 ≤ n) (ihP : PatCS cfg n k) (ihL : ListCS cfg n k) :
    PatCS cfg n (k + 1) := by
  intro ρ s p acc s' a' h hp hqf hag hK
  rw [patternF_succ] at h
  simp only [Option.bind_eq_some_iff] at h
  obtain ⟨hit, _, h⟩ := h
  cases hit with
  | true =>
    simp only [if_true] at h
    obtain ⟨ht, rfl⟩ := MM.doCalls_one h
    have e := MM.track1_load_eq ht
    subst e
    refine ⟨⟨rfl, id, rfl, rfl, ⟨[], by simp [PySt.push]⟩⟩, [.load (.pat p)], rfl, ?_⟩
    intro m hm
    obtain ⟨i, G⟩ := load_pat_sgS (n := n) (by omega) ρ m hqf ht hm hK
    exact ⟨[.load i], G⟩
  | false =>
    simp only [Bool.false_eq_true, if_false] at h
    rcases andThen_eq_some _ _ _ h with ⟨_, e⟩ | ⟨s1, a1, hb, h⟩
    · cases e
    unfold saveF at h
    split at h
    · next S hS =>
      split at h
      · -- the pattern is suggested: `save`
        obtain ⟨ht, rfl⟩ := MM.doCalls_one h
        have hsym : s'.symtab = s1.symtab := symtab_of_track1 (by simp) ht
        have ag1 : Agree ρ s1.symtab := hsym ▸ hag
        obtain ⟨P1, cs1, rfl, S1⟩ := buildCS (by omega) ρ ihP ihL s p acc s1 a1 hb hp hqf ag1 hK
        have hstk : s1.stack = entry p :: s.stack := by simpa using P1.stack
        have ht2 : ∀ n', track1 n' s1 .save = some (some { s1 with memory := s1.memory ++ [.pat p] }) := by
          intro n'; simp [track1, hstk, entry]
        rw [ht2 k] at ht
        simp only [Option.some.injEq] at ht
        subst ht
        refine ⟨⟨P1.stack, fun h => (P1.memory h).push_pat hqf, P1.claims, P1.phase, P1.symtab⟩,
          cs1 ++ [.save], by simp, ?_⟩
        intro m hm
        obtain ⟨is1, G1⟩ := S1 m hm
        have G2 : Sg n s1 (mset ρ s1 m [ren ρ p.expand]) [.save]
            { s1 with memory := s1.memory ++ [.pat p] }
            (mset ρ { s1 with memory := s1.memory ++ [.pat p] } m [ren ρ p.expand]) [.save]
            (none : Option Pat).toList :=
          Sg.single (ht2 n) rfl (by simp [step, mset, mpush, convR]) rfl
            (sideK_mk _ _ (by simp [SideCond]) (by simp [touchesResidue, Call.arity, hstk, entry]) (by simp))
        refine ⟨is1 ++ [.save], ?_⟩
        have := G1.append G2
        simpa using this
      · simp only [Option.some.injEq, Prod.mk.injEq] at h
        obtain ⟨rfl, rfl⟩ := h
        exact buildCS (by omega) ρ ihP ihL s p acc s1 a1 hb hp hqf hag hK
    · simp only [Option.some.injEq, Prod.mk.injEq] at h
      obtain ⟨rfl, rfl⟩ := h
      exact buildCS (by omega) ρ ihP ihL s p acc s1 a1 hb hp hqf hag hK


theorem listCS_step {cfg : Cfg} {n k : Nat} (ihP : PatCS cfg n k) (ihL : ListCS cfg n k) :
    ListCS cfg n (k + 1) := by
  intro ρ s ps acc s' a' h hps hqs hag hK
  cases ps with
  | nil =>
    simp only [patternF.patternListF, Option.some.injEq, Prod.mk.injEq] at h
    obtain ⟨rfl, rfl⟩ := h
    refine ⟨PushedS.refl s, [], by simp, fun m hm => ⟨[], ?_⟩⟩
    simp only [List.reverse_nil, List.map_nil]
    rw [mset_nil hm]
    exact Sg.nil s m
  | cons p ps =>
    rw [patternListF_cons] at h
    rcases andThen_eq_some _ _ _ h with ⟨_, e⟩ | ⟨s1, a1, h1, h⟩
    · cases e
    have F1 := ihP.frame h1 (hps p (by simp)) (hqs p (by simp)) hK
    have F2 := ihL.frame h (fun x hx => hps x (List.mem_cons_of_mem _ hx))
      (fun x hx => hqs x (List.mem_cons_of_mem _ hx)) (F1.memory hK)
    obtain ⟨P1, cs1, e1, S1⟩ := ihP ρ s p acc s1 a1 h1 (hps p (by simp)) (hqs p (by simp)) (F2.agree hag) hK
    obtain ⟨P2, cs2, e2, S2⟩ := ihL ρ s1 ps a1 s' a' h (fun x hx => hps x (List.mem_cons_of_mem _ hx))
      (fun x hx => hqs x (List.mem_cons_of_mem _ hx)) hag (P1.memory hK)
    subst e2; subst e1
    refine ⟨by simpa using P1.trans P2, cs1 ++ cs2, by simp, ?_⟩
    intro m hm
    obtain ⟨is1, G1⟩ := S1 m hm
    obtain ⟨is2, G2⟩ := S2 _ (mset_rel ρ s1 m _)
    rw [mset_mset] at G2
    refine ⟨is1 ++ is2, ?_⟩
    have := G1.append G2
    simpa using this

theorem patCS_all (cfg : Cfg) (n : Nat) : ∀ k, k ≤ n → PatCS cfg n k ∧ ListCS cfg n k := by
  intro k
  induction k with
  | zero =>
    intro _
    constructor
    · intro ρ s p acc s' a' h; simp [patternF] at h
    · intro ρ s ps acc s' a' h; simp [patternF.patternListF] at h
  | succ k ih =>
    intro hk
    obtain ⟨ihP, ihL⟩ := ih (by omega)
    exact ⟨patCS_step hk ihP ihL, listCS_step ihP ihL⟩

/-- **`pattern` compiles, plain or memoising**: the tracker pushes `p`, the machine `ren ρ p.expand`; the machine's
memory stays the image of the tracker's; every call satisfies `SideK` -/
theorem pattern_compilesS (cfg : Cfg) {n k : Nat} (hk : k ≤ n) (ρ : Nat → Nat) {s : PySt} {p : NPat} {acc : List Call}
    {s' : PySt} {a' : List Call} (h : patternF cfg k s p acc = some (some (s', a')))
    (hp : p.MOK = true) (hq : p.Shape = true) (hag : Agree ρ s'.symtab) (hK : MemOKS s.memory) :
    CompS n ρ s p acc s' a' :=
  (patCS_all cfg n k hk).1 ρ s p acc s' a' h hp hq hag hK

theorem patternList_compilesS (cfg : Cfg) {n k : Nat} (hk : k ≤ n) (ρ : Nat → Nat) {s : PySt} {ps : List NPat}
    {acc : List Call} {s' : PySt} {a' : List Call}
    (h : patternF.patternListF cfg k s ps acc = some (some (s', a')))
    (hp : ∀ p ∈ ps, p.MOK = true) (hq : ∀ p ∈ ps, p.Shape = true) (hag : Agree ρ s'.symtab) (hK : MemOKS s.memory) :
    PushedS s s' (ps.reverse.map entry) ∧ ∃ cs, a' = acc ++ cs ∧
      ∀ m, MRel ρ s m → ∃ is, Sg n s m cs s' (mset ρ s' m (ps.reverse.map fun p => ren ρ p.expand)) is [] :=
  (patCS_all cfg n k hk).2 ρ s ps acc s' a' h hp hq hag hK

end KMod

namespace KMod
open NPat

/-! ## gamma and claim loops -/

/-- the axioms a K module may publish through a memoising serialiser: machine-OK, quiet, and `==` against a rule of
the fragment is truthful -/
def GAxS (a : NPat) : Prop := a.MOK = true ∧ a.Shape = true


theorem pubAxiomCS {cfg : Cfg} {n : Nat} :
    ∀ (as : List NPat) (ρ : Nat → Nat) (s : PySt) (acc : List Call) (s' : PySt) (a' : List Call),
    PModule.executeFull.pub cfg n s acc .publishAxiom as = some (some (s', a')) →
    (∀ a ∈ as, GAxS a) → s.phase = .gamma → Agree ρ s'.symtab → MemOKS s.memory →
    (MemOKS s'.memory ∧ s'.claims = s.claims ∧ s'.phase = .gamma ∧ ∃ e, s'.symtab = s.symtab ++ e) ∧
    ∃ cs, a' = acc ++ cs ∧ ∀ m : St, MRel ρ s m → ∃ is,
      Sg n s m cs s' (mset ρ s' m []) is (as.map fun a => ren ρ a.expand) := by
  intro as
  induction as with
  | nil =>
    intro ρ s acc s' a' h _ hph _ hK
    simp only [PModule.executeFull.pub, Option.some.injEq, Prod.mk.injEq] at h
    obtain ⟨rfl, rfl⟩ := h
    refine ⟨⟨hK, rfl, hph, ⟨[], by simp⟩⟩, [], by simp, fun m hm => ⟨[], ?_⟩⟩
    rw [mset_nil hm]
    simpa using Sg.nil s m
  | cons a r ih =>
    intro ρ s acc s' a' h has hph hag hK
    simp only [PModule.executeFull.pub, Option.bind_eq_bind, Option.bind_eq_some_iff] at h
    obtain ⟨o1, hp, h⟩ := h
    rcases o1 with _ | ⟨s1, a1⟩
    · simp at h
    simp only [Option.bind_eq_some_iff] at h
    obtain ⟨o2, hd, h⟩ := h
    rcases o2 with _ | ⟨s2, a2⟩
    · simp at h
    simp only [] at h
    obtain ⟨ht, rfl⟩ := MM.doCalls_one hd
    have hsym2 : s2.symtab = s1.symtab := symtab_of_track1 (by simp) ht
    have hph2 : s2.phase = .gamma ∧ s1.phase = .gamma := by
      simp only [track1] at ht
      split at ht
      · next _ _ _ hp1 _ => simp only [Option.some.injEq] at ht; subst ht; exact ⟨hp1, hp1⟩
      · simp at ht
    obtain ⟨hamok, haqf⟩ := has a (by simp)
    -- the frame of the first compilation, whatever the naming
    have F1 := (pattern_compilesS cfg (Nat.le_refl n) _ hp hamok haqf (agree_idxOf _) hK).1
    have hstk : s1.stack = entry a :: s.stack := by simpa using F1.stack
    have htr : track1 n s1 .publishAxiom = some (some { s1 with
        stack := (.pat a, true) :: s.stack
        memory := s1.memory ++ [.proved a] }) := by
      simp [track1, hph2.2, hstk, entry]
    rw [htr] at ht
    simp only [Option.some.injEq] at ht
    subst ht
    have hK2 : MemOKS (s1.memory ++ [.proved a]) := (F1.memory hK).push_proved haqf
    obtain ⟨⟨hmem, hcl, hph', e2, he2⟩, cs3, rfl, S3⟩ := ih ρ _ _ s' a' h
      (fun x hx => has x (List.mem_cons_of_mem _ hx)) hph2.1 hag hK2
    have ag2 : Agree ρ s1.symtab := by
      have : Agree ρ (s1.symtab ++ e2) := by rw [← he2]; exact hag
      exact this.prefix
    obtain ⟨P1, cs1, rfl, S1⟩ := pattern_compilesS cfg (Nat.le_refl n) ρ hp hamok haqf ag2 hK
    obtain ⟨e1, he1⟩ := P1.symtab
    refine ⟨⟨hmem, ?_, hph', ⟨e1 ++ e2, ?_⟩⟩, cs1 ++ .publishAxiom :: cs3, by simp, ?_⟩
    · rw [hcl]; exact P1.claims
    · rw [he2]; show s1.symtab ++ e2 = _; rw [he1, List.append_assoc]
    · intro m hm
      obtain ⟨is1, G1⟩ := S1 m hm
      have G2 : Sg n s1 (mset ρ s1 m [ren ρ a.expand]) [.publishAxiom]
          { s1 with
            stack := (.pat a, true) :: s.stack
            memory := s1.memory ++ [.proved a] }
          (mset ρ { s1 with
            stack := (.pat a, true) :: s.stack
            memory := s1.memory ++ [.proved a] } m []) [.publish]
          (some (ren ρ a.expand)).toList :=
        Sg.single htr rfl (by rw [hph2.2]; simp [step, mset, mpush, convR]) rfl
          (sideK_mk _ _ (by simp [SideCond]) (by simp [touchesResidue, Call.arity, hstk, entry]) (by simp))
      obtain ⟨is3, G3⟩ := S3 _ (mset_rel ρ _ m _)
      rw [mset_mset] at G3
      refine ⟨is1 ++ [.publish] ++ is3, ?_⟩
      have := (G1.append G2).append G3
      simpa [List.append_assoc] using this

theorem pubClaimCS {cfg : Cfg} {n : Nat} :
    ∀ (as : List NPat) (ρ : Nat → Nat) (s : PySt) (acc : List Call) (s' : PySt) (a' : List Call),
    PModule.executeFull.pub cfg n s acc .publishClaim as = some (some (s', a')) →
    (∀ a ∈ as, a.MOK = true ∧ a.Shape = true) → s.phase = .claim → Agree ρ s'.symtab → MemOKS s.memory →
    (MemOKS s'.memory ∧ s'.claims = s.claims ∧ s'.phase = .claim ∧ ∃ e, s'.symtab = s.symtab ++ e) ∧
    ∃ cs, a' = acc ++ cs ∧ ∀ m : St, MRel ρ s m → ∃ is,
      Sg n s m cs s' (mset ρ s' { m with claims := (as.map fun a => ren ρ a.expand).reverse ++ m.claims } []) is
        (as.map fun a => ren ρ a.expand) := by
  intro as
  induction as with
  | nil =>
    intro ρ s acc s' a' h _ hph _ hK
    simp only [PModule.executeFull.pub, Option.some.injEq, Prod.mk.injEq] at h
    obtain ⟨rfl, rfl⟩ := h
    refine ⟨⟨hK, rfl, hph, ⟨[], by simp⟩⟩, [], by simp, fun m hm => ⟨[], ?_⟩⟩
    simp only [List.map_nil, List.reverse_nil, List.nil_append]
    rw [mset_nil hm]
    simpa using Sg.nil s m
  | cons a r ih =>
    intro ρ s acc s' a' h has hph hag hK
    simp only [PModule.executeFull.pub, Option.bind_eq_bind, Option.bind_eq_some_iff] at h
    obtain ⟨o1, hp, h⟩ := h
    rcases o1 with _ | ⟨s1, a1⟩
    · simp at h
    simp only [Option.bind_eq_some_iff] at h
    obtain ⟨o2, hd, h⟩ := h
    rcases o2 with _ | ⟨s2, a2⟩
    · simp at h
    simp only [] at h
    obtain ⟨ht, rfl⟩ := MM.doCalls_one hd
    have hsym2 : s2.symtab = s1.symtab := symtab_of_track1 (by simp) ht
    have hph2 : s2.phase = .claim ∧ s1.phase = .claim := by
      simp only [track1] at ht
      split at ht
      · next _ _ _ hp1 _ => simp only [Option.some.injEq] at ht; subst ht; exact ⟨hp1, hp1⟩
      · simp at ht
    obtain ⟨hamok, haqf⟩ := has a (by simp)
    have F1 := (pattern_compilesS cfg (Nat.le_refl n) _ hp hamok haqf (agree_idxOf _) hK).1
    have hstk : s1.stack = entry a :: s.stack := by simpa using F1.stack
    have htr : track1 n s1 .publishClaim = some (some { s1 with stack := (.pat a, true) :: s.stack }) := by
      simp [track1, hph2.2, hstk, entry]
    rw [htr] at ht
    simp only [Option.some.injEq] at ht
    subst ht
    obtain ⟨⟨hmem, hcl, hph', e2, he2⟩, cs3, rfl, S3⟩ := ih ρ _ _ s' a' h
      (fun x hx => has x (List.mem_cons_of_mem _ hx)) hph2.1 hag (F1.memory hK)
    have ag2 : Agree ρ s1.symtab := by
      have : Agree ρ (s1.symtab ++ e2) := by rw [← he2]; exact hag
      exact this.prefix
    obtain ⟨P1, cs1, rfl, S1⟩ := pattern_compilesS cfg (Nat.le_refl n) ρ hp hamok haqf ag2 hK
    obtain ⟨e1, he1⟩ := P1.symtab
    refine ⟨⟨hmem, ?_, hph', ⟨e1 ++ e2, ?_⟩⟩, cs1 ++ .publishClaim :: cs3, by simp, ?_⟩
    · rw [hcl]; exact P1.claims
    · rw [he2]; show s1.symtab ++ e2 = _; rw [he1, List.append_assoc]
    · intro m hm
      obtain ⟨is1, G1⟩ := S1 m hm
      have G2 : Sg n s1 (mset ρ s1 m [ren ρ a.expand]) [.publishClaim]
          { s1 with stack := (.pat a, true) :: s.stack }
          (mset ρ { s1 with stack := (.pat a, true) :: s.stack } { m with claims := ren ρ a.expand :: m.claims } [])
          [.publish] (some (ren ρ a.expand)).toList :=
        Sg.single htr rfl (by rw [hph2.2]; simp [step, mset, mpush]) rfl
          (sideK_mk _ _ (by simp [SideCond]) (by simp [touchesResidue, Call.arity, hstk, entry]) (by simp))
      obtain ⟨is3, G3⟩ := S3 _ (mset_rel ρ _ { m with claims := ren ρ a.expand :: m.claims } _)
      refine ⟨is1 ++ [.publish] ++ is3, ?_⟩
      have := (G1.append G2).append G3
      simpa [List.append_assoc, mset, mpush] using this

end KMod

namespace KMod
open NPat

/-! ## part 2: one proof expression against the machine, plain or memoising -/

/-- the machine after a segment that ended in tracker state `s'`: the proved pattern `P` pushed, the memory the image
of the tracker's -/
def msetP (ρ : Nat → Nat) (s' : PySt) (m : St) (P : Pat) : St :=
  { m with memory := s'.memory.map (convR ρ), stack := .proved P :: m.stack }

theorem msetP_rel (ρ : Nat → Nat) (s' : PySt) (m : St) (P : Pat) : MRel ρ s' (msetP ρ s' m P) := rfl

theorem msetP_self {ρ : Nat → Nat} {s s' : PySt} {m : St} (hm : MRel ρ s m) (hs : s'.memory = s.memory)
    (P : Pat) : msetP ρ s' m P = mprov m P := by
  unfold msetP mprov
  rw [hs, ← hm]

/-- the result of running a proof expression, as a proposition -/
def RunOKS (n : Nat) (s : PySt) (acc : List Call) (s1 : PySt) (a1 : List Call) (c : NPat) (pf : Pf) : Prop :=
  PushedS s s1 [(.proved c, false)] ∧ c.Shape = true ∧ Pf.Sem pf c.expand ∧
  ∃ cs, a1 = acc ++ cs ∧ ∀ (ρ : Nat → Nat) (m : St), Agree ρ s1.symtab →
    MRel ρ s m → ∃ is, Sg n s m cs s1 (msetP ρ s1 m (ren ρ c.expand)) is []

def RunCS (cfg : Cfg) (n : Nat) (ax : List NPat) (k : Nat) : Prop :=
  ∀ pf s acc s1 a1 c, Pf.runF cfg ax k s pf acc = some (some (s1, a1, c)) → pf.patsOK = true → pf.InstOK →
    MemOKS s.memory → RunOKS n s acc s1 a1 c pf

theorem leafRS {n k : Nat} (hk : k ≤ n) {s s3 : PySt} {acc a3 : List Call} (pf : Pf) (c : Call) (cN : NPat)
    (i : Instr)
    (h : doCalls k s [c] acc = some (some (s3, a3)))
    (htr : ∀ n', track1 n' s c = some (some (s.push (.proved cN))))
    (hsh : cN.Shape = true) (hsem : Pf.Sem pf cN.expand)
    (he : emit1 n s c = some (some [i]))
    (hs : ∀ (ρ : Nat → Nat) (m : St), step s.phase m i = some (mprov m (ren ρ cN.expand), none))
    (hsc : SideCond s c) (har : c.arity = 0)
    (hkk : ∀ keys, c ≠ .instantiate keys ∧ c ≠ .instantiatePattern keys) :
    RunOKS n s acc s3 a3 cN pf := by
  obtain ⟨ht, rfl⟩ := MM.doCalls_one h
  rw [htr k] at ht
  simp only [Option.some.injEq] at ht
  subst ht
  refine ⟨⟨rfl, id, rfl, rfl, ⟨[], by simp [PySt.push]⟩⟩, hsh, hsem, [c], rfl, ?_⟩
  intro ρ m _ hm
  rw [msetP_self (s' := s.push (.proved cN)) hm rfl]
  exact ⟨[i], by
    simpa using Sg.single (n := n) (j := none) (htr n) he (hs ρ m) rfl
      (sideK_mk _ _ hsc (touches_push0 _ _ har) hkk)⟩

/-- the machine side of `load_axiom(a)` for a shaped axiom over a memory of shaped axioms and saved patterns -/
theorem load_sgSS {n k : Nat} (hk : k ≤ n) (ρ : Nat → Nat) {s : PySt} {a : NPat} (m : St)
    (ha : a.Shape = true)
    (ht : track1 k s (.load (.proved a)) = some (some (s.push (.proved a))))
    (hmem : MRel ρ s m) (hK : MemOKS s.memory) :
    ∃ i, Sg n s m [.load (.proved a)] (s.push (.proved a)) (mprov m (ren ρ a.expand)) [.load i] [] := by
  have htn := PySt.track1_mono hk _ _ _ ht
  have htn' := htn
  simp only [track1, Option.bind_eq_bind, Option.bind_eq_some_iff] at htn'
  obtain ⟨oi, hidx, h2⟩ := htn'
  cases oi with
  | none => simp at h2
  | some i =>
    obtain ⟨j, u, hj, hu, hteq⟩ := indexF_found n _ _ 0 i hidx
    have hij : i = j := by omega
    subst hij
    have humem := List.mem_of_getElem? hu
    cases u with
    | pat q => simp [teqF] at hteq
    | proved b =>
      have hb := hK.2 b humem
      simp only [teqF] at hteq
      have hexp : b.expand = a.expand := by
        have := NPat.peqF_expand n b a true hb ha hteq
        simpa using this.symm
      have hm : m.memory[i]? = some (.proved (ren ρ a.expand)) := by
        rw [hmem, List.getElem?_map, hu]
        simp [convR, hexp]
      refine ⟨i, ?_⟩
      have := Sg.single (m := m) (m1 := mprov m (ren ρ a.expand))
        (i := .load i) (j := none) htn (by simp [emit1, hidx]) (by simp [step, hm, mprov]) rfl
        (sideK_mk _ _ (by simp [SideCond]) (touches_push0 _ _ rfl) (by simp))
      simpa using this

theorem loadRS {n k : Nat} (hk : k ≤ n) {s s3 : PySt} {acc a3 : List Call} (a : NPat) (ha : a.Shape = true)
    (hM : MemOKS s.memory)
    (h : doCalls k s [.load (.proved a)] acc = some (some (s3, a3))) :
    RunOKS n s acc s3 a3 a (.loadAxiom a) := by
  obtain ⟨ht, rfl⟩ := MM.doCalls_one h
  have e := MM.track1_load_eq ht
  subst e
  refine ⟨⟨rfl, id, rfl, rfl, ⟨[], by simp [PySt.push]⟩⟩, ha, .loadAxiom, [.load (.proved a)], rfl, ?_⟩
  intro ρ m _ hmem
  obtain ⟨i, G⟩ := load_sgSS hk ρ m ha ht hmem hM
  rw [msetP_self (s' := s.push (.proved a)) hmem rfl]
  exact ⟨[.load i], G⟩

/-! ### modus ponens and generalisation -/

theorem mpRS {cfg : Cfg} {n k : Nat} (hk : k ≤ n) (ax : List NPat) (ih : RunCS cfg n ax k) {s s3 : PySt} {l r : Pf}
    {acc a3 : List Call} (hpl : l.patsOK = true) (hpr : r.patsOK = true) (hil : l.InstOK) (hir : r.InstOK)
    (hM : MemOKS s.memory)
    (h : (andThen3 (Pf.runF cfg ax k s l acc) fun s1 a1 _ =>
        andThen3 (Pf.runF cfg ax k s1 r a1) fun s2 a2 _ => doCalls k s2 [.mp] a2) = some (some (s3, a3))) :
    ∃ c, RunOKS n s acc s3 a3 c (.mp l r) := by
  rcases andThen3_eq_some _ _ _ h with ⟨_, e⟩ | ⟨s1, a1, cl, h1, h⟩
  · cases e
  rcases andThen3_eq_some _ _ _ h with ⟨_, e⟩ | ⟨s2, a2, cr, h2, h⟩
  · cases e
  obtain ⟨ht, rfl⟩ := MM.doCalls_one h
  obtain ⟨P1, hcl, hSl, cs1, rfl, S1⟩ := ih l s acc s1 a1 cl h1 hpl hil hM
  obtain ⟨P2, hcr, hSr, cs2, rfl, S2⟩ := ih r s1 _ s2 a2 cr h2 hpr hir (P1.memory hM)
  have P12 := P1.trans P2
  have hstk : s2.stack = (.proved cr, false) :: (.proved cl, false) :: s.stack := by simpa using P12.stack
  have ht' := ht
  simp only [track1, hstk, Option.bind_eq_bind, Option.bind_eq_some_iff] at ht'
  obtain ⟨o, hmp, h3⟩ := ht'
  cases o with
  | none => simp at h3
  | some c3 =>
    simp only [Option.pure_def, Option.some.injEq] at h3
    obtain ⟨he, hs3⟩ := pyMP_spec k cl cr c3 hcl hcr hmp
    subst h3
    refine ⟨c3, P12.replace _, hs3, .mp (he ▸ hSl) hSr, cs1 ++ cs2 ++ [.mp], by simp, ?_⟩
    intro ρ m hag hmem
    have ag2 : Agree ρ s2.symtab := hag
    have ag1 := P2.agree ag2
    obtain ⟨is1, G1⟩ := S1 ρ m ag1 hmem
    obtain ⟨is2, G2⟩ := S2 ρ (msetP ρ s1 m (ren ρ cl.expand)) ag2 (msetP_rel ρ s1 m _)
    have G3 : Sg n s2 (msetP ρ s2 (msetP ρ s1 m (ren ρ cl.expand)) (ren ρ cr.expand)) [.mp]
        { s2 with stack := (.proved c3, false) :: s.stack }
        (msetP ρ { s2 with stack := (.proved c3, false) :: s.stack } m (ren ρ c3.expand)) [.mp]
        (none : Option Pat).toList :=
      Sg.single (PySt.track1_mono hk _ _ _ ht) rfl (by rw [he]; simp [step, msetP, ren]) rfl
        (sideK_mk _ _ (by simp [SideCond]) (by simp [touchesResidue, Call.arity, hstk]) (by simp))
    refine ⟨is1 ++ is2 ++ [.mp], ?_⟩
    have := (G1.append G2).append G3
    simpa using this

theorem genRS {cfg : Cfg} {n k : Nat} (hk : k ≤ n) (ax : List NPat) (ih : RunCS cfg n ax k) {s s3 : PySt} {p : Pf}
    {x : VId} {acc a3 : List Call} (hpp : p.patsOK = true) (hip : p.InstOK) (hM : MemOKS s.memory)
    (h : (andThen3 (Pf.runF cfg ax k s p acc) fun s1 a1 _ => doCalls k s1 [.gen x] a1) = some (some (s3, a3))) :
    ∃ c, RunOKS n s acc s3 a3 c (.gen p x) := by
  rcases andThen3_eq_some _ _ _ h with ⟨_, e⟩ | ⟨s1, a1, cp, h1, h⟩
  · cases e
  obtain ⟨ht, rfl⟩ := MM.doCalls_one h
  obtain ⟨P1, hcp, hSp, cs1, rfl, S1⟩ := ih p s acc s1 a1 cp h1 hpp hip hM
  have hstk : s1.stack = (.proved cp, false) :: s.stack := by simpa using P1.stack
  have ht' := ht
  simp only [track1, hstk, Option.bind_eq_bind, Option.bind_eq_some_iff] at ht'
  obtain ⟨o, hg, h3⟩ := ht'
  cases o with
  | none => simp at h3
  | some c3 =>
    simp only [Option.pure_def, Option.some.injEq] at h3
    obtain ⟨L, R, he, hfr, he3, hs3⟩ := pyGen_spec k cp c3 x hcp hg
    subst h3
    refine ⟨c3, P1.replace _, hs3, ?_, cs1 ++ [.gen x], by simp, ?_⟩
    · rw [he3]; exact .gen (he ▸ hSp) hfr
    intro ρ m hag hmem
    have ag1 : Agree ρ s1.symtab := hag
    obtain ⟨is1, G1⟩ := S1 ρ m ag1 hmem
    have G3 : Sg n s1 (msetP ρ s1 m (ren ρ cp.expand)) [.gen x]
        { s1 with stack := (.proved c3, false) :: s.stack }
        (msetP ρ { s1 with stack := (.proved c3, false) :: s.stack } m (ren ρ c3.expand)) [.gen x]
        (none : Option Pat).toList :=
      Sg.single (PySt.track1_mono hk _ _ _ ht) rfl (by rw [he, he3]; simp [step, msetP, ren, hfr]) rfl
        (sideK_mk _ _ (by simp [SideCond]) (by simp [touchesResidue, Call.arity, hstk]) (by simp))
    refine ⟨is1 ++ [.gen x], ?_⟩
    have := G1.append G3
    simpa using this

/-! ### instantiation -/

theorem dynEmptyRS {cfg : Cfg} {n k : Nat} (ax : List NPat) (ih : RunCS cfg n ax k) {s s3 : PySt} {p : Pf}
    {δ : List (Nat × NPat)} {acc a3 : List Call} (hpp : p.patsOK = true) (hip : p.InstOK)
    (hemp : δ.isEmpty = true) (hM : MemOKS s.memory)
    (h : (andThen3 (Pf.runF cfg ax k s p acc) fun s1 a1 _ => pure (some (s1, a1))) = some (some (s3, a3))) :
    ∃ c, RunOKS n s acc s3 a3 c (.dynInst p δ) := by
  rcases andThen3_eq_some _ _ _ h with ⟨_, e⟩ | ⟨s1, a1, cp, h1, h⟩
  · cases e
  simp only [Option.pure_def, Option.some.injEq, Prod.mk.injEq] at h
  obtain ⟨rfl, rfl⟩ := h
  obtain ⟨P1, hcp, hSp, cs1, rfl, S1⟩ := ih p s acc s1 a1 cp h1 hpp hip hM
  refine ⟨cp, P1, hcp, ?_, cs1, rfl, S1⟩
  have : Pf.Sem (.dynInst p δ) (Py.inst (Py.lookup (NPat.expand.expandMap δ)) cp.expand) := .dynInst hSp
  rw [← NPat.inst_isEmpty δ hemp cp hcp] at this
  exact this

theorem dynRS {cfg : Cfg} {n k : Nat} (hk : k ≤ n) (ax : List NPat) (ih : RunCS cfg n ax k) {s s3 : PySt} {p : Pf}
    {δ : List (Nat × NPat)} {acc a3 : List Call} (hpp : p.patsOK = true) (hip : p.InstOK)
    (hmok : MOKMap δ = true) (hshape : ShapeMap δ = true) (hnd : (δ.map (·.1)).Nodup)
    (hne : δ.isEmpty = false)
    (hinst : ∀ A, Pf.Sem p A → (Pat.inst (Py.lookup (NPat.expand.expandMap δ)) A).isSome = true)
    (hM : MemOKS s.memory)
    (h : (andThen (patternF.patternListF cfg k s (δ.map (·.2)) acc) fun s1 a1 =>
        andThen3 (Pf.runF cfg ax k s1 p a1) fun s2 a2 _ =>
          doCalls k s2 [.instantiate (δ.map (·.1))] a2) = some (some (s3, a3))) :
    ∃ c, RunOKS n s acc s3 a3 c (.dynInst p δ) := by
  rcases andThen_eq_some _ _ _ h with ⟨_, e⟩ | ⟨t1, b1, h1, h⟩
  · cases e
  rcases andThen3_eq_some _ _ _ h with ⟨_, e⟩ | ⟨t2, b2, c2, h2, h⟩
  · cases e
  obtain ⟨hti, rfl⟩ := MM.doCalls_one h
  have hlen : (δ.map (·.2)).length = (δ.map (·.1)).length := by simp
  have hke : (δ.map (·.1)).isEmpty = false := by
    cases δ with
    | nil => simp at hne
    | cons _ _ => rfl
  have hz : (δ.map (·.1)).zip (δ.map (·.2)) = δ := zip_keys_vals δ
  -- the plugs, with the canonical naming of their own table (frame only)
  obtain ⟨P1, cs1, rfl, _⟩ := patternList_compilesS cfg (n := n) hk (fun nm => t1.symtab.idxOf nm) h1
    (MOKMap_vals hmok) (shapeMap_valsS hshape) (agree_idxOf _) hM
  obtain ⟨P2, hc2, hS2, cs2, rfl, S2⟩ := ih p t1 _ t2 b2 c2 h2 hpp hip (P1.memory hM)
  have P12 := P1.trans P2
  have hstk2 : t2.stack = (.proved c2, false) :: ((δ.map (·.2)).reverse.map entry ++ s.stack) := by
    simpa using P12.stack
  have htp := takePlugs_vals (δ.map (·.2)) s.stack
  rw [hlen] at htp
  have hti' := hti
  simp only [track1, hstk2, hke, Bool.false_eq_true, if_false, htp, hz,
    Option.bind_eq_bind, Option.bind_eq_some_iff, Option.pure_def, Option.some.injEq] at hti'
  obtain ⟨c3, hi3, hs3⟩ := hti'
  obtain ⟨hce, hcs⟩ := NPat.instF_expand _ δ c2 c3 hc2 hshape hi3
  obtain ⟨r0, hr0⟩ := Option.isSome_iff_exists.mp (hinst _ hS2)
  have hr0e : r0 = c3.expand := by
    rw [hce]; exact (C11.py_inst_eq_rust _ _ _ hr0).symm
  subst hs3
  refine ⟨c3, P12.replace _, hcs, ?_, cs1 ++ cs2 ++ [.instantiate (δ.map (·.1))], by simp, ?_⟩
  · rw [hce]; exact .dynInst hS2
  intro ρ m hag hmem
  have ag2 : Agree ρ t2.symtab := hag
  have ag1 := P2.agree ag2
  obtain ⟨_, cs1', hcs1', S1⟩ := patternList_compilesS cfg (n := n) hk ρ h1 (MOKMap_vals hmok)
    (shapeMap_valsS hshape) ag1 hM
  have ecs : cs1' = cs1 := List.append_cancel_left hcs1'.symm
  subst ecs
  obtain ⟨is1, G1⟩ := S1 m hmem
  obtain ⟨is2, G2⟩ := S2 ρ (mset ρ t1 m ((δ.map (·.2)).reverse.map fun p => ren ρ p.expand)) ag2
    (mset_rel ρ t1 m _)
  have hstep := step_inst_proved ρ t2.phase { m with memory := t2.memory.map (convR ρ) } c2.expand r0
    (δ.map (·.1)) (δ.map (·.2)) hnd hlen (by rw [hz]; exact hr0)
  rw [hr0e] at hstep
  have G3 := Sg.single (n := n) (PySt.track1_mono hk _ _ _ hti) (i := .instantiate (δ.map (·.1)).reverse) rfl
    hstep rfl (sideK_inst _ _ (δ.map (·.1)) (δ.map (·.2)) (.proved c2) s.stack (Or.inl rfl) hnd hlen
      hstk2 (by rw [hz]; exact hinst _ hS2))
  refine ⟨is1 ++ is2 ++ [.instantiate (δ.map (·.1)).reverse], ?_⟩
  have := (G1.append G2).append G3
  simpa [mset, mpush, msetP] using this

/-! ### all proof forms -/

theorem rawCS {cfg : Cfg} {n k : Nat} (hk : k ≤ n) (ax : List NPat) (ih : RunCS cfg n ax k) {s s3 : PySt} {pf : Pf}
    {acc a3 : List Call} (hp : pf.patsOK = true) (hi : pf.InstOK) (hM : MemOKS s.memory)
    (h : rawF cfg ax k s pf acc = some (some (s3, a3))) : ∃ c, RunOKS n s acc s3 a3 c pf := by
  cases pf with
  | prop1 =>
    exact ⟨_, leafRS hk .prop1 .prop1 prop1N .prop1 h (fun _ => rfl) (by decide) .prop1 rfl
      (fun ρ m => rfl) (by simp [SideCond]) rfl (by simp)⟩
  | prop2 =>
    exact ⟨_, leafRS hk .prop2 .prop2 prop2N .prop2 h (fun _ => rfl) (by decide) .prop2 rfl
      (fun ρ m => rfl) (by simp [SideCond]) rfl (by simp)⟩
  | prop3 =>
    exact ⟨_, leafRS hk .prop3 .prop3 prop3N .prop3 h (fun _ => rfl) (by decide) .prop3 rfl
      (fun ρ m => rfl) (by simp [SideCond]) rfl (by simp)⟩
  | quantifier =>
    exact ⟨_, leafRS hk .quantifier .quantifier quantN .quantifier h (fun _ => rfl) (by decide) .quantifier rfl
      (fun ρ m => rfl) (by simp [SideCond]) rfl (by simp)⟩
  | loadAxiom a =>
    simp only [Pf.patsOK] at hp
    exact ⟨a, loadRS hk a hp hM h⟩
  | mp l r =>
    simp only [Pf.patsOK, Bool.and_eq_true] at hp
    exact mpRS hk ax ih hp.1 hp.2 hi.1 hi.2 hM h
  | gen p x =>
    simp only [Pf.patsOK] at hp
    exact genRS hk ax ih hp hi hM h
  | dynInst p δ =>
    simp only [Pf.patsOK, Bool.and_eq_true, decide_eq_true_eq] at hp
    obtain ⟨⟨⟨hpp, hmok⟩, hshape⟩, hnd⟩ := hp
    cases hne : δ.isEmpty with
    | true =>
      simp only [rawF, hne, if_true] at h
      exact dynEmptyRS ax ih hpp hi.1 hne hM h
    | false =>
      simp only [rawF, hne, Bool.false_eq_true, if_false] at h
      exact dynRS hk ax ih hpp hi.1 hmok hshape hnd hne (hi.2 hne) hM h

theorem runCS_step {cfg : Cfg} {n k : Nat} (hk : k + 1 ≤ n) (ax : List NPat) (ih : RunCS cfg n ax k) :
    RunCS cfg n ax (k + 1) := by
  intro pf s acc s1 a1 c h hp hi hM
  rw [runF_succ] at h
  rcases andThen_eq_some _ _ _ h with ⟨_, e⟩ | ⟨s3, a3, hraw, hchk⟩
  · cases e
  obtain ⟨rfl, rfl, b, st, hst⟩ := checkF_inv hchk
  obtain ⟨c', hR⟩ := rawCS (by omega) ax ih hp hi hM hraw
  have := hR.1.stack
  rw [hst] at this
  simp only [List.singleton_append, List.cons.injEq, Prod.mk.injEq, TTerm.proved.injEq] at this
  obtain ⟨⟨rfl, _⟩, _⟩ := this
  exact hR

theorem runCS_all (cfg : Cfg) (n : Nat) (ax : List NPat) : ∀ k, k ≤ n → RunCS cfg n ax k := by
  intro k
  induction k with
  | zero => intro _ pf s acc s1 a1 c h; simp [Pf.runF] at h
  | succ k ih => intro hk; exact runCS_step hk ax (ih (by omega))

/-- **one proof expression against the machine, plain or memoising** -/
theorem runCS (cfg : Cfg) {n k : Nat} (hk : k ≤ n) (ax : List NPat) {pf : Pf} {s s1 : PySt} {acc a1 : List Call}
    {c : NPat} (h : Pf.runF cfg ax k s pf acc = some (some (s1, a1, c))) (hp : pf.patsOK = true) (hi : pf.InstOK)
    (hM : MemOKS s.memory) : RunOKS n s acc s1 a1 c pf :=
  runCS_all cfg n ax k hk pf s acc s1 a1 c h hp hi hM

end KMod

namespace KMod
open NPat

/-! ## part 3: the proof loop and the whole module -/

/-- tracker and machine in the proof phase -/
structure PRelS (ρ : Nat → Nat) (s : PySt) (m : St) : Prop where
  phase : s.phase = .proof
  memory : MRel ρ s m
  claims : m.claims = s.claims.map fun c => ren ρ c.expand
  memK : MemOKS s.memory
  clShape : ∀ c ∈ s.claims, c.Shape = true

/-- the conclusion of one step of the proof loop -/
def StepOKS (n : Nat) (ρ : Nat → Nat) (s : PySt) (m : St) (acc : List Call) (s2 : PySt) (a2 : List Call) : Prop :=
  ∃ c0 rest, s.claims = c0 :: rest ∧ s2.claims = rest ∧ MemOKS s2.memory ∧ s2.phase = .proof ∧
    (∃ e, s2.symtab = s.symtab ++ e) ∧
    ∃ cs is, a2 = acc ++ cs ∧ Sg n s m cs s2 (mnext ρ s2 m) is []

/-- one proof expression followed by `publish_proof` -/
theorem stepMS {cfg : Cfg} {n : Nat} (ρ : Nat → Nat) (ax : List NPat) {s s1 s2 : PySt} {pf : Pf}
    {acc a1 a2 : List Call} {c : NPat} (m : St) (hpf : PfOK pf)
    (hrun : Pf.runF cfg ax n s pf acc = some (some (s1, a1, c)))
    (hpub : doCalls n s1 [.publishProof] a1 = some (some (s2, a2)))
    (hrel : PRelS ρ s m) (hag : Agree ρ s2.symtab) : StepOKS n ρ s m acc s2 a2 := by
  obtain ⟨P1, hc, _, cs1, rfl, S1⟩ := runCS cfg (Nat.le_refl n) ax hrun hpf.1 hpf.2 hrel.memK
  have hsym2 : s2.symtab = s1.symtab := symtab_of_track1 (by simp) (MM.doCalls_one hpub).1
  have ag1 : Agree ρ s1.symtab := hsym2 ▸ hag
  obtain ⟨is1, G1⟩ := S1 ρ m ag1 hrel.memory
  have hstk : s1.stack = (.proved c, false) :: s.stack := by simpa using P1.stack
  have hph1 : s1.phase = .proof := P1.phase.trans hrel.phase
  obtain ⟨c0, rest, hcl, rfl, rfl, G2⟩ := publishC (Nat.le_refl n) ρ (c := c) (st := s.stack)
    { m with memory := s1.memory.map (convR ρ) } m.stack hpub hstk
    hph1 hc (by rw [P1.claims]; exact hrel.clShape) (by rw [P1.claims]; exact hrel.claims)
  obtain ⟨e1, he1⟩ := P1.symtab
  refine ⟨c0, rest, by rw [← P1.claims]; exact hcl, rfl, P1.memory hrel.memK, hph1, ⟨e1, he1⟩,
    cs1 ++ [.publishProof], is1 ++ [.publish], by simp, ?_⟩
  have := G1.append G2
  simpa [mnext, msetP] using this

/-- the part of `PRelS` that does not mention the machine -/
structure PInvS (s : PySt) : Prop where
  phase : s.phase = .proof
  memK : MemOKS s.memory
  clShape : ∀ c ∈ s.claims, c.Shape = true

theorem PRelS.inv {ρ : Nat → Nat} {s : PySt} {m : St} (h : PRelS ρ s m) : PInvS s :=
  ⟨h.phase, h.memK, h.clShape⟩

theorem PInvS.rel {s : PySt} (h : PInvS s) (ρ : Nat → Nat) : PRelS ρ s (fakeM ρ s) :=
  ⟨h.phase, rfl, rfl, h.memK, h.clShape⟩

theorem StepOKS.rel {n : Nat} {ρ : Nat → Nat} {s s2 : PySt} {m : St} {acc a2 : List Call}
    (h : StepOKS n ρ s m acc s2 a2) (hrel : PRelS ρ s m) : PRelS ρ s2 (mnext ρ s2 m) := by
  obtain ⟨c0, rest, hcl, hcl2, hmem, hph, _, _⟩ := h
  refine ⟨hph, rfl, ?_, hmem, ?_⟩
  · show m.claims.tail = _
    rw [hrel.claims, hcl, hcl2]; rfl
  · intro x hx
    rw [hcl2] at hx
    exact hrel.clShape x (by rw [hcl]; exact List.mem_cons_of_mem _ hx)

theorem stepMS_ext {cfg : Cfg} {n : Nat} (ax : List NPat) {s s1 s2 : PySt} {pf : Pf}
    {acc a1 a2 : List Call} {c : NPat} (hpf : PfOK pf)
    (hrun : Pf.runF cfg ax n s pf acc = some (some (s1, a1, c)))
    (hpub : doCalls n s1 [.publishProof] a1 = some (some (s2, a2)))
    (hinv : PInvS s) :
    PInvS s2 ∧ (∃ e, s2.symtab = s.symtab ++ e) ∧ s.claims.length = s2.claims.length + 1 := by
  have hrel := hinv.rel (fun nm => s2.symtab.idxOf nm)
  have hstep := stepMS _ ax _ hpf hrun hpub hrel (agree_idxOf s2.symtab)
  have hrel2 := hstep.rel hrel
  obtain ⟨c0, rest, hcl, hcl2, _, _, hext, _⟩ := hstep
  exact ⟨hrel2.inv, hext, by rw [hcl, hcl2]; rfl⟩

theorem proofsMS_ext {cfg : Cfg} {M : PModule} {n : Nat} :
    ∀ (pfs : List Pf) (s : PySt) (acc : List Call) (s' : PySt) (a' : List Call),
    PModule.executeFull.proofs cfg M n s acc pfs = some (some (s', a')) →
    (∀ pf ∈ pfs, PfOK pf) → PInvS s → ∃ e, s'.symtab = s.symtab ++ e := by
  intro pfs
  induction pfs with
  | nil =>
    intro s acc s' a' h _ _
    simp only [PModule.executeFull.proofs, Option.some.injEq, Prod.mk.injEq] at h
    obtain ⟨rfl, rfl⟩ := h
    exact ⟨[], by simp⟩
  | cons pf r ih =>
    intro s acc s' a' h hpfs hinv
    obtain ⟨s1, a1, c, s2, a2, hrun, hpub, hrest⟩ := proofs_cons_invM h
    obtain ⟨hinv2, ⟨e1, he1⟩, _⟩ := stepMS_ext M.axiomsOf (hpfs pf (by simp)) hrun hpub hinv
    obtain ⟨e2, he2⟩ := ih s2 a2 s' a' hrest (fun x hx => hpfs x (List.mem_cons_of_mem _ hx)) hinv2
    exact ⟨e1 ++ e2, by rw [he2, he1, List.append_assoc]⟩

/-- the proof loop: every claim is discharged -/
theorem proofsMS {cfg : Cfg} {M : PModule} {n : Nat} (ρ : Nat → Nat) :
    ∀ (pfs : List Pf) (s : PySt) (acc : List Call) (s' : PySt) (a' : List Call) (m : St),
    PModule.executeFull.proofs cfg M n s acc pfs = some (some (s', a')) →
    (∀ pf ∈ pfs, PfOK pf) → PRelS ρ s m → Agree ρ s'.symtab → s.claims.length = pfs.length →
    s'.claims = [] ∧ ∃ cs is m', a' = acc ++ cs ∧ Sg n s m cs s' m' is [] ∧ m'.claims = [] := by
  intro pfs
  induction pfs with
  | nil =>
    intro s acc s' a' m h _ hrel _ hlen
    simp only [PModule.executeFull.proofs, Option.some.injEq, Prod.mk.injEq] at h
    obtain ⟨rfl, rfl⟩ := h
    have hcl : s.claims = [] := List.length_eq_zero_iff.mp hlen
    exact ⟨hcl, [], [], m, by simp, Sg.nil s m, by rw [hrel.claims, hcl]; rfl⟩
  | cons pf r ih =>
    intro s acc s' a' m h hpfs hrel hag hlen
    obtain ⟨s1, a1, c, s2, a2, hrun, hpub, hrest⟩ := proofs_cons_invM h
    obtain ⟨hinv2, _, hlen2⟩ := stepMS_ext M.axiomsOf (hpfs pf (by simp)) hrun hpub hrel.inv
    obtain ⟨e2, he2⟩ := proofsMS_ext r s2 a2 s' a' hrest (fun x hx => hpfs x (List.mem_cons_of_mem _ hx)) hinv2
    have ag2 : Agree ρ s2.symtab := by rw [he2] at hag; exact hag.prefix
    have hstep := stepMS ρ M.axiomsOf m (hpfs pf (by simp)) hrun hpub hrel ag2
    have hrel2 := hstep.rel hrel
    obtain ⟨hfin, cs2, is2, m', rfl, G2, hm'⟩ := ih s2 a2 s' a' _ hrest
      (fun x hx => hpfs x (List.mem_cons_of_mem _ hx)) hrel2 hag (by simp at hlen; omega)
    obtain ⟨_, _, _, _, _, _, _, cs1, is1, rfl, G1⟩ := hstep
    exact ⟨hfin, cs1 ++ cs2, is1 ++ is2, m', by simp, by simpa using G1.append G2, hm'⟩

/-- **acceptance of a module, plain or memoising** (any configuration `cfg`, any suggestion list): axioms and claims
shaped and machine-OK, one proof per claim, every proof with patterns in order and instantiations the machine accepts.
`ρ` is any naming of the symbols that names the symbols of the final table by their position. -/
theorem module_acceptedMS (cfg : Cfg) {n : Nat} (M : PModule) (s : PySt) (calls : List Call)
    (hgam : ∀ a ∈ M.gammaAxioms, a.SM = true) (hclm : ∀ a ∈ M.claimsOf, a.SM = true)
    (hpfs : ∀ pf ∈ M.proofsOf, PfOK pf) (hlen : M.claimsOf.length = M.proofsOf.length)
    (hex : PModule.executeFull cfg n M = some (some (s, calls)))
    (ρ : Nat → Nat) (hag : Agree ρ s.symtab) :
    s.claims = [] ∧ AllSideK n (PySt.init M.claimsOf) calls ∧
    ∃ g c p, PySt.trackAll n (PySt.init M.claimsOf) calls ([], [], []) = some (some (s, (g, c, p))) ∧
      verify g c p = some (M.gammaAxioms.map (fun a => ren ρ a.expand),
        M.claimsOf.reverse.map (fun a => ren ρ a.expand)) := by
  have hsm : ∀ a : NPat, a.SM = true → a.Shape = true ∧ a.MOK = true := by
    intro a h; simpa [NPat.SM] using h
  have hgam' : ∀ a ∈ M.gammaAxioms, GAxS a := fun a ha => ⟨(hsm a (hgam a ha)).2, (hsm a (hgam a ha)).1⟩
  simp only [PModule.executeFull, Option.bind_eq_bind, Option.bind_eq_some_iff] at hex
  obtain ⟨o1, hpub1, hex⟩ := hex
  rcases o1 with _ | ⟨e1, a1⟩
  · simp at hex
  simp only [Option.bind_eq_some_iff] at hex
  obtain ⟨o2, hd1, hex⟩ := hex
  rcases o2 with _ | ⟨e2, a2⟩
  · simp at hex
  simp only [Option.bind_eq_some_iff] at hex
  obtain ⟨o3, hpub2, hex⟩ := hex
  rcases o3 with _ | ⟨e3, a3⟩
  · simp at hex
  simp only [Option.bind_eq_some_iff] at hex
  obtain ⟨o4, hd2, hex⟩ := hex
  rcases o4 with _ | ⟨e4, a4⟩
  · simp at hex
  simp only [] at hex
  obtain ⟨ht1, rfl⟩ := MM.doCalls_one hd1
  obtain ⟨ht2, rfl⟩ := MM.doCalls_one hd2
  obtain ⟨hphe1, he2⟩ := intoClaim_spec n e1 e2 ht1
  obtain ⟨hphe3, he4⟩ := intoProof_spec n e3 e4 ht2
  have hmokC : ∀ a ∈ M.claimsOf.reverse, a.MOK = true ∧ a.Shape = true :=
    fun a ha => ⟨(hsm a (hclm a (List.mem_reverse.mp ha))).2, (hsm a (hclm a (List.mem_reverse.mp ha))).1⟩
  have hph2 : e2.phase = .claim := by rw [he2]
  -- the facts that do not depend on the naming
  obtain ⟨⟨hK1, hcl1, _, _⟩, _⟩ := pubAxiomCS M.gammaAxioms (fun nm => e1.symtab.idxOf nm) _ [] e1 a1 hpub1
    hgam' rfl (agree_idxOf _) MemOKS.nil
  have hK2 : MemOKS e2.memory := by rw [he2]; exact hK1
  obtain ⟨⟨hK3, hcl3, _, _⟩, _⟩ := pubClaimCS M.claimsOf.reverse (fun nm => e3.symtab.idxOf nm) e2 _ e3 a3
    hpub2 hmokC hph2 (agree_idxOf _) hK2
  have hK4 : MemOKS e4.memory := by rw [he4]; exact hK3
  have hcl4 : e4.claims = M.claimsOf := by
    rw [he4]; show e3.claims = _
    rw [hcl3, he2]; show e1.claims = _
    rw [hcl1]; rfl
  have hinv4 : PInvS e4 := by
    refine ⟨by rw [he4], hK4, ?_⟩
    intro c hc
    rw [hcl4] at hc
    exact (hsm c (hclm c hc)).1
  -- symbol tables
  obtain ⟨eP, hextP⟩ := proofsMS_ext M.proofsOf e4 _ s calls hex hpfs hinv4
  have ag4 : Agree ρ e4.symtab := by have := hag; rw [hextP] at this; exact this.prefix
  have ag3 : Agree ρ e3.symtab := by rw [he4] at ag4; exact ag4
  obtain ⟨⟨_, _, _, eC, hextC⟩, C, hC, SC⟩ := pubClaimCS M.claimsOf.reverse ρ e2 _ e3 a3
    hpub2 hmokC hph2 ag3 hK2
  have ag2 : Agree ρ e2.symtab := by rw [hextC] at ag3; exact ag3.prefix
  have ag1 : Agree ρ e1.symtab := by rw [he2] at ag2; exact ag2
  obtain ⟨_, G, hG, SG⟩ := pubAxiomCS M.gammaAxioms ρ _ [] e1 a1 hpub1 hgam' rfl ag1 MemOKS.nil
  simp only [List.nil_append] at hG
  subst hG
  subst hC
  -- the machine
  obtain ⟨isG, GG⟩ := SG ⟨[], [], []⟩ rfl
  obtain ⟨isC, GC⟩ := SC (mset ρ e1 ⟨[], [], []⟩ []) (by rw [he2]; rfl)
  have hrel4 : PRelS ρ e4
      (mset ρ e3 { mset ρ e1 ⟨[], [], []⟩ [] with
        claims := (M.claimsOf.reverse.map fun a => ren ρ a.expand).reverse ++ (mset ρ e1 ⟨[], [], []⟩ []).claims } []) := by
    refine ⟨hinv4.phase, ?_, ?_, hinv4.memK, hinv4.clShape⟩
    · rw [he4]; rfl
    · simp [hcl4, List.map_reverse, mset, mpush]
  obtain ⟨hfin, P, isP, m3, hP, GP, hm3⟩ := proofsMS ρ M.proofsOf e4 _ s calls _ hex hpfs
    hrel4 hag (by rw [hcl4]; exact hlen)
  have hcalls : calls = a1 ++ .intoClaim :: (C ++ .intoProof :: P) := by
    rw [hP]; simp [List.append_assoc]
  subst hcalls
  refine ⟨hfin, ?_, isG, isC, isP, ?_, ?_⟩
  · -- side conditions
    have sP : AllSideK n e4 P := GP.side
    have sIP : AllSideK n e3 (.intoProof :: P) :=
      ⟨Or.inl (Or.inr rfl), fun t ht => by rw [ht2] at ht; cases ht; exact sP⟩
    have sC : AllSideK n e2 (C ++ .intoProof :: P) := allSideK_append n C _ e2 e3 GC.side GC.reach sIP
    have sIC : AllSideK n e1 (.intoClaim :: (C ++ .intoProof :: P)) :=
      ⟨Or.inl (Or.inl rfl), fun t ht => by rw [ht1] at ht; cases ht; exact sC⟩
    exact allSideK_append n a1 _ _ e1 GG.side GG.reach sIC
  · -- the replay
    have h1 := GG.trackAll ([], [], [])
    rw [trackAll_append_eq a1 _ _ e1 _ _ h1, trackAll_cons_eq _ _ (is := []) rfl ht1, addOut_nil]
    have h2 := GC.trackAll (addOut (PySt.init M.claimsOf).phase ([], [], []) isG)
    rw [trackAll_append_eq C _ _ e3 _ _ h2, trackAll_cons_eq _ _ (is := []) rfl ht2, addOut_nil]
    rw [GP.trackAll]
    have hp4 : e4.phase = .proof := hinv4.phase
    rw [hp4, hph2]
    rfl
  · -- the machine accepts
    have r1 := GG.run
    have r2 := GC.run
    have r3 := GP.run
    rw [hph2] at r2
    rw [hinv4.phase] at r3
    have r1' : run .gamma ⟨[], [], []⟩ isG = some (mset ρ e1 ⟨[], [], []⟩ [], _) := r1
    have r2' : run .claim { mset ρ e1 ⟨[], [], []⟩ [] with stack := [] } isC = some (_, _) := r2
    have r3' : run .proof { (mset ρ e3 { mset ρ e1 ⟨[], [], []⟩ [] with
        claims := (M.claimsOf.reverse.map fun a => ren ρ a.expand).reverse ++ (mset ρ e1 ⟨[], [], []⟩ []).claims } [])
          with stack := [] } isP = some (_, _) := r3
    simp only [verify, r1', r2', r3', hm3, Option.bind_eq_bind, Option.bind_some, List.isEmpty_nil, if_true,
      Option.pure_def]

/-- the memory at the end of a run of a machine-OK module holds shaped patterns only -/
theorem MemOKS.of_shaped {mem : List TTerm} (h : ∀ t ∈ mem, t.body.Shape = true) : MemOKS mem :=
  ⟨fun q hq => h _ hq, fun a ha => h _ ha⟩

end KMod

namespace KMod
open NPat

/-! ## the converse direction needed by the corollaries: no claim is left iff there is one proof per claim -/

theorem proofsMS_len {cfg : Cfg} {M : PModule} {n : Nat} :
    ∀ (pfs : List Pf) (s : PySt) (acc : List Call) (s' : PySt) (a' : List Call),
    PModule.executeFull.proofs cfg M n s acc pfs = some (some (s', a')) →
    (∀ pf ∈ pfs, PfOK pf) → PInvS s → s.claims.length = s'.claims.length + pfs.length := by
  intro pfs
  induction pfs with
  | nil =>
    intro s acc s' a' h _ _
    simp only [PModule.executeFull.proofs, Option.some.injEq, Prod.mk.injEq] at h
    obtain ⟨rfl, rfl⟩ := h
    simp
  | cons pf r ih =>
    intro s acc s' a' h hpfs hinv
    obtain ⟨s1, a1, c, s2, a2, hrun, hpub, hrest⟩ := proofs_cons_invM h
    obtain ⟨hinv2, _, hl⟩ := stepMS_ext M.axiomsOf (hpfs pf (by simp)) hrun hpub hinv
    have := ih s2 a2 s' a' hrest (fun x hx => hpfs x (List.mem_cons_of_mem _ hx)) hinv2
    simp only [List.length_cons]
    omega

/-- where the proof phase of `execute_full` starts -/
theorem module_proof_startS (cfg : Cfg) {n : Nat} (M : PModule) (s : PySt) (calls : List Call)
    (hgam : ∀ a ∈ M.gammaAxioms, a.SM = true) (hclm : ∀ a ∈ M.claimsOf, a.SM = true)
    (hex : PModule.executeFull cfg n M = some (some (s, calls))) :
    ∃ e4 a4, PModule.executeFull.proofs cfg M n e4 a4 M.proofsOf = some (some (s, calls)) ∧ PInvS e4 ∧
      e4.claims = M.claimsOf := by
  have hsm : ∀ a : NPat, a.SM = true → a.Shape = true ∧ a.MOK = true := by
    intro a h; simpa [NPat.SM] using h
  have hgam' : ∀ a ∈ M.gammaAxioms, GAxS a := fun a ha => ⟨(hsm a (hgam a ha)).2, (hsm a (hgam a ha)).1⟩
  simp only [PModule.executeFull, Option.bind_eq_bind, Option.bind_eq_some_iff] at hex
  obtain ⟨o1, hpub1, hex⟩ := hex
  rcases o1 with _ | ⟨e1, a1⟩
  · simp at hex
  simp only [Option.bind_eq_some_iff] at hex
  obtain ⟨o2, hd1, hex⟩ := hex
  rcases o2 with _ | ⟨e2, a2⟩
  · simp at hex
  simp only [Option.bind_eq_some_iff] at hex
  obtain ⟨o3, hpub2, hex⟩ := hex
  rcases o3 with _ | ⟨e3, a3⟩
  · simp at hex
  simp only [Option.bind_eq_some_iff] at hex
  obtain ⟨o4, hd2, hex⟩ := hex
  rcases o4 with _ | ⟨e4, a4⟩
  · simp at hex
  simp only [] at hex
  obtain ⟨ht1, rfl⟩ := MM.doCalls_one hd1
  obtain ⟨ht2, rfl⟩ := MM.doCalls_one hd2
  obtain ⟨hphe1, he2⟩ := intoClaim_spec n e1 e2 ht1
  obtain ⟨hphe3, he4⟩ := intoProof_spec n e3 e4 ht2
  have hmokC : ∀ a ∈ M.claimsOf.reverse, a.MOK = true ∧ a.Shape = true :=
    fun a ha => ⟨(hsm a (hclm a (List.mem_reverse.mp ha))).2, (hsm a (hclm a (List.mem_reverse.mp ha))).1⟩
  have hph2 : e2.phase = .claim := by rw [he2]
  obtain ⟨⟨hK1, hcl1, _, _⟩, _⟩ := pubAxiomCS M.gammaAxioms (fun nm => e1.symtab.idxOf nm) _ [] e1 a1 hpub1
    hgam' rfl (agree_idxOf _) MemOKS.nil
  have hK2 : MemOKS e2.memory := by rw [he2]; exact hK1
  obtain ⟨⟨hK3, hcl3, _, _⟩, _⟩ := pubClaimCS M.claimsOf.reverse (fun nm => e3.symtab.idxOf nm) e2 _ e3 a3
    hpub2 hmokC hph2 (agree_idxOf _) hK2
  have hK4 : MemOKS e4.memory := by rw [he4]; exact hK3
  have hcl4 : e4.claims = M.claimsOf := by
    rw [he4]; show e3.claims = _
    rw [hcl3, he2]; show e1.claims = _
    rw [hcl1]; rfl
  refine ⟨e4, _, hex, ⟨by rw [he4], hK4, ?_⟩, hcl4⟩
  intro c hc
  rw [hcl4] at hc
  exact (hsm c (hclm c hc)).1

/-- no claim is left iff there is one proof per claim (any configuration) -/
theorem module_len_iffS (cfg : Cfg) {n : Nat} (M : PModule) (s : PySt) (calls : List Call)
    (hgam : ∀ a ∈ M.gammaAxioms, a.SM = true) (hclm : ∀ a ∈ M.claimsOf, a.SM = true)
    (hpfs : ∀ pf ∈ M.proofsOf, PfOK pf)
    (hex : PModule.executeFull cfg n M = some (some (s, calls))) :
    s.claims = [] ↔ M.claimsOf.length = M.proofsOf.length := by
  obtain ⟨e4, a4, hP, hinv, hcl⟩ := module_proof_startS cfg M s calls hgam hclm hex
  have := proofsMS_len M.proofsOf e4 a4 s calls hP hpfs hinv
  rw [hcl] at this
  constructor
  · intro h; rw [h] at this; simpa using this
  · intro h; rw [h] at this
    exact List.length_eq_zero_iff.mp (by omega)

end KMod

namespace KMod
open NPat

/-! ## the side conditions, on a module that runs (any configuration), are `PModule.MOK` -/

/-- a run that returns under the side conditions certifies `Pf.MOK` -/
theorem mok_of_runS {cfg : Cfg} {k : Nat} {ax : List NPat} {pf : Pf} {s s1 : PySt} {acc a1 : List Call} {c : NPat}
    (hax : AxShaped ax) (hpf : PfOK pf) (hM : MemOKS s.memory)
    (h : Pf.runF cfg ax k s pf acc = some (some (s1, a1, c))) : Pf.MOK ax pf = true := by
  obtain ⟨_, _, hS, _⟩ := runCS cfg (Nat.le_refl k) ax h hpf.1 hpf.2 hM
  have hc := concM_of_sem hS hpf.1 hpf.2
  cases k with
  | zero => simp [Pf.runF] at h
  | succ k =>
    rw [runF_succ] at h
    rcases andThen_eq_some _ _ _ h with ⟨_, e⟩ | ⟨s3, a3, _, hchk⟩
    · cases e
    obtain ⟨adv, hadv⟩ := checkF_conc hchk
    have hok := concF_axok ax hax k pf adv (patsOK_shaped pf hpf.1) hadv
    simp [Pf.MOK, hpf.1, declared_of_axOK ax pf hok, hc]

theorem proofs_runsS {cfg : Cfg} {M : PModule} {n : Nat} :
    ∀ (pfs : List Pf) (s : PySt) (acc : List Call) (s' : PySt) (a' : List Call),
    PModule.executeFull.proofs cfg M n s acc pfs = some (some (s', a')) →
    (∀ pf ∈ pfs, PfOK pf) → PInvS s →
    ∀ pf ∈ pfs, ∃ s0 acc0 s1 a1 c, MemOKS s0.memory ∧
      Pf.runF cfg M.axiomsOf n s0 pf acc0 = some (some (s1, a1, c)) := by
  intro pfs
  induction pfs with
  | nil => intro _ _ _ _ _ _ _ pf hpf; cases hpf
  | cons p r ih =>
    intro s acc s' a' h hpfs hinv pf hpf
    obtain ⟨s1, a1, c, s2, a2, hrun, hpub, hrest⟩ := proofs_cons_invM h
    rcases List.mem_cons.mp hpf with e | hr
    · subst e
      exact ⟨s, acc, s1, a1, c, hinv.memK, hrun⟩
    · obtain ⟨hinv2, _, _⟩ := stepMS_ext M.axiomsOf (hpfs p (by simp)) hrun hpub hinv
      exact ih s2 a2 s' a' hrest (fun x hx => hpfs x (List.mem_cons_of_mem _ hx)) hinv2 pf hr

/-- **the side conditions, on a module that runs (plain or memoising), are `PModule.MOK`** -/
theorem module_mok_of_runS (cfg : Cfg) {n : Nat} (M : PModule) (s : PySt) (calls : List Call)
    (hgam : ∀ a ∈ M.gammaAxioms, a.SM = true) (hclm : ∀ a ∈ M.claimsOf, a.SM = true)
    (hpfs : ∀ pf ∈ M.proofsOf, PfOK pf) (hfin : s.claims = [])
    (hex : PModule.executeFull cfg n M = some (some (s, calls))) : M.MOK = true := by
  have hlen := (module_len_iffS cfg M s calls hgam hclm hpfs hex).mp hfin
  obtain ⟨e4, a4, hP, hinv, _⟩ := module_proof_startS cfg M s calls hgam hclm hex
  have hax : AxShaped M.axiomsOf := by
    intro a ha
    have := hgam a (axiomsOf_sub_gamma M a ha)
    simp only [NPat.SM, Bool.and_eq_true] at this
    exact this.1
  simp only [PModule.MOK, Bool.and_eq_true, List.all_eq_true, beq_iff_eq]
  refine ⟨⟨⟨hgam, hclm⟩, ?_⟩, hlen⟩
  intro pf hpf
  obtain ⟨s0, acc0, s1, a1, c, hM, hrun⟩ := proofs_runsS M.proofsOf e4 a4 s calls hP hpfs hinv pf hpf
  exact mok_of_runS hax (hpfs pf hpf) hM hrun

end KMod

#print axioms KMod.pattern_compilesS
#print axioms KMod.runCS
#print axioms KMod.module_acceptedMS
#print axioms KMod.module_len_iffS
#print axioms KMod.module_mok_of_runS
