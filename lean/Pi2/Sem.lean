import Pi2.Pattern
/-!
# L6 — denotational semantics (DESIGN.md §3.6)

Generalised valuations (element *and* set variables ↦ arbitrary subsets), semantic
instantiations of metavariables keyed by the whole record, `μ` as intersection of pre-fixpoints.
`Valid p`: true at every element of every model, under every admissible semantic instantiation
and every *standard* valuation (element variables ↦ singletons).  Carriers are arbitrary types,
which is strictly more than the finite carriers 1‥3 the property text mentions.
-/
open Pat

structure Model where
  M : Type
  sym : VId → M → Prop
  app : M → M → M → Prop

structure Val (M : Type) where
  e : VId → M → Prop
  s : VId → M → Prop

def Val.setE {M} (ρ : Val M) (x : VId) (A : M → Prop) : Val M := { ρ with e := fun y => if y = x then A else ρ.e y }
def Val.setS {M} (ρ : Val M) (x : VId) (A : M → Prop) : Val M := { ρ with s := fun y => if y = x then A else ρ.s y }

abbrev Sem (M : Type) := Val M → M → Prop
-- metavariable identity = full record
structure MVKey where
  id : VId
  ef : List VId
  sf : List VId
  pos : List VId
  neg : List VId
  holes : List VId
deriving DecidableEq

def eval (𝔐 : Model) (σ : MVKey → Sem 𝔐.M) : Pat → Val 𝔐.M → 𝔐.M → Prop
  | .evar x, ρ => ρ.e x
  | .svar X, ρ => ρ.s X
  | .sym s, _ => 𝔐.sym s
  | .imp l r, ρ => fun m => eval 𝔐 σ l ρ m → eval 𝔐 σ r ρ m
  | .app l r, ρ => fun m => ∃ a b, eval 𝔐 σ l ρ a ∧ eval 𝔐 σ r ρ b ∧ 𝔐.app a b m
  | .ex x p, ρ => fun m => ∃ a : 𝔐.M, eval 𝔐 σ p (ρ.setE x (fun b => b = a)) m
  | .mu X p, ρ => fun m => ∀ A : 𝔐.M → Prop, (∀ b, eval 𝔐 σ p (ρ.setS X A) b → A b) → A m
  | .mv id ef sf pos neg holes, ρ => σ ⟨id, ef, sf, pos, neg, holes⟩ ρ
  | .esub p x plug, ρ => eval 𝔐 σ p (ρ.setE x (eval 𝔐 σ plug ρ))
  | .ssub p X plug, ρ => eval 𝔐 σ p (ρ.setS X (eval 𝔐 σ plug ρ))

theorem bot_empty (𝔐 : Model) σ ρ m : ¬ eval 𝔐 σ (.mu 0 (.svar 0)) ρ m := by
  intro h
  have := h (fun _ => False) (by intro b hb; simpa [eval, Val.setS] using hb)
  exact this

/-- two valuations agree except possibly at element variable `e` -/
def Val.agreeOffE {M} (e : VId) (ρ ρ' : Val M) : Prop :=
  (∀ y, y ≠ e → ρ.e y = ρ'.e y) ∧ ρ.s = ρ'.s

structure Admissible {M : Type} (σ : MVKey → Sem M) : Prop where
  ef : ∀ k e, e ∈ k.ef → ∀ ρ ρ', Val.agreeOffE e ρ ρ' → σ k ρ = σ k ρ'

def Val.agreeOffS {M} (s : VId) (ρ ρ' : Val M) : Prop :=
  (∀ y, y ≠ s → ρ.s y = ρ'.s y) ∧ ρ.e = ρ'.e

structure AdmissibleS {M : Type} (σ : MVKey → Sem M) : Prop where
  sf : ∀ k s, s ∈ k.sf → ∀ ρ ρ', Val.agreeOffS s ρ ρ' → σ k ρ = σ k ρ'

/-- ρ ≤ ρ' at set variable X, equal elsewhere -/
def Val.leS {M} (X : VId) (ρ ρ' : Val M) : Prop :=
  (∀ m, ρ.s X m → ρ'.s X m) ∧ (∀ y, y ≠ X → ρ.s y = ρ'.s y) ∧ ρ.e = ρ'.e

structure AdmissiblePN {M : Type} (σ : MVKey → Sem M) : Prop where
  pos : ∀ k X, X ∈ k.pos → ∀ ρ ρ', Val.leS X ρ ρ' → ∀ m, σ k ρ m → σ k ρ' m
  neg : ∀ k X, X ∈ k.neg → ∀ ρ ρ', Val.leS X ρ ρ' → ∀ m, σ k ρ' m → σ k ρ m

/-- Validity: true at every standard valuation under every admissible semantic instantiation -/
def Val.standard {M} (ρ : Val M) : Prop := ∀ x, ∃ a, ρ.e x = fun b => b = a
def AllAdm {M} (σ : MVKey → Sem M) : Prop := Admissible σ ∧ AdmissibleS σ ∧ AdmissiblePN σ
/-- validity in one model -/
def ValidM (𝔐 : Model) (p : Pat) : Prop :=
  ∀ (σ : MVKey → Sem 𝔐.M), AllAdm σ → ∀ ρ : Val 𝔐.M, ρ.standard → ∀ m, eval 𝔐 σ p ρ m
/-- validity in all models -/
def Valid (p : Pat) : Prop := ∀ 𝔐 : Model, ValidM 𝔐 p
