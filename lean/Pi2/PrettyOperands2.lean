import Pi2.PrettyOperands
/-!
# The operands of a pretty `MetaVar` step, read back from its text

`Pi2/PrettyOperands.lean` reads the operand of every step line back from its text, except for `metavar`, where only
one block (`readBlock (blockBody …)`) was proved.  Here the whole text of a `metavar` step is read back:

* `PrettyPrintingInterpreter.metavar` writes `MetaVar `, the id, and then — WITHOUT a separator after the id — one
  block `name, len=k i1 i2 … \n` per NON-EMPTY constraint list; an empty list is omitted altogether
  (`write_list` returns at once).  So the text after `MetaVar ` is the decimal of the id, immediately followed by the
  name of the first non-empty list (if any); the blocks are closed by newlines.
* the reader `readMetaVar` takes the leading digits of the first line as the id (the five list names start with the
  letters `e`, `s`, `p`, `n`, `a`, no digit, so the decimal never runs into the name), splits at `'\n'`, drops the
  empty piece after the last newline, reads each block, and answers `[]` for a name without a block.
* `readMetaVar_prettyMetaVarText`: for ALL ids and ALL five lists (empty ones included) the reader gives back the id
  and the five lists.  Hence the text determines the call (`prettyMetaVarText_inj`): the format is injective, there is
  no pair of different `MetaVar` calls with the same text.
* the `len=k` field: `readLen` reads it, `readLen_body` says it is the length of the list;
  `readBlockChecked` / `readMetaVarChecked` / `readOperandChecked` are the readers that REFUSE a block whose `len=` field
  is not the number of its items, and the same theorems hold for them.
-/
open PyI PyP Gen.PyPretty PySt
set_option linter.unusedVariables false

namespace PrettyOperands
open PrettyTie

/-! ## splitting a text whose pieces are closed by `c` -/

theorem splitAtChar_prefix (c : Char) (a x h : List Char) (t : List (List Char)) (ha : c ∉ a)
    (hx : splitAtChar c x = h :: t) : splitAtChar c (a ++ x) = (a ++ h) :: t := by
  induction a with
  | nil => simpa using hx
  | cons y r ih =>
    simp only [List.mem_cons, not_or] at ha
    have hy : ¬ y = c := fun e => ha.1 e.symm
    simp [splitAtChar, hy, ih ha.2]

/-- pieces without `c`, each closed by `c`: splitting gives the pieces back, and one empty piece after the last `c` -/
theorem split_lines (c : Char) (L : List (List Char)) (hL : ∀ b ∈ L, c ∉ b) :
    splitAtChar c (L.flatMap (· ++ [c])) = L ++ [[]] := by
  induction L with
  | nil => rfl
  | cons b r ih =>
    have hb := hL b (by simp)
    have hr : ∀ b ∈ r, c ∉ b := fun b' h' => hL b' (by simp [h'])
    simp only [List.flatMap_cons, List.append_assoc, List.cons_append, List.nil_append]
    rw [splitAtChar_append _ _ _ hb, ih hr]

/-- digits followed by something that does not begin with a digit: `takeWhile` / `dropWhile` cut exactly there -/
theorem takeWhile_digits (d h : List Char) (hd : ∀ c ∈ d, c.isDigit = true)
    (hh : ∀ c ∈ h.head?, c.isDigit = false) :
    (d ++ h).takeWhile Char.isDigit = d ∧ (d ++ h).dropWhile Char.isDigit = h := by
  induction d with
  | nil =>
    cases h with
    | nil => simp
    | cons x r =>
      have : x.isDigit = false := hh x (by simp)
      simp [this]
  | cons y r ih =>
    have hy := hd y (by simp)
    have := ih (fun c hc => hd c (by simp [hc]))
    simp [hy, this.1, this.2]

/-! ## the reader, with the block reader as a parameter -/

/-- `readMetaVar` with the reader of one block as a parameter -/
def readMetaVarWith (rb : List Char → Option (List Char × List Nat)) (t : List Char) : Option Operand :=
  match splitAtChar '\n' t with
  | [] => none
  | l0 :: ls =>
    match readNat (l0.takeWhile Char.isDigit),
        ((l0.dropWhile Char.isDigit :: ls).filter fun l => !l.isEmpty).mapM rb with
    | some id, some bs =>
      let get := fun (nm : String) => (bs.lookup nm.toList).getD []
      some (.lists id (get "eFresh") (get "sFresh") (get "pos") (get "neg") (get "appctx"))
    | _, _ => none

theorem readMetaVar_eq_with : readMetaVar = readMetaVarWith readBlock := rfl

/-- a block to be written: the one-letter prefix of the items, the name, the list -/
abbrev Spec := Char × List Char × List Nat

/-- the block without its newline -/
def Spec.body (s : Spec) : List Char := blockBody s.1 s.2.1 s.2.2

/-- what the reader needs of prefix and name: no space, no newline, the name does not begin with a digit -/
def Spec.good (s : Spec) : Prop :=
  s.1 ≠ ' ' ∧ s.1 ≠ '\n' ∧ ' ' ∉ s.2.1 ∧ '\n' ∉ s.2.1 ∧ s.2.1.head?.all (fun c => !c.isDigit) = true

/-- the blocks that are written: those of the non-empty lists -/
def present (specs : List Spec) : List Spec := specs.filter fun s => !s.2.2.isEmpty

/-- the blocks as text: each present block and a newline -/
def specsText (specs : List Spec) : List Char := ((present specs).map Spec.body).flatMap (· ++ ['\n'])

theorem nl_not_mem_body (s : Spec) (hg : s.good) : '\n' ∉ s.body := by
  obtain ⟨_, h2, _, h4, _⟩ := hg
  have hl : '\n' ∉ (strNat s.2.2.length).toList := not_mem_strNat '\n' (by decide) _
  have hlen : '\n' ∉ "len=".toList := by decide
  simp only [Spec.body, blockBody, List.mem_append, List.mem_cons, List.mem_flatMap, not_or, not_exists, not_and,
    List.not_mem_nil, or_false]
  refine ⟨⟨h4, by decide⟩, by decide, ⟨hlen, hl⟩, by decide, ?_⟩
  intro i _
  exact ⟨⟨fun e => h2 e.symm, not_mem_strNat '\n' (by decide) i⟩, by decide⟩

theorem body_nonempty (s : Spec) : s.body.isEmpty = false := by
  obtain ⟨pc, nm, l⟩ := s
  cases nm <;> rfl

theorem body_head (s : Spec) (hg : s.good) : ∀ c ∈ s.body.head?, c.isDigit = false := by
  obtain ⟨pc, nm, l⟩ := s
  obtain ⟨_, _, _, _, h5⟩ := hg
  cases nm with
  | nil =>
    intro c hc
    have : c = ',' := by simpa [Spec.body, blockBody] using hc.symm
    subst this; decide
  | cons x r =>
    intro c hc
    have : c = x := by simpa [Spec.body, blockBody] using hc.symm
    subst this
    simpa using h5

theorem mapM_bodies (rb : List Char → Option (List Char × List Nat))
    (hrb : ∀ pc nm l, pc ≠ ' ' → ' ' ∉ nm → rb (blockBody pc nm l) = some (nm, l))
    (P : List Spec) (hg : ∀ s ∈ P, s.good) :
    (P.map Spec.body).mapM rb = some (P.map fun s => (s.2.1, s.2.2)) := by
  induction P with
  | nil => rfl
  | cons s r ih =>
    have hs := hg s (by simp)
    have := ih (fun s' h' => hg s' (by simp [h']))
    simp [List.mapM_cons, Spec.body, hrb s.1 s.2.1 s.2.2 hs.1 hs.2.2.1, this]

theorem filter_bodies (P : List Spec) :
    ((P.map Spec.body) ++ [[]]).filter (fun l => !l.isEmpty) = P.map Spec.body := by
  rw [List.filter_append]
  have : (P.map Spec.body).filter (fun l => !l.isEmpty) = P.map Spec.body := by
    rw [List.filter_eq_self]
    intro b hb
    obtain ⟨s, _, rfl⟩ := List.mem_map.mp hb
    simp [body_nonempty s]
  rw [this]
  simp

/-- **the text of the id and the blocks, read back** (any block reader that reads `blockBody` back; any blocks whose
prefixes and names are `good`): the id, and under each name the list of the FIRST present block of that name -/
theorem readMetaVarWith_text (rb : List Char → Option (List Char × List Nat))
    (hrb : ∀ pc nm l, pc ≠ ' ' → ' ' ∉ nm → rb (blockBody pc nm l) = some (nm, l))
    (id : Nat) (specs : List Spec) (hg : ∀ s ∈ specs, s.good) :
    readMetaVarWith rb ((strNat id).toList ++ specsText specs) =
      some (.lists id
        ((((present specs).map fun s => (s.2.1, s.2.2)).lookup "eFresh".toList).getD [])
        ((((present specs).map fun s => (s.2.1, s.2.2)).lookup "sFresh".toList).getD [])
        ((((present specs).map fun s => (s.2.1, s.2.2)).lookup "pos".toList).getD [])
        ((((present specs).map fun s => (s.2.1, s.2.2)).lookup "neg".toList).getD [])
        ((((present specs).map fun s => (s.2.1, s.2.2)).lookup "appctx".toList).getD [])) := by
  have hgP : ∀ s ∈ present specs, s.good := fun s hs => hg s (List.mem_filter.mp hs).1
  have hnl : ∀ b ∈ (present specs).map Spec.body, '\n' ∉ b := by
    intro b hb
    obtain ⟨s, hs, rfl⟩ := List.mem_map.mp hb
    exact nl_not_mem_body s (hgP s hs)
  have hsplit := split_lines '\n' _ hnl
  have hdig : '\n' ∉ (strNat id).toList := not_mem_strNat '\n' (by decide) id
  have hM := mapM_bodies rb hrb (present specs) hgP
  have hF := filter_bodies (present specs)
  unfold readMetaVarWith specsText
  cases hP : present specs with
  | nil =>
    rw [hP] at hsplit
    simp only [List.map_nil, List.nil_append] at hsplit ⊢
    rw [splitAtChar_prefix _ _ _ _ _ hdig hsplit]
    have htd := takeWhile_digits (strNat id).toList [] (strNat_digits id) (by simp)
    simp only [htd.1, htd.2, readNat_strNat]
    simp
  | cons s r =>
    rw [hP] at hsplit hM hF
    simp only [List.map_cons, List.cons_append] at hsplit hF ⊢
    rw [splitAtChar_prefix _ _ _ _ _ hdig hsplit]
    have htd := takeWhile_digits (strNat id).toList s.body (strNat_digits id)
      (body_head s (hgP s (by simp [hP])))
    simp only [htd.1, htd.2, readNat_strNat, hF]
    simp only [List.map_cons] at hM
    simp only [hM]

/-! ## the five blocks of `prettyMetaVarText` -/

/-- the five blocks `metavar` writes, in its order -/
def specs5 (ef sf ps ns hs : List Nat) : List Spec :=
  [('x', "eFresh".toList, ef), ('X', "sFresh".toList, sf), ('X', "pos".toList, ps), ('X', "neg".toList, ns),
    ('x', "appctx".toList, hs)]

theorem good_mk (pc : Char) (nm : List Char) (l : List Nat) (h1 : pc ≠ ' ') (h2 : pc ≠ '\n') (h3 : ' ' ∉ nm)
    (h4 : '\n' ∉ nm) (h5 : nm.head?.all (fun c => !c.isDigit) = true) : Spec.good (pc, nm, l) :=
  ⟨h1, h2, h3, h4, h5⟩

theorem specs5_good (ef sf ps ns hs : List Nat) : ∀ s ∈ specs5 ef sf ps ns hs, s.good := by
  intro s h
  simp only [specs5, List.mem_cons, List.not_mem_nil, or_false] at h
  rcases h with rfl | rfl | rfl | rfl | rfl <;>
    exact good_mk _ _ _ (by decide) (by decide) (by decide) (by decide) (by decide)

theorem specsText_flatMap (specs : List Spec) :
    specsText specs = specs.flatMap fun s => if s.2.2.isEmpty then [] else s.body ++ ['\n'] := by
  unfold specsText present
  induction specs with
  | nil => rfl
  | cons s r ih =>
    obtain ⟨pc, nm, l⟩ := s
    cases l <;> simp [ih]

/-- a block as text, empty list included: nothing is written for an empty list -/
theorem prettyBlock_toList_all (p : String) (pc : Char) (hp : p.toList = [pc]) (nm : String) (l : List Nat) :
    (prettyBlock p nm l).toList = if l.isEmpty then [] else blockBody pc nm.toList l ++ ['\n'] := by
  cases l with
  | nil => rfl
  | cons a r =>
    rw [prettyBlock_toList p pc hp nm (a :: r) (by simp)]
    rfl

/-- the text of a `metavar` step is `MetaVar `, the decimal of the id, and the present blocks -/
theorem prettyMetaVarText_toList (id : Nat) (ef sf ps ns hs : List Nat) :
    (prettyMetaVarText id ef sf ps ns hs).toList =
      "MetaVar".toList ++ ' ' :: ((strNat id).toList ++ specsText (specs5 ef sf ps ns hs)) := by
  rw [specsText_flatMap]
  have e1 := prettyBlock_toList_all "x" 'x' rfl "eFresh" ef
  have e2 := prettyBlock_toList_all "X" 'X' rfl "sFresh" sf
  have e3 := prettyBlock_toList_all "X" 'X' rfl "pos" ps
  have e4 := prettyBlock_toList_all "X" 'X' rfl "neg" ns
  have e5 := prettyBlock_toList_all "x" 'x' rfl "appctx" hs
  have e0 : ("MetaVar " : String).toList = "MetaVar".toList ++ [' '] := by decide
  simp only [prettyMetaVarText, String.toList_append, e0, e1, e2, e3, e4, e5]
  simp only [specs5, List.flatMap_cons, List.flatMap_nil, Spec.body, List.append_assoc, List.append_nil,
    List.cons_append, List.nil_append]

/-- under each of the five names, the present blocks hold the list (`[]` when the block is absent) -/
theorem lookup5 (ef sf ps ns hs : List Nat) :
    ((((present (specs5 ef sf ps ns hs)).map fun s => (s.2.1, s.2.2)).lookup "eFresh".toList).getD []) = ef ∧
    ((((present (specs5 ef sf ps ns hs)).map fun s => (s.2.1, s.2.2)).lookup "sFresh".toList).getD []) = sf ∧
    ((((present (specs5 ef sf ps ns hs)).map fun s => (s.2.1, s.2.2)).lookup "pos".toList).getD []) = ps ∧
    ((((present (specs5 ef sf ps ns hs)).map fun s => (s.2.1, s.2.2)).lookup "neg".toList).getD []) = ns ∧
    ((((present (specs5 ef sf ps ns hs)).map fun s => (s.2.1, s.2.2)).lookup "appctx".toList).getD []) = hs := by
  cases ef <;> cases sf <;> cases ps <;> cases ns <;> cases hs <;> exact ⟨rfl, rfl, rfl, rfl, rfl⟩

/-- the text after `MetaVar `, read by any block reader that reads `blockBody` back -/
theorem readMetaVarWith_pretty (rb : List Char → Option (List Char × List Nat))
    (hrb : ∀ pc nm l, pc ≠ ' ' → ' ' ∉ nm → rb (blockBody pc nm l) = some (nm, l))
    (id : Nat) (ef sf ps ns hs : List Nat) :
    readMetaVarWith rb (afterFirst ' ' (prettyMetaVarText id ef sf ps ns hs).toList) =
      some (.lists id ef sf ps ns hs) := by
  rw [prettyMetaVarText_toList, afterFirst_append _ _ _ (by decide),
    readMetaVarWith_text rb hrb id _ (specs5_good ef sf ps ns hs)]
  obtain ⟨h1, h2, h3, h4, h5⟩ := lookup5 ef sf ps ns hs
  rw [h1, h2, h3, h4, h5]

/-- **the text of a `metavar` step shows the id and the five lists** — all ids, all lists, empty ones included (the
argument of `readMetaVar` is what `readOperand` hands it: the text after the first space, i.e. after `MetaVar `) -/
theorem readMetaVar_prettyMetaVarText (id : Nat) (ef sf ps ns hs : List Nat) :
    readMetaVar (afterFirst ' ' (prettyMetaVarText id ef sf ps ns hs).toList) = some (.lists id ef sf ps ns hs) := by
  rw [readMetaVar_eq_with]
  exact readMetaVarWith_pretty readBlock (fun pc nm l hpc hnm => readBlock_body pc hpc nm hnm l) id ef sf ps ns hs

/-- **the text format of `metavar` is injective**: two calls with the same text are the same call -/
theorem prettyMetaVarText_inj (id id' : Nat) (ef sf ps ns hs ef' sf' ps' ns' hs' : List Nat)
    (h : prettyMetaVarText id ef sf ps ns hs = prettyMetaVarText id' ef' sf' ps' ns' hs') :
    id = id' ∧ ef = ef' ∧ sf = sf' ∧ ps = ps' ∧ ns = ns' ∧ hs = hs' := by
  have := congrArg (fun s => readMetaVar (afterFirst ' ' s.toList)) h
  simpa [readMetaVar_prettyMetaVarText] using this

/-- **every step line shows the operand of the call** — `metavar` included -/
theorem readOperand_stepText_all (σ : Nat → String) (c : PCall) :
    readOperand (stepText σ c).toList = some (pcallOperand c) := by
  cases hc : isMetaVar c with
  | false => exact readOperand_stepText σ c hc
  | true =>
    cases c with
    | metavar id ef sf ps ns hs =>
      unfold readOperand
      rw [step_keyword σ _]
      simp [kw, pcallOperand, metavar_text, readMetaVar_prettyMetaVarText]
    | _ => simp [isMetaVar] at hc

/-! ## the `len=k` field -/

/-- the `len=k` field of a block (its second space-separated piece) -/
def readLen (l : List Char) : Option Nat :=
  match splitAtChar ' ' l with
  | _ :: ('l' :: 'e' :: 'n' :: '=' :: d) :: _ => readNat d
  | _ => none

/-- **the `len=` field of a block is the length of the list** -/
theorem readLen_body (pc : Char) (nm : List Char) (hnm : ' ' ∉ nm) (l : List Nat) :
    readLen (blockBody pc nm l) = some l.length := by
  have h1 : ' ' ∉ nm ++ [','] := by simp [hnm]
  have h2 : ' ' ∉ "len=".toList ++ (strNat l.length).toList := by
    simp only [List.mem_append, not_or]
    exact ⟨by decide, not_mem_strNat ' ' (by decide) _⟩
  unfold readLen blockBody
  rw [splitAtChar_append _ _ _ h1, splitAtChar_append _ _ _ h2]
  have : "len=".toList = ['l', 'e', 'n', '='] := rfl
  simp only [this, List.cons_append, List.nil_append, readNat_strNat]

/-- the block reader that refuses a block whose `len=` field is not the number of its items -/
def readBlockChecked (l : List Char) : Option (List Char × List Nat) :=
  match readBlock l, readLen l with
  | some (nm, is), some k => if k = is.length then some (nm, is) else none
  | _, _ => none

/-- what the checked reader accepts, the unchecked reader reads the same way, and the `len=` field is the length -/
theorem readBlockChecked_sound (l : List Char) (r : List Char × List Nat) (h : readBlockChecked l = some r) :
    readBlock l = some r ∧ readLen l = some r.2.length := by
  unfold readBlockChecked at h
  split at h
  · rename_i nm is k h1 h2
    split at h
    · rename_i hk
      simp only [Option.some.injEq] at h
      subst h
      exact ⟨h1, by rw [h2, hk]⟩
    · simp at h
  · simp at h

theorem readBlockChecked_body (pc : Char) (hpc : pc ≠ ' ') (nm : List Char) (hnm : ' ' ∉ nm) (l : List Nat) :
    readBlockChecked (blockBody pc nm l) = some (nm, l) := by
  simp [readBlockChecked, readBlock_body pc hpc nm hnm l, readLen_body pc nm hnm l]

/-- `readMetaVar` with the checked block reader -/
def readMetaVarChecked : List Char → Option Operand := readMetaVarWith readBlockChecked

/-- `readOperand` with the checked `MetaVar` reader -/
def readOperandChecked (line : List Char) : Option Operand :=
  if keywordOf line = some "MetaVar" then readMetaVarChecked (afterFirst ' ' line) else readOperand line

theorem readMetaVarChecked_prettyMetaVarText (id : Nat) (ef sf ps ns hs : List Nat) :
    readMetaVarChecked (afterFirst ' ' (prettyMetaVarText id ef sf ps ns hs).toList) =
      some (.lists id ef sf ps ns hs) :=
  readMetaVarWith_pretty readBlockChecked (fun pc nm l hpc hnm => readBlockChecked_body pc hpc nm hnm l)
    id ef sf ps ns hs

theorem readOperandChecked_stepText (σ : Nat → String) (c : PCall) :
    readOperandChecked (stepText σ c).toList = some (pcallOperand c) := by
  unfold readOperandChecked
  rw [step_keyword σ c]
  cases c with
  | metavar id ef sf ps ns hs =>
    simp [kw, pcallOperand, metavar_text, readMetaVarChecked_prettyMetaVarText]
  | _ => simp [kw, readOperand_stepText_all]

/-! the two readers on a text whose `len=` field is wrong: the unchecked reader does not look at it -/
example : readOperand "MetaVar 3eFresh, len=5 x1 x2 \n".toList = some (.lists 3 [1, 2] [] [] [] []) := by
  decide +kernel
example : readOperandChecked "MetaVar 3eFresh, len=5 x1 x2 \n".toList = none := by
  decide +kernel
example : readOperandChecked "MetaVar 3eFresh, len=2 x1 x2 \nneg, len=1 X7 \n".toList =
    some (.lists 3 [1, 2] [] [] [7] []) := by
  decide +kernel

end PrettyOperands
