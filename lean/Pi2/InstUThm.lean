import Pi2.Subst
import Pi2.NotationThm
/-!
# `instU` (Rust `instantiate_internal` with the "unchanged" optimisation) = `inst` on shaped patterns
-/
open Pat
namespace Pat

/-! ## `lookupPlug` is `position` then index -/

/-- `lookupPlug` walks both lists; `instU` uses `idxOf?` then `plugs[pos]?`. -/
theorem lookupPlug_eq_idxOf (vars : List VId) (plugs : List Pat) (hlen : vars.length = plugs.length)
    (k : VId) : lookupPlug vars plugs k = (vars.idxOf? k).bind (plugs[·]?) := by
  induction vars generalizing plugs with
  | nil => cases plugs <;> simp [lookupPlug]
  | cons i is ih =>
    cases plugs with
    | nil => simp at hlen
    | cons p ps =>
      have hlen' : is.length = ps.length := by simpa using hlen
      simp only [lookupPlug, List.idxOf?_cons, beq_iff_eq]
      by_cases h : i = k
      · simp [h]
      · simp only [h, if_false, ih ps hlen']
        cases List.idxOf? k is <;> simp

/-- a found position is in bounds of `vars` -/
theorem idxOf_lt (vars : List VId) (k : VId) (pos : Nat) (h : vars.idxOf? k = some pos) :
    pos < vars.length := by
  induction vars generalizing pos with
  | nil => simp at h
  | cons i is ih =>
    simp only [List.idxOf?_cons, beq_iff_eq] at h
    by_cases hik : i = k
    · simp [hik] at h; subst h; simp
    · simp only [hik, if_false] at h
      cases hq : List.idxOf? k is with
      | none => simp [hq] at h
      | some n => simp [hq] at h; subst h; have := ih n hq; simp; omega

/-! ## re-applying a substitution to an unchanged meta-headed shaped node rebuilds the node -/

theorem applyESubst_meta (x : VId) (q p : Pat) (hm : p.isMeta = true) (hs : p.Shape = true) :
    applyESubst x q p = some (esub p x q) := by
  cases p <;> simp_all [isMeta, Shape, applyESubst]

theorem applySSubst_meta (X : VId) (q p : Pat) (hm : p.isMeta = true) (hs : p.Shape = true) :
    applySSubst X q p = some (ssub p X q) := by
  cases p <;> simp_all [isMeta, Shape, applySSubst]

/-- `getD` after wrapping in `some` is the identity -/
theorem map_getD_some (d : Pat) (o : Option Pat) :
    Option.map ((fun a : Option Pat => a.getD d) ∘ some) o = o := by
  cases o <;> rfl

/-! ## the main statement -/

/-- `instantiate_in_place` = the simple model, on the patterns the machine can build -/
theorem instU_eq_inst (vars : List VId) (plugs : List Pat) (hlen : vars.length = plugs.length)
    (p : Pat) (hs : p.Shape = true) :
    (instU vars plugs p).map (·.getD p) = inst (lookupPlug vars plugs) p := by
  induction p with
  | evar x => simp [instU, inst]
  | svar x => simp [instU, inst]
  | sym x => simp [instU, inst]
  | mv id ef sf ps ns holes =>
    simp only [instU, inst, lookupPlug_eq_idxOf vars plugs hlen]
    cases hq : List.idxOf? id vars with
    | none => simp
    | some pos =>
      have hlt : pos < plugs.length := hlen ▸ idxOf_lt vars id pos hq
      simp only [Option.bind_some, List.getElem?_eq_getElem hlt]
      split <;> simp
  | imp l r ihl ihr =>
    simp only [Shape, Bool.and_eq_true] at hs
    simp only [instU, inst, ← ihl hs.1, ← ihr hs.2]
    cases instU vars plugs l with
    | none => simp
    | some a =>
      cases instU vars plugs r with
      | none => simp
      | some b => cases a <;> cases b <;> simp
  | app l r ihl ihr =>
    simp only [Shape, Bool.and_eq_true] at hs
    simp only [instU, inst, ← ihl hs.1, ← ihr hs.2]
    cases instU vars plugs l with
    | none => simp
    | some a =>
      cases instU vars plugs r with
      | none => simp
      | some b => cases a <;> cases b <;> simp
  | ex x p ih =>
    simp only [Shape] at hs
    simp only [instU, inst, ← ih hs]
    cases instU vars plugs p with
    | none => simp
    | some a => cases a <;> simp
  | mu x p ih =>
    simp only [Shape] at hs
    simp only [instU, inst, ← ih hs]
    cases instU vars plugs p with
    | none => simp
    | some a => cases a <;> simp
  | esub p x plug ihp ihq =>
    simp only [Shape, Bool.and_eq_true] at hs
    obtain ⟨⟨hm, hsp⟩, hsq⟩ := hs
    simp only [instU, inst, ← ihp hsp, ← ihq hsq]
    cases instU vars plugs p with
    | none => simp
    | some a =>
      cases instU vars plugs plug with
      | none => simp
      | some b =>
        cases a <;> cases b <;> simp [applyESubst_meta _ _ _ hm hsp, Option.map_map, map_getD_some]
  | ssub p x plug ihp ihq =>
    simp only [Shape, Bool.and_eq_true] at hs
    obtain ⟨⟨hm, hsp⟩, hsq⟩ := hs
    simp only [instU, inst, ← ihp hsp, ← ihq hsq]
    cases instU vars plugs p with
    | none => simp
    | some a =>
      cases instU vars plugs plug with
      | none => simp
      | some b =>
        cases a <;> cases b <;> simp [applySSubst_meta _ _ _ hm hsp, Option.map_map, map_getD_some]

theorem instU_unchanged (vars : List VId) (plugs : List Pat) (hlen : vars.length = plugs.length)
    (p : Pat) (hs : p.Shape = true) :
    instU vars plugs p = some none → inst (lookupPlug vars plugs) p = some p := by
  intro h; rw [← instU_eq_inst vars plugs hlen p hs, h]; rfl

theorem instU_changed (vars : List VId) (plugs : List Pat) (hlen : vars.length = plugs.length)
    (p : Pat) (hs : p.Shape = true) (q : Pat) :
    instU vars plugs p = some (some q) → inst (lookupPlug vars plugs) p = some q := by
  intro h; rw [← instU_eq_inst vars plugs hlen p hs, h]; rfl

theorem instU_panic (vars : List VId) (plugs : List Pat) (hlen : vars.length = plugs.length)
    (p : Pat) (hs : p.Shape = true) :
    instU vars plugs p = none → inst (lookupPlug vars plugs) p = none := by
  intro h; rw [← instU_eq_inst vars plugs hlen p hs, h]; rfl

/-! ## non-vacuity, and `Shape` is needed -/

/-- a shaped `esub` over a metavariable; only the plug is instantiated, the head is "unchanged" and the node is
rebuilt by `applyESubst` -/
example :
    let p := esub (mv 0 [] [] [] [] []) 0 (mv 1 [] [] [] [] [])
    p.Shape = true ∧
    instU [1] [evar 5] (mv 0 [] [] [] [] []) = some none ∧
    instU [1] [evar 5] p = some (some (esub (mv 0 [] [] [] [] []) 0 (evar 5))) ∧
    inst (lookupPlug [1] [evar 5]) p = some (esub (mv 0 [] [] [] [] []) 0 (evar 5)) := by decide

/-- the head metavariable is instantiated: both functions push the substitution into the plug -/
example :
    let p := esub (mv 0 [] [] [] [] []) 0 (mv 1 [] [] [] [] [])
    instU [0, 1] [imp (evar 0) (evar 2), evar 5] p = some (some (imp (evar 5) (evar 2))) ∧
    inst (lookupPlug [0, 1] [imp (evar 0) (evar 2), evar 5]) p = some (imp (evar 5) (evar 2)) := by decide

/-- nothing to instantiate: `instU` says "unchanged", `inst` rebuilds the same node -/
example :
    let p := ssub (esub (mv 0 [] [] [] [] []) 0 (evar 1)) 2 (svar 3)
    p.Shape = true ∧ instU [7] [sym 0] p = some none ∧ inst (lookupPlug [7] [sym 0]) p = some p := by decide

/-- a violated constraint panics in both -/
example :
    let p := imp (sym 0) (mv 0 [] [] [2] [] [])
    p.Shape = true ∧ instU [0] [imp (svar 2) (sym 0)] p = none ∧
      inst (lookupPlug [0] [imp (svar 2) (sym 0)]) p = none := by decide

/-- `Shape` is needed: on a substitution node with a concrete head the Rust code returns the node unchanged, `inst`
pushes the substitution in -/
example :
    let p := esub (evar 0) 0 (evar 1)
    p.Shape = false ∧
    (instU [] [] p).map (·.getD p) = some p ∧ inst (lookupPlug [] []) p = some (evar 1) ∧
    (instU [] [] p).map (·.getD p) ≠ inst (lookupPlug [] []) p := by decide

/-- `vars.length = plugs.length` is needed: a found position past the end of `plugs` is a Rust panic, `lookupPlug`
reports "not bound" -/
example :
    let p := mv 0 [] [] [] [] []
    p.Shape = true ∧ instU [0] [] p = none ∧ inst (lookupPlug [0] []) p = some p := by decide

end Pat

#print axioms Pat.instU_unchanged
#print axioms Pat.instU_changed
#print axioms Pat.instU_panic
#print axioms Pat.instU_eq_inst
