import Pi2.Lemma
/-!
# The derived-rule libraries: proof trees, homomorphism, stability under instantiation

* `algG : Alg GTh` — the algebra of proof trees (`Pf`) carrying their meaning (`Pf.Sem`); it agrees with the
  conclusion-only algebra `algC` on conclusions (L0).
* `sem_hom` — the semantic functions of any list of definitions over `algG` project, by `GTh.conc`, onto the
  semantic functions over `algC` (L1): one induction over the language and over the list of definitions.
* `sem_stable` — over `algC`, a successful run stays successful under any instantiation of the arguments
  and premise conclusions, and returns the instantiated conclusion (L2), for well-formed definitions
  (`Def.wf`, decidable).

Core Lean only.
-/
open Pat

namespace Lem

/-! ## L0 — patterns without substitution nodes whose metavariables are clean `phi i`, `i < n` -/

/-- no `esub`/`ssub` node; every metavariable is `phi i` with `i < n` -/
def Simple (n : Nat) : Pat → Bool
  | .evar _ => true | .svar _ => true | .sym _ => true
  | .imp l r => Simple n l && Simple n r
  | .app l r => Simple n l && Simple n r
  | .ex _ p => Simple n p
  | .mu _ p => Simple n p
  | .mv id ef sf ps ns hs =>
      decide (id < n) && ef.isEmpty && sf.isEmpty && ps.isEmpty && ns.isEmpty && hs.isEmpty
  | .esub .. => false
  | .ssub .. => false

theorem simple_mv {n id : Nat} {ef sf ps ns hs : List VId} (h : Simple n (.mv id ef sf ps ns hs) = true) :
    id < n ∧ Pat.mv id ef sf ps ns hs = phi id := by
  simp only [Simple, Bool.and_eq_true, decide_eq_true_eq, List.isEmpty_iff] at h
  obtain ⟨⟨⟨⟨⟨h1, h2⟩, h3⟩, h4⟩, h5⟩, h6⟩ := h
  subst h2 h3 h4 h5 h6
  exact ⟨h1, rfl⟩

theorem ofPat_expand : (p : Pat) → (NPat.ofPat p).expand = p
  | .evar _ => rfl | .svar _ => rfl | .sym _ => rfl
  | .imp l r => by simp only [NPat.ofPat, NPat.expand, ofPat_expand l, ofPat_expand r]
  | .app l r => by simp only [NPat.ofPat, NPat.expand, ofPat_expand l, ofPat_expand r]
  | .ex _ p => by simp only [NPat.ofPat, NPat.expand, ofPat_expand p]
  | .mu _ p => by simp only [NPat.ofPat, NPat.expand, ofPat_expand p]
  | .mv .. => rfl
  | .esub p _ q => by simp only [NPat.ofPat, NPat.expand, ofPat_expand p, ofPat_expand q]
  | .ssub p _ q => by simp only [NPat.ofPat, NPat.expand, ofPat_expand p, ofPat_expand q]

theorem expandMap_ofPat (δ : List (Nat × Pat)) :
    NPat.expand.expandMap (δ.map fun (i, p) => (i, NPat.ofPat p)) = δ := by
  induction δ with
  | nil => rfl
  | cons kv r ih =>
    obtain ⟨k, v⟩ := kv
    simp only [List.map_cons, NPat.expand.expandMap, ofPat_expand, ih]

/-- instantiating with the empty map does nothing on simple patterns -/
theorem inst_none_simple (n : Nat) : (A : Pat) → Simple n A = true → Py.inst (fun _ => none) A = A
  | .evar _, _ => rfl | .svar _, _ => rfl | .sym _, _ => rfl
  | .imp l r, h => by
      simp only [Simple, Bool.and_eq_true] at h
      simp only [Py.inst, inst_none_simple n l h.1, inst_none_simple n r h.2]
  | .app l r, h => by
      simp only [Simple, Bool.and_eq_true] at h
      simp only [Py.inst, inst_none_simple n l h.1, inst_none_simple n r h.2]
  | .ex _ p, h => by
      simp only [Simple] at h
      simp only [Py.inst, inst_none_simple n p h]
  | .mu _ p, h => by
      simp only [Simple] at h
      simp only [Py.inst, inst_none_simple n p h]
  | .mv .., _ => rfl
  | .esub .., h => by simp [Simple] at h
  | .ssub .., h => by simp [Simple] at h

theorem instP_nil_simple (n : Nat) (A : Pat) (h : Simple n A = true) : instP [] A = A := by
  have : Py.lookup ([] : List (Nat × Pat)) = fun _ => none := by funext i; rfl
  unfold instP
  rw [this]
  exact inst_none_simple n A h

/-- what `instantiate(_build_subst(ps))` does to the metavariable `phi i` -/
theorem lookup_buildSubst_aux (ps : List Pat) : ∀ (k i : Nat),
    (match Py.lookup (((List.range' k ps.length).zip ps).filter fun (j, p) => p != phi j) i with
      | some q => q | none => phi i) =
    if k ≤ i then (ps[i - k]?).getD (phi i) else phi i := by
  induction ps with
  | nil => intro k i; simp [Py.lookup]
  | cons p ps ih =>
    intro k i
    have hr : List.range' k (p :: ps).length = k :: List.range' (k + 1) ps.length := by
      simp [List.range'_succ]
    rw [hr, List.zip_cons_cons, List.filter_cons]
    have hih := ih (k + 1) i
    by_cases hk : k = i
    · subst hk
      have h0 : ¬ (k + 1 ≤ k) := by omega
      rw [if_neg h0] at hih
      by_cases hp : p = phi k
      · subst hp
        simp only [bne_self_eq_false, Bool.false_eq_true, if_false]
        rw [hih]
        simp
      · have : (p != phi k) = true := by simpa using hp
        simp only [this, if_true, Py.lookup]
        simp
    · have hki : (k ≤ i) ↔ (k + 1 ≤ i) := by omega
      have hget : (p :: ps)[i - k]? = ps[i - (k + 1)]? ∨ ¬ k ≤ i := by
        by_cases hle : k ≤ i
        · left
          have : i - k = (i - (k + 1)) + 1 := by omega
          rw [this, List.getElem?_cons_succ]
        · right; exact hle
      have hgoal : (match Py.lookup (((List.range' (k + 1) ps.length).zip ps).filter
            fun (j, p) => p != phi j) i with | some q => q | none => phi i) =
          if k ≤ i then ((p :: ps)[i - k]?).getD (phi i) else phi i := by
        rw [hih]
        by_cases hle : k ≤ i
        · rw [if_pos hle, if_pos (hki.1 hle)]
          rcases hget with hget | hget
          · rw [hget]
          · exact absurd hle hget
        · rw [if_neg hle, if_neg (fun h => hle (hki.2 h))]
      by_cases hp : (p != phi k) = true
      · simp only [hp, if_true, Py.lookup, if_neg hk]
        exact hgoal
      · simp only [hp, Bool.false_eq_true, if_false]
        exact hgoal

theorem lookup_buildSubst (ps : List Pat) (i : Nat) :
    (match Py.lookup (buildSubst ps) i with | some q => q | none => phi i) = (ps[i]?).getD (phi i) := by
  have := lookup_buildSubst_aux ps 0 i
  simp only [Nat.zero_le, if_true, Nat.sub_zero] at this
  unfold buildSubst
  rw [List.range_eq_range']
  exact this

/-- the general lemma: on a pattern whose metavariables are clean `phi i`, `i < n = |ps|`, the substitution
built by `_build_subst` (identity entries dropped) instantiates like the full list of arguments -/
theorem instP_buildSubst (ps : List Pat) : (A : Pat) → Simple ps.length A = true →
    instP (buildSubst ps) A = Py.inst (fun i => ps[i]?) A
  | .evar _, _ => rfl | .svar _, _ => rfl | .sym _, _ => rfl
  | .imp l r, h => by
      simp only [Simple, Bool.and_eq_true] at h
      have h1 := instP_buildSubst ps l h.1
      have h2 := instP_buildSubst ps r h.2
      unfold instP at *
      simp only [Py.inst, h1, h2]
  | .app l r, h => by
      simp only [Simple, Bool.and_eq_true] at h
      have h1 := instP_buildSubst ps l h.1
      have h2 := instP_buildSubst ps r h.2
      unfold instP at *
      simp only [Py.inst, h1, h2]
  | .ex _ p, h => by
      simp only [Simple] at h
      have h1 := instP_buildSubst ps p h
      unfold instP at *
      simp only [Py.inst, h1]
  | .mu _ p, h => by
      simp only [Simple] at h
      have h1 := instP_buildSubst ps p h
      unfold instP at *
      simp only [Py.inst, h1]
  | .mv id ef sf qs ns hs, h => by
      obtain ⟨hlt, he⟩ := simple_mv h
      rw [he]
      have := lookup_buildSubst ps id
      unfold instP
      show (match Py.lookup (buildSubst ps) id with | some q => q | none => phi id) =
        (match ps[id]? with | some q => q | none => phi id)
      rw [this]
      cases ps[id]? <;> rfl
  | .esub .., h => by simp [Simple] at h
  | .ssub .., h => by simp [Simple] at h

/-- instantiation commutes with the instantiation by a full argument list -/
theorem inst_args_comm (σ : Pat → Pat)
    (himp : ∀ a b, σ (.imp a b) = .imp (σ a) (σ b)) (happ : ∀ a b, σ (.app a b) = .app (σ a) (σ b))
    (hex : ∀ x a, σ (.ex x a) = .ex x (σ a)) (hmu : ∀ x a, σ (.mu x a) = .mu x (σ a))
    (hev : ∀ x, σ (.evar x) = .evar x) (hsv : ∀ x, σ (.svar x) = .svar x) (hsy : ∀ x, σ (.sym x) = .sym x)
    (ps : List Pat) : (A : Pat) → Simple ps.length A = true →
    σ (Py.inst (fun i => ps[i]?) A) = Py.inst (fun i => (ps.map σ)[i]?) A
  | .evar _, _ => hev _ | .svar _, _ => hsv _ | .sym _, _ => hsy _
  | .imp l r, h => by
      simp only [Simple, Bool.and_eq_true] at h
      simp only [Py.inst, himp, inst_args_comm σ himp happ hex hmu hev hsv hsy ps l h.1,
        inst_args_comm σ himp happ hex hmu hev hsv hsy ps r h.2]
  | .app l r, h => by
      simp only [Simple, Bool.and_eq_true] at h
      simp only [Py.inst, happ, inst_args_comm σ himp happ hex hmu hev hsv hsy ps l h.1,
        inst_args_comm σ himp happ hex hmu hev hsv hsy ps r h.2]
  | .ex _ p, h => by
      simp only [Simple] at h
      simp only [Py.inst, hex, inst_args_comm σ himp happ hex hmu hev hsv hsy ps p h]
  | .mu _ p, h => by
      simp only [Simple] at h
      simp only [Py.inst, hmu, inst_args_comm σ himp happ hex hmu hev hsv hsy ps p h]
  | .mv id ef sf qs ns hs, h => by
      obtain ⟨hlt, he⟩ := simple_mv h
      rw [he]
      show σ (match ps[id]? with | some q => q | none => phi id) =
        (match (ps.map σ)[id]? with | some q => q | none => phi id)
      rw [List.getElem?_map, List.getElem?_eq_getElem hlt]
      rfl
  | .esub .., h => by simp [Simple] at h
  | .ssub .., h => by simp [Simple] at h

/-! ## L0 — the proof-tree algebra -/

/-- `dynamic_inst(pf, delta)` means the instance -/
theorem sem_dyn {pf : Pf} {A : Pat} (δ : List (Nat × Pat)) (h : Pf.Sem pf A) (hA : instP [] A = A) :
    Pf.Sem (dyn pf δ) (instP δ A) := by
  unfold dyn
  cases δ with
  | nil => simp only [List.isEmpty_nil, if_true, hA]; exact h
  | cons kv r =>
    simp only [List.isEmpty_cons, Bool.false_eq_true, if_false]
    have := Pf.Sem.dynInst (δ := (kv :: r).map fun (i, p) => (i, NPat.ofPat p)) h
    rw [expandMap_ofPat] at this
    exact this

theorem prop1N_expand : PySt.prop1N.expand = .imp (phi 0) (.imp (phi 1) (phi 0)) := rfl
theorem prop2N_expand : PySt.prop2N.expand =
    .imp (.imp (phi 0) (.imp (phi 1) (phi 2))) (.imp (.imp (phi 0) (phi 1)) (.imp (phi 0) (phi 2))) := rfl
theorem prop3N_expand : PySt.prop3N.expand = .imp (negP (negP (phi 0))) (phi 0) := rfl

theorem inst_phi (δ : Nat → Option Pat) (i : Nat) :
    Py.inst δ (phi i) = match δ i with | some q => q | none => phi i := rfl

theorem inst_botP (δ : Nat → Option Pat) : Py.inst δ botP = botP := rfl

theorem sem_prop1 (p q : Pat) : Pf.Sem (dyn .prop1 (buildSubst [p, q])) (.imp p (.imp q p)) := by
  have h := sem_dyn (buildSubst [p, q]) Pf.Sem.prop1 (instP_nil_simple 2 _ (by decide))
  rw [instP_buildSubst [p, q] _ (by show Simple 2 _ = true; decide), prop1N_expand] at h
  exact h

theorem sem_prop2 (p q r : Pat) : Pf.Sem (dyn .prop2 (buildSubst [p, q, r]))
    (.imp (.imp p (.imp q r)) (.imp (.imp p q) (.imp p r))) := by
  have h := sem_dyn (buildSubst [p, q, r]) Pf.Sem.prop2 (instP_nil_simple 3 _ (by decide))
  rw [instP_buildSubst [p, q, r] _ (by show Simple 3 _ = true; decide), prop2N_expand] at h
  exact h

theorem sem_prop3 (p : Pat) : Pf.Sem (dyn .prop3 (buildSubst [p])) (.imp (negP (negP p)) p) := by
  have h := sem_dyn (buildSubst [p]) Pf.Sem.prop3 (instP_nil_simple 1 _ (by decide))
  rw [instP_buildSubst [p] _ (by show Simple 1 _ = true; decide), prop3N_expand] at h
  exact h

/-- all six axioms of the `Tautology` module have exactly the clean metavariables `phi 0, phi 1, phi 2` -/
theorem tautAxioms_simple : ∀ A ∈ tautAxioms, Simple 3 A = true := by decide

theorem tautAxioms_getElem_simple {i : Nat} {A : Pat} (h : tautAxioms[i]? = some A) : Simple 3 A = true :=
  tautAxioms_simple A (List.mem_of_getElem? h)

theorem sem_axiomInst {i : Nat} {A : Pat} (h : tautAxioms[i]? = some A) (ps : List Pat) :
    Pf.Sem (dyn (.loadAxiom (NPat.ofPat A)) (buildSubst ps)) (instP (buildSubst ps) A) := by
  have h0 : Pf.Sem (.loadAxiom (NPat.ofPat A)) A := by
    have := Pf.Sem.loadAxiom (a := NPat.ofPat A)
    rw [ofPat_expand] at this
    exact this
  exact sem_dyn (buildSubst ps) h0 (instP_nil_simple 3 A (tautAxioms_getElem_simple h))

/-- `ProofExp.modus_ponens(l, r)`: `p, q = Implies.extract(l.conc); assert p == r.conc` -/
def mpG : GTh → GTh → Option GTh
  | ⟨pl, .imp a b, okl⟩, r =>
      if h : a = r.conc then some ⟨.mp pl r.pf, b, Pf.Sem.mp okl (h ▸ r.ok)⟩ else none
  | _, _ => none

def axiomInstG (i : Nat) (ps : List Pat) : Option GTh :=
  match h : tautAxioms[i]? with
  | some A => some ⟨dyn (.loadAxiom (NPat.ofPat A)) (buildSubst ps), instP (buildSubst ps) A, sem_axiomInst h ps⟩
  | none => none

/-- the proof trees the Python code builds, with the evidence that they mean their conclusions -/
def algG : Alg GTh where
  conc := GTh.conc
  mp := mpG
  prop1 p q := ⟨dyn .prop1 (buildSubst [p, q]), .imp p (.imp q p), sem_prop1 p q⟩
  prop2 p q r := ⟨dyn .prop2 (buildSubst [p, q, r]),
    .imp (.imp p (.imp q r)) (.imp (.imp p q) (.imp p r)), sem_prop2 p q r⟩
  prop3 p := ⟨dyn .prop3 (buildSubst [p]), .imp (negP (negP p)) p, sem_prop3 p⟩
  axiomInst := axiomInstG

/-! agreement with `algC` on conclusions -/

theorem algG_conc (t : GTh) : algC.conc (algG.conc t) = t.conc := rfl
theorem algG_prop1 (p q : Pat) : (algG.prop1 p q).conc = algC.prop1 p q := rfl
theorem algG_prop2 (p q r : Pat) : (algG.prop2 p q r).conc = algC.prop2 p q r := rfl
theorem algG_prop3 (p : Pat) : (algG.prop3 p).conc = algC.prop3 p := rfl

theorem algG_mp (l r : GTh) : (algG.mp l r).map GTh.conc = algC.mp l.conc r.conc := by
  obtain ⟨pl, cl, okl⟩ := l
  show (mpG ⟨pl, cl, okl⟩ r).map GTh.conc = mpC cl r.conc
  cases cl <;> try rfl
  rename_i a b
  simp only [mpG, mpC]
  by_cases h : a = r.conc
  · simp only [dif_pos h, if_pos h, Option.map_some]
  · simp only [dif_neg h, if_neg h, Option.map_none]

theorem algG_axiomInst (i : Nat) (ps : List Pat) :
    (algG.axiomInst i ps).map GTh.conc = algC.axiomInst i ps := by
  show (axiomInstG i ps).map GTh.conc = (tautAxioms[i]?).map (instP (buildSubst ps))
  unfold axiomInstG
  split
  · rename_i A h
    have e : (tautAxioms[i]?).map (instP (buildSubst ps)) = some (instP (buildSubst ps) A) := by
      rw [h]; rfl
    rw [e]; rfl
  · rename_i h
    have e : (tautAxioms[i]?).map (instP (buildSubst ps)) = none := by rw [h]; rfl
    rw [e]; rfl

/-- the tree of `algG.mp` and the trees of the schema instances, as the Python code builds them -/
theorem algG_mp_pf (l r t : GTh) (h : algG.mp l r = some t) : t.pf = .mp l.pf r.pf := by
  obtain ⟨pl, cl, okl⟩ := l
  change mpG ⟨pl, cl, okl⟩ r = some t at h
  cases cl <;> try (simp [mpG] at h; done)
  rename_i a b
  simp only [mpG] at h
  by_cases hab : a = r.conc
  · simp only [dif_pos hab, Option.some.injEq] at h
    subst h; rfl
  · simp [dif_neg hab] at h

theorem algG_prop1_pf (p q : Pat) : (algG.prop1 p q).pf = dyn .prop1 (buildSubst [p, q]) := rfl
theorem algG_prop2_pf (p q r : Pat) : (algG.prop2 p q r).pf = dyn .prop2 (buildSubst [p, q, r]) := rfl
theorem algG_prop3_pf (p : Pat) : (algG.prop3 p).pf = dyn .prop3 (buildSubst [p]) := rfl
theorem algG_axiomInst_pf (i : Nat) (ps : List Pat) (A : Pat) (t : GTh) (hA : tautAxioms[i]? = some A)
    (h : algG.axiomInst i ps = some t) : t.pf = dyn (.loadAxiom (NPat.ofPat A)) (buildSubst ps) := by
  change axiomInstG i ps = some t at h
  unfold axiomInstG at h
  split at h
  · rename_i A' h'
    rw [hA] at h'
    cases h'
    simp only [Option.some.injEq] at h
    subst h; rfl
  · simp at h

/-! ## L1 — the homomorphism `GTh.conc : algG → algC` -/

theorem sem_go_length {τ} (A : Alg τ) : ∀ (ds : List Def) (acc : List (Fun τ)),
    (sem.go A acc ds).length = acc.length + ds.length := by
  intro ds
  induction ds with
  | nil => intro acc; rfl
  | cons d ds ih =>
    intro acc
    simp only [sem.go, ih, List.length_append, List.length_cons, List.length_nil]
    omega

theorem sem_length {τ} (A : Alg τ) (defs : List Def) : (sem A defs).length = defs.length := by
  cases defs with
  | nil => rfl
  | cons d ds =>
    simp only [sem, sem_go_length, List.length_cons, List.length_nil]
    omega

theorem evalPE_hom (ps : List Pat) (ts : List GTh) : (e : PE) →
    evalPE algG ps ts e = evalPE algC ps (ts.map GTh.conc) e
  | .pvar _ => rfl
  | .mv _ => rfl
  | .imp a b => by simp only [evalPE, evalPE_hom ps ts a, evalPE_hom ps ts b]
  | .bot => rfl
  | .neg a => by simp only [evalPE, evalPE_hom ps ts a]
  | .top => rfl
  | .and a b => by simp only [evalPE, evalPE_hom ps ts a, evalPE_hom ps ts b]
  | .or a b => by simp only [evalPE, evalPE_hom ps ts a, evalPE_hom ps ts b]
  | .equiv a b => by simp only [evalPE, evalPE_hom ps ts a, evalPE_hom ps ts b]
  | .concOf t => by
      simp only [evalPE, List.getElem?_map]
      cases ts[t]? <;> rfl

theorem evalPEs_hom (ps : List Pat) (ts : List GTh) : (es : List PE) →
    evalPEs algG ps ts es = evalPEs algC ps (ts.map GTh.conc) es
  | [] => rfl
  | e :: es => by simp only [evalPEs, evalPE_hom ps ts e, evalPEs_hom ps ts es]

/-- a semantic function on proof trees projects onto one on conclusions -/
def HomF (f : Fun GTh) (g : Fun Pat) : Prop :=
  ∀ ps ts, (f ps ts).map GTh.conc = g ps (ts.map GTh.conc)

def HomFs (fG : List (Fun GTh)) (fC : List (Fun Pat)) : Prop :=
  fG.length = fC.length ∧ ∀ (i : Nat) f g, fG[i]? = some f → fC[i]? = some g → HomF f g

theorem HomFs.nil : HomFs [] [] := ⟨rfl, by intro i f g h; simp at h⟩

theorem HomFs.snoc {fG : List (Fun GTh)} {fC : List (Fun Pat)} {f : Fun GTh} {g : Fun Pat}
    (h : HomFs fG fC) (hf : HomF f g) : HomFs (fG ++ [f]) (fC ++ [g]) := by
  refine ⟨by simp [h.1], ?_⟩
  intro i f' g' h1 h2
  by_cases hi : i < fG.length
  · rw [List.getElem?_append_left hi] at h1
    rw [List.getElem?_append_left (h.1 ▸ hi)] at h2
    exact h.2 i f' g' h1 h2
  · have hi' : fG.length ≤ i := Nat.le_of_not_lt hi
    rw [List.getElem?_append_right hi'] at h1
    rw [List.getElem?_append_right (h.1 ▸ hi')] at h2
    have hlt : i - fG.length < 1 := by
      have := (List.getElem?_eq_some_iff.1 h1).1
      simpa using this
    have h0 : i - fG.length = 0 := by omega
    rw [h0] at h1
    rw [← h.1, h0] at h2
    simp only [List.getElem?_cons_zero, Option.some.injEq] at h1 h2
    subst h1 h2
    exact hf

theorem HomFs.get {fG : List (Fun GTh)} {fC : List (Fun Pat)} (h : HomFs fG fC) (i : Nat) :
    (fG[i]? = none ∧ fC[i]? = none) ∨ ∃ f g, fG[i]? = some f ∧ fC[i]? = some g ∧ HomF f g := by
  by_cases hi : i < fG.length
  · right
    have hi' : i < fC.length := h.1 ▸ hi
    exact ⟨fG[i], fC[i], List.getElem?_eq_getElem hi, List.getElem?_eq_getElem hi',
      h.2 i _ _ (List.getElem?_eq_getElem hi) (List.getElem?_eq_getElem hi')⟩
  · left
    have hi' : fG.length ≤ i := Nat.le_of_not_lt hi
    exact ⟨List.getElem?_eq_none hi', List.getElem?_eq_none (h.1 ▸ hi')⟩

theorem getElem?_map_conc (ts : List GTh) (j : Nat) :
    (ts[j]?).map GTh.conc = (ts.map GTh.conc)[j]? := by
  rw [List.getElem?_map]

mutual
theorem evalTE_hom {fG : List (Fun GTh)} {fC : List (Fun Pat)} (hF : HomFs fG fC)
    (ps : List Pat) (ts : List GTh) : (e : TE) →
    (evalTE algG fG ps ts e).map GTh.conc = evalTE algC fC ps (ts.map GTh.conc) e
  | .tvar j => by simp only [evalTE]; exact getElem?_map_conc ts j
  | .call f pes tes => by
      have ih := evalTEs_hom hF ps ts tes
      simp only [evalTE, Option.bind_eq_bind, evalPEs_hom ps ts pes]
      rcases hF.get f with ⟨h1, h2⟩ | ⟨f', g', h1, h2, hfg⟩
      · rw [h1, h2]; rfl
      · rw [h1, h2]
        simp only [Option.bind_some]
        cases evalPEs algC ps (ts.map GTh.conc) pes with
        | none => rfl
        | some pa =>
          simp only [Option.bind_some]
          rw [← ih]
          cases evalTEs algG fG ps ts tes with
          | none => rfl
          | some ta => exact hfg pa ta
  | .mp l r => by
      have ihl := evalTE_hom hF ps ts l
      have ihr := evalTE_hom hF ps ts r
      simp only [evalTE, Option.bind_eq_bind]
      rw [← ihl, ← ihr]
      cases evalTE algG fG ps ts l with
      | none => rfl
      | some tl =>
        cases evalTE algG fG ps ts r with
        | none => rfl
        | some tr => exact algG_mp tl tr
  | .prop1 p q => by
      simp only [evalTE, Option.bind_eq_bind, Option.pure_def, evalPE_hom ps ts p, evalPE_hom ps ts q]
      cases evalPE algC ps (ts.map GTh.conc) p with
      | none => rfl
      | some a => cases evalPE algC ps (ts.map GTh.conc) q <;> rfl
  | .prop2 p q r => by
      simp only [evalTE, Option.bind_eq_bind, Option.pure_def, evalPE_hom ps ts p, evalPE_hom ps ts q,
        evalPE_hom ps ts r]
      cases evalPE algC ps (ts.map GTh.conc) p with
      | none => rfl
      | some a =>
        cases evalPE algC ps (ts.map GTh.conc) q with
        | none => rfl
        | some b => cases evalPE algC ps (ts.map GTh.conc) r <;> rfl
  | .prop3 p => by
      simp only [evalTE, Option.bind_eq_bind, Option.pure_def, evalPE_hom ps ts p]
      cases evalPE algC ps (ts.map GTh.conc) p <;> rfl
  | .axiomInst i pes => by
      simp only [evalTE, Option.bind_eq_bind, evalPEs_hom ps ts pes]
      cases evalPEs algC ps (ts.map GTh.conc) pes with
      | none => rfl
      | some pa => exact algG_axiomInst i pa
theorem evalTEs_hom {fG : List (Fun GTh)} {fC : List (Fun Pat)} (hF : HomFs fG fC)
    (ps : List Pat) (ts : List GTh) : (es : List TE) →
    (evalTEs algG fG ps ts es).map (List.map GTh.conc) = evalTEs algC fC ps (ts.map GTh.conc) es
  | [] => rfl
  | e :: es => by
      have ih1 := evalTE_hom hF ps ts e
      have ih2 := evalTEs_hom hF ps ts es
      simp only [evalTEs, Option.bind_eq_bind, Option.pure_def]
      rw [← ih1, ← ih2]
      cases evalTE algG fG ps ts e with
      | none => rfl
      | some t => cases evalTEs algG fG ps ts es <;> rfl
end

/-- the projection of environments -/
def projEnv (x : List Pat × List GTh) : List Pat × List Pat := (x.1, x.2.map GTh.conc)

theorem evalBody_hom {fG : List (Fun GTh)} {fC : List (Fun Pat)} (hF : HomFs fG fC) :
    ∀ (body : List Stmt) (ps : List Pat) (ts : List GTh),
    (evalBody algG fG ps ts body).map projEnv = evalBody algC fC ps (ts.map GTh.conc) body := by
  intro body
  induction body with
  | nil => intro ps ts; rfl
  | cons st r ih =>
    intro ps ts
    cases st with
    | letP e =>
      simp only [evalBody, Option.bind_eq_bind, evalPE_hom ps ts e]
      cases evalPE algC ps (ts.map GTh.conc) e with
      | none => rfl
      | some a => exact ih _ _
    | letT e =>
      simp only [evalBody, Option.bind_eq_bind]
      rw [← evalTE_hom hF ps ts e]
      cases evalTE algG fG ps ts e with
      | none => rfl
      | some t =>
        simp only [Option.map_some, Option.bind_some]
        have := ih ps (ts ++ [t])
        rw [List.map_append] at this
        exact this
    | extractImp e =>
      simp only [evalBody, Option.bind_eq_bind, evalPE_hom ps ts e]
      cases evalPE algC ps (ts.map GTh.conc) e with
      | none => rfl
      | some a =>
        simp only [Option.bind_some]
        cases a <;> first | rfl | exact ih _ _
    | matchNot n e =>
      simp only [evalBody, Option.bind_eq_bind, evalPE_hom ps ts e]
      cases evalPE algC ps (ts.map GTh.conc) e with
      | none => rfl
      | some a =>
        simp only [Option.bind_some]
        cases matchNotn n a with
        | none => rfl
        | some xs => exact ih _ _
    | assertEq a b =>
      simp only [evalBody, Option.bind_eq_bind, evalPE_hom ps ts a, evalPE_hom ps ts b]
      cases evalPE algC ps (ts.map GTh.conc) a with
      | none => rfl
      | some x =>
        cases evalPE algC ps (ts.map GTh.conc) b with
        | none => rfl
        | some y =>
          simp only [Option.bind_some]
          by_cases hxy : x = y
          · simp only [if_pos hxy]; exact ih _ _
          · simp only [if_neg hxy]; rfl

theorem evalDef_hom {fG : List (Fun GTh)} {fC : List (Fun Pat)} (hF : HomFs fG fC) (d : Def) :
    HomF (evalDef algG fG d) (evalDef algC fC d) := by
  intro ps ts
  simp only [evalDef, List.length_map]
  by_cases hl : ps.length = d.nP ∧ ts.length = d.nT
  · simp only [if_pos hl, Option.bind_eq_bind]
    rw [← evalBody_hom hF d.body ps ts]
    cases evalBody algG fG ps ts d.body with
    | none => rfl
    | some x =>
      obtain ⟨ps', ts'⟩ := x
      exact evalTE_hom hF ps' ts' d.ret
  · simp only [if_neg hl]; rfl

theorem sem_go_hom : ∀ (ds : List Def) {aG : List (Fun GTh)} {aC : List (Fun Pat)},
    HomFs aG aC → HomFs (sem.go algG aG ds) (sem.go algC aC ds) := by
  intro ds
  induction ds with
  | nil => intro aG aC h; exact h
  | cons d ds ih =>
    intro aG aC h
    exact ih (h.snoc (evalDef_hom h d))

theorem sem_homFs (defs : List Def) : HomFs (sem algG defs) (sem algC defs) := by
  cases defs with
  | nil => exact HomFs.nil
  | cons d ds =>
    have h1 : HomFs [evalDef algG [] d] [evalDef algC [] d] :=
      HomFs.nil.snoc (evalDef_hom HomFs.nil d)
    exact sem_go_hom ds h1

/-- **L1.** For every list of definitions, the semantic function of entry `i` on proof trees projects, by
`GTh.conc`, onto the semantic function on conclusions. -/
theorem sem_hom (defs : List Def) (i : Nat) (ps : List Pat) (ts : List GTh) :
    (match (sem algG defs)[i]? with | some f => (f ps ts).map GTh.conc | none => none) =
    (match (sem algC defs)[i]? with | some g => g ps (ts.map GTh.conc) | none => none) := by
  rcases (sem_homFs defs).get i with ⟨h1, h2⟩ | ⟨f, g, h1, h2, hfg⟩
  · rw [h1, h2]
  · rw [h1, h2]; exact hfg ps ts

/-- the same, entry by entry -/
theorem sem_hom_get (defs : List Def) (i : Nat) (g : Fun Pat) (hg : (sem algC defs)[i]? = some g) :
    ∃ f, (sem algG defs)[i]? = some f ∧ HomF f g := by
  rcases (sem_homFs defs).get i with ⟨_, h2⟩ | ⟨f, g', h1, h2, hfg⟩
  · rw [h2] at hg; cases hg
  · rw [h2] at hg; cases hg; exact ⟨f, h1, hfg⟩

/-- every theorem returned by a library function carries the evidence for its conclusion -/
theorem sem_sound (defs : List Def) (i : Nat) (f : Fun GTh) (_hf : (sem algG defs)[i]? = some f)
    (ps : List Pat) (ts : List GTh) (th : GTh) (_h : f ps ts = some th) : Pf.Sem th.pf th.conc := th.ok

/-! ## L2 — stability under instantiation -/

/-- no `PE.mv` (the translated bodies never mention a metavariable of their own) -/
def PE.wf : PE → Bool
  | .pvar _ => true
  | .mv _ => false
  | .imp a b => a.wf && b.wf
  | .bot => true
  | .neg a => a.wf
  | .top => true
  | .and a b => a.wf && b.wf
  | .or a b => a.wf && b.wf
  | .equiv a b => a.wf && b.wf
  | .concOf _ => true

mutual
/-- no `PE.mv`; every instantiated axiom is one of the six and gets exactly three arguments -/
def TE.wf : TE → Bool
  | .tvar _ => true
  | .call _ ps ts => ps.all PE.wf && TE.wfs ts
  | .mp l r => l.wf && r.wf
  | .prop1 p q => p.wf && q.wf
  | .prop2 p q r => p.wf && q.wf && r.wf
  | .prop3 p => p.wf
  | .axiomInst i ps => decide (i < tautAxioms.length) && ps.length == 3 && ps.all PE.wf
def TE.wfs : List TE → Bool
  | [] => true
  | e :: es => e.wf && TE.wfs es
end

def Stmt.wf : Stmt → Bool
  | .letP e => e.wf
  | .letT e => e.wf
  | .extractImp e => e.wf
  | .matchNot _ e => e.wf
  | .assertEq a b => a.wf && b.wf

def Def.wf (d : Def) : Bool := d.body.all Stmt.wf && d.ret.wf

theorem matchAnd_some {x : Pat} {xs : List Pat} (h : matchAnd x = some xs) :
    ∃ a b, x = .imp (.imp a (.imp b botP)) botP ∧ xs = [a, b] := by
  unfold matchAnd at h
  split at h
  · rename_i a b c d
    by_cases hcd : c = botP ∧ d = botP
    · rw [if_pos hcd] at h
      obtain ⟨hc, hd⟩ := hcd
      subst hc hd
      cases h
      exact ⟨a, b, rfl, rfl⟩
    · rw [if_neg hcd] at h; cases h
  · cases h

theorem matchAnd_andP (a b : Pat) : matchAnd (andP a b) = some [a, b] := by
  show (if botP = botP ∧ botP = botP then some [a, b] else none) = some [a, b]
  rw [if_pos ⟨rfl, rfl⟩]

/-- `matchNotn` succeeds exactly on the notation's shape -/
theorem matchNotn_some {n : Notn} {x : Pat} {xs : List Pat} (h : matchNotn n x = some xs) :
    match n with
    | .neg => ∃ a, x = negP a ∧ xs = [a]
    | .and => ∃ a b, x = andP a b ∧ xs = [a, b]
    | .or => ∃ a b, x = orP a b ∧ xs = [a, b]
    | .equiv => ∃ a b, x = equivP a b ∧ xs = [a, b] := by
  cases n with
  | neg =>
    cases x <;> try (simp [matchNotn] at h; done)
    rename_i a b
    simp only [matchNotn] at h
    by_cases hb : b = botP
    · rw [if_pos hb] at h; cases h; subst hb; exact ⟨a, rfl, rfl⟩
    · rw [if_neg hb] at h; cases h
  | and =>
    obtain ⟨a, b, hx, hxs⟩ := matchAnd_some (x := x) (xs := xs) h
    exact ⟨a, b, hx, hxs⟩
  | or =>
    cases x <;> try (simp [matchNotn] at h; done)
    rename_i l b
    cases l <;> try (simp [matchNotn] at h; done)
    rename_i a c
    simp only [matchNotn] at h
    by_cases hc : c = botP
    · rw [if_pos hc] at h; cases h; subst hc; exact ⟨a, b, rfl, rfl⟩
    · rw [if_neg hc] at h; cases h
  | equiv =>
    cases hm : matchAnd x with
    | none => simp [matchNotn, hm] at h
    | some ys =>
      obtain ⟨p, q, hx, hys⟩ := matchAnd_some hm
      subst hys
      cases p <;> try (simp [matchNotn, hm] at h; done)
      rename_i a b
      cases q <;> try (simp [matchNotn, hm] at h; done)
      rename_i b' a'
      simp only [matchNotn, hm] at h
      by_cases hab : a = a' ∧ b = b'
      · rw [if_pos hab] at h
        obtain ⟨h1, h2⟩ := hab
        subst h1 h2
        cases h
        exact ⟨a, b, hx, rfl⟩
      · rw [if_neg hab] at h; cases h

theorem evalPEs_length {τ} (A : Alg τ) (ps : List Pat) (ts : List τ) : ∀ (es : List PE) (xs : List Pat),
    evalPEs A ps ts es = some xs → xs.length = es.length := by
  intro es
  induction es with
  | nil => intro xs h; cases h; rfl
  | cons e es ih =>
    intro xs h
    simp only [evalPEs, Option.bind_eq_bind, Option.pure_def, Option.bind_eq_some_iff,
      Option.some.injEq] at h
    obtain ⟨a, _, ys, hys, hxs⟩ := h
    subst hxs
    simp only [List.length_cons, ih ys hys]

section Stable
variable (ρ : Nat → Option Pat)

theorem inst_negP (a : Pat) : Py.inst ρ (negP a) = negP (Py.inst ρ a) := rfl
theorem inst_topP : Py.inst ρ topP = topP := rfl
theorem inst_andP (a b : Pat) : Py.inst ρ (andP a b) = andP (Py.inst ρ a) (Py.inst ρ b) := rfl
theorem inst_orP (a b : Pat) : Py.inst ρ (orP a b) = orP (Py.inst ρ a) (Py.inst ρ b) := rfl
theorem inst_equivP (a b : Pat) : Py.inst ρ (equivP a b) = equivP (Py.inst ρ a) (Py.inst ρ b) := rfl

theorem mpC_stable {l r c : Pat} (h : mpC l r = some c) :
    mpC (Py.inst ρ l) (Py.inst ρ r) = some (Py.inst ρ c) := by
  cases l <;> try (simp [mpC] at h; done)
  rename_i a b
  simp only [mpC] at h
  by_cases hab : a = r
  · rw [if_pos hab] at h
    cases h; subst hab
    show (if Py.inst ρ a = Py.inst ρ a then some (Py.inst ρ c) else none) = _
    rw [if_pos rfl]
  · rw [if_neg hab] at h; cases h

theorem matchNotn_stable {n : Notn} {x : Pat} {xs : List Pat} (h : matchNotn n x = some xs) :
    matchNotn n (Py.inst ρ x) = some (xs.map (Py.inst ρ)) := by
  have hs := matchNotn_some h
  cases n with
  | neg =>
    obtain ⟨a, hx, hxs⟩ := hs
    subst hx hxs
    show (if botP = botP then some [Py.inst ρ a] else none) = _
    rw [if_pos rfl]; rfl
  | and =>
    obtain ⟨a, b, hx, hxs⟩ := hs
    subst hx hxs
    exact matchAnd_andP _ _
  | or =>
    obtain ⟨a, b, hx, hxs⟩ := hs
    subst hx hxs
    show (if botP = botP then some [Py.inst ρ a, Py.inst ρ b] else none) = _
    rw [if_pos rfl]; rfl
  | equiv =>
    obtain ⟨a, b, hx, hxs⟩ := hs
    subst hx hxs
    rw [inst_equivP]
    simp only [matchNotn, equivP, matchAnd_andP, and_self, if_true, List.map_cons, List.map_nil]

/-- the instantiated axioms commute with instantiation of their three arguments -/
theorem axiomInst_stable {i : Nat} {ps : List Pat} {c : Pat} (hlen : ps.length = 3)
    (h : algC.axiomInst i ps = some c) :
    algC.axiomInst i (ps.map (Py.inst ρ)) = some (Py.inst ρ c) := by
  change (tautAxioms[i]?).map (instP (buildSubst ps)) = some c at h
  show (tautAxioms[i]?).map (instP (buildSubst (ps.map (Py.inst ρ)))) = some (Py.inst ρ c)
  cases hA : tautAxioms[i]? with
  | none => rw [hA] at h; cases h
  | some A =>
    rw [hA] at h
    simp only [Option.map_some, Option.some.injEq] at h ⊢
    subst h
    have hs : Simple ps.length A = true := hlen ▸ tautAxioms_getElem_simple hA
    have hs' : Simple (ps.map (Py.inst ρ)).length A = true := by rw [List.length_map]; exact hs
    rw [instP_buildSubst ps A hs, instP_buildSubst _ A hs']
    exact (inst_args_comm (Py.inst ρ) (fun _ _ => rfl) (fun _ _ => rfl) (fun _ _ => rfl)
      (fun _ _ => rfl) (fun _ => rfl) (fun _ => rfl) (fun _ => rfl) ps A hs).symm

theorem evalPE_stable (ps cs : List Pat) : (e : PE) → e.wf = true →
    evalPE algC (ps.map (Py.inst ρ)) (cs.map (Py.inst ρ)) e = (evalPE algC ps cs e).map (Py.inst ρ)
  | .pvar i, _ => by simp only [evalPE, List.getElem?_map]
  | .mv _, h => by simp [PE.wf] at h
  | .imp a b, h => by
      simp only [PE.wf, Bool.and_eq_true] at h
      simp only [evalPE, evalPE_stable ps cs a h.1, evalPE_stable ps cs b h.2]
      cases evalPE algC ps cs a with
      | none => rfl
      | some x => cases evalPE algC ps cs b <;> rfl
  | .bot, _ => rfl
  | .neg a, h => by
      simp only [PE.wf] at h
      simp only [evalPE, evalPE_stable ps cs a h]
      cases evalPE algC ps cs a <;> rfl
  | .top, _ => rfl
  | .and a b, h => by
      simp only [PE.wf, Bool.and_eq_true] at h
      simp only [evalPE, evalPE_stable ps cs a h.1, evalPE_stable ps cs b h.2]
      cases evalPE algC ps cs a with
      | none => rfl
      | some x => cases evalPE algC ps cs b <;> rfl
  | .or a b, h => by
      simp only [PE.wf, Bool.and_eq_true] at h
      simp only [evalPE, evalPE_stable ps cs a h.1, evalPE_stable ps cs b h.2]
      cases evalPE algC ps cs a with
      | none => rfl
      | some x => cases evalPE algC ps cs b <;> rfl
  | .equiv a b, h => by
      simp only [PE.wf, Bool.and_eq_true] at h
      simp only [evalPE, evalPE_stable ps cs a h.1, evalPE_stable ps cs b h.2]
      cases evalPE algC ps cs a with
      | none => rfl
      | some x => cases evalPE algC ps cs b <;> rfl
  | .concOf t, _ => by
      simp only [evalPE, List.getElem?_map]
      cases cs[t]? <;> rfl

theorem evalPEs_stable (ps cs : List Pat) : (es : List PE) → es.all PE.wf = true →
    evalPEs algC (ps.map (Py.inst ρ)) (cs.map (Py.inst ρ)) es =
      (evalPEs algC ps cs es).map (List.map (Py.inst ρ))
  | [], _ => rfl
  | e :: es, h => by
      simp only [List.all_cons, Bool.and_eq_true] at h
      simp only [evalPEs, evalPE_stable ρ ps cs e h.1, evalPEs_stable ps cs es h.2]
      cases evalPE algC ps cs e with
      | none => rfl
      | some x => cases evalPEs algC ps cs es <;> rfl

/-- a semantic function on conclusions is stable under the instantiation `ρ` -/
def StableF (g : Fun Pat) : Prop :=
  ∀ ps cs c, g ps cs = some c → g (ps.map (Py.inst ρ)) (cs.map (Py.inst ρ)) = some (Py.inst ρ c)

def StableFs (funs : List (Fun Pat)) : Prop := ∀ g ∈ funs, StableF ρ g

mutual
theorem evalTE_stable {funs : List (Fun Pat)} (hF : StableFs ρ funs) (ps cs : List Pat) :
    (e : TE) → e.wf = true → ∀ c, evalTE algC funs ps cs e = some c →
    evalTE algC funs (ps.map (Py.inst ρ)) (cs.map (Py.inst ρ)) e = some (Py.inst ρ c)
  | .tvar j, _, c, h => by
      simp only [evalTE] at h ⊢
      rw [List.getElem?_map, h]; rfl
  | .call f pes tes, hw, c, h => by
      simp only [TE.wf, Bool.and_eq_true] at hw
      simp only [evalTE, Option.bind_eq_bind, Option.bind_eq_some_iff] at h
      obtain ⟨g, hg, pa, hpa, ta, hta, hc⟩ := h
      simp only [evalTE, Option.bind_eq_bind, hg, Option.bind_some, evalPEs_stable ρ ps cs pes hw.1, hpa,
        Option.map_some, evalTEs_stable hF ps cs tes hw.2 ta hta]
      exact hF g (List.mem_of_getElem? hg) pa ta c hc
  | .mp l r, hw, c, h => by
      simp only [TE.wf, Bool.and_eq_true] at hw
      simp only [evalTE, Option.bind_eq_bind, Option.bind_eq_some_iff] at h
      obtain ⟨a, ha, b, hb, hc⟩ := h
      simp only [evalTE, Option.bind_eq_bind, evalTE_stable hF ps cs l hw.1 a ha,
        evalTE_stable hF ps cs r hw.2 b hb, Option.bind_some]
      exact mpC_stable ρ hc
  | .prop1 p q, hw, c, h => by
      simp only [TE.wf, Bool.and_eq_true] at hw
      simp only [evalTE, Option.bind_eq_bind, Option.pure_def, Option.bind_eq_some_iff,
        Option.some.injEq] at h
      obtain ⟨a, ha, b, hb, hc⟩ := h
      subst hc
      simp only [evalTE, Option.bind_eq_bind, Option.pure_def, evalPE_stable ρ ps cs p hw.1,
        evalPE_stable ρ ps cs q hw.2, ha, hb, Option.map_some, Option.bind_some]
      rfl
  | .prop2 p q r, hw, c, h => by
      simp only [TE.wf, Bool.and_eq_true] at hw
      simp only [evalTE, Option.bind_eq_bind, Option.pure_def, Option.bind_eq_some_iff,
        Option.some.injEq] at h
      obtain ⟨a, ha, b, hb, d, hd, hc⟩ := h
      subst hc
      simp only [evalTE, Option.bind_eq_bind, Option.pure_def, evalPE_stable ρ ps cs p hw.1.1,
        evalPE_stable ρ ps cs q hw.1.2, evalPE_stable ρ ps cs r hw.2, ha, hb, hd, Option.map_some,
        Option.bind_some]
      rfl
  | .prop3 p, hw, c, h => by
      simp only [TE.wf] at hw
      simp only [evalTE, Option.bind_eq_bind, Option.pure_def, Option.bind_eq_some_iff,
        Option.some.injEq] at h
      obtain ⟨a, ha, hc⟩ := h
      subst hc
      simp only [evalTE, Option.bind_eq_bind, Option.pure_def, evalPE_stable ρ ps cs p hw, ha,
        Option.map_some, Option.bind_some]
      rfl
  | .axiomInst i pes, hw, c, h => by
      simp only [TE.wf, Bool.and_eq_true, decide_eq_true_eq, beq_iff_eq] at hw
      simp only [evalTE, Option.bind_eq_bind, Option.bind_eq_some_iff] at h
      obtain ⟨pa, hpa, hc⟩ := h
      simp only [evalTE, Option.bind_eq_bind, evalPEs_stable ρ ps cs pes hw.2, hpa, Option.map_some,
        Option.bind_some]
      have hlen : pa.length = 3 := by rw [evalPEs_length algC ps cs pes pa hpa]; exact hw.1.2
      exact axiomInst_stable ρ hlen hc
theorem evalTEs_stable {funs : List (Fun Pat)} (hF : StableFs ρ funs) (ps cs : List Pat) :
    (es : List TE) → TE.wfs es = true → ∀ xs, evalTEs algC funs ps cs es = some xs →
    evalTEs algC funs (ps.map (Py.inst ρ)) (cs.map (Py.inst ρ)) es = some (xs.map (Py.inst ρ))
  | [], _, xs, h => by
      simp only [evalTEs, Option.some.injEq] at h
      subst h; rfl
  | e :: es, hw, xs, h => by
      simp only [TE.wfs, Bool.and_eq_true] at hw
      simp only [evalTEs, Option.bind_eq_bind, Option.pure_def, Option.bind_eq_some_iff,
        Option.some.injEq] at h
      obtain ⟨a, ha, ys, hys, hxs⟩ := h
      subst hxs
      simp only [evalTEs, Option.bind_eq_bind, Option.pure_def, evalTE_stable hF ps cs e hw.1 a ha,
        evalTEs_stable hF ps cs es hw.2 ys hys, Option.bind_some, List.map_cons]
end

theorem evalBody_stable {funs : List (Fun Pat)} (hF : StableFs ρ funs) :
    ∀ (body : List Stmt), body.all Stmt.wf = true → ∀ (ps cs ps' cs' : List Pat),
    evalBody algC funs ps cs body = some (ps', cs') →
    evalBody algC funs (ps.map (Py.inst ρ)) (cs.map (Py.inst ρ)) body =
      some (ps'.map (Py.inst ρ), cs'.map (Py.inst ρ)) := by
  intro body
  induction body with
  | nil =>
    intro _ ps cs ps' cs' h
    simp only [evalBody, Option.some.injEq, Prod.mk.injEq] at h
    obtain ⟨h1, h2⟩ := h
    subst h1 h2; rfl
  | cons st r ih =>
    intro hw ps cs ps' cs' h
    simp only [List.all_cons, Bool.and_eq_true] at hw
    obtain ⟨hst, hr⟩ := hw
    cases st with
    | letP e =>
      simp only [Stmt.wf] at hst
      simp only [evalBody, Option.bind_eq_bind, Option.bind_eq_some_iff] at h
      obtain ⟨a, ha, h⟩ := h
      simp only [evalBody, Option.bind_eq_bind, evalPE_stable ρ ps cs e hst, ha, Option.map_some,
        Option.bind_some]
      have := ih hr _ _ _ _ h
      rw [List.map_append] at this
      exact this
    | letT e =>
      simp only [Stmt.wf] at hst
      simp only [evalBody, Option.bind_eq_bind, Option.bind_eq_some_iff] at h
      obtain ⟨a, ha, h⟩ := h
      simp only [evalBody, Option.bind_eq_bind, evalTE_stable ρ hF ps cs e hst a ha, Option.bind_some]
      have := ih hr _ _ _ _ h
      rw [List.map_append] at this
      exact this
    | extractImp e =>
      simp only [Stmt.wf] at hst
      simp only [evalBody, Option.bind_eq_bind, Option.bind_eq_some_iff] at h
      obtain ⟨x, hx, h⟩ := h
      simp only [evalBody, Option.bind_eq_bind, evalPE_stable ρ ps cs e hst, hx, Option.map_some,
        Option.bind_some]
      cases x <;> try (simp at h; done)
      rename_i a b
      have := ih hr _ _ _ _ h
      rw [List.map_append] at this
      exact this
    | matchNot n e =>
      simp only [Stmt.wf] at hst
      simp only [evalBody, Option.bind_eq_bind, Option.bind_eq_some_iff] at h
      obtain ⟨x, hx, xs, hxs, h⟩ := h
      simp only [evalBody, Option.bind_eq_bind, evalPE_stable ρ ps cs e hst, hx, Option.map_some,
        Option.bind_some, matchNotn_stable ρ hxs]
      have := ih hr _ _ _ _ h
      rw [List.map_append] at this
      exact this
    | assertEq a b =>
      simp only [Stmt.wf, Bool.and_eq_true] at hst
      simp only [evalBody, Option.bind_eq_bind, Option.bind_eq_some_iff] at h
      obtain ⟨x, hx, y, hy, h⟩ := h
      by_cases hxy : x = y
      · rw [if_pos hxy] at h
        simp only [evalBody, Option.bind_eq_bind, evalPE_stable ρ ps cs a hst.1,
          evalPE_stable ρ ps cs b hst.2, hx, hy, Option.map_some, Option.bind_some, hxy, if_true]
        exact ih hr _ _ _ _ h
      · rw [if_neg hxy] at h; cases h

theorem evalDef_stable {funs : List (Fun Pat)} (hF : StableFs ρ funs) (d : Def) (hd : d.wf = true) :
    StableF ρ (evalDef algC funs d) := by
  intro ps cs c h
  simp only [Def.wf, Bool.and_eq_true] at hd
  simp only [evalDef] at h ⊢
  by_cases hl : ps.length = d.nP ∧ cs.length = d.nT
  · rw [if_pos hl] at h
    simp only [List.length_map, if_pos hl]
    simp only [Option.bind_eq_bind, Option.bind_eq_some_iff] at h
    obtain ⟨⟨ps', cs'⟩, hb, hr⟩ := h
    simp only [Option.bind_eq_bind, evalBody_stable ρ hF d.body hd.1 ps cs ps' cs' hb, Option.bind_some]
    exact evalTE_stable ρ hF ps' cs' d.ret hd.2 c hr
  · rw [if_neg hl] at h; cases h

theorem StableFs.snoc {funs : List (Fun Pat)} {g : Fun Pat} (h : StableFs ρ funs) (hg : StableF ρ g) :
    StableFs ρ (funs ++ [g]) := by
  intro g' hm
  rcases List.mem_append.1 hm with hm | hm
  · exact h g' hm
  · rw [List.mem_singleton.1 hm]; exact hg

theorem sem_go_stable : ∀ (ds : List Def), (∀ d ∈ ds, d.wf = true) → ∀ {acc : List (Fun Pat)},
    StableFs ρ acc → StableFs ρ (sem.go algC acc ds) := by
  intro ds
  induction ds with
  | nil => intro _ acc h; exact h
  | cons d ds ih =>
    intro hw acc h
    exact ih (fun d' hd' => hw d' (List.mem_cons_of_mem _ hd'))
      (h.snoc ρ (evalDef_stable ρ h d (hw d List.mem_cons_self)))

theorem sem_stableFs (defs : List Def) (hwf : ∀ d ∈ defs, d.wf = true) : StableFs ρ (sem algC defs) := by
  have hnil : StableFs ρ [] := by intro g hg; cases hg
  cases defs with
  | nil => exact hnil
  | cons d ds =>
    have h1 : StableFs ρ [evalDef algC [] d] :=
      hnil.snoc ρ (evalDef_stable ρ hnil d (hwf d List.mem_cons_self))
    exact sem_go_stable ρ ds (fun d' hd' => hwf d' (List.mem_cons_of_mem _ hd')) h1

end Stable

/-- **L2.** Over conclusions, a run of entry `i` that succeeds on `ps`, `cs` with conclusion `c` succeeds on
the instantiated arguments and premise conclusions, with conclusion the instance of `c`. -/
theorem sem_stable (defs : List Def) (hwf : ∀ d ∈ defs, d.wf = true) (ρ : Nat → Option Pat) (i : Nat)
    (g : Fun Pat) (hg : (sem algC defs)[i]? = some g) (ps cs : List Pat) (c : Pat)
    (h : g ps cs = some c) :
    g (ps.map (Py.inst ρ)) (cs.map (Py.inst ρ)) = some (Py.inst ρ c) :=
  sem_stableFs ρ defs hwf g (List.mem_of_getElem? hg) ps cs c h

end Lem

#print axioms Lem.algG_mp
#print axioms Lem.algG_axiomInst
#print axioms Lem.instP_buildSubst
#print axioms Lem.sem_hom
#print axioms Lem.sem_stable
