import Pi2.Gen.PyMatch
/-!
# Matching and destructuring as written in `pattern.py` are the model's

`Pi2/Gen/PyMatch.lean` is regenerated from `generation/src/proof_generation/pattern.py` on every run
(`vlib/transmatch.py`): `match_single`, `match`, `Pattern.unwrap / extract`, the five `deconstruct`
static methods, `Instantiate.simplify`, `MetaVar.can_be_replaced_by`, `Notation.matches / assert_matches`,
statement by statement, in the combinators of `Pi2/InterpSupport.lean` / `Pi2/MatchSupport.lean`
(`Py α = Option (Option α)`: outer `none` = out of fuel, inner `none` = an exception).  Here they are
proved equal to the hand-written model of `Pi2/Match.lean` that C13 (and the n-ary notation and lemma
theorems) are stated about:

* every destructor is `headF` (repeated `simplify()`) seen through a projection: `unwrap_eq`,
  `*_deconstruct_eq`, `extract_eq`; the `while isinstance(pattern, Instantiate)` loop is `headF` (`while_head`);
* `match_single_eq`: the translated `match_single` **equals** `matchF` for every fuel, pattern, instance
  and optional seed (`extend if extend else {}` = `seed`) — a plain equation, so it also says exactly when
  the text runs out of fuel, and that it never raises (`match_single_never_raises`);
* `match_eq`: the translated `match` equals `matchListF` from the empty dictionary;
* `matches_eq`, `assert_matches_eq`: `Notation.matches` is `notationMatchesF`, `assert_matches` turns its
  "no match" into the exception.

The fuel accounting of the translation (a self-recursive function and a `while` iteration consume one unit,
everything else passes the fuel on) coincides with the model's, which is why no monotonicity argument is needed.

What the model abstracts and the translation makes explicit: a dictionary is its insertion-ordered
association list (`dictSet` on a new key = append, `dictSet_new`); `ret[id] = instance` mutates the caller's
dictionary in Python when `extend` is non-empty — the translation is value-level, which is observable only
by a caller that keeps using a dictionary it passed to a *failed* `match_single` (no caller in /repo does:
`match` returns `None` at once, the recursive calls return `None` at once).
-/
set_option linter.unusedVariables false
set_option linter.unusedSimpArgs false
namespace MatchTie
open PyI PyM NPat Gen.PyMatch

theorem translated : Gen.PyMatch.translated = true := by decide

/-- what a destructor answers: the head of the pattern (repeated `simplify()`), seen through `f`;
it can run out of fuel, it never raises -/
def viaHead {α} (n : Nat) (p : NPat) (f : NPat → α) : Py α := (headF n p).map fun h => some (f h)

theorem call_ret {α} (x : Py α) : call x (fun t => ret t) = x := by
  cases x with
  | none => rfl
  | some o => cases o <;> rfl

theorem call_ret' {α} (x : Py α) : call x (fun t => some (some t)) = x := call_ret x

theorem simplify_inst (n : Nat) (p : NPat) (m : List (Nat × NPat)) :
    Instantiate.simplify n (.inst p m) = (instF n m p).map some := by
  simp only [Instantiate.simplify, fuel, ret]
  cases instF n m p <;> rfl

theorem unwrap_eq (cls : PyClass) (n : Nat) (p : NPat) :
    Pattern.unwrap cls n p
      = viaHead n p fun h => if isinstance h cls then some (patternFields h) else none := by
  induction n generalizing p with
  | zero => rfl
  | succ n ih =>
    cases p <;> try (simp only [Pattern.unwrap, viaHead, headF, ret, Option.map_some]; split <;> rfl)
    rename_i q m
    simp only [Pattern.unwrap, viaHead, headF, simplify_inst, call_ret, Option.bind_eq_bind]
    cases instF n m q with
    | none => rfl
    | some s => simp only [Option.map_some, call, Option.bind_some, ih, viaHead] <;> rfl

/-- the model's view of a head for each `deconstruct` -/
def evarOf : NPat → Option Nat | .evar x => some x | _ => none
def svarOf : NPat → Option Nat | .svar x => some x | _ => none
def symOf : NPat → Option Nat | .sym x => some x | _ => none
def exOf : NPat → Option (Nat × NPat) | .ex x b => some (x, b) | _ => none
def muOf : NPat → Option (Nat × NPat) | .mu x b => some (x, b) | _ => none

theorem evar_deconstruct_eq (n : Nat) (p : NPat) : EVar.deconstruct n p = viaHead n p evarOf := by
  induction n generalizing p with
  | zero => rfl
  | succ n ih =>
    cases p <;> try (simp only [EVar.deconstruct, viaHead, headF, ret, Option.map_some, evarOf])
    rename_i q m
    simp only [simplify_inst, call_ret, call_ret', Option.bind_eq_bind]
    cases instF n m q with
    | none => rfl
    | some s => simp only [Option.map_some, call, Option.bind_some, ih, viaHead] <;> rfl

theorem svar_deconstruct_eq (n : Nat) (p : NPat) : SVar.deconstruct n p = viaHead n p svarOf := by
  induction n generalizing p with
  | zero => rfl
  | succ n ih =>
    cases p <;> try (simp only [SVar.deconstruct, viaHead, headF, ret, Option.map_some, svarOf])
    rename_i q m
    simp only [simplify_inst, call_ret, call_ret', Option.bind_eq_bind]
    cases instF n m q with
    | none => rfl
    | some s => simp only [Option.map_some, call, Option.bind_some, ih, viaHead] <;> rfl

theorem symbol_deconstruct_eq (n : Nat) (p : NPat) : Symbol.deconstruct n p = viaHead n p symOf := by
  induction n generalizing p with
  | zero => rfl
  | succ n ih =>
    cases p <;> try (simp only [Symbol.deconstruct, viaHead, headF, ret, Option.map_some, symOf])
    rename_i q m
    simp only [simplify_inst, call_ret, call_ret', Option.bind_eq_bind]
    cases instF n m q with
    | none => rfl
    | some s => simp only [Option.map_some, call, Option.bind_some, ih, viaHead] <;> rfl

theorem exists_deconstruct_eq (n : Nat) (p : NPat) : Exists.deconstruct n p = viaHead n p exOf := by
  induction n generalizing p with
  | zero => rfl
  | succ n ih =>
    cases p <;> try (simp only [Exists.deconstruct, viaHead, headF, ret, Option.map_some, exOf])
    rename_i q m
    simp only [simplify_inst, call_ret, call_ret', Option.bind_eq_bind]
    cases instF n m q with
    | none => rfl
    | some s => simp only [Option.map_some, call, Option.bind_some, ih, viaHead] <;> rfl

theorem mu_deconstruct_eq (n : Nat) (p : NPat) : Mu.deconstruct n p = viaHead n p muOf := by
  induction n generalizing p with
  | zero => rfl
  | succ n ih =>
    cases p <;> try (simp only [Mu.deconstruct, viaHead, headF, ret, Option.map_some, muOf])
    rename_i q m
    simp only [simplify_inst, call_ret, call_ret', Option.bind_eq_bind]
    cases instF n m q with
    | none => rfl
    | some s => simp only [Option.map_some, call, Option.bind_some, ih, viaHead] <;> rfl

/-! ## `match_single` -/

/-- `extend if extend else {}` -/
def seed (e : Option Subst) : Subst := e.getD []

theorem seed_eq (e : Option Subst) :
    ifTruthy (truthyDict e) (fun d => d) [] = seed e := by
  cases e with
  | none => rfl
  | some d => cases d <;> rfl

theorem headF_not_inst {n : Nat} {p h : NPat} (hh : headF n p = some h) : h.isInst = false := by
  induction n generalizing p with
  | zero => simp [headF] at hh
  | succ n ih =>
    cases p <;> simp only [headF, Option.some.injEq] at hh <;> try (subst hh; rfl)
    rename_i q m
    simp only [Option.bind_eq_bind, Option.bind_eq_some_iff] at hh
    obtain ⟨s, _, hs⟩ := hh
    exact ih hs

theorem headF_pos {n : Nat} {p h : NPat} (hh : headF n p = some h) : ∃ k, n = k + 1 := by
  cases n with
  | zero => simp [headF] at hh
  | succ k => exact ⟨k, rfl⟩

theorem viaHead_head {α} (k : Nat) (h : NPat) (f : NPat → α) (hh : h.isInst = false) :
    viaHead (k + 1) h f = some (some (f h)) := by
  cases h <;> first | rfl | simp [isInst] at hh

/-- the `while isinstance(pattern, Instantiate): pattern = pattern.simplify()` loop is `headF` -/
theorem while_head {β} (body : Nat → NPat → Py NPat)
    (hb : ∀ n q m, body n (.inst q m) = (instF n m q).map some) (n : Nat) (p : NPat) (k : NPat → Py β) :
    whileF (fun v => isinstance v PyClass.Instantiate) body n p k = fuel (headF n p) k := by
  induction n generalizing p with
  | zero => rfl
  | succ n ih =>
    cases p <;> try rfl
    rename_i q m
    have hi : isinstance (.inst q m) PyClass.Instantiate = true := rfl
    simp only [whileF, hi, if_true, hb, headF, Option.bind_eq_bind]
    cases instF n m q with
    | none => rfl
    | some s => simp only [Option.map_some, call, Option.bind_some, ih]

theorem loop_body (n : Nat) (q : NPat) (m : List (Nat × NPat)) :
    (call (Instantiate.simplify n (.inst q m)) fun t1 => let v : NPat := t1; ret v) = (instF n m q).map some := by
  simp only [simplify_inst, call_ret]

theorem dictSet_new (d : Subst) (k : Nat) (v : NPat) (h : Py.lookup d k = none) :
    dictSet d k v = d ++ [(k, v)] := by
  induction d with
  | nil => rfl
  | cons x r ih =>
    obtain ⟨k', v'⟩ := x
    simp only [Py.lookup] at h
    by_cases hk : k' = k
    · simp [hk] at h
    · simp only [hk, if_false] at h
      simp [dictSet, hk, ih h]

theorem call_map_some {α β} (x : Option α) (f : α → Py β) : call (x.map some) f = x.bind f := by
  cases x <;> rfl

theorem call_some {α β} (a : α) (f : α → Py β) : call (some (some a)) f = f a := rfl
theorem call_none {α β} (f : α → Py β) : call (none : Py α) f = none := rfl

theorem bind_ret {α} (x : Option (Option α)) : (x.bind fun t => some (some t)) = x.map some := by
  cases x <;> rfl

theorem seed_some (s : Subst) : seed (some s) = s := rfl

theorem match_single_eq (n : Nat) (p i : NPat) (e : Option Subst) :
    match_single n p i e = (matchF n p i (seed e)).map some := by
  induction n generalizing p i e with
  | zero => rfl
  | succ n ih =>
    simp only [match_single, matchF, seed_eq]
    rw [while_head _ loop_body]
    generalize seed e = s
    cases hp : headF n p with
    | none => rfl
    | some h =>
      obtain ⟨k, rfl⟩ := headF_pos hp
      have hni := headF_not_inst hp
      simp only [fuel, Option.bind_eq_bind, Option.bind_some, unwrap_eq, evar_deconstruct_eq,
        svar_deconstruct_eq, symbol_deconstruct_eq, exists_deconstruct_eq, mu_deconstruct_eq,
        viaHead_head k h _ hni, ih, seed_some]
      cases h with
      | inst q m => simp [isInst] at hni
      | mv id ef sf ps ns hs =>
        match hl : Py.lookup s id with
        | none =>
          have h1 : dictHas s id = false := by simp [dictHas, hl]
          simp [h1, hl, dictSet_new _ _ _ hl, call, ret, MetaVar.can_be_replaced_by]
        | some v =>
          have h1 : dictHas s id = true := by simp [dictHas, hl]
          have h2 : ∀ (c : NPat → Py (Option Dict)), dictGet s id c = c v := by
            intro c; simp only [dictGet, hl]
          simp only [h1, h2, hl, if_true]
          cases peqF (k + 1) v i with
          | none => rfl
          | some b => cases b <;> rfl
      | _ =>
        cases hi : headF (k + 1) i with
        | none =>
          simp [viaHead, hi, ifAnd2, call, ret, isinstance, patternFields, truthyTuple, truthyPair,
            evarOf, svarOf, symOf, exOf, muOf]
        | some j =>
          simp only [viaHead, hi, Option.map_some, Option.bind_some]
          cases j <;>
            simp [ifAnd2, call_map_some, call_ret, call, ret, raise, index, isinstance, patternFields,
              truthyTuple, truthyPair, evarOf, svarOf, symOf, exOf, muOf, bind_ret, apply_ite (Option.map some)] <;>
            first
              | (split <;> rfl)
              | (cases matchF (k + 1) _ _ s with
                  | none => rfl
                  | some o =>
                    cases o with
                    | none => rfl
                    | some r1 =>
                      simp only [Option.map_some, Option.bind_some, Function.comp] <;> exact call_ret' _)

/-- with an explicit seed dictionary (what every recursive call and `match` pass) -/
theorem match_single_seeded (n : Nat) (p i : NPat) (s : Subst) :
    match_single n p i (some s) = (matchF n p i s).map some := match_single_eq n p i (some s)

/-- without the optional argument (what `Notation.matches` passes) -/
theorem match_single_default (n : Nat) (p i : NPat) :
    match_single n p i none = (matchF n p i []).map some := match_single_eq n p i none

/-- `match_single` never raises (`KeyError`, `IndexError`, `AttributeError`): it returns or runs out of fuel -/
theorem match_single_never_raises (n : Nat) (p i : NPat) (e : Option Subst) :
    match_single n p i e ≠ some none := by
  rw [match_single_eq]
  cases matchF n p i (seed e) <;> simp

/-! ## `match` -/

theorem match_loop (n : Nat) (eqs : List (NPat × NPat)) (s : Subst) :
    forEach eqs s
      (fun (pi : NPat × NPat) r cont =>
        call (match_single n pi.1 pi.2 (some r)) fun t1 =>
          match t1 with
          | none => ret none
          | some sm => cont sm)
      (fun r => ret (some r))
      = (matchListF n eqs s).map some := by
  induction eqs generalizing s with
  | nil => rfl
  | cons x r ih =>
    obtain ⟨p, i⟩ := x
    simp only [forEach, matchListF, Option.bind_eq_bind]
    rw [match_single_seeded, call_map_some]
    cases matchF n p i s with
    | none => rfl
    | some o =>
      cases o with
      | none => rfl
      | some s1 => exact ih s1

theorem match_eq (n : Nat) (eqs : List (NPat × NPat)) :
    «match» n eqs = (matchListF n eqs []).map some := match_loop n eqs []

/-! ## `Notation.matches`, `Notation.assert_matches` -/

theorem mapPy_pure {α β γ} (xs : List α) (f : α → Py β) (g : α → β) (k : List β → Py γ)
    (h : ∀ x, f x = ret (g x)) : mapPy xs f k = k (xs.map g) := by
  induction xs generalizing k with
  | nil => rfl
  | cons x r ih => simp only [mapPy, h, call, ret, ih, List.map_cons]

theorem matches_eq (n : Nat) (N : PyNotation) (p : NPat) :
    Notation.matches n N p = (notationMatchesF n N.definition N.arity p).map some := by
  simp only [Notation.matches, notationMatchesF, match_single_default, call_map_some, Option.bind_eq_bind]
  cases matchF n N.definition p [] with
  | none => rfl
  | some o =>
    cases o with
    | none => rfl
    | some s =>
      simp only [Option.bind_some]
      rw [mapPy_pure _ _ (fun i => match Py.lookup s i with | some v => v | none => mv i [] [] [] [] [])]
      · rfl
      · intro i
        match hl : Py.lookup s i with
        | none =>
          have h1 : dictHas s i = false := by simp [dictHas, hl]
          simp [h1, hl]
        | some v =>
          have h1 : dictHas s i = true := by simp [dictHas, hl]
          simp [h1, hl, dictGet]

/-- `assert_matches`: the model's "no match" is the `AssertionError` -/
theorem assert_matches_eq (n : Nat) (N : PyNotation) (p : NPat) :
    Notation.assert_matches n N p = notationMatchesF n N.definition N.arity p := by
  simp only [Notation.assert_matches, matches_eq, call_map_some]
  cases notationMatchesF n N.definition N.arity p with
  | none => rfl
  | some o => cases o <;> rfl

/-! ## `extract`, the field table, the two small methods -/

theorem extract_eq (cls : PyClass) (n : Nat) (p : NPat) :
    Pattern.extract cls n p
      = match headF n p with
        | none => none
        | some h => if isinstance h cls then ret (patternFields h) else raise := by
  simp only [Pattern.extract, unwrap_eq, viaHead]
  cases headF n p with
  | none => rfl
  | some h => simp only [Option.map_some, call]; cases isinstance h cls <;> rfl

theorem implies_unwrap_eq (n : Nat) (p : NPat) :
    Pattern.unwrap .Implies n p = viaHead n p fun h => match h with | .imp l r => some [l, r] | _ => none := by
  rw [unwrap_eq]; congr; funext h; cases h <;> rfl

theorem app_unwrap_eq (n : Nat) (p : NPat) :
    Pattern.unwrap .App n p = viaHead n p fun h => match h with | .app l r => some [l, r] | _ => none := by
  rw [unwrap_eq]; congr; funext h; cases h <;> rfl

/-- `Implies.extract` is the `extractImplies` of the interpreter translation (`Pi2/InterpSupport.lean`) -/
theorem implies_extract_eq (n : Nat) (p : NPat) :
    Pattern.extract .Implies n p = extractImplies n p fun l r => ret [l, r] := by
  rw [extract_eq]
  simp only [extractImplies]
  cases headF n p with
  | none => rfl
  | some h => cases h <;> rfl

theorem patternFields_eq (x : VId) (l r q : NPat) (ef sf ps ns hs : List VId) (m : List (Nat × NPat)) :
    patternFields (.evar x) = [] ∧ patternFields (.svar x) = [] ∧ patternFields (.sym x) = [] ∧
    patternFields (.imp l r) = [l, r] ∧ patternFields (.app l r) = [l, r] ∧
    patternFields (.ex x q) = [q] ∧ patternFields (.mu x q) = [q] ∧
    patternFields (.mv x ef sf ps ns hs) = [] ∧
    patternFields (.esub q x r) = [q, r, .evar x] ∧ patternFields (.ssub q x r) = [q, r, .svar x] ∧
    patternFields (.inst q m) = [q] :=
  ⟨rfl, rfl, rfl, rfl, rfl, rfl, rfl, rfl, rfl, rfl, rfl⟩

/-- `can_be_replaced_by` is the stub `return True` -/
theorem can_be_replaced_by_eq (x : VId) (ef sf ps ns hs : List VId) (q : NPat) :
    MetaVar.can_be_replaced_by (.mv x ef sf ps ns hs) q = ret true := rfl

theorem simplify_eq (n : Nat) (q : NPat) (m : List (Nat × NPat)) :
    Instantiate.simplify n (.inst q m) = (simplifyF n (.inst q m)).map some := simplify_inst n q m

end MatchTie

#print axioms MatchTie.translated
#print axioms MatchTie.unwrap_eq
#print axioms MatchTie.evar_deconstruct_eq
#print axioms MatchTie.svar_deconstruct_eq
#print axioms MatchTie.symbol_deconstruct_eq
#print axioms MatchTie.exists_deconstruct_eq
#print axioms MatchTie.mu_deconstruct_eq
#print axioms MatchTie.while_head
#print axioms MatchTie.match_single_eq
#print axioms MatchTie.match_single_never_raises
#print axioms MatchTie.match_eq
#print axioms MatchTie.matches_eq
#print axioms MatchTie.assert_matches_eq
#print axioms MatchTie.extract_eq
#print axioms MatchTie.implies_extract_eq
#print axioms MatchTie.patternFields_eq
