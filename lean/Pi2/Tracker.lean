import Pi2.Rules
import Pi2.Machine
/-!
# The generator's state tracker and serializer: `StatefulInterpreter` + `SerializingInterpreter`
(`stateful_interpreter.py`, `serializing_interpreter.py`, `basic_interpreter.py`)

One `Call` per interpreter method.  The argument terms that the tracker only *asserts* to be equal to
stack entries are not part of a call (a history the tracker accepts passes exactly those); what
remains is the information a call adds: ids, the key order of `instantiate`, the term of `load`, a
symbol name.  `track1` is the state update (outer `Option` = fuel, inner `none` = the call raises),
`emit1` the instructions the serializer writes for the call, computed from the state *before* it.

Every stack entry carries a ghost flag `residue`: `publish_*` leaves the published term on the
tracker's stack while the machine pops it (KF-C04-publish); the flag marks those entries and has no
influence on behaviour.
-/
open Pat

inductive TTerm where
  | pat (p : NPat)
  | proved (p : NPat)
deriving Repr, Inhabited

/-- literally a `MetaVar`, `ESubst` or `SSubst` object -/
def NPat.isMetaHead : NPat → Bool
  | .mv .. => true | .esub .. => true | .ssub .. => true | _ => false

def TTerm.body : TTerm → NPat
  | .pat p => p
  | .proved p => p

def TTerm.isProved : TTerm → Bool
  | .proved _ => true
  | .pat _ => false

structure PySt where
  phase : Phase
  stack : List (TTerm × Bool)     -- head = top; Bool = residue of a publish (ghost)
  memory : List TTerm             -- in push order
  claims : List NPat              -- head = next claim expected by publish_proof
  symtab : List Nat               -- symbol names in order of first serialisation
deriving Repr, Inhabited

inductive Call where
  | evar (x : VId) | svar (x : VId) | symbol (name : Nat)
  | metavar (id : VId) (ef sf ps ns hs : List VId)
  | implies | app | ex (x : VId) | mu (x : VId) | esubst (x : VId) | ssubst (x : VId)
  | prop1 | prop2 | prop3 | quantifier
  | mp | gen (x : VId)
  | instantiate (keys : List Nat) | instantiatePattern (keys : List Nat)
  | pop | save | load (t : TTerm)
  | publishProof | publishAxiom | publishClaim
  | intoClaim | intoProof
deriving Repr, Inhabited

namespace PySt

def phiN (n : Nat) : NPat := .mv n [] [] [] [] []
def botN : NPat := .inst (.mu 0 (.svar 0)) []
def prop1N : NPat := .imp (phiN 0) (.imp (phiN 1) (phiN 0))
def prop2N : NPat := .imp (.imp (phiN 0) (.imp (phiN 1) (phiN 2))) (.imp (.imp (phiN 0) (phiN 1)) (.imp (phiN 0) (phiN 2)))
def prop3N : NPat := .imp (.imp (.imp (phiN 0) botN) botN) (phiN 0)
def quantN : NPat := .imp (.esub (phiN 0) 0 (.evar 1)) (.ex 0 (phiN 0))

def push (s : PySt) (t : TTerm) : PySt := { s with stack := (t, false) :: s.stack }

/-- equality of two tracked terms as Python computes it (`Proved` vs `Pattern` are never equal) -/
def teqF (n : Nat) : TTerm → TTerm → Option Bool
  | .pat a, .pat b => NPat.peqF n a b
  | .proved a, .proved b => NPat.peqF n a b
  | _, _ => some false

/-- `memory.index(term)`: first position holding an equal term -/
def indexF (n : Nat) (t : TTerm) : List TTerm → Nat → Option (Option Nat)
  | [], _ => some none
  | m :: r, i => do
      if ← teqF n m t then pure (some i) else indexF n t r (i + 1)

/-- split off the `k` plugs below the top (Python: `stack[-k:]`), returned deepest first = in the
order of `delta.values()` -/
def takePlugs : Nat → List (TTerm × Bool) → Option (List NPat × List (TTerm × Bool))
  | 0, st => some ([], st)
  | k + 1, (.pat p, _) :: st => (takePlugs k st).map fun (ps, st') => (ps ++ [p], st')
  | _ + 1, _ => none

/-- one call of the tracker (`StatefulInterpreter` on top of `BasicInterpreter`) -/
def track1 (n : Nat) (s : PySt) : Call → Option (Option PySt)
  | .evar x => some (some (s.push (.pat (.evar x))))
  | .svar x => some (some (s.push (.pat (.svar x))))
  | .symbol nm => some (some ({ s.push (.pat (.sym nm)) with
      symtab := if s.symtab.contains nm then s.symtab else s.symtab ++ [nm] }))
  | .metavar id ef sf ps ns hs => some (some (s.push (.pat (.mv id ef sf ps ns hs))))
  | .implies => match s.stack with
      | (.pat r, _) :: (.pat l, _) :: st => some (some { s with stack := (.pat (.imp l r), false) :: st })
      | _ => some none
  | .app => match s.stack with
      | (.pat r, _) :: (.pat l, _) :: st => some (some { s with stack := (.pat (.app l r), false) :: st })
      | _ => some none
  | .ex x => match s.stack with
      | (.pat p, _) :: st => some (some { s with stack := (.pat (.ex x p), false) :: st })
      | _ => some none
  | .mu x => match s.stack with
      | (.pat p, _) :: st => some (some { s with stack := (.pat (.mu x p), false) :: st })
      | _ => some none
  | .esubst x => match s.stack with
      | (.pat p, _) :: (.pat plug, _) :: st =>
          -- API typing: `pattern: MetaVar | ESubst | SSubst` (not checked by Python at run time; the
          -- harness refuses ill-typed calls, see DESIGN.md C04)
          if NPat.isMetaHead p then some (some { s with stack := (.pat (.esub p x plug), false) :: st }) else some none
      | _ => some none
  | .ssubst x => match s.stack with
      | (.pat p, _) :: (.pat plug, _) :: st =>
          if NPat.isMetaHead p then some (some { s with stack := (.pat (.ssub p x plug), false) :: st }) else some none
      | _ => some none
  | .prop1 => some (some (s.push (.proved prop1N)))
  | .prop2 => some (some (s.push (.proved prop2N)))
  | .prop3 => some (some (s.push (.proved prop3N)))
  | .quantifier => some (some (s.push (.proved quantN)))
  | .mp => match s.stack with
      | (.proved r, _) :: (.proved l, _) :: st => do
          match ← NPat.pyMP n l r with
          | none => pure none
          | some c => pure (some { s with stack := (.proved c, false) :: st })
      | _ => some none
  | .gen x => match s.stack with
      | (.proved a, _) :: st => do
          match ← NPat.pyGen n a x with
          | none => pure none
          | some c => pure (some { s with stack := (.proved c, false) :: st })
      | _ => some none
  | .instantiate keys => match s.stack with
      | (.proved a, _) :: st =>
          if keys.isEmpty then
            -- (F10) the empty map: no plugs are taken, `BasicInterpreter.instantiate` returns the proof unchanged
            some (some { s with stack := (.proved a, false) :: st })
          else match takePlugs keys.length st with
            | none => some none
            | some (plugs, st') => do
                let c ← NPat.instF n (keys.zip plugs) a
                pure (some { s with stack := (.proved c, false) :: st' })
      | _ => some none
  | .instantiatePattern keys => match s.stack with
      | (.pat a, _) :: st =>
          match takePlugs keys.length st with
          | none => some none
          | some (plugs, st') => some (some { s with stack := (.pat (.inst a (keys.zip plugs)), false) :: st' })
      | _ => some none
  | .pop => match s.stack with
      | _ :: st => some (some { s with stack := st })
      | [] => some none
  | .save => match s.stack with
      | (t, _) :: _ => some (some { s with memory := s.memory ++ [t] })
      | [] => some none
  | .load t => do
      match ← indexF n t s.memory 0 with
      | none => pure none
      | some _ => pure (some (s.push t))
  | .publishProof => match s.phase, s.stack, s.claims with
      | .proof, (.proved t, _) :: st, c :: cs => do
          if ← NPat.peqF n t c then pure (some { s with stack := (.proved t, true) :: st, claims := cs })
          else pure none
      | _, _, _ => some none
  | .publishAxiom => match s.phase, s.stack with
      | .gamma, (.pat a, _) :: st =>
          some (some { s with stack := (.pat a, true) :: st, memory := s.memory ++ [.proved a] })
      | _, _ => some none
  | .publishClaim => match s.phase, s.stack with
      | .claim, (.pat a, _) :: st => some (some { s with stack := (.pat a, true) :: st })
      | _, _ => some none
  | .intoClaim => match s.phase with
      | .gamma => some (some { s with phase := .claim, stack := [] })
      | _ => some none
  | .intoProof => match s.phase with
      | .claim => some (some { s with phase := .proof, stack := [] })
      | _ => some none

def symId (tab : List Nat) (nm : Nat) : Nat :=
  match tab.idxOf? nm with
  | some i => i
  | none => tab.length

/-- the instructions `SerializingInterpreter` writes for a call, from the state before the call
(`none` = nothing sensible to write because the call raises) -/
def emit1 (n : Nat) (s : PySt) : Call → Option (Option (List Instr))
  | .evar x => some (some [.evar x])
  | .svar x => some (some [.svar x])
  | .symbol nm => some (some [.sym (symId s.symtab nm)])
  | .metavar id ef sf ps ns hs =>
      if ef.isEmpty && sf.isEmpty && ps.isEmpty && ns.isEmpty && hs.isEmpty then some (some [.cleanmv id])
      else some (some [.metavar id ef sf ps ns hs])
  | .implies => some (some [.implies]) | .app => some (some [.app])
  | .ex x => some (some [.ex x]) | .mu x => some (some [.mu x])
  | .esubst x => some (some [.esubst x]) | .ssubst x => some (some [.ssubst x])
  | .prop1 => some (some [.prop1]) | .prop2 => some (some [.prop2]) | .prop3 => some (some [.prop3])
  | .quantifier => some (some [.quantifier])
  | .mp => some (some [.mp]) | .gen x => some (some [.gen x])
  | .instantiate keys => some (some [.instantiate keys.reverse])
  | .instantiatePattern keys => some (some [.instantiate keys.reverse])
  | .pop => some (some [.pop]) | .save => some (some [.save])
  | .load t => do
      match ← indexF n t s.memory 0 with
      | none => pure none
      | some i => pure (some [.load i])
  | .publishProof => some (some [.publish]) | .publishAxiom => some (some [.publish])
  | .publishClaim => some (some [.publish])
  | .intoClaim => some (some []) | .intoProof => some (some [])

def init (claims : List NPat) : PySt := { phase := .gamma, stack := [], memory := [], claims := claims, symtab := [] }

/-- run a history; returns the final state and the instructions written to the three streams -/
def trackAll (n : Nat) : PySt → List Call → (List Instr × List Instr × List Instr) →
    Option (Option (PySt × (List Instr × List Instr × List Instr)))
  | s, [], out => some (some (s, out))
  | s, c :: cs, (g, cl, pf) => do
      match ← emit1 n s c with
      | none => pure none
      | some is =>
        match ← track1 n s c with
        | none => pure none
        | some s' =>
          let out' := match s.phase with
            | .gamma => (g ++ is, cl, pf)
            | .claim => (g, cl ++ is, pf)
            | .proof => (g, cl, pf ++ is)
          trackAll n s' cs out'

end PySt
