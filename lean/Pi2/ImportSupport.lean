/-!
# What the generated `_import_proof` (`Pi2/Gen/ImportProof.lean`, written by `vlib/transimport.py`) is expressed in

Hand-written and deliberately tiny: the Python primitives `MetamathConverter._import_proof`
(generation/src/proof_generation/metamath/converter/converter.py) uses, at the CHARACTER level.

Conventions of the translation
* a Python `str` is a `List Char`; a one-character string obtained by iterating over a string (`for letter in proof`)
  and a one-character string literal it is compared with / that is a key of a `dict` literal is a `Char`.
* every function and every loop returns `Option _`: `none` = the Python code raises (`AssertionError`, `KeyError`,
  `ValueError` of an unpacking, `UnboundLocalError`).
* a `for` loop is a function of its own, by structural recursion on the list it iterates over; `break` returns the state,
  `continue` / the end of the body goes on with the rest.  A variable that is first bound INSIDE a loop (its targets too) and
  read after it is carried as an `Option` (`none` = the body never ran) and read with `← x?` (`UnboundLocalError`).
* `dict` = insertion-ordered association list; assigning to an existing key keeps its position.
* a `set[str]` is a list (without repetitions); the translator accepts only membership tests on it and an iteration that is
  consumed by `sorted(..)`, so no result depends on its iteration order.
* all integers of the function are natural numbers (indices of `enumerate`, `len`, sums, products, `pow`).
-/
namespace ImpSup

/-- Python `str` -/
abbrev Str := List Char

/-- `c.isspace()` for a one-character string: exactly the code points for which CPython 3.12 answers `True`
(`[i for i in range(sys.maxunicode + 1) if chr(i).isspace()]`) -/
def pyIsSpace (c : Char) : Bool :=
  let n := c.toNat
  (9 ≤ n && n ≤ 13) || (28 ≤ n && n ≤ 32) || n == 133 || n == 160 || n == 5760 || (8192 ≤ n && n ≤ 8202) ||
  n == 8232 || n == 8233 || n == 8239 || n == 8287 || n == 12288

/-- `assert b` -/
def pyAssert (b : Bool) : Option Unit := if b then some () else none

/-- `assert s` for `s : str | None` (fails on `None` and on `''`); the result is `s` as a `str` -/
def pyAssertStr : Option Str → Option Str
  | some (c :: cs) => some (c :: cs)
  | _ => none

/-- `x, *xs = xs` (`ValueError` on the empty sequence) -/
def pyHeadRest {α : Type} : List α → Option (α × List α)
  | [] => none
  | x :: xs => some (x, xs)

/-- `enumerate(xs)` -/
def pyEnumerateFrom {α : Type} : Nat → List α → List (Nat × α)
  | _, [] => []
  | n, x :: xs => (n, x) :: pyEnumerateFrom (n + 1) xs
def pyEnumerate {α : Type} (xs : List α) : List (Nat × α) := pyEnumerateFrom 0 xs

/-- `xs[n:]` for `n ≥ 0` (beyond the end: empty) -/
def pySliceFrom {α : Type} (xs : List α) (n : Nat) : List α := xs.drop n

/-- `sorted(xs)` for strings: code-point lexicographic order, stable -/
def pySorted (xs : List Str) : List Str := xs.mergeSort (fun a b => decide (a ≤ b))

/-! ## `dict` -/
abbrev PyDict (κ α : Type) := List (κ × α)
def dictLen {κ α : Type} (d : PyDict κ α) : Nat := d.length
/-- `k in d` -/
def dictHas {κ α : Type} [BEq κ] (d : PyDict κ α) (k : κ) : Bool := (d.lookup k).isSome
/-- `d[k]` (`KeyError`) -/
def dictGet {κ α : Type} [BEq κ] (d : PyDict κ α) (k : κ) : Option α := d.lookup k
/-- `d[k] = v`: an existing key keeps its position, a new one goes to the end -/
def dictSet {κ α : Type} [BEq κ] : PyDict κ α → κ → α → PyDict κ α
  | [], k, v => [(k, v)]
  | (k', v') :: r, k, v => if k' == k then (k', v) :: r else (k', v') :: dictSet r k v

/-! ## what `_import_proof` reads of its arguments -/
/-- `self`: the `$f #Pattern` variables in database order -/
structure Converter where
  _floating_patterns : List Str
deriving DecidableEq, Repr

/-- `statement`: `get_metavariables()` (a set) and `.proof` (`str | None`) -/
structure ProvableStatement where
  get_metavariables : List Str
  proof : Option Str
deriving DecidableEq, Repr

end ImpSup
