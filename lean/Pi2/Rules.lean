import Pi2.Match
/-!
# The Python proof rules (`BasicInterpreter.modus_ponens / exists_generalization / instantiate`,
`basic_interpreter.py:97-117`) on patterns with notation.  Outer `Option` = fuel, inner `none` = the
rule raises (`AssertionError`).
-/
namespace NPat

/-- `modus_ponens(left, right)`: `l, r = Implies.extract(left); assert l == right; return r` -/
def pyMP (n : Nat) (a b : NPat) : Option (Option NPat) := do
  match ← headF n a with
  | imp l r => do
      let eq ← peqF n l b
      pure (if eq then some r else none)
  | _ => pure none

/-- `exists_generalization(proved, var)`: `l, r = Implies.extract(..); assert r.evar_is_free(var)` -/
def pyGen (n : Nat) (a : NPat) (x : VId) : Option (Option NPat) := do
  match ← headF n a with
  | imp l r => do
      let fr ← evarIsFreeF n x r
      pure (if fr then some (imp (ex x l) r) else none)
  | _ => pure none

/-- `instantiate(proved, delta)` -/
def pyInst (n : Nat) (a : NPat) (δ : List (Nat × NPat)) : Option NPat :=
  if δ.isEmpty then some a else instF n δ a

end NPat
