import Pi2.Gen.PyInterp
import Pi2.MatchThm
import Pi2.TrackerThm
import Pi2.MM.Mono
/-!
# The interpreter classes as written in `basic_interpreter.py` / `stateful_interpreter.py` are the model's

`Pi2/Gen/PyInterp.lean` is regenerated from the source on every run (`vlib/transinterp.py`): every method of
`BasicInterpreter` and `StatefulInterpreter` (and `Interpreter.into_claim_phase / into_proof_phase`),
statement by statement, in the combinators of `Pi2/InterpSupport.lean`.  Here they are proved equal to the
hand-written model that the theorems about the tracker (C04, C07, C08, `Pi2.TrackerThm`, `Pi2.ModulePF`)
are stated about:

* `BasicInterpreter`: `modus_ponens`, `exists_generalization`, `instantiate` are `NPat.pyMP`, `pyGen`,
  `pyInst` (`Pi2/Rules.lean`); the axiom patterns are `prop1N … quantN`, `bot()` is `botN`.
* `StatefulInterpreter`: a `Call` of the model carries no term arguments — the model assumes that the
  caller passes the very terms that are on the tracker's stack.  `*_tie`: for each method, called with
  these arguments (stated per method: e.g. `implies(left, right)`: `right` = top entry, `left` = the
  entry below), the translated method is `track1 n s call` preceded by the reflexive comparisons
  `t == t` that the `assert expected == arg` statements evaluate (`chk`; they cost fuel and can only
  run out of it, `peqF_refl`).  This is an equation, so it also says when the translated method runs
  out of fuel.  `*_mismatch`: if an argument is *not* `==` to the stack entry, the method raises.
  `two_underflow`, `one_underflow`: a short stack raises.  `*_noplugs`: no `delta` is accepted when
  the model finds no plugs.
* `pyCall` dispatches a `Call` to its translated method with the stack's own terms;
  `pyCall_sound` (a), `pyCall_exact` / `pyCall_complete` (b), `pyCall_none` (c) are the summary.

What the translated `StatefulInterpreter` does not have and the theorems make explicit: the ghost
residue flag of the model's stack entries (`markTop` in the `publish_*` ties; `append` pushes `false`),
the serializer's symbol table (`symbol_tie`), and the API typing of `esubst`/`ssubst` (`esubst_untyped`).
-/
open PySt PyI
open Gen.PyInterp

namespace InterpTie

/-- the cost of an `assert expected == arg` when `arg` is the very term `t` on the stack: the
reflexive comparison `t == t` is evaluated (it can only run out of fuel), then the method goes on -/
def chk {α} (n : Nat) (t : TTerm) (k : Py α) : Py α := (teqF n t t).bind fun _ => k
/-- the same for `assert expected_plugs == list(delta.values())` -/
def chkL {α} (n : Nat) (l : List TTerm) (k : Py α) : Py α := (listEqF n l l).bind fun _ => k
/-- the value a pattern- or proof-building method returns is the new top of the stack -/
def topPat (s : PySt) : NPat := match s.stack with | (t, _) :: _ => t.body | [] => default
def withTopPat (r : Py PySt) : Py (PySt × NPat) := r.map (Option.map fun s' => (s', topPat s'))
def withTopProved (r : Py PySt) : Py (PySt × Proved) := r.map (Option.map fun s' => (s', ⟨topPat s'⟩))
/-- the ghost update of `publish_*` in the model: the top entry is marked as residue -/
def markTop (s : PySt) : PySt :=
  match s.stack with
  | (t, _) :: st => { s with stack := (t, true) :: st }
  | [] => s

theorem translated : Gen.PyInterp.translated = true := by decide

/-! ## BasicInterpreter -/

theorem bot_eq : Gen.PyInterp.bot = botN := rfl
/-- the pattern constructors build the model's constructors (`EVar(x)` in the `var` field of a
substitution is its id) -/
theorem constructors_eq (x : VId) (ef sf ps ns hs : List VId) (p q : NPat) (δ : List (Nat × NPat)) :
    Basic.evar x = .evar x ∧ Basic.svar x = .svar x ∧ Basic.symbol x = .sym x ∧
    Basic.metavar x ef sf ps ns hs = .mv x ef sf ps ns hs ∧ Basic.implies p q = .imp p q ∧
    Basic.app p q = .app p q ∧ Basic.«exists» x p = .ex x p ∧ Basic.mu x p = .mu x p ∧
    Basic.esubst x p q = .esub p x q ∧ Basic.ssubst x p q = .ssub p x q ∧
    Basic.instantiate_pattern p δ = .inst p δ :=
  ⟨rfl, rfl, rfl, rfl, rfl, rfl, rfl, rfl, rfl, rfl, rfl⟩
theorem prop1_eq : Basic.prop1 = ⟨prop1N⟩ := rfl
theorem prop2_eq : Basic.prop2 = ⟨prop2N⟩ := rfl
theorem prop3_eq : Basic.prop3 = ⟨prop3N⟩ := rfl
theorem exists_quantifier_eq : Basic.exists_quantifier = ⟨quantN⟩ := rfl

theorem modus_ponens_eq (n : Nat) (a b : NPat) :
    Basic.modus_ponens n ⟨a⟩ ⟨b⟩ = (NPat.pyMP n a b).map (Option.map Proved.mk) := by
  simp only [Basic.modus_ponens, NPat.pyMP, extractImplies]
  cases h : NPat.headF n a with
  | none => rfl
  | some q =>
    cases q <;> try rfl
    rename_i l r
    simp only [fuel, assert_, ret, raise, Option.bind_eq_bind, Option.bind_some, Option.pure_def]
    cases NPat.peqF n l b with
    | none => rfl
    | some e => cases e <;> rfl

theorem exists_generalization_eq (n : Nat) (a : NPat) (x : VId) :
    Basic.exists_generalization n ⟨a⟩ x = (NPat.pyGen n a x).map (Option.map Proved.mk) := by
  simp only [Basic.exists_generalization, NPat.pyGen, extractImplies]
  cases h : NPat.headF n a with
  | none => rfl
  | some q =>
    cases q <;> try rfl
    rename_i l r
    simp only [fuel, assert_, ret, raise, Option.bind_eq_bind, Option.bind_some, Option.pure_def]
    cases NPat.evarIsFreeF n x r with
    | none => rfl
    | some e => cases e <;> rfl

theorem instantiate_eq (n : Nat) (a : NPat) (δ : List (Nat × NPat)) :
    Basic.instantiate n ⟨a⟩ δ = (NPat.pyInst n a δ).map (fun c => some ⟨c⟩) := by
  simp only [Basic.instantiate, NPat.pyInst]
  cases δ.isEmpty with
  | true => rfl
  | false =>
    simp only [fuel, ret]
    cases NPat.instF n δ a <;> rfl


/-! ## StatefulInterpreter: lemmas -/

theorem teqF_refl (n : Nat) (t : TTerm) (b : Bool) (ht : t.body.Shape = true)
    (h : teqF n t t = some b) : b = true := by
  cases t <;> exact NPat.peqF_refl n _ b ht h

theorem assert_refl {α} (n : Nat) (t : TTerm) (ht : t.body.Shape = true) (k : Py α) :
    (fuel (teqF n t t) fun b => assert_ b k) = chk n t k := by
  unfold chk fuel
  cases h : teqF n t t with
  | none => rfl
  | some b => cases teqF_refl n t b ht h; rfl

theorem go_refl (n : Nat) (l : List TTerm) (b : Bool) (hl : ∀ t ∈ l, t.body.Shape = true)
    (h : listEqF.go n l l = some b) : b = true := by
  induction l with
  | nil => simpa [listEqF.go] using h.symm
  | cons x xs ih =>
    simp only [listEqF.go, Option.bind_eq_bind, Option.bind_eq_some_iff] at h
    obtain ⟨e, he, h⟩ := h
    cases teqF_refl n x e (hl x (by simp)) he
    simp only [if_true] at h
    exact ih (fun t ht => hl t (List.mem_cons_of_mem _ ht)) h

theorem assertL_refl {α} (n : Nat) (l : List TTerm) (hl : ∀ t ∈ l, t.body.Shape = true) (k : Py α) :
    (fuel (listEqF n l l) fun b => assert_ b k) = chkL n l k := by
  unfold chkL fuel
  cases h : listEqF n l l with
  | none => rfl
  | some b =>
    have : b = true := by
      simp only [listEqF, bne_self_eq_false, Bool.false_eq_true, if_false] at h
      exact go_refl n l b hl h
    cases this; rfl

theorem takePlugs_slices : ∀ (k : Nat) (st : Stack) (plugs : List NPat) (st' : Stack),
    takePlugs k st = some (plugs, st') →
    plugs.length = k ∧ pyList (st.take k) = plugs.map TTerm.pat ∧ st.drop k = st' := by
  intro k
  induction k with
  | zero =>
    intro st plugs st' h
    simp only [takePlugs, Option.some.injEq, Prod.mk.injEq] at h
    obtain ⟨rfl, rfl⟩ := h
    simp [pyList]
  | succ k ih =>
    intro st plugs st' h
    match st, h with
    | (.pat p, b) :: st1, h =>
      simp only [takePlugs, Option.map_eq_some_iff] at h
      obtain ⟨⟨ps, st2⟩, h1, h2⟩ := h
      simp only [Prod.mk.injEq] at h2
      obtain ⟨rfl, rfl⟩ := h2
      obtain ⟨a, b', c⟩ := ih st1 ps st2 h1
      refine ⟨by simp [a], ?_, by simpa using c⟩
      simp only [pyList] at b' ⊢
      simp [← b', List.map_take]
    | (.proved p, b) :: st1, h => simp [takePlugs] at h
    | [], h => simp [takePlugs] at h

theorem memF_index (n : Nat) (t : TTerm) (mem : List TTerm) (i : Nat) :
    memF n t mem = (indexF n t mem i).map Option.isSome := by
  induction mem generalizing i with
  | nil => rfl
  | cons m r ih =>
    simp only [memF, indexF, Option.bind_eq_bind]
    cases teqF n m t with
    | none => rfl
    | some b => cases b <;> simp [ih (i + 1)]


/-! ## StatefulInterpreter: pattern builders -/

theorem evar_tie (n : Nat) (s : PySt) (x : VId) :
    Stateful.evar s x = withTopPat (track1 n s (.evar x)) := rfl
theorem svar_tie (n : Nat) (s : PySt) (x : VId) :
    Stateful.svar s x = withTopPat (track1 n s (.svar x)) := rfl
theorem metavar_tie (n : Nat) (s : PySt) (id : VId) (ef sf ps ns hs : List VId) :
    Stateful.metavar s id ef sf ps ns hs = withTopPat (track1 n s (.metavar id ef sf ps ns hs)) := rfl
/-- `symbol`: the model's `track1` additionally maintains the serializer's symbol table
(`SerializingInterpreter._symbol_identifiers`), which `StatefulInterpreter` does not have -/
theorem symbol_tie (n : Nat) (s : PySt) (nm : Nat) :
    Stateful.symbol s nm
      = withTopPat ((track1 n s (.symbol nm)).map (Option.map fun s' => { s' with symtab := s.symtab })) := rfl

theorem implies_tie (n : Nat) (s : PySt) (l r : NPat) (fl fr : Bool) (st : Stack)
    (hs : s.stack = (.pat r, fr) :: (.pat l, fl) :: st) (hl : l.Shape = true) (hr : r.Shape = true) :
    Stateful.implies n s l r = chk n (.pat l) (chk n (.pat r) (withTopPat (track1 n s .implies))) := by
  simp only [Stateful.implies, unpackLast2, hs, assert_refl n (.pat l) hl, assert_refl n (.pat r) hr, track1]
  rfl

theorem app_tie (n : Nat) (s : PySt) (l r : NPat) (fl fr : Bool) (st : Stack)
    (hs : s.stack = (.pat r, fr) :: (.pat l, fl) :: st) (hl : l.Shape = true) (hr : r.Shape = true) :
    Stateful.app n s l r = chk n (.pat l) (chk n (.pat r) (withTopPat (track1 n s .app))) := by
  simp only [Stateful.app, unpackLast2, hs, assert_refl n (.pat l) hl, assert_refl n (.pat r) hr, track1]
  rfl

theorem exists_tie (n : Nat) (s : PySt) (x : VId) (p : NPat) (f : Bool) (st : Stack)
    (hs : s.stack = (.pat p, f) :: st) (hp : p.Shape = true) :
    Stateful.«exists» n s x p = chk n (.pat p) (withTopPat (track1 n s (.ex x))) := by
  simp only [Stateful.«exists», unpackLast1, hs, assert_refl n (.pat p) hp, track1]
  rfl

theorem mu_tie (n : Nat) (s : PySt) (x : VId) (p : NPat) (f : Bool) (st : Stack)
    (hs : s.stack = (.pat p, f) :: st) (hp : p.Shape = true) :
    Stateful.mu n s x p = chk n (.pat p) (withTopPat (track1 n s (.mu x))) := by
  simp only [Stateful.mu, unpackLast1, hs, assert_refl n (.pat p) hp, track1]
  rfl

/-- `esubst(evar_id, pattern, plug)`: `pattern` is the top entry, `plug` the one below; the model
additionally refuses a `pattern` that violates the API typing `MetaVar | ESubst | SSubst` -/
theorem esubst_tie (n : Nat) (s : PySt) (x : VId) (p plug : NPat) (f1 f2 : Bool) (st : Stack)
    (hs : s.stack = (.pat p, f1) :: (.pat plug, f2) :: st) (hp : p.Shape = true)
    (hq : plug.Shape = true) (hm : p.isMetaHead = true) :
    Stateful.esubst n s x p plug
      = chk n (.pat p) (chk n (.pat plug) (withTopPat (track1 n s (.esubst x)))) := by
  simp only [Stateful.esubst, unpackLast2, hs, assert_refl n (.pat p) hp, assert_refl n (.pat plug) hq,
    track1, hm, if_true]
  rfl

theorem ssubst_tie (n : Nat) (s : PySt) (x : VId) (p plug : NPat) (f1 f2 : Bool) (st : Stack)
    (hs : s.stack = (.pat p, f1) :: (.pat plug, f2) :: st) (hp : p.Shape = true)
    (hq : plug.Shape = true) (hm : p.isMetaHead = true) :
    Stateful.ssubst n s x p plug
      = chk n (.pat p) (chk n (.pat plug) (withTopPat (track1 n s (.ssubst x)))) := by
  simp only [Stateful.ssubst, unpackLast2, hs, assert_refl n (.pat p) hp, assert_refl n (.pat plug) hq,
    track1, hm, if_true]
  rfl

/-! ## StatefulInterpreter: axioms and rules -/

theorem prop1_tie (n : Nat) (s : PySt) : Stateful.prop1 s = withTopProved (track1 n s .prop1) := rfl
theorem prop2_tie (n : Nat) (s : PySt) : Stateful.prop2 s = withTopProved (track1 n s .prop2) := rfl
theorem prop3_tie (n : Nat) (s : PySt) : Stateful.prop3 s = withTopProved (track1 n s .prop3) := rfl
theorem exists_quantifier_tie (n : Nat) (s : PySt) :
    Stateful.exists_quantifier s = withTopProved (track1 n s .quantifier) := rfl

theorem modus_ponens_tie (n : Nat) (s : PySt) (l r : NPat) (fl fr : Bool) (st : Stack)
    (hs : s.stack = (.proved r, fr) :: (.proved l, fl) :: st) (hl : l.Shape = true)
    (hr : r.Shape = true) :
    Stateful.modus_ponens n s ⟨l⟩ ⟨r⟩
      = chk n (.proved l) (chk n (.proved r) (withTopProved (track1 n s .mp))) := by
  simp only [Stateful.modus_ponens, unpackLast2, hs, ofProved, assert_refl n (.proved l) hl,
    assert_refl n (.proved r) hr, track1, modus_ponens_eq]
  refine congrArg _ (congrArg _ ?_)
  cases NPat.pyMP n l r with
  | none => rfl
  | some o => cases o <;> rfl

theorem exists_generalization_tie (n : Nat) (s : PySt) (a : NPat) (x : VId) (f : Bool) (st : Stack)
    (hs : s.stack = (.proved a, f) :: st) (ha : a.Shape = true) :
    Stateful.exists_generalization n s ⟨a⟩ x
      = chk n (.proved a) (withTopProved (track1 n s (.gen x))) := by
  simp only [Stateful.exists_generalization, unpackLast1, hs, ofProved, assert_refl n (.proved a) ha,
    track1, exists_generalization_eq]
  refine congrArg _ ?_
  cases NPat.pyGen n a x with
  | none => rfl
  | some o => cases o <;> rfl

/-! ## instantiate / instantiate_pattern -/

theorem zip_values (keys : List Nat) (plugs : List NPat) (h : plugs.length = keys.length) :
    deltaValues (keys.zip plugs) = plugs := by
  simp only [deltaValues]
  rw [← List.unzip_snd, List.unzip_zip (by omega)]

/-- `instantiate(proved, delta)`: `proved` is the top entry, `list(delta.values())` are the
`len(delta)` entries below it (deepest first), the keys of `delta` are the `keys` of the call -/
theorem instantiate_tie (n : Nat) (s : PySt) (a : NPat) (f : Bool) (st st' : Stack)
    (keys : List Nat) (plugs : List NPat)
    (hs : s.stack = (.proved a, f) :: st) (htp : takePlugs keys.length st = some (plugs, st'))
    (ha : a.Shape = true) (hp : ∀ p ∈ plugs, p.Shape = true) :
    Stateful.instantiate n s ⟨a⟩ (keys.zip plugs)
      = chk n (.proved a) (chkL n (plugs.map .pat)
          (withTopProved (track1 n s (.instantiate keys)))) := by
  obtain ⟨hlen, hsl, hdr⟩ := takePlugs_slices _ _ _ _ htp
  have hz : (keys.zip plugs).length = keys.length := by simp [hlen]
  have hp' : ∀ t ∈ plugs.map TTerm.pat, t.body.Shape = true := by
    intro t ht
    obtain ⟨p, hp1, rfl⟩ := List.mem_map.mp ht
    exact hp p hp1
  by_cases hk : keys = []
  · subst hk
    have : plugs = [] := List.eq_nil_of_length_eq_zero hlen
    subst this
    simp only [takePlugs, List.length_nil, Option.some.injEq, Prod.mk.injEq, true_and] at htp
    subst htp
    simp only [Stateful.instantiate, unpackLast1, hs, ofProved, List.zip_nil_left, List.length_nil,
      bne_self_eq_false, Bool.false_eq_true, if_false, assert_refl n (.proved a) ha, pyList,
      deltaValues, List.map_nil, List.reverse_nil, track1, List.isEmpty_nil, if_true, instantiate_eq,
      NPat.pyInst, assertL_refl n [] (by simp)]
    rfl
  · have hK : ¬ keys.length = 0 := fun h => hk (List.eq_nil_of_length_eq_zero h)
    have hne' : (keys.zip plugs).isEmpty = false := by
      cases hzp : keys.zip plugs with
      | nil => rw [hzp] at hz; exact absurd hz.symm hK
      | cons _ _ => rfl
    have hke : keys.isEmpty = false := by cases keys <;> simp_all
    simp only [Stateful.instantiate, unpackLast1, hs, ofProved, hz, bne_iff_ne, ne_eq, hK, not_false_eq_true,
      if_true, sliceFromNeg, sliceToNeg, if_false, hsl, hdr, zip_values _ _ hlen,
      assert_refl n (.proved a) ha, assertL_refl n _ hp', track1, htp, instantiate_eq, NPat.pyInst, hne',
      hke, Bool.false_eq_true]
    refine congrArg _ (congrArg _ ?_)
    cases NPat.instF n (keys.zip plugs) a <;> rfl

theorem instantiate_pattern_tie (n : Nat) (s : PySt) (a : NPat) (f : Bool) (st st' : Stack)
    (keys : List Nat) (plugs : List NPat)
    (hs : s.stack = (.pat a, f) :: st) (htp : takePlugs keys.length st = some (plugs, st'))
    (ha : a.Shape = true) (hp : ∀ p ∈ plugs, p.Shape = true) :
    Stateful.instantiate_pattern n s a (keys.zip plugs)
      = chk n (.pat a) (chkL n (plugs.map .pat)
          (withTopPat (track1 n s (.instantiatePattern keys)))) := by
  obtain ⟨hlen, hsl, hdr⟩ := takePlugs_slices _ _ _ _ htp
  have hz : (keys.zip plugs).length = keys.length := by simp [hlen]
  have hp' : ∀ t ∈ plugs.map TTerm.pat, t.body.Shape = true := by
    intro t ht
    obtain ⟨p, hp1, rfl⟩ := List.mem_map.mp ht
    exact hp p hp1
  by_cases hk : keys = []
  · subst hk
    have : plugs = [] := List.eq_nil_of_length_eq_zero hlen
    subst this
    simp only [takePlugs, List.length_nil, Option.some.injEq, Prod.mk.injEq, true_and] at htp
    subst htp
    simp only [Stateful.instantiate_pattern, unpackLast1, hs, List.zip_nil_left, List.length_nil,
      bne_self_eq_false, Bool.false_eq_true, if_false, assert_refl n (.pat a) ha, pyList,
      deltaValues, List.map_nil, List.reverse_nil, track1, takePlugs, assertL_refl n [] (by simp)]
    rfl
  · have hK : ¬ keys.length = 0 := fun h => hk (List.eq_nil_of_length_eq_zero h)
    simp only [Stateful.instantiate_pattern, unpackLast1, hs, hz, bne_iff_ne, ne_eq, hK, not_false_eq_true,
      if_true, sliceFromNeg, sliceToNeg, if_false, hsl, hdr, zip_values _ _ hlen,
      assert_refl n (.pat a) ha, assertL_refl n _ hp', track1, htp]
    rfl

/-! ## pop / save / load -/

theorem pop_tie (n : Nat) (s : PySt) (t : TTerm) (f : Bool) (st : Stack)
    (hs : s.stack = (t, f) :: st) (ht : t.body.Shape = true) :
    Stateful.pop n s t = chk n t (track1 n s .pop) := by
  simp only [Stateful.pop, topOf, popTop, hs, assert_refl n t ht, track1]
  rfl

theorem save_tie (n : Nat) (s : PySt) (id : Nat) (t : TTerm) (f : Bool) (st : Stack)
    (hs : s.stack = (t, f) :: st) (ht : t.body.Shape = true) :
    Stateful.save n s id t = chk n t (track1 n s .save) := by
  simp only [Stateful.save, topOf, hs, assert_refl n t ht, track1]
  rfl

/-- `load` has no stack argument: the translated method and the model agree on every input -/
theorem load_tie (n : Nat) (s : PySt) (id : Nat) (t : TTerm) :
    Stateful.load n s id t = track1 n s (.load t) := by
  simp only [Stateful.load, track1, memF_index n t s.memory 0, fuel, assert_, ret, raise,
    Option.bind_eq_bind, Option.pure_def]
  cases indexF n t s.memory 0 with
  | none => rfl
  | some o => cases o <;> rfl

/-! ## publish_* and the phase changes -/

/-- `publish_proof(proved)`: `proved` is the top entry.  The translated method leaves the stack
alone; the model marks the top entry as residue (ghost) -/
theorem publish_proof_tie (n : Nat) (s : PySt) (t : NPat) (f : Bool) (st : Stack)
    (hs : s.stack = (.proved t, f) :: st) (ht : t.Shape = true) :
    (Stateful.publish_proof n s ⟨t⟩).map (Option.map markTop)
      = call (track1 n s .publishProof) fun s' => chk n (.proved t) (ret s') := by
  simp only [Stateful.publish_proof, Basic.publish_proof, track1, hs, topOf, ofProved,
    assert_refl n (.proved t) ht]
  cases hph : s.phase <;> simp only [assert_, call, raise, ret, decide_true, decide_false, if_true, if_false,
      Bool.false_eq_true, reduceCtorEq] <;> try rfl
  cases hc : s.claims with
  | nil => rfl
  | cons c cs =>
    simp only [unpackFirst1, Claim.pattern, fuel, Option.bind_eq_bind, Option.pure_def]
    cases NPat.peqF n t c with
    | none => rfl
    | some b =>
      cases b
      · rfl
      · simp only [if_true, Option.bind_some, chk]
        cases teqF n (.proved t) (.proved t) <;> simp [markTop]

theorem publish_axiom_tie (n : Nat) (s : PySt) (a : NPat) (f : Bool) (st : Stack)
    (hs : s.stack = (.pat a, f) :: st) (ha : a.Shape = true) :
    (Stateful.publish_axiom n s a).map (Option.map markTop)
      = call (track1 n s .publishAxiom) fun s' => chk n (.pat a) (ret s') := by
  simp only [Stateful.publish_axiom, Basic.publish_axiom, track1, hs, ofProved, topOf,
    assert_refl n (.pat a) ha]
  cases hph : s.phase <;> simp only [assert_, call, raise, ret, decide_true, decide_false, if_true, if_false,
      Bool.false_eq_true, reduceCtorEq] <;> try rfl
  simp only [chk]
  cases teqF n (.pat a) (.pat a) <;> simp [markTop]

/-- `publish_claim` does not change the tracker's state at all (the model: ghost mark only) -/
theorem publish_claim_tie (n : Nat) (s : PySt) (a : NPat) (f : Bool) (st : Stack)
    (hs : s.stack = (.pat a, f) :: st) (ha : a.Shape = true) :
    (Stateful.publish_claim n s a).map (Option.map fun _ => markTop s)
      = call (track1 n s .publishClaim) fun s' => chk n (.pat a) (ret s') := by
  simp only [Stateful.publish_claim, Basic.publish_claim, track1, hs, topOf, assert_refl n (.pat a) ha]
  cases hph : s.phase <;> simp only [assert_, call, raise, ret, decide_true, decide_false, if_true, if_false,
      Bool.false_eq_true, reduceCtorEq] <;> try rfl
  simp only [chk]
  cases teqF n (.pat a) (.pat a) <;> simp [markTop, hs, hph]

theorem into_claim_phase_tie (n : Nat) (s : PySt) :
    Stateful.into_claim_phase s = track1 n s .intoClaim := by
  simp only [Stateful.into_claim_phase, Interp.into_claim_phase, track1]
  cases s.phase <;> rfl

theorem into_proof_phase_tie (n : Nat) (s : PySt) :
    Stateful.into_proof_phase s = track1 n s .intoProof := by
  simp only [Stateful.into_proof_phase, Interp.into_proof_phase, track1]
  cases s.phase <;> rfl

/-! ## the asserts are really there: a mismatching argument raises

`el`, `er`, `e` are arbitrary stack entries; the hypothesis says that Python's `==` between the entry
and the argument evaluates to `False` (for the second assert: after the first evaluated to `True`). -/

theorem implies_mismatch (n : Nat) (s : PySt) (l r : NPat) (el er : TTerm) (fl fr : Bool) (st : Stack)
    (hs : s.stack = (er, fr) :: (el, fl) :: st)
    (h : teqF n el (.pat l) = some false ∨
      (teqF n el (.pat l) = some true ∧ teqF n er (.pat r) = some false)) :
    Stateful.implies n s l r = some none := by
  simp only [Stateful.implies, unpackLast2, hs]
  rcases h with h | ⟨h1, h2⟩ <;> simp [fuel, assert_, raise, *]

theorem app_mismatch (n : Nat) (s : PySt) (l r : NPat) (el er : TTerm) (fl fr : Bool) (st : Stack)
    (hs : s.stack = (er, fr) :: (el, fl) :: st)
    (h : teqF n el (.pat l) = some false ∨
      (teqF n el (.pat l) = some true ∧ teqF n er (.pat r) = some false)) :
    Stateful.app n s l r = some none := by
  simp only [Stateful.app, unpackLast2, hs]
  rcases h with h | ⟨h1, h2⟩ <;> simp [fuel, assert_, raise, *]

theorem exists_mismatch (n : Nat) (s : PySt) (x : VId) (p : NPat) (e : TTerm) (f : Bool) (st : Stack)
    (hs : s.stack = (e, f) :: st) (h : teqF n e (.pat p) = some false) :
    Stateful.«exists» n s x p = some none := by
  simp [Stateful.«exists», unpackLast1, hs, fuel, assert_, raise, h]

theorem mu_mismatch (n : Nat) (s : PySt) (x : VId) (p : NPat) (e : TTerm) (f : Bool) (st : Stack)
    (hs : s.stack = (e, f) :: st) (h : teqF n e (.pat p) = some false) :
    Stateful.mu n s x p = some none := by
  simp [Stateful.mu, unpackLast1, hs, fuel, assert_, raise, h]

/-- `esubst`: `pattern` is compared with the top entry first, then `plug` with the entry below -/
theorem esubst_mismatch (n : Nat) (s : PySt) (x : VId) (p plug : NPat) (ep eq : TTerm) (f1 f2 : Bool)
    (st : Stack) (hs : s.stack = (ep, f1) :: (eq, f2) :: st)
    (h : teqF n ep (.pat p) = some false ∨
      (teqF n ep (.pat p) = some true ∧ teqF n eq (.pat plug) = some false)) :
    Stateful.esubst n s x p plug = some none := by
  simp only [Stateful.esubst, unpackLast2, hs]
  rcases h with h | ⟨h1, h2⟩ <;> simp [fuel, assert_, raise, *]

theorem ssubst_mismatch (n : Nat) (s : PySt) (x : VId) (p plug : NPat) (ep eq : TTerm) (f1 f2 : Bool)
    (st : Stack) (hs : s.stack = (ep, f1) :: (eq, f2) :: st)
    (h : teqF n ep (.pat p) = some false ∨
      (teqF n ep (.pat p) = some true ∧ teqF n eq (.pat plug) = some false)) :
    Stateful.ssubst n s x p plug = some none := by
  simp only [Stateful.ssubst, unpackLast2, hs]
  rcases h with h | ⟨h1, h2⟩ <;> simp [fuel, assert_, raise, *]

theorem modus_ponens_mismatch (n : Nat) (s : PySt) (l r : Proved) (el er : TTerm) (fl fr : Bool)
    (st : Stack) (hs : s.stack = (er, fr) :: (el, fl) :: st)
    (h : teqF n el (ofProved l) = some false ∨
      (teqF n el (ofProved l) = some true ∧ teqF n er (ofProved r) = some false)) :
    Stateful.modus_ponens n s l r = some none := by
  simp only [Stateful.modus_ponens, unpackLast2, hs]
  rcases h with h | ⟨h1, h2⟩ <;> simp [fuel, assert_, raise, *]

theorem exists_generalization_mismatch (n : Nat) (s : PySt) (a : Proved) (x : VId) (e : TTerm) (f : Bool)
    (st : Stack) (hs : s.stack = (e, f) :: st) (h : teqF n e (ofProved a) = some false) :
    Stateful.exists_generalization n s a x = some none := by
  simp [Stateful.exists_generalization, unpackLast1, hs, fuel, assert_, raise, h]

/-- `instantiate`: the proof is compared first, then the list of plugs (`stack[-len(delta):]`, taken
after the proof has been removed) with `list(delta.values())` -/
theorem instantiate_mismatch (n : Nat) (s : PySt) (a : Proved) (δ : List (Nat × NPat)) (e : TTerm)
    (f : Bool) (st : Stack) (hs : s.stack = (e, f) :: st)
    (h : teqF n e (ofProved a) = some false ∨
      (teqF n e (ofProved a) = some true ∧ δ ≠ [] ∧
        listEqF n (pyList (st.take δ.length)) ((deltaValues δ).map .pat) = some false)) :
    Stateful.instantiate n s a δ = some none := by
  simp only [Stateful.instantiate, unpackLast1, hs]
  rcases h with h | ⟨h1, hne, h2⟩
  · simp [fuel, assert_, raise, h]
  · have hK : ¬ δ.length = 0 := fun h => hne (List.eq_nil_of_length_eq_zero h)
    simp [fuel, assert_, raise, h1, h2, hK, sliceFromNeg]

theorem instantiate_pattern_mismatch (n : Nat) (s : PySt) (a : NPat) (δ : List (Nat × NPat)) (e : TTerm)
    (f : Bool) (st : Stack) (hs : s.stack = (e, f) :: st)
    (h : teqF n e (.pat a) = some false ∨
      (teqF n e (.pat a) = some true ∧ δ ≠ [] ∧
        listEqF n (pyList (st.take δ.length)) ((deltaValues δ).map .pat) = some false)) :
    Stateful.instantiate_pattern n s a δ = some none := by
  simp only [Stateful.instantiate_pattern, unpackLast1, hs]
  rcases h with h | ⟨h1, hne, h2⟩
  · simp [fuel, assert_, raise, h]
  · have hK : ¬ δ.length = 0 := fun h => hne (List.eq_nil_of_length_eq_zero h)
    simp [fuel, assert_, raise, h1, h2, hK, sliceFromNeg]

theorem pop_mismatch (n : Nat) (s : PySt) (t e : TTerm) (f : Bool) (st : Stack)
    (hs : s.stack = (e, f) :: st) (h : teqF n e t = some false) :
    Stateful.pop n s t = some none := by
  simp [Stateful.pop, topOf, hs, fuel, assert_, raise, h]

theorem save_mismatch (n : Nat) (s : PySt) (id : Nat) (t e : TTerm) (f : Bool) (st : Stack)
    (hs : s.stack = (e, f) :: st) (h : teqF n e t = some false) :
    Stateful.save n s id t = some none := by
  simp [Stateful.save, topOf, hs, fuel, assert_, raise, h]

/-- `publish_proof`: wrong phase, no claim left, a conclusion different from the next claim, or a
top entry different from the argument: each raises -/
theorem publish_proof_mismatch (n : Nat) (s : PySt) (p : Proved) :
    (s.phase ≠ .proof ∨ s.claims = [] ∨
      (∃ c cs, s.claims = c :: cs ∧ (NPat.peqF n p.conclusion c = some false ∨
        (NPat.peqF n p.conclusion c = some true ∧
          (s.stack = [] ∨ ∃ e f st, s.stack = (e, f) :: st ∧ teqF n e (ofProved p) = some false))))) →
    Stateful.publish_proof n s p = some none := by
  intro h
  simp only [Stateful.publish_proof, Basic.publish_proof]
  by_cases hph : s.phase = .proof
  · simp only [hph, decide_true, assert_, if_true, call, ret]
    rcases h with h | h | ⟨c, cs, hc, h⟩
    · exact absurd hph h
    · simp [unpackFirst1, h, raise]
    · simp only [unpackFirst1, hc, Claim.pattern]
      rcases h with h | ⟨h1, h | ⟨e, f, st, hs, h⟩⟩
      · simp [fuel, h, raise]
      · simp [fuel, h1, topOf, h, raise]
      · simp [fuel, h1, topOf, hs, h, raise]
  · simp [hph, assert_, raise, call]

theorem publish_axiom_mismatch (n : Nat) (s : PySt) (a : NPat) :
    (s.phase ≠ .gamma ∨ s.stack = [] ∨ ∃ e f st, s.stack = (e, f) :: st ∧ teqF n e (.pat a) = some false) →
    Stateful.publish_axiom n s a = some none := by
  intro h
  simp only [Stateful.publish_axiom, Basic.publish_axiom]
  by_cases hph : s.phase = .gamma
  · simp only [hph, decide_true, assert_, if_true, call, ret]
    rcases h with h | h | ⟨e, f, st, hs, h⟩
    · exact absurd hph h
    · simp [topOf, h, raise]
    · simp [topOf, hs, fuel, h, raise]
  · simp [hph, assert_, raise, call]

theorem publish_claim_mismatch (n : Nat) (s : PySt) (a : NPat) :
    (s.phase ≠ .claim ∨ s.stack = [] ∨ ∃ e f st, s.stack = (e, f) :: st ∧ teqF n e (.pat a) = some false) →
    Stateful.publish_claim n s a = some none := by
  intro h
  simp only [Stateful.publish_claim, Basic.publish_claim]
  by_cases hph : s.phase = .claim
  · simp only [hph, decide_true, assert_, if_true, call, ret]
    rcases h with h | h | ⟨e, f, st, hs, h⟩
    · exact absurd hph h
    · simp [topOf, h, raise]
    · simp [topOf, hs, fuel, h, raise]
  · simp [hph, assert_, raise, call]

/-! ## a stack that is too short raises (`ValueError` of the unpacking / `IndexError`) -/

theorem unpackLast2_short {β} (stk : Stack) (k : Stack → TTerm → TTerm → Py β) (h : stk.length < 2) :
    unpackLast2 stk k = some none := by
  match stk, h with
  | [], _ => rfl
  | [_], _ => rfl

theorem two_underflow (n : Nat) (s : PySt) (h : s.stack.length < 2) :
    (∀ l r, Stateful.implies n s l r = some none) ∧ (∀ l r, Stateful.app n s l r = some none) ∧
    (∀ x p q, Stateful.esubst n s x p q = some none) ∧ (∀ x p q, Stateful.ssubst n s x p q = some none) ∧
    (∀ l r, Stateful.modus_ponens n s l r = some none) := by
  refine ⟨?_, ?_, ?_, ?_, ?_⟩ <;> intros <;>
    simp only [Stateful.implies, Stateful.app, Stateful.esubst, Stateful.ssubst, Stateful.modus_ponens,
      unpackLast2_short _ _ h]

theorem one_underflow (n : Nat) (s : PySt) (h : s.stack = []) :
    (∀ x p, Stateful.«exists» n s x p = some none) ∧ (∀ x p, Stateful.mu n s x p = some none) ∧
    (∀ a x, Stateful.exists_generalization n s a x = some none) ∧
    (∀ a δ, Stateful.instantiate n s a δ = some none) ∧
    (∀ a δ, Stateful.instantiate_pattern n s a δ = some none) ∧
    (∀ t, Stateful.pop n s t = some none) ∧ (∀ id t, Stateful.save n s id t = some none) := by
  refine ⟨?_, ?_, ?_, ?_, ?_, ?_, ?_⟩ <;> intros <;>
    simp [Stateful.«exists», Stateful.mu, Stateful.exists_generalization, Stateful.instantiate,
      Stateful.instantiate_pattern, Stateful.pop, Stateful.save, unpackLast1, topOf, h, raise]

/-! ## when the model finds no plugs (`takePlugs = none`), Python accepts no `delta` of that size -/

theorem go_true_pats (n : Nat) : ∀ (xs : List TTerm) (vals : List NPat),
    xs.length = vals.length → listEqF.go n xs (vals.map .pat) = some true →
    ∀ x ∈ xs, ∃ p, x = .pat p := by
  intro xs
  induction xs with
  | nil => intro _ _ _ x hx; cases hx
  | cons x xs ih =>
    intro vals hl h
    cases vals with
    | nil => simp at hl
    | cons v vs =>
      simp only [List.map_cons, listEqF.go, Option.bind_eq_bind, Option.bind_eq_some_iff] at h
      obtain ⟨b, hb, h⟩ := h
      cases b with
      | false => simp at h
      | true =>
        simp only [if_true] at h
        intro y hy
        rcases List.mem_cons.mp hy with rfl | hy
        · cases y with
          | pat p => exact ⟨p, rfl⟩
          | proved p => simp [teqF] at hb
        · exact ih vs (by simpa using hl) h y hy

theorem takePlugs_of_pats : ∀ (k : Nat) (st : Stack), k ≤ st.length →
    (∀ e ∈ st.take k, ∃ p, e.1 = TTerm.pat p) → takePlugs k st ≠ none := by
  intro k
  induction k with
  | zero => intro st _ _; simp [takePlugs]
  | succ k ih =>
    intro st hl hp
    match st, hl, hp with
    | [], hl, _ => simp at hl
    | (t, b) :: st1, hl, hp =>
      obtain ⟨p, hp0⟩ := hp (t, b) (by simp)
      simp only at hp0
      subst hp0
      have := ih st1 (by simpa using hl) (fun e he => hp e (by simp [he]))
      cases h : takePlugs k st1 with
      | none => exact absurd h this
      | some r => simp [takePlugs, h]

theorem listEq_true_takePlugs (n : Nat) (st : Stack) (vals : List NPat)
    (h : listEqF n (pyList (st.take vals.length)) (vals.map .pat) = some true) :
    takePlugs vals.length st ≠ none := by
  simp only [listEqF] at h
  split at h
  · simp at h
  · rename_i hlen
    simp only [bne_iff_ne, ne_eq, Decidable.not_not, pyList, List.length_reverse, List.length_map,
      List.length_take] at hlen
    have hpats := go_true_pats n _ vals (by simp [pyList, hlen]) h
    apply takePlugs_of_pats _ _ (by omega)
    intro e he
    exact hpats e.1 (by simp only [pyList, List.mem_reverse, List.mem_map]; exact ⟨e, he, rfl⟩)

theorem instantiate_noplugs (n : Nat) (s : PySt) (a : Proved) (δ : List (Nat × NPat)) (e : TTerm)
    (f : Bool) (st : Stack) (hs : s.stack = (e, f) :: st) (hδ : δ ≠ [])
    (htp : takePlugs δ.length st = none) (x : PySt × Proved) :
    Stateful.instantiate n s a δ ≠ some (some x) := by
  intro h
  have hK : ¬ δ.length = 0 := fun h => hδ (List.eq_nil_of_length_eq_zero h)
  have hvl : (deltaValues δ).length = δ.length := by simp [deltaValues]
  simp only [Stateful.instantiate, unpackLast1, hs, bne_iff_ne, ne_eq, hK, not_false_eq_true, if_true,
    sliceFromNeg, if_false] at h
  cases h1 : teqF n e (ofProved a) with
  | none => simp [fuel, h1] at h
  | some b1 =>
    cases h2 : listEqF n (pyList (st.take δ.length)) ((deltaValues δ).map .pat) with
    | none => cases b1 <;> simp [fuel, h1, h2, assert_, raise] at h
    | some b2 =>
      cases b2 with
      | false => cases b1 <;> simp [fuel, h1, h2, assert_, raise] at h
      | true =>
        rw [← hvl] at h2
        exact listEq_true_takePlugs n st _ h2 (by rw [hvl]; exact htp)

theorem instantiate_pattern_noplugs (n : Nat) (s : PySt) (a : NPat) (δ : List (Nat × NPat)) (e : TTerm)
    (f : Bool) (st : Stack) (hs : s.stack = (e, f) :: st) (hδ : δ ≠ [])
    (htp : takePlugs δ.length st = none) (x : PySt × NPat) :
    Stateful.instantiate_pattern n s a δ ≠ some (some x) := by
  intro h
  have hK : ¬ δ.length = 0 := fun h => hδ (List.eq_nil_of_length_eq_zero h)
  have hvl : (deltaValues δ).length = δ.length := by simp [deltaValues]
  simp only [Stateful.instantiate_pattern, unpackLast1, hs, bne_iff_ne, ne_eq, hK, not_false_eq_true, if_true,
    sliceFromNeg, if_false] at h
  cases h1 : teqF n e (.pat a) with
  | none => simp [fuel, h1] at h
  | some b1 =>
    cases h2 : listEqF n (pyList (st.take δ.length)) ((deltaValues δ).map .pat) with
    | none => cases b1 <;> simp [fuel, h1, h2, assert_, raise] at h
    | some b2 =>
      cases b2 with
      | false => cases b1 <;> simp [fuel, h1, h2, assert_, raise] at h
      | true =>
        rw [← hvl] at h2
        exact listEq_true_takePlugs n st _ h2 (by rw [hvl]; exact htp)

/-! ## the whole interface at once

`pyCall n s c`: the translated `StatefulInterpreter` method for the call `c`, invoked with the
arguments the modelled calling convention prescribes — the very terms on the stack of `s`; `none`
when the stack does not hold terms of the types the method's signature demands (then no well-typed
call with the stack's terms exists; the harness refuses such calls, DESIGN.md C04).  The results
are brought to the model's form: the returned value is dropped (it is the new top, see `*_tie`),
the ghost residue mark of `publish_*` and the serializer's symbol table of `symbol` are added. -/

def dropRet {α} (r : Py (PySt × α)) : Py PySt := r.map (Option.map Prod.fst)

def pyCall (n : Nat) (s : PySt) : Call → Option (Py PySt)
  | .evar x => some (dropRet (Stateful.evar s x))
  | .svar x => some (dropRet (Stateful.svar s x))
  | .symbol nm => some ((dropRet (Stateful.symbol s nm)).map (Option.map fun s' =>
      { s' with symtab := if s.symtab.contains nm then s.symtab else s.symtab ++ [nm] }))
  | .metavar id ef sf ps ns hs => some (dropRet (Stateful.metavar s id ef sf ps ns hs))
  | .implies => match s.stack with
      | (.pat r, _) :: (.pat l, _) :: _ => some (dropRet (Stateful.implies n s l r))
      | _ => none
  | .app => match s.stack with
      | (.pat r, _) :: (.pat l, _) :: _ => some (dropRet (Stateful.app n s l r))
      | _ => none
  | .ex x => match s.stack with
      | (.pat p, _) :: _ => some (dropRet (Stateful.«exists» n s x p))
      | _ => none
  | .mu x => match s.stack with
      | (.pat p, _) :: _ => some (dropRet (Stateful.mu n s x p))
      | _ => none
  | .esubst x => match s.stack with
      | (.pat p, _) :: (.pat plug, _) :: _ =>
          if p.isMetaHead then some (dropRet (Stateful.esubst n s x p plug)) else none
      | _ => none
  | .ssubst x => match s.stack with
      | (.pat p, _) :: (.pat plug, _) :: _ =>
          if p.isMetaHead then some (dropRet (Stateful.ssubst n s x p plug)) else none
      | _ => none
  | .prop1 => some (dropRet (Stateful.prop1 s))
  | .prop2 => some (dropRet (Stateful.prop2 s))
  | .prop3 => some (dropRet (Stateful.prop3 s))
  | .quantifier => some (dropRet (Stateful.exists_quantifier s))
  | .mp => match s.stack with
      | (.proved r, _) :: (.proved l, _) :: _ => some (dropRet (Stateful.modus_ponens n s ⟨l⟩ ⟨r⟩))
      | _ => none
  | .gen x => match s.stack with
      | (.proved a, _) :: _ => some (dropRet (Stateful.exists_generalization n s ⟨a⟩ x))
      | _ => none
  | .instantiate keys => match s.stack with
      | (.proved a, _) :: st =>
          match takePlugs keys.length st with
          | some (plugs, _) => some (dropRet (Stateful.instantiate n s ⟨a⟩ (keys.zip plugs)))
          | none => none
      | _ => none
  | .instantiatePattern keys => match s.stack with
      | (.pat a, _) :: st =>
          match takePlugs keys.length st with
          | some (plugs, _) => some (dropRet (Stateful.instantiate_pattern n s a (keys.zip plugs)))
          | none => none
      | _ => none
  | .pop => match s.stack with
      | (t, _) :: _ => some (Stateful.pop n s t)
      | [] => none
  | .save => match s.stack with
      | (t, _) :: _ => some (Stateful.save n s 0 t)      -- the `id: str` argument is not used
      | [] => none
  | .load t => some (Stateful.load n s 0 t)
  | .publishProof => match s.stack with
      | (.proved t, _) :: _ => some ((Stateful.publish_proof n s ⟨t⟩).map (Option.map markTop))
      | _ => none
  | .publishAxiom => match s.stack with
      | (.pat a, _) :: _ => some ((Stateful.publish_axiom n s a).map (Option.map markTop))
      | _ => none
  | .publishClaim => match s.stack with
      | (.pat a, _) :: _ => some ((Stateful.publish_claim n s a).map (Option.map fun _ => markTop s))
      | _ => none
  | .intoClaim => some (Stateful.into_claim_phase s)
  | .intoProof => some (Stateful.into_proof_phase s)

/-- every stack entry is well-shaped (part of the invariant `ShapeSt` of `Pi2.TrackerThm`) -/
def ShapeStack (s : PySt) : Prop := ∀ e ∈ s.stack, e.1.body.Shape = true

/-- the fuel `n` suffices to compare every stack entry with itself -/
def SelfEq (n : Nat) (s : PySt) : Prop := ∀ e ∈ s.stack, teqF n e.1 e.1 ≠ none

theorem dropRet_withTopPat (r : Py PySt) : dropRet (withTopPat r) = r := by
  rcases r with _ | _ | _ <;> rfl
theorem dropRet_withTopProved (r : Py PySt) : dropRet (withTopProved r) = r := by
  rcases r with _ | _ | _ <;> rfl
theorem dropRet_chk {α} (n : Nat) (t : TTerm) (k : Py (PySt × α)) :
    dropRet (chk n t k) = chk n t (dropRet k) := by
  unfold chk; cases teqF n t t <;> rfl
theorem dropRet_chkL {α} (n : Nat) (l : List TTerm) (k : Py (PySt × α)) :
    dropRet (chkL n l k) = chkL n l (dropRet k) := by
  unfold chkL; cases listEqF n l l <;> rfl

theorem chk_sound {α} {n : Nat} {t : TTerm} {k : Py α} {r : Option α} (h : chk n t k = some r) :
    k = some r := by
  unfold chk at h; cases h' : teqF n t t <;> simp_all
theorem chkL_sound {α} {n : Nat} {l : List TTerm} {k : Py α} {r : Option α} (h : chkL n l k = some r) :
    k = some r := by
  unfold chkL at h; cases h' : listEqF n l l <;> simp_all
theorem chk_defined {α} {n : Nat} {t : TTerm} (k : Py α) (h : teqF n t t ≠ none) : chk n t k = k := by
  unfold chk; cases h' : teqF n t t <;> simp_all
theorem chkL_defined {α} {n : Nat} {l : List TTerm} (k : Py α) (h : ∀ t ∈ l, teqF n t t ≠ none)
    (hl : ∀ t ∈ l, t.body.Shape = true) : chkL n l k = k := by
  have : listEqF n l l = some true := by
    simp only [listEqF, bne_self_eq_false, Bool.false_eq_true, if_false]
    induction l with
    | nil => rfl
    | cons x xs ih =>
      have hx : teqF n x x = some true := by
        cases hx : teqF n x x with
        | none => exact absurd hx (h x (by simp))
        | some b => rw [teqF_refl n x b (hl x (by simp)) hx]
      simp only [listEqF.go, hx, Option.bind_eq_bind, Option.bind_some, if_true]
      exact ih (fun t ht => h t (List.mem_cons_of_mem _ ht)) (fun t ht => hl t (List.mem_cons_of_mem _ ht))
  simp [chkL, this]
theorem call_chk_sound {n : Nat} {t : TTerm} {x : Py PySt} {r : Option PySt}
    (h : (call x fun s' => chk n t (ret s')) = some r) : x = some r := by
  rcases x with _ | _ | s'
  · cases h
  · simpa [call] using h
  · simp only [call] at h
    have := chk_sound h
    simpa [ret] using this
theorem call_chk_defined {n : Nat} {t : TTerm} (x : Py PySt) (h : teqF n t t ≠ none) :
    (call x fun s' => chk n t (ret s')) = x := by
  rcases x with _ | _ | s'
  · rfl
  · rfl
  · simp only [call, chk_defined _ h]; rfl

theorem plugs_on_stack {k : Nat} {st st' : Stack} {plugs : List NPat}
    (h : takePlugs k st = some (plugs, st')) : ∀ p ∈ plugs, ∃ b, (TTerm.pat p, b) ∈ st := by
  intro p hp
  obtain ⟨_, hsl, _⟩ := takePlugs_slices _ _ _ _ h
  have : TTerm.pat p ∈ pyList (st.take k) := by rw [hsl]; exact List.mem_map.mpr ⟨p, hp, rfl⟩
  simp only [pyList, List.mem_reverse, List.mem_map] at this
  obtain ⟨⟨t, b⟩, he, rfl⟩ := this
  exact ⟨b, List.mem_of_mem_take he⟩

theorem shape_top {s : PySt} (hsh : ShapeStack s) {t : TTerm} {f : Bool} {st : Stack}
    (hs : s.stack = (t, f) :: st) : t.body.Shape = true := hsh (t, f) (by rw [hs]; simp)
theorem shape_snd {s : PySt} (hsh : ShapeStack s) {t u : TTerm} {f g : Bool} {st : Stack}
    (hs : s.stack = (t, f) :: (u, g) :: st) : u.body.Shape = true := hsh (u, g) (by rw [hs]; simp)
theorem shape_plugs {s : PySt} (hsh : ShapeStack s) {t : TTerm} {f : Bool} {st st' : Stack} {k : Nat}
    {plugs : List NPat} (hs : s.stack = (t, f) :: st) (h : takePlugs k st = some (plugs, st')) :
    ∀ p ∈ plugs, p.Shape = true := by
  intro p hp
  obtain ⟨b, hb⟩ := plugs_on_stack h p hp
  exact hsh (.pat p, b) (by rw [hs]; exact List.mem_cons_of_mem _ hb)

/-- `Costs n s g x`: the translated method's answer `g` is the model's answer `x` preceded (or, for
`publish_*`, followed) by reflexive comparisons `t == t` of entries `t` of the stack of `s` -/
inductive Costs (n : Nat) (s : PySt) : Py PySt → Py PySt → Prop
  | done (x : Py PySt) : Costs n s x x
  | chk (t : TTerm) (h : ∃ f, (t, f) ∈ s.stack) {g x : Py PySt} : Costs n s g x → Costs n s (chk n t g) x
  | chkL (l : List TTerm) (h : ∀ t ∈ l, ∃ f, (t, f) ∈ s.stack) {g x : Py PySt} :
      Costs n s g x → Costs n s (chkL n l g) x
  | after (t : TTerm) (h : ∃ f, (t, f) ∈ s.stack) (x : Py PySt) :
      Costs n s (call x fun s' => InterpTie.chk n t (ret s')) x

theorem Costs.sound {n : Nat} {s : PySt} {g x : Py PySt} (h : Costs n s g x) :
    ∀ r, g = some r → x = some r := by
  induction h with
  | done x => exact fun _ h => h
  | chk t _ _ ih => exact fun r h => ih r (chk_sound h)
  | chkL l _ _ ih => exact fun r h => ih r (chkL_sound h)
  | after t _ x => exact fun r h => call_chk_sound h

theorem Costs.exact {n : Nat} {s : PySt} {g x : Py PySt} (h : Costs n s g x) (hsh : ShapeStack s)
    (hse : SelfEq n s) : g = x := by
  induction h with
  | done x => rfl
  | chk t ht _ ih => obtain ⟨f, hf⟩ := ht; rw [chk_defined _ (hse _ hf), ih]
  | chkL l hl _ ih =>
    rw [chkL_defined _ (fun t ht => by obtain ⟨f, hf⟩ := hl t ht; exact hse _ hf)
      (fun t ht => by obtain ⟨f, hf⟩ := hl t ht; exact hsh _ hf), ih]
  | after t ht x => obtain ⟨f, hf⟩ := ht; exact call_chk_defined x (hse _ hf)

/-- the translated method, called with the stack's own terms, is the model's `track1` up to the
reflexive comparisons of the `assert expected == arg` statements -/
theorem pyCall_costs (n : Nat) (s : PySt) (c : Call) (g : Py PySt)
    (hsh : ShapeStack s) (hg : pyCall n s c = some g) : Costs n s g (track1 n s c) := by
  cases c <;> simp only [pyCall, Option.some.injEq] at hg
  case evar x => subst hg; exact .done _
  case svar x => subst hg; exact .done _
  case symbol nm => subst hg; exact .done _
  case metavar => subst hg; exact .done _
  case prop1 => subst hg; exact .done _
  case prop2 => subst hg; exact .done _
  case prop3 => subst hg; exact .done _
  case quantifier => subst hg; exact .done _
  case load t => subst hg; rw [load_tie n s 0 t]; exact .done _
  case intoClaim => subst hg; rw [into_claim_phase_tie n s]; exact .done _
  case intoProof => subst hg; rw [into_proof_phase_tie n s]; exact .done _
  case implies =>
    split at hg
    next r' fr l' fl st hs =>
      simp only [Option.some.injEq] at hg; subst hg
      rw [implies_tie n s _ _ _ _ _ hs (shape_snd hsh hs) (shape_top hsh hs), dropRet_chk, dropRet_chk,
        dropRet_withTopPat]
      exact .chk _ ⟨fl, by rw [hs]; simp⟩ (.chk _ ⟨fr, by rw [hs]; simp⟩ (.done _))
    next => cases hg
  case app =>
    split at hg
    next r' fr l' fl st hs =>
      simp only [Option.some.injEq] at hg; subst hg
      rw [app_tie n s _ _ _ _ _ hs (shape_snd hsh hs) (shape_top hsh hs), dropRet_chk, dropRet_chk,
        dropRet_withTopPat]
      exact .chk _ ⟨fl, by rw [hs]; simp⟩ (.chk _ ⟨fr, by rw [hs]; simp⟩ (.done _))
    next => cases hg
  case ex x =>
    split at hg
    next p f st hs =>
      simp only [Option.some.injEq] at hg; subst hg
      rw [exists_tie n s x _ _ _ hs (shape_top hsh hs), dropRet_chk, dropRet_withTopPat]
      exact .chk _ ⟨f, by rw [hs]; simp⟩ (.done _)
    next => cases hg
  case mu x =>
    split at hg
    next p f st hs =>
      simp only [Option.some.injEq] at hg; subst hg
      rw [mu_tie n s x _ _ _ hs (shape_top hsh hs), dropRet_chk, dropRet_withTopPat]
      exact .chk _ ⟨f, by rw [hs]; simp⟩ (.done _)
    next => cases hg
  case esubst x =>
    split at hg
    next p f1 plug f2 st hs =>
      split at hg
      next hm =>
        simp only [Option.some.injEq] at hg; subst hg
        rw [esubst_tie n s x _ _ _ _ _ hs (shape_top hsh hs) (shape_snd hsh hs) hm, dropRet_chk,
          dropRet_chk, dropRet_withTopPat]
        exact .chk _ ⟨f1, by rw [hs]; simp⟩ (.chk _ ⟨f2, by rw [hs]; simp⟩ (.done _))
      next => cases hg
    next => cases hg
  case ssubst x =>
    split at hg
    next p f1 plug f2 st hs =>
      split at hg
      next hm =>
        simp only [Option.some.injEq] at hg; subst hg
        rw [ssubst_tie n s x _ _ _ _ _ hs (shape_top hsh hs) (shape_snd hsh hs) hm, dropRet_chk,
          dropRet_chk, dropRet_withTopPat]
        exact .chk _ ⟨f1, by rw [hs]; simp⟩ (.chk _ ⟨f2, by rw [hs]; simp⟩ (.done _))
      next => cases hg
    next => cases hg
  case mp =>
    split at hg
    next r' fr l' fl st hs =>
      simp only [Option.some.injEq] at hg; subst hg
      rw [modus_ponens_tie n s _ _ _ _ _ hs (shape_snd hsh hs) (shape_top hsh hs), dropRet_chk,
        dropRet_chk, dropRet_withTopProved]
      exact .chk _ ⟨fl, by rw [hs]; simp⟩ (.chk _ ⟨fr, by rw [hs]; simp⟩ (.done _))
    next => cases hg
  case gen x =>
    split at hg
    next a f st hs =>
      simp only [Option.some.injEq] at hg; subst hg
      rw [exists_generalization_tie n s _ x _ _ hs (shape_top hsh hs), dropRet_chk,
        dropRet_withTopProved]
      exact .chk _ ⟨f, by rw [hs]; simp⟩ (.done _)
    next => cases hg
  case instantiate keys =>
    split at hg
    next a f st hs =>
      split at hg
      next plugs st' htp =>
        simp only [Option.some.injEq] at hg; subst hg
        rw [instantiate_tie n s _ _ _ _ _ _ hs htp (shape_top hsh hs) (shape_plugs hsh hs htp),
          dropRet_chk, dropRet_chkL, dropRet_withTopProved]
        refine .chk _ ⟨f, by rw [hs]; simp⟩ (.chkL _ ?_ (.done _))
        intro t ht
        obtain ⟨p, hp, rfl⟩ := List.mem_map.mp ht
        obtain ⟨b, hb⟩ := plugs_on_stack htp p hp
        exact ⟨b, by rw [hs]; exact List.mem_cons_of_mem _ hb⟩
      next => cases hg
    next => cases hg
  case instantiatePattern keys =>
    split at hg
    next a f st hs =>
      split at hg
      next plugs st' htp =>
        simp only [Option.some.injEq] at hg; subst hg
        rw [instantiate_pattern_tie n s _ _ _ _ _ _ hs htp (shape_top hsh hs) (shape_plugs hsh hs htp),
          dropRet_chk, dropRet_chkL, dropRet_withTopPat]
        refine .chk _ ⟨f, by rw [hs]; simp⟩ (.chkL _ ?_ (.done _))
        intro t ht
        obtain ⟨p, hp, rfl⟩ := List.mem_map.mp ht
        obtain ⟨b, hb⟩ := plugs_on_stack htp p hp
        exact ⟨b, by rw [hs]; exact List.mem_cons_of_mem _ hb⟩
      next => cases hg
    next => cases hg
  case pop =>
    split at hg
    next t f st hs =>
      simp only [Option.some.injEq] at hg; subst hg
      rw [pop_tie n s _ _ _ hs (shape_top hsh hs)]
      exact .chk _ ⟨f, by rw [hs]; simp⟩ (.done _)
    next => cases hg
  case save =>
    split at hg
    next t f st hs =>
      simp only [Option.some.injEq] at hg; subst hg
      rw [save_tie n s 0 _ _ _ hs (shape_top hsh hs)]
      exact .chk _ ⟨f, by rw [hs]; simp⟩ (.done _)
    next => cases hg
  case publishProof =>
    split at hg
    next t f st hs =>
      simp only [Option.some.injEq] at hg; subst hg
      rw [publish_proof_tie n s _ _ _ hs (shape_top hsh hs)]
      exact .after _ ⟨f, by rw [hs]; simp⟩ _
    next => cases hg
  case publishAxiom =>
    split at hg
    next t f st hs =>
      simp only [Option.some.injEq] at hg; subst hg
      rw [publish_axiom_tie n s _ _ _ hs (shape_top hsh hs)]
      exact .after _ ⟨f, by rw [hs]; simp⟩ _
    next => cases hg
  case publishClaim =>
    split at hg
    next t f st hs =>
      simp only [Option.some.injEq] at hg; subst hg
      rw [publish_claim_tie n s _ _ _ hs (shape_top hsh hs)]
      exact .after _ ⟨f, by rw [hs]; simp⟩ _
    next => cases hg

/-- **(a)** whatever the Python tracker answers for a call made with the stack's own terms — a new
state or an exception — is the model's answer, at the same fuel -/
theorem pyCall_sound (n : Nat) (s : PySt) (c : Call) (g : Py PySt) (r : Option PySt)
    (hsh : ShapeStack s) (hg : pyCall n s c = some g) (hr : g = some r) : track1 n s c = some r :=
  (pyCall_costs n s c g hsh hg).sound r hr

/-- **(b)** at a fuel that suffices to compare the stack entries with themselves the two coincide
(also on "out of fuel") -/
theorem pyCall_exact (n : Nat) (s : PySt) (c : Call) (g : Py PySt)
    (hsh : ShapeStack s) (hse : SelfEq n s) (hg : pyCall n s c = some g) : g = track1 n s c :=
  (pyCall_costs n s c g hsh hg).exact hsh hse

/-- **(b')** an answer of the model is the Python tracker's answer at every larger fuel that
suffices for the reflexive comparisons -/
theorem pyCall_complete (n m : Nat) (s : PySt) (c : Call) (g : Py PySt) (r : Option PySt)
    (hsh : ShapeStack s) (ht : track1 n s c = some r) (hnm : n ≤ m) (hse : SelfEq m s)
    (hg : pyCall m s c = some g) : g = some r := by
  rw [pyCall_exact m s c g hsh hse hg]
  exact PySt.track1_mono hnm s c r ht

/-- **(c)** when the stack does not hold arguments of the types the method's signature demands, the
model refuses the call -/
theorem pyCall_none (n : Nat) (s : PySt) (c : Call) (h : pyCall n s c = none) :
    track1 n s c = some none := by
  cases c <;> simp only [pyCall] at h <;> simp only [track1] <;> first | cases h | skip
  case implies | app | mp =>
    split at h
    · cases h
    · rename_i hx
      split
      · rename_i hs; exact (hx _ _ _ _ _ hs).elim
      · rfl
  case ex | mu | gen =>
    split at h
    · cases h
    · rename_i hx
      split
      · rename_i hs; exact (hx _ _ _ hs).elim
      · rfl
  case esubst | ssubst =>
    split at h
    · rename_i hs
      simp only [hs]
      split at h
      · cases h
      · rename_i hm; simp only [hm]; rfl
    · rename_i hx
      split
      · rename_i hs; exact (hx _ _ _ _ _ hs).elim
      · rfl
  case instantiate keys =>
    split at h
    · rename_i hs
      simp only [hs]
      split at h
      · cases h
      · rename_i htp
        simp only [htp]
        split
        · rename_i hk
          rw [List.isEmpty_iff.mp hk] at htp
          simp [takePlugs] at htp
        · rfl
    · rename_i hx
      split
      · rename_i hs; exact (hx _ _ _ hs).elim
      · rfl
  case instantiatePattern keys =>
    split at h
    · rename_i hs
      simp only [hs]
      split at h
      · cases h
      · rename_i htp
        simp only [htp]
    · rename_i hx
      split
      · rename_i hs; exact (hx _ _ _ hs).elim
      · rfl
  case pop | save =>
    split at h
    · cases h
    · rename_i hs; simp only [hs]
  case publishProof =>
    split at h
    · cases h
    · rename_i hx
      split
      · rename_i hs _; exact (hx _ _ _ hs).elim
      · rfl
  case publishAxiom | publishClaim =>
    split at h
    · cases h
    · rename_i hx
      split
      · rename_i hs; exact (hx _ _ _ hs).elim
      · rfl

/-! ## the one difference on the modelled interface: the API typing of `esubst` / `ssubst`

Python does not check `pattern: MetaVar | ESubst | SSubst` at run time; the model refuses such a
call (`Tracker.lean`: "the harness refuses ill-typed calls").  Concretely, with `EVar(0)` on top of
`EVar(1)`, `esubst(0, EVar(0), EVar(1))` succeeds in Python and raises in the model. -/
def esubstWitness : PySt :=
  { phase := .gamma, stack := [(.pat (.evar 0), false), (.pat (.evar 1), false)], memory := [], claims := [],
    symtab := [] }

theorem esubst_untyped :
    track1 2 esubstWitness (.esubst 0) = some none ∧
    Stateful.esubst 2 esubstWitness 0 (.evar 0) (.evar 1)
      = some (some ({ esubstWitness with stack := [(.pat (.esub (.evar 0) 0 (.evar 1)), false)] },
          .esub (.evar 0) 0 (.evar 1))) :=
  ⟨rfl, rfl⟩

end InterpTie

#print axioms InterpTie.translated
#print axioms InterpTie.modus_ponens_eq
#print axioms InterpTie.exists_generalization_eq
#print axioms InterpTie.instantiate_eq
#print axioms InterpTie.implies_tie
#print axioms InterpTie.esubst_tie
#print axioms InterpTie.modus_ponens_tie
#print axioms InterpTie.exists_generalization_tie
#print axioms InterpTie.instantiate_tie
#print axioms InterpTie.instantiate_pattern_tie
#print axioms InterpTie.load_tie
#print axioms InterpTie.publish_proof_tie
#print axioms InterpTie.publish_axiom_tie
#print axioms InterpTie.modus_ponens_mismatch
#print axioms InterpTie.instantiate_mismatch
#print axioms InterpTie.instantiate_noplugs
#print axioms InterpTie.pyCall_costs
#print axioms InterpTie.pyCall_sound
#print axioms InterpTie.pyCall_exact
#print axioms InterpTie.pyCall_complete
#print axioms InterpTie.pyCall_none
#print axioms InterpTie.esubst_untyped
