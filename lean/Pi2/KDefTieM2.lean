import Pi2.KDefTieM
/-!
# The store of a semantics with k modules; `KModule.modules`; the own-then-closure searches; `LanguageSemantics.modules / get_module`

Intermediate lemmas for the general several-module tie (`Pi2/KDefTieM3.lean`, `Pi2/KDefTieM4.lean`, `Pi2/Props/C20e.lean`).

* `RMod` / `heapL`: the refined state of ONE module (with ghost fields: `cl` — what `KModule.modules` returns, `reach` / `inames` — the
  specification's `reach` / `imports`), the store of a list of modules (reference = position, all share counter 0);
* `Closed`: every module imports only EARLIER modules and its `cl` is `fromkeys` of its imports and their `cl`s;
  `modules_eqM`: `KModule.modules n h i = ret cl_i` for every fuel `n > i`; `cl_lt`, `cl_trans` (transitivity);
* `search_char`: the own-then-closure search (`KModule.get_sort / get_symbol / get_axiom` have this shape: `get_sort_char`, …) with fuel
  `≥ i + 2` returns `r` with `Found`: `r = some s` ⟹ some module of `i :: cl_i` has `s` in its own table; `r = none` ⟹ none of them has an entry;
* `ls_modules_char`: `LanguageSemantics.modules` under a valid set order returns a list whose members are exactly the references `< k`;
  `get_module_char`; `ls_search_char` (`LanguageSemantics.get_sort / get_symbol`).
-/
set_option linter.unusedVariables false
set_option linter.unusedSimpArgs false
namespace KDefTieM2
open PyI PyM PyK Kore Gen.PyKDef KDefSpec KDefTie KDefTieM

/-- the refined state of one module.  Ghost fields (not in the store): `cl`, `reach`, `inames` -/
structure RMod where
  name : Nat
  parsing : Option Bool
  imports : List Nat
  inames : List Nat
  cl : List Nat
  reach : List Nat
  sorts : List (Nat × Bool)
  symbols : List PyKSymbol
  rules : List Rule

/-- the one-module refined state with the tables of this module (to reuse the dictionary lemmas of `Pi2/KDefTie.lean`) -/
def toR (m : RMod) : RSt := { name := m.name, sorts := m.sorts, symbols := m.symbols, rules := m.rules, nAxioms := 0 }

def modOfM (m : RMod) : PyKModule :=
  { _name := m.name, counter := 0, _parsing := m.parsing, _imported_modules := m.imports, _sorts := sortsDict (toR m),
    _symbols := symbolsDict (toR m), _axioms := axiomsDict m.rules }

/-- the store of the modules `mods` (reference = position) -/
def heapL (pL : Option Bool) (mods : List RMod) (counters : List Nat) : PyLS :=
  { _parsing := pL, _imported_modules := List.range mods.length, _cached_axiom_scopes := scopesDict (mods.flatMap (·.rules)),
    _inferred_notations := [], modules := mods.map modOfM, counters := counters }

theorem getMod_heapL {β} (pL mods cs) (i : Nat) (k : PyKModule → Py β) :
    getMod (heapL pL mods cs) i k = match mods[i]? with | some m => k (modOfM m) | none => raise := by
  simp only [getMod, heapL, List.getElem?_map]
  cases mods[i]? <;> rfl

/-! ## sets -/

theorem mem_foldl_setAdd (l acc : List Nat) (x : Nat) : x ∈ l.foldl setAdd acc ↔ x ∈ acc ∨ x ∈ l := by
  induction l generalizing acc with
  | nil => simp
  | cons a l ih =>
    simp only [List.foldl_cons, ih, List.mem_cons]
    unfold setAdd
    by_cases h : acc.contains a = true
    · simp only [h, if_true]
      have : a ∈ acc := by simpa using h
      constructor
      · rintro (h1 | h1); exact .inl h1; exact .inr (.inr h1)
      · rintro (h1 | rfl | h1); exact .inl h1; exact .inl this; exact .inr h1
    · simp only [h, Bool.false_eq_true, if_false, List.mem_append, List.mem_singleton]
      constructor
      · rintro ((h1 | h1) | h1); exact .inl h1; exact .inr (.inl h1); exact .inr (.inr h1)
      · rintro (h1 | h1 | h1); exact .inl (.inl h1); exact .inl (.inr h1); exact .inr h1

theorem mem_fromkeys (l : List Nat) (x : Nat) : x ∈ fromkeys l ↔ x ∈ l := by
  unfold fromkeys; rw [mem_foldl_setAdd]; simp

theorem mem_setUpdate (s l : List Nat) (x : Nat) : x ∈ setUpdate s l ↔ x ∈ s ∨ x ∈ l := mem_foldl_setAdd l s x

theorem mem_setAdd (s : List Nat) (a x : Nat) : x ∈ setAdd s a ↔ x ∈ s ∨ x = a := by
  have := mem_foldl_setAdd [a] s x
  simpa using this

/-! ## `KModule.modules` -/

def clAt (mods : List RMod) (j : Nat) : List Nat := match mods[j]? with | some m => m.cl | none => []

/-- every module imports only earlier modules; `cl` is `fromkeys` of the imports and their `cl`s -/
@[reducible] def Closed (mods : List RMod) : Prop :=
  ∀ (i : Nat) (m : RMod), mods[i]? = some m → (∀ j ∈ m.imports, j < i) ∧ m.cl = fromkeys (m.imports.flatMap fun j => j :: clAt mods j)

theorem forEach_acc {β} (l : List Nat) (acc : List Nat) (f : Nat → Py (List Nat)) (g : Nat → List Nat)
    (hf : ∀ v ∈ l, f v = ret (g v)) (k : List Nat → Py β) :
    forEach l acc (fun v acc cont => call (f v) fun t2 => cont ((acc ++ [v]) ++ t2)) k = k (acc ++ l.flatMap fun v => v :: g v) := by
  induction l generalizing acc with
  | nil => simp [forEach]
  | cons a l ih =>
    simp only [forEach]
    rw [hf a (List.mem_cons_self ..), KoreTie.call_ret_val, ih _ (fun v hv => hf v (List.mem_cons_of_mem _ hv))]
    simp [List.append_assoc]

theorem modules_eqM (pL cs) {mods : List RMod} (hC : Closed mods) :
    ∀ n i m, i < n → mods[i]? = some m → KModule.modules n (heapL pL mods cs) i = ret m.cl := by
  intro n
  induction n with
  | zero => intro i m h; omega
  | succ n ih =>
    intro i m hi hm
    unfold KModule.modules
    rw [getMod_heapL, hm]
    obtain ⟨hlt, hcl⟩ := hC i m hm
    show forEach m.imports [] (fun v acc cont => call (KModule.modules n (heapL pL mods cs) v) fun t2 => cont ((acc ++ [v]) ++ t2))
        (fun v_modules => ret (fromkeys v_modules)) = _
    rw [forEach_acc _ _ _ (clAt mods)]
    · rw [hcl]; simp
    · intro v hv
      have hvi := hlt v hv
      have hlen : i < mods.length := by
        rcases Nat.lt_or_ge i mods.length with h | h
        · exact h
        · rw [List.getElem?_eq_none h] at hm; cases hm
      have hvl : v < mods.length := by omega
      have hv' : mods[v]? = some mods[v] := List.getElem?_eq_getElem hvl
      rw [ih v _ (by omega) hv']
      simp [clAt, hv']

theorem idx_lt {α} {l : List α} {i : Nat} {m : α} (h : l[i]? = some m) : i < l.length := by
  rcases Nat.lt_or_ge i l.length with h' | h'
  · exact h'
  · rw [List.getElem?_eq_none h'] at h; cases h

theorem cl_mem {mods : List RMod} (hC : Closed mods) {i : Nat} {m : RMod} {v : Nat} (hm : mods[i]? = some m) (hv : v ∈ m.cl) :
    ∃ j ∈ m.imports, v = j ∨ v ∈ clAt mods j := by
  rw [(hC i m hm).2, mem_fromkeys, List.mem_flatMap] at hv
  obtain ⟨j, hj, hv⟩ := hv
  exact ⟨j, hj, by simpa using hv⟩

theorem cl_lt {mods : List RMod} (hC : Closed mods) : ∀ (i : Nat) (m : RMod) (v : Nat), mods[i]? = some m → v ∈ m.cl → v < i := by
  intro i
  induction i using Nat.strongRecOn with
  | _ i ih =>
    intro m v hm hv
    obtain ⟨j, hj, h⟩ := cl_mem hC hm hv
    have hji := (hC i m hm).1 j hj
    rcases h with rfl | h
    · exact hji
    · simp only [clAt] at h
      cases hmj : mods[j]? with
      | none => simp [hmj] at h
      | some mj => simp only [hmj] at h; have := ih j hji mj v hmj h; omega

theorem cl_trans {mods : List RMod} (hC : Closed mods) :
    ∀ (i : Nat) (m : RMod) (v : Nat) (mv : RMod) (w : Nat), mods[i]? = some m → v ∈ m.cl → mods[v]? = some mv → w ∈ mv.cl → w ∈ m.cl := by
  intro i
  induction i using Nat.strongRecOn with
  | _ i ih =>
    intro m v mv w hm hv hmv hw
    obtain ⟨j, hj, h⟩ := cl_mem hC hm hv
    have hji := (hC i m hm).1 j hj
    have goal : ∀ x, x ∈ clAt mods j → x ∈ m.cl := by
      intro x hx
      rw [(hC i m hm).2, mem_fromkeys, List.mem_flatMap]
      exact ⟨j, hj, List.mem_cons_of_mem _ hx⟩
    rcases h with rfl | h
    · apply goal; simp [clAt, hmv, hw]
    · apply goal
      simp only [clAt] at h ⊢
      cases hmj : mods[j]? with
      | none => simp [hmj] at h
      | some mj => simp only [hmj] at h ⊢; exact ih j hji mj v mv w hmj h hmv hw

/-! ## the own-then-closure search -/

/-- what a search over the modules `l` may return: an entry of the own table of one of them, or nothing if none has an entry -/
def Found {α} (own : RMod → Option α) (mods : List RMod) (l : List Nat) (r : Option α) : Prop :=
  (∀ s, r = some s → ∃ j ∈ l, ∃ mj, mods[j]? = some mj ∧ own mj = some s) ∧
  (r = none → ∀ j ∈ l, ∀ mj, mods[j]? = some mj → own mj = none)

theorem search_loop {α} (l : List Nat) (f : Nat → Py α) (hf : ∀ v ∈ l, (f v).isSome) :
    forEach l () (fun v _ cont => tryExcept (call (f v) fun t => ret t) (cont ())) (fun _ => raise)
      = some (l.findSome? fun v => (f v).getD none) := by
  induction l with
  | nil => rfl
  | cons a l ih =>
    simp only [forEach, List.findSome?_cons]
    have ha := hf a (List.mem_cons_self ..)
    cases hfa : f a with
    | none => simp [hfa] at ha
    | some o =>
      cases o with
      | none =>
        simp only [call, tryExcept, Option.getD_some]
        exact ih fun v hv => hf v (List.mem_cons_of_mem _ hv)
      | some s => rfl

/-- a function of the shape of `KModule.get_sort / get_symbol / get_axiom` -/
theorem search_char {α} (own : RMod → Option α) {mods : List RMod} (hC : Closed mods) (F : Nat → Nat → Py α)
    (hF : ∀ n i m, i < n → mods[i]? = some m →
      F (n + 1) i = match own m with
        | some s => ret s
        | none => forEach m.cl () (fun v _ cont => tryExcept (call (F n v) fun t => ret t) (cont ())) (fun _ => raise)) :
    ∀ n i m, i + 2 ≤ n → mods[i]? = some m → ∃ r, F n i = some r ∧ Found own mods (i :: m.cl) r := by
  intro n
  induction n with
  | zero => intro i m h; omega
  | succ n ih =>
    intro i m hi hm
    rw [hF n i m (by omega) hm]
    cases ho : own m with
    | some s =>
      refine ⟨some s, rfl, ?_, ?_⟩
      · intro s' hs; cases hs; exact ⟨i, List.mem_cons_self .., m, hm, ho⟩
      · intro h; cases h
    | none =>
      have hall : ∀ v ∈ m.cl, ∃ mv, mods[v]? = some mv ∧ ∃ r, F n v = some r ∧ Found own mods (v :: mv.cl) r := by
        intro v hv
        have hvi := cl_lt hC i m v hm hv
        have hvl : v < mods.length := by have := idx_lt hm; omega
        exact ⟨mods[v], List.getElem?_eq_getElem hvl, ih v _ (by omega) (List.getElem?_eq_getElem hvl)⟩
      dsimp only
      rw [search_loop]
      · refine ⟨_, rfl, ?_, ?_⟩
        · intro s hs
          obtain ⟨v, hv, hfv⟩ := List.exists_of_findSome?_eq_some hs
          obtain ⟨mv, hmv, r, hr, hfound⟩ := hall v hv
          rw [hr] at hfv
          simp only [Option.getD_some] at hfv
          obtain ⟨j, hj, mj, hmj, hown⟩ := hfound.1 s hfv
          refine ⟨j, ?_, mj, hmj, hown⟩
          simp only [List.mem_cons] at hj ⊢
          rcases hj with rfl | hj
          · exact .inr hv
          · exact .inr (cl_trans hC i m v mv j hm hv hmv hj)
        · intro hnone j hj mj hmj
          simp only [List.mem_cons] at hj
          rcases hj with rfl | hj
          · rw [hm] at hmj; cases hmj; exact ho
          · rw [List.findSome?_eq_none_iff] at hnone
            obtain ⟨mv, hmv, r, hr, hfound⟩ := hall j hj
            have := hnone j hj
            rw [hr] at this
            simp only [Option.getD_some] at this
            exact hfound.2 this j (List.mem_cons_self ..) mj hmj
      · intro v hv
        obtain ⟨mv, hmv, r, hr, _⟩ := hall v hv
        rw [hr]; rfl

def ownSort (name : Nat) (m : RMod) : Option PyKSortH := (sortsDict (toR m)).lookup name
def ownSymbol (name : Nat) (m : RMod) : Option PyKSymbol := (symbolsDict (toR m)).lookup name
def ownAxiom (o : Nat) (m : RMod) : Option PyAxiom := (axiomsDict m.rules).lookup o

theorem get_sort_char (pL cs) {mods : List RMod} (hC : Closed mods) (name : Nat) :
    ∀ n i m, i + 2 ≤ n → mods[i]? = some m →
      ∃ r, KModule.get_sort n (heapL pL mods cs) i name = some r ∧ Found (ownSort name) mods (i :: m.cl) r := by
  apply search_char (ownSort name) hC (fun n i => KModule.get_sort n (heapL pL mods cs) i name)
  intro n i m hi hm
  show KModule.get_sort (n + 1) (heapL pL mods cs) i name = _
  conv => lhs; unfold KModule.get_sort
  simp only [getMod_heapL, hm]
  rw [lookup_branch, modules_eqM pL cs hC n i m hi hm, KoreTie.call_ret_val]
  simp only [ownSort, modOfM]
  cases (sortsDict (toR m)).lookup name <;> rfl

theorem get_symbol_char (pL cs) {mods : List RMod} (hC : Closed mods) (name : Nat) :
    ∀ n i m, i + 2 ≤ n → mods[i]? = some m →
      ∃ r, KModule.get_symbol n (heapL pL mods cs) i name = some r ∧ Found (ownSymbol name) mods (i :: m.cl) r := by
  apply search_char (ownSymbol name) hC (fun n i => KModule.get_symbol n (heapL pL mods cs) i name)
  intro n i m hi hm
  show KModule.get_symbol (n + 1) (heapL pL mods cs) i name = _
  conv => lhs; unfold KModule.get_symbol
  simp only [getMod_heapL, hm]
  rw [lookup_branch, modules_eqM pL cs hC n i m hi hm, KoreTie.call_ret_val]
  simp only [ownSymbol, modOfM]
  cases (symbolsDict (toR m)).lookup name <;> rfl

theorem get_axiom_char (pL cs) {mods : List RMod} (hC : Closed mods) (o : Nat) :
    ∀ n i m, i + 2 ≤ n → mods[i]? = some m →
      ∃ r, KModule.get_axiom n (heapL pL mods cs) i o = some r ∧ Found (ownAxiom o) mods (i :: m.cl) r := by
  apply search_char (ownAxiom o) hC (fun n i => KModule.get_axiom n (heapL pL mods cs) i o)
  intro n i m hi hm
  show KModule.get_axiom (n + 1) (heapL pL mods cs) i o = _
  conv => lhs; unfold KModule.get_axiom
  simp only [getMod_heapL, hm]
  rw [lookup_branch, modules_eqM pL cs hC n i m hi hm, KoreTie.call_ret_val]
  simp only [ownAxiom, modOfM]
  cases (axiomsDict m.rules).lookup o <;> rfl

/-! ## `LanguageSemantics.modules`, `get_module`, the searches over all modules -/

theorem forEach_set {β} (l : List Nat) (acc : List Nat) (f : Nat → Py (List Nat)) (g : Nat → List Nat)
    (hf : ∀ v ∈ l, f v = ret (g v)) (k : List Nat → Py β) :
    forEach l acc (fun v acc cont => call (f v) fun t1 => cont (setUpdate (setAdd acc v) t1)) k
      = k (l.foldl (fun acc v => setUpdate (setAdd acc v) (g v)) acc) := by
  induction l generalizing acc with
  | nil => rfl
  | cons a l ih =>
    simp only [forEach, List.foldl_cons]
    rw [hf a (List.mem_cons_self ..), KoreTie.call_ret_val, ih _ (fun v hv => hf v (List.mem_cons_of_mem _ hv))]

theorem mem_foldl_set (l acc : List Nat) (g : Nat → List Nat) (x : Nat) :
    x ∈ l.foldl (fun acc v => setUpdate (setAdd acc v) (g v)) acc ↔ x ∈ acc ∨ ∃ v ∈ l, x = v ∨ x ∈ g v := by
  induction l generalizing acc with
  | nil => simp
  | cons a l ih =>
    simp only [List.foldl_cons, ih, mem_setUpdate, mem_setAdd, List.mem_cons]
    constructor
    · rintro (((h | h) | h) | ⟨v, hv, h⟩)
      · exact .inl h
      · exact .inr ⟨a, .inl rfl, .inl h⟩
      · exact .inr ⟨a, .inl rfl, .inr h⟩
      · exact .inr ⟨v, .inr hv, h⟩
    · rintro (h | ⟨v, rfl | hv, h⟩)
      · exact .inl (.inl (.inl h))
      · rcases h with h | h
        · exact .inl (.inl (.inr h))
        · exact .inl (.inr h)
      · exact .inr ⟨v, hv, h⟩

/-- `LanguageSemantics.modules` under a valid set order: the references of ALL modules, in some order -/
theorem ls_modules_char (so : SetOrder) (hso : so.Valid) (pL cs) {mods : List RMod} (hC : Closed mods) (n : Nat)
    (hn : mods.length ≤ n) :
    ∃ L, LanguageSemantics.modules so n (heapL pL mods cs) = ret L ∧ ∀ v, v ∈ L ↔ v < mods.length := by
  unfold LanguageSemantics.modules
  show ∃ L, forEach (List.range mods.length) [] (fun v acc cont => call (KModule.modules n (heapL pL mods cs) v) fun t1 =>
      cont (setUpdate (setAdd acc v) t1)) (fun v_modules => ret (fromkeys (setIter so v_modules))) = ret L ∧ _
  rw [forEach_set _ _ _ (clAt mods)]
  · refine ⟨_, rfl, ?_⟩
    intro v
    rw [mem_fromkeys, setIter, (hso _).mem_iff, mem_foldl_set]
    constructor
    · rintro (h | ⟨w, hw, h⟩)
      · cases h
      · have hw' : w < mods.length := by simpa using hw
        rcases h with rfl | h
        · exact hw'
        · have := cl_lt hC w mods[w] v (List.getElem?_eq_getElem hw') (by simpa [clAt, List.getElem?_eq_getElem hw'] using h)
          omega
    · intro h
      exact .inr ⟨v, by simpa using h, .inl rfl⟩
  · intro v hv
    have hv' : v < mods.length := by simpa using hv
    rw [modules_eqM pL cs hC n v mods[v] (by omega) (List.getElem?_eq_getElem hv')]
    simp [clAt, List.getElem?_eq_getElem hv']

def nameAt (mods : List RMod) (v : Nat) : Nat := match mods[v]? with | some m => m.name | none => 0

theorem name_loop (pL cs) (mods : List RMod) (target : Nat) (L : List Nat) (hL : ∀ v ∈ L, v < mods.length) :
    forEach L () (fun v _ cont => call (KModule.name (heapL pL mods cs) v) fun t2 => if t2 == target then ret v else cont ())
        (fun _ => raise)
      = some (L.find? fun v => nameAt mods v == target) := by
  induction L with
  | nil => rfl
  | cons a L ih =>
    have ha := hL a (List.mem_cons_self ..)
    simp only [forEach, List.find?_cons, KModule.name, getMod_heapL, nameAt, List.getElem?_eq_getElem ha, KoreTie.call_ret_val, modOfM]
    by_cases h : (mods[a].name == target) = true
    · simp only [h, if_true]; rfl
    · simp only [h, Bool.false_eq_true, if_false]
      have := ih fun v hv => hL v (List.mem_cons_of_mem _ hv)
      simp only [KModule.name, getMod_heapL, nameAt] at this
      exact this

/-- `LanguageSemantics.get_module`: a module with this name, `ValueError` if there is none -/
theorem get_module_char (so : SetOrder) (hso : so.Valid) (pL cs) {mods : List RMod} (hC : Closed mods) (n : Nat)
    (hn : mods.length ≤ n) (target : Nat) :
    ∃ r, LanguageSemantics.get_module so n (heapL pL mods cs) target = some r ∧
      (∀ j, r = some j → ∃ mj : RMod, mods[j]? = some mj ∧ mj.name = target) ∧
      (r = none → ∀ (j : Nat) (mj : RMod), mods[j]? = some mj → mj.name ≠ target) := by
  obtain ⟨L, hL, hmem⟩ := ls_modules_char so hso pL cs hC n hn
  unfold LanguageSemantics.get_module
  rw [hL, KoreTie.call_ret_val]
  show ∃ r, forEach L () (fun v _ cont => call (KModule.name (heapL pL mods cs) v) fun t2 => if t2 == target then ret v else cont ())
        (fun _ => raise) = some r ∧ _
  rw [name_loop pL cs mods target L (fun v hv => (hmem v).1 hv)]
  refine ⟨_, rfl, ?_, ?_⟩
  · intro j hj
    have h1 := List.find?_some hj
    have h2 := (hmem j).1 (List.mem_of_find?_eq_some hj)
    refine ⟨mods[j], List.getElem?_eq_getElem h2, ?_⟩
    simpa [nameAt, List.getElem?_eq_getElem h2] using h1
  · intro hnone j mj hmj
    rw [List.find?_eq_none] at hnone
    have hj := idx_lt hmj
    have := hnone j ((hmem j).2 hj)
    simpa [nameAt, hmj] using this

/-- a search over ALL modules (`LanguageSemantics.get_sort / get_symbol`) -/
theorem ls_loop_char {α} (own : RMod → Option α) {mods : List RMod} (F : Nat → Py α) (L : List Nat)
    (hL : ∀ v, v ∈ L ↔ v < mods.length)
    (hF : ∀ (v : Nat) (m : RMod), mods[v]? = some m → ∃ r, F v = some r ∧ Found own mods (v :: m.cl) r) :
    ∃ r, forEach L () (fun v _ cont => tryExcept (call (F v) fun t => ret t) (cont ())) (fun _ => raise) = some r ∧
      (∀ s, r = some s → ∃ (j : Nat) (mj : RMod), mods[j]? = some mj ∧ own mj = some s) ∧
      (r = none → ∀ (j : Nat) (mj : RMod), mods[j]? = some mj → own mj = none) := by
  have hall : ∀ v ∈ L, ∃ m : RMod, ∃ r, F v = some r ∧ Found own mods (v :: m.cl) r :=
    fun v hv => ⟨_, hF v _ (List.getElem?_eq_getElem ((hL v).1 hv))⟩
  rw [search_loop]
  · refine ⟨_, rfl, ?_, ?_⟩
    · intro s hs
      obtain ⟨v, hv, hfv⟩ := List.exists_of_findSome?_eq_some hs
      obtain ⟨_, r, hr, hfound⟩ := hall v hv
      rw [hr] at hfv
      obtain ⟨j, _, mj, hmj, hown⟩ := hfound.1 s hfv
      exact ⟨j, mj, hmj, hown⟩
    · intro hnone j mj hmj
      rw [List.findSome?_eq_none_iff] at hnone
      have hj := (hL j).2 (idx_lt hmj)
      obtain ⟨_, r, hr, hfound⟩ := hall j hj
      have := hnone j hj
      rw [hr] at this
      exact hfound.2 this j (List.mem_cons_self ..) mj hmj
  · intro v hv
    obtain ⟨_, r, hr, _⟩ := hall v hv
    rw [hr]; rfl

theorem ls_get_sort_char (so : SetOrder) (hso : so.Valid) (pL cs) {mods : List RMod} (hC : Closed mods) (n : Nat)
    (hn : mods.length + 1 ≤ n) (name : Nat) :
    ∃ r, LanguageSemantics.get_sort so n (heapL pL mods cs) name = some r ∧
      (∀ s, r = some s → ∃ (j : Nat) (mj : RMod), mods[j]? = some mj ∧ ownSort name mj = some s) ∧
      (r = none → ∀ (j : Nat) (mj : RMod), mods[j]? = some mj → ownSort name mj = none) := by
  obtain ⟨L, hL, hmem⟩ := ls_modules_char so hso pL cs hC n (by omega)
  unfold LanguageSemantics.get_sort
  rw [hL, KoreTie.call_ret_val]
  exact ls_loop_char (ownSort name) (fun v => KModule.get_sort n (heapL pL mods cs) v name) L.reverse
    (fun v => by rw [List.mem_reverse]; exact hmem v)
    (fun v m hm => get_sort_char pL cs hC name n v m (by have := idx_lt hm; omega) hm)

theorem ls_get_symbol_char (so : SetOrder) (hso : so.Valid) (pL cs) {mods : List RMod} (hC : Closed mods) (n : Nat)
    (hn : mods.length + 1 ≤ n) (name : Nat) :
    ∃ r, LanguageSemantics.get_symbol so n (heapL pL mods cs) name = some r ∧
      (∀ s, r = some s → ∃ (j : Nat) (mj : RMod), mods[j]? = some mj ∧ ownSymbol name mj = some s) ∧
      (r = none → ∀ (j : Nat) (mj : RMod), mods[j]? = some mj → ownSymbol name mj = none) := by
  obtain ⟨L, hL, hmem⟩ := ls_modules_char so hso pL cs hC n (by omega)
  unfold LanguageSemantics.get_symbol
  rw [hL, KoreTie.call_ret_val]
  exact ls_loop_char (ownSymbol name) (fun v => KModule.get_symbol n (heapL pL mods cs) v name) L.reverse
    (fun v => by rw [List.mem_reverse]; exact hmem v)
    (fun v m hm => get_symbol_char pL cs hC name n v m (by have := idx_lt hm; omega) hm)

#print axioms modules_eqM
#print axioms cl_trans
#print axioms get_sort_char
#print axioms get_symbol_char
#print axioms get_axiom_char
#print axioms ls_modules_char
#print axioms get_module_char
#print axioms ls_get_sort_char
#print axioms ls_get_symbol_char
end KDefTieM2
