import Pi2.KModFrag
import Pi2.EndToEnd
/-!
# The proof module of a K execution trace is accepted by the checker (lemmas for `Pi2/Props/C20b.lean`)

Helper files (all new): `Pi2/KModRen.lean` (renaming of symbols commutes with the checker), `Pi2/KModSeg.lean`
(segments: tracker and machine side by side), `Pi2/KModCompile.lean` (`Interpreter.pattern` compiles every
machine-OK pattern, constrained metavariables included), `Pi2/KModRun.lean` (the three loops of `execute_full`,
`module_acceptedK`), `Pi2/KModFrag.lean` (the fragment: `==` against it, `functional(v)`, `conv`, `traceF`).

Here: the imported modules of `ExecutionProofExp`, the module of an execution state, an injective naming of the
symbols (for the soundness composition), and the semantic effect of renaming.
-/
set_option linter.unusedSimpArgs false
set_option linter.unusedVariables false
open Pat PySt

namespace KMod
open NPat Kore

/-! ## the modules `ExecutionProofExp.__init__` imports -/

/-- a definition of the regenerated notation table -/
def tblDef (g l : String) : NPat :=
  ((Gen.notations.find? fun e => e.group == g && e.label == l).map (·.definition)).getD (.sym 0)

/-- `func_subst_axiom` of `proofs/substitution.py`:
`Implies(Exists(0, equals(MetaVar(0, e_fresh=(EVar(0),)), EVar(0))),
         Implies(forall(1)(phi1), phi1.apply_esubst(1, MetaVar(0, e_fresh=(EVar(0),)))))` -/
def funcSubstAxiom : NPat :=
  .imp (.ex 0 (.inst (tblDef "definedness" "equals") [(0, .mv 0 [0] [] [] [] []), (1, .evar 0)]))
    (.imp (.inst (tblDef "substitution" "forall_1") [(0, .mv 1 [] [] [] [] [])])
      (.esub (.mv 1 [] [] [] [] []) 1 (.mv 0 [0] [] [] [] [])))

/-- the axiom `ceil(EVar(0))` of `Definedness` (`proofs/definedness.py`) -/
def definednessAxiom : NPat := .inst (tblDef "definedness" "ceil") [(0, .evar 0)]

/-- `ExecutionProofExp.__init__` imports `Substitution()` (axiom `func_subst_axiom`; it imports `Propositional()`,
which has no axiom) and `KoreLemmas()` (no axiom; it imports `Definedness()`, axiom `ceil(x0)`).  `execute_full` of
the importing module publishes the AXIOMS of its imports (`execute_gamma_phase`) and runs neither their claims nor
their proofs, so only the axioms are recorded. -/
def kImports : List PModule :=
  [.mk [funcSubstAxiom] [] [] [.mk [] [] [] []], .mk [] [] [] [.mk [definednessAxiom] [] [] []]]

theorem kImports_gamma : PModule.gammaAxioms.gammaList kImports = [funcSubstAxiom, definednessAxiom] := rfl

theorem imports_facts : funcSubstAxiom.MOK = true ∧ definednessAxiom.MOK = true ∧
    definednessAxiom.Shape = true := by decide +kernel

theorem kImports_gax : ∀ a ∈ PModule.gammaAxioms.gammaList kImports, GAx a := by
  intro a ha
  rw [kImports_gamma] at ha
  simp only [List.mem_cons, List.not_mem_nil, or_false] at ha
  rcases ha with rfl | rfl
  · exact ⟨imports_facts.1, peqOK_impEx _ _ _⟩
  · exact ⟨imports_facts.2.1, PeqOK.of_shape imports_facts.2.2⟩

end KMod

/-- the proof module of an execution state: its axioms, claims and proofs, and the imported modules -/
def Kore.ExecSt.module (st : Kore.ExecSt) (subs : List PModule := KMod.kImports) : PModule :=
  .mk st.axioms st.claims st.proofs subs

namespace KMod
open NPat Kore

theorem module_gamma (st : ExecSt) (subs : List PModule) :
    (st.module subs).gammaAxioms = PModule.gammaAxioms.gammaList subs ++ st.axioms := rfl

/-- **acceptance of the module of a trace of the fragment**, for every naming `ρ` that agrees with the final symbol
table -/
theorem k_module_core (sg : Sig) (n0 n : Nat) (init : NPat) (steps : List (NPat × List (Nat × NPat)))
    (st : ExecSt) (subs : List PModule) (s : PySt) (calls : List Call)
    (htrace : traceF sg n0 (initSt init) steps = some (some st)) (hfrag : KSteps steps = true)
    (hsubs : ∀ a ∈ PModule.gammaAxioms.gammaList subs, GAx a)
    (hex : PModule.executeFull {} n (st.module subs) = some (some (s, calls)))
    (ρ : Nat → Nat) (hag : Agree ρ s.symtab) :
    s.claims = [] ∧ AllSideK n (PySt.init st.claims) calls ∧
    ∃ g c p, PySt.trackAll n (PySt.init st.claims) calls ([], [], []) = some (some (s, (g, c, p))) ∧
      verify g c p = some ((st.module subs).gammaAxioms.map (fun a => ren ρ a.expand),
        st.claims.reverse.map (fun a => ren ρ a.expand)) := by
  have hinv := trace_inv sg n0 steps _ st hfrag (kinv_init init) htrace
  refine module_acceptedK (st.module subs) s calls ?_ hinv.claims hinv.proofs hinv.len hex ρ hag
  intro a ha
  rw [module_gamma] at ha
  rcases List.mem_append.mp ha with ha | ha
  · exact hsubs a ha
  · exact (hinv.axioms a ha).gax

/-! ## an injective naming, and what renaming means -/

/-- the symbols of the table by position, the others beyond the table: injective -/
def rhoInj (tab : List Nat) (nm : Nat) : Nat := if nm ∈ tab then tab.idxOf nm else tab.length + nm

def rhoInv (tab : List Nat) (t : Nat) : Nat := if h : t < tab.length then tab[t] else t - tab.length

theorem rhoInj_agree (tab : List Nat) : Agree (rhoInj tab) tab := by
  intro nm h; simp [rhoInj, h]

theorem rhoInv_rhoInj (tab : List Nat) (nm : Nat) : rhoInv tab (rhoInj tab nm) = nm := by
  by_cases h : nm ∈ tab
  · have hlt : tab.idxOf nm < tab.length := List.idxOf_lt_length_iff.mpr h
    simp [rhoInj, rhoInv, h, hlt]
  · have hn : ¬ (tab.length + nm < tab.length) := by omega
    simp [rhoInj, rhoInv, h, hn]

theorem eval_ren (𝔑 : Model) (ρ : Nat → Nat) (σ : MVKey → Sem 𝔑.M) : ∀ (p : Pat) (v : Val 𝔑.M),
    eval 𝔑 σ (ren ρ p) v = eval ⟨𝔑.M, fun s => 𝔑.sym (ρ s), 𝔑.app⟩ σ p v := by
  intro p
  induction p with
  | evar _ => intro v; rfl
  | svar _ => intro v; rfl
  | sym _ => intro v; rfl
  | mv _ _ _ _ _ _ => intro v; rfl
  | imp l r ihl ihr => intro v; simp only [ren, eval, ihl, ihr]
  | app l r ihl ihr => intro v; simp only [ren, eval, ihl, ihr]
  | ex x p ih => intro v; simp only [ren, eval, ih]
  | mu X p ih => intro v; simp only [ren, eval, ih]
  | esub p x q ihp ihq => intro v; simp only [ren, eval, ihp, ihq]
  | ssub p X q ihp ihq => intro v; simp only [ren, eval, ihp, ihq]

theorem validM_ren (𝔑 : Model) (ρ : Nat → Nat) (p : Pat) :
    ValidM 𝔑 (ren ρ p) ↔ ValidM ⟨𝔑.M, fun s => 𝔑.sym (ρ s), 𝔑.app⟩ p := by
  unfold ValidM
  constructor
  · intro h σ hσ v hv m
    have := h σ hσ v hv m
    rw [eval_ren] at this
    exact this
  · intro h σ hσ v hv m
    rw [eval_ren]
    exact h σ hσ v hv m

/-- validity of the renamed patterns in the model that reads the names back is validity of the patterns -/
theorem validM_rhoInj (𝔐 : Model) (tab : List Nat) (p : Pat) :
    ValidM ⟨𝔐.M, fun t => 𝔐.sym (rhoInv tab t), 𝔐.app⟩ (ren (rhoInj tab) p) ↔ ValidM 𝔐 p := by
  rw [validM_ren]
  simp only [rhoInv_rhoInj]

end KMod
