import Pi2.Notation
import Pi2.Gen.PyPattern
/-!
# The Python pattern operations as written in `pattern.py` are the model's

`Pi2/Gen/PyPattern.lean` is regenerated from `generation/src/proof_generation/pattern.py` on every run
(`vlib/transpy.py`): the methods `evar_is_free`, `metavars`, `apply_esubst`, `apply_ssubst`,
`instantiate` of the ten notation-free classes, class by class.  Here they are proved equal to the
hand-written Python semantics on notation-free patterns (`Py.esub`, `Py.ssub`, `Py.inst`,
`Py.metavars`) and to the checker's freshness judgement, which is what the notation theorems
(`Pi2.NotationThm`: everything commutes with expansion) and C06/C07/C11/C12/C13 build on.
The `Instantiate` class (notation) is `simplify()` followed by delegation and is modelled by hand.
-/
namespace PyTie
open Pat

theorem translated : Gen.Py.translated = true := by decide

/-- Python's `evar_is_free` ("is fresh") on a notation-free pattern is the checker's `e_fresh` -/
theorem evar_is_free_eq (p : Pat) (e : VId) : Gen.Py.evar_is_free p e = p.eFresh e := by
  induction p with
  | evar x => simp [Gen.Py.evar_is_free, Pat.eFresh, bne_comm]
  | svar x => simp [Gen.Py.evar_is_free, Pat.eFresh]
  | sym x => simp [Gen.Py.evar_is_free, Pat.eFresh]
  | mv id ef sf ps ns hs => simp [Gen.Py.evar_is_free, Pat.eFresh]
  | imp l r ihl ihr => simp [Gen.Py.evar_is_free, Pat.eFresh, ihl, ihr]
  | app l r ihl ihr => simp [Gen.Py.evar_is_free, Pat.eFresh, ihl, ihr]
  | ex x p ih => simp [Gen.Py.evar_is_free, Pat.eFresh, ih]
  | mu x p ih => simp [Gen.Py.evar_is_free, Pat.eFresh, ih]
  | esub p x q ihp ihq =>
    simp only [Gen.Py.evar_is_free, Pat.eFresh, ihp, ihq]
    by_cases h : x = e
    · subst h; simp
    · have h' : ¬ e = x := fun h2 => h h2.symm
      simp [h, h']
  | ssub p x q ihp ihq => simp [Gen.Py.evar_is_free, Pat.eFresh, ihp, ihq]

theorem metavars_eq (p : Pat) : Gen.Py.metavars p = Py.metavars p := by
  induction p with
  | evar x => rfl
  | svar x => rfl
  | sym x => rfl
  | mv id ef sf ps ns hs => rfl
  | imp l r ihl ihr => simp [Gen.Py.metavars, Py.metavars, ihl, ihr]
  | app l r ihl ihr => simp [Gen.Py.metavars, Py.metavars, ihl, ihr]
  | ex x p ih => simp [Gen.Py.metavars, Py.metavars, ih]
  | mu x p ih => simp [Gen.Py.metavars, Py.metavars, ih]
  | esub p x q ihp ihq => simp [Gen.Py.metavars, Py.metavars, ihp, ihq]
  | ssub p x q ihp ihq => simp [Gen.Py.metavars, Py.metavars, ihp, ihq]

theorem apply_esubst_eq (p : Pat) (x : VId) (plug : Pat) : Gen.Py.apply_esubst p x plug = Py.esub x plug p := by
  induction p with
  | evar y =>
    by_cases h : x = y
    · subst h; simp [Gen.Py.apply_esubst, Py.esub]
    · have h' : ¬ y = x := fun e => h e.symm
      simp [Gen.Py.apply_esubst, Py.esub, h, h']
  | svar y => simp [Gen.Py.apply_esubst, Py.esub]
  | sym y => simp [Gen.Py.apply_esubst, Py.esub]
  | mv id ef sf ps ns hs => simp [Gen.Py.apply_esubst, Py.esub]
  | imp l r ihl ihr => simp [Gen.Py.apply_esubst, Py.esub, ihl, ihr]
  | app l r ihl ihr => simp [Gen.Py.apply_esubst, Py.esub, ihl, ihr]
  | ex y q ih =>
    by_cases h : x = y
    · subst h; simp [Gen.Py.apply_esubst, Py.esub]
    · have h' : ¬ y = x := fun e => h e.symm
      simp [Gen.Py.apply_esubst, Py.esub, ih, h, h']
  | mu y q ih => simp [Gen.Py.apply_esubst, Py.esub, ih]
  | esub q y r _ _ => simp [Gen.Py.apply_esubst, Py.esub]
  | ssub q y r _ _ => simp [Gen.Py.apply_esubst, Py.esub]

theorem apply_ssubst_eq (p : Pat) (x : VId) (plug : Pat) : Gen.Py.apply_ssubst p x plug = Py.ssub x plug p := by
  induction p with
  | evar y => simp [Gen.Py.apply_ssubst, Py.ssub]
  | svar y =>
    by_cases h : x = y
    · subst h; simp [Gen.Py.apply_ssubst, Py.ssub]
    · have h' : ¬ y = x := fun e => h e.symm
      simp [Gen.Py.apply_ssubst, Py.ssub, h, h']
  | sym y => simp [Gen.Py.apply_ssubst, Py.ssub]
  | mv id ef sf ps ns hs => simp [Gen.Py.apply_ssubst, Py.ssub]
  | imp l r ihl ihr => simp [Gen.Py.apply_ssubst, Py.ssub, ihl, ihr]
  | app l r ihl ihr => simp [Gen.Py.apply_ssubst, Py.ssub, ihl, ihr]
  | ex y q ih => simp [Gen.Py.apply_ssubst, Py.ssub, ih]
  | mu y q ih =>
    by_cases h : x = y
    · subst h; simp [Gen.Py.apply_ssubst, Py.ssub]
    · have h' : ¬ y = x := fun e => h e.symm
      simp [Gen.Py.apply_ssubst, Py.ssub, ih, h, h']
  | esub q y r _ _ => simp [Gen.Py.apply_ssubst, Py.ssub]
  | ssub q y r _ _ => simp [Gen.Py.apply_ssubst, Py.ssub]

/-- `instantiate` with the empty map returns the receiver (every class has the `if not delta` exit or is a leaf) -/
theorem instantiate_nil (p : Pat) : Gen.Py.instantiate p [] = p := by
  cases p <;> simp [Gen.Py.instantiate, Py.lookup]

/-- `instantiate` with a non-empty map is the simultaneous instantiation `Py.inst` -/
theorem instantiate_eq (p : Pat) (δ : List (Nat × Pat)) (h : δ ≠ []) :
    Gen.Py.instantiate p δ = Py.inst (Py.lookup δ) p := by
  have he : δ.isEmpty = false := by cases δ <;> simp_all
  induction p with
  | evar y => simp [Gen.Py.instantiate, Py.inst]
  | svar y => simp [Gen.Py.instantiate, Py.inst]
  | sym y => simp [Gen.Py.instantiate, Py.inst]
  | mv id ef sf ps ns hs =>
    simp only [Gen.Py.instantiate, Py.inst]
    cases Py.lookup δ id <;> simp
  | imp l r ihl ihr => simp [Gen.Py.instantiate, Py.inst, he, ihl, ihr]
  | app l r ihl ihr => simp [Gen.Py.instantiate, Py.inst, he, ihl, ihr]
  | ex y q ih => simp [Gen.Py.instantiate, Py.inst, he, ih]
  | mu y q ih => simp [Gen.Py.instantiate, Py.inst, he, ih]
  | esub q y r ihq ihr => simp [Gen.Py.instantiate, Py.inst, he, ihq, ihr, apply_esubst_eq]
  | ssub q y r ihq ihr => simp [Gen.Py.instantiate, Py.inst, he, ihq, ihr, apply_ssubst_eq]

end PyTie
