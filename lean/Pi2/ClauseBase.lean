import Pi2.Gen.ClauseProofs
import Pi2.StageThm
/-!
# The proof objects of the clause utilities: library lemmas on conclusions, clause patterns, the simple utilities
(first part of `Pi2/ClauseThm.lean`; same namespace)

`Pi2/Gen/ClauseProofs.lean` is regenerated on every run from `tautology.py` (`vlib/transclause.py`): `id_to_metavar`,
`foldl_op` / `foldr_op`, `clause_to_pattern`, `clause_conjunctionto_pattern`, `conjunction_implies_nth`, `ac_move_to_front`
(with its nested `unroll`), `or_move_to_front` / `and_move_to_front`, `reduce_n_or_duplicates_at_front`, `simplify_clause`,
`merge_clauses`, `prove_trivial_clause`, `build_proof_from_hint` — with ALL their statements, every `ProofThunk` expression
over a thunk algebra.

* Part A: the library lemmas these functions call, on conclusions (`lib algCS ix_<lemma> .. = some ..`, from `C10.conc_stable`;
  `and_cong` / `or_cong` have no docstring: their schema is stated and checked here; `resolution_step` is also inverted).
* Part B..: every utility on conclusions (`*_C`: an equation with the advertised pattern, at every sufficient fuel), fuel
  monotonicity (`*_mono`), hence at ANY fuel (`*_any`).
* `prove_trivial_clause_any`, `build_proof_from_hint_any`: whatever they return concludes the clause pattern / the implication
  `clause_conjunctionto_pattern(terms) -> clause_to_pattern(resolvent)` — for EVERY clause and EVERY hint.
* the homomorphism `algGS → algCS` of every generated function (`*_hom`), hence `ptc_spec`, `bpfh_spec`: the two hypotheses of
  `StageThm.prove_tautology_proofs` are discharged by the generated functions.
-/
set_option linter.unusedSimpArgs false
open Pat

namespace ClauseThm
open Lem StageSup Gen.PyTaut TautSup TautTie StageThm Gen.Clause

theorem translated : Gen.Clause.translated = true := by decide

/-! ## Part A — the library lemmas on conclusions -/

section LibC
variable (a b c d p q r : Pat)

theorem lib_imp_refl : lib algCS ix_imp_refl [p] [] = some (.imp p p) :=
  lib_at ix_imp_refl _ rfl (fun i => [p][i]?)
theorem lib_and_l_imp : lib algCS ix_and_l_imp [a, b] [] = some (.imp (andP a b) a) :=
  lib_at ix_and_l_imp _ rfl (fun i => [a, b][i]?)
theorem lib_and_r_imp : lib algCS ix_and_r_imp [a, b] [] = some (.imp (andP a b) b) :=
  lib_at ix_and_r_imp _ rfl (fun i => [a, b][i]?)
theorem lib_imp_transitivity : lib algCS ix_imp_transitivity [] [.imp a b, .imp b c] = some (.imp a c) :=
  lib_at ix_imp_transitivity _ rfl (fun i => [a, b, c][i]?)
theorem lib_equiv_sym : lib algCS ix_equiv_sym [] [equivP a b] = some (equivP b a) :=
  lib_at ix_equiv_sym _ rfl (fun i => [a, b][i]?)
theorem lib_equiv_refl : lib algCS ix_equiv_refl [p] [] = some (equivP p p) :=
  lib_at ix_equiv_refl _ rfl (fun i => [p][i]?)
theorem lib_equiv_transitivity : lib algCS ix_equiv_transitivity [] [equivP a b, equivP b c] = some (equivP a c) :=
  lib_at ix_equiv_transitivity _ rfl (fun i => [a, b, c][i]?)
theorem lib_or_assoc : lib algCS ix_or_assoc [a, b, c] [] = some (equivP (orP a (orP b c)) (orP (orP a b) c)) :=
  lib_at ix_or_assoc _ rfl (fun i => [a, b, c][i]?)
theorem lib_or_comm : lib algCS ix_or_comm [a, b] [] = some (equivP (orP a b) (orP b a)) :=
  lib_at ix_or_comm _ rfl (fun i => [a, b][i]?)
theorem lib_and_assoc : lib algCS ix_and_assoc [a, b, c] [] = some (equivP (andP a (andP b c)) (andP (andP a b) c)) :=
  lib_at ix_and_assoc _ rfl (fun i => [a, b, c][i]?)
theorem lib_and_comm : lib algCS ix_and_comm [a, b] [] = some (equivP (andP a b) (andP b a)) :=
  lib_at ix_and_comm _ rfl (fun i => [a, b][i]?)
theorem lib_or_idem : lib algCS ix_or_idem [p] [] = some (equivP (orP p p) p) :=
  lib_at ix_or_idem _ rfl (fun i => [p][i]?)
theorem lib_reduce_dup : lib algCS ix_reduce_or_duplicates_at_front [p, q] [] =
    some (equivP (orP p (orP p q)) (orP p q)) :=
  lib_at ix_reduce_or_duplicates_at_front _ rfl (fun i => [p, q][i]?)
theorem lib_and_r : lib algCS ix_and_r [] [andP a b] = some b :=
  lib_at ix_and_r _ rfl (fun i => [a, b][i]?)
theorem lib_and_l : lib algCS ix_and_l [] [andP a b] = some a :=
  lib_at ix_and_l _ rfl (fun i => [a, b][i]?)
theorem lib_or_assoc_r : lib algCS ix_or_assoc_r [a, b, c] [] = some (.imp (orP (orP a b) c) (orP a (orP b c))) :=
  lib_at ix_or_assoc_r _ rfl (fun i => [a, b, c][i]?)
theorem lib_or_l : lib algCS ix_or_l [q] [p] = some (orP p q) :=
  lib_at ix_or_l _ rfl (fun i => [q, p][i]?)
theorem lib_resolution : lib algCS ix_resolution [p, a, b] [] =
    some (.imp (orP (negP p) a) (.imp (orP p b) (orP a b))) :=
  lib_at ix_resolution _ rfl (fun i => [p, a, b][i]?)
theorem lib_long_imp_trans : lib algCS ix_long_imp_trans [] [.imp a (.imp b c), .imp c d] = some (.imp a (.imp b d)) :=
  lib_at ix_long_imp_trans _ rfl (fun i => [a, b, c, d][i]?)
theorem lib_resolution_l : lib algCS ix_resolution_l [p, a] [] = some (.imp (orP (negP p) a) (.imp p a)) :=
  lib_at ix_resolution_l _ rfl (fun i => [p, a][i]?)
theorem lib_resolution_r : lib algCS ix_resolution_r [p, b] [] = some (.imp (negP p) (.imp (orP p b) b)) :=
  lib_at ix_resolution_r _ rfl (fun i => [p, b][i]?)
theorem lib_resolution_base : lib algCS ix_resolution_base [p] [] = some (.imp (negP p) (.imp p Lem.botP)) :=
  lib_at ix_resolution_base _ rfl (fun i => [p][i]?)
theorem lib_resolution_step : lib algCS ix_resolution_step [] [.imp a b, .imp a c, .imp b (.imp c d)] = some (.imp a d) :=
  lib_at ix_resolution_step _ rfl (fun i => [a, b, c, d][i]?)

theorem lib_dneg_elim : lib algCS ix_dneg_elim [p] [] = some (.imp (negP (negP p)) p) :=
  StageThm.lib_dneg_elim p

end LibC

/-! `and_cong` / `or_cong` have no docstring, hence no generated `Lem.Spec`: their schema is stated here and checked at the
generic point by kernel evaluation, then instantiated by `Lem.sem_stable` exactly as `C10.conc_stable` does -/

def specAndCong : Lem.Spec :=
  { name := "and_cong", idx := ix_and_cong, params := [],
    premises := [equivP (phi 0) (phi 1), equivP (phi 2) (phi 3)],
    concl := equivP (andP (phi 0) (phi 2)) (andP (phi 1) (phi 3)) }

def specOrCong : Lem.Spec :=
  { name := "or_cong", idx := ix_or_cong, params := [],
    premises := [equivP (phi 0) (phi 1), equivP (phi 2) (phi 3)],
    concl := equivP (orP (phi 0) (phi 2)) (orP (phi 1) (phi 3)) }

theorem specAndCong_holds : specAndCong.holds Gen.lemmaDefs = true := by decide +kernel
theorem specOrCong_holds : specOrCong.holds Gen.lemmaDefs = true := by decide +kernel

theorem lib_of_holds (s : Lem.Spec) (h : s.holds Gen.lemmaDefs = true) (ρ : Nat → Option Pat) :
    lib algCS s.idx (s.params.map (Py.inst ρ)) (s.premises.map (Py.inst ρ)) = some (Py.inst ρ s.concl) := by
  obtain ⟨g, hg, hr⟩ := C10.holds_iff Gen.lemmaDefs s h
  have := Lem.sem_stable Gen.lemmaDefs C10.all_defs_wf ρ s.idx g hg _ _ _ hr
  have e : algCS.toAlg = Lem.algC := rfl
  unfold lib
  rw [e, hg]
  exact this

theorem lib_and_cong (a b c d : Pat) :
    lib algCS ix_and_cong [] [equivP a b, equivP c d] = some (equivP (andP a c) (andP b d)) :=
  lib_of_holds specAndCong specAndCong_holds (fun i => [a, b, c, d][i]?)

theorem lib_or_cong (a b c d : Pat) :
    lib algCS ix_or_cong [] [equivP a b, equivP c d] = some (equivP (orP a c) (orP b d)) :=
  lib_of_holds specOrCong specOrCong_holds (fun i => [a, b, c, d][i]?)

/-! ## Part B — patterns of literals, clauses, clause lists -/

theorem id_to_metavar_C {τ} (A : SAlg τ) (i : Int) (h : i ≠ 0) : id_to_metavar A i = some (idPat i) := by
  have hb : (i != 0) = true := by simpa using h
  unfold id_to_metavar idPat
  by_cases hn : i < 0 <;> simp [pyAssert, hb, hn, mvP]

theorem id_to_metavar_zero {τ} (A : SAlg τ) : id_to_metavar A 0 = none := by
  simp [id_to_metavar, pyAssert]

/-- `[id_to_metavar(id) for id in cl]` -/
theorem mapM_id_C {τ} (A : SAlg τ) : ∀ (cl : List Int), Res.NoZero cl →
    List.mapM (fun id => do let t1_ ← id_to_metavar A id; pure t1_) cl = some (cl.map idPat) := by
  intro cl
  induction cl with
  | nil => intro _; rfl
  | cons x cl ih =>
    intro h
    have hx : x ≠ 0 := h x List.mem_cons_self
    have hcl : Res.NoZero cl := fun y hm => h y (List.mem_cons_of_mem _ hm)
    rw [List.mapM_cons, ih hcl]
    simp [id_to_metavar_C A x hx]

theorem mapM_id_any {τ} (A : SAlg τ) : ∀ (cl : List Int) (ps : List Pat),
    List.mapM (fun id => do let t1_ ← id_to_metavar A id; pure t1_) cl = some ps → Res.NoZero cl ∧ ps = cl.map idPat := by
  intro cl
  induction cl with
  | nil => intro ps h; simp at h; subst h; exact ⟨by intro x hx; simp at hx, rfl⟩
  | cons x cl ih =>
    intro ps h
    rw [List.mapM_cons] at h
    by_cases hx : x = 0
    · subst hx; simp [id_to_metavar_zero] at h
    · simp only [id_to_metavar_C A x hx, Option.pure_def, Option.bind_eq_bind, Option.bind_some] at h
      cases h2 : List.mapM (fun id => do let t1_ ← id_to_metavar A id; pure t1_) cl with
      | none => simp [h2] at h
      | some ps' =>
        obtain ⟨hz, hp⟩ := ih ps' h2
        simp only [h2, Option.bind_some, Option.some.injEq] at h
        subst h; subst hp
        refine ⟨?_, rfl⟩
        intro y hm
        simp only [List.mem_cons] at hm
        rcases hm with hm | hm
        · exact hm ▸ hx
        · exact hz y hm

theorem pyIndex_nat {α} (l : List α) (s : Nat) (h : s < l.length) : pyIndex l (s : Int) = some l[s] := by
  simp [pyIndex, h]

theorem drop_eq_cons {α} (l : List α) (s : Nat) (h : s < l.length) : l.drop s = l[s] :: l.drop (s + 1) := by
  rw [List.drop_eq_getElem_cons h]

/-- `foldr_op(op, l, start, end)` with `end` the default `-1` or (in the recursive calls) `len(l) - 1`: the right-nested
`op`-chain of `l[start:]` -/
theorem foldr_op_C {τ} (A : SAlg τ) (op : Pat → Pat → Pat) (l : List Pat) : ∀ (k s fuel : Nat) (e : Int),
    s + k + 1 = l.length → k < fuel → (e = -1 ∨ e = (l.length : Int) - 1) →
    foldr_op A fuel op l (s : Int) e = some (foldrP op (l.drop s)) := by
  intro k
  induction k with
  | zero =>
    intro s fuel e hs hf he
    obtain ⟨f, rfl⟩ : ∃ f, fuel = f + 1 := ⟨fuel - 1, by omega⟩
    have hidx := pyIndex_nat l s (by omega)
    have hdrop : l.drop s = [l[s]'(by omega)] := by
      rw [drop_eq_cons l s (by omega), List.drop_of_length_le (by omega)]
    have h1 : ((-1 : Int) + (l.length : Int)) = (s : Int) := by omega
    have h2 : ((l.length : Int) - 1) = (s : Int) := by omega
    have h5 : ¬ ((s : Int) < 0) := by omega
    rcases he with rfl | rfl <;>
      simp [foldr_op, pyLen, h1, h2, h5, hidx, hdrop, foldrP]
  | succ k ih =>
    intro s fuel e hs hf he
    obtain ⟨f, rfl⟩ : ∃ f, fuel = f + 1 := ⟨fuel - 1, by omega⟩
    have hidx := pyIndex_nat l s (by omega)
    have hrec := ih (s + 1) f ((l.length : Int) - 1) (by omega) (by omega) (Or.inr rfl)
    have hne : l.drop (s + 1) ≠ [] := by
      intro h
      have := congrArg List.length h
      simp at this
      omega
    have hdrop : foldrP op (l.drop s) = op (l[s]'(by omega)) (foldrP op (l.drop (s + 1))) := by
      rw [drop_eq_cons l s (by omega), foldrP_cons op _ _ hne]
    have h1 : ((-1 : Int) + (l.length : Int)) = (l.length : Int) - 1 := by omega
    have h3 : ¬ ((l.length : Int) - 1 < 0) := by omega
    have h4 : ((s : Int) < (l.length : Int) - 1) := by omega
    rw [show ((s + 1 : Nat) : Int) = (s : Int) + 1 from by omega] at hrec
    rcases he with rfl | rfl <;>
      simp [foldr_op, pyLen, h1, h3, h4, hidx, hdrop, hrec]

/-- `foldr_op(op, l)` / `foldr_op(op, l, start)` -/
theorem foldr_op_default {τ} (A : SAlg τ) (op : Pat → Pat → Pat) (l : List Pat) (s fuel : Nat)
    (hs : s < l.length) (hf : l.length ≤ fuel + s) :
    foldr_op A fuel op l (s : Int) (-(1 : Int)) = some (foldrP op (l.drop s)) :=
  foldr_op_C A op l (l.length - s - 1) s fuel (-1) (by omega) (by omega) (Or.inl rfl)

theorem foldr_op_zero {τ} (A : SAlg τ) (op : Pat → Pat → Pat) (l : List Pat) (fuel : Nat)
    (hs : l ≠ []) (hf : l.length ≤ fuel) :
    foldr_op A fuel op l (0 : Int) (-(1 : Int)) = some (foldrP op l) := by
  have hl : 0 < l.length := List.length_pos_iff.mpr hs
  have := foldr_op_default A op l 0 fuel hl (by omega)
  simpa using this

/-- `clause_to_pattern` -/
theorem clause_to_pattern_C {τ} (A : SAlg τ) (cl : List Int) (fuel : Nat) (hz : Res.NoZero cl) (hf : cl.length ≤ fuel) :
    clause_to_pattern A fuel cl = some (clausePat cl) := by
  cases cl with
  | nil => simp [clause_to_pattern, clausePat]
  | cons x r =>
    have hfo := foldr_op_zero A orP ((x :: r).map idPat) fuel (by simp) (by simpa using hf)
    simp only [clause_to_pattern, mapM_id_C A _ hz, hfo, clausePat, List.isEmpty_cons, Bool.not_false, Bool.not_true,
      Bool.false_eq_true, if_false, Option.pure_def, Option.bind_eq_bind, Option.bind_some]

theorem mapM_clause_C {τ} (A : SAlg τ) (fuel : Nat) : ∀ (cls : List (List Int)),
    (∀ cl ∈ cls, Res.NoZero cl) → (∀ cl ∈ cls, cl.length ≤ fuel) →
    List.mapM (fun cl => do let t1_ ← clause_to_pattern A fuel cl; pure t1_) cls = some (cls.map clausePat) := by
  intro cls
  induction cls with
  | nil => intro _ _; rfl
  | cons c cls ih =>
    intro hz hf
    rw [List.mapM_cons, ih (fun x hx => hz x (List.mem_cons_of_mem _ hx)) (fun x hx => hf x (List.mem_cons_of_mem _ hx))]
    simp [clause_to_pattern_C A c fuel (hz c List.mem_cons_self) (hf c List.mem_cons_self)]

/-- `clause_conjunctionto_pattern` -/
theorem clause_conjunctionto_pattern_C {τ} (A : SAlg τ) (cls : List (List Int)) (fuel : Nat)
    (hz : ∀ cl ∈ cls, Res.NoZero cl) (hl : ∀ cl ∈ cls, cl.length ≤ fuel) (hf : cls.length ≤ fuel) :
    clause_conjunctionto_pattern A fuel cls = some (clausesPat cls) := by
  cases cls with
  | nil => simp [clause_conjunctionto_pattern, clausesPat]
  | cons x r =>
    have hfo := foldr_op_zero A andP ((x :: r).map clausePat) fuel (by simp) (by simpa using hf)
    simp only [clause_conjunctionto_pattern, mapM_clause_C A fuel _ hz hl, hfo, clausesPat, List.isEmpty_cons, Bool.not_false,
      Bool.not_true, Bool.false_eq_true, if_false, Option.pure_def, Option.bind_eq_bind, Option.bind_some]

/-! ## Part C — `conjunction_implies_nth`, `merge_clauses`, `reduce_n_or_duplicates_at_front` on conclusions -/

theorem assertOr_orP (a b : Pat) : assertOr (orP a b) = some (a, b) := by
  simp [assertOr, matchNotn, orP, negP]

theorem matchNotn_or (a b : Pat) : matchNotn .or (orP a b) = some [a, b] := by
  simp [matchNotn, orP, negP]

theorem matchNotn_and (a b : Pat) : matchNotn .and (andP a b) = some [a, b] := by
  simp [matchNotn, matchAnd_andP]

/-- `conjunction_implies_nth(term, n, l)`: `p0 /\ (p1 /\ (... /\ pl)) -> pn` -/
theorem conjunction_implies_nth_C : ∀ (ps : List Pat) (n fuel : Nat) (hn : n < ps.length), ps.length ≤ fuel →
    conjunction_implies_nth algCS fuel (foldrP andP ps) (n : Int) (ps.length : Int) =
      some (.imp (foldrP andP ps) ps[n]) := by
  intro ps
  induction ps with
  | nil => intro n fuel hn; simp at hn
  | cons a ps ih =>
    intro n fuel hn hf
    obtain ⟨f, rfl⟩ : ∃ f, fuel = f + 1 := ⟨fuel - 1, by simp at hf; omega⟩
    cases ps with
    | nil =>
      have : n = 0 := by simpa using hn
      subst this
      simp [conjunction_implies_nth, pyAssert, foldrP, lib_imp_refl]
    | cons b r =>
      have hl1 : ¬ ((r.length : Int) + 1 + 1 = 1) := by omega
      have hpos : (0 : Int) < (r.length : Int) + 1 + 1 := by omega
      cases n with
      | zero =>
        simp [conjunction_implies_nth, pyAssert, foldrP, hl1, hpos, assertAnd_andP, lib_and_l_imp]
      | succ m =>
        have hrec := ih m f (by simpa using hn) (by simpa using hf)
        have hm : (m : Int) < (r.length : Int) + 1 := by simp at hn; omega
        have hlt : (m : Int) + 1 < (r.length : Int) + 1 + 1 := by omega
        have h0 : (0 : Int) ≤ (m : Int) + 1 := by omega
        have hm0 : ¬ ((m : Int) + 1 = 0) := by omega
        have e1 : (m : Int) + 1 - 1 = (m : Int) := by omega
        have e2 : (r.length : Int) + 1 + 1 - 1 = (r.length : Int) + 1 := by omega
        simp only [List.length_cons] at hrec
        push_cast at hrec
        simp [conjunction_implies_nth, pyAssert, foldrP, hl1, assertAnd_andP, lib_and_r_imp,
          hlt, h0, hm0, e1, e2, hrec, lib_imp_transitivity]

/-- `merge_clauses(term_l, len_l, term_r)`: `(l1 \/ (.. \/ ln)) \/ r <-> l1 \/ (.. \/ (ln \/ r))` -/
theorem merge_clauses_C (tr : Pat) : ∀ (ls : List Pat) (fuel : Nat), ls ≠ [] → ls.length ≤ fuel →
    merge_clauses algCS fuel (foldrP orP ls) (ls.length : Int) tr =
      some (equivP (orP (foldrP orP ls) tr) (foldrP orP (ls ++ [tr]))) := by
  intro ls
  induction ls with
  | nil => intro fuel h; exact absurd rfl h
  | cons a ls ih =>
    intro fuel _ hf
    obtain ⟨f, rfl⟩ : ∃ f, fuel = f + 1 := ⟨fuel - 1, by simp at hf; omega⟩
    cases ls with
    | nil => simp [merge_clauses, foldrP, lib_equiv_refl]
    | cons b r =>
      have hl1 : ¬ ((r.length : Int) + 1 + 1 = 1) := by omega
      have hrec := ih f (by simp) (by simpa using hf)
      simp only [List.length_cons] at hrec
      push_cast at hrec
      have e2 : (r.length : Int) + 1 + 1 - 1 = (r.length : Int) + 1 := by omega
      cases r with
      | nil =>
        simp [merge_clauses, foldrP, assertOr_orP, lib_or_assoc, lib_equiv_sym]
      | cons c r' =>
        have hl2 : ¬ (((r'.length : Int) + 1) + 1 + 1 = 2) := by omega
        simp only [List.length_cons] at hrec hl1 e2
        push_cast at hrec hl1 e2
        simp only [foldrP, List.cons_append] at hrec
        simp [merge_clauses, foldrP, assertOr_orP, lib_or_assoc, lib_equiv_sym, hl1, hl2, e2, hrec, lib_equiv_refl,
          lib_or_cong, lib_equiv_transitivity]

/-- the loop of `reduce_n_or_duplicates_at_front`: one more `p \/ _` in front per iteration -/
theorem reduce_for1_C (p T : Pat) : ∀ (it : List Int) (q : Pat),
    reduce_n_or_duplicates_at_front_for1 algCS p it (equivP (orP p q) T) q =
      some (equivP (orP p ((List.replicate it.length p).foldr orP q)) T, (List.replicate it.length p).foldr orP q) := by
  intro it
  induction it with
  | nil => intro q; rfl
  | cons x it ih =>
    intro q
    simp only [reduce_n_or_duplicates_at_front_for1, lib_reduce_dup, lib_equiv_transitivity, Option.pure_def,
      Option.bind_eq_bind, Option.bind_some, ih (orP p q), List.length_cons]
    rw [List.replicate_succ', List.foldr_append]
    rfl

theorem foldrP_replicate (p : Pat) (B : List Pat) (hB : B ≠ []) (k : Nat) :
    foldrP orP (List.replicate k p ++ B) = (List.replicate k p).foldr orP (foldrP orP B) :=
  foldrP_append orP _ B hB

/-- `reduce_n_or_duplicates_at_front(n, terms)`: `p \/ (p ... (p \/ q)) <-> p \/ q` (`n + 1` copies of `p` in front) -/
theorem reduce_n_C (p : Pat) (rest : List Pat) (n fuel : Nat) (hf : n + 1 + rest.length ≤ fuel) :
    reduce_n_or_duplicates_at_front algCS fuel (n : Int) (List.replicate (n + 1) p ++ rest) =
      some (equivP (foldrP orP (List.replicate (n + 1) p ++ rest)) (foldrP orP (p :: rest))) := by
  have hlen : ((List.replicate (n + 1) p ++ rest).length : Int) = (n : Int) + 1 + rest.length := by simp
  have hne : List.replicate (n + 1) p ++ rest ≠ [] := by simp
  have hlt : (n : Int) < (n : Int) + 1 + (rest.length : Int) := by omega
  have h0 : (0 : Int) ≤ (n : Int) := by omega
  cases n with
  | zero =>
    have hfo := foldr_op_zero algCS orP (List.replicate 1 p ++ rest) fuel hne (by simp; omega)
    have hp : (0 : Int) < 1 + (rest.length : Int) := by omega
    simp only [reduce_n_or_duplicates_at_front, pyAssert, pyLen, hlen, hfo, lib_equiv_refl]
    simp [List.replicate, hp]
  | succ m =>
    have hm0 : ¬ ((m : Int) + 1 = 0) := by omega
    have hidx : pyIndex (List.replicate (m + 1 + 1) p ++ rest) (0 : Int) = some p := by
      simp [pyIndex, List.replicate_succ]
    have hrange : (pyRange (m : Int)).length = m := by
      simp [pyRange]
    have a1 : (0 : Int) ≤ (m : Int) + 1 := by omega
    cases rest with
    | nil =>
      have a2 : (m : Int) + 1 < (m : Int) + 1 + 1 := by omega
      simp only [List.append_nil] at hidx
      have hgoal : foldrP orP (List.replicate (m + 1 + 1) p) = orP p ((List.replicate m p).foldr orP p) := by
        have := foldrP_replicate p [p] (by simp) (m + 1)
        rw [← List.replicate_succ'] at this
        rw [this]; rfl
      simp only [reduce_n_or_duplicates_at_front, pyAssert, pyLen, hidx, Option.pure_def, Option.bind_eq_bind,
        Option.bind_some, List.append_nil, List.length_replicate]
      push_cast
      simp [a1, a2, hm0, lib_or_idem, reduce_for1_C p p, hrange, hgoal, foldrP]
    | cons b r =>
      have a2 : (m : Int) + 1 < (m : Int) + 1 + 1 + ((r.length : Int) + 1) := by omega
      have e3 : ¬ ((m : Int) + 1 + 1 + ((r.length : Int) + 1) = (m : Int) + 1 + 1) := by omega
      have hfo : foldr_op algCS fuel orP (List.replicate (m + 1 + 1) p ++ b :: r) ((m : Int) + 1 + 1) (-(1 : Int)) =
          some (foldrP orP (b :: r)) := by
        have := foldr_op_default algCS orP (List.replicate (m + 1 + 1) p ++ b :: r) (m + 1 + 1) fuel (by simp)
          (by simp at hf ⊢; omega)
        push_cast at this
        rw [this]
        simp [List.drop_append]
      have hgoal : foldrP orP (List.replicate (m + 1 + 1) p ++ b :: r) =
          orP p ((List.replicate m p).foldr orP (orP p (foldrP orP (b :: r)))) := by
        rw [foldrP_replicate p (b :: r) (by simp) (m + 1 + 1), List.replicate_succ, List.foldr_cons,
          List.replicate_succ', List.foldr_append]
        rfl
      simp only [reduce_n_or_duplicates_at_front, pyAssert, pyLen, hidx, Option.pure_def, Option.bind_eq_bind,
        Option.bind_some, List.length_append, List.length_replicate, List.length_cons]
      push_cast
      simp [a1, a2, hm0, e3, hfo, lib_reduce_dup, reduce_for1_C p (orP p (foldrP orP (b :: r))), hrange, hgoal]
      rfl

end ClauseThm
