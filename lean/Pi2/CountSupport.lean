/-!
# What the generated counting pre-pass (`Pi2/Gen/PyCount.lean`, written by `vlib/transcount.py`) is expressed in

Hand-written and deliberately tiny: Python's `dict`, `set`, `list.sort`, `sum`, `assert`, the two classes
that can sit in `StatefulInterpreter.memory`, the `isinstance` tests / attribute reads `_collect_patterns`
performs on a pattern — and the ORDER ORACLE that stands for the iteration order of a `set`.

## Keys

`K` is the type of the dictionary keys: the Python pattern objects up to the equality CPython's `dict` / `set`
implement, i.e. `hash(a) == hash(b) and (a is b or a == b)`.  For the frozen dataclasses of `pattern.py` the
hash is the hash of the field tuple and `==` compares the field tuples, so (up to collisions of the full 64-bit
hash) this is STRUCTURAL equality of the object trees — notation nodes (`Instantiate`) are NOT identified with
their expansion here, because their hash is the hash of `(pattern, inst)`.  The library only needs decidable
equality (`[DecidableEq K]`); nothing else about patterns is used by `finalize`.  The recording phase
(`_collect_patterns`) additionally looks at the class of a pattern and at its fields: `PyPattern K`.

## Iteration order

* `dict`: insertion ordered — an association list (`PyDict`); assigning to an existing key keeps its position.
* `list`: a `List`.
* `set`: a `List` (`PySet`, kept without repetitions by `setAdd`) that is only a LISTING of the elements.  The
  listing is never observed directly: membership (`setContains`) does not depend on it, and every ITERATION
  (`for x in s`, a comprehension over `s`, `list(s)`, `sorted(s, key=..)`, `s.pop()`) goes through
  `setIter orders tick s`, where `orders : Orders K` is an arbitrary function chosen by the caller and `tick`
  counts the set iterations performed so far (so that two iterations of the same set may use different
  orders).  `Orders.Valid`: every answer is a permutation of the set that is iterated.
* `none` = the Python code raises (`KeyError`, `AssertionError`, `IndexError`, `RecursionError` when the `fuel` of a
  recursive method is used up).
-/
namespace CountSup

abbrev PyDict (K V : Type) := List (K × V)
abbrev PySet (K : Type) := List K

/-- the order oracle: the `tick`-th iteration of a set whose listing is `l` visits `orders tick l` -/
abbrev Orders (K : Type) := Nat → List K → List K
/-- every answer of the oracle is a permutation of the set it orders -/
def Orders.Valid {K : Type} (o : Orders K) : Prop := ∀ (t : Nat) (l : List K), (o t l).Perm l

/-- the ONLY way the elements of a set are enumerated -/
def setIter {K : Type} (o : Orders K) (tick : Nat) (s : PySet K) : List K := o tick s

/-! ## the objects in `StatefulInterpreter.memory`: `Pattern | Proved` -/
structure Proved (K : Type) where
  conclusion : K
deriving Repr

inductive MemItem (K : Type) where
  | pattern (p : K)
  | proved (p : Proved K)
deriving Repr

/-! ## what `_collect_patterns` asks of a pattern: `isinstance(p, Implies | App | Exists | Mu)`, `.left`, `.right`,
`.subpattern` (meaningful under the corresponding test only — the translator emits them only there).  `size` and
its three laws say that these fields are proper sub-objects (the dataclasses are finite trees). -/
class PyPattern (K : Type) where
  isImplies : K → Bool
  isApp : K → Bool
  isExists : K → Bool
  isMu : K → Bool
  left : K → K
  right : K → K
  subpattern : K → K
  size : K → Nat
  left_lt : ∀ p, (isImplies p || isApp p) = true → size (left p) < size p
  right_lt : ∀ p, (isImplies p || isApp p) = true → size (right p) < size p
  subpattern_lt : ∀ p, (isExists p || isMu p) = true → size (subpattern p) < size p

/-! ## control, numbers, lists -/
/-- `assert b` -/
def pyAssert (b : Bool) : Option Unit := if b then some () else none
/-- `x = xs.pop(0)` (`IndexError` on the empty list): the element and the remaining list -/
def listPop0 {α : Type} : List α → Option (α × List α)
  | [] => none
  | x :: xs => some (x, xs)
/-- `sum(xs)` -/
def pySum (xs : List Int) : Int := xs.foldl (· + ·) 0

/-- insertion into a list that is sorted by `key` (ascending, or descending when `reverse`), IN FRONT of the elements
with an equal key -/
def sortInsert {α : Type} (reverse : Bool) (x : α × Int) : List (α × Int) → List (α × Int)
  | [] => [x]
  | y :: ys => if (if reverse then decide (y.2 ≤ x.2) else decide (x.2 ≤ y.2)) then x :: y :: ys
               else y :: sortInsert reverse x ys
/-- `xs.sort(key=.., reverse=..)` / `sorted(xs, key=.., reverse=..)` on the list of `(element, key(element))`: STABLE —
elements with equal keys keep their relative order, also with `reverse=True` (Python's guarantee).  So whenever two
keys tie, the order of the INPUT list is visible in the output. -/
def pySort {α : Type} (reverse : Bool) (xs : List (α × Int)) : List α :=
  (xs.foldr (sortInsert reverse) []).map (·.1)

section
variable {K V : Type} [DecidableEq K]

/-! ## `dict` -/
/-- `d[k]` (`KeyError`) -/
def dictGet : PyDict K V → K → Option V
  | [], _ => none
  | (k', v) :: r, k => if k' = k then some v else dictGet r k
/-- `k in d` -/
def dictContains (d : PyDict K V) (k : K) : Bool := d.any (fun kv => decide (kv.1 = k))
/-- `d[k] = v`: an existing key keeps its position, a new key goes to the end -/
def dictSet (d : PyDict K V) (k : K) (v : V) : PyDict K V :=
  if dictContains d k then d.map (fun kv => if kv.1 = k then (kv.1, v) else kv) else d ++ [(k, v)]
/-- `d.setdefault(k, v)` as a statement -/
def dictSetDefault (d : PyDict K V) (k : K) (v : V) : PyDict K V :=
  if dictContains d k then d else d ++ [(k, v)]
/-- `d.get(k, default)` -/
def dictGetD (d : PyDict K V) (k : K) (default : V) : V := (dictGet d k).getD default
/-- iteration over `d` / `d.keys()`: insertion order -/
def dictKeys (d : PyDict K V) : List K := d.map (·.1)
/-- `d.values()` -/
def dictValues (d : PyDict K V) : List V := d.map (·.2)
/-- `d.items()` -/
def dictItems (d : PyDict K V) : List (K × V) := d

/-! ## `set` (listing; see the header) and `in` on a list -/
def setEmpty : PySet K := []
/-- `x in s` -/
def setContains (s : PySet K) (x : K) : Bool := decide (x ∈ s)
/-- `s.add(x)` -/
def setAdd (s : PySet K) (x : K) : PySet K := if x ∈ s then s else s ++ [x]
/-- `set(xs)` for a list / dict view `xs` -/
def setOfList (xs : List K) : PySet K := xs.foldl setAdd setEmpty
/-- `a - b` (`a` a set or a `dict.keys()` view): a SET -/
def setDiff (a : List K) (b : PySet K) : PySet K := setOfList (a.filter fun x => !setContains b x)
/-- `a | b` -/
def setUnion (a b : PySet K) : PySet K := b.foldl setAdd a
/-- `a & b` -/
def setInter (a b : PySet K) : PySet K := a.filter fun x => setContains b x
/-- `x in xs` for a list (`==` on keys) -/
def listContains (xs : List K) (x : K) : Bool := decide (x ∈ xs)
/-- `s.pop()`: removes and returns the element the iteration order puts first (`KeyError` on the empty set) -/
def setPop (o : Orders K) (tick : Nat) (s : PySet K) : Option (K × PySet K) :=
  match setIter o tick s with
  | [] => none
  | x :: _ => some (x, s.filter fun y => !decide (y = x))

end
end CountSup
