import Pi2.KDefTieM6
/-!
# From one module to the next: the invariant of the construction is kept when a module is finished and a new one (fresh name) is begun
-/
set_option linter.unusedVariables false
set_option linter.unusedSimpArgs false
namespace KDefTieM2
open PyI PyM PyK Kore Gen.PyKDef KDefSpec KDefTie KDefTieM

/-- `KModule(name, counter)` after `__enter__` -/
def newMod (name : Nat) : RMod :=
  { name := name, parsing := some true, imports := [], inames := [], cl := [], reach := [], sorts := [], symbols := [], rules := [] }

/-- the state when the module under construction is finished (`__exit__`) and the module `name` is begun -/
def nextModule (st : RStM) (name : Nat) : RStM :=
  { done := st.done ++ [{ st.cur with parsing := some false }], cur := newMod name, nAxioms := st.nAxioms }

theorem modOK_new (before : List RMod) (name : Nat) : ModOK before (newMod name) :=
  ⟨by simp [newMod], by simp [newMod], rfl, by simp [newMod]⟩

/-- the first module -/
theorem inv_first (name : Nat) : InvM { done := [], cur := newMod name, nAxioms := 0 } where
  distinct := by
    intro a b x y ha hb _
    have h1 := idx_lt ha; have h2 := idx_lt hb
    simp [RStM.mods] at h1 h2; omega
  doneOK := by intro i m hm; simp at hm
  curOK := modOK_new _ _
  parsing := rfl
  wf := by intro ru hru; simp [RStM.mods, newMod] at hru

theorem inv_next {st : RStM} (hinv : InvM st) (name : Nat) (hfresh : ∀ m ∈ st.mods, m.name ≠ name) : InvM (nextModule st name) where
  distinct := by
    intro a b x y ha hb hn
    have key : ∀ (c : Nat) (z : RMod), (nextModule st name).mods[c]? = some z →
        (c < st.mods.length ∧ ∃ z', st.mods[c]? = some z' ∧ z'.name = z.name) ∨ (c = st.mods.length ∧ z.name = name) := by
      intro c z hc
      simp only [nextModule, RStM.mods] at hc ⊢
      rcases Nat.lt_trichotomy c st.done.length with h | h | h
      · left
        rw [List.getElem?_append_left (by simp; omega), List.getElem?_append_left h] at hc
        exact ⟨by simp; omega, z, by rw [List.getElem?_append_left h]; exact hc, rfl⟩
      · subst h
        left
        rw [List.getElem?_append_left (by simp)] at hc
        simp at hc
        exact ⟨by simp, st.cur, by simp, by rw [← hc]⟩
      · rcases Nat.lt_or_ge c (st.done.length + 1) with h' | h'
        · omega
        · rcases Nat.lt_or_ge (st.done.length + 1) c with h'' | h''
          · rw [List.getElem?_eq_none (by simp; omega)] at hc; cases hc
          · have : c = st.done.length + 1 := by omega
            subst this
            right
            rw [List.getElem?_append_right (by simp)] at hc
            simp at hc
            exact ⟨by simp, by rw [← hc]; rfl⟩
    rcases key a x ha with ⟨_, x', hx', hxn⟩ | ⟨ha', hxn⟩ <;> rcases key b y hb with ⟨_, y', hy', hyn⟩ | ⟨hb', hyn⟩
    · exact hinv.distinct a b x' y' hx' hy' (by rw [hxn, hyn, hn])
    · exact absurd (by rw [hxn, hn, hyn]) (hfresh x' (List.mem_of_getElem? hx'))
    · exact absurd (by rw [hyn, ← hn, hxn]) (hfresh y' (List.mem_of_getElem? hy'))
    · omega
  doneOK := by
    intro i m hm
    simp only [nextModule] at hm ⊢
    rcases Nat.lt_or_ge i st.done.length with h | h
    · rw [List.getElem?_append_left h] at hm
      rw [List.take_append_of_le_length (by omega)]
      exact hinv.doneOK i m hm
    · have hi := idx_lt hm
      have : i = st.done.length := by simp at hi; omega
      subst this
      simp at hm; subst hm
      rw [List.take_append_of_le_length (by omega), List.take_length]
      exact hinv.curOK
  curOK := modOK_new _ _
  parsing := rfl
  wf := by
    intro ru hru
    apply hinv.wf ru
    simpa [nextModule, RStM.mods, newMod, List.flatMap_append] using hru

#print axioms inv_next
end KDefTieM2
