import Pi2.MatchThm
/-!
# Completeness of matching for *partial* instantiations

`matchF_complete` is stated for a substitution θ that is defined on every metavariable id of the
pattern.  `pattern.instantiate(θ)` of the toolkit also accepts a θ that leaves some ids alone; the
instance then keeps those metavariable nodes.  Matching is still complete in that case *provided*
every id that θ leaves alone occurs in the pattern with one constraint record only
(`Py.Consistent`): θ is extended by "the id's own record" and `matchF_complete` applies.  Without
the proviso completeness fails — `C13.match_incomplete_two_lists` is the concrete witness, the open
finding KF-C13-two-lists.
-/
open Pat

namespace Py

/-- the metavariable nodes of a pattern, in order of occurrence -/
def mvRecs : Pat → List Pat
  | .evar _ => [] | .svar _ => [] | .sym _ => []
  | .mv id ef sf ps ns hs => [.mv id ef sf ps ns hs]
  | .imp l r => mvRecs l ++ mvRecs r
  | .app l r => mvRecs l ++ mvRecs r
  | .ex _ p => mvRecs p | .mu _ p => mvRecs p
  | .esub p _ q => mvRecs p ++ mvRecs q
  | .ssub p _ q => mvRecs p ++ mvRecs q

def mvId : Pat → Option VId
  | .mv id .. => some id
  | _ => none

/-- the first record of id `k` -/
def recOf (rs : List Pat) (k : VId) : Option Pat := rs.find? (fun m => mvId m == some k)

/-- θ extended by "an id that θ leaves alone is mapped to its own record" -/
def extend (θ : VId → Option Pat) (rs : List Pat) : VId → Option Pat := fun k =>
  match θ k with
  | some v => some v
  | none => recOf rs k

/-- every id that θ leaves alone has one record only -/
def Consistent (θ : VId → Option Pat) (rs : List Pat) : Prop :=
  ∀ m1 ∈ rs, ∀ m2 ∈ rs, ∀ k, mvId m1 = some k → mvId m2 = some k → θ k = none → m1 = m2

theorem mem_mvRecs_id (p : Pat) : ∀ k ∈ metavars p, ∃ m ∈ mvRecs p, mvId m = some k := by
  induction p with
  | evar x => intro k h; simp [metavars] at h
  | svar x => intro k h; simp [metavars] at h
  | sym x => intro k h; simp [metavars] at h
  | mv id ef sf ps ns hs =>
    intro k h; simp [metavars] at h; subst h
    exact ⟨.mv k ef sf ps ns hs, by simp [mvRecs], by simp [mvId]⟩
  | imp l r ihl ihr =>
    intro k h; simp only [metavars, List.mem_append] at h
    rcases h with h | h
    · obtain ⟨m, hm, hid⟩ := ihl k h; exact ⟨m, by simp [mvRecs, hm], hid⟩
    · obtain ⟨m, hm, hid⟩ := ihr k h; exact ⟨m, by simp [mvRecs, hm], hid⟩
  | app l r ihl ihr =>
    intro k h; simp only [metavars, List.mem_append] at h
    rcases h with h | h
    · obtain ⟨m, hm, hid⟩ := ihl k h; exact ⟨m, by simp [mvRecs, hm], hid⟩
    · obtain ⟨m, hm, hid⟩ := ihr k h; exact ⟨m, by simp [mvRecs, hm], hid⟩
  | ex x p ih => intro k h; simp only [metavars] at h; obtain ⟨m, hm, hid⟩ := ih k h; exact ⟨m, by simpa [mvRecs] using hm, hid⟩
  | mu x p ih => intro k h; simp only [metavars] at h; obtain ⟨m, hm, hid⟩ := ih k h; exact ⟨m, by simpa [mvRecs] using hm, hid⟩
  | esub p x q ihp ihq =>
    intro k h; simp only [metavars, List.mem_append] at h
    rcases h with h | h
    · obtain ⟨m, hm, hid⟩ := ihp k h; exact ⟨m, by simp [mvRecs, hm], hid⟩
    · obtain ⟨m, hm, hid⟩ := ihq k h; exact ⟨m, by simp [mvRecs, hm], hid⟩
  | ssub p x q ihp ihq =>
    intro k h; simp only [metavars, List.mem_append] at h
    rcases h with h | h
    · obtain ⟨m, hm, hid⟩ := ihp k h; exact ⟨m, by simp [mvRecs, hm], hid⟩
    · obtain ⟨m, hm, hid⟩ := ihq k h; exact ⟨m, by simp [mvRecs, hm], hid⟩

theorem recOf_mem (rs : List Pat) (k : VId) (m : Pat) (h : recOf rs k = some m) : m ∈ rs ∧ mvId m = some k := by
  unfold recOf at h
  refine ⟨List.mem_of_find?_eq_some h, ?_⟩
  have := List.find?_some h
  simpa using this

theorem recOf_isSome (rs : List Pat) (k : VId) (m : Pat) (hm : m ∈ rs) (hid : mvId m = some k) :
    (recOf rs k).isSome = true := by
  unfold recOf
  rw [List.find?_isSome]
  exact ⟨m, hm, by simp [hid]⟩

/-- on a substitution-free pattern whose records are all in `rs`, the extension changes nothing -/
theorem inst_extend (θ : VId → Option Pat) (rs : List Pat) (hc : Consistent θ rs) (q : Pat) :
    q.SubstFree = true → (∀ m ∈ mvRecs q, m ∈ rs) → inst (extend θ rs) q = inst θ q := by
  induction q with
  | evar x => intro _ _; simp [inst]
  | svar x => intro _ _; simp [inst]
  | sym x => intro _ _; simp [inst]
  | mv id ef sf ps ns hs =>
    intro _ hsub
    have hin : Pat.mv id ef sf ps ns hs ∈ rs := hsub _ (by simp [mvRecs])
    simp only [inst, extend]
    cases hθ : θ id with
    | some v => rfl
    | none =>
      simp only []
      have hs := recOf_isSome rs id _ hin (by simp [mvId])
      cases hr : recOf rs id with
      | none => simp [hr] at hs
      | some m =>
        obtain ⟨hm, hid⟩ := recOf_mem rs id m hr
        have := hc m hm _ hin id hid (by simp [mvId]) hθ
        simp [this]
  | imp l r ihl ihr =>
    intro hsf hsub
    simp only [Pat.SubstFree, Bool.and_eq_true] at hsf
    simp only [inst]
    rw [ihl hsf.1 (fun m hm => hsub m (by simp [mvRecs, hm])), ihr hsf.2 (fun m hm => hsub m (by simp [mvRecs, hm]))]
  | app l r ihl ihr =>
    intro hsf hsub
    simp only [Pat.SubstFree, Bool.and_eq_true] at hsf
    simp only [inst]
    rw [ihl hsf.1 (fun m hm => hsub m (by simp [mvRecs, hm])), ihr hsf.2 (fun m hm => hsub m (by simp [mvRecs, hm]))]
  | ex x p ih =>
    intro hsf hsub
    simp only [Pat.SubstFree] at hsf
    simp only [inst]
    rw [ih hsf (fun m hm => hsub m (by simpa [mvRecs] using hm))]
  | mu x p ih =>
    intro hsf hsub
    simp only [Pat.SubstFree] at hsf
    simp only [inst]
    rw [ih hsf (fun m hm => hsub m (by simpa [mvRecs] using hm))]
  | esub p x q _ _ => intro hsf; simp [Pat.SubstFree] at hsf
  | ssub p x q _ _ => intro hsf; simp [Pat.SubstFree] at hsf

end Py

namespace NPat

/-- **completeness for partial instantiations**: θ may leave metavariable ids of the pattern alone,
as long as each such id has one constraint record in the pattern -/
theorem matchF_complete_partial (n : Nat) (p i : NPat) (s : NPat.Subst) (θ : VId → Option Pat)
    (r : Option NPat.Subst)
    (hp : p.Shape = true) (hi : i.Shape = true) (hs : NPat.ShapeMap s = true) (hsf : p.expand.SubstFree = true)
    (hc : Py.Consistent θ (Py.mvRecs p.expand)) (hinst : i.expand = Py.inst θ p.expand)
    (hseed : ∀ k v, Py.lookup s k = some v → θ k = some v.expand)
    (h : NPat.matchF n p i s = some r) :
    ∃ s', r = some s' ∧ (∀ k v, Py.lookup s' k = some v → Py.extend θ (Py.mvRecs p.expand) k = some v.expand) := by
  refine matchF_complete n p i s (Py.extend θ (Py.mvRecs p.expand)) r hp hi hs hsf ?_ ?_ ?_ h
  · intro k hk
    obtain ⟨m, hm, hid⟩ := Py.mem_mvRecs_id p.expand k hk
    unfold Py.extend
    cases hθ : θ k with
    | some v => rfl
    | none => exact Py.recOf_isSome _ k m hm hid
  · rw [Py.inst_extend θ _ hc p.expand hsf (fun m hm => hm)]; exact hinst
  · intro k v hl
    unfold Py.extend
    rw [hseed k v hl]

end NPat
