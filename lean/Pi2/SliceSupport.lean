import Pi2.MM.Slice
/-!
# What the generated slicer (`Pi2/Gen/Slicer.lean`, written by `vlib/transslice.py`) is expressed in

Hand-written and deliberately tiny: the `isinstance` tests and attribute accessors of `metamath/ast.py` on the AST of
`Pi2/MM/Ast.lean`, Python's `dict` as an insertion-ordered association list with *string* keys, the handful of
`str` / `tuple` primitives `metamath_extract_slice.py` uses, and the token-level reading of the three string operations of
`deconstruct_compressed_proof`.  `Statement.get_metavariables` is `MM.stmtMvs` (`Pi2/MM/Slice.lean`), `sorted(<set>)` is
`MM.sortDedup`.

Conventions of the translation
* `none` = the Python code raises (in the one function with a `while` loop also: the fuel ran out).
* a Python `set` / `frozenset` / `tuple` / `list` is a `List`; a set is a list in which repetitions and order do not matter —
  the translator only accepts the order-insensitive operations on sets (membership, union, truth value, iteration that
  accumulates into sets, `sorted`), so that no result depends on the iteration order of a set.
* an accessor applied to a statement of the wrong class returns a junk default; the translator only emits an accessor where
  the class is known from an enclosing `isinstance` test or from the parameter's annotation (otherwise it reports a problem).
* a `Metavariable` object is its name (`Metavariable(v)` and `.name` are the identity); `Database(t)` and `.statements` of a
  database are the identity (`MM.MDb = List MStmt`).
-/
namespace SliceSup
open MM

/-! ## `isinstance` (class hierarchy of `metamath/ast.py`; `Comment` / `IncludeStatement` are not in the modelled AST) -/
def isApplication : MTerm → Bool | .app _ _ => true | _ => false
def isMetavariable : MTerm → Bool | .mv _ => true | _ => false
def isConstant : MStmt → Bool | .const _ => true | _ => false
def isVariable : MStmt → Bool | .var _ => true | _ => false
def isDisjoint : MStmt → Bool | .disj _ => true | _ => false
def isFloating : MStmt → Bool | .float _ _ _ => true | _ => false
def isEssential : MStmt → Bool | .ess _ _ => true | _ => false
def isAxiomatic : MStmt → Bool | .ax _ _ => true | _ => false
def isProvable : MStmt → Bool | .prov _ _ _ => true | _ => false
def isBlock : MStmt → Bool | .block _ => true | _ => false
/-- `StructuredStatement`: `FloatingStatement`, `EssentialStatement`, `AxiomaticStatement`, `ProvableStatement` -/
def isStructured (s : MStmt) : Bool := isFloating s || isEssential s || isAxiomatic s || isProvable s
/-- `ConclusionStatement`: `AxiomaticStatement`, `ProvableStatement` -/
def isConclusion (s : MStmt) : Bool := isAxiomatic s || isProvable s

/-! ## attributes -/
end SliceSup
namespace MM
/-- `Application.symbol` -/
def MTerm.symbol : MTerm → String | .app s _ => s | _ => ""
/-- `Application.subterms` -/
def MTerm.subterms : MTerm → List MTerm | .app _ a => a | _ => []
/-- `StructuredStatement.label` -/
def MStmt.label : MStmt → String
  | .float l _ _ => l | .ess l _ => l | .ax l _ => l | .prov l _ _ => l | _ => ""
/-- `StructuredStatement.terms` (a `FloatingStatement` is built from the two terms `Application(typecode)`, `Metavariable(var)`) -/
def MStmt.terms : MStmt → List MTerm
  | .float _ tc v => [.app tc [], .mv v] | .ess _ ts => ts | .ax _ ts => ts | .prov _ ts _ => ts | _ => []
/-- `FloatingStatement.typecode` -/
def MStmt.typecode : MStmt → String | .float _ tc _ => tc | _ => ""
/-- `FloatingStatement.metavariable` (a string) -/
def MStmt.metavariable : MStmt → String | .float _ _ v => v | _ => ""
/-- `DisjointStatement.metavariables` / `VariableStatement.metavariables` (`Metavariable` objects = their names) -/
def MStmt.metavariables : MStmt → List String | .disj vs => vs | .var vs => vs | _ => []
/-- `Block.statements` -/
def MStmt.statements : MStmt → List MStmt | .block ss => ss | _ => []
/-- `ProvableStatement.proof`: the string `' '.join(tokens)` the parser stores, as its tokens (`""` = no token) -/
def MStmt.proof : MStmt → List String | .prov _ _ pf => pf | _ => []
/-- `Statement.get_metavariables()` -/
def MStmt.get_metavariables (s : MStmt) : List String := stmtMvs s
end MM
namespace SliceSup
open MM

/-! ## control -/
/-- `assert b` -/
def pyAssert (b : Bool) : Option Unit := if b then some () else none
/-- `x, *xs = xs` (`ValueError` on the empty sequence) -/
def pyHeadRest {α : Type} : List α → Option (α × List α) | [] => none | x :: xs => some (x, xs)
/-- `xs[-1]` (`IndexError` on the empty sequence) -/
def pyLast {α : Type} (xs : List α) : Option α := xs.getLast?
/-- truth value of a `str` -/
def strTruthy (s : String) : Bool := !s.isEmpty
/-- `filter(None, xs)` for `xs` of `str | None`: drops `None` and the empty string -/
def pyFilterNone (xs : List (Option String)) : List String := xs.filterMap fun o => o.filter strTruthy
/-- `sorted(s)` for a set `s` of strings -/
def sortedSet (xs : List String) : List String := sortDedup xs
/-- `s[0:-n]` for `n = len(<non-empty literal>)` (the translator checks the shape) -/
def strDropEnd (s : String) (n : Nat) : String := (s.dropEnd n).toString

/-! ## `dict` with string keys: insertion-ordered; assigning to an existing key keeps its position -/
abbrev PyDict (α : Type) := List (String × α)
def dictLen {α : Type} (d : PyDict α) : Nat := d.length
def dictKeys {α : Type} (d : PyDict α) : List String := d.map (·.1)
def dictValues {α : Type} (d : PyDict α) : List α := d.map (·.2)
def dictItems {α : Type} (d : PyDict α) : List (String × α) := d
/-- `d[k]` (`KeyError`) -/
def dictGet? {α : Type} (d : PyDict α) (k : String) : Option α := d.lookup k
/-- `d.get(k, default)` -/
def dictGetD {α : Type} (d : PyDict α) (k : String) (default : α) : α := (d.lookup k).getD default
/-- `d[k] = v` -/
def dictSet {α : Type} (d : PyDict α) (k : String) (v : α) : PyDict α :=
  if d.any (·.1 == k) then d.map fun (k', v') => if k' == k then (k', v) else (k', v')
  else d ++ [(k, v)]

/-! ## `deconstruct_compressed_proof`: string positions at token level

The parser stores `' '.join(tokens)`; the model keeps the tokens.  ASSUMPTION (stated at the top of `Pi2/MM/Slice.lean`):
the characters `(` and `)` occur in a proof only as the one-character tokens `(` and `)`.  Under it every character
offset the function computes is the offset of the start of a token, or one more than the offset of a one-character token
(the blank behind it or the end of the string), or `-1`.  Such an offset is represented by the integer `2 * k` for "start of
token `k`", `2 * k + 1` for "one character behind the start of the one-character token `k`", `-1` for `-1`: `+ 1` on
Python's side is `+ 1` here, and `<` / `<=` between such offsets agree with `<` / `<=` between the representations. -/
/-- `proof.find(tok, start)`: the first token `tok` that starts at or after `start` -/
def posFind (pf : List String) (tok : String) (start : Int) : Int :=
  let k := (start.toNat + 1) / 2
  match (pf.drop k).idxOf? tok with
  | some i => 2 * ((k + i : Nat) : Int)
  | none => -1
/-- `proof[lo:hi].split()`: the tokens that start at or after `lo` and before `hi` (non-negative offsets) -/
def posSlice (pf : List String) (lo hi : Int) : List String :=
  let a := (lo.toNat + 1) / 2
  let b := (hi.toNat + 1) / 2
  (pf.drop a).take (b - a)
/-- `proof[lo:]` -/
def posSliceFrom (pf : List String) (lo : Int) : List String := pf.drop ((lo.toNat + 1) / 2)

/-! ## termination of the two recursive functions (structural in Python: a subterm / a statement of a block) -/
theorem sizeOf_subterms_lt {t : MTerm} {ts : List MTerm} (hm : t ∈ ts) (_h : isApplication t = true) :
    sizeOf t.subterms < sizeOf ts := by
  have := List.sizeOf_lt_of_mem hm
  cases t with
  | mv n => simp [isApplication] at _h
  | app s a => simp [MTerm.subterms] at this ⊢; omega

theorem sizeOf_statements_lt {s : MStmt} {ss : List MStmt} (hm : s ∈ ss) (_h : isBlock s = true) :
    sizeOf s.statements < sizeOf ss := by
  have := List.sizeOf_lt_of_mem hm
  cases s <;> simp [isBlock] at _h
  simp [MStmt.statements] at this ⊢; omega

end SliceSup
