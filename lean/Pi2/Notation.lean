import Pi2.Pattern
/-!
# The generator's patterns: `pattern.py` (with the `Instantiate` notation node)

`NPat` is the Python class hierarchy `EVar … SSubst, Instantiate`.  The operations follow
`pattern.py` method by method (tree after the `fix:` commits F3–F5).  Python's `apply_esubst`
on a notation node first *simplifies* it (one level of `instantiate`) and recurses on the
result, which is not structural; all operations therefore take fuel, and running out of fuel
(`none`) corresponds to a Python `RecursionError` — an observable failure, never a wrong answer.

`Py.*` are the same operations on notation-free patterns (`Pat`), total and structural.
`expand : NPat → Pat` removes all notation.
-/
open Pat

inductive NPat where
  | evar (x : VId) | svar (X : VId) | sym (s : VId)
  | imp (l r : NPat) | app (l r : NPat)
  | ex (x : VId) (p : NPat) | mu (X : VId) (p : NPat)
  | mv (id : VId) (ef sf pos neg holes : List VId)
  | esub (p : NPat) (x : VId) (plug : NPat)
  | ssub (p : NPat) (X : VId) (plug : NPat)
  | inst (p : NPat) (m : List (Nat × NPat))
deriving Repr, Inhabited

/-! ## notation-free operations (`Pat`) as Python computes them -/
namespace Py

/-- `apply_esubst` of pattern.py on notation-free patterns: no capture check; a metavariable that
declares the variable e-fresh is returned unchanged -/
def esub (x : VId) (plug : Pat) : Pat → Pat
  | .evar y => if y = x then plug else .evar y
  | .svar X => .svar X | .sym s => .sym s
  | .imp l r => .imp (esub x plug l) (esub x plug r)
  | .app l r => .app (esub x plug l) (esub x plug r)
  | .ex y p => if y = x then .ex y p else .ex y (esub x plug p)
  | .mu Y p => .mu Y (esub x plug p)
  | .mv id ef sf ps ns hs => if ef.contains x then .mv id ef sf ps ns hs else .esub (.mv id ef sf ps ns hs) x plug
  | .esub p y q => .esub (.esub p y q) x plug
  | .ssub p Y q => .esub (.ssub p Y q) x plug

def ssub (X : VId) (plug : Pat) : Pat → Pat
  | .svar Y => if Y = X then plug else .svar Y
  | .evar x => .evar x | .sym s => .sym s
  | .imp l r => .imp (ssub X plug l) (ssub X plug r)
  | .app l r => .app (ssub X plug l) (ssub X plug r)
  | .ex y p => .ex y (ssub X plug p)
  | .mu Y p => if Y = X then .mu Y p else .mu Y (ssub X plug p)
  | .mv id ef sf ps ns hs => if sf.contains X then .mv id ef sf ps ns hs else .ssub (.mv id ef sf ps ns hs) X plug
  | .esub p y q => .ssub (.esub p y q) X plug
  | .ssub p Y q => .ssub (.ssub p Y q) X plug

/-- `instantiate` of pattern.py on notation-free patterns (`can_be_replaced_by` is `True`) -/
def inst (δ : VId → Option Pat) : Pat → Pat
  | .evar x => .evar x | .svar X => .svar X | .sym s => .sym s
  | .mv id ef sf ps ns hs => match δ id with | some q => q | none => .mv id ef sf ps ns hs
  | .imp l r => .imp (inst δ l) (inst δ r)
  | .app l r => .app (inst δ l) (inst δ r)
  | .ex x p => .ex x (inst δ p)
  | .mu X p => .mu X (inst δ p)
  | .esub p x q => esub x (inst δ q) (inst δ p)
  | .ssub p X q => ssub X (inst δ q) (inst δ p)

def lookup {α} : List (Nat × α) → Nat → Option α
  | [], _ => none
  | (k, v) :: r, i => if k = i then some v else lookup r i

def metavars : Pat → List VId
  | .evar _ => [] | .svar _ => [] | .sym _ => []
  | .mv id .. => [id]
  | .imp l r => metavars l ++ metavars r
  | .app l r => metavars l ++ metavars r
  | .ex _ p => metavars p | .mu _ p => metavars p
  | .esub p _ q => metavars p ++ metavars q
  | .ssub p _ q => metavars p ++ metavars q

end Py

namespace NPat

def ofPat : Pat → NPat
  | .evar x => .evar x | .svar x => .svar x | .sym s => .sym s
  | .imp l r => .imp (ofPat l) (ofPat r) | .app l r => .app (ofPat l) (ofPat r)
  | .ex x p => .ex x (ofPat p) | .mu x p => .mu x (ofPat p)
  | .mv a b c d e f => .mv a b c d e f
  | .esub p x q => .esub (ofPat p) x (ofPat q)
  | .ssub p x q => .ssub (ofPat p) x (ofPat q)

/-- full expansion: remove every notation node -/
def expand : NPat → Pat
  | evar x => .evar x | svar X => .svar X | sym s => .sym s
  | imp l r => .imp (expand l) (expand r)
  | app l r => .app (expand l) (expand r)
  | ex x p => .ex x (expand p)
  | mu X p => .mu X (expand p)
  | mv id ef sf ps ns hs => .mv id ef sf ps ns hs
  | esub p x q => .esub (expand p) x (expand q)
  | ssub p X q => .ssub (expand p) X (expand q)
  | inst p m => Py.inst (Py.lookup (expandMap m)) (expand p)
where
  expandMap : List (Nat × NPat) → List (Nat × Pat)
    | [] => []
    | (k, v) :: r => (k, expand v) :: expandMap r

/-- the syntactic over-approximation of the metavariable set that `Instantiate.metavars` computed
before fix F11 (kept for the lemma `metavars_expand`: it contains every metavariable of the expansion) -/
def metavars : NPat → List VId
  | evar _ => [] | svar _ => [] | sym _ => []
  | mv id .. => [id]
  | imp l r => metavars l ++ metavars r
  | app l r => metavars l ++ metavars r
  | ex _ p => metavars p | mu _ p => metavars p
  | esub p _ q => metavars p ++ metavars q
  | ssub p _ q => metavars p ++ metavars q
  | inst p m => go (metavars p) m
where
  look : List (Nat × NPat) → Nat → Option (List VId)
    | [], _ => none
    | (k, v) :: r, i => if k = i then some (metavars v) else look r i
  go : List VId → List (Nat × NPat) → List VId
    | [], _ => []
    | v :: vs, m => (match look m v with | some xs => xs | none => [v]) ++ go vs m

def keys (m : List (Nat × NPat)) : List Nat := m.map (·.1)

/-- a Python dict keeps the first position of a key; maps sent over the protocol have distinct
keys, so this is the identity there -/
def dedupKeys : List (Nat × NPat) → List Nat → List (Nat × NPat)
  | [], _ => []
  | (k, v) :: r, seen => if seen.contains k then dedupKeys r seen else (k, v) :: dedupKeys r (k :: seen)

mutual
/-- `instantiate(delta)` -/
def instF : Nat → List (Nat × NPat) → NPat → Option NPat
  | 0, _, _ => none
  | _ + 1, _, evar x => some (evar x)
  | _ + 1, _, svar x => some (svar x)
  | _ + 1, _, sym x => some (sym x)
  | _ + 1, δ, mv id ef sf ps ns hs =>
      some (match Py.lookup δ id with | some q => q | none => mv id ef sf ps ns hs)
  | n + 1, δ, imp l r =>
      if δ.isEmpty then some (imp l r) else do pure (imp (← instF n δ l) (← instF n δ r))
  | n + 1, δ, app l r =>
      if δ.isEmpty then some (app l r) else do pure (app (← instF n δ l) (← instF n δ r))
  | n + 1, δ, ex x p => if δ.isEmpty then some (ex x p) else do pure (ex x (← instF n δ p))
  | n + 1, δ, mu x p => if δ.isEmpty then some (mu x p) else do pure (mu x (← instF n δ p))
  | n + 1, δ, esub p x q =>
      if δ.isEmpty then some (esub p x q) else do
        let p' ← instF n δ p; let q' ← instF n δ q; esubF n x q' p'
  | n + 1, δ, ssub p x q =>
      if δ.isEmpty then some (ssub p x q) else do
        let p' ← instF n δ p; let q' ← instF n δ q; ssubF n x q' p'
  | n + 1, δ, inst p m => do
      -- (F4) the existing map is instantiated, the remaining metavariables of the body are added
      let m' ← mapF n δ m
      let mvs ← metavarsF n p
      let extra := δ.filter fun (k, _) => !(keys m).contains k && mvs.contains k
      pure (inst p (m' ++ dedupKeys extra []))
/-- instantiate every value of a map -/
def mapF : Nat → List (Nat × NPat) → List (Nat × NPat) → Option (List (Nat × NPat))
  | 0, _, _ => none
  | _ + 1, _, [] => some []
  | n + 1, δ, (k, v) :: r => do pure ((k, ← instF n δ v) :: (← mapF n δ r))
/-- `metavars()` as a list (Python returns a set: order and multiplicity are not observable); on a
notation node: the metavariables of the simplified pattern (fix F11) -/
def metavarsF : Nat → NPat → Option (List VId)
  | 0, _ => none
  | _ + 1, evar _ => some [] | _ + 1, svar _ => some [] | _ + 1, sym _ => some []
  | _ + 1, mv id .. => some [id]
  | n + 1, imp l r => do pure ((← metavarsF n l) ++ (← metavarsF n r))
  | n + 1, app l r => do pure ((← metavarsF n l) ++ (← metavarsF n r))
  | n + 1, ex _ p => metavarsF n p
  | n + 1, mu _ p => metavarsF n p
  | n + 1, esub p _ q => do pure ((← metavarsF n p) ++ (← metavarsF n q))
  | n + 1, ssub p _ q => do pure ((← metavarsF n p) ++ (← metavarsF n q))
  | n + 1, inst p m => do let s ← instF n m p; metavarsF n s
/-- `apply_esubst(evar_id, plug)` -/
def esubF : Nat → VId → NPat → NPat → Option NPat
  | 0, _, _, _ => none
  | _ + 1, x, plug, evar y => some (if y = x then plug else evar y)
  | _ + 1, _, _, svar X => some (svar X)
  | _ + 1, _, _, sym s => some (sym s)
  | n + 1, x, plug, imp l r => do pure (imp (← esubF n x plug l) (← esubF n x plug r))
  | n + 1, x, plug, app l r => do pure (app (← esubF n x plug l) (← esubF n x plug r))
  | n + 1, x, plug, ex y p => if y = x then some (ex y p) else do pure (ex y (← esubF n x plug p))
  | n + 1, x, plug, mu Y p => do pure (mu Y (← esubF n x plug p))
  | _ + 1, x, plug, mv id ef sf ps ns hs =>
      some (if ef.contains x then mv id ef sf ps ns hs else esub (mv id ef sf ps ns hs) x plug)
  | _ + 1, x, plug, esub p y q => some (esub (esub p y q) x plug)
  | _ + 1, x, plug, ssub p y q => some (esub (ssub p y q) x plug)
  | n + 1, x, plug, inst p m => do let s ← instF n m p; esubF n x plug s
/-- `apply_ssubst(svar_id, plug)` -/
def ssubF : Nat → VId → NPat → NPat → Option NPat
  | 0, _, _, _ => none
  | _ + 1, X, plug, svar Y => some (if Y = X then plug else svar Y)
  | _ + 1, _, _, evar x => some (evar x)
  | _ + 1, _, _, sym s => some (sym s)
  | n + 1, X, plug, imp l r => do pure (imp (← ssubF n X plug l) (← ssubF n X plug r))
  | n + 1, X, plug, app l r => do pure (app (← ssubF n X plug l) (← ssubF n X plug r))
  | n + 1, X, plug, ex y p => do pure (ex y (← ssubF n X plug p))
  | n + 1, X, plug, mu Y p => if Y = X then some (mu Y p) else do pure (mu Y (← ssubF n X plug p))
  | _ + 1, X, plug, mv id ef sf ps ns hs =>
      some (if sf.contains X then mv id ef sf ps ns hs else ssub (mv id ef sf ps ns hs) X plug)
  | _ + 1, X, plug, esub p y q => some (ssub (esub p y q) X plug)
  | _ + 1, X, plug, ssub p y q => some (ssub (ssub p y q) X plug)
  | n + 1, X, plug, inst p m => do let s ← instF n m p; ssubF n X plug s
end

/-- one level of `simplify()` -/
def simplifyF (n : Nat) : NPat → Option NPat
  | inst p m => instF n m p
  | q => some q

/-- `evar_is_free(name)` (true = "does not occur free"); on notation: the judgement of the
simplified pattern (F3) -/
def evarIsFreeF : Nat → VId → NPat → Option Bool
  | 0, _, _ => none
  | _ + 1, e, evar x => some (x != e)
  | _ + 1, _, svar _ => some true
  | _ + 1, _, sym _ => some true
  | _ + 1, e, mv _ ef .. => some (ef.contains e)
  | n + 1, e, imp l r => do pure ((← evarIsFreeF n e l) && (← evarIsFreeF n e r))
  | n + 1, e, app l r => do pure ((← evarIsFreeF n e l) && (← evarIsFreeF n e r))
  | n + 1, e, ex x p => if e == x then some true else evarIsFreeF n e p
  | n + 1, e, mu _ p => evarIsFreeF n e p
  | n + 1, e, esub p x q =>
      if x == e then evarIsFreeF n e q
      else do
        let a ← evarIsFreeF n e p
        if a then evarIsFreeF n e q else pure false      -- Python `and` short-circuits
  | n + 1, e, ssub p _ q => do
        let a ← evarIsFreeF n e p
        if a then evarIsFreeF n e q else pure false
  | n + 1, e, inst p m => do let s ← instF n m p; evarIsFreeF n e s

/-- is this node an `Instantiate`? -/
def isInst : NPat → Bool
  | inst .. => true
  | _ => false

/-- same Python class (dataclass `__eq__` returns `NotImplemented` otherwise) -/
def sameClass : NPat → NPat → Bool
  | evar _, evar _ => true | svar _, svar _ => true | sym _, sym _ => true
  | imp .., imp .. => true | app .., app .. => true | ex .., ex .. => true | mu .., mu .. => true
  | mv .., mv .. => true | esub .., esub .. => true | ssub .., ssub .. => true
  | inst .., inst .. => true
  | _, _ => false

/-- Python's `a == b` with the reflected-operand protocol: `Instantiate.__eq__` is
`self.simplify() == o`; a dataclass compares field tuples when the classes are the same and
otherwise answers `NotImplemented`, upon which the reflected `b.__eq__(a)` is tried; if both
answer `NotImplemented` the result is identity, i.e. `False` for distinct objects. -/
def peqF : Nat → NPat → NPat → Option Bool
  | 0, _, _ => none
  | n + 1, inst p m, b => do let s ← instF n m p; peqF n s b
  | n + 1, a, inst p m => do let s ← instF n m p; peqF n s a      -- reflected: b.__eq__(a)
  | _ + 1, evar x, evar y => some (x == y)
  | _ + 1, svar x, svar y => some (x == y)
  | _ + 1, sym x, sym y => some (x == y)
  | n + 1, imp l r, imp l' r' => do
      let a ← peqF n l l'
      if a then peqF n r r' else pure false
  | n + 1, app l r, app l' r' => do
      let a ← peqF n l l'
      if a then peqF n r r' else pure false
  | n + 1, ex x p, ex y q => if x == y then peqF n p q else some false
  | n + 1, mu x p, mu y q => if x == y then peqF n p q else some false
  | _ + 1, mv a b c d e f, mv a' b' c' d' e' f' => some (a == a' && b == b' && c == c' && d == d' && e == e' && f == f')
  | n + 1, esub p x q, esub p' x' q' => do
      -- field order of the dataclass: pattern, var, plug
      let a ← peqF n p p'
      if !a then pure false else if x != x' then pure false else peqF n q q'
  | n + 1, ssub p x q, ssub p' x' q' => do
      let a ← peqF n p p'
      if !a then pure false else if x != x' then pure false else peqF n q q'
  | _ + 1, _, _ => some false

end NPat
