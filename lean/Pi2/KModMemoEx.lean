import Pi2.KModMemo
/-!
# Evaluating a memoising run with a non-empty suggestion set

`patternF { memo := some S }` tests `p ∈ S` by `S.any (NPat.seq p)`, and `NPat.seq` is defined by well-founded recursion,
which the kernel cannot evaluate.  `executeFullP sugg` is `PModule.executeFull { memo := some S }` with the membership
test as a parameter `sugg : NPat → Bool` (literally the same text otherwise); `executeFullP_eq`: they are equal whenever
`sugg` is the membership test of `S`.  For `S = [phi0 with x0 fresh]` the test is `isX` (`seq_X`), which the kernel
evaluates — so a run that `save`s and `load`s the constrained metavariable can be exhibited by `decide +kernel`.
-/
set_option linter.unusedVariables false
open Pat PySt

namespace KMod

/-- `patternF { memo := some S }` with `p ∈ S` as a parameter -/
def patternP (sugg : NPat → Bool) : Nat → PySt → NPat → List Call → Option (Option (PySt × List Call))
  | 0, _, _, _ => none
  | n + 1, s, p, acc => do
    let memoHit ← inMemoryF n p s.memory
    if memoHit then
      doCalls n s [.load (.pat p)] acc
    else
      let build : Option (Option (PySt × List Call)) :=
        match p with
        | .evar x => doCalls n s [.evar x] acc
        | .svar x => doCalls n s [.svar x] acc
        | .sym x => doCalls n s [.symbol x] acc
        | .mv id ef sf ps ns hs => doCalls n s [.metavar id ef sf ps ns hs] acc
        | .imp l r => do
            match ← patternP sugg n s l acc with
            | none => pure none
            | some (s1, a1) =>
              match ← patternP sugg n s1 r a1 with
              | none => pure none
              | some (s2, a2) => doCalls n s2 [.implies] a2
        | .app l r => do
            match ← patternP sugg n s l acc with
            | none => pure none
            | some (s1, a1) =>
              match ← patternP sugg n s1 r a1 with
              | none => pure none
              | some (s2, a2) => doCalls n s2 [.app] a2
        | .ex x q => do
            match ← patternP sugg n s q acc with
            | none => pure none
            | some (s1, a1) => doCalls n s1 [.ex x] a1
        | .mu x q => do
            match ← patternP sugg n s q acc with
            | none => pure none
            | some (s1, a1) => doCalls n s1 [.mu x] a1
        | .esub q x plug => do
            match ← patternP sugg n s plug acc with
            | none => pure none
            | some (s1, a1) =>
              match ← patternP sugg n s1 q a1 with
              | none => pure none
              | some (s2, a2) => doCalls n s2 [.esubst x] a2
        | .ssub q x plug => do
            match ← patternP sugg n s plug acc with
            | none => pure none
            | some (s1, a1) =>
              match ← patternP sugg n s1 q a1 with
              | none => pure none
              | some (s2, a2) => doCalls n s2 [.ssubst x] a2
        | .inst q m => do
            match ← patternListP sugg n s (m.map (·.2)) acc with
            | none => pure none
            | some (s1, a1) =>
              match ← patternP sugg n s1 q a1 with
              | none => pure none
              | some (s2, a2) => doCalls n s2 [.instantiatePattern (m.map (·.1))] a2
      match ← build with
      | none => pure none
      | some (s', a') => if sugg p then doCalls n s' [.save] a' else pure (some (s', a'))
where
  patternListP (sugg : NPat → Bool) : Nat → PySt → List NPat → List Call → Option (Option (PySt × List Call))
    | 0, _, _, _ => none
    | _ + 1, s, [], acc => some (some (s, acc))
    | n + 1, s, p :: r, acc => do
        match ← patternP sugg n s p acc with
        | none => pure none
        | some (s1, a1) => patternListP sugg n s1 r a1

theorem patternP_eq (S : List NPat) (sugg : NPat → Bool) (hs : ∀ p, S.any (NPat.seq p) = sugg p) :
    ∀ n, (∀ s p acc, patternF { memo := some S } n s p acc = patternP sugg n s p acc) ∧
      (∀ s ps acc, patternF.patternListF { memo := some S } n s ps acc = patternP.patternListP sugg n s ps acc) := by
  intro n
  induction n with
  | zero => exact ⟨fun _ _ _ => rfl, fun _ _ _ => rfl⟩
  | succ n ih =>
    obtain ⟨ihP, ihL⟩ := ih
    constructor
    · intro s p acc
      cases p <;> simp only [patternF, patternP, ihP, ihL, hs] <;> rfl
    · intro s ps acc
      cases ps with
      | nil => rfl
      | cons p r => simp only [patternF.patternListF, patternP.patternListP, ihP, ihL] <;> rfl

/-- `Pf.runF { memo := some S }` with `p ∈ S` as a parameter -/
def runP (sugg : NPat → Bool) (axioms : List NPat) :
    Nat → PySt → Pf → List Call → Option (Option (PySt × List Call × NPat))
  | 0, _, _, _ => none
  | n + 1, s, pf, acc => do
    let raw : Option (PySt × List Call) ← match pf with
      | .prop1 => doCalls n s [.prop1] acc
      | .prop2 => doCalls n s [.prop2] acc
      | .prop3 => doCalls n s [.prop3] acc
      | .quantifier => doCalls n s [.quantifier] acc
      | .mp l r => do
          match ← runP sugg axioms n s l acc with
          | none => pure none
          | some (s1, a1, _) =>
            match ← runP sugg axioms n s1 r a1 with
            | none => pure none
            | some (s2, a2, _) => doCalls n s2 [.mp] a2
      | .gen p x => do
          match ← runP sugg axioms n s p acc with
          | none => pure none
          | some (s1, a1, _) => doCalls n s1 [.gen x] a1
      | .dynInst p δ => do
          if δ.isEmpty then
            match ← runP sugg axioms n s p acc with
            | none => pure none
            | some (s1, a1, _) => pure (some (s1, a1))
          else
            match ← patternP.patternListP sugg n s (δ.map (·.2)) acc with
            | none => pure none
            | some (s1, a1) =>
              match ← runP sugg axioms n s1 p a1 with
              | none => pure none
              | some (s2, a2, _) => doCalls n s2 [.instantiate (δ.map (·.1))] a2
      | .loadAxiom a => doCalls n s [.load (.proved a)] acc
    match raw with
    | none => pure none
    | some (s', a') =>
      match s'.stack with
      | (.proved c, _) :: _ =>
        match ← Pf.concF axioms n pf with
        | none => pure none
        | some adv => if ← NPat.peqF n c adv then pure (some (s', a', c)) else pure none
      | _ => pure none

theorem runP_eq (S : List NPat) (sugg : NPat → Bool) (hs : ∀ p, S.any (NPat.seq p) = sugg p) (ax : List NPat) :
    ∀ n s pf acc, Pf.runF { memo := some S } ax n s pf acc = runP sugg ax n s pf acc := by
  intro n
  induction n with
  | zero => intro _ _ _; rfl
  | succ n ih =>
    intro s pf acc
    cases pf <;> simp only [Pf.runF, runP, ih, (patternP_eq S sugg hs n).2] <;> rfl

/-- `PModule.executeFull { memo := some S }` with `p ∈ S` as a parameter -/
def executeFullP (sugg : NPat → Bool) (n : Nat) (m : PModule) : Option (Option (PySt × List Call)) := do
  let s0 := PySt.init m.claimsOf
  let rec pub (n : Nat) (s : PySt) (acc : List Call) (c : Call) : List NPat → Option (Option (PySt × List Call))
    | [] => some (some (s, acc))
    | a :: r => do
        match ← patternP sugg n s a acc with
        | none => pure none
        | some (s1, a1) =>
          match ← doCalls n s1 [c] a1 with
          | none => pure none
          | some (s2, a2) => pub n s2 a2 c r
  match ← pub n s0 [] .publishAxiom m.gammaAxioms with
  | none => pure none
  | some (s1, a1) =>
  match ← doCalls n s1 [.intoClaim] a1 with
  | none => pure none
  | some (s2, a2) =>
  match ← pub n s2 a2 .publishClaim m.claimsOf.reverse with
  | none => pure none
  | some (s3, a3) =>
  match ← doCalls n s3 [.intoProof] a3 with
  | none => pure none
  | some (s4, a4) =>
  let rec proofs (n : Nat) (s : PySt) (acc : List Call) : List Pf → Option (Option (PySt × List Call))
    | [] => some (some (s, acc))
    | pf :: r => do
        match ← runP sugg m.axiomsOf n s pf acc with
        | none => pure none
        | some (s1, a1, _) =>
          match ← doCalls n s1 [.publishProof] a1 with
          | none => pure none
          | some (s2, a2) => proofs n s2 a2 r
  proofs n s4 a4 m.proofsOf

theorem pubP_eq (S : List NPat) (sugg : NPat → Bool) (hs : ∀ p, S.any (NPat.seq p) = sugg p) (n : Nat) (c : Call) :
    ∀ as s acc, PModule.executeFull.pub { memo := some S } n s acc c as = executeFullP.pub sugg n s acc c as := by
  intro as
  induction as with
  | nil => intro _ _; rfl
  | cons a r ih =>
    intro s acc
    simp only [PModule.executeFull.pub, executeFullP.pub, (patternP_eq S sugg hs n).1, ih] <;> rfl

theorem proofsP_eq (S : List NPat) (sugg : NPat → Bool) (hs : ∀ p, S.any (NPat.seq p) = sugg p) (m : PModule)
    (n : Nat) :
    ∀ pfs s acc, PModule.executeFull.proofs { memo := some S } m n s acc pfs
      = executeFullP.proofs sugg m n s acc pfs := by
  intro pfs
  induction pfs with
  | nil => intro _ _; rfl
  | cons pf r ih =>
    intro s acc
    simp only [PModule.executeFull.proofs, executeFullP.proofs, runP_eq S sugg hs, ih] <;> rfl

/-- the run with the membership test as a parameter is the memoising run -/
theorem executeFullP_eq (S : List NPat) (sugg : NPat → Bool) (hs : ∀ p, S.any (NPat.seq p) = sugg p) (n : Nat)
    (m : PModule) : PModule.executeFull { memo := some S } n m = executeFullP sugg n m := by
  simp only [PModule.executeFull, executeFullP, pubP_eq S sugg hs, proofsP_eq S sugg hs] <;> rfl

/-! ## the suggestion set `{phi0 with x0 fresh}` -/

/-- the constrained metavariable of `functional` and `func_subst_axiom` -/
def phiX : NPat := .mv 0 [0] [] [] [] []

def isX : NPat → Bool
  | .mv a b c d e f => a == 0 && b == [0] && c == [] && d == [] && e == [] && f == []
  | _ => false

theorem seq_X (p : NPat) : [phiX].any (NPat.seq p) = isX p := by
  cases p <;> simp [phiX, NPat.seq, isX]

end KMod
