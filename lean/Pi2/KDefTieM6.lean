import Pi2.KDefTieM4
import Pi2.KDefTieM5
/-!
# The loop over the sentences of the module under construction, on a store of k modules: text = `stepsM` = specification

* `sentences_loopM`: the generated loop over the sentences (`sentenceBody`) from the store `heapM st` is `stepsM`;
* `vis_isSome`: what `KModule.get_sort` finds from the module under construction are exactly the specification's `visibleSorts`
  (own sorts and those of the transitively imported modules) — discharges the hypothesis of `stepsM_spec`;
* `sentences_text_is_spec`: the generated loop raises exactly when `addSentencesM` refuses, and otherwise ends in a store `heapM st'` whose
  projection is the specification's state.
-/
set_option linter.unusedVariables false
set_option linter.unusedSimpArgs false
namespace KDefTieM2
open PyI PyM PyK Kore Gen.PyKDef KDefSpec KDefTie KDefTieM

theorem sentences_loopM (so : SetOrder) (hso : so.Valid) (n : Nat) (k : PyLS → Py PyLS) :
    ∀ (ss : List KSentence) (st : RStM) (i : Nat), i = st.done.length → InvM st → st.mods.length + 1 ≤ n →
      (∀ s ∈ ss, NotSelfImport st.cur.name s) →
      forEach ss (heapM st) (sentenceBody so n i) k
        = match stepsM n st ss with
          | none => some none
          | some st' => k (heapM st') := by
  intro ss
  induction ss with
  | nil => intro st i _ _ _ _; rfl
  | cons s ss ih =>
    intro st i hi hinv hn hns
    subst hi
    simp only [forEach, stepsM]
    rw [sentence_stepM so hso hinv hn s (hns s (List.mem_cons_self ..))]
    cases hs : stepM n st s with
    | none => rfl
    | some st' =>
      obtain ⟨hinv', hd, hname⟩ := stepM_inv n hinv hs
      simp only [Option.bind_some]
      apply ih st' _ (by rw [hd]) hinv' (by rw [mods_len, hd, ← mods_len]; exact hn)
      intro s' hs'
      rw [hname]
      exact hns s' (List.mem_cons_of_mem _ hs')

theorem ownSort_isSome (k : Nat) (m : RMod) : (ownSort k m).isSome = (m.sorts.map (·.1)).contains k := kHas_sortsM m k

theorem vis_isSome {st : RStM} (hinv : InvM st) {n : Nat} (hn : st.mods.length + 1 ≤ n) (k : Nat) :
    (visT n st k).isSome = (projM st).visibleSorts.contains k := by
  have hf := vis_found hinv hn k
  obtain ⟨himp, _, _, hreach⟩ := hinv.curOK
  have hC := closed_of_inv hinv
  have hvs : (projM st).visibleSorts = st.cur.sorts.map (·.1) ++ sortsOf (st.done.map projMod) st.cur.reach := rfl
  rw [hvs]
  cases hv : visT n st k with
  | some b =>
    obtain ⟨j, hj, mj, hmj, hown⟩ := hf.1 b hv
    have hk : k ∈ mj.sorts.map (·.1) := by
      have := ownSort_isSome k mj
      rw [hown] at this
      simpa using this.symm
    symm
    simp only [Option.isSome_some, List.contains_iff_mem, List.mem_append, decide_eq_true_eq]
    simp only [List.mem_cons] at hj
    rcases hj with rfl | hj
    · rw [mods_cur] at hmj; cases hmj; exact .inl hk
    · right
      have hjl : j < st.done.length := cl_lt hC _ _ j (mods_cur st) hj
      have hmj' : st.done[j]? = some mj := by rw [RStM.mods, List.getElem?_append_left hjl] at hmj; exact hmj
      simp only [sortsOf, List.mem_flatMap, List.mem_filter, List.mem_map]
      refine ⟨projMod mj, ⟨⟨mj, List.mem_of_getElem? hmj', rfl⟩, ?_⟩, hk⟩
      simp only [List.contains_iff_mem]
      exact (hreach mj.name).2 ⟨j, hj, by simp [nameAt, hmj']⟩
  | none =>
    symm
    simp only [Option.isSome_none]
    rw [Bool.eq_false_iff]
    intro hc
    simp only [List.contains_iff_mem, List.mem_append] at hc
    have hnone := hf.2 hv
    have key : ∀ (j : Nat) (mj : RMod), j ∈ st.done.length :: st.cur.cl → st.mods[j]? = some mj → k ∈ mj.sorts.map (·.1) → False := by
      intro j mj hj hmj hk
      have h1 := hnone j hj mj hmj
      have h2 := ownSort_isSome k mj
      rw [h1] at h2
      have : (mj.sorts.map (·.1)).contains k = true := by simpa using hk
      rw [this] at h2; cases h2
    rcases hc with hc | hc
    · exact key _ st.cur (List.mem_cons_self ..) (mods_cur st) hc
    · simp only [sortsOf, List.mem_flatMap, List.mem_filter, List.mem_map, List.contains_iff_mem] at hc
      obtain ⟨pm, ⟨⟨m, hm, rfl⟩, hr⟩, hk⟩ := hc
      obtain ⟨j, hj, hname⟩ := (hreach m.name).1 hr
      have hjl : j < st.done.length := cl_lt hC _ _ j (mods_cur st) hj
      obtain ⟨i, hil, hi⟩ := List.getElem_of_mem hm
      have hname' : st.done[j].name = m.name := by simpa [nameAt, List.getElem?_eq_getElem hjl] using hname
      have hji : j = i := hinv.distinct j i st.done[j] m
        (by rw [RStM.mods, List.getElem?_append_left hjl]; exact List.getElem?_eq_getElem hjl)
        (by rw [RStM.mods, List.getElem?_append_left hil, List.getElem?_eq_getElem hil, hi]) hname'
      subst hji
      exact key j m (List.mem_cons_of_mem _ hj)
        (by rw [RStM.mods, List.getElem?_append_left hil, List.getElem?_eq_getElem hil, hi]) hk

/-- the loop over the sentences of the module under construction, on a store of k modules: the generated text against the specification -/
theorem sentences_text_is_spec (so : SetOrder) (hso : so.Valid) (n : Nat) (k : PyLS → Py PyLS) (ss : List KSentence) (st : RStM)
    (hinv : InvM st) (hn : st.mods.length + 1 ≤ n) (hns : ∀ s ∈ ss, NotSelfImport st.cur.name s) :
    match addSentencesM (projM st) ss with
    | none => forEach ss (heapM st) (sentenceBody so n st.done.length) k = some none
    | some d' => ∃ st', InvM st' ∧ projM st' = d' ∧ st'.done = st.done ∧ st'.cur.name = st.cur.name ∧
        forEach ss (heapM st) (sentenceBody so n st.done.length) k = k (heapM st') := by
  rw [stepsM_spec n st ss hinv (fun st' hinv' hd k => vis_isSome hinv' (by rw [mods_len, hd, ← mods_len]; exact hn) k),
    sentences_loopM so hso n k ss st _ rfl hinv hn hns]
  cases hs : stepsM n st ss with
  | none => rfl
  | some st' =>
    obtain ⟨hinv', hd, hname⟩ := stepsM_inv n hinv hs
    exact ⟨st', hinv', rfl, hd, hname, rfl⟩

#print axioms sentences_loopM
#print axioms vis_isSome
#print axioms sentences_text_is_spec
end KDefTieM2
