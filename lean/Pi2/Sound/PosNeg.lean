import Pi2.Sound.Fresh
/-! # Soundness of `positive`/`negative`: monotone / antitone in the set variable -/
set_option linter.unusedVariables false
set_option linter.unusedSimpArgs false
open Pat

theorem leS_agree {M} {X : VId} {ρ ρ' : Val M} (h : Val.leS X ρ ρ') : Val.agreeOffS X ρ ρ' := ⟨h.2.1, h.2.2⟩

theorem leS_setE {M} {X y : VId} {ρ ρ' : Val M} (h : Val.leS X ρ ρ') (A : M → Prop) :
    Val.leS X (ρ.setE y A) (ρ'.setE y A) := by
  obtain ⟨h1, h2, h3⟩ := h
  refine ⟨?_, ?_, ?_⟩
  · intro m; simpa [Val.setE] using h1 m
  · intro z hz; simpa [Val.setE] using h2 z hz
  · simp [Val.setE, h3]

theorem leS_setS_other {M} {X Y : VId} (hne : Y ≠ X) {ρ ρ' : Val M} (h : Val.leS X ρ ρ') (A : M → Prop) :
    Val.leS X (ρ.setS Y A) (ρ'.setS Y A) := by
  obtain ⟨h1, h2, h3⟩ := h
  refine ⟨?_, ?_, ?_⟩
  · intro m; have : ¬ X = Y := fun e => hne e.symm
    simpa [Val.setS, this] using h1 m
  · intro z hz; simp only [Val.setS]; split
    · rfl
    · exact h2 z hz
  · simpa [Val.setS] using h3

/-- agree off X, and new X-values ordered -/
theorem leS_setS_same {M} {X : VId} {ρ ρ' : Val M} (h : Val.agreeOffS X ρ ρ') (A B : M → Prop)
    (hAB : ∀ m, A m → B m) : Val.leS X (ρ.setS X A) (ρ'.setS X B) := by
  obtain ⟨h2, h3⟩ := h
  refine ⟨?_, ?_, ?_⟩
  · intro m; simpa [Val.setS] using hAB m
  · intro z hz; simp [Val.setS, hz]; exact h2 z hz
  · simpa [Val.setS] using h3

theorem leS_refl_of_eq {M} {X : VId} (ρ : Val M) : Val.leS X ρ ρ := ⟨fun _ h => h, fun _ _ => rfl, rfl⟩

/-- change only Y (≠ X irrelevant): ρ[Y↦A] ≤_Y ρ[Y↦B] when A ⊆ B -/
theorem leS_setS_var {M} (Y : VId) (ρ : Val M) (A B : M → Prop) (hAB : ∀ m, A m → B m) :
    Val.leS Y (ρ.setS Y A) (ρ.setS Y B) :=
  leS_setS_same ⟨fun _ _ => rfl, rfl⟩ A B hAB

theorem pos_neg_sound (𝔐 : Model) (σ : MVKey → Sem 𝔐.M) (hE : Admissible σ) (hS : AdmissibleS σ)
    (hPN : AdmissiblePN σ) :
    ∀ (p : Pat) (X : VId),
      (p.pos X = true → ∀ ρ ρ', Val.leS X ρ ρ' → ∀ m, eval 𝔐 σ p ρ m → eval 𝔐 σ p ρ' m) ∧
      (p.ng X = true → ∀ ρ ρ', Val.leS X ρ ρ' → ∀ m, eval 𝔐 σ p ρ' m → eval 𝔐 σ p ρ m) := by
  intro p
  induction p with
  | evar x =>
    intro X; constructor <;> intro _ ρ ρ' h m hm <;> simp only [eval] at * 
    · rw [← h.2.2]; exact hm
    · rw [h.2.2]; exact hm
  | svar Y =>
    intro X; constructor
    · intro _ ρ ρ' h m hm; simp only [eval] at *
      by_cases hy : Y = X
      · subst hy; exact h.1 m hm
      · rw [← h.2.1 Y hy]; exact hm
    · intro hn ρ ρ' h m hm; simp [ng] at hn; simp only [eval] at *
      rw [h.2.1 Y hn]; exact hm
  | sym s => intro X; constructor <;> intro _ ρ ρ' h m hm <;> simpa [eval] using hm
  | imp l r ihl ihr =>
    intro X; constructor
    · intro hp ρ ρ' h m hm; simp [pos] at hp; simp only [eval] at *
      intro hl; exact (ihr X).1 hp.2 ρ ρ' h m (hm ((ihl X).2 hp.1 ρ ρ' h m hl))
    · intro hp ρ ρ' h m hm; simp [ng] at hp; simp only [eval] at *
      intro hl; exact (ihr X).2 hp.2 ρ ρ' h m (hm ((ihl X).1 hp.1 ρ ρ' h m hl))
  | app l r ihl ihr =>
    intro X; constructor
    · intro hp ρ ρ' h m hm; simp [pos] at hp; simp only [eval] at *
      obtain ⟨a, b, ha, hb, hab⟩ := hm
      exact ⟨a, b, (ihl X).1 hp.1 ρ ρ' h a ha, (ihr X).1 hp.2 ρ ρ' h b hb, hab⟩
    · intro hp ρ ρ' h m hm; simp [ng] at hp; simp only [eval] at *
      obtain ⟨a, b, ha, hb, hab⟩ := hm
      exact ⟨a, b, (ihl X).2 hp.1 ρ ρ' h a ha, (ihr X).2 hp.2 ρ ρ' h b hb, hab⟩
  | ex y p ih =>
    intro X; constructor
    · intro hp ρ ρ' h m hm; simp [pos] at hp; simp only [eval] at *
      obtain ⟨a, ha⟩ := hm
      exact ⟨a, (ih X).1 hp _ _ (leS_setE h _) m ha⟩
    · intro hp ρ ρ' h m hm; simp [ng] at hp; simp only [eval] at *
      obtain ⟨a, ha⟩ := hm
      exact ⟨a, (ih X).2 hp _ _ (leS_setE h _) m ha⟩
  | mu Y p ih =>
    intro X
    by_cases hXY : X = Y
    · subst hXY
      constructor
      · intro _ ρ ρ' h m hm; simp only [eval] at *
        intro A hA; apply hm A; intro b hb; apply hA
        rw [← agreeS_setS_same (leS_agree h)]; exact hb
      · intro _ ρ ρ' h m hm; simp only [eval] at *
        intro A hA; apply hm A; intro b hb; apply hA
        rw [agreeS_setS_same (leS_agree h)]; exact hb
    · have hYX : Y ≠ X := fun e => hXY e.symm
      constructor
      · intro hp ρ ρ' h m hm; simp [pos, hXY] at hp; simp only [eval] at *
        intro A hA; apply hm A; intro b hb; apply hA
        exact (ih X).1 hp _ _ (leS_setS_other hYX h A) b hb
      · intro hp ρ ρ' h m hm; simp [ng, hXY] at hp; simp only [eval] at *
        intro A hA; apply hm A; intro b hb; apply hA
        exact (ih X).2 hp _ _ (leS_setS_other hYX h A) b hb
  | mv id ef sf ps ns holes =>
    intro X; constructor
    · intro hp ρ ρ' h m hm; simp [pos] at hp; simp only [eval] at *
      exact hPN.pos ⟨id, ef, sf, ps, ns, holes⟩ X hp ρ ρ' h m hm
    · intro hp ρ ρ' h m hm; simp [ng] at hp; simp only [eval] at *
      exact hPN.neg ⟨id, ef, sf, ps, ns, holes⟩ X hp ρ ρ' h m hm
  | esub p y plug ihp ihplug =>
    intro X; constructor
    · intro hp ρ ρ' h m hm; simp [pos] at hp; simp only [eval] at *
      rw [← sFresh_sound 𝔐 σ hS X plug hp.2 ρ ρ' (leS_agree h)]
      exact (ihp X).1 hp.1 _ _ (leS_setE h _) m hm
    · intro hp ρ ρ' h m hm; simp [ng] at hp; simp only [eval] at *
      rw [sFresh_sound 𝔐 σ hS X plug hp.2 ρ ρ' (leS_agree h)]
      exact (ihp X).2 hp.1 _ _ (leS_setE h _) m hm
  | ssub p Y plug ihp ihplug =>
    intro X
    -- the three ways the plug's contribution can be monotone / antitone in X
    have plugMono : (plug.sFresh X || (p.pos Y && plug.pos X) || (p.ng Y && plug.ng X)) = true →
        ∀ ρ ρ', Val.leS X ρ ρ' → ∀ (τ : Val 𝔐.M) m,
          eval 𝔐 σ p (τ.setS Y (eval 𝔐 σ plug ρ)) m → eval 𝔐 σ p (τ.setS Y (eval 𝔐 σ plug ρ')) m := by
      intro hpp ρ ρ' h τ m hm
      simp only [Bool.or_eq_true, Bool.and_eq_true] at hpp
      rcases hpp with (hf | ⟨hpY, hplX⟩) | ⟨hnY, hnlX⟩
      · rw [← sFresh_sound 𝔐 σ hS X plug hf ρ ρ' (leS_agree h)]; exact hm
      · exact (ihp Y).1 hpY _ _ (leS_setS_var Y τ _ _ ((ihplug X).1 hplX ρ ρ' h)) m hm
      · exact (ihp Y).2 hnY _ _ (leS_setS_var Y τ _ _ ((ihplug X).2 hnlX ρ ρ' h)) m hm
    have plugAnti : (plug.sFresh X || (p.pos Y && plug.ng X) || (p.ng Y && plug.pos X)) = true →
        ∀ ρ ρ', Val.leS X ρ ρ' → ∀ (τ : Val 𝔐.M) m,
          eval 𝔐 σ p (τ.setS Y (eval 𝔐 σ plug ρ')) m → eval 𝔐 σ p (τ.setS Y (eval 𝔐 σ plug ρ)) m := by
      intro hpp ρ ρ' h τ m hm
      simp only [Bool.or_eq_true, Bool.and_eq_true] at hpp
      rcases hpp with (hf | ⟨hpY, hplX⟩) | ⟨hnY, hnlX⟩
      · rw [sFresh_sound 𝔐 σ hS X plug hf ρ ρ' (leS_agree h)]; exact hm
      · exact (ihp Y).1 hpY _ _ (leS_setS_var Y τ _ _ ((ihplug X).2 hplX ρ ρ' h)) m hm
      · exact (ihp Y).2 hnY _ _ (leS_setS_var Y τ _ _ ((ihplug X).1 hnlX ρ ρ' h)) m hm
    by_cases hXY : X = Y
    · subst hXY
      constructor
      · intro hp ρ ρ' h m hm; simp only [pos, beq_self_eq_true, if_true] at hp; simp only [eval] at *
        have := plugMono hp ρ ρ' h ρ m hm
        rw [← agreeS_setS_same (leS_agree h)]; exact this
      · intro hp ρ ρ' h m hm; simp only [ng, beq_self_eq_true, if_true] at hp; simp only [eval] at *
        rw [← agreeS_setS_same (leS_agree h)] at hm
        exact plugAnti hp ρ ρ' h ρ m hm
    · have hYX : Y ≠ X := fun e => hXY e.symm
      have hb : (X == Y) = false := by simpa using hXY
      constructor
      · intro hp ρ ρ' h m hm; simp only [pos, hb, Bool.false_eq_true, if_false, Bool.and_eq_true] at hp
        simp only [eval] at *
        have h1 := plugMono hp.2 ρ ρ' h ρ m hm
        exact (ihp X).1 hp.1 _ _ (leS_setS_other hYX h _) m h1
      · intro hp ρ ρ' h m hm; simp only [ng, hb, Bool.false_eq_true, if_false, Bool.and_eq_true] at hp
        simp only [eval] at *
        have h1 := (ihp X).2 hp.1 _ _ (leS_setS_other hYX h _) m hm
        exact plugAnti hp.2 ρ ρ' h ρ m h1

