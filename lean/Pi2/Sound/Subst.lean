import Pi2.Subst
import Pi2.Sound.PosNeg
/-! # The semantic substitution lemmas for `apply_esubst` / `apply_ssubst` -/
set_option linter.unusedVariables false
set_option linter.unusedSimpArgs false
open Pat

/-- The semantic substitution lemma for the checker's `apply_ssubst` (with both capture checks). -/
theorem applySSubst_sem (𝔐 : Model) (σ : MVKey → Sem 𝔐.M) (hE : Admissible σ) (hS : AdmissibleS σ)
    (X : VId) (plug : Pat) :
    ∀ (p r : Pat), applySSubst X plug p = some r →
      ∀ ρ, eval 𝔐 σ r ρ = eval 𝔐 σ p (ρ.setS X (eval 𝔐 σ plug ρ)) := by
  intro p
  induction p with
  | evar x => intro r h ρ; simp [applySSubst] at h; subst h; simp [eval, Val.setS]
  | svar Y =>
    intro r h ρ; simp only [applySSubst] at h
    split at h
    · rename_i hy; subst hy; simp at h; subst h; simp [eval, Val.setS]
    · rename_i hy; simp at h; subst h; simp [eval, Val.setS, hy]
  | sym s => intro r h ρ; simp [applySSubst] at h; subst h; simp [eval]
  | imp l r ihl ihr =>
    intro q h ρ
    simp only [applySSubst] at h
    cases hl : applySSubst X plug l with
    | none => simp [hl] at h
    | some l' =>
      cases hr : applySSubst X plug r with
      | none => simp [hl, hr] at h
      | some r' =>
        simp [hl, hr] at h; subst h
        simp only [eval]; rw [ihl l' hl ρ, ihr r' hr ρ]
  | app l r ihl ihr =>
    intro q h ρ
    simp only [applySSubst] at h
    cases hl : applySSubst X plug l with
    | none => simp [hl] at h
    | some l' =>
      cases hr : applySSubst X plug r with
      | none => simp [hl, hr] at h
      | some r' =>
        simp [hl, hr] at h; subst h
        simp only [eval]; rw [ihl l' hl ρ, ihr r' hr ρ]
  | ex y p ih =>
    intro q h ρ
    simp only [applySSubst] at h
    split at h <;> try contradiction
    rename_i hfr
    cases hp : applySSubst X plug p with
    | none => simp [hp] at h
    | some p' =>
    simp [hp] at h; subst h
    simp only [eval]
    funext m; congr 1; funext a
    rw [ih p' hp]
    rw [setS_setE_comm]
    rw [eFresh_sound 𝔐 σ hE y plug hfr _ _ (agreeOffE_setE ρ y _)]
  | mu Y p ih =>
    intro q h ρ
    simp only [applySSubst] at h
    split at h
    · rename_i hy; subst hy; simp at h; subst h
      simp only [eval]; funext m
      simp only [setS_setS_same]
    · rename_i hy
      split at h <;> try contradiction
      rename_i hfr
      cases hp : applySSubst X plug p with
      | none => simp [hp] at h
      | some p' =>
      simp [hp] at h; subst h
      simp only [eval]; funext m
      have : ∀ A, eval 𝔐 σ p' (ρ.setS Y A) = eval 𝔐 σ p ((ρ.setS X (eval 𝔐 σ plug ρ)).setS Y A) := by
        intro A
        rw [ih p' hp, setS_comm _ _ _ hy]
        rw [sFresh_sound 𝔐 σ hS Y plug hfr _ _ (agreeOffS_setS ρ Y _)]
      simp only [this]
  | mv id ef sf pos neg holes =>
    intro r h ρ; simp only [applySSubst] at h
    split at h
    · rename_i hf
      simp at h; subst h
      simp only [eval]
      have hmem : X ∈ sf := by simpa using hf
      exact (hS.sf ⟨id, ef, sf, pos, neg, holes⟩ X hmem _ _ (agreeOffS_setS ρ X _)).symm
    · simp at h; subst h; simp [eval]
  | esub p x q _ _ => intro r h ρ; simp [applySSubst] at h; subst h; simp [eval]
  | ssub p Y q _ _ => intro r h ρ; simp [applySSubst] at h; subst h; simp [eval]


theorem setE_setE_same {M} (ρ : Val M) (x : VId) (A B : M → Prop) : (ρ.setE x A).setE x B = ρ.setE x B := by
  cases ρ; simp only [Val.setE]; congr 1; funext y; by_cases h : y = x <;> simp [h]

theorem setE_comm {M} (ρ : Val M) (x y : VId) (h : y ≠ x) (A B : M → Prop) :
    (ρ.setE y A).setE x B = (ρ.setE x B).setE y A := by
  cases ρ; simp only [Val.setE]; congr 1; funext z
  by_cases h1 : z = x <;> by_cases h2 : z = y <;> simp [h1, h2]
  · subst h1; subst h2; exact absurd rfl h
  · intro hxy; exact absurd hxy.symm h
  · intro hxy; exact absurd hxy h

theorem applyESubst_sem (𝔐 : Model) (σ : MVKey → Sem 𝔐.M) (hE : Admissible σ) (hS : AdmissibleS σ)
    (x : VId) (plug : Pat) :
    ∀ (p r : Pat), applyESubst x plug p = some r →
      ∀ ρ, eval 𝔐 σ r ρ = eval 𝔐 σ p (ρ.setE x (eval 𝔐 σ plug ρ)) := by
  intro p
  induction p with
  | svar X => intro r h ρ; simp [applyESubst] at h; subst h; simp [eval, Val.setE]
  | evar y =>
    intro r h ρ; simp only [applyESubst] at h
    split at h
    · rename_i hy; subst hy; simp at h; subst h; simp [eval, Val.setE]
    · rename_i hy; simp at h; subst h; simp [eval, Val.setE, hy]
  | sym s => intro r h ρ; simp [applyESubst] at h; subst h; simp [eval]
  | imp l r ihl ihr =>
    intro q h ρ
    simp only [applyESubst] at h
    cases hl : applyESubst x plug l with
    | none => simp [hl] at h
    | some l' =>
      cases hr : applyESubst x plug r with
      | none => simp [hl, hr] at h
      | some r' =>
        simp [hl, hr] at h; subst h
        simp only [eval]; rw [ihl l' hl ρ, ihr r' hr ρ]
  | app l r ihl ihr =>
    intro q h ρ
    simp only [applyESubst] at h
    cases hl : applyESubst x plug l with
    | none => simp [hl] at h
    | some l' =>
      cases hr : applyESubst x plug r with
      | none => simp [hl, hr] at h
      | some r' =>
        simp [hl, hr] at h; subst h
        simp only [eval]; rw [ihl l' hl ρ, ihr r' hr ρ]
  | ex y p ih =>
    intro q h ρ
    simp only [applyESubst] at h
    split at h
    · rename_i hy; subst hy; simp at h; subst h
      simp only [eval]; funext m
      simp only [setE_setE_same]
    · rename_i hy
      split at h <;> try contradiction
      rename_i hfr
      cases hp : applyESubst x plug p with
      | none => simp [hp] at h
      | some p' =>
      simp [hp] at h; subst h
      simp only [eval]
      funext m; congr 1; funext a
      rw [ih p' hp, setE_comm _ _ _ hy]
      rw [eFresh_sound 𝔐 σ hE y plug hfr _ _ (agreeOffE_setE ρ y _)]
  | mu Y p ih =>
    intro q h ρ
    simp only [applyESubst] at h
    split at h <;> try contradiction
    rename_i hfr
    cases hp : applyESubst x plug p with
    | none => simp [hp] at h
    | some p' =>
    simp [hp] at h; subst h
    simp only [eval]; funext m
    have : ∀ A, eval 𝔐 σ p' (ρ.setS Y A) = eval 𝔐 σ p ((ρ.setE x (eval 𝔐 σ plug ρ)).setS Y A) := by
      intro A
      rw [ih p' hp, setS_setE_comm]
      rw [sFresh_sound 𝔐 σ hS Y plug hfr _ _ (agreeOffS_setS ρ Y _)]
    simp only [this]
  | mv id ef sf pos neg holes =>
    intro r h ρ; simp only [applyESubst] at h
    split at h
    · rename_i hf
      simp at h; subst h
      simp only [eval]
      have hmem : x ∈ ef := by simpa using hf
      exact (hE.ef ⟨id, ef, sf, pos, neg, holes⟩ x hmem _ _ (agreeOffE_setE ρ x _)).symm
    · simp at h; subst h; simp [eval]
  | esub p y q _ _ => intro r h ρ; simp [applyESubst] at h; subst h; simp [eval]
  | ssub p Y q _ _ => intro r h ρ; simp [applyESubst] at h; subst h; simp [eval]

