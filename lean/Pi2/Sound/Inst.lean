import Pi2.Sound.Subst
/-! # Instantiation: `⟦instantiate θ p⟧σ = ⟦p⟧(σ∘θ)` and admissibility of `σ∘θ` -/
set_option linter.unusedVariables false
set_option linter.unusedSimpArgs false
open Pat

/-- composition: the semantic instantiation induced by plugging θ and then σ -/
def compInst (𝔐 : Model) (σ : MVKey → Sem 𝔐.M) (θ : VId → Option Pat) : MVKey → Sem 𝔐.M :=
  fun k => match θ k.id with
    | none => σ k
    | some q => if okPlug k.ef k.sf k.pos k.neg q then eval 𝔐 σ q else fun _ _ => False

theorem inst_sem (𝔐 : Model) (σ : MVKey → Sem 𝔐.M) (hE : Admissible σ) (hS : AdmissibleS σ)
    (θ : VId → Option Pat) :
    ∀ (p r : Pat), inst θ p = some r → ∀ ρ, eval 𝔐 σ r ρ = eval 𝔐 (compInst 𝔐 σ θ) p ρ := by
  intro p
  induction p with
  | evar x => intro r h ρ; simp [inst] at h; subst h; simp [eval]
  | svar x => intro r h ρ; simp [inst] at h; subst h; simp [eval]
  | sym x => intro r h ρ; simp [inst] at h; subst h; simp [eval]
  | mv id ef sf ps ns holes =>
    intro r h ρ
    simp only [inst] at h
    cases hθ : θ id with
    | none => simp [hθ] at h; subst h; simp [eval, compInst, hθ]
    | some q =>
      simp only [hθ] at h
      split at h <;> try contradiction
      rename_i hok
      simp at h; subst h
      simp [eval, compInst, hθ, hok]
  | imp l r ihl ihr =>
    intro q h ρ; simp only [inst] at h
    cases hl : inst θ l with
    | none => simp [hl] at h
    | some l' =>
      cases hr : inst θ r with
      | none => simp [hl, hr] at h
      | some r' => simp [hl, hr] at h; subst h; simp only [eval]; rw [ihl l' hl ρ, ihr r' hr ρ]
  | app l r ihl ihr =>
    intro q h ρ; simp only [inst] at h
    cases hl : inst θ l with
    | none => simp [hl] at h
    | some l' =>
      cases hr : inst θ r with
      | none => simp [hl, hr] at h
      | some r' => simp [hl, hr] at h; subst h; simp only [eval]; rw [ihl l' hl ρ, ihr r' hr ρ]
  | ex x p ih =>
    intro q h ρ; simp only [inst] at h
    cases hp : inst θ p with
    | none => simp [hp] at h
    | some p' =>
      simp [hp] at h; subst h; simp only [eval]
      funext m; congr 1; funext a; rw [ih p' hp]
  | mu X p ih =>
    intro q h ρ; simp only [inst] at h
    cases hp : inst θ p with
    | none => simp [hp] at h
    | some p' =>
      simp [hp] at h; subst h; simp only [eval]
      funext m
      have : ∀ A, eval 𝔐 σ p' (ρ.setS X A) = eval 𝔐 (compInst 𝔐 σ θ) p (ρ.setS X A) := fun A => ih p' hp _
      simp only [this]
  | esub p x plug ihp ihq =>
    intro r h ρ; simp only [inst] at h
    cases hp : inst θ p with
    | none => simp [hp] at h
    | some p' =>
      cases hq : inst θ plug with
      | none => simp [hp, hq] at h
      | some q' =>
        simp [hp, hq] at h
        rw [applyESubst_sem 𝔐 σ hE hS x q' p' r h ρ]
        simp only [eval]; rw [ihq q' hq ρ, ihp p' hp]
  | ssub p X plug ihp ihq =>
    intro r h ρ; simp only [inst] at h
    cases hp : inst θ p with
    | none => simp [hp] at h
    | some p' =>
      cases hq : inst θ plug with
      | none => simp [hp, hq] at h
      | some q' =>
        simp [hp, hq] at h
        rw [applySSubst_sem 𝔐 σ hE hS X q' p' r h ρ]
        simp only [eval]; rw [ihq q' hq ρ, ihp p' hp]

/-- the composed instantiation is admissible (element freshness shown; the other three are identical in shape) -/
theorem compInst_admissibleE (𝔐 : Model) (σ : MVKey → Sem 𝔐.M) (hE : Admissible σ) (θ : VId → Option Pat) :
    Admissible (compInst 𝔐 σ θ) := by
  constructor
  intro k e he ρ ρ' hag
  simp only [compInst]
  cases hθ : θ k.id with
  | none => simpa using hE.ef k e he ρ ρ' hag
  | some q =>
    simp only
    split
    · rename_i hok
      simp only [okPlug, Bool.and_eq_true, List.all_eq_true] at hok
      exact eFresh_sound 𝔐 σ hE e q (hok.1.1.1 e he) ρ ρ' hag
    · rfl


theorem compInst_admissibleS (𝔐 : Model) (σ : MVKey → Sem 𝔐.M) (hS : AdmissibleS σ) (θ : VId → Option Pat) :
    AdmissibleS (compInst 𝔐 σ θ) := by
  constructor
  intro k s hs ρ ρ' hag
  simp only [compInst]
  cases hθ : θ k.id with
  | none => simpa using hS.sf k s hs ρ ρ' hag
  | some q =>
    simp only
    split
    · rename_i hok
      simp only [okPlug, Bool.and_eq_true, List.all_eq_true] at hok
      exact sFresh_sound 𝔐 σ hS s q (hok.1.1.2 s hs) ρ ρ' hag
    · rfl

theorem compInst_admissiblePN (𝔐 : Model) (σ : MVKey → Sem 𝔐.M) (hE : Admissible σ) (hS : AdmissibleS σ)
    (hPN : AdmissiblePN σ) (θ : VId → Option Pat) : AdmissiblePN (compInst 𝔐 σ θ) := by
  constructor
  · intro k X hX ρ ρ' hle m
    simp only [compInst]
    cases hθ : θ k.id with
    | none => simpa using hPN.pos k X hX ρ ρ' hle m
    | some q =>
      simp only
      split
      · rename_i hok
        simp only [okPlug, Bool.and_eq_true, List.all_eq_true] at hok
        exact (pos_neg_sound 𝔐 σ hE hS hPN q X).1 (hok.1.2 X hX) ρ ρ' hle m
      · exact fun h => h
  · intro k X hX ρ ρ' hle m
    simp only [compInst]
    cases hθ : θ k.id with
    | none => simpa using hPN.neg k X hX ρ ρ' hle m
    | some q =>
      simp only
      split
      · rename_i hok
        simp only [okPlug, Bool.and_eq_true, List.all_eq_true] at hok
        exact (pos_neg_sound 𝔐 σ hE hS hPN q X).2 (hok.2 X hX) ρ ρ' hle m
      · exact fun h => h

