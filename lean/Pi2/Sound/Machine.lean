import Pi2.Machine
import Pi2.Sound.Rules
/-! # Machine-level soundness: every `Proved` term on the stack or in memory is valid -/
set_option linter.unusedVariables false
set_option linter.unusedSimpArgs false
open Pat

theorem mp_soundM {𝔐} (a b : Pat) (h1 : ValidM 𝔐 (imp a b)) (h2 : ValidM 𝔐 a) : ValidM 𝔐 b :=
  fun σ hσ ρ hρ m => (h1 σ hσ ρ hρ m) (h2 σ hσ ρ hρ m)

theorem instantiate_soundM {𝔐} (θ : VId → Option Pat) (p r : Pat) (h : inst θ p = some r)
    (hp : ValidM 𝔐 p) : ValidM 𝔐 r := by
  intro σ hσ ρ hρ m
  obtain ⟨hE, hS, hPN⟩ := hσ
  rw [inst_sem 𝔐 σ hE hS θ p r h ρ]
  exact hp (compInst 𝔐 σ θ)
    ⟨compInst_admissibleE 𝔐 σ hE θ, compInst_admissibleS 𝔐 σ hS θ, compInst_admissiblePN 𝔐 σ hE hS hPN θ⟩ ρ hρ m

theorem substitution_soundM {𝔐} (X : VId) (plug p r : Pat) (h : applySSubst X plug p = some r)
    (hp : ValidM 𝔐 p) : ValidM 𝔐 r := by
  intro σ hσ ρ hρ m
  rw [applySSubst_sem 𝔐 σ hσ.1 hσ.2.1 X plug p r h ρ]
  exact hp σ hσ _ (standard_setS ρ hρ X _) m

theorem generalization_soundM {𝔐} (x : VId) (a b : Pat) (hfresh : b.eFresh x = true)
    (h : ValidM 𝔐 (imp a b)) : ValidM 𝔐 (imp (ex x a) b) := by
  intro σ hσ ρ hρ m
  simp only [eval]
  rintro ⟨c, hc⟩
  have := h σ hσ _ (standard_setE ρ hρ x c) m
  simp only [eval] at this
  have hb := this hc
  rwa [eFresh_sound 𝔐 σ hσ.1 x b hfresh _ _ (agreeOffE_setE ρ x _)] at hb

theorem prop1_validM {𝔐} : ValidM 𝔐 prop1P := by
  intro σ hσ ρ hρ m; simp only [prop1P, phi, eval]; intro h _; exact h
theorem prop2_validM {𝔐} : ValidM 𝔐 prop2P := by
  intro σ hσ ρ hρ m; simp only [prop2P, phi, eval]; intro h1 h2 h3; exact h1 h3 (h2 h3)
theorem prop3_validM {𝔐} : ValidM 𝔐 prop3P := fun σ hσ ρ hρ m => prop3_valid 𝔐 σ hσ ρ hρ m
theorem quant_validM {𝔐} : ValidM 𝔐 quantP := fun σ hσ ρ hρ m => quantifier_valid 𝔐 σ hσ ρ hρ m
theorem exist_validM {𝔐} : ValidM 𝔐 existP := fun σ hσ ρ hρ m => existence_valid 𝔐 σ hσ ρ hρ m

/-! ### the invariant -/
def TermOK (𝔐 : Model) : Term → Prop
  | .pat _ => True
  | .proved p => ValidM 𝔐 p

def MInv (𝔐 : Model) (s : St) : Prop := (∀ t ∈ s.stack, TermOK 𝔐 t) ∧ (∀ t ∈ s.memory, TermOK 𝔐 t)

theorem popPats_sub {n : Nat} {st st' : List Term} {ps : List Pat} (h : popPats n st = some (ps, st')) :
    ∀ t ∈ st', t ∈ st := by
  induction n generalizing st ps with
  | zero => simp [popPats] at h; obtain ⟨_, rfl⟩ := h; exact fun t ht => ht
  | succ n ih =>
    cases st with
    | nil => simp [popPats] at h
    | cons t0 st0 =>
      cases t0 with
      | proved q => simp [popPats] at h
      | pat q =>
        simp only [popPats, Option.map_eq_some_iff] at h
        obtain ⟨⟨ps0, st0'⟩, h0, heq⟩ := h
        simp at heq; obtain ⟨_, rfl⟩ := heq
        intro t ht; exact List.mem_cons_of_mem _ (ih h0 t ht)

/-- One step preserves the invariant, provided that an axiom published in the gamma phase is valid in 𝔐. -/
theorem step_inv (𝔐 : Model) (ph : Phase) (s s' : St) (i : Instr) (j : Option Pat)
    (hs : MInv 𝔐 s) (h : step ph s i = some (s', j))
    (hax : ph = .gamma → ∀ a, j = some a → ValidM 𝔐 a) : MInv 𝔐 s' := by
  obtain ⟨hst, hmem⟩ := hs
  cases i with
  | evar x => simp [step] at h; obtain ⟨rfl, _⟩ := h; exact ⟨by intro t ht; simp at ht; rcases ht with rfl | ht; exact trivial; exact hst t ht, hmem⟩
  | svar x => simp [step] at h; obtain ⟨rfl, _⟩ := h; exact ⟨by intro t ht; simp at ht; rcases ht with rfl | ht; exact trivial; exact hst t ht, hmem⟩
  | sym x => simp [step] at h; obtain ⟨rfl, _⟩ := h; exact ⟨by intro t ht; simp at ht; rcases ht with rfl | ht; exact trivial; exact hst t ht, hmem⟩
  | cleanmv x => simp [step] at h; obtain ⟨rfl, _⟩ := h; exact ⟨by intro t ht; simp at ht; rcases ht with rfl | ht; exact trivial; exact hst t ht, hmem⟩
  | metavar id ef sf ps ns holes =>
    simp only [step] at h; split at h <;> simp at h
    obtain ⟨rfl, _⟩ := h
    exact ⟨by intro t ht; simp at ht; rcases ht with rfl | ht; exact trivial; exact hst t ht, hmem⟩
  | implies =>
    simp only [step] at h; split at h <;> simp at h
    rename_i r l st heq; obtain ⟨rfl, _⟩ := h
    refine ⟨?_, hmem⟩; intro t ht; simp at ht
    rcases ht with rfl | ht; exact trivial
    exact hst t (by rw [heq]; simp [ht])
  | app =>
    simp only [step] at h; split at h <;> simp at h
    rename_i r l st heq; obtain ⟨rfl, _⟩ := h
    refine ⟨?_, hmem⟩; intro t ht; simp at ht
    rcases ht with rfl | ht; exact trivial
    exact hst t (by rw [heq]; simp [ht])
  | ex x =>
    simp only [step] at h; split at h <;> simp at h
    rename_i p st heq; obtain ⟨rfl, _⟩ := h
    refine ⟨?_, hmem⟩; intro t ht; simp at ht
    rcases ht with rfl | ht; exact trivial
    exact hst t (by rw [heq]; simp [ht])
  | mu x =>
    simp only [step] at h; split at h <;> try simp at h
    rename_i p st heq
    obtain ⟨_, rfl, _⟩ := h
    refine ⟨?_, hmem⟩; intro t ht; simp at ht
    rcases ht with rfl | ht; exact trivial
    exact hst t (by rw [heq]; simp [ht])
  | esubst x =>
    simp only [step] at h; split at h <;> try simp at h
    rename_i p plug st heq
    obtain ⟨_, rfl, _⟩ := h
    refine ⟨?_, hmem⟩; intro t ht; simp at ht
    rcases ht with rfl | ht; exact trivial
    exact hst t (by rw [heq]; simp [ht])
  | ssubst x =>
    simp only [step] at h; split at h <;> try simp at h
    rename_i p plug st heq
    obtain ⟨_, rfl, _⟩ := h
    refine ⟨?_, hmem⟩; intro t ht; simp at ht
    rcases ht with rfl | ht; exact trivial
    exact hst t (by rw [heq]; simp [ht])
  | prop1 => simp [step] at h; obtain ⟨rfl, _⟩ := h; exact ⟨by intro t ht; simp at ht; rcases ht with rfl | ht; exact prop1_validM; exact hst t ht, hmem⟩
  | prop2 => simp [step] at h; obtain ⟨rfl, _⟩ := h; exact ⟨by intro t ht; simp at ht; rcases ht with rfl | ht; exact prop2_validM; exact hst t ht, hmem⟩
  | prop3 => simp [step] at h; obtain ⟨rfl, _⟩ := h; exact ⟨by intro t ht; simp at ht; rcases ht with rfl | ht; exact prop3_validM; exact hst t ht, hmem⟩
  | quantifier => simp [step] at h; obtain ⟨rfl, _⟩ := h; exact ⟨by intro t ht; simp at ht; rcases ht with rfl | ht; exact quant_validM; exact hst t ht, hmem⟩
  | existence => simp [step] at h; obtain ⟨rfl, _⟩ := h; exact ⟨by intro t ht; simp at ht; rcases ht with rfl | ht; exact exist_validM; exact hst t ht, hmem⟩
  | mp =>
    simp only [step] at h; split at h <;> try simp at h
    rename_i p2 l r st heq
    obtain ⟨hl, rfl, _⟩ := h
    refine ⟨?_, hmem⟩; intro t ht; simp at ht
    rcases ht with rfl | ht
    · have h1 : ValidM 𝔐 (imp l r) := hst (.proved (imp l r)) (by rw [heq]; simp)
      have h2 : ValidM 𝔐 p2 := hst (.proved p2) (by rw [heq]; simp)
      exact mp_soundM l r h1 (hl ▸ h2)
    · exact hst t (by rw [heq]; simp [ht])
  | gen x =>
    simp only [step] at h; split at h <;> try simp at h
    rename_i l r st heq
    obtain ⟨hfr, rfl, _⟩ := h
    refine ⟨?_, hmem⟩; intro t ht; simp at ht
    rcases ht with rfl | ht
    · exact generalization_soundM x l r hfr (hst (.proved (imp l r)) (by rw [heq]; simp))
    · exact hst t (by rw [heq]; simp [ht])
  | subst x =>
    simp only [step] at h; split at h <;> try simp at h
    rename_i p plug st heq
    obtain ⟨r, hr, rfl, _⟩ := h
    refine ⟨?_, hmem⟩; intro t ht; simp at ht
    rcases ht with rfl | ht
    · exact substitution_soundM x plug p r hr (hst (.proved p) (by rw [heq]; simp))
    · exact hst t (by rw [heq]; simp [ht])
  | instantiate ids =>
    simp only [step] at h; split at h
    · rename_i p st heq
      cases hpp : popPats ids.length st with
      | none => simp [hpp] at h
      | some pr =>
        obtain ⟨plugs, st'⟩ := pr
        cases hin : inst (lookupPlug ids plugs) p with
        | none => simp [hpp, hin] at h
        | some r =>
          simp [hpp, hin] at h; obtain ⟨rfl, _⟩ := h
          refine ⟨?_, hmem⟩; intro t ht; simp at ht
          rcases ht with rfl | ht; exact trivial
          exact hst t (by rw [heq]; exact List.mem_cons_of_mem _ (popPats_sub hpp t ht))
    · rename_i p st heq
      cases hpp : popPats ids.length st with
      | none => simp [hpp] at h
      | some pr =>
        obtain ⟨plugs, st'⟩ := pr
        cases hin : inst (lookupPlug ids plugs) p with
        | none => simp [hpp, hin] at h
        | some r =>
          simp [hpp, hin] at h; obtain ⟨rfl, _⟩ := h
          refine ⟨?_, hmem⟩; intro t ht; simp at ht
          rcases ht with rfl | ht
          · exact instantiate_soundM _ p r hin (hst (.proved p) (by rw [heq]; simp))
          · exact hst t (by rw [heq]; exact List.mem_cons_of_mem _ (popPats_sub hpp t ht))
    · simp at h
  | pop =>
    simp only [step] at h; split at h <;> simp at h
    rename_i t0 st heq; obtain ⟨rfl, _⟩ := h
    exact ⟨fun t ht => hst t (by rw [heq]; simp [ht]), hmem⟩
  | save =>
    simp only [step] at h; split at h <;> simp at h
    rename_i t0 st heq; obtain ⟨rfl, _⟩ := h
    refine ⟨hst, ?_⟩; intro t ht; simp at ht
    rcases ht with ht | rfl
    · exact hmem t ht
    · exact hst t (by rw [heq]; simp)
  | load i =>
    simp only [step, Option.map_eq_some_iff] at h
    obtain ⟨t0, ht0, heq⟩ := h; simp at heq; obtain ⟨rfl, _⟩ := heq
    refine ⟨?_, hmem⟩; intro t ht; simp at ht
    rcases ht with rfl | ht
    · exact hmem t (List.mem_of_getElem? ht0)
    · exact hst t ht
  | publish =>
    cases ph with
    | gamma =>
      simp only [step] at h
      split at h <;> try simp at h
      rename_i p st heq
      obtain ⟨rfl, rfl⟩ := h
      refine ⟨fun t ht => hst t (by rw [heq]; simp at ht ⊢; exact Or.inr ht), ?_⟩
      intro t ht; simp at ht
      rcases ht with ht | rfl
      · exact hmem t ht
      · exact hax rfl p rfl
    | claim =>
      simp only [step] at h
      split at h <;> try simp at h
      rename_i p st heq
      obtain ⟨rfl, _⟩ := h
      exact ⟨fun t ht => hst t (by rw [heq]; simp at ht ⊢; exact Or.inr ht), hmem⟩
    | proof =>
      simp only [step] at h
      split at h <;> try simp at h
      rename_i t0 st c cs heq heqc
      obtain ⟨_, rfl, _⟩ := h
      exact ⟨fun t ht => hst t (by rw [heq]; simp at ht ⊢; exact Or.inr ht), hmem⟩


/-! ### from steps to runs to `verify` -/

theorem run_inv (𝔐 : Model) (ph : Phase) : ∀ (is : List Instr) (s s' : St) (js : List Pat),
    MInv 𝔐 s → run ph s is = some (s', js) → (ph = .gamma → ∀ a ∈ js, ValidM 𝔐 a) → MInv 𝔐 s' := by
  intro is
  induction is with
  | nil => intro s s' js hs h _; simp [run] at h; obtain ⟨rfl, _⟩ := h; exact hs
  | cons i is ih =>
    intro s s' js hs h hax
    simp only [run] at h
    cases h1 : step ph s i with
    | none => simp [h1] at h
    | some r1 =>
      obtain ⟨s1, j⟩ := r1
      cases h2 : run ph s1 is with
      | none => simp [h1, h2] at h
      | some r2 =>
        obtain ⟨s2, js2⟩ := r2
        simp [h1, h2] at h
        obtain ⟨rfl, rfl⟩ := h
        have hs1 : MInv 𝔐 s1 := step_inv 𝔐 ph s s1 i j hs h1 (by
          intro hph a ha; exact hax hph a (by simp [ha]))
        exact ih s1 s2 js2 hs1 h2 (by intro hph a ha; exact hax hph a (by simp [ha]))

/-- every instruction other than Publish leaves the claim list alone and publishes nothing -/
theorem step_nonpublish (ph : Phase) (s s' : St) (i : Instr) (j : Option Pat)
    (hi : ∀ (_ : i = .publish), False) (h : step ph s i = some (s', j)) : s'.claims = s.claims ∧ j = none := by
  cases i <;> simp only [step] at h
  case publish => exact (hi rfl).elim
  case instantiate ids =>
    split at h
    · rename_i p st heq
      cases hpp : popPats ids.length st with
      | none => simp [hpp] at h
      | some pr =>
        cases hin : inst (lookupPlug ids pr.1) p with
        | none => simp [hpp, hin] at h
        | some r => simp [hpp, hin] at h; obtain ⟨rfl, rfl⟩ := h; simp
    · rename_i p st heq
      cases hpp : popPats ids.length st with
      | none => simp [hpp] at h
      | some pr =>
        cases hin : inst (lookupPlug ids pr.1) p with
        | none => simp [hpp, hin] at h
        | some r => simp [hpp, hin] at h; obtain ⟨rfl, rfl⟩ := h; simp
    · simp at h
  case load n =>
    simp only [Option.map_eq_some_iff] at h
    obtain ⟨t0, _, heq⟩ := h; simp at heq; obtain ⟨rfl, rfl⟩ := heq; simp
  case subst x =>
    split at h
    · simp only [Option.map_eq_some_iff] at h
      obtain ⟨r, _, heq⟩ := h; simp at heq; obtain ⟨rfl, rfl⟩ := heq; simp
    · simp at h
  all_goals
    first
    | (simp at h; obtain ⟨rfl, rfl⟩ := h; simp; done)
    | (split at h <;> (try simp at h) <;> (try (obtain ⟨rfl, rfl⟩ := h; simp)) <;>
        (try (obtain ⟨_, rfl, rfl⟩ := h; simp)); done)

/-- what Publish does to the claim list -/
theorem step_publish (ph : Phase) (s s' : St) (j : Option Pat) (h : step ph s .publish = some (s', j)) :
    (ph = .gamma → s'.claims = s.claims) ∧
    (ph = .claim → s'.claims = j.toList ++ s.claims) ∧
    (ph = .proof → ∃ c, s.claims = c :: s'.claims ∧ Term.proved c ∈ s.stack) := by
  simp only [step] at h
  cases ph with
  | gamma =>
    simp only at h; split at h <;> try simp at h
    obtain ⟨rfl, rfl⟩ := h; simp
  | claim =>
    simp only at h; split at h <;> try simp at h
    obtain ⟨rfl, rfl⟩ := h; simp
  | proof =>
    simp only at h; split at h <;> try simp at h
    rename_i t0 st c cs heq heqc
    obtain ⟨hc, rfl, _⟩ := h
    refine ⟨by simp, by simp, fun _ => ⟨c, ?_, ?_⟩⟩
    · simp [heqc]
    · rw [heq, hc]; simp

/-- the proof phase can only discharge claims against valid theorems -/
theorem run_proof_claims (𝔐 : Model) : ∀ (is : List Instr) (s s' : St) (js : List Pat),
    MInv 𝔐 s → run .proof s is = some (s', js) → ∀ q ∈ s.claims, q ∈ s'.claims ∨ ValidM 𝔐 q := by
  intro is
  induction is with
  | nil => intro s s' js _ h q hq; simp [run] at h; obtain ⟨rfl, _⟩ := h; exact Or.inl hq
  | cons i is ih =>
    intro s s' js hs h q hq
    simp only [run] at h
    cases h1 : step .proof s i with
    | none => simp [h1] at h
    | some r1 =>
      obtain ⟨s1, j⟩ := r1
      cases h2 : run .proof s1 is with
      | none => simp [h1, h2] at h
      | some r2 =>
        obtain ⟨s2, js2⟩ := r2
        simp [h1, h2] at h
        obtain ⟨rfl, rfl⟩ := h
        have hs1 : MInv 𝔐 s1 := step_inv 𝔐 .proof s s1 i j hs h1 (by intro hph; cases hph)
        by_cases hi : i = .publish
        · subst hi
          obtain ⟨c, hc, hmem⟩ := (step_publish .proof s s1 j h1).2.2 rfl
          rw [hc] at hq
          simp at hq
          rcases hq with rfl | hq
          · exact Or.inr (hs.1 _ hmem)
          · exact ih s1 s2 js2 hs1 h2 q hq
        · have := (step_nonpublish .proof s s1 i j (fun e => hi e) h1).1
          exact ih s1 s2 js2 hs1 h2 q (this ▸ hq)

/-- in the claim phase the claim list grows by exactly what is published -/
theorem run_claim_claims : ∀ (is : List Instr) (s s' : St) (js : List Pat),
    run .claim s is = some (s', js) → s'.claims = js.reverse ++ s.claims := by
  intro is
  induction is with
  | nil => intro s s' js h; simp [run] at h; obtain ⟨rfl, rfl⟩ := h; simp
  | cons i is ih =>
    intro s s' js h
    simp only [run] at h
    cases h1 : step .claim s i with
    | none => simp [h1] at h
    | some r1 =>
      obtain ⟨s1, j⟩ := r1
      cases h2 : run .claim s1 is with
      | none => simp [h1, h2] at h
      | some r2 =>
        obtain ⟨s2, js2⟩ := r2
        simp [h1, h2] at h
        obtain ⟨rfl, rfl⟩ := h
        rw [ih s1 s2 js2 h2]
        by_cases hi : i = .publish
        · subst hi
          rw [(step_publish .claim s s1 j h1).2.1 rfl]
          cases j <;> simp
        · obtain ⟨hc, hj⟩ := step_nonpublish .claim s s1 i j (fun e => hi e) h1
          subst hj; simp [hc]

theorem run_gamma_claims : ∀ (is : List Instr) (s s' : St) (js : List Pat),
    run .gamma s is = some (s', js) → s'.claims = s.claims := by
  intro is
  induction is with
  | nil => intro s s' js h; simp [run] at h; obtain ⟨rfl, _⟩ := h; rfl
  | cons i is ih =>
    intro s s' js h
    simp only [run] at h
    cases h1 : step .gamma s i with
    | none => simp [h1] at h
    | some r1 =>
      obtain ⟨s1, j⟩ := r1
      cases h2 : run .gamma s1 is with
      | none => simp [h1, h2] at h
      | some r2 =>
        obtain ⟨s2, js2⟩ := r2
        simp [h1, h2] at h
        obtain ⟨rfl, _⟩ := h
        rw [ih s1 s2 js2 h2]
        by_cases hi : i = .publish
        · subst hi; exact (step_publish .gamma s s1 j h1).1 rfl
        · exact (step_nonpublish .gamma s s1 i j (fun e => hi e) h1).1

/-- **Checker soundness** (instruction level): if `verify` accepts, every published claim is valid
in every model in which the published axioms are valid (under every admissible instantiation
and every standard valuation). -/
theorem verify_sound (g c p : List Instr) (axs cls : List Pat) (h : verify g c p = some (axs, cls))
    (𝔐 : Model) (hΓ : ∀ a ∈ axs, ValidM 𝔐 a) : ∀ q ∈ cls, ValidM 𝔐 q := by
  simp only [verify] at h
  cases h1 : run .gamma ⟨[], [], []⟩ g with
  | none => simp [h1] at h
  | some r1 =>
    obtain ⟨s1, axs'⟩ := r1
    cases h2 : run .claim { s1 with stack := [] } c with
    | none => simp [h1, h2] at h
    | some r2 =>
      obtain ⟨s2, cls'⟩ := r2
      cases h3 : run .proof { s2 with stack := [] } p with
      | none => simp [h1, h2, h3] at h
      | some r3 =>
        obtain ⟨s3, js3⟩ := r3
        simp [h1, h2, h3] at h
        obtain ⟨hempty, rfl, rfl⟩ := h
        have i0 : MInv 𝔐 ⟨[], [], []⟩ := ⟨by simp, by simp⟩
        have i1 : MInv 𝔐 s1 := run_inv 𝔐 .gamma g _ s1 axs' i0 h1 (fun _ => hΓ)
        have i1' : MInv 𝔐 { s1 with stack := [] } := ⟨by simp, i1.2⟩
        have i2 : MInv 𝔐 s2 := run_inv 𝔐 .claim c _ s2 cls' i1' h2 (by intro hph; cases hph)
        have i2' : MInv 𝔐 { s2 with stack := [] } := ⟨by simp, i2.2⟩
        have hc1 : s1.claims = [] := run_gamma_claims g _ s1 axs' h1
        have hc2 : s2.claims = cls'.reverse := by
          have := run_claim_claims c _ s2 cls' h2; simpa [hc1] using this
        intro q hq
        have := run_proof_claims 𝔐 p _ s3 js3 i2' h3 q (by simp [hc2, hq])
        rcases this with hin | hv
        · rw [hempty] at hin; simp at hin
        · exact hv

