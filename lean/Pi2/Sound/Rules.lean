import Pi2.Sound.Inst
/-! # Soundness of the proof rules and validity of the axiom schemas hard-wired in `lib.rs` -/
set_option linter.unusedVariables false
set_option linter.unusedSimpArgs false
open Pat

/-- modus ponens is sound, with no side condition on instantiations (decision 3 of §3.6) -/
theorem mp_sound (a b : Pat) (h1 : Valid (imp a b)) (h2 : Valid a) : Valid b :=
  fun 𝔐 σ hσ ρ hρ m => (h1 𝔐 σ hσ ρ hρ m) (h2 𝔐 σ hσ ρ hρ m)

/-- The Instantiate rule of the checker is sound. -/
theorem instantiate_sound (θ : VId → Option Pat) (p r : Pat) (h : inst θ p = some r) (hp : Valid p) : Valid r := by
  intro 𝔐 σ hσ ρ hρ m
  obtain ⟨hE, hS, hPN⟩ := hσ
  rw [inst_sem 𝔐 σ hE hS θ p r h ρ]
  exact hp 𝔐 (compInst 𝔐 σ θ)
    ⟨compInst_admissibleE 𝔐 σ hE θ, compInst_admissibleS 𝔐 σ hS θ, compInst_admissiblePN 𝔐 σ hE hS hPN θ⟩ ρ hρ m

theorem standard_setS {M} (ρ : Val M) (hρ : ρ.standard) (X : VId) (A : M → Prop) : (ρ.setS X A).standard := by
  intro x; simpa [Val.setS] using hρ x

theorem standard_setE {M} (ρ : Val M) (hρ : ρ.standard) (x : VId) (a : M) : (ρ.setE x (fun b => b = a)).standard := by
  intro y; simp only [Val.setE]; split
  · exact ⟨a, rfl⟩
  · exact hρ y

/-- The Substitution rule (with the capture checks) is sound. -/
theorem substitution_sound (X : VId) (plug p r : Pat) (h : applySSubst X plug p = some r) (hp : Valid p) : Valid r := by
  intro 𝔐 σ hσ ρ hρ m
  rw [applySSubst_sem 𝔐 σ hσ.1 hσ.2.1 X plug p r h ρ]
  exact hp 𝔐 σ hσ _ (standard_setS ρ hρ X _) m

/-- Generalization (side condition as checked by the checker: x fresh in the consequent). -/
theorem generalization_sound (x : VId) (a b : Pat) (hfresh : b.eFresh x = true) (h : Valid (imp a b)) :
    Valid (imp (ex x a) b) := by
  intro 𝔐 σ hσ ρ hρ m
  simp only [eval]
  rintro ⟨c, hc⟩
  have := h 𝔐 σ hσ _ (standard_setE ρ hρ x c) m
  simp only [eval] at this
  have hb := this hc
  rwa [eFresh_sound 𝔐 σ hσ.1 x b hfresh _ _ (agreeOffE_setE ρ x _)] at hb

/-- Quantifier axiom: φ0[x1/x0] → ∃x0.φ0, as hard-wired in lib.rs -/
theorem quantifier_valid : Valid (imp (esub (mv 0 [] [] [] [] []) 0 (evar 1)) (ex 0 (mv 0 [] [] [] [] []))) := by
  intro 𝔐 σ hσ ρ hρ m
  simp only [eval]
  intro h
  obtain ⟨a, ha⟩ := hρ 1
  exact ⟨a, by rw [← ha]; exact h⟩

theorem existence_valid : Valid (ex 0 (evar 0)) := by
  intro 𝔐 σ hσ ρ hρ m
  simp only [eval]
  exact ⟨m, by simp [Val.setE]⟩

theorem prop3_valid : Valid (imp (imp (imp (mv 0 [] [] [] [] []) (mu 0 (svar 0))) (mu 0 (svar 0))) (mv 0 [] [] [] [] [])) := by
  intro 𝔐 σ hσ ρ hρ m
  simp only [eval]
  intro h
  apply Classical.byContradiction
  intro hn
  have := h (fun hm => absurd hm hn)
  exact this (fun _ => False) (by intro b hb; simpa [Val.setS] using hb)

