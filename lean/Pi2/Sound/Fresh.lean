import Pi2.Sem
/-! # Soundness of the freshness judgements (semantic form of C06) -/
set_option linter.unusedVariables false
set_option linter.unusedSimpArgs false
open Pat

theorem agree_setE_same {M} {e : VId} {ρ ρ' : Val M} (h : Val.agreeOffE e ρ ρ') (A : M → Prop) :
    ρ.setE e A = ρ'.setE e A := by
  obtain ⟨h1, h2⟩ := h
  cases ρ; cases ρ'
  simp only [Val.setE] at *
  congr 1
  · funext y; by_cases hy : y = e <;> simp [hy]; exact h1 y hy
  
theorem agree_setE_other {M} {e x : VId} {ρ ρ' : Val M} (h : Val.agreeOffE e ρ ρ') (A : M → Prop) :
    Val.agreeOffE e (ρ.setE x A) (ρ'.setE x A) := by
  obtain ⟨h1, h2⟩ := h
  refine ⟨?_, ?_⟩
  · intro y hy; simp only [Val.setE]; split <;> simp_all
  · simpa [Val.setE] using h2

theorem agree_setS {M} {e X : VId} {ρ ρ' : Val M} (h : Val.agreeOffE e ρ ρ') (A : M → Prop) :
    Val.agreeOffE e (ρ.setS X A) (ρ'.setS X A) := by
  obtain ⟨h1, h2⟩ := h
  refine ⟨?_, ?_⟩
  · intro y hy; simpa [Val.setS] using h1 y hy
  · simp [Val.setS, h2]

theorem eFresh_sound (𝔐 : Model) (σ : MVKey → Sem 𝔐.M) (hσ : Admissible σ) (e : VId) :
    ∀ (p : Pat), p.eFresh e = true → ∀ ρ ρ', Val.agreeOffE e ρ ρ' → eval 𝔐 σ p ρ = eval 𝔐 σ p ρ' := by
  intro p
  induction p with
  | evar x => intro h ρ ρ' hag; simp [eFresh] at h; simp [eval]; exact hag.1 x h
  | svar X => intro h ρ ρ' hag; simp [eval, hag.2]
  | sym s => intro h ρ ρ' hag; simp [eval]
  | imp l r ihl ihr =>
    intro h ρ ρ' hag; simp [eFresh] at h
    simp only [eval]; rw [ihl h.1 ρ ρ' hag, ihr h.2 ρ ρ' hag]
  | app l r ihl ihr =>
    intro h ρ ρ' hag; simp [eFresh] at h
    simp only [eval]; rw [ihl h.1 ρ ρ' hag, ihr h.2 ρ ρ' hag]
  | ex x p ih =>
    intro h ρ ρ' hag; simp [eFresh] at h
    simp only [eval]
    funext m; congr 1; funext a
    rcases h with h | h
    · subst h; rw [agree_setE_same hag]
    · rw [ih h _ _ (agree_setE_other hag _)]
  | mu X p ih =>
    intro h ρ ρ' hag; simp [eFresh] at h
    simp only [eval]
    funext m
    have : ∀ A, eval 𝔐 σ p (ρ.setS X A) = eval 𝔐 σ p (ρ'.setS X A) := fun A => ih h _ _ (agree_setS hag A)
    simp only [this]
  | mv id ef sf pos neg holes =>
    intro h ρ ρ' hag; simp [eFresh] at h
    simp only [eval]; exact hσ.ef ⟨id, ef, sf, pos, neg, holes⟩ e h ρ ρ' hag
  | esub p x plug ihp ihplug =>
    intro h ρ ρ' hag
    simp only [eFresh] at h
    simp only [eval]
    split at h
    · rename_i hex; simp at hex; subst hex
      rw [ihplug h ρ ρ' hag, agree_setE_same hag]
    · simp at h
      rw [ihplug h.2 ρ ρ' hag]
      exact ihp h.1 _ _ (agree_setE_other hag _)
  | ssub p X plug ihp ihplug =>
    intro h ρ ρ' hag
    simp [eFresh] at h
    simp only [eval]
    rw [ihplug h.2 ρ ρ' hag]
    exact ihp h.1 _ _ (agree_setS hag _)

theorem agreeS_setS_same {M} {s : VId} {ρ ρ' : Val M} (h : Val.agreeOffS s ρ ρ') (A : M → Prop) :
    ρ.setS s A = ρ'.setS s A := by
  obtain ⟨h1, h2⟩ := h
  cases ρ; cases ρ'
  simp only [Val.setS] at *
  congr 1
  · funext y; by_cases hy : y = s <;> simp [hy]; exact h1 y hy

theorem agreeS_setS_other {M} {s x : VId} {ρ ρ' : Val M} (h : Val.agreeOffS s ρ ρ') (A : M → Prop) :
    Val.agreeOffS s (ρ.setS x A) (ρ'.setS x A) := by
  obtain ⟨h1, h2⟩ := h
  refine ⟨?_, ?_⟩
  · intro y hy; simp only [Val.setS]; split <;> simp_all
  · simpa [Val.setS] using h2

theorem agreeS_setE {M} {s X : VId} {ρ ρ' : Val M} (h : Val.agreeOffS s ρ ρ') (A : M → Prop) :
    Val.agreeOffS s (ρ.setE X A) (ρ'.setE X A) := by
  obtain ⟨h1, h2⟩ := h
  refine ⟨?_, ?_⟩
  · intro y hy; simpa [Val.setE] using h1 y hy
  · simp [Val.setE, h2]

theorem sFresh_sound (𝔐 : Model) (σ : MVKey → Sem 𝔐.M) (hσ : AdmissibleS σ) (s : VId) :
    ∀ (p : Pat), p.sFresh s = true → ∀ ρ ρ', Val.agreeOffS s ρ ρ' → eval 𝔐 σ p ρ = eval 𝔐 σ p ρ' := by
  intro p
  induction p with
  | evar x => intro h ρ ρ' hag; simp [eval, hag.2]
  | svar X => intro h ρ ρ' hag; simp [sFresh] at h; simp [eval]; exact hag.1 X h
  | sym s => intro h ρ ρ' hag; simp [eval]
  | imp l r ihl ihr =>
    intro h ρ ρ' hag; simp [sFresh] at h
    simp only [eval]; rw [ihl h.1 ρ ρ' hag, ihr h.2 ρ ρ' hag]
  | app l r ihl ihr =>
    intro h ρ ρ' hag; simp [sFresh] at h
    simp only [eval]; rw [ihl h.1 ρ ρ' hag, ihr h.2 ρ ρ' hag]
  | ex x p ih =>
    intro h ρ ρ' hag; simp [sFresh] at h
    simp only [eval]
    funext m; congr 1; funext a
    rw [ih h _ _ (agreeS_setE hag _)]
  | mu X p ih =>
    intro h ρ ρ' hag; simp [sFresh] at h
    simp only [eval]
    funext m
    have : ∀ A, eval 𝔐 σ p (ρ.setS X A) = eval 𝔐 σ p (ρ'.setS X A) := by
      intro A
      rcases h with h | h
      · subst h; rw [agreeS_setS_same hag]
      · exact ih h _ _ (agreeS_setS_other hag A)
    simp only [this]
  | mv id ef sf pos neg holes =>
    intro h ρ ρ' hag; simp [sFresh] at h
    simp only [eval]; exact hσ.sf ⟨id, ef, sf, pos, neg, holes⟩ s h ρ ρ' hag
  | esub p x plug ihp ihplug =>
    intro h ρ ρ' hag
    simp [sFresh] at h
    simp only [eval]
    rw [ihplug h.2 ρ ρ' hag]
    exact ihp h.1 _ _ (agreeS_setE hag _)
  | ssub p X plug ihp ihplug =>
    intro h ρ ρ' hag
    simp only [sFresh] at h
    simp only [eval]
    split at h
    · rename_i hex; simp at hex; subst hex
      rw [ihplug h ρ ρ' hag, agreeS_setS_same hag]
    · simp at h
      rw [ihplug h.2 ρ ρ' hag]
      exact ihp h.1 _ _ (agreeS_setS_other hag _)

theorem setS_setS_same {M} (ρ : Val M) (X : VId) (A B : M → Prop) : (ρ.setS X A).setS X B = ρ.setS X B := by
  cases ρ; simp only [Val.setS]; congr 1; funext y; by_cases h : y = X <;> simp [h]

theorem setS_comm {M} (ρ : Val M) (X Y : VId) (h : Y ≠ X) (A B : M → Prop) :
    (ρ.setS Y A).setS X B = (ρ.setS X B).setS Y A := by
  cases ρ; simp only [Val.setS]; congr 1; funext z
  by_cases h1 : z = X <;> by_cases h2 : z = Y <;> simp [h1, h2]
  · subst h1; subst h2; exact absurd rfl h
  · intro hxy; exact absurd hxy.symm h
  · intro hxy; exact absurd hxy h

theorem setS_setE_comm {M} (ρ : Val M) (X y : VId) (A B : M → Prop) :
    (ρ.setE y A).setS X B = (ρ.setS X B).setE y A := by
  cases ρ; simp [Val.setS, Val.setE]

theorem agreeOffE_setE {M} (ρ : Val M) (y : VId) (A : M → Prop) : Val.agreeOffE y (ρ.setE y A) ρ := by
  refine ⟨?_, ?_⟩
  · intro z hz; simp [Val.setE, hz]
  · simp [Val.setE]

theorem agreeOffS_setS {M} (ρ : Val M) (y : VId) (A : M → Prop) : Val.agreeOffS y (ρ.setS y A) ρ := by
  refine ⟨?_, ?_⟩
  · intro z hz; simp [Val.setS, hz]
  · simp [Val.setS]

