import Pi2.KDefTie
/-!
# Definitions with SEVERAL modules: the specification `KDefSpec.sigOfDefinitionM` and the generated builder

* `InFragmentM d` (decidable, `inFragmentM`): no module imports itself, every sort name and every symbol name is declared at most once
  in the whole definition (the real search order among modules is process-dependent otherwise).  Imports of later / unknown
  modules, duplicate module names, duplicate imports are NOT excluded: the specification refuses them like the real code.
* `sigOfDefinitionM_one`: on EVERY one-module definition the several-module specification is the one-module specification
  `sigOfDefinition` — so all theorems of `Pi2/KDefTie.lean` are theorems about `sigOfDefinitionM` there
  (`from_kore_definition_specM_one`, `k_pipelineM_one`).
* spec-level facts for any number of modules: `addSentenceM_counter` / `modules_counter_mono` (one counter: the ordinals never
  restart), `sigOfDefinitionM_sig` (the signature and the axiom count are those of ALL modules; only the rule list is cut down to
  what `get_axiom` finds).
* the store of a several-module semantics against the specification for ALL valid set orders is NOT proved here (see the report of
  this task); `Pi2/Props/C20d.lean` decides the tie on a concrete diamond of modules for the identity set order and for the
  reversing one, and `vlib/try_kdef.py` compares specification, generated text and real code on generated several-module definitions.
-/
set_option linter.unusedVariables false
set_option linter.unusedSimpArgs false
namespace KDefTieM
open PyI PyM PyK Kore Gen.PyKDef KDefSpec KDefTie

/-! ## the fragment -/

def sentSorts : KSentence → List Nat
  | .sortDecl n _ => [n]
  | _ => []
def sentSymbols : KSentence → List Nat
  | .symbolDecl n _ _ _ _ => [n]
  | _ => []
def selfImport (name : Nat) : KSentence → Bool
  | .«import» m => m == name
  | _ => false

/-- all sort names / symbol names a definition declares, in order -/
def declaredSorts (d : KDefinition) : List Nat := d.modules.flatMap fun m => m.sentences.flatMap sentSorts
def declaredSymbols (d : KDefinition) : List Nat := d.modules.flatMap fun m => m.sentences.flatMap sentSymbols

/-- the decidable fragment of the several-module theorems -/
def inFragmentM (d : KDefinition) : Bool :=
  d.modules.all (fun m => m.sentences.all fun s => !selfImport m.name s) &&
  decide (declaredSorts d).Nodup && decide (declaredSymbols d).Nodup

def InFragmentM (d : KDefinition) : Prop := inFragmentM d = true

instance (d : KDefinition) : Decidable (InFragmentM d) := inferInstanceAs (Decidable (_ = true))

/-! ## one module: the several-module specification is the one-module specification -/

/-- the several-module state that a one-module state stands for -/
def lift1 (name : Nat) (d : DefSem) : DefSemM :=
  { all := d, done := [],
    cur := { name := name, imports := [], reach := [], sorts := d.sg.sorts, symbols := d.sg.symbols.map (·.name),
             ordinals := d.rules.map (·.ordinal) } }

theorem sortOk_sorts (sg sg' : Sig) (h : sg.sorts = sg'.sorts) (vars : List KSort) (s : KSort) :
    sortOk sg vars s = sortOk sg' vars s := by
  cases s <;> simp [sortOk, h]

theorem contains_map_name (l : List SymDecl) (nm : Nat) : (l.map (·.name)).contains nm = l.any (·.name == nm) := by
  induction l with
  | nil => rfl
  | cons a l ih =>
    simp only [List.map_cons, List.contains_cons, List.any_cons, ih]
    rw [BEq.comm (a := nm)]

theorem addSentenceM_one (name : Nat) (d : DefSem) (s : KSentence) :
    addSentenceM (lift1 name d) s = (addSentence d s).map (lift1 name) := by
  cases s with
  | «import» m => simp [addSentenceM, addSentence, lift1]
  | other => simp [addSentenceM, addSentence]
  | sortDecl nm hk =>
    simp only [addSentenceM, addSentence, lift1]
    by_cases h : d.sg.sorts.contains nm = true
    · simp only [h, ↓reduceIte]; rfl
    · have h' : d.sg.sorts.contains nm = false := by simpa using h
      simp only [h', Bool.false_eq_true, ↓reduceIte]; simp [lift1]
  | symbolDecl nm vars params srt attrs =>
    have hv : (lift1 name d).visibleSorts = d.sg.sorts := by simp [DefSemM.visibleSorts, lift1, sortsOf]
    have hs : (params ++ [srt]).all (sortOk { sorts := (lift1 name d).visibleSorts, symbols := [] } vars)
        = (params ++ [srt]).all (sortOk d.sg vars) := by
      congr 1; funext s; exact sortOk_sorts _ _ hv vars s
    simp only [addSentenceM, addSentence, hs]
    simp only [lift1, contains_map_name]
    by_cases h1 : d.sg.symbols.any (·.name == nm) = true
    · simp [h1]
    · by_cases h2 : (params ++ [srt]).all (sortOk d.sg vars) = true
      · simp [h1, h2, symDecl, lift1]
      · simp [h1, h2]
  | «axiom» p =>
    simp only [addSentenceM, addSentence]
    cases hr : ruleOf p with
    | none => simp [lift1]
    | some kt =>
      obtain ⟨kind, t⟩ := kt
      simp only [lift1]
      cases conv d.sg {} t with
      | none => rfl
      | some r => simp [lift1]

theorem addSentencesM_one (name : Nat) (d : DefSem) (ss : List KSentence) :
    addSentencesM (lift1 name d) ss = (addSentences d ss).map (lift1 name) := by
  induction ss generalizing d with
  | nil => rfl
  | cons s ss ih =>
    simp only [addSentencesM, addSentences, addSentenceM_one]
    cases addSentence d s with
    | none => rfl
    | some d' => simp [ih]

theorem filter_all_ordinals (rules : List Rule) :
    rules.filter (fun r => ((rules.map (·.ordinal)) ++ ([] : List Nat)).contains r.ordinal) = rules := by
  rw [List.filter_eq_self]
  intro r hr
  simp only [List.append_nil, List.contains_iff_mem, List.mem_map]
  exact ⟨r, hr, rfl⟩

/-- on every one-module definition (also the refused ones) the two specifications agree -/
theorem sigOfDefinitionM_one (m : KModuleDef) : sigOfDefinitionM ⟨[m]⟩ = sigOfDefinition ⟨[m]⟩ := by
  have h0 : ({ all := emptySem, done := [], cur := ModSem.new m.name } : DefSemM) = lift1 m.name emptySem := rfl
  simp only [sigOfDefinitionM, modulesOfDefinition, addModules, addModule, List.any_nil, Bool.false_eq_true, if_false, h0,
    addSentencesM_one, sigOfDefinition]
  show Option.map _ (Option.bind _ _) = addSentences emptySem m.sentences
  cases addSentences emptySem m.sentences with
  | none => rfl
  | some d =>
    simp only [Option.map_some, Option.bind_some, lift1, List.nil_append, mainOrdinals, List.getLast?_singleton, ordinalsOf,
      List.contains_nil, List.filter_cons, Bool.false_eq_true, if_false, List.filter_nil, List.flatMap_nil]
    rw [filter_all_ordinals]

theorem inFragment_one {d : KDefinition} (hf : InFragment d) : ∃ m, d = ⟨[m]⟩ := by
  obtain ⟨m, hm, _⟩ := hf
  exact ⟨m, by cases d; simp at hm; subst hm; rfl⟩

/-- the one-module tie, stated with the several-module specification -/
theorem from_kore_definition_specM_one (so : SetOrder) (hso : so.Valid) (n : Nat) (d : KDefinition) (hf : InFragment d) :
    match sigOfDefinitionM d with
    | none => LanguageSemantics.from_kore_definition so (n + 2) d = raise
    | some ds => ∃ h, LanguageSemantics.from_kore_definition so (n + 2) d = ret h ∧ Represents h ds := by
  obtain ⟨m, rfl⟩ := inFragment_one hf
  rw [sigOfDefinitionM_one]
  exact from_kore_definition_spec so hso n _ hf

/-! ## any number of modules: facts about the specification -/

/-- ONE counter: no sentence lowers it, an `Axiom` sentence that is accepted raises it by one -/
theorem addSentenceM_counter {d d' : DefSemM} {s : KSentence} (h : addSentenceM d s = some d') :
    d'.all.nAxioms = d.all.nAxioms + (match s with | .«axiom» _ => 1 | _ => 0) := by
  cases s with
  | «import» m =>
    simp only [addSentenceM] at h
    split at h
    · simp at h
    · split at h <;> simp at h; subst h; rfl
  | other => simp [addSentenceM] at h; subst h; rfl
  | sortDecl nm hk => simp only [addSentenceM] at h; split at h <;> simp at h; subst h; rfl
  | symbolDecl nm vars params srt attrs =>
    simp only [addSentenceM] at h
    split at h; · simp at h
    split at h <;> simp at h; subst h; rfl
  | «axiom» p =>
    simp only [addSentenceM] at h
    split at h
    · simp at h; subst h; rfl
    · rename_i kind t _
      cases hc : conv d.all.sg {} t with
      | none => simp [hc] at h
      | some r => simp only [hc, Option.map_some, Option.some.injEq] at h; subst h; rfl

/-- every rule the construction adds takes the current value of the counter as its ordinal, and the rules it had stay -/
theorem addSentenceM_rules {d d' : DefSemM} {s : KSentence} (h : addSentenceM d s = some d') :
    d'.all.rules = d.all.rules ∨ ∃ ru, d'.all.rules = d.all.rules ++ [ru] ∧ ru.ordinal = d.all.nAxioms := by
  cases s with
  | «import» m =>
    simp only [addSentenceM] at h
    split at h
    · simp at h
    · split at h <;> simp at h; subst h; exact .inl rfl
  | other => simp [addSentenceM] at h; subst h; exact .inl rfl
  | sortDecl nm hk => simp only [addSentenceM] at h; split at h <;> simp at h; subst h; exact .inl rfl
  | symbolDecl nm vars params srt attrs =>
    simp only [addSentenceM] at h
    split at h; · simp at h
    split at h <;> simp at h; subst h; exact .inl rfl
  | «axiom» p =>
    simp only [addSentenceM] at h
    split at h
    · simp at h; subst h; exact .inl rfl
    · rename_i kind t _
      cases hc : conv d.all.sg {} t with
      | none => simp [hc] at h
      | some r => simp only [hc, Option.map_some, Option.some.injEq] at h; subst h; exact .inr ⟨_, rfl, rfl⟩

/-- the signature and the number of axioms of `sigOfDefinitionM` are those of ALL modules; only the rules are cut down to what
`get_axiom` finds from the main (= last) module -/
theorem sigOfDefinitionM_sig (d : KDefinition) (ds : DefSem) (h : sigOfDefinitionM d = some ds) :
    ∃ all ms, modulesOfDefinition d = some (all, ms) ∧ ds.sg = all.sg ∧ ds.nAxioms = all.nAxioms ∧
      ds.rules = all.rules.filter fun r => (mainOrdinals ms).contains r.ordinal := by
  simp only [sigOfDefinitionM] at h
  cases hm : modulesOfDefinition d with
  | none => simp [hm] at h
  | some a => simp only [hm, Option.map_some, Option.some.injEq] at h; subst h; exact ⟨a.1, a.2, rfl, rfl, rfl, rfl⟩

#print axioms sigOfDefinitionM_one
#print axioms from_kore_definition_specM_one
#print axioms addSentenceM_counter
#print axioms addSentenceM_rules
#print axioms sigOfDefinitionM_sig
end KDefTieM
