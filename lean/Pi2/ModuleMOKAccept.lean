import Pi2.ModuleMOKRun
/-!
# Acceptance of a module whose patterns are shaped and machine-OK and whose instantiations the machine accepts

`module_acceptedM` is the analogue of `KMod.module_acceptedK` for ARBITRARY proof expressions (`prop1-3`, `quantifier`,
`mp`, `gen`, `dynInst`, `loadAxiom`, nested at will): plain serialisation, stated up to a naming `ρ` of the symbols that
agrees with the final symbol table.
-/
set_option linter.unusedSimpArgs false
set_option linter.unusedVariables false
open Pat PySt

namespace KMod
open NPat

/-- tracker and machine in the proof phase -/
structure PRelMk (ρ : Nat → Nat) (s : PySt) (m : St) : Prop where
  phase : s.phase = .proof
  memory : m.memory = s.memory.map (convR ρ)
  claims : m.claims = s.claims.map fun c => ren ρ c.expand
  memS : MemS s.memory
  clShape : ∀ c ∈ s.claims, c.Shape = true

/-- the side conditions of a proof expression -/
def PfOK (pf : Pf) : Prop := pf.patsOK = true ∧ pf.InstOK

/-- one proof expression followed by `publish_proof` -/
theorem stepM {n : Nat} (ρ : Nat → Nat) (ax : List NPat) {s s1 s2 : PySt} {pf : Pf}
    {acc a1 a2 : List Call} {c : NPat} (m : St) (hpf : PfOK pf)
    (hrun : Pf.runF {} ax n s pf acc = some (some (s1, a1, c)))
    (hpub : doCalls n s1 [.publishProof] a1 = some (some (s2, a2)))
    (hrel : PRelMk ρ s m) (hag : Agree ρ s2.symtab) : StepOK n s m acc s2 a2 := by
  obtain ⟨P1, hc, _, cs1, rfl, S1⟩ := runC (Nat.le_refl n) ax hrun hpf.1 hpf.2
  have hsym2 : s2.symtab = s1.symtab := symtab_of_track1 (by simp) (MM.doCalls_one hpub).1
  have ag1 : Agree ρ s1.symtab := hsym2 ▸ hag
  obtain ⟨is1, G1⟩ := S1 ρ m ag1 hrel.memS hrel.memory
  have hstk : s1.stack = (.proved c, false) :: s.stack := by simpa using P1.stack
  have hph1 : s1.phase = .proof := P1.phase.trans hrel.phase
  obtain ⟨c0, rest, hcl, rfl, rfl, G2⟩ := publishC (Nat.le_refl n) ρ (c := c) (st := s.stack) m m.stack hpub hstk
    hph1 hc (by rw [P1.claims]; exact hrel.clShape) (by rw [P1.claims]; exact hrel.claims)
  obtain ⟨e1, he1⟩ := P1.symtab
  refine ⟨c0, rest, by rw [← P1.claims]; exact hcl, rfl, P1.memory, hph1, ⟨e1, he1⟩,
    cs1 ++ [.publishProof], is1 ++ [.publish], by simp, ?_⟩
  have := G1.append G2
  simpa [mprov] using this

/-- the part of `PRelMk` that does not mention the machine -/
structure PInvMk (s : PySt) : Prop where
  phase : s.phase = .proof
  memS : MemS s.memory
  clShape : ∀ c ∈ s.claims, c.Shape = true

theorem PRelMk.inv {ρ : Nat → Nat} {s : PySt} {m : St} (h : PRelMk ρ s m) : PInvMk s :=
  ⟨h.phase, h.memS, h.clShape⟩

theorem PInvMk.rel {s : PySt} (h : PInvMk s) (ρ : Nat → Nat) : PRelMk ρ s (fakeM ρ s) :=
  ⟨h.phase, rfl, rfl, h.memS, h.clShape⟩

theorem StepOK.relM {n : Nat} {ρ : Nat → Nat} {s s2 : PySt} {m : St} {acc a2 : List Call}
    (h : StepOK n s m acc s2 a2) (hrel : PRelMk ρ s m) : PRelMk ρ s2 { m with claims := m.claims.tail } := by
  obtain ⟨c0, rest, hcl, hcl2, hmem, hph, _, _⟩ := h
  refine ⟨hph, ?_, ?_, ?_, ?_⟩
  · rw [hmem]; exact hrel.memory
  · show m.claims.tail = _
    rw [hrel.claims, hcl, hcl2]; rfl
  · rw [hmem]; exact hrel.memS
  · intro x hx
    rw [hcl2] at hx
    exact hrel.clShape x (by rw [hcl]; exact List.mem_cons_of_mem _ hx)

theorem stepM_ext {n : Nat} (ax : List NPat) {s s1 s2 : PySt} {pf : Pf}
    {acc a1 a2 : List Call} {c : NPat} (hpf : PfOK pf)
    (hrun : Pf.runF {} ax n s pf acc = some (some (s1, a1, c)))
    (hpub : doCalls n s1 [.publishProof] a1 = some (some (s2, a2)))
    (hinv : PInvMk s) :
    PInvMk s2 ∧ (∃ e, s2.symtab = s.symtab ++ e) ∧ s.claims.length = s2.claims.length + 1 := by
  have hrel := hinv.rel (fun nm => s2.symtab.idxOf nm)
  have hstep := stepM _ ax _ hpf hrun hpub hrel (agree_idxOf s2.symtab)
  have hrel2 := hstep.relM hrel
  obtain ⟨c0, rest, hcl, hcl2, _, _, hext, _⟩ := hstep
  exact ⟨hrel2.inv, hext, by rw [hcl, hcl2]; rfl⟩

theorem proofsM_ext {M : PModule} {n : Nat} :
    ∀ (pfs : List Pf) (s : PySt) (acc : List Call) (s' : PySt) (a' : List Call),
    PModule.executeFull.proofs {} M n s acc pfs = some (some (s', a')) →
    (∀ pf ∈ pfs, PfOK pf) → PInvMk s → ∃ e, s'.symtab = s.symtab ++ e := by
  intro pfs
  induction pfs with
  | nil =>
    intro s acc s' a' h _ _
    simp only [PModule.executeFull.proofs, Option.some.injEq, Prod.mk.injEq] at h
    obtain ⟨rfl, rfl⟩ := h
    exact ⟨[], by simp⟩
  | cons pf r ih =>
    intro s acc s' a' h hpfs hinv
    obtain ⟨s1, a1, c, s2, a2, hrun, hpub, hrest⟩ := proofs_cons_inv h
    obtain ⟨hinv2, ⟨e1, he1⟩, _⟩ := stepM_ext M.axiomsOf (hpfs pf (by simp)) hrun hpub hinv
    obtain ⟨e2, he2⟩ := ih s2 a2 s' a' hrest (fun x hx => hpfs x (List.mem_cons_of_mem _ hx)) hinv2
    exact ⟨e1 ++ e2, by rw [he2, he1, List.append_assoc]⟩

/-- the proof loop: every claim is discharged -/
theorem proofsM {M : PModule} {n : Nat} (ρ : Nat → Nat) :
    ∀ (pfs : List Pf) (s : PySt) (acc : List Call) (s' : PySt) (a' : List Call) (m : St),
    PModule.executeFull.proofs {} M n s acc pfs = some (some (s', a')) →
    (∀ pf ∈ pfs, PfOK pf) → PRelMk ρ s m → Agree ρ s'.symtab → s.claims.length = pfs.length →
    s'.claims = [] ∧ ∃ cs is m', a' = acc ++ cs ∧ Sg n s m cs s' m' is [] ∧ m'.claims = [] := by
  intro pfs
  induction pfs with
  | nil =>
    intro s acc s' a' m h _ hrel _ hlen
    simp only [PModule.executeFull.proofs, Option.some.injEq, Prod.mk.injEq] at h
    obtain ⟨rfl, rfl⟩ := h
    have hcl : s.claims = [] := List.length_eq_zero_iff.mp hlen
    exact ⟨hcl, [], [], m, by simp, Sg.nil s m, by rw [hrel.claims, hcl]; rfl⟩
  | cons pf r ih =>
    intro s acc s' a' m h hpfs hrel hag hlen
    obtain ⟨s1, a1, c, s2, a2, hrun, hpub, hrest⟩ := proofs_cons_inv h
    obtain ⟨hinv2, _, hlen2⟩ := stepM_ext M.axiomsOf (hpfs pf (by simp)) hrun hpub hrel.inv
    obtain ⟨e2, he2⟩ := proofsM_ext r s2 a2 s' a' hrest (fun x hx => hpfs x (List.mem_cons_of_mem _ hx)) hinv2
    have ag2 : Agree ρ s2.symtab := by rw [he2] at hag; exact hag.prefix
    have hstep := stepM ρ M.axiomsOf m (hpfs pf (by simp)) hrun hpub hrel ag2
    have hrel2 := hstep.relM hrel
    obtain ⟨hfin, cs2, is2, m', rfl, G2, hm'⟩ := ih s2 a2 s' a' _ hrest
      (fun x hx => hpfs x (List.mem_cons_of_mem _ hx)) hrel2 hag (by simp at hlen; omega)
    obtain ⟨_, _, _, _, _, _, _, cs1, is1, rfl, G1⟩ := hstep
    exact ⟨hfin, cs1 ++ cs2, is1 ++ is2, m', by simp, by simpa using G1.append G2, hm'⟩

end KMod

namespace KMod
open NPat

/-- **acceptance of a module** (plain serialisation): axioms and claims shaped and machine-OK, one proof per claim,
every proof with patterns in order and instantiations the machine accepts.  `ρ` is any naming of the symbols that names
the symbols of the final table by their position (the number the serializer writes). -/
theorem module_acceptedM {n : Nat} (M : PModule) (s : PySt) (calls : List Call)
    (hgam : ∀ a ∈ M.gammaAxioms, a.SM = true) (hclm : ∀ a ∈ M.claimsOf, a.SM = true)
    (hpfs : ∀ pf ∈ M.proofsOf, PfOK pf) (hlen : M.claimsOf.length = M.proofsOf.length)
    (hex : PModule.executeFull {} n M = some (some (s, calls)))
    (ρ : Nat → Nat) (hag : Agree ρ s.symtab) :
    s.claims = [] ∧ AllSideK n (PySt.init M.claimsOf) calls ∧
    ∃ g c p, PySt.trackAll n (PySt.init M.claimsOf) calls ([], [], []) = some (some (s, (g, c, p))) ∧
      verify g c p = some (M.gammaAxioms.map (fun a => ren ρ a.expand),
        M.claimsOf.reverse.map (fun a => ren ρ a.expand)) := by
  have hsm : ∀ a : NPat, a.SM = true → a.Shape = true ∧ a.MOK = true := by
    intro a h; simpa [NPat.SM] using h
  -- the structure of `executeFull`
  simp only [PModule.executeFull, Option.bind_eq_bind, Option.bind_eq_some_iff] at hex
  obtain ⟨o1, hpub1, hex⟩ := hex
  rcases o1 with _ | ⟨e1, a1⟩
  · simp at hex
  simp only [Option.bind_eq_some_iff] at hex
  obtain ⟨o2, hd1, hex⟩ := hex
  rcases o2 with _ | ⟨e2, a2⟩
  · simp at hex
  simp only [Option.bind_eq_some_iff] at hex
  obtain ⟨o3, hpub2, hex⟩ := hex
  rcases o3 with _ | ⟨e3, a3⟩
  · simp at hex
  simp only [Option.bind_eq_some_iff] at hex
  obtain ⟨o4, hd2, hex⟩ := hex
  rcases o4 with _ | ⟨e4, a4⟩
  · simp at hex
  simp only [] at hex
  obtain ⟨ht1, rfl⟩ := MM.doCalls_one hd1
  obtain ⟨ht2, rfl⟩ := MM.doCalls_one hd2
  obtain ⟨hphe1, he2⟩ := intoClaim_spec n e1 e2 ht1
  obtain ⟨hphe3, he4⟩ := intoProof_spec n e3 e4 ht2
  have hmokG : ∀ a ∈ M.gammaAxioms, a.MOK = true := fun a ha => (hsm a (hgam a ha)).2
  have hmokC : ∀ a ∈ M.claimsOf.reverse, a.MOK = true :=
    fun a ha => (hsm a (hclm a (List.mem_reverse.mp ha))).2
  have hph2 : e2.phase = .claim := by rw [he2]
  -- the facts that do not depend on the naming
  obtain ⟨⟨hmem1, hcl1, _, _⟩, _⟩ := pubAxiomC (fun nm => e1.symtab.idxOf nm) M.gammaAxioms _ [] e1 a1 hpub1
    hmokG rfl (agree_idxOf _)
  obtain ⟨⟨hmem3, hcl3, _, _⟩, _⟩ := pubClaimC (fun nm => e3.symtab.idxOf nm) M.claimsOf.reverse e2 _ e3 a3
    hpub2 hmokC hph2 (agree_idxOf _)
  have hmem4 : e4.memory = M.gammaAxioms.map .proved := by
    rw [he4]; show e3.memory = _
    rw [hmem3, he2]; show e1.memory = _
    rw [hmem1]; simp [PySt.init]
  have hcl4 : e4.claims = M.claimsOf := by
    rw [he4]; show e3.claims = _
    rw [hcl3, he2]; show e1.claims = _
    rw [hcl1]; rfl
  have hinv4 : PInvMk e4 := by
    refine ⟨by rw [he4], ?_, ?_⟩
    · intro t ht
      rw [hmem4] at ht
      obtain ⟨a, ha, rfl⟩ := List.mem_map.mp ht
      exact ⟨a, rfl, (hsm a (hgam a ha)).1⟩
    · intro c hc
      rw [hcl4] at hc
      exact (hsm c (hclm c hc)).1
  -- symbol tables
  obtain ⟨eP, hextP⟩ := proofsM_ext M.proofsOf e4 _ s calls hex hpfs hinv4
  have ag4 : Agree ρ e4.symtab := by have := hag; rw [hextP] at this; exact this.prefix
  have ag3 : Agree ρ e3.symtab := by rw [he4] at ag4; exact ag4
  obtain ⟨⟨_, _, _, eC, hextC⟩, C, hC, SC⟩ := pubClaimC ρ M.claimsOf.reverse e2 _ e3 a3
    hpub2 hmokC hph2 ag3
  have ag2 : Agree ρ e2.symtab := by rw [hextC] at ag3; exact ag3.prefix
  have ag1 : Agree ρ e1.symtab := by rw [he2] at ag2; exact ag2
  obtain ⟨_, G, hG, SG⟩ := pubAxiomC ρ M.gammaAxioms _ [] e1 a1 hpub1
    hmokG rfl ag1
  simp only [List.nil_append] at hG
  subst hG
  subst hC
  -- the machine
  obtain ⟨isG, GG⟩ := SG ⟨[], [], []⟩
  obtain ⟨isC, GC⟩ := SC ⟨[], [] ++ M.gammaAxioms.map fun a => .proved (ren ρ a.expand), []⟩
  have hrel4 : PRelMk ρ e4
      ⟨[], [] ++ M.gammaAxioms.map fun a => .proved (ren ρ a.expand),
        (M.claimsOf.reverse.map fun a => ren ρ a.expand).reverse ++ []⟩ := by
    refine ⟨hinv4.phase, ?_, ?_, hinv4.memS, hinv4.clShape⟩
    · simp [hmem4, List.map_map, Function.comp_def, convR]
    · simp [hcl4, List.map_reverse]
  obtain ⟨hfin, P, isP, m3, hP, GP, hm3⟩ := proofsM ρ M.proofsOf e4 _ s calls _ hex hpfs
    hrel4 hag (by rw [hcl4]; exact hlen)
  have hcalls : calls = a1 ++ .intoClaim :: (C ++ .intoProof :: P) := by
    rw [hP]; simp [List.append_assoc]
  subst hcalls
  refine ⟨hfin, ?_, isG, isC, isP, ?_, ?_⟩
  · -- side conditions
    have sP : AllSideK n e4 P := GP.side
    have sIP : AllSideK n e3 (.intoProof :: P) :=
      ⟨Or.inl (Or.inr rfl), fun t ht => by rw [ht2] at ht; cases ht; exact sP⟩
    have sC : AllSideK n e2 (C ++ .intoProof :: P) := allSideK_append n C _ e2 e3 GC.side GC.reach sIP
    have sIC : AllSideK n e1 (.intoClaim :: (C ++ .intoProof :: P)) :=
      ⟨Or.inl (Or.inl rfl), fun t ht => by rw [ht1] at ht; cases ht; exact sC⟩
    exact allSideK_append n a1 _ _ e1 GG.side GG.reach sIC
  · -- the replay
    have h1 := GG.trackAll ([], [], [])
    rw [trackAll_append_eq a1 _ _ e1 _ _ h1, trackAll_cons_eq _ _ (is := []) rfl ht1, addOut_nil]
    have h2 := GC.trackAll (addOut (PySt.init M.claimsOf).phase ([], [], []) isG)
    rw [trackAll_append_eq C _ _ e3 _ _ h2, trackAll_cons_eq _ _ (is := []) rfl ht2, addOut_nil]
    rw [GP.trackAll]
    have hp4 : e4.phase = .proof := hinv4.phase
    rw [hp4, hph2]
    rfl
  · -- the machine accepts
    have r1 := GG.run
    have r2 := GC.run
    have r3 := GP.run
    rw [hph2] at r2
    rw [hinv4.phase] at r3
    have r1' : run .gamma ⟨[], [], []⟩ isG = some (⟨[], [] ++ M.gammaAxioms.map fun a =>
        .proved (ren ρ a.expand), []⟩, _) := r1
    simp only [verify, r1', r2, r3, hm3, Option.bind_eq_bind, Option.bind_some, List.isEmpty_nil, if_true,
      Option.pure_def]

/-- a machine-OK module satisfies the hypotheses of `module_acceptedM` -/
theorem PModule.MOK.spec {M : PModule} (h : M.MOK = true) :
    (∀ a ∈ M.gammaAxioms, a.SM = true) ∧ (∀ a ∈ M.claimsOf, a.SM = true) ∧
    (∀ pf ∈ M.proofsOf, Pf.MOK M.axiomsOf pf = true) ∧ M.claimsOf.length = M.proofsOf.length := by
  simp only [PModule.MOK, Bool.and_eq_true, List.all_eq_true, beq_iff_eq] at h
  exact ⟨h.1.1.1, h.1.1.2, h.1.2, h.2⟩

theorem Pf.MOK.pfOK {ax : List NPat} {pf : Pf} (h : Pf.MOK ax pf = true) : PfOK pf :=
  ⟨Pf.MOK.patsOK h, Pf.MOK.instOK h⟩

/-- the propositional proof expressions satisfy the side conditions -/
theorem Pf.PF.pfOK : ∀ (pf : Pf), pf.PF = true → PfOK pf ∧ ∀ A, Pf.Sem pf A → A.PFS = true := by
  intro pf
  induction pf with
  | prop1 => intro _; exact ⟨⟨rfl, trivial⟩, fun A h => by cases h; decide⟩
  | prop2 => intro _; exact ⟨⟨rfl, trivial⟩, fun A h => by cases h; decide⟩
  | prop3 => intro _; exact ⟨⟨rfl, trivial⟩, fun A h => by cases h; decide⟩
  | quantifier => intro h; simp [Pf.PF] at h
  | gen p x _ => intro h; simp [Pf.PF] at h
  | loadAxiom a =>
    intro h
    simp only [Pf.PF] at h
    exact ⟨⟨PF.shape a h, trivial⟩, fun A hA => by cases hA; exact PF.pfs a h⟩
  | mp l r ihl ihr =>
    intro h
    simp only [Pf.PF, Bool.and_eq_true] at h
    obtain ⟨⟨hpl, hil⟩, hsl⟩ := ihl h.1
    obtain ⟨⟨hpr, hir⟩, _⟩ := ihr h.2
    refine ⟨⟨by simp [Pf.patsOK, hpl, hpr], hil, hir⟩, ?_⟩
    intro A hA
    cases hA with
    | mp hl' hr' =>
      have := hsl _ hl'
      simp only [Pat.PFS, Bool.and_eq_true] at this
      exact this.2
  | dynInst p δ ih =>
    intro h
    simp only [Pf.PF, Bool.and_eq_true, decide_eq_true_eq] at h
    obtain ⟨⟨hpp, hip⟩, hsp⟩ := ih h.1.1
    refine ⟨⟨by simp [Pf.patsOK, hpp, PFMap.mok δ h.1.2, PFMap.shape δ h.1.2, h.2], hip, ?_⟩, ?_⟩
    · intro _ A hA
      exact Pat.inst_PFS _ _ (hsp A hA)
    · intro A hA
      cases hA with
      | dynInst hp' =>
        exact Py.inst_PFS _ (lookup_PFS δ (fun kv hkv => PF.pfs _ ((PFMap_iff δ).mp h.1.2 kv hkv))) _ (hsp _ hp')

end KMod
