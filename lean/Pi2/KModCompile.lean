import Pi2.KModSeg
/-!
# `Interpreter.pattern` (plain) compiles a pattern into instructions the machine accepts

`NPat.MOK p` ("machine OK", decidable): every check the machine makes while the instructions of `p` run succeeds —
positivity under `mu`, well-formed metavariables, meta-headed substitution nodes that are not trivial, and at every
notation node the constraint checks of `instantiate` on the plugs (distinct keys).  No `Shape` condition: constrained
metavariables are allowed.

`pattern_compiles`: the calls `Interpreter.pattern p` makes (no memoisation) push `p` on the tracker; the instructions
written for them push `ren ρ p.expand` on the machine, for every `ρ` that agrees with the symbol table afterwards;
every call satisfies `SideK`.
-/
set_option linter.unusedSimpArgs false
set_option linter.unusedVariables false
open Pat PySt

namespace NPat

mutual
def MOK : NPat → Bool
  | .evar _ => true | .svar _ => true | .sym _ => true
  | .imp l r => l.MOK && r.MOK
  | .app l r => l.MOK && r.MOK
  | .ex _ p => p.MOK
  | .mu X p => p.MOK && p.expand.pos X
  | .mv _ ef _ _ _ hs => !(hs.any (ef.contains ·))
  | .esub q x plug =>
      q.isMetaHead && q.MOK && plug.MOK && !(plug.expand == Pat.evar x) && !(q.expand.eFresh x)
  | .ssub q X plug =>
      q.isMetaHead && q.MOK && plug.MOK && !(plug.expand == Pat.svar X) && !(q.expand.sFresh X)
  | .inst q m =>
      q.MOK && MOKMap m && decide ((m.map (·.1)).Nodup) &&
        (Pat.inst (Py.lookup (expand.expandMap m)) q.expand).isSome
def MOKMap : List (Nat × NPat) → Bool
  | [] => true
  | (_, v) :: r => v.MOK && MOKMap r
end

theorem MOKMap_iff (m : List (Nat × NPat)) : MOKMap m = true ↔ ∀ kv ∈ m, kv.2.MOK = true := by
  induction m with
  | nil => simp [MOKMap]
  | cons kv r ih => obtain ⟨k, v⟩ := kv; simp [MOKMap, ih]

theorem MOKMap_vals {m : List (Nat × NPat)} (h : MOKMap m = true) : ∀ v ∈ m.map (·.2), v.MOK = true := by
  intro v hv
  obtain ⟨kv, hkv, rfl⟩ := List.mem_map.mp hv
  exact (MOKMap_iff m).mp h kv hkv

end NPat

namespace KMod
open NPat

/-! ## frames -/

/-- `top` was pushed, nothing else changed but the symbol table, which grew -/
structure Pushed (s s' : PySt) (top : List (TTerm × Bool)) : Prop where
  stack : s'.stack = top ++ s.stack
  memory : s'.memory = s.memory
  claims : s'.claims = s.claims
  phase : s'.phase = s.phase
  symtab : ∃ e, s'.symtab = s.symtab ++ e

theorem Pushed.refl (s : PySt) : Pushed s s [] := ⟨rfl, rfl, rfl, rfl, ⟨[], by simp⟩⟩

theorem Pushed.trans {s s1 s2 : PySt} {t1 t2 : List (TTerm × Bool)} (h1 : Pushed s s1 t1)
    (h2 : Pushed s1 s2 t2) : Pushed s s2 (t2 ++ t1) := by
  obtain ⟨e1, he1⟩ := h1.symtab
  obtain ⟨e2, he2⟩ := h2.symtab
  exact ⟨by rw [h2.stack, h1.stack, List.append_assoc], h2.memory.trans h1.memory,
    h2.claims.trans h1.claims, h2.phase.trans h1.phase, ⟨e1 ++ e2, by rw [he2, he1, List.append_assoc]⟩⟩

/-- the consumed top entries are replaced by one -/
theorem Pushed.replace {s s2 : PySt} {top : List (TTerm × Bool)} (h : Pushed s s2 top) (e : TTerm × Bool) :
    Pushed s { s2 with stack := e :: s.stack } [e] :=
  ⟨rfl, h.memory, h.claims, h.phase, h.symtab⟩

theorem Pushed.agree {ρ : Nat → Nat} {s s' : PySt} {top : List (TTerm × Bool)} (h : Pushed s s' top)
    (ha : Agree ρ s'.symtab) : Agree ρ s.symtab := by
  obtain ⟨e, he⟩ := h.symtab
  rw [he] at ha
  exact ha.prefix

/-- the machine with patterns pushed (head = top) -/
def mpush (m : St) (ps : List Pat) : St := { m with stack := ps.map Term.pat ++ m.stack }

@[simp] theorem mpush_nil (m : St) : mpush m [] = m := rfl
theorem mpush_mpush (m : St) (a b : List Pat) : mpush (mpush m a) b = mpush m (b ++ a) := by
  simp [mpush, List.append_assoc]

theorem sideK_mk (s : PySt) (c : Call) (h1 : SideCond s c) (h2 : touchesResidue s c = false)
    (hk : ∀ keys, c ≠ .instantiate keys ∧ c ≠ .instantiatePattern keys) : SideK s c :=
  ⟨h1, h2, fun keys e => by rcases e with e | e; exact absurd e (hk keys).1; exact absurd e (hk keys).2⟩

/-- one call made through `doCalls`, with what the serializer writes and the machine does -/
theorem call_sg {n k : Nat} (hk : k ≤ n) {s s' : PySt} {c : Call} {acc a' : List Call} {m m1 : St}
    {i : Instr} {j : Option Pat}
    (h : doCalls k s [c] acc = some (some (s', a')))
    (he : emit1 n s c = some (some [i])) (hs : step s.phase m i = some (m1, j))
    (hp : s'.phase = s.phase) (hside : SideK s c) :
    a' = acc ++ [c] ∧ Sg n s m [c] s' m1 [i] j.toList := by
  obtain ⟨ht, rfl⟩ := MM.doCalls_one h
  exact ⟨rfl, Sg.single (PySt.track1_mono hk _ _ _ ht) he hs hp hside⟩

theorem popPats_pats (l : List Pat) (rest : List Term) :
    popPats l.length (l.map Term.pat ++ rest) = some (l, rest) := by
  induction l with
  | nil => simp [popPats]
  | cons p l ih => simp [popPats, ih]

end KMod

namespace KMod
open NPat

/-! ## the compilation of a pattern -/

def PatC (n : Nat) (ρ : Nat → Nat) (k : Nat) : Prop :=
  ∀ s p acc s' a', patternF {} k s p acc = some (some (s', a')) → p.MOK = true → Agree ρ s'.symtab →
    Pushed s s' [entry p] ∧ ∃ cs, a' = acc ++ cs ∧
      ∀ m, ∃ is, Sg n s m cs s' (mpush m [ren ρ p.expand]) is []

def ListC (n : Nat) (ρ : Nat → Nat) (k : Nat) : Prop :=
  ∀ s ps acc s' a', patternF.patternListF {} k s ps acc = some (some (s', a')) →
    (∀ p ∈ ps, p.MOK = true) → Agree ρ s'.symtab →
    Pushed s s' (ps.reverse.map entry) ∧ ∃ cs, a' = acc ++ cs ∧
      ∀ m, ∃ is, Sg n s m cs s' (mpush m (ps.reverse.map fun p => ren ρ p.expand)) is []

theorem touches_push0 (s : PySt) (c : Call) (h : c.arity = 0) : touchesResidue s c = false := by
  simp [touchesResidue, h]

/-- a call that pushes one pattern and needs nothing -/
theorem leafC {n k : Nat} (hk : k ≤ n) (ρ : Nat → Nat) {s s' : PySt} {c : Call} {acc a' : List Call}
    (p : NPat) (i : Instr)
    (h : doCalls k s [c] acc = some (some (s', a')))
    (hpush : ∀ n', track1 n' s c = some (some (s.push (.pat p))))
    (he : emit1 n s c = some (some [i]))
    (hs : ∀ m : St, step s.phase m i = some (mpush m [ren ρ p.expand], none))
    (hsc : SideCond s c) (har : c.arity = 0)
    (hkk : ∀ keys, c ≠ .instantiate keys ∧ c ≠ .instantiatePattern keys) :
    Pushed s s' [entry p] ∧ ∃ cs, a' = acc ++ cs ∧
      ∀ m, ∃ is, Sg n s m cs s' (mpush m [ren ρ p.expand]) is [] := by
  have ht := (MM.doCalls_one h).1
  rw [hpush k] at ht
  simp only [Option.some.injEq] at ht
  subst ht
  refine ⟨⟨rfl, rfl, rfl, rfl, ⟨[], by simp [PySt.push]⟩⟩, [c], (MM.doCalls_one h).2, ?_⟩
  intro m
  exact ⟨[i], (call_sg hk h he (hs m) rfl (sideK_mk _ _ hsc (touches_push0 _ _ har) hkk)).2⟩

end KMod

namespace KMod
open NPat

/-- the result of a compilation, as a proposition -/
def CompOK (n : Nat) (ρ : Nat → Nat) (s : PySt) (p : NPat) (acc : List Call) (s' : PySt) (a' : List Call) : Prop :=
  Pushed s s' [entry p] ∧ ∃ cs, a' = acc ++ cs ∧
    ∀ m, ∃ is, Sg n s m cs s' (mpush m [ren ρ p.expand]) is []

theorem symtab_of_track1 {k : Nat} {s s' : PySt} {c : Call} (hc : ∀ nm, c ≠ .symbol nm)
    (h : track1 k s c = some (some s')) : s'.symtab = s.symtab := MM.track1_symtab k s s' c hc h

/-- two sub-patterns, then one call that replaces them by `res` -/
theorem twoC {n k : Nat} (hk : k ≤ n) (ρ : Nat → Nat) (ihP : PatC n ρ k)
    {s s' : PySt} {acc a' : List Call} (a b res : NPat) (c : Call) (i : Instr)
    (ha : a.MOK = true) (hb : b.MOK = true) (hag : Agree ρ s'.symtab)
    (hc : ∀ nm, c ≠ .symbol nm)
    (h : (andThen (patternF {} k s a acc) fun s1 a1 =>
        andThen (patternF {} k s1 b a1) fun s2 a2 => doCalls k s2 [c] a2) = some (some (s', a')))
    (htr : ∀ (s2 : PySt) st, s2.stack = entry b :: entry a :: st →
      ∀ n', track1 n' s2 c = some (some { s2 with stack := entry res :: st }))
    (he : ∀ s2 : PySt, emit1 n s2 c = some (some [i]))
    (hs : ∀ (ph : Phase) (m : St),
      step ph (mpush m [ren ρ b.expand, ren ρ a.expand]) i = some (mpush m [ren ρ res.expand], none))
    (hsc : ∀ (s2 : PySt) st, s2.stack = entry b :: entry a :: st → SideCond s2 c)
    (har : c.arity = 2)
    (hkk : ∀ keys, c ≠ .instantiate keys ∧ c ≠ .instantiatePattern keys) :
    CompOK n ρ s res acc s' a' := by
  rcases andThen_eq_some _ _ _ h with ⟨_, e⟩ | ⟨s1, a1, h1, h⟩
  · cases e
  rcases andThen_eq_some _ _ _ h with ⟨_, e⟩ | ⟨s2, a2, h2, h⟩
  · cases e
  obtain ⟨ht, rfl⟩ := MM.doCalls_one h
  have hsym : s'.symtab = s2.symtab := symtab_of_track1 hc ht
  have ag2 : Agree ρ s2.symtab := hsym ▸ hag
  obtain ⟨P2, cs2, rfl, S2⟩ := ihP s1 b a1 s2 a2 h2 hb ag2
  have ag1 := P2.agree ag2
  obtain ⟨P1, cs1, rfl, S1⟩ := ihP s a acc s1 a1 h1 ha ag1
  have P12 := P1.trans P2
  have hstk : s2.stack = entry b :: entry a :: s.stack := by simpa using P12.stack
  rw [htr s2 s.stack hstk k] at ht
  simp only [Option.some.injEq] at ht
  subst ht
  refine ⟨P12.replace _, cs1 ++ cs2 ++ [c], by simp, ?_⟩
  intro m
  obtain ⟨is1, G1⟩ := S1 m
  obtain ⟨is2, G2⟩ := S2 (mpush m [ren ρ a.expand])
  rw [mpush_mpush] at G2
  have G3 : Sg n s2 (mpush m [ren ρ b.expand, ren ρ a.expand]) [c]
      { s2 with stack := entry res :: s.stack } (mpush m [ren ρ res.expand]) [i] (none : Option Pat).toList :=
    Sg.single (htr s2 s.stack hstk n) (he s2) (hs _ m) rfl
      (sideK_mk _ _ (hsc s2 s.stack hstk)
        (by simp [touchesResidue, har, hstk, entry]) hkk)
  refine ⟨is1 ++ is2 ++ [i], ?_⟩
  have := (G1.append G2).append G3
  simpa using this

/-- one sub-pattern, then one call that replaces it by `res` -/
theorem oneC {n k : Nat} (hk : k ≤ n) (ρ : Nat → Nat) (ihP : PatC n ρ k)
    {s s' : PySt} {acc a' : List Call} (a res : NPat) (c : Call) (i : Instr)
    (ha : a.MOK = true) (hag : Agree ρ s'.symtab)
    (hc : ∀ nm, c ≠ .symbol nm)
    (h : (andThen (patternF {} k s a acc) fun s1 a1 => doCalls k s1 [c] a1) = some (some (s', a')))
    (htr : ∀ (s2 : PySt) st, s2.stack = entry a :: st →
      ∀ n', track1 n' s2 c = some (some { s2 with stack := entry res :: st }))
    (he : ∀ s2 : PySt, emit1 n s2 c = some (some [i]))
    (hs : ∀ (ph : Phase) (m : St),
      step ph (mpush m [ren ρ a.expand]) i = some (mpush m [ren ρ res.expand], none))
    (hsc : ∀ (s2 : PySt) st, s2.stack = entry a :: st → SideCond s2 c)
    (har : c.arity = 1)
    (hkk : ∀ keys, c ≠ .instantiate keys ∧ c ≠ .instantiatePattern keys) :
    CompOK n ρ s res acc s' a' := by
  rcases andThen_eq_some _ _ _ h with ⟨_, e⟩ | ⟨s1, a1, h1, h⟩
  · cases e
  obtain ⟨ht, rfl⟩ := MM.doCalls_one h
  have hsym : s'.symtab = s1.symtab := symtab_of_track1 hc ht
  have ag1 : Agree ρ s1.symtab := hsym ▸ hag
  obtain ⟨P1, cs1, rfl, S1⟩ := ihP s a acc s1 a1 h1 ha ag1
  have hstk : s1.stack = entry a :: s.stack := by simpa using P1.stack
  rw [htr s1 s.stack hstk k] at ht
  simp only [Option.some.injEq] at ht
  subst ht
  refine ⟨P1.replace _, cs1 ++ [c], by simp, ?_⟩
  intro m
  obtain ⟨is1, G1⟩ := S1 m
  have G3 : Sg n s1 (mpush m [ren ρ a.expand]) [c]
      { s1 with stack := entry res :: s.stack } (mpush m [ren ρ res.expand]) [i] (none : Option Pat).toList :=
    Sg.single (htr s1 s.stack hstk n) (he s1) (hs _ m) rfl
      (sideK_mk _ _ (hsc s1 s.stack hstk)
        (by simp [touchesResidue, har, hstk, entry]) hkk)
  refine ⟨is1 ++ [i], ?_⟩
  have := G1.append G3
  simpa using this

end KMod

namespace KMod
open NPat

/-! ## the machine's `Instantiate` on renamed plugs -/

theorem lookup_ren_eq (ρ : Nat → Nat) (keys : List Nat) (vals : List NPat) (hnd : keys.Nodup)
    (hlen : vals.length = keys.length) :
    lookupPlug keys.reverse (vals.reverse.map fun p => ren ρ p.expand)
      = fun k => (Py.lookup (NPat.expand.expandMap (keys.zip vals)) k).map (ren ρ) := by
  funext k
  have e : (vals.reverse.map fun p => ren ρ p.expand) = ((vals.map NPat.expand).map (ren ρ)).reverse := by
    simp [List.map_reverse, List.map_map, Function.comp_def]
  rw [e, lookupPlug_reverse keys _ k hnd (by simp [hlen]), lookupPlug_ren, lookupPlug_zip]

theorem inst_plugs (ρ : Nat → Nat) (keys : List Nat) (vals : List NPat) (a r : Pat) (hnd : keys.Nodup)
    (hlen : vals.length = keys.length)
    (h : Pat.inst (Py.lookup (NPat.expand.expandMap (keys.zip vals))) a = some r) :
    Pat.inst (lookupPlug keys.reverse (vals.reverse.map fun p => ren ρ p.expand)) (ren ρ a)
      = some (ren ρ r) := by
  rw [lookup_ren_eq ρ keys vals hnd hlen, inst_ren, h]
  rfl

theorem popPats_plugs (ρ : Nat → Nat) (keys : List Nat) (vals : List NPat) (rest : List Term)
    (hlen : vals.length = keys.length) :
    popPats keys.reverse.length ((vals.reverse.map fun p => ren ρ p.expand).map Term.pat ++ rest)
      = some (vals.reverse.map fun p => ren ρ p.expand, rest) := by
  have : keys.reverse.length = (vals.reverse.map fun p => ren ρ p.expand).length := by simp [hlen]
  rw [this]
  exact popPats_pats _ rest

/-- `Instantiate` on a pattern over its plugs -/
theorem step_inst_pat (ρ : Nat → Nat) (ph : Phase) (m0 : St) (a r : Pat) (keys : List Nat) (vals : List NPat)
    (hnd : keys.Nodup) (hlen : vals.length = keys.length)
    (h : Pat.inst (Py.lookup (NPat.expand.expandMap (keys.zip vals))) a = some r) :
    step ph (mpush m0 (ren ρ a :: vals.reverse.map fun p => ren ρ p.expand)) (.instantiate keys.reverse)
      = some (mpush m0 [ren ρ r], none) := by
  have hp := popPats_plugs ρ keys vals m0.stack hlen
  have hi := inst_plugs ρ keys vals a r hnd hlen h
  simp only [step, mpush, List.map_cons, List.cons_append, hp, hi, Option.bind_eq_bind, Option.bind_some,
    Option.pure_def, List.map_nil, List.nil_append]

/-- `Instantiate` on a proved pattern over its plugs -/
theorem step_inst_proved (ρ : Nat → Nat) (ph : Phase) (m0 : St) (a r : Pat) (keys : List Nat) (vals : List NPat)
    (hnd : keys.Nodup) (hlen : vals.length = keys.length)
    (h : Pat.inst (Py.lookup (NPat.expand.expandMap (keys.zip vals))) a = some r) :
    step ph { m0 with stack := .proved (ren ρ a) ::
        ((vals.reverse.map fun p => ren ρ p.expand).map Term.pat ++ m0.stack) } (.instantiate keys.reverse)
      = some ({ m0 with stack := .proved (ren ρ r) :: m0.stack }, none) := by
  have hp := popPats_plugs ρ keys vals m0.stack hlen
  have hi := inst_plugs ρ keys vals a r hnd hlen h
  simp only [step, hp, hi, Option.bind_eq_bind, Option.bind_some, Option.pure_def]

end KMod

namespace KMod
open NPat

theorem takePlugs_vals (vals : List NPat) (rest : List (TTerm × Bool)) :
    takePlugs vals.length (vals.reverse.map entry ++ rest) = some (vals, rest) := by
  have := takePlugs_rev vals.reverse rest
  simpa using this

/-- side condition of an instantiation whose term and plugs are known -/
theorem sideK_inst (s2 : PySt) (c : Call) (keys : List Nat) (vals : List NPat) (t : TTerm)
    (rest : List (TTerm × Bool))
    (hc : c = .instantiate keys ∨ c = .instantiatePattern keys) (hnd : keys.Nodup)
    (hlen : vals.length = keys.length)
    (hstk : s2.stack = (t, false) :: (vals.reverse.map entry ++ rest))
    (hinst : (Pat.inst (Py.lookup (NPat.expand.expandMap (keys.zip vals))) t.body.expand).isSome = true) :
    SideK s2 c := by
  have hres : ((vals.reverse.map entry ++ rest).take keys.length).any (·.2) = false := by
    have := take_entry vals.reverse rest
    simpa [hlen] using this
  have hsc : ∀ a b st0 plugs st', s2.stack = (a, b) :: st0 →
      PySt.takePlugs keys.length st0 = some (plugs, st') →
      (Pat.inst (Py.lookup (NPat.expand.expandMap (keys.zip plugs))) a.body.expand).isSome = true := by
    intro a b st0 plugs st' hs' htp
    rw [hstk] at hs'
    cases hs'
    rw [← hlen, takePlugs_vals] at htp
    cases htp
    exact hinst
  have htr : (s2.stack.take (keys.length + 1)).any (·.2) = false := by
    rw [hstk, List.take_succ_cons, List.any_cons, hres]; rfl
  rcases hc with rfl | rfl
  · exact ⟨hsc, htr, (fun _ e => by rcases e with e | e <;> cases e; exact hnd)⟩
  · exact ⟨hsc, htr, (fun _ e => by rcases e with e | e <;> cases e; exact hnd)⟩

/-- a notation node: the values, the body, `instantiate_pattern` -/
theorem instC {n k : Nat} (hk : k ≤ n) (ρ : Nat → Nat) (ihP : PatC n ρ k) (ihL : ListC n ρ k)
    {s s' : PySt} {acc a' : List Call} (q : NPat) (m : List (Nat × NPat))
    (hq : q.MOK = true) (hm : MOKMap m = true) (hnd : (m.map (·.1)).Nodup)
    (hinst : (Pat.inst (Py.lookup (NPat.expand.expandMap m)) q.expand).isSome = true)
    (hag : Agree ρ s'.symtab)
    (h : (andThen (patternF.patternListF {} k s (m.map (·.2)) acc) fun s1 a1 =>
        andThen (patternF {} k s1 q a1) fun s2 a2 =>
          doCalls k s2 [.instantiatePattern (m.map (·.1))] a2) = some (some (s', a'))) :
    CompOK n ρ s (.inst q m) acc s' a' := by
  rcases andThen_eq_some _ _ _ h with ⟨_, e⟩ | ⟨s1, a1, h1, h⟩
  · cases e
  rcases andThen_eq_some _ _ _ h with ⟨_, e⟩ | ⟨s2, a2, h2, h⟩
  · cases e
  obtain ⟨ht, rfl⟩ := MM.doCalls_one h
  have hsym : s'.symtab = s2.symtab := symtab_of_track1 (by simp) ht
  have ag2 : Agree ρ s2.symtab := hsym ▸ hag
  obtain ⟨P2, cs2, rfl, S2⟩ := ihP s1 q a1 s2 a2 h2 hq ag2
  have ag1 := P2.agree ag2
  obtain ⟨P1, cs1, rfl, S1⟩ := ihL s (m.map (·.2)) acc s1 a1 h1 (MOKMap_vals hm) ag1
  have P12 := P1.trans P2
  have hstk : s2.stack = (.pat q, false) :: ((m.map (·.2)).reverse.map entry ++ s.stack) := by
    simpa [entry] using P12.stack
  have hlen : (m.map (·.2)).length = (m.map (·.1)).length := by simp
  have htr : ∀ n', track1 n' s2 (.instantiatePattern (m.map (·.1)))
      = some (some { s2 with stack := entry (.inst q m) :: s.stack }) := by
    intro n'
    have := takePlugs_vals (m.map (·.2)) s.stack
    rw [hlen] at this
    simp only [track1, hstk, this, zip_keys_vals, entry]
  rw [htr k] at ht
  simp only [Option.some.injEq] at ht
  subst ht
  have hz : (m.map (·.1)).zip (m.map (·.2)) = m := zip_keys_vals m
  obtain ⟨r, hr⟩ := Option.isSome_iff_exists.mp hinst
  have hre : r = (NPat.inst q m).expand := by
    have := C11.py_inst_eq_rust _ _ _ hr
    simp only [NPat.expand]
    exact this.symm
  refine ⟨P12.replace _, cs1 ++ cs2 ++ [.instantiatePattern (m.map (·.1))], by simp, ?_⟩
  intro m0
  obtain ⟨is1, G1⟩ := S1 m0
  obtain ⟨is2, G2⟩ := S2 (mpush m0 ((m.map (·.2)).reverse.map fun p => ren ρ p.expand))
  rw [mpush_mpush] at G2
  have hstep := step_inst_pat ρ s2.phase m0 q.expand r (m.map (·.1)) (m.map (·.2)) hnd hlen (by rw [hz]; exact hr)
  rw [hre] at hstep
  have G3 : Sg n s2 (mpush m0 ([ren ρ q.expand] ++ (m.map (·.2)).reverse.map fun p => ren ρ p.expand))
      [.instantiatePattern (m.map (·.1))]
      { s2 with stack := entry (.inst q m) :: s.stack } (mpush m0 [ren ρ (NPat.inst q m).expand])
      [.instantiate (m.map (·.1)).reverse] (none : Option Pat).toList :=
    Sg.single (htr n) rfl hstep rfl
      (sideK_inst s2 _ (m.map (·.1)) (m.map (·.2)) (.pat q) s.stack (Or.inr rfl) hnd hlen hstk
        (by rw [hz]; exact hinst))
  refine ⟨is1 ++ is2 ++ [.instantiate (m.map (·.1)).reverse], ?_⟩
  have := (G1.append G2).append G3
  simpa using this

end KMod

namespace KMod
open NPat

theorem buildC {n k : Nat} (hk : k ≤ n) (ρ : Nat → Nat) (ihP : PatC n ρ k) (ihL : ListC n ρ k)
    (s : PySt) (p : NPat) (acc : List Call) (s' : PySt) (a' : List Call)
    (h : buildF {} k s p acc = some (some (s', a'))) (hp : p.MOK = true) (hag : Agree ρ s'.symtab) :
    CompOK n ρ s p acc s' a' := by
  cases p with
  | evar x =>
    simp only [buildF] at h
    exact leafC hk ρ (.evar x) (.evar x) h (fun _ => rfl) rfl
      (fun m => by simp [step, mpush, NPat.expand, ren]) (by simp [SideCond]) rfl (by simp)
  | svar x =>
    simp only [buildF] at h
    exact leafC hk ρ (.svar x) (.svar x) h (fun _ => rfl) rfl
      (fun m => by simp [step, mpush, NPat.expand, ren]) (by simp [SideCond]) rfl (by simp)
  | sym nm =>
    simp only [buildF] at h
    obtain ⟨ht, rfl⟩ := MM.doCalls_one h
    simp only [track1, Option.some.injEq] at ht
    subst ht
    have hid : symId s.symtab nm = ρ nm := symId_agree s.symtab nm hag
    refine ⟨⟨rfl, rfl, rfl, rfl, ?_⟩, [.symbol nm], rfl, ?_⟩
    · show ∃ e, (if s.symtab.contains nm then s.symtab else s.symtab ++ [nm]) = s.symtab ++ e
      split
      · exact ⟨[], by simp⟩
      · exact ⟨[nm], rfl⟩
    · intro m
      refine ⟨[.sym (symId s.symtab nm)], ?_⟩
      have := call_sg (n := n) hk h (m := m) (m1 := mpush m [ren ρ (NPat.sym nm).expand])
        (i := .sym (symId s.symtab nm)) (j := none) rfl
        (by simp [step, mpush, NPat.expand, ren, hid]) rfl
        (sideK_mk _ _ (by simp [SideCond]) (touches_push0 _ _ rfl) (by simp))
      exact this.2
  | mv id ef sf ps ns hs =>
    simp only [buildF] at h
    simp only [MOK, Bool.not_eq_true'] at hp
    by_cases hall : (ef.isEmpty && sf.isEmpty && ps.isEmpty && ns.isEmpty && hs.isEmpty) = true
    · have he : ∀ s : PySt, emit1 n s (.metavar id ef sf ps ns hs) = some (some [.cleanmv id]) := by
        intro s; simp only [emit1, hall, if_true]
      simp only [Bool.and_eq_true, List.isEmpty_iff] at hall
      obtain ⟨⟨⟨⟨rfl, rfl⟩, rfl⟩, rfl⟩, rfl⟩ := hall
      exact leafC hk ρ (.mv id [] [] [] [] []) (.cleanmv id) h (fun _ => rfl) (he s)
        (fun m => by simp [step, mpush, NPat.expand, ren]) (by simp [SideCond]) rfl (by simp)
    · have he : ∀ s : PySt, emit1 n s (.metavar id ef sf ps ns hs)
          = some (some [.metavar id ef sf ps ns hs]) := by
        intro s; simp only [emit1, hall, Bool.false_eq_true, if_false]
      have hp' : ∀ x ∈ hs, x ∉ ef := by simpa using hp
      exact leafC hk ρ (.mv id ef sf ps ns hs) (.metavar id ef sf ps ns hs) h (fun _ => rfl) (he s)
        (fun m => by simpa [step, mpush, NPat.expand, ren] using hp')
        (by simpa [SideCond] using hp') rfl (by simp)
  | imp l r =>
    simp only [buildF] at h
    simp only [MOK, Bool.and_eq_true] at hp
    exact twoC hk ρ ihP l r (.imp l r) .implies .implies hp.1 hp.2 hag (by simp) h
      (fun s2 st hstk n' => by simp [track1, hstk, entry]) (fun _ => rfl)
      (fun ph m => by simp [step, mpush, NPat.expand, ren])
      (fun _ _ _ => by simp [SideCond]) rfl (by simp)
  | app l r =>
    simp only [buildF] at h
    simp only [MOK, Bool.and_eq_true] at hp
    exact twoC hk ρ ihP l r (.app l r) .app .app hp.1 hp.2 hag (by simp) h
      (fun s2 st hstk n' => by simp [track1, hstk, entry]) (fun _ => rfl)
      (fun ph m => by simp [step, mpush, NPat.expand, ren])
      (fun _ _ _ => by simp [SideCond]) rfl (by simp)
  | ex x q =>
    simp only [buildF] at h
    simp only [MOK] at hp
    exact oneC hk ρ ihP q (.ex x q) (.ex x) (.ex x) hp hag (by simp) h
      (fun s2 st hstk n' => by simp [track1, hstk, entry]) (fun _ => rfl)
      (fun ph m => by simp [step, mpush, NPat.expand, ren])
      (fun _ _ _ => by simp [SideCond]) rfl (by simp)
  | mu X q =>
    simp only [buildF] at h
    simp only [MOK, Bool.and_eq_true] at hp
    refine oneC hk ρ ihP q (.mu X q) (.mu X) (.mu X) hp.1 hag (by simp) h
      (fun s2 st hstk n' => by simp [track1, hstk, entry]) (fun _ => rfl)
      (fun ph m => by simp [step, mpush, NPat.expand, ren, hp.2]) ?_ rfl (by simp)
    intro s2 st hstk
    simp only [SideCond]
    intro p b st' hs'
    rw [hstk] at hs'
    cases hs'
    exact hp.2
  | esub q x plug =>
    simp only [buildF] at h
    simp only [MOK, Bool.and_eq_true, Bool.not_eq_true'] at hp
    obtain ⟨⟨⟨⟨hmh, hq⟩, hplug⟩, hne⟩, hfr⟩ := hp
    have hme : q.expand.isMeta = true := NPat.isMeta_expand q (by rw [← isMetaHead_eq]; exact hmh)
    refine twoC hk ρ ihP plug q (.esub q x plug) (.esubst x) (.esubst x) hplug hq hag (by simp) h
      (fun s2 st hstk n' => by simp [track1, hstk, entry, hmh]) (fun _ => rfl)
      (fun ph m => by simp [step, mpush, NPat.expand, ren, hme, hne, hfr]) ?_ rfl (by simp)
    intro s2 st hstk
    simp only [SideCond]
    intro p b pl b' st' hs'
    rw [hstk] at hs'
    cases hs'
    exact ⟨hne, hfr⟩
  | ssub q X plug =>
    simp only [buildF] at h
    simp only [MOK, Bool.and_eq_true, Bool.not_eq_true'] at hp
    obtain ⟨⟨⟨⟨hmh, hq⟩, hplug⟩, hne⟩, hfr⟩ := hp
    have hme : q.expand.isMeta = true := NPat.isMeta_expand q (by rw [← isMetaHead_eq]; exact hmh)
    refine twoC hk ρ ihP plug q (.ssub q X plug) (.ssubst X) (.ssubst X) hplug hq hag (by simp) h
      (fun s2 st hstk n' => by simp [track1, hstk, entry, hmh]) (fun _ => rfl)
      (fun ph m => by simp [step, mpush, NPat.expand, ren, hme, hne, hfr]) ?_ rfl (by simp)
    intro s2 st hstk
    simp only [SideCond]
    intro p b pl b' st' hs'
    rw [hstk] at hs'
    cases hs'
    exact ⟨hne, hfr⟩
  | inst q m =>
    simp only [buildF] at h
    simp only [MOK, Bool.and_eq_true, decide_eq_true_eq] at hp
    obtain ⟨⟨⟨hq, hm⟩, hnd⟩, hinst⟩ := hp
    exact instC hk ρ ihP ihL q m hq hm hnd hinst hag h

theorem patC_step {n k : Nat} (hk : k + 1 ≤ n) (ρ : Nat → Nat) (ihP : PatC n ρ k) (ihL : ListC n ρ k) :
    PatC n ρ (k + 1) := by
  intro s p acc s' a' h hp hag
  rw [patternF_succ] at h
  simp only [memoHitF, Option.bind_some, Bool.false_eq_true, if_false] at h
  rcases andThen_eq_some _ _ _ h with ⟨_, e⟩ | ⟨s1, a1, hb, h⟩
  · cases e
  simp only [saveF, Option.some.injEq, Prod.mk.injEq] at h
  obtain ⟨rfl, rfl⟩ := h
  exact buildC (by omega) ρ ihP ihL s p acc s1 a1 hb hp hag

theorem listC_step {n k : Nat} (ρ : Nat → Nat) (ihP : PatC n ρ k) (ihL : ListC n ρ k) :
    ListC n ρ (k + 1) := by
  intro s ps acc s' a' h hps hag
  cases ps with
  | nil =>
    simp only [patternF.patternListF, Option.some.injEq, Prod.mk.injEq] at h
    obtain ⟨rfl, rfl⟩ := h
    exact ⟨Pushed.refl s, [], by simp, fun m => ⟨[], Sg.nil s m⟩⟩
  | cons p ps =>
    rw [patternListF_cons] at h
    rcases andThen_eq_some _ _ _ h with ⟨_, e⟩ | ⟨s1, a1, h1, h⟩
    · cases e
    obtain ⟨P2, cs2, rfl, S2⟩ := ihL s1 ps a1 s' a' h (fun x hx => hps x (List.mem_cons_of_mem _ hx)) hag
    obtain ⟨P1, cs1, rfl, S1⟩ := ihP s p acc s1 a1 h1 (hps p (by simp)) (P2.agree hag)
    refine ⟨by simpa using P1.trans P2, cs1 ++ cs2, by simp, ?_⟩
    intro m
    obtain ⟨is1, G1⟩ := S1 m
    obtain ⟨is2, G2⟩ := S2 (mpush m [ren ρ p.expand])
    rw [mpush_mpush] at G2
    refine ⟨is1 ++ is2, ?_⟩
    have := G1.append G2
    simpa using this

theorem patC_all (n : Nat) (ρ : Nat → Nat) : ∀ k, k ≤ n → PatC n ρ k ∧ ListC n ρ k := by
  intro k
  induction k with
  | zero =>
    intro _
    constructor
    · intro s p acc s' a' h; simp [patternF] at h
    · intro s ps acc s' a' h; simp [patternF.patternListF] at h
  | succ k ih =>
    intro hk
    obtain ⟨ihP, ihL⟩ := ih (by omega)
    exact ⟨patC_step hk ρ ihP ihL, listC_step ρ ihP ihL⟩

/-- **`Interpreter.pattern` compiles**: the tracker pushes `p`, the machine `ren ρ p.expand` -/
theorem pattern_compiles {n k : Nat} (hk : k ≤ n) (ρ : Nat → Nat) {s : PySt} {p : NPat} {acc : List Call}
    {s' : PySt} {a' : List Call} (h : patternF {} k s p acc = some (some (s', a')))
    (hp : p.MOK = true) (hag : Agree ρ s'.symtab) : CompOK n ρ s p acc s' a' :=
  (patC_all n ρ k hk).1 s p acc s' a' h hp hag

theorem patternList_compiles {n k : Nat} (hk : k ≤ n) (ρ : Nat → Nat) {s : PySt} {ps : List NPat}
    {acc : List Call} {s' : PySt} {a' : List Call}
    (h : patternF.patternListF {} k s ps acc = some (some (s', a')))
    (hp : ∀ p ∈ ps, p.MOK = true) (hag : Agree ρ s'.symtab) :
    Pushed s s' (ps.reverse.map entry) ∧ ∃ cs, a' = acc ++ cs ∧
      ∀ m, ∃ is, Sg n s m cs s' (mpush m (ps.reverse.map fun p => ren ρ p.expand)) is [] :=
  (patC_all n ρ k hk).2 s ps acc s' a' h hp hag

/-! ## the propositional fragment is machine-OK -/

mutual
theorem PF.mok : (p : NPat) → p.PF = true → p.MOK = true
  | .sym _, _ => rfl
  | .mv _ _ _ _ _ _, h => by
    simp only [PF, Bool.and_eq_true, List.isEmpty_iff] at h
    obtain ⟨⟨⟨⟨rfl, rfl⟩, rfl⟩, rfl⟩, rfl⟩ := h
    rfl
  | .imp l r, h => by
    simp only [PF, Bool.and_eq_true] at h
    simp [MOK, PF.mok l h.1, PF.mok r h.2]
  | .app l r, h => by
    simp only [PF, Bool.and_eq_true] at h
    simp [MOK, PF.mok l h.1, PF.mok r h.2]
  | .inst p m, h => by
    have hpfs := PF.pfs _ h
    simp only [PF, Bool.and_eq_true, decide_eq_true_eq] at h
    simp only [MOK, PF.mok p h.1.1, PFMap.mok m h.1.2, h.2, decide_true, Bool.and_self, Bool.true_and]
    exact Pat.inst_PFS _ _ (PF.pfs p h.1.1)
  | .mu _ p, h => by
    simp only [PF, Bool.and_eq_true] at h
    rw [isSV0_eq h.2]
    simp [MOK, NPat.expand, Pat.pos]
  | .evar _, h => by simp [PF] at h
  | .svar _, h => by simp [PF] at h
  | .ex _ _, h => by simp [PF] at h
  | .esub _ _ _, h => by simp [PF] at h
  | .ssub _ _ _, h => by simp [PF] at h
theorem PFMap.mok : (m : List (Nat × NPat)) → PFMap m = true → MOKMap m = true
  | [], _ => rfl
  | (_, v) :: r, h => by
    simp only [PFMap, Bool.and_eq_true] at h
    simp [MOKMap, PF.mok v h.1, PFMap.mok r h.2]
end

end KMod
