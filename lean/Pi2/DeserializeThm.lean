import Pi2.Deserialize
import Pi2.TrackerThm
/-!
# Binary round trip: deserialising a serialised proof replays it (up to notation)
-/
set_option linter.unusedSimpArgs false
set_option linter.unusedVariables false

/-! ## 4. errors are errors -/

theorem deserialize_undecodable (n : Nat) (s : PySt) (bs : List Nat) :
    decode bs = none → PySt.deserialize n s bs = some none := by
  intro h; simp [PySt.deserialize, h]

/-! ## 1. the deserialiser makes the call that was serialised -/

/-- `indexF` without shape assumptions: the index found holds a term that is `==` to `t` -/
theorem indexF_teq (n : Nat) (t : TTerm) (mem : List TTerm) (k i : Nat)
    (h : PySt.indexF n t mem k = some (some i)) :
    ∃ j u, i = k + j ∧ mem[j]? = some u ∧ PySt.teqF n u t = some true := by
  induction mem generalizing k with
  | nil => simp [PySt.indexF] at h
  | cons u r ih =>
    simp only [PySt.indexF, Option.bind_eq_bind, Option.bind_eq_some_iff] at h
    obtain ⟨b, hb, h⟩ := h
    cases b with
    | true =>
      simp only [if_true, Option.pure_def, Option.some.injEq] at h
      subst h
      exact ⟨0, u, rfl, by simp, hb⟩
    | false =>
      simp only [Bool.false_eq_true, if_false] at h
      obtain ⟨j, u', hj, hg, ht⟩ := ih (k + 1) h
      exact ⟨j + 1, u', by omega, by simpa using hg, ht⟩

theorem callOfInstr_emit (n : Nat) (s s' : PySt) (c : Call) (i : Instr) :
    CanonTab s.symtab → (∀ nm, c = .symbol nm → nm ≤ s.symtab.length) →
    c ≠ .intoClaim → c ≠ .intoProof →
    PySt.emit1 n s c = some (some [i]) → PySt.track1 n s c = some (some s') →
    ∃ c', PySt.callOfInstr s i = some c' ∧
      (c' = c ∨ ∃ t t', c = .load t ∧ c' = .load t' ∧ PySt.teqF n t' t = some true) := by
  intro hC hsym hnc hnp he ht
  cases c with
  | evar x =>
    simp only [PySt.emit1, Option.some.injEq, List.cons.injEq, and_true] at he; subst he
    exact ⟨_, rfl, Or.inl rfl⟩
  | svar x =>
    simp only [PySt.emit1, Option.some.injEq, List.cons.injEq, and_true] at he; subst he
    exact ⟨_, rfl, Or.inl rfl⟩
  | symbol nm =>
    simp only [PySt.emit1, Option.some.injEq, List.cons.injEq, and_true] at he; subst he
    rw [(symId_canon s.symtab nm hC (hsym nm rfl)).1]
    exact ⟨_, rfl, Or.inl rfl⟩
  | metavar id ef sf ps ns hs =>
    simp only [PySt.emit1] at he
    split at he
    · next hall =>
      simp only [Bool.and_eq_true, List.isEmpty_iff] at hall
      obtain ⟨⟨⟨⟨rfl, rfl⟩, rfl⟩, rfl⟩, rfl⟩ := hall
      simp only [Option.some.injEq, List.cons.injEq, and_true] at he; subst he
      exact ⟨_, rfl, Or.inl rfl⟩
    · simp only [Option.some.injEq, List.cons.injEq, and_true] at he; subst he
      exact ⟨_, rfl, Or.inl rfl⟩
  | implies =>
    simp only [PySt.emit1, Option.some.injEq, List.cons.injEq, and_true] at he; subst he
    exact ⟨_, rfl, Or.inl rfl⟩
  | app =>
    simp only [PySt.emit1, Option.some.injEq, List.cons.injEq, and_true] at he; subst he
    exact ⟨_, rfl, Or.inl rfl⟩
  | ex x =>
    simp only [PySt.emit1, Option.some.injEq, List.cons.injEq, and_true] at he; subst he
    exact ⟨_, rfl, Or.inl rfl⟩
  | mu x =>
    simp only [PySt.emit1, Option.some.injEq, List.cons.injEq, and_true] at he; subst he
    exact ⟨_, rfl, Or.inl rfl⟩
  | esubst x =>
    simp only [PySt.emit1, Option.some.injEq, List.cons.injEq, and_true] at he; subst he
    exact ⟨_, rfl, Or.inl rfl⟩
  | ssubst x =>
    simp only [PySt.emit1, Option.some.injEq, List.cons.injEq, and_true] at he; subst he
    exact ⟨_, rfl, Or.inl rfl⟩
  | prop1 =>
    simp only [PySt.emit1, Option.some.injEq, List.cons.injEq, and_true] at he; subst he
    exact ⟨_, rfl, Or.inl rfl⟩
  | prop2 =>
    simp only [PySt.emit1, Option.some.injEq, List.cons.injEq, and_true] at he; subst he
    exact ⟨_, rfl, Or.inl rfl⟩
  | prop3 =>
    simp only [PySt.emit1, Option.some.injEq, List.cons.injEq, and_true] at he; subst he
    exact ⟨_, rfl, Or.inl rfl⟩
  | quantifier =>
    simp only [PySt.emit1, Option.some.injEq, List.cons.injEq, and_true] at he; subst he
    exact ⟨_, rfl, Or.inl rfl⟩
  | mp =>
    simp only [PySt.emit1, Option.some.injEq, List.cons.injEq, and_true] at he; subst he
    exact ⟨_, rfl, Or.inl rfl⟩
  | gen x =>
    simp only [PySt.emit1, Option.some.injEq, List.cons.injEq, and_true] at he; subst he
    exact ⟨_, rfl, Or.inl rfl⟩
  | instantiate keys =>
    simp only [PySt.emit1, Option.some.injEq, List.cons.injEq, and_true] at he; subst he
    simp only [PySt.track1] at ht
    split at ht
    · next a b st hs =>
      exact ⟨.instantiate keys, by simp [PySt.callOfInstr, hs], Or.inl rfl⟩
    · simp at ht
  | instantiatePattern keys =>
    simp only [PySt.emit1, Option.some.injEq, List.cons.injEq, and_true] at he; subst he
    simp only [PySt.track1] at ht
    split at ht
    · next a b st hs =>
      exact ⟨.instantiatePattern keys, by simp [PySt.callOfInstr, hs], Or.inl rfl⟩
    · simp at ht
  | pop =>
    simp only [PySt.emit1, Option.some.injEq, List.cons.injEq, and_true] at he; subst he
    exact ⟨_, rfl, Or.inl rfl⟩
  | save =>
    simp only [PySt.emit1, Option.some.injEq, List.cons.injEq, and_true] at he; subst he
    exact ⟨_, rfl, Or.inl rfl⟩
  | load t =>
    simp only [PySt.emit1, Option.bind_eq_bind, Option.bind_eq_some_iff] at he
    obtain ⟨oi, hidx, he⟩ := he
    cases oi with
    | none => simp at he
    | some idx =>
      simp only [Option.pure_def, Option.some.injEq, List.cons.injEq, and_true] at he; subst he
      obtain ⟨j, u, hj, hu, hteq⟩ := indexF_teq n t s.memory 0 idx hidx
      have : idx = j := by omega
      subst this
      exact ⟨.load u, by simp [PySt.callOfInstr, hu], Or.inr ⟨t, u, rfl, rfl, hteq⟩⟩
  | publishProof =>
    simp only [PySt.emit1, Option.some.injEq, List.cons.injEq, and_true] at he; subst he
    simp only [PySt.track1] at ht
    split at ht
    · next t b st c cs hph hs hcl => exact ⟨_, by simp [PySt.callOfInstr, hph], Or.inl rfl⟩
    · simp at ht
  | publishAxiom =>
    simp only [PySt.emit1, Option.some.injEq, List.cons.injEq, and_true] at he; subst he
    simp only [PySt.track1] at ht
    split at ht
    · next a b st hph hs => exact ⟨_, by simp [PySt.callOfInstr, hph], Or.inl rfl⟩
    · simp at ht
  | publishClaim =>
    simp only [PySt.emit1, Option.some.injEq, List.cons.injEq, and_true] at he; subst he
    simp only [PySt.track1] at ht
    split at ht
    · next a b st hph hs => exact ⟨_, by simp [PySt.callOfInstr, hph], Or.inl rfl⟩
    · simp at ht
  | intoClaim => exact absurd rfl hnc
  | intoProof => exact absurd rfl hnp

/-! ## preservation of shape, phase and symbol table by one call -/

theorem takePlugs_mem (k : Nat) (st : List (TTerm × Bool)) (plugs : List NPat)
    (st' : List (TTerm × Bool)) (h : PySt.takePlugs k st = some (plugs, st')) :
    (∀ p ∈ plugs, ∃ b, (TTerm.pat p, b) ∈ st) ∧ (∀ e ∈ st', e ∈ st) := by
  induction k generalizing st plugs with
  | zero =>
    simp only [PySt.takePlugs, Option.some.injEq, Prod.mk.injEq] at h
    obtain ⟨rfl, rfl⟩ := h
    simp
  | succ k ih =>
    cases st with
    | nil => simp [PySt.takePlugs] at h
    | cons e st1 =>
      obtain ⟨t, b⟩ := e
      cases t with
      | proved p => simp [PySt.takePlugs] at h
      | pat p =>
        simp only [PySt.takePlugs, Option.map_eq_some_iff] at h
        obtain ⟨⟨ps, st2⟩, h1, h2⟩ := h
        simp only [Prod.mk.injEq] at h2
        obtain ⟨rfl, rfl⟩ := h2
        obtain ⟨hm, hm'⟩ := ih st1 ps h1
        refine ⟨?_, fun e he => List.mem_cons_of_mem _ (hm' e he)⟩
        intro q hq
        rcases List.mem_append.mp hq with hq | hq
        · obtain ⟨b', hb'⟩ := hm q hq
          exact ⟨b', List.mem_cons_of_mem _ hb'⟩
        · simp at hq; subst hq
          exact ⟨b, by simp⟩

theorem shapeSt_stack (s : PySt) (S : List (TTerm × Bool)) (hSh : ShapeSt s)
    (h : ∀ e ∈ S, e.1.body.Shape = true) : ShapeSt { s with stack := S } :=
  ⟨h, hSh.2.1, hSh.2.2⟩

/-- replace the top part of the stack by one shaped entry -/
theorem shapeSt_top (s : PySt) (t : TTerm) (b : Bool) (st : List (TTerm × Bool))
    (hSh : ShapeSt s) (ht : t.body.Shape = true) (hst : ∀ e ∈ st, e ∈ s.stack) :
    ShapeSt { s with stack := (t, b) :: st } := by
  apply shapeSt_stack s _ hSh
  intro e he
  rcases List.mem_cons.mp he with rfl | he
  · exact ht
  · exact hSh.1 e (hst e he)

/-- what one successful call preserves -/
def Pres (s s' : PySt) (c : Call) : Prop :=
  ShapeSt s' ∧ (c ≠ .intoClaim → c ≠ .intoProof → s'.phase = s.phase) ∧
    ((∀ nm, c ≠ .symbol nm) → s'.symtab = s.symtab)

theorem track1_pres (n : Nat) (s s' : PySt) (c : Call) (hSh : ShapeSt s)
    (hload : ∀ a, c = .load a → a.body.Shape = true)
    (hmv : ∀ id ef sf ps ns hs, c = .metavar id ef sf ps ns hs → ef = [] ∧ sf = [])
    (ht : PySt.track1 n s c = some (some s')) : Pres s s' c := by
  cases c with
  | evar x =>
    simp only [PySt.track1, Option.some.injEq] at ht; subst ht
    exact ⟨shapeSt_top s _ _ _ hSh (by simp [TTerm.body, NPat.Shape]) (fun _ h => h),
      fun _ _ => rfl, fun _ => rfl⟩
  | svar x =>
    simp only [PySt.track1, Option.some.injEq] at ht; subst ht
    exact ⟨shapeSt_top s _ _ _ hSh (by simp [TTerm.body, NPat.Shape]) (fun _ h => h),
      fun _ _ => rfl, fun _ => rfl⟩
  | symbol nm =>
    simp only [PySt.track1, Option.some.injEq] at ht; subst ht
    refine ⟨?_, fun _ _ => rfl, fun h => absurd rfl (h nm)⟩
    refine ⟨?_, hSh.2.1, hSh.2.2⟩
    intro e he
    simp only [PySt.push, List.mem_cons] at he
    rcases he with rfl | he
    · simp [TTerm.body, NPat.Shape]
    · exact hSh.1 e he
  | metavar id ef sf ps ns hs =>
    obtain ⟨rfl, rfl⟩ := hmv _ _ _ _ _ _ rfl
    simp only [PySt.track1, Option.some.injEq] at ht; subst ht
    exact ⟨shapeSt_top s _ _ _ hSh (by simp [TTerm.body, NPat.Shape]) (fun _ h => h),
      fun _ _ => rfl, fun _ => rfl⟩
  | implies =>
    simp only [PySt.track1] at ht
    split at ht
    · next r b1 l b2 st hs =>
      simp only [Option.some.injEq] at ht; subst ht
      have h1 := hSh.1 (.pat r, b1) (by rw [hs]; simp)
      have h2 := hSh.1 (.pat l, b2) (by rw [hs]; simp)
      simp only [TTerm.body] at h1 h2
      exact ⟨shapeSt_top s _ _ _ hSh (by simp [TTerm.body, NPat.Shape, h1, h2])
        (by intro e he; rw [hs]; simp [he]), fun _ _ => rfl, fun _ => rfl⟩
    · simp at ht
  | app =>
    simp only [PySt.track1] at ht
    split at ht
    · next r b1 l b2 st hs =>
      simp only [Option.some.injEq] at ht; subst ht
      have h1 := hSh.1 (.pat r, b1) (by rw [hs]; simp)
      have h2 := hSh.1 (.pat l, b2) (by rw [hs]; simp)
      simp only [TTerm.body] at h1 h2
      exact ⟨shapeSt_top s _ _ _ hSh (by simp [TTerm.body, NPat.Shape, h1, h2])
        (by intro e he; rw [hs]; simp [he]), fun _ _ => rfl, fun _ => rfl⟩
    · simp at ht
  | ex x =>
    simp only [PySt.track1] at ht
    split at ht
    · next p b1 st hs =>
      simp only [Option.some.injEq] at ht; subst ht
      have h1 := hSh.1 (.pat p, b1) (by rw [hs]; simp)
      simp only [TTerm.body] at h1
      exact ⟨shapeSt_top s _ _ _ hSh (by simp [TTerm.body, NPat.Shape, h1])
        (by intro e he; rw [hs]; simp [he]), fun _ _ => rfl, fun _ => rfl⟩
    · simp at ht
  | mu x =>
    simp only [PySt.track1] at ht
    split at ht
    · next p b1 st hs =>
      simp only [Option.some.injEq] at ht; subst ht
      have h1 := hSh.1 (.pat p, b1) (by rw [hs]; simp)
      simp only [TTerm.body] at h1
      exact ⟨shapeSt_top s _ _ _ hSh (by simp [TTerm.body, NPat.Shape, h1])
        (by intro e he; rw [hs]; simp [he]), fun _ _ => rfl, fun _ => rfl⟩
    · simp at ht
  | esubst x =>
    simp only [PySt.track1] at ht
    split at ht
    · next p b1 plug b2 st hs =>
      split at ht
      · next hmeta =>
        simp only [Option.some.injEq] at ht; subst ht
        have h1 := hSh.1 (.pat p, b1) (by rw [hs]; simp)
        have h2 := hSh.1 (.pat plug, b2) (by rw [hs]; simp)
        simp only [TTerm.body] at h1 h2
        rw [isMetaHead_eq] at hmeta
        exact ⟨shapeSt_top s _ _ _ hSh (by simp [TTerm.body, NPat.Shape, h1, h2, hmeta])
          (by intro e he; rw [hs]; simp [he]), fun _ _ => rfl, fun _ => rfl⟩
      · simp at ht
    · simp at ht
  | ssubst x =>
    simp only [PySt.track1] at ht
    split at ht
    · next p b1 plug b2 st hs =>
      split at ht
      · next hmeta =>
        simp only [Option.some.injEq] at ht; subst ht
        have h1 := hSh.1 (.pat p, b1) (by rw [hs]; simp)
        have h2 := hSh.1 (.pat plug, b2) (by rw [hs]; simp)
        simp only [TTerm.body] at h1 h2
        rw [isMetaHead_eq] at hmeta
        exact ⟨shapeSt_top s _ _ _ hSh (by simp [TTerm.body, NPat.Shape, h1, h2, hmeta])
          (by intro e he; rw [hs]; simp [he]), fun _ _ => rfl, fun _ => rfl⟩
      · simp at ht
    · simp at ht
  | prop1 =>
    simp only [PySt.track1, Option.some.injEq] at ht; subst ht
    exact ⟨shapeSt_top s _ _ _ hSh (by rfl) (fun _ h => h), fun _ _ => rfl, fun _ => rfl⟩
  | prop2 =>
    simp only [PySt.track1, Option.some.injEq] at ht; subst ht
    exact ⟨shapeSt_top s _ _ _ hSh (by rfl) (fun _ h => h), fun _ _ => rfl, fun _ => rfl⟩
  | prop3 =>
    simp only [PySt.track1, Option.some.injEq] at ht; subst ht
    exact ⟨shapeSt_top s _ _ _ hSh (by rfl) (fun _ h => h), fun _ _ => rfl, fun _ => rfl⟩
  | quantifier =>
    simp only [PySt.track1, Option.some.injEq] at ht; subst ht
    exact ⟨shapeSt_top s _ _ _ hSh (by rfl) (fun _ h => h), fun _ _ => rfl, fun _ => rfl⟩
  | mp =>
    simp only [PySt.track1] at ht
    split at ht
    · next r b1 l b2 st hs =>
      simp only [Option.bind_eq_bind, Option.bind_eq_some_iff] at ht
      obtain ⟨oc, hmp, ht⟩ := ht
      cases oc with
      | none => simp at ht
      | some c =>
        simp only [Option.pure_def, Option.some.injEq] at ht; subst ht
        have h1 := hSh.1 (.proved r, b1) (by rw [hs]; simp)
        have h2 := hSh.1 (.proved l, b2) (by rw [hs]; simp)
        simp only [TTerm.body] at h1 h2
        obtain ⟨_, hcs⟩ := pyMP_spec n l r c h2 h1 hmp
        exact ⟨shapeSt_top s _ _ _ hSh (by simpa [TTerm.body] using hcs)
          (by intro e he; rw [hs]; simp [he]), fun _ _ => rfl, fun _ => rfl⟩
    · simp at ht
  | gen x =>
    simp only [PySt.track1] at ht
    split at ht
    · next a b1 st hs =>
      simp only [Option.bind_eq_bind, Option.bind_eq_some_iff] at ht
      obtain ⟨oc, hgen, ht⟩ := ht
      cases oc with
      | none => simp at ht
      | some c =>
        simp only [Option.pure_def, Option.some.injEq] at ht; subst ht
        have h1 := hSh.1 (.proved a, b1) (by rw [hs]; simp)
        simp only [TTerm.body] at h1
        obtain ⟨_, _, _, _, _, hcs⟩ := pyGen_spec n a c x h1 hgen
        exact ⟨shapeSt_top s _ _ _ hSh (by simpa [TTerm.body] using hcs)
          (by intro e he; rw [hs]; simp [he]), fun _ _ => rfl, fun _ => rfl⟩
    · simp at ht
  | instantiate keys =>
    simp only [PySt.track1] at ht
    split at ht
    · next a b1 st hs =>
      have h1 := hSh.1 (.proved a, b1) (by rw [hs]; simp)
      split at ht
      · simp only [Option.some.injEq] at ht; subst ht
        exact ⟨shapeSt_top s _ _ _ hSh h1 (by intro e he; rw [hs]; simp [he]),
          fun _ _ => rfl, fun _ => rfl⟩
      · split at ht
        · simp at ht
        · next plugs st' htp =>
          simp only [Option.bind_eq_bind, Option.bind_eq_some_iff, Option.pure_def,
            Option.some.injEq] at ht
          obtain ⟨c, hinst, ht⟩ := ht
          subst ht
          obtain ⟨hmem, hsub⟩ := takePlugs_mem keys.length st plugs st' htp
          have hsm : NPat.ShapeMap (keys.zip plugs) = true := by
            apply shapeMap_zip
            intro p hp
            obtain ⟨b, hb⟩ := hmem p hp
            exact hSh.1 (.pat p, b) (by rw [hs]; exact List.mem_cons_of_mem _ hb)
          simp only [TTerm.body] at h1
          obtain ⟨_, hcs⟩ := NPat.instF_expand n _ a c h1 hsm hinst
          exact ⟨shapeSt_top s _ _ _ hSh (by simpa [TTerm.body] using hcs)
            (by intro e he; rw [hs]; exact List.mem_cons_of_mem _ (hsub e he)),
            fun _ _ => rfl, fun _ => rfl⟩
    · simp at ht
  | instantiatePattern keys =>
    simp only [PySt.track1] at ht
    split at ht
    · next a b1 st hs =>
      have h1 := hSh.1 (.pat a, b1) (by rw [hs]; simp)
      split at ht
      · simp at ht
      · next plugs st' htp =>
        simp only [Option.some.injEq] at ht
        subst ht
        obtain ⟨hmem, hsub⟩ := takePlugs_mem keys.length st plugs st' htp
        have hsm : NPat.ShapeMap (keys.zip plugs) = true := by
          apply shapeMap_zip
          intro p hp
          obtain ⟨b, hb⟩ := hmem p hp
          exact hSh.1 (.pat p, b) (by rw [hs]; exact List.mem_cons_of_mem _ hb)
        simp only [TTerm.body] at h1
        exact ⟨shapeSt_top s _ _ _ hSh (by simp [TTerm.body, NPat.Shape, h1, hsm])
          (by intro e he; rw [hs]; exact List.mem_cons_of_mem _ (hsub e he)),
          fun _ _ => rfl, fun _ => rfl⟩
    · simp at ht
  | pop =>
    simp only [PySt.track1] at ht
    split at ht
    · next e st hs =>
      simp only [Option.some.injEq] at ht; subst ht
      exact ⟨shapeSt_stack s _ hSh (fun e he => hSh.1 e (by rw [hs]; exact List.mem_cons_of_mem _ he)),
        fun _ _ => rfl, fun _ => rfl⟩
    · simp at ht
  | save =>
    simp only [PySt.track1] at ht
    split at ht
    · next t b st hs =>
      simp only [Option.some.injEq] at ht; subst ht
      have h1 := hSh.1 (t, b) (by rw [hs]; simp)
      refine ⟨⟨hSh.1, ?_, hSh.2.2⟩, fun _ _ => rfl, fun _ => rfl⟩
      intro u hu
      rcases List.mem_append.mp hu with hu | hu
      · exact hSh.2.1 u hu
      · simp at hu; subst hu; exact h1
    · simp at ht
  | load a =>
    simp only [PySt.track1, Option.bind_eq_bind, Option.bind_eq_some_iff] at ht
    obtain ⟨oi, _, ht⟩ := ht
    cases oi with
    | none => simp at ht
    | some i =>
      simp only [Option.pure_def, Option.some.injEq] at ht; subst ht
      exact ⟨shapeSt_top s _ _ _ hSh (hload a rfl) (fun _ h => h), fun _ _ => rfl, fun _ => rfl⟩
  | publishProof =>
    simp only [PySt.track1] at ht
    split at ht
    · next t b st c cs hph hs hcl =>
      simp only [Option.bind_eq_bind, Option.bind_eq_some_iff] at ht
      obtain ⟨eq, _, ht⟩ := ht
      cases eq with
      | false => simp at ht
      | true =>
        simp only [if_true, Option.pure_def, Option.some.injEq] at ht; subst ht
        have h1 := hSh.1 (.proved t, b) (by rw [hs]; simp)
        refine ⟨⟨?_, hSh.2.1, fun c' hc' => hSh.2.2 c' (by rw [hcl]; exact List.mem_cons_of_mem _ hc')⟩,
          fun _ _ => rfl, fun _ => rfl⟩
        intro e he
        rcases List.mem_cons.mp he with rfl | he
        · exact h1
        · exact hSh.1 e (by rw [hs]; exact List.mem_cons_of_mem _ he)
    · simp at ht
  | publishAxiom =>
    simp only [PySt.track1] at ht
    split at ht
    · next a b st hph hs =>
      simp only [Option.some.injEq] at ht; subst ht
      have h1 := hSh.1 (.pat a, b) (by rw [hs]; simp)
      refine ⟨⟨?_, ?_, hSh.2.2⟩, fun _ _ => rfl, fun _ => rfl⟩
      · intro e he
        rcases List.mem_cons.mp he with rfl | he
        · exact h1
        · exact hSh.1 e (by rw [hs]; exact List.mem_cons_of_mem _ he)
      · intro u hu
        rcases List.mem_append.mp hu with hu | hu
        · exact hSh.2.1 u hu
        · simp at hu; subst hu; exact h1
    · simp at ht
  | publishClaim =>
    simp only [PySt.track1] at ht
    split at ht
    · next a b st hph hs =>
      simp only [Option.some.injEq] at ht; subst ht
      have h1 := hSh.1 (.pat a, b) (by rw [hs]; simp)
      refine ⟨⟨?_, hSh.2.1, hSh.2.2⟩, fun _ _ => rfl, fun _ => rfl⟩
      intro e he
      rcases List.mem_cons.mp he with rfl | he
      · exact h1
      · exact hSh.1 e (by rw [hs]; exact List.mem_cons_of_mem _ he)
    · simp at ht
  | intoClaim =>
    simp only [PySt.track1] at ht
    split at ht
    · simp only [Option.some.injEq] at ht; subst ht
      exact ⟨shapeSt_stack s _ hSh (by simp), fun h _ => absurd rfl h, fun _ => rfl⟩
    · simp at ht
  | intoProof =>
    simp only [PySt.track1] at ht
    split at ht
    · simp only [Option.some.injEq] at ht; subst ht
      exact ⟨shapeSt_stack s _ hSh (by simp), fun _ h => absurd rfl h, fun _ => rfl⟩
    · simp at ht

/-! ## 2. congruence of one call under equality up to notation -/

/-- equal after notation expansion -/
def StEqX (s t : PySt) : Prop :=
  s.phase = t.phase ∧
  s.stack.map (fun e => (convT e.1, e.2)) = t.stack.map (fun e => (convT e.1, e.2)) ∧
  s.memory.map convT = t.memory.map convT ∧
  s.claims.map NPat.expand = t.claims.map NPat.expand ∧ s.symtab = t.symtab

/-- a `Pattern` entry whose head is literally a metavariable/substitution object (what the typed
API of `esubst`/`ssubst` inspects) -/
def patMeta : TTerm → Bool
  | .pat p => p.isMetaHead
  | .proved _ => false

def keyS (w : Bool) (e : TTerm × Bool) : Term × Bool × Bool := (convT e.1, e.2, w && patMeta e.1)
def keyM (w : Bool) (u : TTerm) : Term × Bool := (convT u, w && patMeta u)

/-- `StEqG false` is `StEqX`; `StEqG true` additionally remembers which `Pattern` entries are
meta-headed -/
def StEqG (w : Bool) (s t : PySt) : Prop :=
  s.phase = t.phase ∧ s.stack.map (keyS w) = t.stack.map (keyS w) ∧
  s.memory.map (keyM w) = t.memory.map (keyM w) ∧
  s.claims.map NPat.expand = t.claims.map NPat.expand ∧ s.symtab = t.symtab

theorem map_eq_map_of_iff {α β γ} (f : α → β) (g : α → γ)
    (h : ∀ a b, f a = f b → g a = g b) (l1 l2 : List α) (e : l1.map f = l2.map f) :
    l1.map g = l2.map g := by
  induction l1 generalizing l2 with
  | nil => cases l2 with
    | nil => rfl
    | cons _ _ => simp at e
  | cons a l1 ih =>
    cases l2 with
    | nil => simp at e
    | cons b l2 =>
      simp only [List.map_cons, List.cons.injEq] at e ⊢
      exact ⟨h a b e.1, ih l2 e.2⟩

theorem stEqG_false_iff (s t : PySt) : StEqG false s t ↔ StEqX s t := by
  unfold StEqG StEqX
  constructor
  · rintro ⟨h1, h2, h3, h4, h5⟩
    exact ⟨h1, map_eq_map_of_iff _ _ (by intro a b h; simp only [keyS, Prod.mk.injEq] at h; simp [h.1, h.2.1]) _ _ h2,
      map_eq_map_of_iff _ _ (by intro a b h; simp only [keyM, Prod.mk.injEq] at h; exact h.1) _ _ h3, h4, h5⟩
  · rintro ⟨h1, h2, h3, h4, h5⟩
    exact ⟨h1, map_eq_map_of_iff _ _ (by intro a b h; simp only [Prod.mk.injEq] at h; simp [keyS, h.1, h.2]) _ _ h2,
      map_eq_map_of_iff _ _ (by intro a b h; simp [keyM, h]) _ _ h3, h4, h5⟩

theorem StEqG.toX {w : Bool} {s t : PySt} (h : StEqG w s t) : StEqX s t := by
  obtain ⟨h1, h2, h3, h4, h5⟩ := h
  exact ⟨h1, map_eq_map_of_iff _ _ (by intro a b h; simp only [keyS, Prod.mk.injEq] at h; simp [h.1, h.2.1]) _ _ h2,
      map_eq_map_of_iff _ _ (by intro a b h; simp only [keyM, Prod.mk.injEq] at h; exact h.1) _ _ h3, h4, h5⟩

theorem StEqG.refl (w : Bool) (s : PySt) : StEqG w s s := ⟨rfl, rfl, rfl, rfl, rfl⟩

/-! ### reading the other stack -/

theorem stk_pat (w : Bool) (p : NPat) (b : Bool) (st T : List (TTerm × Bool))
    (h : ((TTerm.pat p, b) :: st).map (keyS w) = T.map (keyS w)) :
    ∃ p' st', T = (.pat p', b) :: st' ∧ p'.expand = p.expand ∧
      (w && p'.isMetaHead) = (w && p.isMetaHead) ∧ st.map (keyS w) = st'.map (keyS w) := by
  cases T with
  | nil => simp at h
  | cons e' st' =>
    obtain ⟨t', b'⟩ := e'
    simp only [List.map_cons, List.cons.injEq, keyS, Prod.mk.injEq] at h
    obtain ⟨⟨h1, h2, h3⟩, h4⟩ := h
    cases t' with
    | proved q => simp [convT] at h1
    | pat q =>
      simp only [convT, Term.pat.injEq] at h1
      subst h2
      exact ⟨q, st', rfl, h1.symm, by simpa [patMeta] using h3.symm, h4⟩

theorem stk_proved (w : Bool) (p : NPat) (b : Bool) (st T : List (TTerm × Bool))
    (h : ((TTerm.proved p, b) :: st).map (keyS w) = T.map (keyS w)) :
    ∃ p' st', T = (.proved p', b) :: st' ∧ p'.expand = p.expand ∧
      st.map (keyS w) = st'.map (keyS w) := by
  cases T with
  | nil => simp at h
  | cons e' st' =>
    obtain ⟨t', b'⟩ := e'
    simp only [List.map_cons, List.cons.injEq, keyS, Prod.mk.injEq] at h
    obtain ⟨⟨h1, h2, h3⟩, h4⟩ := h
    cases t' with
    | pat q => simp [convT] at h1
    | proved q =>
      simp only [convT, Term.proved.injEq] at h1
      subst h2
      exact ⟨q, st', rfl, h1.symm, h4⟩

theorem stk_any (w : Bool) (t0 : TTerm) (b : Bool) (st T : List (TTerm × Bool))
    (h : ((t0, b) :: st).map (keyS w) = T.map (keyS w)) :
    ∃ t' st', T = (t', b) :: st' ∧ convT t' = convT t0 ∧
      (w && patMeta t') = (w && patMeta t0) ∧ st.map (keyS w) = st'.map (keyS w) := by
  cases T with
  | nil => simp at h
  | cons e' st' =>
    obtain ⟨t', b'⟩ := e'
    simp only [List.map_cons, List.cons.injEq, keyS, Prod.mk.injEq] at h
    obtain ⟨⟨h1, h2, h3⟩, h4⟩ := h
    subst h2
    exact ⟨t', st', rfl, h1.symm, h3.symm, h4⟩

theorem expandMap_zip (ks : List Nat) (ps : List NPat) :
    NPat.expand.expandMap (ks.zip ps) = ks.zip (ps.map NPat.expand) := by
  induction ks generalizing ps with
  | nil => simp [NPat.expand.expandMap]
  | cons a ks ih =>
    cases ps with
    | nil => simp [NPat.expand.expandMap]
    | cons p ps => simp [NPat.expand.expandMap, ih]

theorem takePlugs_congr (w : Bool) (k : Nat) (st st' : List (TTerm × Bool)) (plugs : List NPat)
    (st1 : List (TTerm × Bool)) (h : st.map (keyS w) = st'.map (keyS w))
    (htp : PySt.takePlugs k st = some (plugs, st1)) :
    ∃ plugs' st1', PySt.takePlugs k st' = some (plugs', st1') ∧
      plugs'.map NPat.expand = plugs.map NPat.expand ∧
      st1.map (keyS w) = st1'.map (keyS w) := by
  induction k generalizing st st' plugs with
  | zero =>
    simp only [PySt.takePlugs, Option.some.injEq, Prod.mk.injEq] at htp
    obtain ⟨rfl, rfl⟩ := htp
    exact ⟨[], st', by simp [PySt.takePlugs], rfl, h⟩
  | succ k ih =>
    cases st with
    | nil => simp [PySt.takePlugs] at htp
    | cons e st0 =>
      obtain ⟨t0, b⟩ := e
      cases t0 with
      | proved p => simp [PySt.takePlugs] at htp
      | pat p =>
        simp only [PySt.takePlugs, Option.map_eq_some_iff] at htp
        obtain ⟨⟨ps, st2⟩, h1, h2⟩ := htp
        simp only [Prod.mk.injEq] at h2
        obtain ⟨rfl, rfl⟩ := h2
        obtain ⟨p', st0', rfl, hp, _, hst⟩ := stk_pat w p b st0 st' h
        obtain ⟨ps', st1', htp', hps, hst1⟩ := ih st0 st0' ps hst h1
        exact ⟨ps' ++ [p'], st1', by simp [PySt.takePlugs, htp'], by simp [hps, hp], hst1⟩

/-! ### completeness of the rules, `==` and `index` on the other side -/

theorem pyMP_complete (k : Nat) (a b : NPat) (x : Option NPat) (C : Pat)
    (ha : a.Shape = true) (hb : b.Shape = true) (he : a.expand = .imp b.expand C)
    (h : NPat.pyMP k a b = some x) : ∃ c, x = some c ∧ c.expand = C := by
  simp only [NPat.pyMP, Option.bind_eq_bind, Option.bind_eq_some_iff] at h
  obtain ⟨q, hh, h⟩ := h
  obtain ⟨hq, hs, hni⟩ := NPat.headF_expand k a q ha hh
  rw [he] at hq
  cases q with
  | imp l r =>
    simp only [Option.bind_eq_some_iff, Option.pure_def, Option.some.injEq] at h
    obtain ⟨eq, hp, h⟩ := h
    have hsl : l.Shape = true ∧ r.Shape = true := by simpa [NPat.Shape] using hs
    simp only [NPat.expand, Pat.imp.injEq] at hq
    have hdec := NPat.peqF_expand k l b eq hsl.1 hb hp
    have : eq = true := by rw [hdec]; simp [hq.1]
    subst this
    exact ⟨r, by simpa using h.symm, hq.2⟩
  | inst p m => simp [NPat.isInst] at hni
  | _ => simp [NPat.expand] at hq

theorem pyGen_complete (k : Nat) (a : NPat) (x0 : VId) (y : Option NPat) (L Rr : Pat)
    (ha : a.Shape = true) (he : a.expand = .imp L Rr) (hfr : Rr.eFresh x0 = true)
    (h : NPat.pyGen k a x0 = some y) : ∃ c, y = some c ∧ c.expand = .imp (.ex x0 L) Rr := by
  simp only [NPat.pyGen, Option.bind_eq_bind, Option.bind_eq_some_iff] at h
  obtain ⟨q, hh, h⟩ := h
  obtain ⟨hq, hs, hni⟩ := NPat.headF_expand k a q ha hh
  rw [he] at hq
  cases q with
  | imp l r =>
    simp only [Option.bind_eq_some_iff, Option.pure_def, Option.some.injEq] at h
    obtain ⟨fr, hp, h⟩ := h
    have hsl : l.Shape = true ∧ r.Shape = true := by simpa [NPat.Shape] using hs
    simp only [NPat.expand, Pat.imp.injEq] at hq
    have hdec := NPat.evarIsFreeF_expand k x0 r fr hsl.2 hp
    have : fr = true := by rw [hdec, hq.2, hfr]
    subst this
    exact ⟨_, by simpa using h.symm, by simp [NPat.expand, hq.1, hq.2]⟩
  | inst p m => simp [NPat.isInst] at hni
  | _ => simp [NPat.expand] at hq

theorem teqF_conv_false (n : Nat) (t1 t2 : TTerm) (h1 : t1.body.Shape = true)
    (h2 : t2.body.Shape = true) (h : PySt.teqF n t1 t2 = some false) : convT t1 ≠ convT t2 := by
  cases t1 with
  | pat a =>
    cases t2 with
    | pat b =>
      simp only [PySt.teqF] at h
      have := NPat.peqF_expand n a b false h1 h2 h
      have e : ¬ a.expand = b.expand := by simpa using this.symm
      simpa [convT] using e
    | proved b => simp [convT]
  | proved a =>
    cases t2 with
    | proved b =>
      simp only [PySt.teqF] at h
      have := NPat.peqF_expand n a b false h1 h2 h
      have e : ¬ a.expand = b.expand := by simpa using this.symm
      simpa [convT] using e
    | pat b => simp [convT]

theorem indexF_none (k : Nat) (b : TTerm) (hb : b.body.Shape = true) (mem : List TTerm)
    (hm : ∀ u ∈ mem, u.body.Shape = true) (i0 : Nat)
    (h : PySt.indexF k b mem i0 = some none) : ∀ u ∈ mem, convT u ≠ convT b := by
  induction mem generalizing i0 with
  | nil => simp
  | cons u r ih =>
    simp only [PySt.indexF, Option.bind_eq_bind, Option.bind_eq_some_iff] at h
    obtain ⟨e, he, h⟩ := h
    cases e with
    | true => simp at h
    | false =>
      simp only [Bool.false_eq_true, if_false] at h
      intro v hv
      rcases List.mem_cons.mp hv with rfl | hv
      · exact teqF_conv_false k _ b (hm _ (by simp)) hb he
      · exact ih (fun u hu => hm u (List.mem_cons_of_mem _ hu)) (i0 + 1) h v hv

theorem stEqG_stack (w : Bool) (s t : PySt) (S T : List (TTerm × Bool)) (hE : StEqG w s t)
    (h : S.map (keyS w) = T.map (keyS w)) :
    StEqG w { s with stack := S } { t with stack := T } :=
  ⟨hE.1, h, hE.2.2.1, hE.2.2.2.1, hE.2.2.2.2⟩

theorem load_congr (w : Bool) (n k : Nat) (s t s' : PySt) (a b : TTerm) (r : Option PySt)
    (hE : StEqG w s t) (hSs : ShapeSt s) (hSt : ShapeSt t)
    (ha : a.body.Shape = true) (hb : b.body.Shape = true) (hab : convT a = convT b)
    (hm : w = true → patMeta a = patMeta b)
    (ht : PySt.track1 n s (.load a) = some (some s'))
    (hk : PySt.track1 k t (.load b) = some r) : ∃ t', r = some t' ∧ StEqG w s' t' := by
  simp only [PySt.track1, Option.bind_eq_bind, Option.bind_eq_some_iff] at ht hk
  obtain ⟨oi, hidx, ht⟩ := ht
  obtain ⟨oj, hjdx, hk⟩ := hk
  cases oi with
  | none => simp at ht
  | some i =>
    simp only [Option.pure_def, Option.some.injEq] at ht; subst ht
    cases oj with
    | none =>
      exfalso
      obtain ⟨j, _, hj⟩ := indexF_spec n a ha s.memory hSs.2.1 0 i hidx
      have hmem : convT a ∈ s.memory.map convT := List.mem_of_getElem? hj
      have hconv : s.memory.map convT = t.memory.map convT :=
        map_eq_map_of_iff _ _ (by intro x y h; simp only [keyM, Prod.mk.injEq] at h; exact h.1)
          _ _ hE.2.2.1
      rw [hconv] at hmem
      obtain ⟨u, hu, hua⟩ := List.mem_map.mp hmem
      exact indexF_none k b hb t.memory hSt.2.1 0 hjdx u hu (hua.trans hab)
    | some j =>
      simp only [Option.pure_def, Option.some.injEq] at hk; subst hk
      refine ⟨_, rfl, stEqG_stack w s t _ _ hE ?_⟩
      have : (w && patMeta a) = (w && patMeta b) := by
        cases w with
        | false => rfl
        | true => simp [hm rfl]
      simp [keyS, hab, this, hE.2.1]

theorem track1_congrG (w : Bool) (n k : Nat) (s t s' : PySt) (c c' : Call) (r : Option PySt)
    (hE : StEqG w s t) (hSs : ShapeSt s) (hSt : ShapeSt t)
    (hcc : c' = c ∨ ∃ a b, c = .load a ∧ c' = .load b ∧ a.body.Shape = true ∧
      b.body.Shape = true ∧ convT a = convT b ∧ (w = true → patMeta a = patMeta b))
    (hload : ∀ a, c = .load a → a.body.Shape = true)
    (hes : w = false → ∀ x, (c = .esubst x ∨ c = .ssubst x) →
      ∀ p b st, t.stack = (.pat p, b) :: st → p.isMetaHead = true)
    (ht : PySt.track1 n s c = some (some s')) (hk : PySt.track1 k t c' = some r) :
    ∃ t', r = some t' ∧ StEqG w s' t' := by
  rcases hcc with rfl | ⟨a, b, rfl, rfl, ha, hb, hab, hm⟩
  rotate_left
  · exact load_congr w n k s t s' a b r hE hSs hSt ha hb hab hm ht hk
  have hstk := hE.2.1
  cases c' with
  | evar x =>
    simp only [PySt.track1, Option.some.injEq] at ht hk; subst ht; subst hk
    exact ⟨_, rfl, stEqG_stack w s t _ _ hE (by simp [keyS, hstk])⟩
  | svar x =>
    simp only [PySt.track1, Option.some.injEq] at ht hk; subst ht; subst hk
    exact ⟨_, rfl, stEqG_stack w s t _ _ hE (by simp [keyS, hstk])⟩
  | symbol nm =>
    simp only [PySt.track1, Option.some.injEq] at ht hk; subst ht; subst hk
    exact ⟨_, rfl, hE.1, by simp [PySt.push, keyS, hstk], hE.2.2.1, hE.2.2.2.1,
      by simp [PySt.push, hE.2.2.2.2]⟩
  | metavar id ef sf ps ns hs =>
    simp only [PySt.track1, Option.some.injEq] at ht hk; subst ht; subst hk
    exact ⟨_, rfl, stEqG_stack w s t _ _ hE (by simp [keyS, hstk])⟩
  | prop1 =>
    simp only [PySt.track1, Option.some.injEq] at ht hk; subst ht; subst hk
    exact ⟨_, rfl, stEqG_stack w s t _ _ hE (by simp [keyS, hstk])⟩
  | prop2 =>
    simp only [PySt.track1, Option.some.injEq] at ht hk; subst ht; subst hk
    exact ⟨_, rfl, stEqG_stack w s t _ _ hE (by simp [keyS, hstk])⟩
  | prop3 =>
    simp only [PySt.track1, Option.some.injEq] at ht hk; subst ht; subst hk
    exact ⟨_, rfl, stEqG_stack w s t _ _ hE (by simp [keyS, hstk])⟩
  | quantifier =>
    simp only [PySt.track1, Option.some.injEq] at ht hk; subst ht; subst hk
    exact ⟨_, rfl, stEqG_stack w s t _ _ hE (by simp [keyS, hstk])⟩
  | implies =>
    simp only [PySt.track1] at ht
    split at ht
    · next r0 b1 l b2 st hs =>
      simp only [Option.some.injEq] at ht; subst ht
      rw [hs] at hstk
      obtain ⟨r0', T1, hts, hr, _, hstk⟩ := stk_pat w r0 b1 _ _ hstk
      obtain ⟨l', st', rfl, hl, _, hstk⟩ := stk_pat w l b2 _ _ hstk
      simp only [PySt.track1, hts, Option.some.injEq] at hk; subst hk
      exact ⟨_, rfl, stEqG_stack w s t _ _ hE
        (by simp [keyS, convT, NPat.expand, patMeta, NPat.isMetaHead, hr, hl, hstk])⟩
    · simp at ht
  | app =>
    simp only [PySt.track1] at ht
    split at ht
    · next r0 b1 l b2 st hs =>
      simp only [Option.some.injEq] at ht; subst ht
      rw [hs] at hstk
      obtain ⟨r0', T1, hts, hr, _, hstk⟩ := stk_pat w r0 b1 _ _ hstk
      obtain ⟨l', st', rfl, hl, _, hstk⟩ := stk_pat w l b2 _ _ hstk
      simp only [PySt.track1, hts, Option.some.injEq] at hk; subst hk
      exact ⟨_, rfl, stEqG_stack w s t _ _ hE
        (by simp [keyS, convT, NPat.expand, patMeta, NPat.isMetaHead, hr, hl, hstk])⟩
    · simp at ht
  | ex x =>
    simp only [PySt.track1] at ht
    split at ht
    · next p b1 st hs =>
      simp only [Option.some.injEq] at ht; subst ht
      rw [hs] at hstk
      obtain ⟨p', st', hts, hp, _, hstk⟩ := stk_pat w p b1 _ _ hstk
      simp only [PySt.track1, hts, Option.some.injEq] at hk; subst hk
      exact ⟨_, rfl, stEqG_stack w s t _ _ hE
        (by simp [keyS, convT, NPat.expand, patMeta, NPat.isMetaHead, hp, hstk])⟩
    · simp at ht
  | mu x =>
    simp only [PySt.track1] at ht
    split at ht
    · next p b1 st hs =>
      simp only [Option.some.injEq] at ht; subst ht
      rw [hs] at hstk
      obtain ⟨p', st', hts, hp, _, hstk⟩ := stk_pat w p b1 _ _ hstk
      simp only [PySt.track1, hts, Option.some.injEq] at hk; subst hk
      exact ⟨_, rfl, stEqG_stack w s t _ _ hE
        (by simp [keyS, convT, NPat.expand, patMeta, NPat.isMetaHead, hp, hstk])⟩
    · simp at ht
  | esubst x =>
    simp only [PySt.track1] at ht
    split at ht
    · next p b1 plug b2 st hs =>
      split at ht
      · next hmeta =>
        simp only [Option.some.injEq] at ht; subst ht
        rw [hs] at hstk
        obtain ⟨p', T1, hts, hp, hpm, hstk⟩ := stk_pat w p b1 _ _ hstk
        obtain ⟨plug', st', rfl, hpl, _, hstk⟩ := stk_pat w plug b2 _ _ hstk
        have hmeta' : p'.isMetaHead = true := by
          cases w with
          | true => simpa [hmeta] using hpm
          | false => exact hes rfl x (Or.inl rfl) p' b1 _ hts
        simp only [PySt.track1, hts, hmeta', if_true, Option.some.injEq] at hk; subst hk
        exact ⟨_, rfl, stEqG_stack w s t _ _ hE
          (by simp [keyS, convT, NPat.expand, patMeta, NPat.isMetaHead, hp, hpl, hstk])⟩
      · simp at ht
    · simp at ht
  | ssubst x =>
    simp only [PySt.track1] at ht
    split at ht
    · next p b1 plug b2 st hs =>
      split at ht
      · next hmeta =>
        simp only [Option.some.injEq] at ht; subst ht
        rw [hs] at hstk
        obtain ⟨p', T1, hts, hp, hpm, hstk⟩ := stk_pat w p b1 _ _ hstk
        obtain ⟨plug', st', rfl, hpl, _, hstk⟩ := stk_pat w plug b2 _ _ hstk
        have hmeta' : p'.isMetaHead = true := by
          cases w with
          | true => simpa [hmeta] using hpm
          | false => exact hes rfl x (Or.inr rfl) p' b1 _ hts
        simp only [PySt.track1, hts, hmeta', if_true, Option.some.injEq] at hk; subst hk
        exact ⟨_, rfl, stEqG_stack w s t _ _ hE
          (by simp [keyS, convT, NPat.expand, patMeta, NPat.isMetaHead, hp, hpl, hstk])⟩
      · simp at ht
    · simp at ht
  | mp =>
    simp only [PySt.track1] at ht
    split at ht
    · next r0 b1 l b2 st hs =>
      simp only [Option.bind_eq_bind, Option.bind_eq_some_iff] at ht
      obtain ⟨oc, hmp, ht⟩ := ht
      cases oc with
      | none => simp at ht
      | some c =>
        simp only [Option.pure_def, Option.some.injEq] at ht; subst ht
        have h1 := hSs.1 (.proved r0, b1) (by rw [hs]; simp)
        have h2 := hSs.1 (.proved l, b2) (by rw [hs]; simp)
        simp only [TTerm.body] at h1 h2
        obtain ⟨hexp, _⟩ := pyMP_spec n l r0 c h2 h1 hmp
        rw [hs] at hstk
        obtain ⟨r0', T1, hts, hr, hstk⟩ := stk_proved w r0 b1 _ _ hstk
        obtain ⟨l', st', rfl, hl, hstk⟩ := stk_proved w l b2 _ _ hstk
        have h1' := hSt.1 (.proved r0', b1) (by rw [hts]; simp)
        have h2' := hSt.1 (.proved l', b2) (by rw [hts]; simp)
        simp only [TTerm.body] at h1' h2'
        simp only [PySt.track1, hts, Option.bind_eq_bind, Option.bind_eq_some_iff] at hk
        obtain ⟨oc', hmp', hk⟩ := hk
        obtain ⟨c', rfl, hc'⟩ := pyMP_complete k l' r0' oc' c.expand h2' h1'
          (by rw [hl, hr]; exact hexp) hmp'
        simp only [Option.pure_def, Option.some.injEq] at hk; subst hk
        exact ⟨_, rfl, stEqG_stack w s t _ _ hE
          (by simp [keyS, convT, patMeta, hc', hstk])⟩
    · simp at ht
  | gen x =>
    simp only [PySt.track1] at ht
    split at ht
    · next a b1 st hs =>
      simp only [Option.bind_eq_bind, Option.bind_eq_some_iff] at ht
      obtain ⟨oc, hgen, ht⟩ := ht
      cases oc with
      | none => simp at ht
      | some c =>
        simp only [Option.pure_def, Option.some.injEq] at ht; subst ht
        have h1 := hSs.1 (.proved a, b1) (by rw [hs]; simp)
        simp only [TTerm.body] at h1
        obtain ⟨L, Rr, hexp, hfr, hce, _⟩ := pyGen_spec n a c x h1 hgen
        rw [hs] at hstk
        obtain ⟨a', st', hts, ha', hstk⟩ := stk_proved w a b1 _ _ hstk
        have h1' := hSt.1 (.proved a', b1) (by rw [hts]; simp)
        simp only [TTerm.body] at h1'
        simp only [PySt.track1, hts, Option.bind_eq_bind, Option.bind_eq_some_iff] at hk
        obtain ⟨oc', hgen', hk⟩ := hk
        obtain ⟨c', rfl, hc'⟩ := pyGen_complete k a' x oc' L Rr h1' (by rw [ha']; exact hexp)
          hfr hgen'
        simp only [Option.pure_def, Option.some.injEq] at hk; subst hk
        exact ⟨_, rfl, stEqG_stack w s t _ _ hE
          (by simp [keyS, convT, patMeta, hc', hce, hstk])⟩
    · simp at ht
  | instantiate keys =>
    simp only [PySt.track1] at ht
    split at ht
    · next a b1 st hs =>
      have h1 := hSs.1 (.proved a, b1) (by rw [hs]; simp)
      simp only [TTerm.body] at h1
      rw [hs] at hstk
      obtain ⟨a', st', hts, ha', hstk⟩ := stk_proved w a b1 _ _ hstk
      have h1' := hSt.1 (.proved a', b1) (by rw [hts]; simp)
      simp only [TTerm.body] at h1'
      split at ht
      · next hemp =>
        simp only [Option.some.injEq] at ht; subst ht
        simp only [PySt.track1, hts, hemp, if_true, Option.some.injEq] at hk
        subst hk
        exact ⟨_, rfl, stEqG_stack w s t _ _ hE (by simp [keyS, convT, patMeta, ha', hstk])⟩
      · next hemp =>
        split at ht
        · simp at ht
        · next plugs st1 htp =>
          simp only [Option.bind_eq_bind, Option.bind_eq_some_iff, Option.pure_def,
            Option.some.injEq] at ht
          obtain ⟨c, hinst, ht⟩ := ht
          subst ht
          obtain ⟨plugs', st1', htp', hpl, hst1⟩ := takePlugs_congr w _ st st' plugs st1 hstk htp
          obtain ⟨hmem, _⟩ := takePlugs_mem keys.length st plugs st1 htp
          obtain ⟨hmem', _⟩ := takePlugs_mem keys.length st' plugs' st1' htp'
          have hsm : NPat.ShapeMap (keys.zip plugs) = true := by
            apply shapeMap_zip
            intro p hp
            obtain ⟨b, hb⟩ := hmem p hp
            exact hSs.1 (.pat p, b) (by rw [hs]; exact List.mem_cons_of_mem _ hb)
          have hsm' : NPat.ShapeMap (keys.zip plugs') = true := by
            apply shapeMap_zip
            intro p hp
            obtain ⟨b, hb⟩ := hmem' p hp
            exact hSt.1 (.pat p, b) (by rw [hts]; exact List.mem_cons_of_mem _ hb)
          simp only [PySt.track1, hts, hemp, Bool.false_eq_true, if_false, htp',
            Option.bind_eq_bind, Option.bind_eq_some_iff, Option.pure_def,
            Option.some.injEq] at hk
          obtain ⟨c', hinst', hk⟩ := hk
          subst hk
          obtain ⟨hce, _⟩ := NPat.instF_expand n _ a c h1 hsm hinst
          obtain ⟨hce', _⟩ := NPat.instF_expand k _ a' c' h1' hsm' hinst'
          have : c'.expand = c.expand := by
            rw [hce, hce', expandMap_zip, expandMap_zip, hpl, ha']
          exact ⟨_, rfl, stEqG_stack w s t _ _ hE (by simp [keyS, convT, patMeta, this, hst1])⟩
    · simp at ht
  | instantiatePattern keys =>
    simp only [PySt.track1] at ht
    split at ht
    · next a b1 st hs =>
      rw [hs] at hstk
      obtain ⟨a', st', hts, ha', _, hstk⟩ := stk_pat w a b1 _ _ hstk
      split at ht
      · simp at ht
      · next plugs st1 htp =>
        simp only [Option.some.injEq] at ht
        subst ht
        obtain ⟨plugs', st1', htp', hpl, hst1⟩ := takePlugs_congr w _ st st' plugs st1 hstk htp
        simp only [PySt.track1, hts, htp', Option.some.injEq] at hk
        subst hk
        exact ⟨_, rfl, stEqG_stack w s t _ _ hE
          (by simp [keyS, convT, patMeta, NPat.isMetaHead, NPat.expand, expandMap_zip, hpl, ha',
            hst1])⟩
    · simp at ht
  | pop =>
    simp only [PySt.track1] at ht
    split at ht
    · next e st hs =>
      obtain ⟨t0, b⟩ := e
      simp only [Option.some.injEq] at ht; subst ht
      rw [hs] at hstk
      obtain ⟨t0', st', hts, _, _, hstk⟩ := stk_any w t0 b _ _ hstk
      simp only [PySt.track1, hts, Option.some.injEq] at hk; subst hk
      exact ⟨_, rfl, stEqG_stack w s t _ _ hE hstk⟩
    · simp at ht
  | save =>
    simp only [PySt.track1] at ht
    split at ht
    · next t0 b st hs =>
      simp only [Option.some.injEq] at ht; subst ht
      have hstk' := hstk
      rw [hs] at hstk'
      obtain ⟨t0', st', hts, hc0, hm0, _⟩ := stk_any w t0 b _ _ hstk'
      simp only [PySt.track1, hts, Option.some.injEq] at hk; subst hk
      exact ⟨_, rfl, hE.1, by simpa [hts] using hstk, by simp [keyM, hc0, hm0, hE.2.2.1], hE.2.2.2.1, hE.2.2.2.2⟩
    · simp at ht
  | load a =>
    exact load_congr w n k s t s' a a r hE hSs hSt (hload a rfl) (hload a rfl) rfl (fun _ => rfl)
      ht hk
  | publishProof =>
    simp only [PySt.track1] at ht
    split at ht
    · next t0 b st c0 cs hph hs hcl =>
      simp only [Option.bind_eq_bind, Option.bind_eq_some_iff] at ht
      obtain ⟨eq, hpeq, ht⟩ := ht
      cases eq with
      | false => simp at ht
      | true =>
        simp only [if_true, Option.pure_def, Option.some.injEq] at ht; subst ht
        have h1 := hSs.1 (.proved t0, b) (by rw [hs]; simp)
        have h2 := hSs.2.2 c0 (by rw [hcl]; simp)
        simp only [TTerm.body] at h1
        have htc : t0.expand = c0.expand := by
          simpa using (NPat.peqF_expand n t0 c0 true h1 h2 hpeq).symm
        rw [hs] at hstk
        obtain ⟨t0', st', hts, ht0', hstk⟩ := stk_proved w t0 b _ _ hstk
        have hclm := hE.2.2.2.1
        rw [hcl] at hclm
        have htph : t.phase = .proof := by rw [← hE.1]; exact hph
        cases htcl : t.claims with
        | nil => rw [htcl] at hclm; simp at hclm
        | cons c0' cs' =>
          rw [htcl] at hclm
          simp only [List.map_cons, List.cons.injEq] at hclm
          have h1' := hSt.1 (.proved t0', b) (by rw [hts]; simp)
          have h2' := hSt.2.2 c0' (by rw [htcl]; simp)
          simp only [TTerm.body] at h1'
          simp only [PySt.track1, htph, hts, htcl, Option.bind_eq_bind,
            Option.bind_eq_some_iff] at hk
          obtain ⟨eq', hpeq', hk⟩ := hk
          have hdec := NPat.peqF_expand k t0' c0' eq' h1' h2' hpeq'
          have : eq' = true := by rw [hdec]; simp [ht0', htc, hclm.1]
          subst this
          simp only [if_true, Option.pure_def, Option.some.injEq] at hk; subst hk
          exact ⟨_, rfl, hph, by simp [keyS, convT, patMeta, ht0', hstk], hE.2.2.1, hclm.2,
            hE.2.2.2.2⟩
    · simp at ht
  | publishAxiom =>
    simp only [PySt.track1] at ht
    split at ht
    · next a b st hph hs =>
      simp only [Option.some.injEq] at ht; subst ht
      rw [hs] at hstk
      obtain ⟨a', st', hts, ha', hpm, hstk⟩ := stk_pat w a b _ _ hstk
      have htph : t.phase = .gamma := by rw [← hE.1]; exact hph
      simp only [PySt.track1, htph, hts, Option.some.injEq] at hk; subst hk
      exact ⟨_, rfl, hph, by simp [keyS, convT, patMeta, ha', hpm, hstk],
        by simp [keyM, convT, patMeta, ha', hE.2.2.1], hE.2.2.2.1, hE.2.2.2.2⟩
    · simp at ht
  | publishClaim =>
    simp only [PySt.track1] at ht
    split at ht
    · next a b st hph hs =>
      simp only [Option.some.injEq] at ht; subst ht
      rw [hs] at hstk
      obtain ⟨a', st', hts, ha', hpm, hstk⟩ := stk_pat w a b _ _ hstk
      have htph : t.phase = .claim := by rw [← hE.1]; exact hph
      simp only [PySt.track1, htph, hts, Option.some.injEq] at hk; subst hk
      exact ⟨_, rfl, hph, by simp [keyS, convT, patMeta, ha', hpm, hstk], hE.2.2.1,
        hE.2.2.2.1, hE.2.2.2.2⟩
    · simp at ht
  | intoClaim =>
    simp only [PySt.track1] at ht
    split at ht
    · next hph =>
      simp only [Option.some.injEq] at ht; subst ht
      have htph : t.phase = .gamma := by rw [← hE.1]; exact hph
      simp only [PySt.track1, htph, Option.some.injEq] at hk; subst hk
      exact ⟨_, rfl, rfl, rfl, hE.2.2.1, hE.2.2.2.1, hE.2.2.2.2⟩
    · simp at ht
  | intoProof =>
    simp only [PySt.track1] at ht
    split at ht
    · next hph =>
      simp only [Option.some.injEq] at ht; subst ht
      have htph : t.phase = .claim := by rw [← hE.1]; exact hph
      simp only [PySt.track1, htph, Option.some.injEq] at hk; subst hk
      exact ⟨_, rfl, rfl, rfl, hE.2.2.1, hE.2.2.2.1, hE.2.2.2.2⟩
    · simp at ht

/-- 2. One call on two states equal up to notation.  (The hypothesis on `esubst`/`ssubst` is
necessary, see the counterexample in the report: the typed API inspects the *object* on the stack,
which is not invariant under notation.) -/
theorem track1_congr (n k : Nat) (s t s' : PySt) (c c' : Call) (r : Option PySt) :
    StEqX s t → ShapeSt s → ShapeSt t →
    (c' = c ∨ ∃ a b, c = .load a ∧ c' = .load b ∧ a.body.Shape = true ∧ b.body.Shape = true ∧
      convT a = convT b) →
    (∀ a, c = .load a → a.body.Shape = true) →
    (∀ id ef sf ps ns hs, c = .metavar id ef sf ps ns hs → ef = [] ∧ sf = []) →
    (∀ x, (c = .esubst x ∨ c = .ssubst x) →
      ∀ p b st, t.stack = (.pat p, b) :: st → p.isMetaHead = true) →
    PySt.track1 n s c = some (some s') → PySt.track1 k t c' = some r →
    ∃ t', r = some t' ∧ StEqX s' t' ∧ ShapeSt s' ∧ ShapeSt t' := by
  intro hE hSs hSt hcc hload hmv hes ht hk
  have hcc' : c' = c ∨ ∃ a b, c = .load a ∧ c' = .load b ∧ a.body.Shape = true ∧
      b.body.Shape = true ∧ convT a = convT b ∧ (false = true → patMeta a = patMeta b) := by
    rcases hcc with h | ⟨a, b, h1, h2, h3, h4, h5⟩
    · exact Or.inl h
    · exact Or.inr ⟨a, b, h1, h2, h3, h4, h5, fun h => by simp at h⟩
  obtain ⟨t', rfl, hE'⟩ := track1_congrG false n k s t s' c c' r ((stEqG_false_iff s t).mpr hE)
    hSs hSt hcc' hload (fun _ => hes) ht hk
  refine ⟨t', rfl, hE'.toX, (track1_pres n s s' c hSs hload hmv ht).1, ?_⟩
  rcases hcc with rfl | ⟨a, b, rfl, rfl, _, hb, _⟩
  · exact (track1_pres k t t' c' hSt hload hmv hk).1
  · exact (track1_pres k t t' (.load b) hSt (fun a' e => by cases e; exact hb)
      (fun _ _ _ _ _ _ e => by cases e) hk).1

/-! ## 3. the round trip for one phase -/

/-- like `trackAll` for calls of one phase, collecting only the instructions -/
def PySt.emitAll (n : Nat) : PySt → List Call → Option (Option (PySt × List Instr))
  | s, [] => some (some (s, []))
  | s, c :: cs => do
      match ← PySt.emit1 n s c with
      | none => pure none
      | some is =>
        match ← PySt.track1 n s c with
        | none => pure none
        | some s' =>
          match ← PySt.emitAll n s' cs with
          | none => pure none
          | some (s'', js) => pure (some (s'', is ++ js))

/-- append to the stream of a phase -/
def addOut (ph : Phase) (out : List Instr × List Instr × List Instr) (is : List Instr) :
    List Instr × List Instr × List Instr :=
  match ph with
  | .gamma => (out.1 ++ is, out.2.1, out.2.2)
  | .claim => (out.1, out.2.1 ++ is, out.2.2)
  | .proof => (out.1, out.2.1, out.2.2 ++ is)

/-- well-formedness of one call in the state it is made in -/
def CallOK (n : Nat) (s : PySt) (c : Call) : Prop :=
  c ≠ .intoClaim ∧ c ≠ .intoProof ∧ (∀ nm, c = .symbol nm → nm ≤ s.symtab.length) ∧
  (∀ a, c = .load a → a.body.Shape = true ∧
    ∀ i u, PySt.indexF n a s.memory 0 = some (some i) → s.memory[i]? = some u →
      patMeta u = patMeta a) ∧
  (∀ id ef sf ps ns hs, c = .metavar id ef sf ps ns hs → ef = [] ∧ sf = [])

/-- well-formedness of a history, along `track1` -/
def CallsOK (n : Nat) : PySt → List Call → Prop
  | _, [] => True
  | s, c :: cs => CallOK n s c ∧ ∀ s', PySt.track1 n s c = some (some s') → CallsOK n s' cs

theorem emit1_single (n : Nat) (s : PySt) (c : Call) (is : List Instr)
    (hnc : c ≠ .intoClaim) (hnp : c ≠ .intoProof)
    (he : PySt.emit1 n s c = some (some is)) : ∃ i, is = [i] := by
  cases c with
  | intoClaim => exact absurd rfl hnc
  | intoProof => exact absurd rfl hnp
  | metavar id ef sf ps ns hs =>
    simp only [PySt.emit1] at he
    split at he <;> (simp only [Option.some.injEq] at he; exact ⟨_, he.symm⟩)
  | load t =>
    simp only [PySt.emit1, Option.bind_eq_bind, Option.bind_eq_some_iff] at he
    obtain ⟨oi, _, he⟩ := he
    cases oi with
    | none => simp at he
    | some i => simp only [Option.pure_def, Option.some.injEq] at he; exact ⟨_, he.symm⟩
  | _ => simp only [PySt.emit1, Option.some.injEq] at he; exact ⟨_, he.symm⟩

theorem track1_canon (n : Nat) (s s' : PySt) (c : Call) (hC : CanonTab s.symtab)
    (hsym : ∀ nm, c = .symbol nm → nm ≤ s.symtab.length) (hP : Pres s s' c)
    (ht : PySt.track1 n s c = some (some s')) : CanonTab s'.symtab := by
  by_cases h : ∃ nm, c = .symbol nm
  · obtain ⟨nm, rfl⟩ := h
    simp only [PySt.track1, Option.some.injEq] at ht; subst ht
    exact (symId_canon s.symtab nm hC (hsym nm rfl)).2
  · rw [hP.2.2 (fun nm e => h ⟨nm, e⟩)]; exact hC

/-- the deserialiser's dispatch reads only what is invariant under `StEqG` (for non-`load`) -/
theorem callOfInstr_congr (w : Bool) (s t : PySt) (i : Instr) (c1 : Call) (hE : StEqG w s t)
    (h : PySt.callOfInstr s i = some c1) (hnl : ∀ u, c1 ≠ .load u) :
    PySt.callOfInstr t i = some c1 := by
  cases i with
  | instantiate ids =>
    simp only [PySt.callOfInstr] at h ⊢
    have hstk := hE.2.1
    split at h
    · next a b st hs =>
      rw [hs] at hstk
      obtain ⟨a', st', hts, _, _⟩ := stk_proved w a b _ _ hstk
      simp [hts, h]
    · next a b st hs =>
      rw [hs] at hstk
      obtain ⟨a', st', hts, _, _, _⟩ := stk_pat w a b _ _ hstk
      simp [hts, h]
    · simp at h
  | load idx =>
    simp only [PySt.callOfInstr, Option.map_eq_some_iff] at h
    obtain ⟨u, _, rfl⟩ := h
    exact absurd rfl (hnl u)
  | publish =>
    simp only [PySt.callOfInstr] at h ⊢
    rw [← hE.1]; exact h
  | _ => simp only [PySt.callOfInstr] at h ⊢; exact h

/-- the call the deserialiser makes on the replayed state for the instruction a call emitted -/
theorem replay_call (n : Nat) (s t s1 : PySt) (c : Call) (i : Instr)
    (hE : StEqG true s t) (hSs : ShapeSt s) (hSt : ShapeSt t) (hC : CanonTab s.symtab)
    (hok : CallOK n s c) (he : PySt.emit1 n s c = some (some [i]))
    (ht : PySt.track1 n s c = some (some s1)) :
    ∃ c2, PySt.callOfInstr t i = some c2 ∧
      (c2 = c ∨ ∃ a b, c = .load a ∧ c2 = .load b ∧ a.body.Shape = true ∧ b.body.Shape = true ∧
        convT a = convT b ∧ (true = true → patMeta a = patMeta b)) := by
  obtain ⟨hnc, hnp, hsym, hld, _⟩ := hok
  by_cases hl : ∃ a, c = .load a
  · obtain ⟨a, rfl⟩ := hl
    obtain ⟨hash, hpm⟩ := hld a rfl
    simp only [PySt.emit1, Option.bind_eq_bind, Option.bind_eq_some_iff] at he
    obtain ⟨oi, hidx, he⟩ := he
    cases oi with
    | none => simp at he
    | some idx =>
      simp only [Option.pure_def, Option.some.injEq, List.cons.injEq, and_true] at he; subst he
      obtain ⟨j, u, hj, hu, hteq⟩ := indexF_teq n a s.memory 0 idx hidx
      have : idx = j := by omega
      subst this
      have hush := hSs.2.1 u (List.mem_of_getElem? hu)
      have hua := teqF_conv n u a hush hash hteq
      have hmm := hE.2.2.1
      have hk1 : (s.memory.map (keyM true))[idx]? = some (keyM true u) := by simp [hu]
      rw [hmm, List.getElem?_map] at hk1
      cases hu' : t.memory[idx]? with
      | none => simp [hu'] at hk1
      | some u' =>
        simp only [hu', Option.map_some, Option.some.injEq, keyM, Prod.mk.injEq,
          Bool.true_and] at hk1
        have hu'sh := hSt.2.1 u' (List.mem_of_getElem? hu')
        exact ⟨.load u', by simp [PySt.callOfInstr, hu'],
          Or.inr ⟨a, u', rfl, rfl, hash, hu'sh, by rw [← hua, hk1.1],
            fun _ => by rw [← hpm idx u hidx hu, hk1.2]⟩⟩
  · obtain ⟨c1, hc1, hrel⟩ := callOfInstr_emit n s s1 c i hC hsym hnc hnp he ht
    rcases hrel with rfl | ⟨a, _, rfl, _, _⟩
    · exact ⟨c1, callOfInstr_congr true s t i c1 hE hc1 (fun u e => hl ⟨u, e⟩), Or.inl rfl⟩
    · exact absurd ⟨a, rfl⟩ hl

theorem emitAll_cons (n : Nat) (s s' : PySt) (c : Call) (cs : List Call) (is : List Instr)
    (h : PySt.emitAll n s (c :: cs) = some (some (s', is))) :
    ∃ is1 s1 js, PySt.emit1 n s c = some (some is1) ∧ PySt.track1 n s c = some (some s1) ∧
      PySt.emitAll n s1 cs = some (some (s', js)) ∧ is = is1 ++ js := by
  simp only [PySt.emitAll, Option.bind_eq_bind, Option.bind_eq_some_iff] at h
  obtain ⟨oe, he, h⟩ := h
  cases oe with
  | none => simp at h
  | some is1 =>
    simp only [Option.bind_eq_some_iff] at h
    obtain ⟨os, hs, h⟩ := h
    cases os with
    | none => simp at h
    | some s1 =>
      simp only [Option.bind_eq_some_iff] at h
      obtain ⟨oa, ha, h⟩ := h
      cases oa with
      | none => simp at h
      | some pr =>
        obtain ⟨s2, js⟩ := pr
        simp only [Option.pure_def, Option.some.injEq, Prod.mk.injEq] at h
        obtain ⟨rfl, rfl⟩ := h
        exact ⟨is1, s1, js, he, hs, ha, rfl⟩

/-- 3. deserialising the instructions a history emitted replays it, up to notation; if the replay
returns it does not raise -/
theorem replay_emitG (n k : Nat) : ∀ (cs : List Call) (s t s' : PySt) (is : List Instr)
    (r : Option PySt), StEqG true s t → ShapeSt s → ShapeSt t → CanonTab s.symtab →
    CallsOK n s cs → PySt.emitAll n s cs = some (some (s', is)) →
    PySt.replay k t is = some r → ∃ t', r = some t' ∧ StEqG true s' t' := by
  intro cs
  induction cs with
  | nil =>
    intro s t s' is r hE _ _ _ _ he hr
    simp only [PySt.emitAll, Option.some.injEq, Prod.mk.injEq] at he
    obtain ⟨rfl, rfl⟩ := he
    simp only [PySt.replay, Option.some.injEq] at hr
    exact ⟨t, hr.symm, hE⟩
  | cons c cs ih =>
    intro s t s' is r hE hSs hSt hC hok he hr
    obtain ⟨hok1, hoks⟩ := hok
    obtain ⟨is1, s1, js, he1, ht1, hes, rfl⟩ := emitAll_cons n s s' c cs is he
    obtain ⟨i, rfl⟩ := emit1_single n s c is1 hok1.1 hok1.2.1 he1
    obtain ⟨c2, hc2, hrel⟩ := replay_call n s t s1 c i hE hSs hSt hC hok1 he1 ht1
    simp only [List.singleton_append, PySt.replay, hc2, Option.bind_eq_bind,
      Option.bind_eq_some_iff] at hr
    obtain ⟨x, hx, hr⟩ := hr
    have hload : ∀ a, c = .load a → a.body.Shape = true := fun a e => (hok1.2.2.2.1 a e).1
    have hmv := hok1.2.2.2.2
    obtain ⟨t1, rfl, hE1⟩ := track1_congrG true n k s t s1 c c2 x hE hSs hSt hrel hload
      (fun h => by simp at h) ht1 hx
    have hP := track1_pres n s s1 c hSs hload hmv ht1
    have hSt1 : ShapeSt t1 := by
      rcases hrel with rfl | ⟨a, b, rfl, rfl, _, hb, _⟩
      · exact (track1_pres k t t1 c2 hSt hload hmv hx).1
      · exact (track1_pres k t t1 (.load b) hSt (fun a' e => by cases e; exact hb)
          (fun _ _ _ _ _ _ e => by cases e) hx).1
    have hC1 := track1_canon n s s1 c hC hok1.2.2.1 hP ht1
    simp only [] at hr
    exact ih s1 t1 s' js r hE1 hP.1 hSt1 hC1 (hoks s1 ht1) hes hr

theorem addOut_addOut (ph : Phase) (out : List Instr × List Instr × List Instr)
    (a b : List Instr) : addOut ph (addOut ph out a) b = addOut ph out (a ++ b) := by
  cases ph <;> simp [addOut]

/-- `trackAll`'s stream for the phase grows by exactly `emitAll` -/
theorem trackAll_emitAll (n : Nat) : ∀ (cs : List Call) (s s' : PySt)
    (out out' : List Instr × List Instr × List Instr), ShapeSt s → CallsOK n s cs →
    PySt.trackAll n s cs out = some (some (s', out')) →
    ∃ is, PySt.emitAll n s cs = some (some (s', is)) ∧ out' = addOut s.phase out is := by
  intro cs
  induction cs with
  | nil =>
    intro s s' out out' _ _ h
    simp only [PySt.trackAll, Option.some.injEq, Prod.mk.injEq] at h
    obtain ⟨rfl, rfl⟩ := h
    exact ⟨[], by simp [PySt.emitAll], by cases s.phase <;> simp [addOut]⟩
  | cons c cs ih =>
    intro s s' out out' hSs hok h
    obtain ⟨g, cl, pf⟩ := out
    obtain ⟨hok1, hoks⟩ := hok
    simp only [PySt.trackAll, Option.bind_eq_bind, Option.bind_eq_some_iff] at h
    obtain ⟨oe, he, h⟩ := h
    cases oe with
    | none => simp at h
    | some is1 =>
      simp only [Option.bind_eq_some_iff] at h
      obtain ⟨os, hs, h⟩ := h
      cases os with
      | none => simp at h
      | some s1 =>
        simp only [] at h
        have hload : ∀ a, c = .load a → a.body.Shape = true := fun a e => (hok1.2.2.2.1 a e).1
        have hP := track1_pres n s s1 c hSs hload hok1.2.2.2.2 hs
        obtain ⟨js, hjs, hout⟩ := ih s1 s' _ out' hP.1 (hoks s1 hs) h
        refine ⟨is1 ++ js, by simp [PySt.emitAll, he, hs, hjs], ?_⟩
        rw [hout, hP.2.1 hok1.1 hok1.2.1, ← addOut_addOut]
        cases s.phase <;> rfl

/-- 3, in terms of `trackAll`; starting from states equal up to notation *with the same
meta-headed `Pattern` entries* (`StEqG true`, e.g. the same state) -/
theorem replay_emit (n k : Nat) (cs : List Call) (s t s' : PySt)
    (out out' : List Instr × List Instr × List Instr) :
    StEqG true s t → ShapeSt s → ShapeSt t → CanonTab s.symtab → CallsOK n s cs →
    PySt.trackAll n s cs out = some (some (s', out')) →
    ∃ is, out' = addOut s.phase out is ∧
      ∀ r, PySt.replay k t is = some r → ∃ t', r = some t' ∧ StEqX s' t' := by
  intro hE hSs hSt hC hok h
  obtain ⟨is, hem, hout⟩ := trackAll_emitAll n cs s s' out out' hSs hok h
  refine ⟨is, hout, fun r hr => ?_⟩
  obtain ⟨t', rfl, hE'⟩ := replay_emitG n k cs s t s' is r hE hSs hSt hC hok hem hr
  exact ⟨t', rfl, hE'.toX⟩

/-- the usual case: replaying on the state the history started from -/
theorem replay_emit_self (n k : Nat) (cs : List Call) (s s' : PySt)
    (out out' : List Instr × List Instr × List Instr) :
    ShapeSt s → CanonTab s.symtab → CallsOK n s cs →
    PySt.trackAll n s cs out = some (some (s', out')) →
    ∃ is, out' = addOut s.phase out is ∧
      ∀ r, PySt.replay k s is = some r → ∃ t', r = some t' ∧ StEqX s' t' :=
  fun hSs hC hok h => replay_emit n k cs s s s' out out' (StEqG.refl true s) hSs hSs hC hok h

#print axioms callOfInstr_emit
#print axioms track1_congr
#print axioms track1_congrG
#print axioms replay_emitG
#print axioms trackAll_emitAll
#print axioms replay_emit
#print axioms replay_emit_self
#print axioms deserialize_undecodable
