import Pi2.Proof
import Pi2.Match
import Pi2.Gen.Notations
/-!
# K execution traces → proof modules
(`k/kore_convertion/language_semantics.py`: `ConvertionScope`, `LanguageSemantics._convert_pattern`,
`convert_substitutions`; `k/execution_proof_generation.py`: `ExecutionProofExp.rewrite_event`,
`from_proof_hints`; `k/kore_convertion/rewrite_steps.py`: `get_proof_hints`)

Kore terms of the quantifier-free fragment (`\exists`, `\forall`, `\mu`, `\nu`, set variables are
outside: the real converter raises `NotImplementedError` for all but `\exists`).  Names are numbers;
the ML symbols are `ksort_<n> ↦ 2000+2n`, `ksym_<n> ↦ 2001+2n`, a domain value `<v> ↦ 100000+v`; the
fixed symbols (`inhabitant`, `kore_next`, …) are the ones of the generated notation table
(`Pi2/Gen/Notations.lean`, regenerated from `proofs/kore.py` on every run), from which the
definitions of the `kore-*` notations are taken.  `none` = the real code raises.  Core Lean only.
-/
open Pat

namespace Kore

inductive KSort where
  | var (name : Nat)
  | app (name : Nat)
deriving Repr, Inhabited, DecidableEq

inductive KTerm where
  | evar (name : Nat)
  | app (sym : Nat) (sorts : List KSort) (args : List KTerm)
  | dv (s : KSort) (value : Nat)
  | top (s : KSort)
  | bottom (s : KSort)
  | not (s : KSort) (p : KTerm)
  | next (s : KSort) (p : KTerm)
  | and (s : KSort) (l r : KTerm)
  | or (s : KSort) (l r : KTerm)
  | implies (s : KSort) (l r : KTerm)
  | iff (s : KSort) (l r : KTerm)
  | rewrites (s : KSort) (l r : KTerm)
  | ceil (s1 s2 : KSort) (p : KTerm)
  | floor (s1 s2 : KSort) (p : KTerm)
  | equals (s1 s2 : KSort) (l r : KTerm)
  | kin (s1 s2 : KSort) (l r : KTerm)
deriving Repr, Inhabited

/-- `KSymbol` (what the conversion and the trace generator use of it) -/
structure SymDecl where
  name : Nat
  nSortParams : Nat
  nInputs : Nat
  isCell : Bool := false
  isFunctional : Bool := false
  /-- the symbol named `kseq` uses the fixed notation `kore-kseq` -/
  isKseq : Bool := false
deriving Repr, Inhabited

structure Sig where
  sorts : List Nat
  symbols : List SymDecl
deriving Repr, Inhabited

def sortSym (n : Nat) : NPat := .sym (2000 + 2 * n)
def symSym (n : Nat) : NPat := .sym (2001 + 2 * n)
def dvSym (v : Nat) : NPat := .sym (100000 + v)

/-- definition and arity of a fixed notation of `proofs/kore.py` -/
def koreNotation (label : String) : Option (NPat × Nat) :=
  (Gen.notations.find? fun e => e.group == "kore" && e.label == label).map fun e => (e.definition, e.arity)

/-- `Notation.__call__`: `Instantiate(definition, {0: a₀, 1: a₁, …})` (asserting the arity) -/
def applyDef (definition : NPat) (arity : Nat) (args : List NPat) : Option NPat :=
  if args.length = arity then some (.inst definition ((List.range arity).zip args)) else none

def applyN (label : String) (args : List NPat) : Option NPat := do
  let (d, a) ← koreNotation label
  applyDef d a args

/-- `nary_app(symbol, n, cell).definition` -/
def naryDef (sym : NPat) (n : Nat) : NPat :=
  (List.range n).foldl (fun p i => .app p (.mv i [] [] [] [] [])) sym

/-- `ConvertionScope` -/
structure Scope where
  mvs : List Nat := []
  sortParams : List Nat := []
deriving Repr, Inhabited

def sortParamBase : Nat := 100

/-- `resolve_metavar(name)` -/
def Scope.resolveMv (sc : Scope) (x : Nat) : Scope × Nat :=
  match sc.mvs.idxOf? x with
  | some i => (sc, i)
  | none => ({ sc with mvs := sc.mvs ++ [x] }, sc.mvs.length)

/-- `resolve_sort_param_metavar(name)` -/
def Scope.resolveSortParam (sc : Scope) (x : Nat) : Scope × Nat :=
  match sc.sortParams.idxOf? x with
  | some i => (sc, sortParamBase + i)
  | none => ({ sc with sortParams := sc.sortParams ++ [x] }, sortParamBase + sc.sortParams.length)

def mvN (i : Nat) : NPat := .mv i [] [] [] [] []

/-- `_convert_sort` -/
def convSort (sg : Sig) (sc : Scope) : KSort → Option (Scope × NPat)
  | .var x => let (sc', i) := sc.resolveSortParam x; some (sc', mvN i)
  | .app n => if sg.sorts.contains n then some (sc, sortSym n) else none

def convSorts (sg : Sig) : Scope → List KSort → Option (Scope × List NPat)
  | sc, [] => some (sc, [])
  | sc, s :: ss => do
      let (sc1, p) ← convSort sg sc s
      let (sc2, ps) ← convSorts sg sc1 ss
      pure (sc2, p :: ps)

mutual
/-- `_convert_pattern` (sub-terms are converted in the order the Python code evaluates them) -/
def conv (sg : Sig) : Scope → KTerm → Option (Scope × NPat)
  | sc, .evar x => let (sc', i) := sc.resolveMv x; some (sc', mvN i)
  | sc, .app f sorts args => do
      let d ← sg.symbols.find? (·.name == f)            -- `get_symbol`: ValueError
      let (sc1, sp) ← convSorts sg sc sorts
      let (sc2, ap) ← convList sg sc1 args
      let r ← if d.isKseq then applyN "kore-kseq" (sp ++ ap)
              else applyDef (naryDef (symSym f) (d.nSortParams + d.nInputs)) (d.nSortParams + d.nInputs) (sp ++ ap)
      pure (sc2, r)
  | sc, .dv s v => do
      let (sc1, sp) ← convSort sg sc s
      pure (sc1, ← applyN "kore-dv" [sp, dvSym v])
  | sc, .top s => do
      let (sc1, sp) ← convSort sg sc s
      pure (sc1, ← applyN "kore-top" [sp])
  | sc, .bottom s => do
      let (sc1, sp) ← convSort sg sc s
      pure (sc1, ← applyN "kore-bottom" [sp])
  | sc, .not s p => do
      let (sc1, sp) ← convSort sg sc s
      let (sc2, a) ← conv sg sc1 p
      pure (sc2, ← applyN "kore-not" [sp, a])
  | sc, .next s p => do
      let (sc1, sp) ← convSort sg sc s
      let (sc2, a) ← conv sg sc1 p
      pure (sc2, ← applyN "kore-next" [sp, a])
  | sc, .and s l r => do
      let (sc1, sp) ← convSort sg sc s
      let (sc2, a) ← conv sg sc1 l
      let (sc3, b) ← conv sg sc2 r
      pure (sc3, ← applyN "kore-and" [sp, a, b])
  | sc, .or s l r => do
      let (sc1, sp) ← convSort sg sc s
      let (sc2, a) ← conv sg sc1 l
      let (sc3, b) ← conv sg sc2 r
      pure (sc3, ← applyN "kore-or" [sp, a, b])
  | sc, .implies s l r => do
      let (sc1, sp) ← convSort sg sc s
      let (sc2, a) ← conv sg sc1 l
      let (sc3, b) ← conv sg sc2 r
      pure (sc3, ← applyN "kore-implies" [sp, a, b])
  | sc, .iff s l r => do
      let (sc1, sp) ← convSort sg sc s
      let (sc2, a) ← conv sg sc1 l
      let (sc3, b) ← conv sg sc2 r
      pure (sc3, ← applyN "kore-iff" [sp, a, b])
  | sc, .rewrites s l r => do
      let (sc1, sp) ← convSort sg sc s
      let (sc2, a) ← conv sg sc1 l
      let (sc3, b) ← conv sg sc2 r
      pure (sc3, ← applyN "kore-rewrites" [sp, a, b])
  | sc, .ceil s1 s2 p => do
      let (sc1, p1) ← convSort sg sc s1
      let (sc2, p2) ← convSort sg sc1 s2
      let (sc3, a) ← conv sg sc2 p
      pure (sc3, ← applyN "kore-ceil" [p1, p2, a])
  | sc, .floor s1 s2 p => do
      let (sc1, p1) ← convSort sg sc s1
      let (sc2, p2) ← convSort sg sc1 s2
      let (sc3, a) ← conv sg sc2 p
      pure (sc3, ← applyN "kore-floor" [p1, p2, a])
  | sc, .equals s1 s2 l r => do
      let (sc1, p1) ← convSort sg sc s1
      let (sc2, p2) ← convSort sg sc1 s2
      let (sc3, a) ← conv sg sc2 l
      let (sc4, b) ← conv sg sc3 r
      pure (sc4, ← applyN "kore-equals" [p1, p2, a, b])
  | sc, .kin s1 s2 l r => do
      let (sc1, p1) ← convSort sg sc s1
      let (sc2, p2) ← convSort sg sc1 s2
      let (sc3, a) ← conv sg sc2 l
      let (sc4, b) ← conv sg sc3 r
      pure (sc4, ← applyN "kore-in" [p1, p2, a, b])
def convList (sg : Sig) : Scope → List KTerm → Option (Scope × List NPat)
  | sc, [] => some (sc, [])
  | sc, t :: ts => do
      let (sc1, p) ← conv sg sc t
      let (sc2, ps) ← convList sg sc1 ts
      pure (sc2, p :: ps)
end

/-- `convert_pattern`: a fresh scope per call -/
def convertPattern (sg : Sig) (t : KTerm) : Option NPat := (conv sg {} t).map (·.2)

/-- `convert_substitutions(subst, ordinal)` with the cached scope of the axiom: the key is
`scope.lookup_metavar(name).name` (`KeyError` for an unknown variable), the value is converted in the
same scope object (which it may extend); a later entry for the same key replaces the earlier one but
keeps its position (Python `dict`) -/
def convertSubst (sg : Sig) : Scope → List (Nat × KTerm) → List (Nat × NPat) → Option (Scope × List (Nat × NPat))
  | sc, [], acc => some (sc, acc)
  | sc, (x, t) :: r, acc => do
      let i ← sc.mvs.idxOf? x
      let (sc1, p) ← conv sg sc t
      let acc' := if acc.any (·.1 == i) then acc.map (fun (k, v) => if k == i then (k, p) else (k, v)) else acc ++ [(i, p)]
      convertSubst sg sc1 r acc'

/-! ## the proof module of an execution trace -/

/-- `deconstruct_nary_application`: head and arguments of an application spine, looking through notation -/
def spineF : Nat → NPat → Option (NPat × List NPat)
  | 0, _ => none
  | n + 1, p => do
      match ← NPat.headF n p with
      | .app l r => do
          let (h, args) ← spineF n l
          pure (h, args ++ [r])
      | q => pure (q, [])

/-- `ExecutionProofExp` (the part that changes): current configuration, axioms, claims, proof expressions -/
structure ExecSt where
  curr : NPat
  axioms : List NPat
  claims : List NPat
  proofs : List Pf
deriving Repr, Inhabited

def memF (n : Nat) (p : NPat) : List NPat → Option Bool
  | [] => some false
  | q :: r => do if ← NPat.peqF n q p then pure true else memF n p r

/-- `add_axiom`: append unless an equal pattern is already there -/
def addAxiomF (n : Nat) (axs : List NPat) (p : NPat) : Option (List NPat) := do
  if ← memF n p axs then pure axs else pure (axs ++ [p])

/-- `functional(p)` (`proofs/definedness.py`) -/
def functionalOf (p : NPat) : Option NPat :=
  (Gen.notations.find? fun e => e.group == "definedness" && e.label == "functional").bind fun e =>
    applyDef e.definition e.arity [p]

/-- `collect_functional_axioms` + `add_assumptions` for one substitution -/
def addFunctionalF (sg : Sig) (n : Nat) : List NPat → List (Nat × NPat) → Option (Option (List NPat))
  | axs, [] => some (some axs)
  | axs, (_, p) :: r => do
      let (h, _) ← spineF n p
      match h with
      | .sym s =>
          -- `resolve_to_ksymbol`: the symbol must be `ksym_<name>` of a declared functional symbol
          if s ≥ 2001 ∧ s < 100000 ∧ (s - 2001) % 2 = 0 then
            match sg.symbols.find? (·.name == (s - 2001) / 2) with
            | some d =>
                if d.isFunctional then
                  match functionalOf p with
                  | none => pure none
                  | some f => do addFunctionalF sg n (← addAxiomF n axs f) r
                else pure none
            | none => pure none
          else pure none
      | _ => pure none

/-- `rewrite_event(rule, substitution)`; `allowRepeat = false` models the tree before the `fix:` commit
that lets a claim occur twice (`ProofExp.add_claim` asserted `claim not in self._claims`).
outer `Option` = fuel, inner = an exception -/
def rewriteEventF (sg : Sig) (n : Nat) (st : ExecSt) (rule : NPat) (σ : List (Nat × NPat)) : Option (Option ExecSt) := do
  let inst ← NPat.instF n σ rule
  let some (rw, ar) := koreNotation "kore-rewrites" | pure none
  match ← NPat.notationMatchesF n rw ar inst with
  | some [_, lhs, rhs] =>
      if !(← NPat.peqF n lhs st.curr) then pure none else
      -- the functional assumptions are collected (and may raise) before anything is added
      match ← addFunctionalF sg n st.axioms σ with
      | none => pure none
      | some axs1 => do
        let axs2 ← addAxiomF n axs1 rule
        let pf : Pf := if σ.isEmpty then .loadAxiom rule else .dynInst (.loadAxiom rule) σ
        pure (some { curr := rhs, axioms := axs2, claims := st.claims ++ [inst], proofs := st.proofs ++ [pf] })
  | _ => pure none

/-- `from_proof_hints`: the steps of a trace in order, starting from `init` -/
def traceF (sg : Sig) (n : Nat) : ExecSt → List (NPat × List (Nat × NPat)) → Option (Option ExecSt)
  | st, [] => some (some st)
  | st, (rule, σ) :: r => do
      match ← rewriteEventF sg n st rule σ with
      | none => pure none
      | some st' => traceF sg n st' r

def initSt (init : NPat) : ExecSt := { curr := init, axioms := [], claims := [], proofs := [] }

end Kore

/-! ## specification-level notions used by the theorems (not part of the executable pipeline) -/
namespace Kore

mutual
/-- Kore-level substitution of element variables (what "the substituted rule" means) -/
def KTerm.subst (σ : List (Nat × KTerm)) : KTerm → KTerm
  | .evar x => (σ.lookup x).getD (.evar x)
  | .app f ss as => .app f ss (substList σ as)
  | .dv s v => .dv s v
  | .top s => .top s
  | .bottom s => .bottom s
  | .not s p => .not s (KTerm.subst σ p)
  | .next s p => .next s (KTerm.subst σ p)
  | .and s l r => .and s (KTerm.subst σ l) (KTerm.subst σ r)
  | .or s l r => .or s (KTerm.subst σ l) (KTerm.subst σ r)
  | .implies s l r => .implies s (KTerm.subst σ l) (KTerm.subst σ r)
  | .iff s l r => .iff s (KTerm.subst σ l) (KTerm.subst σ r)
  | .rewrites s l r => .rewrites s (KTerm.subst σ l) (KTerm.subst σ r)
  | .ceil a b p => .ceil a b (KTerm.subst σ p)
  | .floor a b p => .floor a b (KTerm.subst σ p)
  | .equals a b l r => .equals a b (KTerm.subst σ l) (KTerm.subst σ r)
  | .kin a b l r => .kin a b (KTerm.subst σ l) (KTerm.subst σ r)
def substList (σ : List (Nat × KTerm)) : List KTerm → List KTerm
  | [] => []
  | t :: ts => KTerm.subst σ t :: substList σ ts
end

def KSort.ground : KSort → Bool
  | .var _ => false
  | .app _ => true

mutual
/-- no element variables and no sort variables -/
def KTerm.ground : KTerm → Bool
  | .evar _ => false
  | .app _ ss as => ss.all KSort.ground && groundList as
  | .dv s _ => s.ground
  | .top s => s.ground
  | .bottom s => s.ground
  | .not s p => s.ground && KTerm.ground p
  | .next s p => s.ground && KTerm.ground p
  | .and s l r => s.ground && KTerm.ground l && KTerm.ground r
  | .or s l r => s.ground && KTerm.ground l && KTerm.ground r
  | .implies s l r => s.ground && KTerm.ground l && KTerm.ground r
  | .iff s l r => s.ground && KTerm.ground l && KTerm.ground r
  | .rewrites s l r => s.ground && KTerm.ground l && KTerm.ground r
  | .ceil a b p => a.ground && b.ground && KTerm.ground p
  | .floor a b p => a.ground && b.ground && KTerm.ground p
  | .equals a b l r => a.ground && b.ground && KTerm.ground l && KTerm.ground r
  | .kin a b l r => a.ground && b.ground && KTerm.ground l && KTerm.ground r
def groundList : List KTerm → Bool
  | [] => true
  | t :: ts => KTerm.ground t && groundList ts
end

mutual
/-- the element variables of a term in order of first occurrence (= the order in which `conv` meets them) -/
def KTerm.evars : KTerm → List Nat
  | .evar x => [x]
  | .app _ _ as => evarsList as
  | .dv _ _ => [] | .top _ => [] | .bottom _ => []
  | .not _ p => KTerm.evars p | .next _ p => KTerm.evars p
  | .and _ l r => KTerm.evars l ++ KTerm.evars r | .or _ l r => KTerm.evars l ++ KTerm.evars r
  | .implies _ l r => KTerm.evars l ++ KTerm.evars r | .iff _ l r => KTerm.evars l ++ KTerm.evars r
  | .rewrites _ l r => KTerm.evars l ++ KTerm.evars r
  | .ceil _ _ p => KTerm.evars p | .floor _ _ p => KTerm.evars p
  | .equals _ _ l r => KTerm.evars l ++ KTerm.evars r | .kin _ _ l r => KTerm.evars l ++ KTerm.evars r
def evarsList : List KTerm → List Nat
  | [] => []
  | t :: ts => KTerm.evars t ++ evarsList ts
end

/-- the claims of a chain: `Linked n cur claims final` — every claim is a `kore-rewrites` whose left side
is `==` to the configuration reached so far, and `final` is the last right side -/
def Linked (n : Nat) : NPat → List NPat → NPat → Prop
  | cur, [], final => final = cur
  | cur, c :: cs, final =>
      ∃ rw ar s lhs rhs, koreNotation "kore-rewrites" = some (rw, ar) ∧
        NPat.notationMatchesF n rw ar c = some (some [s, lhs, rhs]) ∧
        NPat.peqF n lhs cur = some true ∧ Linked n rhs cs final

end Kore
