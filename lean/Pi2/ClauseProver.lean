import Pi2.ClauseThm
/-!
# The generated prover WITH proof objects, closed: `prove_tautology` over the generated `prove_trivial_clause` and
`build_proof_from_hint`

* `bpfh_erase`, `sra_erase`: the data component of the generated `build_proof_from_hint` / `start_resolution_algorithm`
  (with proof objects) is the data slice `Gen.PyTaut` (which `Pi2/TautTie.lean` ties to the model);
* `stage_prover_sound`: at ANY fuel, whatever the generated `prove_tautology` with proof objects answers, the model
  `proveTautology` answers (verdict) at every sufficient fuel — hence (`C09.prover_returns_proof_iff`) the verdict is right
  and the proof object PROVES the pattern / its negation.
-/
set_option linter.unusedSimpArgs false
open Pat

namespace ClauseThm
open Lem StageSup Gen.PyTaut TautSup TautTie StageThm

/-- the generated `prove_trivial_clause` / `build_proof_from_hint`, on conclusions and on proof trees -/
abbrev ptcC := Gen.Clause.prove_trivial_clause algCS
abbrev bpfhC := Gen.Clause.build_proof_from_hint algCS
abbrev ptcG := Gen.Clause.prove_trivial_clause algGS
abbrev bpfhG := Gen.Clause.build_proof_from_hint algGS

theorem pyAssert_some (b : Bool) : pyAssert b = some () ↔ b = true := by
  cases b <;> simp [pyAssert]

/-- the data component of `build_proof_from_hint` with proof objects is the data slice -/
theorem bpfh_erase : ∀ (F : Nat) (hint : StageThm.Hint) (cl : FrozenSet) (terms : List (List Int)) (r : List Int) (p : Pat),
    bpfhC F hint cl terms = some (r, p) → Gen.PyTaut.build_proof_from_hint F hint cl terms = some (r, ()) := by
  intro F
  induction F with
  | zero => intro hint cl terms r p h; simp [bpfhC, Gen.Clause.build_proof_from_hint] at h
  | succ f ih =>
    intro hint cl terms r p h
    unfold bpfhC at h
    rw [Gen.Clause.build_proof_from_hint] at h
    rw [Gen.PyTaut.build_proof_from_hint]
    simp only [Option.pure_def, Option.bind_eq_bind] at h ⊢
    cases hg : dictGet hint cl with
    | none => simp [hg] at h
    | some res =>
      cases res with
      | inr idx =>
        simp only [hg, Option.bind_some, Option.bind_eq_some_iff, Option.some.injEq, Prod.mk.injEq] at h ⊢
        obtain ⟨t, _, r', hr', q, _, rfl, _⟩ := h
        exact ⟨r', hr', by simp⟩
      | inl src =>
        obtain ⟨L0, R0, r0⟩ := src
        simp only [hg, Option.bind_some, ResolutionHintSource.left_set, ResolutionHintSource.right_set,
          ResolutionHintSource.resolvant, Option.bind_eq_some_iff] at h
        obtain ⟨rt, _, ⟨tl0, pl⟩, h3, ⟨tr0, pr⟩, h4, ⟨tl, sl⟩, h5, ⟨tr, sr⟩, h6, a, ha, _, ha', b, hb, _, hb', _, hc, rest⟩ := h
        have e3 := ih hint L0 terms tl0 pl h3
        have e4 := ih hint R0 terms tr0 pr h4
        have e5 := (simplify_clause_any f tl0 (-r0) tl sl h5).1
        have e6 := (simplify_clause_any f tr0 r0 tr sr h6).1
        have hr : r = pySliceFrom tl 1 ++ pySliceFrom tr 1 := by
          obtain ⟨_, _, _, _, _, _, _, _, _, _, _, _, heq⟩ := rest
          simp only [Option.some.injEq, Prod.mk.injEq] at heq
          exact heq.1.symm
        simp only [hg, Option.bind_some, ResolutionHintSource.left_set, ResolutionHintSource.right_set,
          ResolutionHintSource.resolvant, e3, e4, simplify_clause_eq]
        unfold simplified at e5 e6
        rw [← e5, ← e6]
        simp only [ha, ha', hb, hb', hc, Option.bind_some, hr]

theorem sra_for1_erase {τ} (A : SAlg τ) (ptc : Nat → List Int → Option τ)
    (bpfh : Nat → StageThm.Hint → FrozenSet → List (List Int) → Option (List Int × τ)) :
    ∀ (l : List (Int × FrozenSet)) (hint : StageThm.Hint),
    Gen.Stage.start_resolution_algorithm_for1 A ptc bpfh l hint = Gen.PyTaut.start_resolution_algorithm_for1 l hint := by
  intro l
  induction l with
  | nil => intro hint; rfl
  | cons x l ih =>
    intro hint
    obtain ⟨i, c⟩ := x
    simp only [Gen.Stage.start_resolution_algorithm_for1, Gen.PyTaut.start_resolution_algorithm_for1, ih]

/-- the data component of `start_resolution_algorithm` with proof objects is the data slice -/
theorem sra_erase (F : Nat) (cls : List (List Int)) (v : Option (Bool × Pat))
    (h : Gen.Stage.start_resolution_algorithm algCS ptcC bpfhC F cls = some v) :
    Gen.PyTaut.start_resolution_algorithm F cls = some (v.map fun p => (p.1, ())) := by
  simp only [Gen.Stage.start_resolution_algorithm, Option.pure_def, Option.bind_eq_bind, bind_some_eta, sra_for1_erase] at h
  simp only [Gen.PyTaut.start_resolution_algorithm, Option.pure_def, Option.bind_eq_bind]
  by_cases hne : cls = []
  · subst hne
    simp [StageThm.lib_top_intro] at h
    subst h
    simp
  · have hie : cls.isEmpty = false := by cases cls <;> simp_all
    simp only [hie, Bool.not_false, Bool.not_true, Bool.false_eq_true, if_false] at h ⊢
    cases hX : Gen.PyTaut.start_resolution_algorithm_for1 (pyEnumerate (List.map (fun cl => fsOfList cl) cls)) [] with
    | none => simp [hX] at h
    | some hint =>
      simp only [hX, Option.bind_some] at h ⊢
      by_cases ht : (!dictTruthy hint) = true
      · simp only [ht, if_true] at h ⊢
        by_cases hl : (pyLen cls == (1 : Int)) = true
        · simp only [hl, if_true, Option.bind_eq_some_iff, Option.some.injEq] at h ⊢
          obtain ⟨_, _, t4, _, rfl⟩ := h
          rfl
        · simp only [hl, Bool.false_eq_true, if_false, Option.bind_eq_some_iff, Option.some.injEq] at h ⊢
          obtain ⟨_, _, _, _, _, _, _, _, prf, _, rfl⟩ := h
          rfl
      · simp only [ht, Bool.false_eq_true, if_false] at h ⊢
        cases h2 : resolution_algorithm F hint (dictKeys hint) with
        | none => simp [h2] at h
        | some rr =>
          obtain ⟨t, hint', l'⟩ := rr
          simp only [h2, Option.bind_some] at h ⊢
          cases t with
          | false => simp at h ⊢; subst h; rfl
          | true =>
            simp only [Bool.not_true, Bool.false_eq_true, if_false, Option.bind_eq_some_iff] at h
            obtain ⟨⟨rl, pf⟩, h3, _, hassert, heq⟩ := h
            have e3 := bpfh_erase F hint' _ cls rl pf h3
            simp only [Option.some.injEq] at heq
            subst heq
            have ha : pyAssert rl.isEmpty = some () := by simpa using hassert
            simp [e3, ha]

/-- **the generated prover with proof objects, on conclusions, answers as the model**: at ANY fuel, whatever it returns,
the model `proveTautology` returns the same verdict at every sufficient fuel -/
theorem stage_prover_sound (n : Nat) (f : Form) (v : Option (Bool × Pat))
    (h : Gen.Stage.prove_tautology algCS ptcC bpfhC n f = some v) :
    ∃ N, ∀ m, proveTautology (N + m) f = some (v.map (·.1)) := by
  simp only [Gen.Stage.prove_tautology, Option.pure_def, Option.bind_eq_bind] at h
  cases h1 : Gen.Stage.to_conj_form algCS n (TautSup.neg f) with
  | none => simp [h1] at h
  | some r1 =>
    have e1 := to_conj_form_C_any _ n r1 h1
    subst e1
    simp only [h1, Option.bind_some, conjSpec] at h
    have hshape := CF.ofForm_shape (TautSup.neg f)
    cases hb : (CF.ofForm (TautSup.neg f)).isBot with
    | true =>
      cases hc : CF.ofForm (TautSup.neg f) with
      | bot bb =>
        have hc' : CF.ofForm (Form.neg f) = CF.bot bb := hc
        cases bb <;>
          simp [hc, ofCF, CF.isBot, CF.negated, ConjForm.isCFBot, ConjForm.negated, toPat_neg, StageThm.lib_dneg_elim, mpC_imp] at h <;>
          subst h <;> exact ⟨0, fun m => by simp [proveTautology, hc']⟩
      | var b i => simp [hc, CF.isBot] at hb
      | or b l r => simp [hc, CF.isBot] at hb
      | and b l r => simp [hc, CF.isBot] at hb
    | false =>
      generalize hc : CF.ofForm (TautSup.neg f) = c at h hshape hb
      have hc' : CF.ofForm (Form.neg f) = c := hc
      have hor : c.IsOrTree = true := by
        rcases hshape with h' | h'
        · rw [hb] at h'; cases h'
        · exact h'
      have hnb : (ofCF c).isCFBot = false := by simpa using hb
      simp only [hb, hnb, Bool.false_eq_true, if_false, pyAssert, Option.isSome_some, if_true, Option.bind_some] at h
      cases h2 : Gen.Stage.propag_neg algCS n (ofCF c) with
      | none => simp [h2] at h
      | some r2 =>
        obtain ⟨c2, hc2, e2⟩ := propag_neg_C_any c n r2 h2
        subst e2
        obtain ⟨c2', hc2', _, hnnf⟩ := CF.propagNeg_spec c hor
        rw [hc2] at hc2'
        cases hc2'
        simp only [h2, Option.bind_some, pfPair, to_cnf_C n c2 hnnf] at h
        cases h3 : CF.toCnfF n c2 with
        | none => simp [h3] at h
        | some c3 =>
          have hcnf := (CF.toCnfF_spec n c2 c3 hnnf h3).2
          simp only [h3, Option.map_some, Option.bind_some, pfPair] at h
          cases h4 : Gen.Stage.to_clauses algCS n (ofCF c3) with
          | none => simp [h4] at h
          | some r4 =>
            obtain ⟨cls, hcls, e4⟩ := to_clauses_C_any c3 hcnf n r4 h4
            subst e4
            simp only [h4, Option.bind_some, clSpec] at h
            cases h5 : Gen.Stage.start_resolution_algorithm algCS ptcC bpfhC n cls with
            | none => simp [h5] at h
            | some res =>
              have h5' := sra_erase n cls res h5
              obtain ⟨N, hN⟩ := start_sound n cls (toClauses_noZero c3 cls hcls) _ h5'
              refine ⟨n + N, fun m => ?_⟩
              have e1 : CF.toCnfF (n + N + m) c2 = some c3 := by
                have := toCnfF_mono_add n (N + m) c2 c3 h3
                rwa [← Nat.add_assoc] at this
              have e2 : Res.start (n + N + m) cls = some ((res.map fun p => (p.1, ())).map (·.1)) := by
                have := hN (n + m)
                have e : N + (n + m) = n + N + m := by omega
                rwa [e] at this
              rw [proveTautology_nonbot _ _ (by rw [hc']; exact hb), hc']
              simp only [Option.bind_eq_bind, hc2, e1, hcls, e2, Option.bind_some, Option.pure_def]
              cases res with
              | none => simp [h5] at h; subst h; rfl
              | some bp =>
                obtain ⟨pt, pf⟩ := bp
                cases pt <;> simp [h5, Option.bind_eq_some_iff] at h
                · obtain ⟨_, _, _, _, _, _, _, _, _, _, _, _, rfl⟩ := h; rfl
                · obtain ⟨_, _, _, _, _, _, _, _, rfl⟩ := h; rfl

end ClauseThm
