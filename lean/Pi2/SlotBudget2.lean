import Pi2.SlotBudget
import Pi2.NotTie
import Pi2.NotationTotal
/-!
# The slot budget, continued: the remaining hypotheses of `Props/C03b.lean`

* Part A (`collect_frame`, `reachable_frame`): the recording calls of the counting pass write `_pattern_usage` only.
* Part B (`RunReach`): the counting RUN — recording calls and the inherited `publish_axiom` — and its memory.
* Part C (`seq_facts`): on patterns whose argument maps have distinct keys (`NotTie.DK`) the structural comparison
  `NPat.seq` (hash + field equality) implies `==` (equal expansions), transports `Shape`, and preserves the nesting depth.
* Part D: the memoising run again, for EVERY configuration (`memo = none`: the run the analyser sees; `memo = some S`), under
  a condition on `S` that the set returned by `finalize` does satisfy (`Canon2`).
-/
set_option linter.unusedVariables false
set_option linter.unusedSimpArgs false
set_option linter.unusedSectionVars false

namespace SlotBudget2

/-! ## Part A: the recording calls write `_pattern_usage` only -/
section frame
open CountSup Gen.PyCount CountDet
variable {K : Type} [DecidableEq K] [PyPattern K]

/-- `s'` differs from `s` in `_pattern_usage` at most -/
def Frame (s s' : Self K) : Prop :=
  s'.memory = s.memory ∧ s'._max_allowed_slots = s._max_allowed_slots ∧ s'._finalized = s._finalized ∧
  s'._saved_by_implementation = s._saved_by_implementation ∧
  s'._suggested_for_memoization = s._suggested_for_memoization

theorem Frame.rfl' (s : Self K) : Frame s s := ⟨rfl, rfl, rfl, rfl, rfl⟩

theorem Frame.trans {a b c : Self K} (h1 : Frame a b) (h2 : Frame b c) : Frame a c :=
  ⟨h2.1.trans h1.1, h2.2.1.trans h1.2.1, h2.2.2.1.trans h1.2.2.1, h2.2.2.2.1.trans h1.2.2.2.1,
    h2.2.2.2.2.trans h1.2.2.2.2⟩

theorem Frame.withU (s : Self K) (U : UD K) : Frame s { s with _pattern_usage := U } := ⟨rfl, rfl, rfl, rfl, rfl⟩

theorem for3_frame {stats : Stats K} {key : K} {self self' : Self K} {cu : K} {n : Int}
    (h : _collect_patterns_for3 stats key self (cu, n) = some self') : Frame self self' := by
  simp only [_collect_patterns_for3] at h
  cases h1 : dictGet self._pattern_usage key with
  | none => simp [h1] at h
  | some e =>
    simp only [h1, Option.bind_eq_bind, Option.bind_some, dictGet_set_eq] at h
    cases h2 : dictGet (dictSetDefault e.used_patterns cu 0) cu with
    | none => simp [h2] at h
    | some v =>
      simp only [h2, Option.bind_some, Option.pure_def, Option.some.injEq] at h
      subst h
      exact ⟨rfl, rfl, rfl, rfl, rfl⟩

theorem for2_frame {stats : Stats K} {key : K} {self self' : Self K} {child : K}
    (h : _collect_patterns_for2 stats key self child = some self') : Frame self self' := by
  simp only [_collect_patterns_for2] at h
  cases h0 : dictGet self._pattern_usage child with
  | none => simp [h0] at h
  | some cst =>
    cases h1 : dictGet self._pattern_usage key with
    | none => simp [h0, h1] at h
    | some e =>
      simp only [h0, h1, Option.bind_eq_bind, Option.bind_some, dictGet_set_eq] at h
      cases h2 : dictGet (dictSetDefault e.used_patterns child 0) child with
      | none => simp [h2] at h
      | some v =>
        simp only [h2, Option.bind_some] at h
        obtain ⟨cst', hc', hf⟩ := bind_eq_some' h
        refine foldlM_inv (fun (s : Self K) => Frame self s) _ ?_ _ _ _ ?_ hf
        · intro s a s' hI hst
          obtain ⟨cu, n⟩ := a
          exact hI.trans (for3_frame hst)
        · exact ⟨rfl, rfl, rfl, rfl, rfl⟩

/-- **frame lemma**: `_collect_patterns` (hence each of the sixteen recording methods, `recording_methods_collect`) writes
`_pattern_usage` only -/
theorem collect_frame : ∀ (fuel : Nat) (self self' : Self K) (p : K),
    _collect_patterns fuel self p = some self' → Frame self self' := by
  intro fuel
  induction fuel with
  | zero => intro self self' p h; simp [_collect_patterns] at h
  | succ n ih =>
    intro self self' p h
    simp only [_collect_patterns, Option.bind_eq_bind, Option.pure_def] at h
    obtain ⟨children, hch, h⟩ := bind_eq_some' h
    by_cases hin : dictContains self._pattern_usage p = true
    · simp only [hin, Bool.not_true] at h
      cases hg : dictGet self._pattern_usage p with
      | none => simp [hg] at h
      | some e =>
        simp [hg] at h
        subst h
        exact ⟨rfl, rfl, rfl, rfl, rfl⟩
    · have hin' : dictContains self._pattern_usage p = false := by
        cases h' : dictContains self._pattern_usage p with
        | false => rfl
        | true => exact absurd h' hin
      simp only [hin', Bool.not_false, if_true] at h
      obtain ⟨selfA, hA, h⟩ := bind_eq_some' h
      have fA : Frame self selfA := by
        refine foldlM_inv (fun (s : Self K) => Frame self s) _ ?_ _ _ _ ?_ hA
        · intro s a s' hI hst
          exact hI.trans (ih _ _ _ hst)
        · exact ⟨rfl, rfl, rfl, rfl, rfl⟩
      obtain ⟨eA, hgA, h⟩ := bind_eq_some' h
      obtain ⟨eA', hgA', h⟩ := bind_eq_some' h
      obtain ⟨comp, _, h⟩ := bind_eq_some' h
      simp only [dictGet_set_eq, Option.bind_some] at h
      refine foldlM_inv (fun (s : Self K) => Frame self s) _ ?_ _ _ _ ?_ h
      · intro s a s' hI hst
        exact hI.trans (for2_frame hst)
      · exact fA.trans ⟨rfl, rfl, rfl, rfl, rfl⟩

/-- every analyser state the recording phase can reach (`CountDet.Reachable`: `__init__`, recorded patterns, any memory)
has suggested nothing, holds the budget 256, and is not finalised -/
theorem reachable_frame {σ : Self K} (h : Reachable σ) :
    σ._suggested_for_memoization = [] ∧ σ._max_allowed_slots = 256 ∧ σ._finalized = false := by
  induction h with
  | init => exact ⟨rfl, rfl, rfl⟩
  | collect fuel p _ hc ih =>
    obtain ⟨_, h2, h3, _, h5⟩ := collect_frame fuel _ _ p hc
    exact ⟨h5.trans ih.1, h2.trans ih.2.1, h3.trans ih.2.2⟩
  | memory mem _ ih => exact ih

/-! ## Part B: the counting run -/

/-- the counting RUN: `__init__`, the recording calls (`_collect_patterns` of the value the inherited method returns) and
the inherited `StatefulInterpreter.publish_axiom` (`self.memory.append(Proved(axiom))`; `CountingInterpreter` does not
override it, so it is not in the translated text); the index lists the published axioms -/
inductive RunReach : List K → Self K → Prop
  | init : RunReach [] (init : Self K)
  | collect {k : List K} {σ σ' : Self K} (fuel : Nat) (p : K) :
      RunReach k σ → _collect_patterns fuel σ p = some σ' → RunReach k σ'
  | publish {k : List K} {σ : Self K} (a : K) :
      RunReach k σ → RunReach (k ++ [a]) { σ with memory := σ.memory ++ [MemItem.proved ⟨a⟩] }

theorem RunReach.reachable {k : List K} {σ : Self K} (h : RunReach k σ) : Reachable σ := by
  induction h with
  | init => exact Reachable.init
  | collect fuel p _ hc ih => exact Reachable.collect fuel p ih hc
  | publish a _ ih => exact Reachable.memory _ ih

/-- in a counting run the memory holds exactly the published axioms, one entry per `publish_axiom` -/
theorem RunReach.memory_eq {k : List K} {σ : Self K} (h : RunReach k σ) :
    σ.memory = k.map fun a => MemItem.proved ⟨a⟩ := by
  induction h with
  | init => rfl
  | collect fuel p _ hc ih => exact (collect_frame fuel _ _ p hc).1.trans ih
  | publish a _ ih => simp [ih]

theorem RunReach.memory_length {k : List K} {σ : Self K} (h : RunReach k σ) : σ.memory.length = k.length := by
  rw [h.memory_eq, List.length_map]

end frame

/-! ## Part C: `seq ⊆ ==` on patterns whose argument maps have distinct keys -/
section seqfacts
open NPat NotTie

mutual
/-- nesting depth -/
def dep : NPat → Nat
  | .imp l r => max (dep l) (dep r) + 1
  | .app l r => max (dep l) (dep r) + 1
  | .ex _ p => dep p + 1
  | .mu _ p => dep p + 1
  | .esub p _ q => max (dep p) (dep q) + 1
  | .ssub p _ q => max (dep p) (dep q) + 1
  | .inst p m => max (dep p) (depMap m) + 1
  | _ => 0
def depMap : List (Nat × NPat) → Nat
  | [] => 0
  | (_, v) :: r => max (dep v) (depMap r)
end

theorem depMap_le_iff (m : List (Nat × NPat)) (n : Nat) : depMap m ≤ n ↔ ∀ kv ∈ m, dep kv.2 ≤ n := by
  induction m with
  | nil => simp [depMap]
  | cons kv r ih => obtain ⟨k, v⟩ := kv; simp [depMap, Nat.max_le, ih]

theorem ShapeMap_iff (m : List (Nat × NPat)) : ShapeMap m = true ↔ ∀ kv ∈ m, kv.2.Shape = true := by
  induction m with
  | nil => simp [ShapeMap]
  | cons kv r ih => obtain ⟨k, v⟩ := kv; simp [ShapeMap, ih]

theorem seqMap_iff (m m' : List (Nat × NPat)) :
    seq.seqMap m m' = true ↔ ∀ kv ∈ m, seq.seqAt kv.2 kv.1 m' = true := by
  induction m with
  | nil => simp [seq.seqMap]
  | cons kv r ih => obtain ⟨k, v⟩ := kv; simp [seq.seqMap, ih]

theorem seqAt_lookup (v : NPat) (k : Nat) (m' : List (Nat × NPat)) (h : seq.seqAt v k m' = true) :
    ∃ v', Py.lookup m' k = some v' ∧ seq v v' = true := by
  induction m' with
  | nil => simp [seq.seqAt] at h
  | cons kv r ih =>
    obtain ⟨k', v'⟩ := kv
    simp only [seq.seqAt] at h
    by_cases hk : k' = k
    · simp only [hk, if_true] at h
      exact ⟨v', by simp [Py.lookup, hk], h⟩
    · simp only [hk, if_false] at h
      obtain ⟨w, hw, hs⟩ := ih h
      exact ⟨w, by simp [Py.lookup, hk, hw], hs⟩

theorem lookup_of_mem_nodup {α} (m : List (Nat × α)) (hn : (m.map (·.1)).Nodup) {k : Nat} {v : α}
    (h : (k, v) ∈ m) : Py.lookup m k = some v := by
  induction m with
  | nil => cases h
  | cons kv r ih =>
    obtain ⟨k', v'⟩ := kv
    simp only [List.map_cons, List.nodup_cons] at hn
    rcases List.mem_cons.mp h with he | he
    · cases he; simp [Py.lookup]
    · have hne : k' ≠ k := by
        intro e; subst e
        exact hn.1 (List.mem_map.mpr ⟨(k', v), he, rfl⟩)
      simp only [Py.lookup, hne, if_false]
      exact ih hn.2 he

/-- pigeonhole: a duplicate-free list inside a list that is not longer contains it -/
theorem subset_of_nodup_length {α} [DecidableEq α] {l l' : List α} (hn : l.Nodup) (hs : l ⊆ l')
    (hl : l'.length ≤ l.length) : l' ⊆ l := by
  intro x hx
  by_cases hin : x ∈ l
  · exact hin
  · have h1 : (x :: l).Nodup := List.nodup_cons.mpr ⟨hin, hn⟩
    have h2 : (x :: l) ⊆ l' := by
      intro y hy
      rcases List.mem_cons.mp hy with rfl | hy
      · exact hx
      · exact hs hy
    have := List.Nodup.length_le_of_subset h1 h2
    simp at this; omega

/-- what `seq a c` gives: `a` is shaped, `a == c` (equal expansions), equal depth -/
def SeqP (a c : NPat) : Prop := a.Shape = true ∧ a.expand = c.expand ∧ dep a = dep c

/-- the argument maps -/
theorem seqMap_facts (m m' : List (Nat × NPat))
    (ih : ∀ kv ∈ m', ∀ a, seq a kv.2 = true → DK a = true → DK kv.2 = true → kv.2.Shape = true → SeqP a kv.2)
    (hs : seq.seqMap m m' = true) (hl : m.length = m'.length)
    (hdk : DKMap m = true) (hn : (keys m).Nodup) (hdk' : DKMap m' = true) (hn' : (keys m').Nodup)
    (hsh : ShapeMap m' = true) :
    ShapeMap m = true ∧ (∀ k, Py.lookup (expand.expandMap m) k = Py.lookup (expand.expandMap m') k) ∧
      depMap m = depMap m' := by
  have hpart : ∀ kv ∈ m, ∃ v', Py.lookup m' kv.1 = some v' ∧ (kv.1, v') ∈ m' ∧ SeqP kv.2 v' := by
    intro kv hkv
    obtain ⟨v', hv', hsv⟩ := seqAt_lookup _ _ _ ((seqMap_iff m m').mp hs kv hkv)
    have hmem := Py.lookup_mem _ _ _ hv'
    exact ⟨v', hv', hmem, ih _ hmem kv.2 hsv ((DKMap_iff m).mp hdk kv hkv) ((DKMap_iff m').mp hdk' _ hmem)
      ((ShapeMap_iff m').mp hsh _ hmem)⟩
  have hsub : keys m ⊆ keys m' := by
    intro k hk
    obtain ⟨kv, hkv, rfl⟩ := List.mem_map.mp hk
    obtain ⟨v', _, hmem, _⟩ := hpart kv hkv
    exact List.mem_map.mpr ⟨_, hmem, rfl⟩
  have hsub' : keys m' ⊆ keys m :=
    subset_of_nodup_length hn hsub (by simp [keys, hl])
  refine ⟨?_, ?_, ?_⟩
  · exact (ShapeMap_iff m).mpr fun kv hkv => by
      obtain ⟨v', _, _, h⟩ := hpart kv hkv; exact h.1
  · intro k
    rw [lookup_expandMap, lookup_expandMap]
    cases hk : Py.lookup m k with
    | some v =>
      obtain ⟨v', hv', _, h⟩ := hpart (k, v) (Py.lookup_mem _ _ _ hk)
      simp only at hv'
      rw [hv']; simp [h.2.1]
    | none =>
      have h1 : (keys m).contains k = false := lookup_none_keys m k hk
      have h2 : (keys m').contains k = false := by
        cases hc : (keys m').contains k with
        | false => rfl
        | true =>
          have : k ∈ keys m := hsub' (by simpa using hc)
          simp at h1; exact absurd this h1
      rw [lookup_none_of_not_keys m' k h2]
  · apply Nat.le_antisymm
    · refine (depMap_le_iff m _).mpr fun kv hkv => ?_
      obtain ⟨v', _, hmem, h⟩ := hpart kv hkv
      rw [h.2.2]
      exact (depMap_le_iff m' _).mp (Nat.le_refl _) _ hmem
    · refine (depMap_le_iff m' _).mpr fun kv' hkv' => ?_
      obtain ⟨k', v'⟩ := kv'
      have hk' : k' ∈ keys m := hsub' (List.mem_map.mpr ⟨_, hkv', rfl⟩)
      obtain ⟨kv, hkv, hkk⟩ := List.mem_map.mp hk'
      obtain ⟨w, hw, _, h⟩ := hpart kv hkv
      have hw' : Py.lookup m' k' = some v' := lookup_of_mem_nodup m' hn' hkv'
      rw [hkk, hw'] at hw
      cases hw
      show dep v' ≤ depMap m
      rw [← h.2.2]
      exact (depMap_le_iff m _).mp (Nat.le_refl _) _ hkv

mutual
/-- **`seq ⊆ ==`**: when every argument map of `a` and of `c` has distinct keys (`NotTie.DK`: the maps are `frozendict`s) and
`c` is shaped, a structural match `seq a c` (hash and field equality) gives: `a` is shaped, `a` and `c` have the same
expansion (so `a == c`, `seq_peq`), and the same nesting depth -/
theorem seq_facts : (c : NPat) → ∀ a, seq a c = true → DK a = true → DK c = true → c.Shape = true → SeqP a c
  | .evar y, a, h, _, _, _ => by cases a <;> simp [seq] at h; subst h; exact ⟨rfl, rfl, rfl⟩
  | .svar y, a, h, _, _, _ => by cases a <;> simp [seq] at h; subst h; exact ⟨rfl, rfl, rfl⟩
  | .sym y, a, h, _, _, _ => by cases a <;> simp [seq] at h; subst h; exact ⟨rfl, rfl, rfl⟩
  | .mv a1 b1 c1 d1 e1 f1, a, h, _, _, hs => by
      cases a <;> simp [seq] at h
      obtain ⟨⟨⟨⟨⟨rfl, rfl⟩, rfl⟩, rfl⟩, rfl⟩, rfl⟩ := h
      exact ⟨hs, rfl, rfl⟩
  | .imp l r, a, h, ha, hc, hs => by
      cases a <;> simp [seq] at h
      simp only [DK, Shape, Bool.and_eq_true] at ha hc hs
      obtain ⟨s1, e1, d1⟩ := seq_facts l _ h.1 ha.1 hc.1 hs.1
      obtain ⟨s2, e2, d2⟩ := seq_facts r _ h.2 ha.2 hc.2 hs.2
      exact ⟨by simp [Shape, s1, s2], by simp [expand, e1, e2], by simp [dep, d1, d2]⟩
  | .app l r, a, h, ha, hc, hs => by
      cases a <;> simp [seq] at h
      simp only [DK, Shape, Bool.and_eq_true] at ha hc hs
      obtain ⟨s1, e1, d1⟩ := seq_facts l _ h.1 ha.1 hc.1 hs.1
      obtain ⟨s2, e2, d2⟩ := seq_facts r _ h.2 ha.2 hc.2 hs.2
      exact ⟨by simp [Shape, s1, s2], by simp [expand, e1, e2], by simp [dep, d1, d2]⟩
  | .ex x p, a, h, ha, hc, hs => by
      cases a <;> simp [seq] at h
      simp only [DK, Shape] at ha hc hs
      obtain ⟨s1, e1, d1⟩ := seq_facts p _ h.2 ha hc hs
      exact ⟨by simp [Shape, s1], by simp [expand, e1, h.1], by simp [dep, d1]⟩
  | .mu x p, a, h, ha, hc, hs => by
      cases a <;> simp [seq] at h
      simp only [DK, Shape] at ha hc hs
      obtain ⟨s1, e1, d1⟩ := seq_facts p _ h.2 ha hc hs
      exact ⟨by simp [Shape, s1], by simp [expand, e1, h.1], by simp [dep, d1]⟩
  | .esub p x q, a, h, ha, hc, hs => by
      cases a with
      | esub p0 x0 q0 =>
        simp [seq] at h
        simp only [DK, Shape, Bool.and_eq_true] at ha hc hs
        obtain ⟨s1, e1, d1⟩ := seq_facts p _ h.1.1 ha.1 hc.1 hs.1.2
        obtain ⟨s2, e2, d2⟩ := seq_facts q _ h.2 ha.2 hc.2 hs.2
        have hm : p0.isMetaN = true := by
          have := hs.1.1
          cases p <;> cases p0 <;> simp_all [isMetaN, seq]
        exact ⟨by simp [Shape, s1, s2, hm], by simp [expand, e1, e2, h.1.2], by simp [dep, d1, d2]⟩
      | _ => simp [seq] at h
  | .ssub p x q, a, h, ha, hc, hs => by
      cases a with
      | ssub p0 x0 q0 =>
        simp [seq] at h
        simp only [DK, Shape, Bool.and_eq_true] at ha hc hs
        obtain ⟨s1, e1, d1⟩ := seq_facts p _ h.1.1 ha.1 hc.1 hs.1.2
        obtain ⟨s2, e2, d2⟩ := seq_facts q _ h.2 ha.2 hc.2 hs.2
        have hm : p0.isMetaN = true := by
          have := hs.1.1
          cases p <;> cases p0 <;> simp_all [isMetaN, seq]
        exact ⟨by simp [Shape, s1, s2, hm], by simp [expand, e1, e2, h.1.2], by simp [dep, d1, d2]⟩
      | _ => simp [seq] at h
  | .inst p m', a, h, ha, hc, hs => by
      cases a with
      | inst p0 m =>
        simp [seq] at h
        simp only [DK, Shape, Bool.and_eq_true, decide_eq_true_eq] at ha hc hs
        obtain ⟨s1, e1, d1⟩ := seq_facts p _ h.1.1 ha.1.1 hc.1.1 hs.1
        obtain ⟨s2, e2, d2⟩ := seqMap_facts m m' (seq_factsMap m') h.2 h.1.2 ha.1.2 ha.2 hc.1.2 hc.2 hs.2
        refine ⟨by simp [Shape, s1, s2], ?_, by simp [dep, d1, d2]⟩
        simp only [expand, e1]
        exact Py.inst_congr _ _ _ (fun k _ => e2 k)
      | _ => simp [seq] at h
theorem seq_factsMap : (m' : List (Nat × NPat)) → ∀ kv ∈ m', ∀ a, seq a kv.2 = true → DK a = true →
    DK kv.2 = true → kv.2.Shape = true → SeqP a kv.2
  | [], kv, h => by cases h
  | (k, v) :: r, kv, h => by
      by_cases he : kv = (k, v)
      · subst he; exact seq_facts v
      · exact seq_factsMap r kv (by
          rcases List.mem_cons.mp h with h | h
          · exact absurd h he
          · exact h)
end

/-- … hence `a == c` is `True` (at any fuel at which it returns) -/
theorem seq_peq {a c : NPat} (h : seq a c = true) (ha : DK a = true) (hc : DK c = true) (hs : c.Shape = true)
    (n : Nat) (hn : peqBound a c ≤ n) : peqF n a c = some true := by
  obtain ⟨s1, e1, _⟩ := seq_facts c a h ha hc hs
  rw [peqF_decides a c s1 hs n hn]; simp [e1]

end seqfacts

/-! ## Part D: the run of a module on the stateful family, any configuration -/
section memo2
open PySt SlotBudget NPat NotTie
open ProofTie (pub_nil pub_cons proofs_nil proofs_cons executeFull_eq)

/-- the suggestion list of a configuration (`memo = none`: plain `Interpreter.pattern`, nothing is suggested) -/
def suggOf (cfg : Cfg) : List NPat := cfg.memo.getD []

/-- what is asked of the suggestion list: its elements are shaped and their argument maps have distinct keys
(`frozendict`s).  Unlike `Canonical`, nothing is asked about patterns outside the list, and the list may even contain two
members that are `==` or repeated. -/
structure Canon2 (S : List NPat) : Prop where
  shape : ∀ c ∈ S, c.Shape = true
  dk : ∀ c ∈ S, DK c = true

theorem Canon2.nil : Canon2 [] := ⟨by simp, by simp⟩

/-- the saved patterns are structurally matched (`seq`) with pairwise DIFFERENT suggestions -/
def MemInv2 (S : List NPat) (mem : List TTerm) : Prop :=
  ∃ pc : List (NPat × NPat), pc.map (·.1) = patsOf mem ∧ (pc.map (·.2)).Nodup ∧
    ∀ x ∈ pc, x.2 ∈ S ∧ DK x.1 = true ∧ seq x.1 x.2 = true

def ExtB2 (S : List NPat) (B : Nat) (s s' : PySt) : Prop :=
  ∃ e : List NPat, s'.memory = s.memory ++ e.map TTerm.pat ∧ (∀ q ∈ e, dep q < B) ∧
    (MemInv2 S s.memory → MemInv2 S s'.memory)

theorem ExtB2.same {S : List NPat} {B : Nat} {s s' : PySt} (h : s'.memory = s.memory) : ExtB2 S B s s' :=
  ⟨[], by simp [h], by simp, by rw [h]; exact id⟩

theorem ExtB2.mono {S : List NPat} {B B' : Nat} {s s' : PySt} (h : ExtB2 S B s s') (hb : B ≤ B') : ExtB2 S B' s s' := by
  obtain ⟨e, he, hq, hi⟩ := h
  exact ⟨e, he, fun q hq' => Nat.lt_of_lt_of_le (hq q hq') hb, hi⟩

theorem ExtB2.trans {S : List NPat} {B : Nat} {s s1 s2 : PySt} (h1 : ExtB2 S B s s1) (h2 : ExtB2 S B s1 s2) :
    ExtB2 S B s s2 := by
  obtain ⟨e1, he1, hq1, hi1⟩ := h1
  obtain ⟨e2, he2, hq2, hi2⟩ := h2
  refine ⟨e1 ++ e2, by rw [he2, he1]; simp, ?_, fun h => hi2 (hi1 h)⟩
  intro q hq
  rcases List.mem_append.mp hq with h | h
  · exact hq1 q h
  · exact hq2 q h

/-- depth of a list of patterns -/
def dl : List NPat → Nat
  | [] => 0
  | q :: r => max (dep q) (dl r)

theorem dl_map_snd (m : List (Nat × NPat)) : dl (m.map (·.2)) = depMap m := by
  induction m with
  | nil => rfl
  | cons kv r ih => obtain ⟨k, v⟩ := kv; simp [dl, depMap, ih]

def PatG2 (cfg : Cfg) (n : Nat) : Prop :=
  ∀ s p acc s' a', DK p = true → patternF cfg n s p acc = some (some (s', a')) →
    s'.stack = entry p :: s.stack ∧ ExtB2 (suggOf cfg) (dep p + 1) s s'

def ListG2 (cfg : Cfg) (n : Nat) : Prop :=
  ∀ s ps acc s' a', (∀ q ∈ ps, DK q = true) → patternF.patternListF cfg n s ps acc = some (some (s', a')) →
    s'.stack = ps.reverse.map entry ++ s.stack ∧ ExtB2 (suggOf cfg) (dl ps + 1) s s'

theorem build_grow2 (cfg : Cfg) (n : Nat) (ihP : PatG2 cfg n) (ihL : ListG2 cfg n) (s : PySt) (p : NPat)
    (acc : List Call) (s' : PySt) (a' : List Call) (hd : DK p = true)
    (h : buildF cfg n s p acc = some (some (s', a'))) :
    s'.stack = entry p :: s.stack ∧ ExtB2 (suggOf cfg) (dep p) s s' := by
  cases p with
  | evar x =>
    have ht := doCalls_one' h
    simp only [track1, PySt.push, Option.some.injEq] at ht; subst ht
    exact ⟨rfl, ExtB2.same rfl⟩
  | svar x =>
    have ht := doCalls_one' h
    simp only [track1, PySt.push, Option.some.injEq] at ht; subst ht
    exact ⟨rfl, ExtB2.same rfl⟩
  | sym x =>
    have ht := doCalls_one' h
    simp only [track1, PySt.push, Option.some.injEq] at ht; subst ht
    exact ⟨rfl, ExtB2.same rfl⟩
  | mv id ef sf ps ns hs =>
    have ht := doCalls_one' h
    simp only [track1, PySt.push, Option.some.injEq] at ht; subst ht
    exact ⟨rfl, ExtB2.same rfl⟩
  | imp l r =>
    unfold buildF at h
    simp only [DK, Bool.and_eq_true] at hd
    obtain ⟨s1, a1, h1, h⟩ := andThen_some h
    obtain ⟨s2, a2, h2, h⟩ := andThen_some h
    obtain ⟨hst1, he1⟩ := ihP _ _ _ _ _ hd.1 h1
    obtain ⟨hst2, he2⟩ := ihP _ _ _ _ _ hd.2 h2
    have ht := doCalls_one' h
    rw [hst1] at hst2
    simp only [track1, hst2, entry, Option.some.injEq] at ht; subst ht
    refine ⟨rfl, (he1.mono ?_).trans ((he2.mono ?_).trans (ExtB2.same rfl))⟩ <;> (simp only [dep]; omega)
  | app l r =>
    unfold buildF at h
    simp only [DK, Bool.and_eq_true] at hd
    obtain ⟨s1, a1, h1, h⟩ := andThen_some h
    obtain ⟨s2, a2, h2, h⟩ := andThen_some h
    obtain ⟨hst1, he1⟩ := ihP _ _ _ _ _ hd.1 h1
    obtain ⟨hst2, he2⟩ := ihP _ _ _ _ _ hd.2 h2
    have ht := doCalls_one' h
    rw [hst1] at hst2
    simp only [track1, hst2, entry, Option.some.injEq] at ht; subst ht
    refine ⟨rfl, (he1.mono ?_).trans ((he2.mono ?_).trans (ExtB2.same rfl))⟩ <;> (simp only [dep]; omega)
  | ex x q =>
    unfold buildF at h
    simp only [DK] at hd
    obtain ⟨s1, a1, h1, h⟩ := andThen_some h
    obtain ⟨hst1, he1⟩ := ihP _ _ _ _ _ hd h1
    have ht := doCalls_one' h
    simp only [track1, hst1, entry, Option.some.injEq] at ht; subst ht
    refine ⟨rfl, (he1.mono ?_).trans (ExtB2.same rfl)⟩; simp only [dep]; omega
  | mu x q =>
    unfold buildF at h
    simp only [DK] at hd
    obtain ⟨s1, a1, h1, h⟩ := andThen_some h
    obtain ⟨hst1, he1⟩ := ihP _ _ _ _ _ hd h1
    have ht := doCalls_one' h
    simp only [track1, hst1, entry, Option.some.injEq] at ht; subst ht
    refine ⟨rfl, (he1.mono ?_).trans (ExtB2.same rfl)⟩; simp only [dep]; omega
  | esub q x plug =>
    unfold buildF at h
    simp only [DK, Bool.and_eq_true] at hd
    obtain ⟨s1, a1, h1, h⟩ := andThen_some h
    obtain ⟨s2, a2, h2, h⟩ := andThen_some h
    obtain ⟨hst1, he1⟩ := ihP _ _ _ _ _ hd.2 h1
    obtain ⟨hst2, he2⟩ := ihP _ _ _ _ _ hd.1 h2
    have ht := doCalls_one' h
    rw [hst1] at hst2
    simp only [track1, hst2, entry] at ht
    split at ht
    · simp only [Option.some.injEq] at ht; subst ht
      refine ⟨rfl, (he1.mono ?_).trans ((he2.mono ?_).trans (ExtB2.same rfl))⟩ <;> (simp only [dep]; omega)
    · simp at ht
  | ssub q x plug =>
    unfold buildF at h
    simp only [DK, Bool.and_eq_true] at hd
    obtain ⟨s1, a1, h1, h⟩ := andThen_some h
    obtain ⟨s2, a2, h2, h⟩ := andThen_some h
    obtain ⟨hst1, he1⟩ := ihP _ _ _ _ _ hd.2 h1
    obtain ⟨hst2, he2⟩ := ihP _ _ _ _ _ hd.1 h2
    have ht := doCalls_one' h
    rw [hst1] at hst2
    simp only [track1, hst2, entry] at ht
    split at ht
    · simp only [Option.some.injEq] at ht; subst ht
      refine ⟨rfl, (he1.mono ?_).trans ((he2.mono ?_).trans (ExtB2.same rfl))⟩ <;> (simp only [dep]; omega)
    · simp at ht
  | inst q m =>
    unfold buildF at h
    simp only [DK, Bool.and_eq_true, decide_eq_true_eq] at hd
    have hdm : ∀ v ∈ m.map (·.2), DK v = true := by
      intro v hv
      obtain ⟨kv, hkv, rfl⟩ := List.mem_map.mp hv
      exact (DKMap_iff m).mp hd.1.2 kv hkv
    obtain ⟨s1, a1, h1, h⟩ := andThen_some h
    obtain ⟨s2, a2, h2, h⟩ := andThen_some h
    obtain ⟨hst1, he1⟩ := ihL _ _ _ _ _ hdm h1
    obtain ⟨hst2, he2⟩ := ihP _ _ _ _ _ hd.1.1 h2
    have ht := doCalls_one' h
    rw [hst1] at hst2
    have htp := takePlugs_rev ((m.map (·.2)).reverse) s.stack
    have hlen : ((m.map (·.2)).reverse).length = (m.map (·.1)).length := by simp
    rw [hlen, List.reverse_reverse] at htp
    simp only [track1, hst2, entry] at ht
    rw [htp] at ht
    simp only [Option.some.injEq, zip_keys_vals] at ht; subst ht
    rw [dl_map_snd] at he1
    refine ⟨rfl, (he1.mono ?_).trans ((he2.mono ?_).trans (ExtB2.same rfl))⟩ <;> (simp only [dep]; omega)

theorem pat_grow_step2 (cfg : Cfg) (hS : Canon2 (suggOf cfg)) (n : Nat) (ihP : PatG2 cfg n) (ihL : ListG2 cfg n) :
    PatG2 cfg (n + 1) := by
  intro s p acc s' a' hd h
  rw [patternF_succ] at h
  obtain ⟨hit, hhit, h⟩ := Option.bind_eq_some_iff.mp h
  cases hit with
  | true =>
    have ht := doCalls_one' (show doCalls n s [.load (.pat p)] acc = some (some (s', a')) from h)
    simp only [track1, Option.bind_eq_bind, Option.bind_eq_some_iff] at ht
    obtain ⟨o, _, ht⟩ := ht
    cases o with
    | none => simp at ht
    | some i =>
      simp only [Option.pure_def, Option.some.injEq] at ht; subst ht
      exact ⟨rfl, ExtB2.same rfl⟩
  | false =>
    simp only [Bool.false_eq_true, if_false] at h
    obtain ⟨s1, a1, hb, h⟩ := andThen_some h
    obtain ⟨hst, he⟩ := build_grow2 cfg n ihP ihL _ _ _ _ _ hd hb
    obtain ⟨memo⟩ := cfg
    cases memo with
    | none =>
      simp only [saveF, Option.some.injEq, Prod.mk.injEq] at h
      obtain ⟨rfl, rfl⟩ := h
      exact ⟨hst, he.mono (Nat.le_succ _)⟩
    | some S =>
    have hS' : Canon2 S := hS
    simp only [memoHitF] at hhit
    simp only [saveF] at h
    split at h
    · rename_i hsug
      have ht := doCalls_one' h
      simp only [track1, hst, entry, Option.some.injEq] at ht; subst ht
      refine ⟨rfl, ?_⟩
      obtain ⟨e, hmem, hq, hinv⟩ := he
      obtain ⟨c, hc, hpc⟩ := List.any_eq_true.mp hsug
      obtain ⟨hpsh, hpe, hpd⟩ := seq_facts c p hpc hd (hS'.dk c hc) (hS'.shape c hc)
      have hps : patsOf s1.memory = patsOf s.memory ++ e := by
        rw [hmem, patsOf_append, patsOf_map_pat]
      refine ⟨e ++ [p], by simp [hmem], ?_, ?_⟩
      · intro q hq'
        rcases List.mem_append.mp hq' with hq' | hq'
        · exact Nat.lt_succ_of_lt (hq q hq')
        · simp at hq'; subst hq'; exact Nat.lt_succ_self _
      · intro hI
        obtain ⟨pc, hfst, hnd, hall⟩ := hinv hI
        have hnot : c ∉ pc.map (·.2) := by
          intro hin
          obtain ⟨x, hx, hxc⟩ := List.mem_map.mp hin
          obtain ⟨_, hqd, hqc⟩ := hall x hx
          rw [hxc] at hqc
          obtain ⟨hqsh, hqe', hqdep⟩ := seq_facts c x.1 hqc hqd (hS'.dk c hc) (hS'.shape c hc)
          have hqm : x.1 ∈ patsOf s1.memory := by rw [← hfst]; exact List.mem_map.mpr ⟨x, hx, rfl⟩
          rw [hps] at hqm
          rcases List.mem_append.mp hqm with hqm | hqm
          · have hm := inMemoryF_false n p _ hhit _ (mem_patsOf.mp hqm)
            simp only [teqF] at hm
            have := NPat.peqF_expand n x.1 p false hqsh hpsh hm
            simp [hqe', hpe] at this
          · have := hq x.1 hqm
            rw [hqdep, ← hpd] at this
            exact Nat.lt_irrefl _ this
        refine ⟨pc ++ [(p, c)], ?_, ?_, ?_⟩
        · show _ = patsOf (s1.memory ++ [TTerm.pat p])
          rw [patsOf_append]
          simp [patsOf, hfst]
        · simp only [List.map_append, List.map_cons, List.map_nil]
          refine List.nodup_append.mpr ⟨hnd, by simp, ?_⟩
          intro a ha b hb
          simp at hb; subst hb
          intro hab; exact hnot (hab ▸ ha)
        · intro x hx
          rcases List.mem_append.mp hx with hx | hx
          · exact hall x hx
          · simp at hx; subst hx; exact ⟨hc, hd, hpc⟩
    · simp only [Option.some.injEq, Prod.mk.injEq] at h
      obtain ⟨rfl, rfl⟩ := h
      exact ⟨hst, he.mono (Nat.le_succ _)⟩

theorem list_grow_step2 (cfg : Cfg) (n : Nat) (ihP : PatG2 cfg n) (ihL : ListG2 cfg n) : ListG2 cfg (n + 1) := by
  intro s ps acc s' a' hd h
  cases ps with
  | nil =>
    simp only [patternF.patternListF, Option.some.injEq, Prod.mk.injEq] at h
    obtain ⟨rfl, rfl⟩ := h
    exact ⟨by simp, ExtB2.same rfl⟩
  | cons p r =>
    rw [patternListF_cons] at h
    obtain ⟨s1, a1, h1, h⟩ := andThen_some h
    obtain ⟨hst1, he1⟩ := ihP _ _ _ _ _ (hd p (by simp)) h1
    obtain ⟨hst2, he2⟩ := ihL _ _ _ _ _ (fun q hq => hd q (List.mem_cons_of_mem _ hq)) h
    refine ⟨by rw [hst2, hst1]; simp, (he1.mono ?_).trans (he2.mono ?_)⟩ <;> (simp only [dl]; omega)

theorem pat_grow2 (cfg : Cfg) (hS : Canon2 (suggOf cfg)) (n : Nat) : PatG2 cfg n ∧ ListG2 cfg n := by
  induction n with
  | zero =>
    constructor
    · intro s p acc s' a' _ h; simp [patternF] at h
    · intro s ps acc s' a' _ h; simp [patternF.patternListF] at h
  | succ n ih => exact ⟨pat_grow_step2 cfg hS n ih.1 ih.2, list_grow_step2 cfg n ih.1 ih.2⟩

/-- the invariant of a run -/
def Inv2 (S : List NPat) (k : List NPat) (s : PySt) : Prop := MemInv2 S s.memory ∧ provedOf s.memory = k

theorem Inv2.ext {S : List NPat} {B : Nat} {k : List NPat} {s s' : PySt} (h : ExtB2 S B s s') (hi : Inv2 S k s) :
    Inv2 S k s' := by
  obtain ⟨e, hm, _, hinv⟩ := h
  exact ⟨hinv hi.1, by rw [hm, provedOf_append, provedOf_map_pat, hi.2]; simp⟩

theorem Inv2.same {S : List NPat} {k : List NPat} {s s' : PySt} (h : s'.memory = s.memory) (hi : Inv2 S k s) :
    Inv2 S k s' := by
  unfold Inv2; rw [h]; exact hi

theorem Inv2.call {S : List NPat} {k : List NPat} {n : Nat} {s s' : PySt} {c : Call} {acc a' : List Call}
    (h : doCalls n s [c] acc = some (some (s', a'))) (h1 : c ≠ .save) (h2 : c ≠ .publishAxiom) (hi : Inv2 S k s) :
    Inv2 S k s' :=
  Inv2.same (track1_memory n s s' c (doCalls_one' h) h1 h2) hi

/-- the argument maps of the instantiations in a proof expression have values with distinct keys -/
def PfDK : Pf → Bool
  | .mp l r => PfDK l && PfDK r
  | .gen p _ => PfDK p
  | .dynInst p δ => PfDK p && DKMap δ
  | _ => true

theorem run_grow2 (cfg : Cfg) (hS : Canon2 (suggOf cfg)) (ax : List NPat) : ∀ (n : Nat) (s : PySt) (pf : Pf)
    (acc : List Call) (s' : PySt) (a' : List Call) (c : NPat) (k : List NPat), PfDK pf = true →
    Pf.runF cfg ax n s pf acc = some (some (s', a', c)) → Inv2 (suggOf cfg) k s → Inv2 (suggOf cfg) k s' := by
  intro n
  induction n with
  | zero => intro s pf acc s' a' c k _ h; simp [Pf.runF] at h
  | succ n ih =>
    intro s pf acc s' a' c k hd h hi
    rw [runF_succ] at h
    obtain ⟨s1, a1, hraw, hchk⟩ := andThen_some h
    have := checkF_state hchk
    subst this
    cases pf with
    | prop1 => exact Inv2.call hraw (by intro e; cases e) (by intro e; cases e) hi
    | prop2 => exact Inv2.call hraw (by intro e; cases e) (by intro e; cases e) hi
    | prop3 => exact Inv2.call hraw (by intro e; cases e) (by intro e; cases e) hi
    | quantifier => exact Inv2.call hraw (by intro e; cases e) (by intro e; cases e) hi
    | loadAxiom a => exact Inv2.call hraw (by intro e; cases e) (by intro e; cases e) hi
    | mp l r =>
      unfold rawF at hraw
      simp only [PfDK, Bool.and_eq_true] at hd
      obtain ⟨s2, a2, c2, h1, hraw⟩ := andThen3_some hraw
      obtain ⟨s3, a3, c3, h2, hraw⟩ := andThen3_some hraw
      exact Inv2.call hraw (by intro e; cases e) (by intro e; cases e)
        (ih _ _ _ _ _ _ _ hd.2 h2 (ih _ _ _ _ _ _ _ hd.1 h1 hi))
    | gen p x =>
      unfold rawF at hraw
      simp only [PfDK] at hd
      obtain ⟨s2, a2, c2, h1, hraw⟩ := andThen3_some hraw
      exact Inv2.call hraw (by intro e; cases e) (by intro e; cases e) (ih _ _ _ _ _ _ _ hd h1 hi)
    | dynInst p δ =>
      simp only [rawF] at hraw
      simp only [PfDK, Bool.and_eq_true] at hd
      split at hraw
      · obtain ⟨s2, a2, c2, h1, hraw⟩ := andThen3_some hraw
        simp only [Option.pure_def, Option.some.injEq, Prod.mk.injEq] at hraw
        obtain ⟨rfl, rfl⟩ := hraw
        exact ih _ _ _ _ _ _ _ hd.1 h1 hi
      · obtain ⟨s2, a2, h1, hraw⟩ := andThen_some hraw
        obtain ⟨s3, a3, c3, h2, hraw⟩ := andThen3_some hraw
        have hdm : ∀ v ∈ δ.map (·.2), DK v = true := by
          intro v hv
          obtain ⟨kv, hkv, rfl⟩ := List.mem_map.mp hv
          exact (DKMap_iff δ).mp hd.2 kv hkv
        obtain ⟨_, he⟩ := (pat_grow2 cfg hS n).2 _ _ _ _ _ hdm h1
        exact Inv2.call hraw (by intro e; cases e) (by intro e; cases e)
          (ih _ _ _ _ _ _ _ hd.1 h2 (Inv2.ext he hi))

theorem pub_axiom_grow2 (cfg : Cfg) (hS : Canon2 (suggOf cfg)) (n : Nat) : ∀ (l : List NPat) (s : PySt)
    (acc : List Call) (s' : PySt) (a' : List Call) (k : List NPat), (∀ a ∈ l, DK a = true) →
    PModule.executeFull.pub cfg n s acc .publishAxiom l = some (some (s', a')) → Inv2 (suggOf cfg) k s →
    Inv2 (suggOf cfg) (k ++ l) s' := by
  intro l
  induction l with
  | nil =>
    intro s acc s' a' k _ h hi
    simp only [pub_nil, Option.some.injEq, Prod.mk.injEq] at h
    obtain ⟨rfl, rfl⟩ := h
    simpa using hi
  | cons a r ih =>
    intro s acc s' a' k hd h hi
    rw [pub_cons] at h
    obtain ⟨s1, a1, h1, h⟩ := andThen_some h
    obtain ⟨s2, a2, h2, h⟩ := andThen_some h
    obtain ⟨hst, he⟩ := (pat_grow2 cfg hS n).1 _ _ _ _ _ (hd a (by simp)) h1
    have hi1 := Inv2.ext he hi
    have ht := doCalls_one' h2
    have hi2 : Inv2 (suggOf cfg) (k ++ [a]) s2 := by
      cases hph : s1.phase <;> simp only [track1, hph, hst, entry] at ht
      · simp only [Option.some.injEq] at ht; subst ht
        obtain ⟨hmi, hk⟩ := hi1
        refine ⟨?_, ?_⟩
        · show MemInv2 _ (s1.memory ++ [TTerm.proved a])
          have hp : patsOf (s1.memory ++ [TTerm.proved a]) = patsOf s1.memory := by
            rw [patsOf_append]; simp [patsOf]
          unfold MemInv2
          rw [hp]; exact hmi
        · show provedOf (s1.memory ++ [TTerm.proved a]) = k ++ [a]
          rw [provedOf_append, hk]; simp [provedOf]
      · simp at ht
      · simp at ht
    have := ih _ _ _ _ _ (fun b hb => hd b (List.mem_cons_of_mem _ hb)) h hi2
    simpa using this

theorem pub_claim_grow2 (cfg : Cfg) (hS : Canon2 (suggOf cfg)) (n : Nat) : ∀ (l : List NPat) (s : PySt)
    (acc : List Call) (s' : PySt) (a' : List Call) (k : List NPat), (∀ a ∈ l, DK a = true) →
    PModule.executeFull.pub cfg n s acc .publishClaim l = some (some (s', a')) → Inv2 (suggOf cfg) k s →
    Inv2 (suggOf cfg) k s' := by
  intro l
  induction l with
  | nil =>
    intro s acc s' a' k _ h hi
    simp only [pub_nil, Option.some.injEq, Prod.mk.injEq] at h
    obtain ⟨rfl, rfl⟩ := h
    exact hi
  | cons a r ih =>
    intro s acc s' a' k hd h hi
    rw [pub_cons] at h
    obtain ⟨s1, a1, h1, h⟩ := andThen_some h
    obtain ⟨s2, a2, h2, h⟩ := andThen_some h
    obtain ⟨_, he⟩ := (pat_grow2 cfg hS n).1 _ _ _ _ _ (hd a (by simp)) h1
    exact ih _ _ _ _ _ (fun b hb => hd b (List.mem_cons_of_mem _ hb)) h
      (Inv2.call h2 (by intro e; cases e) (by intro e; cases e) (Inv2.ext he hi))

theorem proofs_grow2 (cfg : Cfg) (hS : Canon2 (suggOf cfg)) (m : PModule) (n : Nat) : ∀ (l : List Pf) (s : PySt)
    (acc : List Call) (s' : PySt) (a' : List Call) (k : List NPat), (∀ pf ∈ l, PfDK pf = true) →
    PModule.executeFull.proofs cfg m n s acc l = some (some (s', a')) → Inv2 (suggOf cfg) k s →
    Inv2 (suggOf cfg) k s' := by
  intro l
  induction l with
  | nil =>
    intro s acc s' a' k _ h hi
    simp only [proofs_nil, Option.some.injEq, Prod.mk.injEq] at h
    obtain ⟨rfl, rfl⟩ := h
    exact hi
  | cons pf r ih =>
    intro s acc s' a' k hd h hi
    rw [proofs_cons] at h
    obtain ⟨s1, a1, c1, h1, h⟩ := andThen3_some h
    obtain ⟨s2, a2, h2, h⟩ := andThen_some h
    exact ih _ _ _ _ _ (fun b hb => hd b (List.mem_cons_of_mem _ hb)) h
      (Inv2.call h2 (by intro e; cases e) (by intro e; cases e)
        (run_grow2 cfg hS _ n _ _ _ _ _ _ _ (hd pf (by simp)) h1 hi))

/-- the patterns of a module come from Python objects: every argument map is a `dict` / `frozendict` (distinct keys) -/
structure ModDK (m : PModule) : Prop where
  ax : ∀ a ∈ m.gammaAxioms, DK a = true
  cl : ∀ a ∈ m.claimsOf, DK a = true
  pf : ∀ pf ∈ m.proofsOf, PfDK pf = true

/-- **the memory of a run, any configuration**: the `Pattern` entries are `seq`-matched with pairwise different
suggestions; the `Proved` entries are exactly the published axioms -/
theorem executeFull_memory2 (cfg : Cfg) (hS : Canon2 (suggOf cfg)) (n : Nat) (m : PModule) (hm : ModDK m) (s : PySt)
    (calls : List Call) (h : PModule.executeFull cfg n m = some (some (s, calls))) :
    MemInv2 (suggOf cfg) s.memory ∧ provedOf s.memory = m.gammaAxioms := by
  rw [executeFull_eq] at h
  obtain ⟨s1, a1, h1, h⟩ := andThen_some h
  obtain ⟨s2, a2, h2, h⟩ := andThen_some h
  obtain ⟨s3, a3, h3, h⟩ := andThen_some h
  obtain ⟨s4, a4, h4, h⟩ := andThen_some h
  have hi0 : Inv2 (suggOf cfg) [] (PySt.init m.claimsOf) :=
    ⟨⟨[], by simp [PySt.init, patsOf], by simp, by simp⟩, rfl⟩
  have hi1 := pub_axiom_grow2 cfg hS n _ _ _ _ _ _ hm.ax h1 hi0
  have hi2 := Inv2.call h2 (by intro e; cases e) (by intro e; cases e) hi1
  have hi3 := pub_claim_grow2 cfg hS n _ _ _ _ _ _ (fun a ha => hm.cl a (List.mem_reverse.mp ha)) h3 hi2
  have hi4 := Inv2.call h4 (by intro e; cases e) (by intro e; cases e) hi3
  have hi5 := proofs_grow2 cfg hS m n _ _ _ _ _ _ hm.pf h hi4
  simp only [List.nil_append] at hi5
  exact hi5

theorem memInv2_length {S : List NPat} (hS : Canon2 S) {mem : List TTerm} (h : MemInv2 S mem) :
    (patsOf mem).length ≤ S.length := by
  obtain ⟨pc, hfst, hnd, hall⟩ := h
  have h1 : pc.map (·.2) ⊆ S := by
    intro x hx
    obtain ⟨y, hy, rfl⟩ := List.mem_map.mp hx
    exact (hall y hy).1
  have := List.Nodup.length_le_of_subset hnd h1
  rw [← hfst]
  simpa using this

/-- the number of slots of a memoising run -/
theorem executeFull_memory_length2 (S : List NPat) (hS : Canon2 S) (n : Nat) (m : PModule) (hm : ModDK m) (s : PySt)
    (calls : List Call) (h : PModule.executeFull { memo := some S } n m = some (some (s, calls))) :
    s.memory.length ≤ S.length + m.gammaAxioms.length := by
  obtain ⟨hI, hk⟩ := executeFull_memory2 { memo := some S } hS n m hm s calls h
  rw [length_split, hk]
  exact Nat.add_le_add_right (memInv2_length hS hI) _

/-- the plain run (`memo = none`: what every interpreter of the stateful family, the analyser included, does to its
memory): the memory holds exactly the published axioms -/
theorem executeFull_plain_memory (n : Nat) (m : PModule) (hm : ModDK m) (s : PySt) (calls : List Call)
    (h : PModule.executeFull {} n m = some (some (s, calls))) :
    patsOf s.memory = [] ∧ provedOf s.memory = m.gammaAxioms ∧ s.memory.length = m.gammaAxioms.length := by
  obtain ⟨hI, hk⟩ := executeFull_memory2 {} Canon2.nil n m hm s calls h
  have h0 : patsOf s.memory = [] := by
    have := memInv2_length Canon2.nil hI
    simpa using this
  exact ⟨h0, hk, by rw [length_split, h0, hk]; simp⟩

end memo2

end SlotBudget2
