import Pi2.MatchThm
/-!
# `deconstruct_nary_application` of `proofs/kore.py`

```
match p:
    case Instantiate(_, _): return deconstruct_nary_application(p.simplify())
    case App(l, r): symbol, args = deconstruct_nary_application(l); return symbol, (*args, r)
    case _: return p, ()
```

The application spine of a pattern, looking through notation nodes on the spine (the arguments are
returned as they are, notation included).  `naryF` is the function on patterns with notation (fuel as
for the other notation operations: `none` = Python `RecursionError`), `Pat.nary` the same function on
notation-free patterns, and `naryF_expand` says that the destructor is transparent to notation.
-/
open Pat

/-- the application spine of a notation-free pattern: `(head, arguments left to right)` -/
def Pat.nary : Pat → Pat × List Pat
  | .app l r => ((Pat.nary l).1, (Pat.nary l).2 ++ [r])
  | .evar x => (.evar x, [])
  | .svar x => (.svar x, [])
  | .sym s => (.sym s, [])
  | .imp l r => (.imp l r, [])
  | .ex x p => (.ex x p, [])
  | .mu x p => (.mu x p, [])
  | .mv a b c d e f => (.mv a b c d e f, [])
  | .esub p x q => (.esub p x q, [])
  | .ssub p x q => (.ssub p x q, [])

/-- the spine rebuilds the expansion: applying the expanded head to the expanded arguments is `p.expand` -/
theorem Pat.nary_rebuild (q : Pat) : (Pat.nary q).2.foldl Pat.app (Pat.nary q).1 = q := by
  induction q with
  | app l r ihl _ => simp only [Pat.nary, List.foldl_append, List.foldl_cons, List.foldl_nil, ihl]
  | _ => simp [Pat.nary]

namespace NPat
set_option linter.unusedSimpArgs false

/-- `deconstruct_nary_application(p)` -/
def naryF : Nat → NPat → Option (NPat × List NPat)
  | 0, _ => none
  | n + 1, inst p m => do let s ← instF n m p; naryF n s
  | n + 1, app l r => do let hs ← naryF n l; pure (hs.1, hs.2 ++ [r])
  | _ + 1, q => some (q, [])

/-- is this node an `App`? -/
def isApp : NPat → Bool
  | app .. => true
  | _ => false

/-- a shaped pattern whose head constructor is neither `Instantiate` nor `App` does not expand to an
application (no hypothesis on the shape is needed: `expand` keeps every other head constructor) -/
theorem nary_expand_atom (q : NPat) (hi : q.isInst = false) (ha : q.isApp = false) :
    Pat.nary q.expand = (q.expand, []) := by
  cases q <;> simp_all [isInst, isApp, expand, Pat.nary]

/-- **the destructor is transparent to notation**: destructuring and then expanding head and arguments is
expanding and then destructuring; head and arguments are shaped again, and the head returned is neither a
notation node nor an application -/
theorem naryF_expand_full (n : Nat) (p h : NPat) (as : List NPat) :
    p.Shape = true → NPat.naryF n p = some (h, as) →
    Pat.nary p.expand = (h.expand, as.map NPat.expand) ∧ h.Shape = true ∧ (∀ a ∈ as, a.Shape = true) ∧
      h.isInst = false ∧ h.isApp = false := by
  induction n generalizing p h as with
  | zero => intro _ hr; simp [naryF] at hr
  | succ n ih =>
    intro hp hr
    cases p with
    | inst p' m =>
      simp only [naryF, Option.bind_eq_bind, Option.bind_eq_some_iff] at hr
      obtain ⟨s, hs, hq⟩ := hr
      simp only [Shape, Bool.and_eq_true] at hp
      obtain ⟨es, ss⟩ := instF_expand _ _ _ _ hp.1 hp.2 hs
      have e : (inst p' m).expand = s.expand := by rw [es]; simp only [expand]
      rw [e]
      exact ih _ _ _ ss hq
    | app l r =>
      simp only [naryF, Option.bind_eq_bind, Option.bind_eq_some_iff, Option.pure_def,
        Option.some.injEq, Prod.mk.injEq] at hr
      obtain ⟨⟨h', as'⟩, hl, hh, has⟩ := hr
      simp only at hh has
      subst hh; subst has
      simp only [Shape, Bool.and_eq_true] at hp
      obtain ⟨e1, s1, s2, i1, a1⟩ := ih _ _ _ hp.1 hl
      refine ⟨?_, s1, ?_, i1, a1⟩
      · simp only [expand, Pat.nary, e1, List.map_append, List.map_cons, List.map_nil]
      · intro a ha
        rcases List.mem_append.mp ha with ha | ha
        · exact s2 a ha
        · simp only [List.mem_singleton] at ha; subst ha; exact hp.2
    | _ =>
      simp only [naryF, Option.some.injEq, Prod.mk.injEq] at hr
      obtain ⟨hh, has⟩ := hr
      subst hh; subst has
      refine ⟨nary_expand_atom _ (by simp [isInst]) (by simp [isApp]), hp, ?_, by simp [isInst],
        by simp [isApp]⟩
      intro a ha; cases ha

theorem naryF_expand (n : Nat) (p h : NPat) (as : List NPat) (hp : p.Shape = true)
    (hr : NPat.naryF n p = some (h, as)) :
    Pat.nary p.expand = (h.expand, as.map NPat.expand) ∧ h.Shape = true ∧ (∀ a ∈ as, a.Shape = true) :=
  let ⟨e, s, sa, _, _⟩ := naryF_expand_full n p h as hp hr
  ⟨e, s, sa⟩

theorem naryF_rebuild (n : Nat) (p h : NPat) (as : List NPat) (hp : p.Shape = true)
    (hr : NPat.naryF n p = some (h, as)) :
    (as.map NPat.expand).foldl Pat.app h.expand = p.expand := by
  have e := (naryF_expand n p h as hp hr).1
  have := Pat.nary_rebuild p.expand
  rw [e] at this
  exact this

/-! ## non-vacuity -/

private def φ (i : Nat) : NPat := .mv i [] [] [] [] []

/-- the body's head is a metavariable, bound to an application -/
example : naryF 10 (.inst (.app (φ 0) (φ 1)) [(0, .app (.sym 5) (.evar 1)), (1, .evar 2)])
    = some (.sym 5, [.evar 1, .evar 2]) := rfl
example : (NPat.inst (.app (φ 0) (φ 1)) [(0, .app (.sym 5) (.evar 1)), (1, .evar 2)]).Shape = true := by decide
example : Pat.nary (NPat.inst (.app (φ 0) (φ 1)) [(0, .app (.sym 5) (.evar 1)), (1, .evar 2)]).expand
    = (.sym 5, [.evar 1, .evar 2]) := rfl
/-- the head metavariable is bound to a notation application itself: two levels are looked through; the
arguments keep their notation -/
example : naryF 10 (.inst (φ 0) [(0, .inst (.app (.app (φ 0) (φ 1)) (φ 2))
      [(0, .sym 7), (1, .inst (φ 0) [(0, .evar 3)]), (2, .evar 4)])])
    = some (.sym 7, [.inst (φ 0) [(0, .evar 3)], .evar 4]) := rfl
/-- notation in the argument position is not expanded; notation around the function position is -/
example : naryF 10 (.app (.inst (.app (φ 0) (φ 1)) [(0, .sym 1), (1, .evar 0)]) (.inst (φ 0) [(0, .evar 9)]))
    = some (.sym 1, [.evar 0, .inst (φ 0) [(0, .evar 9)]]) := rfl
/-- no application: the pattern itself and no arguments -/
example : naryF 10 (.imp (.evar 0) (.evar 1)) = some (.imp (.evar 0) (.evar 1), []) := rfl
example : naryF 10 (.esub (φ 0) 1 (.app (.sym 0) (.evar 1))) = some (.esub (φ 0) 1 (.app (.sym 0) (.evar 1)), []) := rfl
/-- out of fuel -/
example : naryF 1 (.inst (.app (φ 0) (φ 1)) [(0, .sym 5), (1, .evar 2)]) = none := rfl

end NPat

#print axioms NPat.naryF_expand
#print axioms NPat.naryF_expand_full
#print axioms NPat.naryF_rebuild
