import Pi2.EndToEnd2
/-!
# Helper lemmas for C14 "the same sequence of machine steps" (`Pi2/Props/C14c.lean`)

`EndToEnd2` / `DeserializeThm` compare only the FINAL states of a history and of its replay.  Here the step correspondence:

* `PySt.replayCalls`: `PySt.replay` that also returns the calls it made (`replay_eq_replayCalls`);
* `Lock n k s t cs cs' s' t'`: the two call lists run in lock step from `s` / `t` to `s'` / `t'` — corresponding calls
  (`CallEqX`), the same instructions emitted (`emit1`) call by call, the replayed call being the deserialiser's dispatch
  (`callOfInstr`) of that instruction, and the states before every step equal up to notation (`StEqG true`);
* `replayCalls_lock`: the replay of the instructions a well-formed history emitted runs in lock step with the history;
* `Lock.sameSteps`: lock step in indexed form (`SameSteps`): after every prefix the two `trackAll` runs (= what a
  `SerializingInterpreter` does) have written the same three streams and are in `StEqX`-related states;
* `runWithTr`, `deserModWithTr`: the loop of the translated deserialiser that also returns the calls it made
  (`toCall` of the `DCall` of every iteration); `step_callOf`: that call is `callOfInstr` of the decoded instruction;
  `runWithTr_replayCalls`; `roundtrip_phaseL`, `roundtrip_modL`: lock step for one phase / a module, through the texts.
-/
set_option linter.unusedVariables false
set_option linter.unusedSimpArgs false
open PySt PyDeser

namespace PySt

/-- `replay`, also returning the interpreter calls it made, in order -/
def replayCalls (n : Nat) : PySt → List Instr → Option (Option (List Call × PySt))
  | s, [] => some (some ([], s))
  | s, i :: is =>
      match callOfInstr s i with
      | none => some none
      | some c =>
          match track1 n s c with
          | none => none
          | some none => some none
          | some (some s') =>
              match replayCalls n s' is with
              | none => none
              | some none => some none
              | some (some (cs, s'')) => some (some (c :: cs, s''))

/-- `deserialize`, also returning the interpreter calls it made -/
def deserializeCalls (n : Nat) (s : PySt) (bs : List Nat) : Option (Option (List Call × PySt)) :=
  match decode bs with
  | none => some none
  | some is => replayCalls n s is

theorem replay_eq_replayCalls (n : Nat) : ∀ (is : List Instr) (s : PySt),
    replay n s is = (replayCalls n s is).map (Option.map (·.2)) := by
  intro is
  induction is with
  | nil => intro s; rfl
  | cons i is ih =>
    intro s
    simp only [replay, replayCalls]
    cases callOfInstr s i with
    | none => rfl
    | some c =>
      simp only []
      cases track1 n s c with
      | none => rfl
      | some o =>
        cases o with
        | none => rfl
        | some s' =>
          simp only [Option.bind_eq_bind, Option.bind_some, ih s']
          cases replayCalls n s' is with
          | none => rfl
          | some o' =>
            cases o' with
            | none => rfl
            | some p => rfl

theorem deserialize_eq_deserializeCalls (n : Nat) (s : PySt) (bs : List Nat) :
    deserialize n s bs = (deserializeCalls n s bs).map (Option.map (·.2)) := by
  simp only [deserialize, deserializeCalls]
  cases decode bs with
  | none => rfl
  | some is => exact replay_eq_replayCalls n is s

theorem replayCalls_cons_some (n : Nat) (s : PySt) (i : Instr) (is : List Instr) (cs : List Call) (s'' : PySt)
    (h : replayCalls n s (i :: is) = some (some (cs, s''))) :
    ∃ c s' cs1, callOfInstr s i = some c ∧ track1 n s c = some (some s') ∧
      replayCalls n s' is = some (some (cs1, s'')) ∧ cs = c :: cs1 := by
  simp only [replayCalls] at h
  cases hc : callOfInstr s i with
  | none => simp [hc] at h
  | some c =>
    simp only [hc] at h
    cases ht : track1 n s c with
    | none => simp [ht] at h
    | some o =>
      cases o with
      | none => simp [ht] at h
      | some s' =>
        simp only [ht] at h
        cases hr : replayCalls n s' is with
        | none => simp [hr] at h
        | some o' =>
          cases o' with
          | none => simp [hr] at h
          | some p =>
            obtain ⟨cs1, s2⟩ := p
            simp only [hr, Option.some.injEq, Prod.mk.injEq] at h
            obtain ⟨rfl, rfl⟩ := h
            exact ⟨c, s', cs1, rfl, ht, hr, rfl⟩

/-- one interpreter call per instruction -/
theorem replayCalls_length (n : Nat) : ∀ (is : List Instr) (s s' : PySt) (cs : List Call),
    replayCalls n s is = some (some (cs, s')) → cs.length = is.length := by
  intro is
  induction is with
  | nil =>
    intro s s' cs h
    simp only [replayCalls, Option.some.injEq, Prod.mk.injEq] at h
    rw [← h.1]; rfl
  | cons i is ih =>
    intro s s' cs h
    obtain ⟨c, s1, cs1, _, _, hr, rfl⟩ := replayCalls_cons_some n s i is cs s' h
    simp [ih s1 s' cs1 hr]

end PySt

namespace EndToEnd

/-! ## `memory.index` on the two sides -/

/-- `indexF` answers the first position whose entry is `==`; all earlier comparisons answered `False` -/
theorem indexF_first (n : Nat) (t : TTerm) (mem : List TTerm) (k i : Nat)
    (h : PySt.indexF n t mem k = some (some i)) :
    ∃ j u, i = k + j ∧ mem[j]? = some u ∧ PySt.teqF n u t = some true ∧
      ∀ j', j' < j → ∃ u', mem[j']? = some u' ∧ PySt.teqF n u' t = some false := by
  induction mem generalizing k with
  | nil => simp [PySt.indexF] at h
  | cons u r ih =>
    simp only [PySt.indexF, Option.bind_eq_bind, Option.bind_eq_some_iff] at h
    obtain ⟨b, hb, h⟩ := h
    cases b with
    | true =>
      simp only [if_true, Option.pure_def, Option.some.injEq] at h
      subst h
      exact ⟨0, u, rfl, by simp, hb, fun j' hj' => absurd hj' (Nat.not_lt_zero _)⟩
    | false =>
      simp only [Bool.false_eq_true, if_false] at h
      obtain ⟨j, u', hj, hg, ht, hbefore⟩ := ih (k + 1) h
      refine ⟨j + 1, u', by omega, by simpa using hg, ht, ?_⟩
      intro j' hj'
      cases j' with
      | zero => exact ⟨u, by simp, hb⟩
      | succ j'' =>
        obtain ⟨u'', hu'', ht''⟩ := hbefore j'' (by omega)
        exact ⟨u'', by simpa using hu'', ht''⟩

/-- the index the replayed `load` would be serialised with is the index it was deserialised from -/
theorem indexF_transport (n k : Nat) (ms mt : List TTerm) (a b : TTerm) (idx j : Nat)
    (hms : ∀ u ∈ ms, u.body.Shape = true) (hmt : ∀ u ∈ mt, u.body.Shape = true)
    (ha : a.body.Shape = true) (hb : b.body.Shape = true)
    (hmem : ms.map convT = mt.map convT) (hab : convT a = convT b)
    (hs : PySt.indexF n a ms 0 = some (some idx)) (hbi : mt[idx]? = some b)
    (ht : PySt.indexF k b mt 0 = some (some j)) : j = idx := by
  obtain ⟨js, us, hjs, hus, _, hsbefore⟩ := indexF_first n a ms 0 idx hs
  obtain ⟨jt, ut, hjt, hut, htrue, htbefore⟩ := indexF_first k b mt 0 j ht
  have hjs' : idx = js := by omega
  have hjt' : j = jt := by omega
  subst hjs' hjt'
  rcases Nat.lt_trichotomy j idx with hlt | heq | hgt
  · exfalso
    obtain ⟨u', hu', hf⟩ := hsbefore j hlt
    have h1 : convT ut = convT b := teqF_conv k ut b (hmt ut (List.mem_of_getElem? hut)) hb htrue
    have h2 : convT u' ≠ convT a := teqF_conv_false n u' a (hms u' (List.mem_of_getElem? hu')) ha hf
    have h3 : (ms.map convT)[j]? = some (convT u') := by simp [hu']
    rw [hmem] at h3
    simp only [List.getElem?_map, hut, Option.map_some, Option.some.injEq] at h3
    exact h2 (by rw [← h3, h1, hab])
  · exact heq
  · exfalso
    obtain ⟨u', hu', hf⟩ := htbefore idx hgt
    rw [hbi] at hu'
    cases hu'
    exact teqF_conv_false k b b hb hb hf rfl

/-! ## lock step -/

/-- corresponding calls: the same call, or two `load`s of terms equal up to notation (the replay loads the memory entry the
emitted index points at, which is `==` to the term the history loaded) -/
def CallEqX (c c' : Call) : Prop := c' = c ∨ ∃ a b, c = .load a ∧ c' = .load b ∧ convT a = convT b

/-- the replayed call `c'` is what the deserialiser dispatches, in state `t`, for the one instruction of `is1`; a phase
switch (`into_claim_phase` / `into_proof_phase`: made by the driver between the streams) writes nothing -/
def Dispatched (t : PySt) (is1 : List Instr) (c' : Call) : Prop :=
  (is1 = [] ∧ (c' = .intoClaim ∨ c' = .intoProof)) ∨ ∃ i, is1 = [i] ∧ PySt.callOfInstr t i = some c'

/-- the histories `cs` (fuel `n`, from `s`) and `cs'` (fuel `k`, from `t`) run in lock step and end in `s'`, `t'` -/
inductive Lock (n k : Nat) : PySt → PySt → List Call → List Call → PySt → PySt → Prop
  | nil (s t : PySt) : StEqG true s t → Lock n k s t [] [] s t
  | cons (s t s1 t1 s' t' : PySt) (c c' : Call) (cs cs' : List Call) (is1 : List Instr) :
      StEqG true s t → CallEqX c c' →
      PySt.emit1 n s c = some (some is1) → PySt.emit1 k t c' = some (some is1) → Dispatched t is1 c' →
      PySt.track1 n s c = some (some s1) → PySt.track1 k t c' = some (some t1) →
      Lock n k s1 t1 cs cs' s' t' → Lock n k s t (c :: cs) (c' :: cs') s' t'

theorem Lock.start {n k : Nat} {s t s' t' : PySt} {cs cs' : List Call} (h : Lock n k s t cs cs' s' t') : StEqG true s t := by
  cases h with
  | nil _ _ h => exact h
  | cons _ _ _ _ _ _ _ _ _ _ _ h => exact h

theorem Lock.final {n k : Nat} {s t s' t' : PySt} {cs cs' : List Call} (h : Lock n k s t cs cs' s' t') : StEqG true s' t' := by
  induction h with
  | nil _ _ h => exact h
  | cons _ _ _ _ _ _ _ _ _ _ _ _ _ _ _ _ _ _ _ ih => exact ih

theorem Lock.length {n k : Nat} {s t s' t' : PySt} {cs cs' : List Call} (h : Lock n k s t cs cs' s' t') :
    cs'.length = cs.length := by
  induction h with
  | nil _ _ h => rfl
  | cons _ _ _ _ _ _ _ _ _ _ _ _ _ _ _ _ _ _ _ ih => simp [ih]

theorem Lock.append {n k : Nat} {s t s1 t1 s2 t2 : PySt} {a a' b b' : List Call} (h1 : Lock n k s t a a' s1 t1)
    (h2 : Lock n k s1 t1 b b' s2 t2) : Lock n k s t (a ++ b) (a' ++ b') s2 t2 := by
  induction h1 with
  | nil _ _ h => exact h2
  | cons s t s1 t1 s' t' c c' cs cs' is1 hE hc he he' hd ht ht' _ ih =>
    exact Lock.cons s t s1 t1 _ _ c c' _ _ is1 hE hc he he' hd ht ht' (ih h2)

/-- a phase switch made on both sides -/
theorem Lock.switch {n k : Nat} {s t s1 t1 : PySt} (c : Call) (hc : c = .intoClaim ∨ c = .intoProof) (hE : StEqG true s t)
    (hE1 : StEqG true s1 t1) (ht : PySt.track1 n s c = some (some s1)) (ht' : PySt.track1 k t c = some (some t1)) :
    Lock n k s t [c] [c] s1 t1 := by
  have he : ∀ m u, PySt.emit1 m u c = some (some []) := by rcases hc with rfl | rfl <;> (intro m u; rfl)
  exact Lock.cons s t s1 t1 s1 t1 c c [] [] [] hE (Or.inl rfl) (he n s) (he k t) (Or.inl ⟨rfl, hc⟩) ht ht' (Lock.nil s1 t1 hE1)

/-! ## re-serialising the replayed call gives the instruction it was deserialised from -/

theorem emit1_symtab (n k : Nat) (s t : PySt) (c : Call) (hl : ∀ a, c ≠ .load a) (hsym : s.symtab = t.symtab) :
    PySt.emit1 k t c = PySt.emit1 n s c := by
  cases c with
  | load a => exact absurd rfl (hl a)
  | symbol nm => simp only [PySt.emit1, hsym]
  | _ => rfl

theorem reemit (n k : Nat) (s t t1 : PySt) (c c2 : Call) (i : Instr)
    (hE : StEqG true s t) (hSs : ShapeSt s) (hSt : ShapeSt t) (hok : CallOK n s c)
    (he : PySt.emit1 n s c = some (some [i])) (hc2 : PySt.callOfInstr t i = some c2)
    (hrel : c2 = c ∨ ∃ a b, c = .load a ∧ c2 = .load b ∧ a.body.Shape = true ∧ b.body.Shape = true ∧
        convT a = convT b ∧ (true = true → patMeta a = patMeta b))
    (hx : PySt.track1 k t c2 = some (some t1)) : PySt.emit1 k t c2 = some (some [i]) := by
  by_cases hl : ∃ a, c = .load a
  · obtain ⟨a, rfl⟩ := hl
    have hash : a.body.Shape = true := (hok.2.2.2.1 a rfl).1
    -- the emitted index
    simp only [PySt.emit1, Option.bind_eq_bind, Option.bind_eq_some_iff] at he
    obtain ⟨oi, hidx, he⟩ := he
    cases oi with
    | none => simp at he
    | some idx =>
      simp only [Option.pure_def, Option.some.injEq, List.cons.injEq, and_true] at he
      subst he
      -- the replayed call loads the memory entry at that index
      simp only [PySt.callOfInstr, Option.map_eq_some_iff] at hc2
      obtain ⟨b, hb, rfl⟩ := hc2
      have hbsh : b.body.Shape = true := hSt.2.1 b (List.mem_of_getElem? hb)
      have hab : convT a = convT b := by
        rcases hrel with h | ⟨a', b', h1, h2, _, _, h5, _⟩
        · cases h; rfl
        · cases h1; cases h2; exact h5
      have hmem : s.memory.map convT = t.memory.map convT :=
        map_eq_map_of_iff _ _ (by intro x y h; simp only [keyM, Prod.mk.injEq] at h; exact h.1) _ _ hE.2.2.1
      simp only [PySt.track1, Option.bind_eq_bind, Option.bind_eq_some_iff] at hx
      obtain ⟨oj, hj, hx⟩ := hx
      cases oj with
      | none => simp at hx
      | some j =>
        have := indexF_transport n k s.memory t.memory a b idx j hSs.2.1 hSt.2.1 hash hbsh hmem hab hidx hb hj
        subst this
        simp [PySt.emit1, hj]
  · have hl' : ∀ a, c ≠ .load a := fun a e => hl ⟨a, e⟩
    rcases hrel with rfl | ⟨a, _, rfl, _⟩
    · rw [emit1_symtab n k s t c2 hl' hE.2.2.2.2]; exact he
    · exact absurd rfl (hl' a)

/-! ## the replay of what a history emitted runs in lock step with the history -/

theorem replayCalls_lock (n k : Nat) : ∀ (cs : List Call) (s t s' : PySt) (is : List Instr)
    (r : Option (List Call × PySt)), StEqG true s t → ShapeSt s → ShapeSt t → CanonTab s.symtab →
    CallsOK n s cs → PySt.emitAll n s cs = some (some (s', is)) →
    PySt.replayCalls k t is = some r → ∃ cs' t', r = some (cs', t') ∧ Lock n k s t cs cs' s' t' := by
  intro cs
  induction cs with
  | nil =>
    intro s t s' is r hE _ _ _ _ he hr
    simp only [PySt.emitAll, Option.some.injEq, Prod.mk.injEq] at he
    obtain ⟨rfl, rfl⟩ := he
    simp only [PySt.replayCalls, Option.some.injEq] at hr
    exact ⟨[], t, hr.symm, Lock.nil s t hE⟩
  | cons c cs ih =>
    intro s t s' is r hE hSs hSt hC hok he hr
    obtain ⟨hok1, hoks⟩ := hok
    obtain ⟨is1, s1, js, he1, ht1, hes, rfl⟩ := emitAll_cons n s s' c cs is he
    obtain ⟨i, rfl⟩ := emit1_single n s c is1 hok1.1 hok1.2.1 he1
    obtain ⟨c2, hc2, hrel⟩ := replay_call n s t s1 c i hE hSs hSt hC hok1 he1 ht1
    simp only [List.singleton_append, PySt.replayCalls, hc2] at hr
    have hload : ∀ a, c = .load a → a.body.Shape = true := fun a e => (hok1.2.2.2.1 a e).1
    have hmv := hok1.2.2.2.2
    cases hx : PySt.track1 k t c2 with
    | none => simp [hx] at hr
    | some x =>
      obtain ⟨t1, rfl, hE1⟩ := track1_congrG true n k s t s1 c c2 x hE hSs hSt hrel hload
        (fun h => by simp at h) ht1 hx
      simp only [hx] at hr
      have hP := track1_pres n s s1 c hSs hload hmv ht1
      have hSt1 : ShapeSt t1 := by
        rcases hrel with rfl | ⟨a, b, rfl, rfl, _, hb, _⟩
        · exact (track1_pres k t t1 c2 hSt hload hmv hx).1
        · exact (track1_pres k t t1 (.load b) hSt (fun a' e => by cases e; exact hb)
            (fun _ _ _ _ _ _ e => by cases e) hx).1
      have hC1 := track1_canon n s s1 c hC hok1.2.2.1 hP ht1
      have hre := reemit n k s t t1 c c2 i hE hSs hSt hok1 he1 hc2 hrel hx
      have hceq : CallEqX c c2 := by
        rcases hrel with h | ⟨a, b, h1, h2, _, _, h5, _⟩
        · exact Or.inl h
        · exact Or.inr ⟨a, b, h1, h2, h5⟩
      cases hrr : PySt.replayCalls k t1 js with
      | none => simp [hrr] at hr
      | some rr =>
        obtain ⟨cs1', t', rfl, hL⟩ := ih s1 t1 s' js rr hE1 hP.1 hSt1 hC1 (hoks s1 ht1) hes hrr
        simp only [hrr, Option.some.injEq] at hr
        subst hr
        exact ⟨c2 :: cs1', t', rfl,
          Lock.cons s t s1 t1 s' t' c c2 cs cs1' [i] hE hceq he1 hre (Or.inr ⟨i, rfl, hc2⟩) ht1 hx hL⟩

/-! ## lock step, indexed: what holds after every prefix -/

theorem trackAll_cons_of (n : Nat) (s s1 : PySt) (c : Call) (cs : List Call) (is1 : List Instr)
    (out : List Instr × List Instr × List Instr)
    (he : PySt.emit1 n s c = some (some is1)) (ht : PySt.track1 n s c = some (some s1)) :
    PySt.trackAll n s (c :: cs) out = PySt.trackAll n s1 cs (addOut s.phase out is1) := by
  obtain ⟨g, cl, pf⟩ := out
  simp only [PySt.trackAll, he, ht, Option.bind_eq_bind, Option.bind_some]
  cases s.phase <;> rfl

/-- the `j`-th step of two histories `cs`, `cs'` started in `s`, `t` with the streams `out`: both prefixes of length `j` run,
have written the same three streams, and are in states equal up to notation; if there is a `j`-th call, the two calls
correspond, emit the same instruction(s) in these states, and the replayed one is the deserialiser's dispatch of it -/
def StepAt (n k : Nat) (s t : PySt) (out : List Instr × List Instr × List Instr) (cs cs' : List Call) (j : Nat) : Prop :=
  ∃ sj tj oj, PySt.trackAll n s (cs.take j) out = some (some (sj, oj)) ∧
    PySt.trackAll k t (cs'.take j) out = some (some (tj, oj)) ∧ StEqX sj tj ∧
    (j < cs.length → ∃ c c' is1, cs[j]? = some c ∧ cs'[j]? = some c' ∧ CallEqX c c' ∧
      PySt.emit1 n sj c = some (some is1) ∧ PySt.emit1 k tj c' = some (some is1) ∧ Dispatched tj is1 c')

/-- **the same sequence of machine steps**: equally many calls, and `StepAt` for every `j` -/
def SameSteps (n k : Nat) (s t : PySt) (out : List Instr × List Instr × List Instr) (cs cs' : List Call) : Prop :=
  cs'.length = cs.length ∧ ∀ j, j ≤ cs.length → StepAt n k s t out cs cs' j

theorem Lock.sameSteps {n k : Nat} {s t s' t' : PySt} {cs cs' : List Call} (h : Lock n k s t cs cs' s' t') :
    ∀ out, SameSteps n k s t out cs cs' ∧
      ∃ out', PySt.trackAll n s cs out = some (some (s', out')) ∧ PySt.trackAll k t cs' out = some (some (t', out')) := by
  induction h with
  | nil s t hE =>
    intro out
    refine ⟨⟨rfl, fun j hj => ?_⟩, out, rfl, rfl⟩
    exact ⟨s, t, out, by simp [PySt.trackAll], by simp [PySt.trackAll], hE.toX, fun h => absurd h (by simp)⟩
  | cons s t s1 t1 s' t' c c' cs cs' is1 hE hc he he' hd ht ht' hL ih =>
    intro out
    obtain ⟨⟨hlen, hsteps⟩, out', h1, h2⟩ := ih (addOut s.phase out is1)
    have hph : t.phase = s.phase := hE.1.symm
    refine ⟨⟨by simp [hlen], fun j hj => ?_⟩, out', ?_, ?_⟩
    · cases j with
      | zero =>
        exact ⟨s, t, out, by simp [PySt.trackAll], by simp [PySt.trackAll], hE.toX,
          fun _ => ⟨c, c', is1, by simp, by simp, hc, he, he', hd⟩⟩
      | succ j =>
        obtain ⟨sj, tj, oj, hs, htj, hEq, hnext⟩ := hsteps j (by simpa using hj)
        refine ⟨sj, tj, oj, ?_, ?_, hEq, fun hlt => ?_⟩
        · rw [List.take_succ_cons, trackAll_cons_of n s s1 c _ is1 out he ht]; exact hs
        · rw [List.take_succ_cons, trackAll_cons_of k t t1 c' _ is1 out he' ht', hph]; exact htj
        · obtain ⟨d, d', is2, hd1, hd2, hrest⟩ := hnext (by simpa using hlt)
          exact ⟨d, d', is2, by simpa using hd1, by simpa using hd2, hrest⟩
    · rw [trackAll_cons_of n s s1 c _ is1 out he ht]; exact h1
    · rw [trackAll_cons_of k t t1 c' _ is1 out he' ht', hph]; exact h2

end EndToEnd

/-! ## the calls the translated deserialiser makes -/

namespace EndToEnd

/-- the interpreter call(s) one iteration of the loop as written makes: `toCall` of the method call of its branch (`none`: a
method call with arguments outside the modelled interface) -/
def madeCall (s : PySt) : Res → Option (List Call)
  | .call dc _ => (toCall s dc).map ([·])
  | _ => some []

/-- whenever the iteration on the tracker returns a state, it made exactly one call, and that call is the model's dispatch
`callOfInstr` of the instruction `decode1` reads -/
def StepCall (n : Nat) (s : PySt) (res : Res) (bs : List Nat) : Prop :=
  ∀ x, exec n s res = some (some x) →
    ∃ i rest c, decode1 bs = some (i, rest) ∧ callOfInstr s i = some c ∧ madeCall s res = some [c]

theorem exec_call_some (n : Nat) (s : PySt) (dc : DCall) (rest : List Nat) (x : PySt × List Nat)
    (h : exec n s (.call dc rest) = some (some x)) : ∃ c, toCall s dc = some c := by
  simp only [exec] at h
  split at h
  · cases hc : toCall s dc with
    | none => simp [hc] at h
    | some c => exact ⟨c, rfl⟩
  · simp at h

theorem call_evar (n : Nat) (s : PySt) (r : List Nat) : StepCall n s (Gen.Deser.br_EVar n s r) (2 :: r) := by
  intro x h
  cases r with
  | nil => simp [Gen.Deser.br_EVar, nextByte, exec] at h
  | cons v r => exact ⟨.evar v, r, .evar v, rfl, rfl, by simp [Gen.Deser.br_EVar, nextByte, madeCall, toCall]⟩

theorem call_svar (n : Nat) (s : PySt) (r : List Nat) : StepCall n s (Gen.Deser.br_SVar n s r) (3 :: r) := by
  intro x h
  cases r with
  | nil => simp [Gen.Deser.br_SVar, nextByte, exec] at h
  | cons v r => exact ⟨.svar v, r, .svar v, rfl, rfl, by simp [Gen.Deser.br_SVar, nextByte, madeCall, toCall]⟩

theorem call_symbol (n : Nat) (s : PySt) (r : List Nat) : StepCall n s (Gen.Deser.br_Symbol n s r) (4 :: r) := by
  intro x h
  cases r with
  | nil => simp [Gen.Deser.br_Symbol, nextByte, exec] at h
  | cons v r => exact ⟨.sym v, r, .symbol v, rfl, rfl, by simp [Gen.Deser.br_Symbol, nextByte, madeCall, toCall]⟩

theorem call_implies (n : Nat) (s : PySt) (r : List Nat) : StepCall n s (Gen.Deser.br_Implies n s r) (5 :: r) :=
  fun x h => ⟨.implies, r, .implies, rfl, rfl, by simp [Gen.Deser.br_Implies, madeCall, toCall]⟩

theorem call_app (n : Nat) (s : PySt) (r : List Nat) : StepCall n s (Gen.Deser.br_App n s r) (6 :: r) :=
  fun x h => ⟨.app, r, .app, rfl, rfl, by simp [Gen.Deser.br_App, madeCall, toCall]⟩

theorem call_mp (n : Nat) (s : PySt) (r : List Nat) : StepCall n s (Gen.Deser.br_ModusPonens n s r) (21 :: r) :=
  fun x h => ⟨.mp, r, .mp, rfl, rfl, by simp [Gen.Deser.br_ModusPonens, madeCall, toCall]⟩

theorem call_exists (n : Nat) (s : PySt) (r : List Nat) : StepCall n s (Gen.Deser.br_Exists n s r) (8 :: r) := by
  intro x h
  cases r with
  | nil => simp [Gen.Deser.br_Exists, nextByte, exec] at h
  | cons v r => exact ⟨.ex v, r, .ex v, rfl, rfl, by simp [Gen.Deser.br_Exists, nextByte, madeCall, toCall]⟩

theorem call_mu (n : Nat) (s : PySt) (r : List Nat) : StepCall n s (Gen.Deser.br_Mu n s r) (7 :: r) := by
  intro x h
  cases r with
  | nil => simp [Gen.Deser.br_Mu, nextByte, exec] at h
  | cons v r => exact ⟨.mu v, r, .mu v, rfl, rfl, by simp [Gen.Deser.br_Mu, nextByte, madeCall, toCall]⟩

theorem call_esubst (n : Nat) (s : PySt) (r : List Nat) : StepCall n s (Gen.Deser.br_ESubst n s r) (10 :: r) := by
  intro x h
  cases r with
  | nil => simp [Gen.Deser.br_ESubst, nextByte, exec] at h
  | cons v r => exact ⟨.esubst v, r, .esubst v, rfl, rfl, by simp [Gen.Deser.br_ESubst, nextByte, madeCall, toCall]⟩

theorem call_ssubst (n : Nat) (s : PySt) (r : List Nat) : StepCall n s (Gen.Deser.br_SSubst n s r) (11 :: r) := by
  intro x h
  cases r with
  | nil => simp [Gen.Deser.br_SSubst, nextByte, exec] at h
  | cons v r => exact ⟨.ssubst v, r, .ssubst v, rfl, rfl, by simp [Gen.Deser.br_SSubst, nextByte, madeCall, toCall]⟩

theorem call_metavar (n : Nat) (s : PySt) (r : List Nat) : StepCall n s (Gen.Deser.br_MetaVar n s r) (9 :: r) := by
  intro x h
  cases r with
  | nil => simp [Gen.Deser.br_MetaVar, nextByte, exec] at h
  | cons id r =>
    simp only [Gen.Deser.br_MetaVar, nextByte, DeserTie.readList_eq, decode1] at h ⊢
    cases h1 : readVec r with
    | none => simp [h1, exec] at h
    | some p1 =>
    obtain ⟨ef, r1⟩ := p1
    cases h2 : readVec r1 with
    | none => simp [h1, h2, exec] at h
    | some p2 =>
    obtain ⟨sf, r2⟩ := p2
    cases h3 : readVec r2 with
    | none => simp [h1, h2, h3, exec] at h
    | some p3 =>
    obtain ⟨ps, r3⟩ := p3
    cases h4 : readVec r3 with
    | none => simp [h1, h2, h3, h4, exec] at h
    | some p4 =>
    obtain ⟨ns, r4⟩ := p4
    cases h5 : readVec r4 with
    | none => simp [h1, h2, h3, h4, h5, exec] at h
    | some p5 =>
    obtain ⟨hs, r5⟩ := p5
    exact ⟨.metavar id ef sf ps ns hs, r5, .metavar id ef sf ps ns hs, by simp [h2, h3, h4, h5], rfl,
      by simp [h2, h3, h4, h5, madeCall, toCall]⟩

theorem call_cleanmv (n : Nat) (s : PySt) (r : List Nat) : StepCall n s (Gen.Deser.br_CleanMetaVar n s r) (137 :: r) := by
  intro x h
  cases r with
  | nil => simp [Gen.Deser.br_CleanMetaVar, nextByte, exec] at h
  | cons v r =>
    exact ⟨.cleanmv v, r, .metavar v [] [] [] [] [], rfl, rfl, by simp [Gen.Deser.br_CleanMetaVar, nextByte, madeCall, toCall]⟩

theorem call_prop1 (n : Nat) (s : PySt) (r : List Nat) : StepCall n s (Gen.Deser.br_Prop1 n s r) (12 :: r) :=
  fun x h => ⟨.prop1, r, .prop1, rfl, rfl, by simp [Gen.Deser.br_Prop1, madeCall, toCall]⟩

theorem call_prop2 (n : Nat) (s : PySt) (r : List Nat) : StepCall n s (Gen.Deser.br_Prop2 n s r) (13 :: r) :=
  fun x h => ⟨.prop2, r, .prop2, rfl, rfl, by simp [Gen.Deser.br_Prop2, madeCall, toCall]⟩

theorem call_prop3 (n : Nat) (s : PySt) (r : List Nat) : StepCall n s (Gen.Deser.br_Prop3 n s r) (14 :: r) :=
  fun x h => ⟨.prop3, r, .prop3, rfl, rfl, by simp [Gen.Deser.br_Prop3, madeCall, toCall]⟩

theorem call_quantifier (n : Nat) (s : PySt) (r : List Nat) : StepCall n s (Gen.Deser.br_Quantifier n s r) (15 :: r) :=
  fun x h => ⟨.quantifier, r, .quantifier, rfl, rfl, by simp [Gen.Deser.br_Quantifier, madeCall, toCall]⟩

theorem call_gen (n : Nat) (s : PySt) (r : List Nat) : StepCall n s (Gen.Deser.br_Generalization n s r) (22 :: r) := by
  intro x h
  cases r with
  | nil => simp [Gen.Deser.br_Generalization, nextByte, exec] at h
  | cons v r =>
    cases hp : isProved s (.stackTop 0) with
    | false => simp [Gen.Deser.br_Generalization, nextByte, assertThat, hp, exec] at h
    | true =>
      exact ⟨.gen v, r, .gen v, rfl, rfl, by simp [Gen.Deser.br_Generalization, nextByte, assertThat, hp, madeCall, toCall]⟩

theorem call_pop (n : Nat) (s : PySt) (r : List Nat) : StepCall n s (Gen.Deser.br_Pop n s r) (27 :: r) :=
  fun x h => ⟨.pop, r, .pop, rfl, rfl, by simp [Gen.Deser.br_Pop, madeCall, toCall]⟩

theorem call_save (n : Nat) (s : PySt) (r : List Nat) : StepCall n s (Gen.Deser.br_Save n s r) (28 :: r) :=
  fun x h => ⟨.save, r, .save, rfl, rfl, by simp [Gen.Deser.br_Save, madeCall, toCall]⟩

theorem call_load (n : Nat) (s : PySt) (r : List Nat) : StepCall n s (Gen.Deser.br_Load n s r) (29 :: r) := by
  intro x h
  cases r with
  | nil => simp [Gen.Deser.br_Load, nextByte, exec] at h
  | cons i r =>
    by_cases hi : i < s.memory.length
    · have hm : s.memory[i]? = some s.memory[i] := List.getElem?_eq_getElem hi
      have hge : ¬ (s.memory.length ≤ i) := by omega
      exact ⟨.load i, r, .load s.memory[i], rfl, by simp [callOfInstr, hm],
        by simp [Gen.Deser.br_Load, nextByte, madeCall, toCall, hm, hge]⟩
    · have hge : s.memory.length ≤ i := by omega
      simp [Gen.Deser.br_Load, nextByte, exec, hge] at h

theorem call_publish (n : Nat) (s : PySt) (r : List Nat) : StepCall n s (Gen.Deser.br_Publish n s r) (30 :: r) := by
  intro x h
  obtain ⟨ph, stk, mem, cl, sy⟩ := s
  cases ph with
  | gamma =>
    cases hp : isPattern ⟨.gamma, stk, mem, cl, sy⟩ (.stackTop 0) with
    | false => simp [Gen.Deser.br_Publish, assertThat, hp, exec] at h
    | true =>
      exact ⟨.publish, r, .publishAxiom, rfl, rfl, by simp [Gen.Deser.br_Publish, assertThat, hp, madeCall, toCall]⟩
  | claim =>
    cases hp : isPattern ⟨.claim, stk, mem, cl, sy⟩ (.stackTop 0) with
    | false => simp [Gen.Deser.br_Publish, assertThat, hp, exec] at h
    | true =>
      exact ⟨.publish, r, .publishClaim, rfl, rfl, by simp [Gen.Deser.br_Publish, assertThat, hp, madeCall, toCall]⟩
  | proof =>
    cases hp : isProved ⟨.proof, stk, mem, cl, sy⟩ (.stackTop 0) with
    | false => simp [Gen.Deser.br_Publish, assertThat, hp, exec] at h
    | true =>
      refine ⟨.publish, r, .publishProof, rfl, rfl, ?_⟩
      simp only [Gen.Deser.br_Publish, assertThat, hp, if_true] at h ⊢
      simp only [show (Phase.proof == Phase.gamma) = false from rfl, show (Phase.proof == Phase.claim) = false from rfl,
        show (Phase.proof == Phase.proof) = true from rfl, Bool.false_eq_true, if_false, if_true] at h ⊢
      cases hq : pyOr (some cl.isEmpty) (pyNot (claimHeadEq n ⟨.proof, stk, mem, cl, sy⟩ (.stackTop 0))) with
      | none => simp [hq, ifM, exec] at h
      | some q =>
        cases q with
        | true => simp [hq, ifM, exec] at h
        | false => simp [hq, ifM, madeCall, toCall]

end EndToEnd

namespace EndToEnd

theorem isProved_top (s : PySt) (h : isProved s (.stackTop 0) = true) : ∃ a b st, s.stack = (.proved a, b) :: st := by
  cases hs : s.stack with
  | nil => simp [isProved, Arg.term, hs] at h
  | cons e st =>
    obtain ⟨t, b⟩ := e
    cases t with
    | pat a => simp [isProved, Arg.term, hs] at h
    | proved a => exact ⟨a, b, st, rfl⟩

theorem isPattern_top (s : PySt) (h : isPattern s (.stackTop 0) = true) : ∃ a b st, s.stack = (.pat a, b) :: st := by
  cases hs : s.stack with
  | nil => simp [isPattern, Arg.term, hs] at h
  | cons e st =>
    obtain ⟨t, b⟩ := e
    cases t with
    | proved a => simp [isPattern, Arg.term, hs] at h
    | pat a => exact ⟨a, b, st, rfl⟩

/-- the body of the `Instantiate` branch after the key bytes `ids` have been read -/
theorem inst_call (n : Nat) (s : PySt) (ids r' : List Nat) (hnd : ids.Nodup) (x : PySt × List Nat)
    (h : exec n s
      (assertThat (allPattern s (stackSlice s.stack.length (ids.length + 1) 1).reverse) <|
        zipStrict ids (stackSlice s.stack.length (ids.length + 1) 1).reverse fun zipped =>
          if isProved s (.stackTop 0) then Res.call ⟨"instantiate", [.stackTop 0, .dict (pyDict zipped.reverse)]⟩ r'
          else if isPattern s (.stackTop 0) then
            Res.call ⟨"instantiate_pattern", [.stackTop 0, .dict (pyDict zipped.reverse)]⟩ r'
          else Res.raise) = some (some x)) :
    ∃ c, callOfInstr s (.instantiate ids) = some c ∧
      madeCall s
      (assertThat (allPattern s (stackSlice s.stack.length (ids.length + 1) 1).reverse) <|
        zipStrict ids (stackSlice s.stack.length (ids.length + 1) 1).reverse fun zipped =>
          if isProved s (.stackTop 0) then Res.call ⟨"instantiate", [.stackTop 0, .dict (pyDict zipped.reverse)]⟩ r'
          else if isPattern s (.stackTop 0) then
            Res.call ⟨"instantiate_pattern", [.stackTop 0, .dict (pyDict zipped.reverse)]⟩ r'
          else Res.raise) = some [c] := by
  have hV : (stackSlice s.stack.length (ids.length + 1) 1).reverse =
      List.range' 1 (min (ids.length + 1) s.stack.length - 1) := by simp [stackSlice]
  rw [hV] at h ⊢
  clear hV
  cases hall : allPattern s (List.range' 1 (min (ids.length + 1) s.stack.length - 1)) with
  | false => simp [assertThat, hall, exec] at h
  | true =>
    simp only [assertThat, hall, if_true, zipStrict, List.length_range'] at h ⊢
    by_cases hlen : ids.length = min (ids.length + 1) s.stack.length - 1
    · rw [if_pos hlen] at h ⊢
      rw [← hlen] at h ⊢
      obtain ⟨hZ1, hZ2, hZ3, hZ4⟩ := DeserTie.delta_facts ids
      have hdict : pyDict (ids.zip (List.range' 1 ids.length)).reverse = (ids.zip (List.range' 1 ids.length)).reverse :=
        DeserTie.pyDict_nodup _ (by rw [hZ1]; exact (List.reverse_perm ids).nodup_iff.mpr hnd)
      have hZ2' : ((ids.zip (List.range' 1 ids.length)).reverse).map (·.2) =
          plugPositions ((ids.zip (List.range' 1 ids.length)).reverse).length := by rw [hZ3]; exact hZ2
      obtain ⟨hc1, hc2⟩ := DeserTie.toCall_instantiate s _ hZ2'
      rw [hZ1] at hc1 hc2
      rw [hdict] at h ⊢
      cases hP : isProved s (.stackTop 0) with
      | true =>
        obtain ⟨a, b, st, hs⟩ := isProved_top s hP
        simp only [if_true]
        exact ⟨.instantiate ids.reverse, by simp [callOfInstr, hs], by simp [madeCall, hc1]⟩
      | false =>
        simp only [hP, Bool.false_eq_true, if_false] at h ⊢
        cases hQ : isPattern s (.stackTop 0) with
        | true =>
          obtain ⟨a, b, st, hs⟩ := isPattern_top s hQ
          simp only [if_true]
          exact ⟨.instantiatePattern ids.reverse, by simp [callOfInstr, hs], by simp [madeCall, hc2]⟩
        | false => simp [hQ, exec] at h
    · rw [if_neg hlen] at h
      simp [exec] at h

theorem call_instantiate (n : Nat) (s : PySt) (r : List Nat) (hk : DeserTie.NodupKeys1 (26 :: r)) :
    StepCall n s (Gen.Deser.br_Instantiate n s r) (26 :: r) := by
  intro x h
  cases r with
  | nil => simp [Gen.Deser.br_Instantiate, nextByte, exec] at h
  | cons m r =>
    simp only [Gen.Deser.br_Instantiate, nextByte, DeserTie.nextBytes_eq, decode1] at h ⊢
    cases htk : takeN m r with
    | none => simp [htk, exec] at h
    | some pr =>
      obtain ⟨ids, r'⟩ := pr
      have hlen : ids.length = m := (takeN_length htk).2
      have hnd : ids.Nodup := hk ids r' (by simp [decode1, htk])
      subst hlen
      simp only [htk, Option.map_some] at h ⊢
      obtain ⟨c, hc, hm⟩ := inst_call n s ids r' hnd x h
      exact ⟨.instantiate ids, r', c, rfl, hc, hm⟩

/-- **the call of one loop iteration**: whenever the branch of opcode byte `b` as written, run on the tracker, returns a state,
it made one interpreter call, namely the model's dispatch of the decoded instruction -/
theorem step_call (n : Nat) (s : PySt) (b : Nat) (r : List Nat) (hk : DeserTie.NodupKeys1 (b :: r)) :
    StepCall n s (Gen.Deser.step n s b r) (b :: r) := by
  rw [DeserTie.step_eq]
  by_cases h2 : b = 2
  · subst h2; exact call_evar n s r
  rw [if_neg h2]
  by_cases h3 : b = 3
  · subst h3; exact call_svar n s r
  rw [if_neg h3]
  by_cases h4 : b = 4
  · subst h4; exact call_symbol n s r
  rw [if_neg h4]
  by_cases h5 : b = 5
  · subst h5; exact call_implies n s r
  rw [if_neg h5]
  by_cases h6 : b = 6
  · subst h6; exact call_app n s r
  rw [if_neg h6]
  by_cases h8 : b = 8
  · subst h8; exact call_exists n s r
  rw [if_neg h8]
  by_cases h7 : b = 7
  · subst h7; exact call_mu n s r
  rw [if_neg h7]
  by_cases h10 : b = 10
  · subst h10; exact call_esubst n s r
  rw [if_neg h10]
  by_cases h11 : b = 11
  · subst h11; exact call_ssubst n s r
  rw [if_neg h11]
  by_cases h9 : b = 9
  · subst h9; exact call_metavar n s r
  rw [if_neg h9]
  by_cases h137 : b = 137
  · subst h137; exact call_cleanmv n s r
  rw [if_neg h137]
  by_cases h12 : b = 12
  · subst h12; exact call_prop1 n s r
  rw [if_neg h12]
  by_cases h13 : b = 13
  · subst h13; exact call_prop2 n s r
  rw [if_neg h13]
  by_cases h14 : b = 14
  · subst h14; exact call_prop3 n s r
  rw [if_neg h14]
  by_cases h21 : b = 21
  · subst h21; exact call_mp n s r
  rw [if_neg h21]
  by_cases h15 : b = 15
  · subst h15; exact call_quantifier n s r
  rw [if_neg h15]
  by_cases h22 : b = 22
  · subst h22; exact call_gen n s r
  rw [if_neg h22]
  by_cases h26 : b = 26
  · subst h26; exact call_instantiate n s r hk
  rw [if_neg h26]
  by_cases h27 : b = 27
  · subst h27; exact call_pop n s r
  rw [if_neg h27]
  by_cases h28 : b = 28
  · subst h28; exact call_save n s r
  rw [if_neg h28]
  by_cases h29 : b = 29
  · subst h29; exact call_load n s r
  rw [if_neg h29]
  by_cases h30 : b = 30
  · subst h30; exact call_publish n s r
  rw [if_neg h30]
  intro x h
  simp [exec] at h

/-! ## the loop as written, returning the calls it made -/

/-- `runWith` (the `while` loop of `deserialize_instructions` as written, executor `E` of one iteration), also returning the
interpreter calls the iterations made, in order -/
def runWithTr (n : Nat) (E : PySt → Res → Option (Option (PySt × List Nat))) :
    Nat → PySt → List Nat → Option (Option (List Call × PySt))
  | _, s, [] => some (some ([], s))
  | 0, _, _ :: _ => none
  | fuel + 1, s, byte :: bs =>
      match E s (Gen.Deser.step n s byte bs) with
      | none => none
      | some none => some none
      | some (some (s', rest)) =>
          match madeCall s (Gen.Deser.step n s byte bs) with
          | none => none
          | some l =>
              match runWithTr n E fuel s' rest with
              | none => none
              | some none => some none
              | some (some (cs, s'')) => some (some (l ++ cs, s''))

/-- an executor that returns a state only for an iteration whose method call is in the modelled interface -/
def ExecCalls (E : PySt → Res → Option (Option (PySt × List Nat))) : Prop :=
  ∀ s res x, E s res = some (some x) → ∃ l, madeCall s res = some l

theorem execCalls_exec (n : Nat) : ExecCalls (exec n) := by
  intro s res x h
  cases res with
  | call dc rest =>
    obtain ⟨c, hc⟩ := exec_call_some n s dc rest x h
    exact ⟨[c], by simp [madeCall, hc]⟩
  | _ => exact ⟨[], rfl⟩

theorem execCalls_execI (n : Nat) : ExecCalls (execI n) := by
  intro s res x h
  cases res with
  | call dc rest =>
    simp only [execI] at h
    split at h
    · cases hc : toCall s dc with
      | none => simp [hc] at h
      | some c => exact ⟨[c], by simp [madeCall, hc]⟩
    · simp at h
  | _ => exact ⟨[], rfl⟩

/-- forgetting the calls gives `runWith` -/
theorem runWith_eq_runWithTr (n : Nat) (E : PySt → Res → Option (Option (PySt × List Nat))) (hE : ExecCalls E) :
    ∀ (f : Nat) (s : PySt) (bs : List Nat), runWith n E f s bs = (runWithTr n E f s bs).map (Option.map (·.2)) := by
  intro f
  induction f with
  | zero => intro s bs; cases bs <;> rfl
  | succ f ih =>
    intro s bs
    cases bs with
    | nil => rfl
    | cons b r =>
      simp only [runWith, runWithTr]
      cases hx : E s (Gen.Deser.step n s b r) with
      | none => rfl
      | some o =>
        cases o with
        | none => rfl
        | some p =>
          obtain ⟨s', rest⟩ := p
          obtain ⟨l, hl⟩ := hE s _ _ hx
          simp only [hl, ih s' rest]
          cases runWithTr n E f s' rest with
          | none => rfl
          | some o' =>
            cases o' with
            | none => rfl
            | some q => rfl

/-- **the loop as written makes the model's calls**: `runWith_replay` with the calls — on a decodable stream (distinct
`Instantiate` keys, metavariables without freshness constraints) from a well-shaped state in which every `Publish` of the proof
phase finds a proof of the next claim, a run of the generated `while` loop that returns, returns the calls and the state the
model's `replayCalls` of the decoded instructions returns -/
theorem runWithTr_replayCalls (n : Nat) (E : PySt → Res → Option (Option (PySt × List Nat))) (hE : ExecSound n E) :
    ∀ (f : Nat) (s : PySt) (bs : List Nat) (is : List Instr) (r : Option (List Call × PySt)), bs.length ≤ f →
    decodeF f bs = some is → DeserTie.NodupKeys is → (∀ i ∈ is, i.mvClean = true) → ShapeSt s → PubOKAlong n s is →
    runWithTr n E f s bs = some r → replayCalls n s is = some r := by
  intro f
  induction f with
  | zero =>
    intro s bs is r hlen hd _ _ _ _ hrun
    cases bs with
    | nil => simp only [decodeF, Option.some.injEq] at hd; subst hd; exact hrun
    | cons b r => simp at hlen
  | succ f ih =>
    intro s bs is r0 hlen hd hk hmv hS hp hrun
    cases bs with
    | nil => simp only [decodeF, Option.some.injEq] at hd; subst hd; exact hrun
    | cons b r =>
      simp only [decodeF] at hd
      cases h1 : decode1 (b :: r) with
      | none => simp [h1] at hd
      | some ir =>
        obtain ⟨i, rest⟩ := ir
        simp only [h1, Option.map_eq_some_iff] at hd
        obtain ⟨is', hd', rfl⟩ := hd
        have hrest : rest.length ≤ f := by
          have := decode1_length h1
          simp only [List.length_cons] at this hlen
          omega
        have hk1 : DeserTie.NodupKeys1 (b :: r) := by
          intro ids rest' hdec
          rw [h1] at hdec
          simp only [Option.some.injEq, Prod.mk.injEq] at hdec
          exact hk ids (by rw [← hdec.1]; simp)
        simp only [runWithTr] at hrun
        cases hx : E s (Gen.Deser.step n s b r) with
        | none => simp [hx] at hrun
        | some x =>
          have hex := hE s _ x hS hx
          have hp1 : b = 30 → DeserTie.PrecheckAgrees n s := by
            intro hb
            subst hb
            have hi : i = .publish := by
              simp only [decode1, Option.some.injEq, Prod.mk.injEq] at h1
              exact h1.1.symm
            rw [step_publish] at hex
            exact precheck_of_exec n s r x hS (hp.1 hi) hex
          have htie := DeserTie.step_tie n s b r hk1 hp1
          rw [hex] at htie
          simp only [DeserTie.modelStep, h1] at htie
          cases hc : callOfInstr s i with
          | none =>
            simp only [hc, Option.some.injEq] at htie
            subst htie
            simp only [hx, Option.some.injEq] at hrun
            subst hrun
            simp only [replayCalls, hc]
          | some c =>
            simp only [hc] at htie
            cases ht : track1 n s c with
            | none => simp [ht] at htie
            | some o =>
              cases o with
              | none =>
                simp only [ht, Option.map_some, Option.map_none, Option.some.injEq] at htie
                subst htie
                simp only [hx, Option.some.injEq] at hrun
                subst hrun
                simp only [replayCalls, hc, ht]
              | some s' =>
                simp only [ht, Option.map_some, Option.some.injEq] at htie
                subst htie
                -- the call the branch as written made is `c`
                obtain ⟨i2, rest2, c2, hd2, hc2, hm2⟩ := step_call n s b r hk1 _ hex
                rw [h1] at hd2
                simp only [Option.some.injEq, Prod.mk.injEq] at hd2
                obtain ⟨rfl, rfl⟩ := hd2
                rw [hc] at hc2
                cases hc2
                simp only [hx, hm2] at hrun
                simp only [replayCalls, hc, ht]
                cases hrr : runWithTr n E f s' rest with
                | none => simp [hrr] at hrun
                | some rr =>
                  have := ih s' rest is' rr hrest hd' (fun ids hm => hk ids (List.mem_cons_of_mem _ hm))
                    (fun j hj => hmv j (List.mem_cons_of_mem _ hj))
                    (shape_step n s s' i c hS (hmv i (List.mem_cons_self ..)) hc ht) (hp.2 c s' hc ht) hrr
                  rw [this]
                  simp only [hrr] at hrun
                  cases rr with
                  | none => exact hrun
                  | some q => obtain ⟨cs, s''⟩ := q; exact hrun

end EndToEnd

namespace EndToEnd

/-! ## lock step for one phase and for a module, through the texts -/

/-- a well-formed history of one phase emits one instruction per call -/
theorem emitAll_length (n : Nat) : ∀ (cs : List Call) (s s' : PySt) (is : List Instr), CallsOK n s cs →
    PySt.emitAll n s cs = some (some (s', is)) → is.length = cs.length := by
  intro cs
  induction cs with
  | nil =>
    intro s s' is _ he
    simp only [PySt.emitAll, Option.some.injEq, Prod.mk.injEq] at he
    rw [← he.2]; rfl
  | cons c cs ih =>
    intro s s' is hok he
    obtain ⟨hok1, hoks⟩ := hok
    obtain ⟨is1, s1, js, he1, ht1, hes, rfl⟩ := emitAll_cons n s s' c cs is he
    obtain ⟨i, rfl⟩ := emit1_single n s c is1 hok1.1 hok1.2.1 he1
    simp [ih s1 s' js (hoks s1 ht1) hes]

/-- **one phase, through the texts, in lock step** (`roundtrip_phaseE` with the steps): the loop of `deserialize_instructions`
as written on `encode is` — executor: the tracker or the translated `StatefulInterpreter` — from a state `t` equal to the
history's initial state up to notation, if it returns, made the calls `cs'` the model's `replayCalls` makes, and `cs'` runs in
lock step with the history -/
theorem roundtrip_phaseL (n k : Nat) (E : PySt → Res → Option (Option (PySt × List Nat))) (hE : ExecSound k E)
    (cs : List Call) (s t s' : PySt) (is : List Instr)
    (hEq : StEqG true s t) (hSs : ShapeSt s) (hSt : ShapeSt t) (hC : CanonTab s.symtab) (hok : CallsOK n s cs)
    (hkeys : ∀ c ∈ cs, c.keysNodup = true) (hem : PySt.emitAll n s cs = some (some (s', is))) :
    ∀ r, runWithTr k E (encode is).length t (encode is) = some r →
      ∃ cs' t', r = some (cs', t') ∧ replayCalls k t is = some (some (cs', t')) ∧ Lock n k s t cs cs' s' t' ∧ ShapeSt t' := by
  intro r hr
  obtain ⟨hnd, hmv⟩ := emitAll_instrs n cs s s' is hok hkeys hem
  have hpub := pubOKAlong_emit n k cs s t s' is hEq hSs hSt hC hok hem
  have hrep := runWithTr_replayCalls k E hE _ t _ is r (Nat.le_refl _) (decode_encode is) hnd hmv hSt hpub hr
  obtain ⟨cs', t', rfl, hL⟩ := replayCalls_lock n k cs s t s' is r hEq hSs hSt hC hok hem hrep
  refine ⟨cs', t', rfl, hrep, hL, replay_shape k is t t' hmv hSt ?_⟩
  rw [replay_eq_replayCalls, hrep]; rfl

open PyI in
/-- `deserModWith`, also returning the interpreter calls made: those of the three loops and the two phase switches -/
def deserModWithTr (k : Nat) (E : PySt → Res → Option (Option (PySt × List Nat))) (t : PySt) (gb cb pb : List Nat) :
    Option (Option (List Call × PySt)) :=
  call (runWithTr k E gb.length t gb) fun p1 =>
  call (Gen.PyInterp.Stateful.into_claim_phase p1.2) fun t1' =>
  call (runWithTr k E cb.length t1' cb) fun p2 =>
  call (Gen.PyInterp.Stateful.into_proof_phase p2.2) fun t2' =>
  call (runWithTr k E pb.length t2' pb) fun p3 =>
  some (some (p1.1 ++ Call.intoClaim :: (p2.1 ++ Call.intoProof :: p3.1), p3.2))

/-- forgetting the calls gives `deserModWith` -/
theorem deserModWith_eq_tr (k : Nat) (E : PySt → Res → Option (Option (PySt × List Nat))) (hE : ExecCalls E) (t : PySt)
    (gb cb pb : List Nat) :
    deserModWith k E t gb cb pb = (deserModWithTr k E t gb cb pb).map (Option.map (·.2)) := by
  simp only [deserModWith, deserModWithTr, runWith_eq_runWithTr k E hE]
  rcases h1 : runWithTr k E gb.length t gb with _ | _ | p1 <;> simp only [Option.map_none, Option.map_some, PyI.call]
  rcases h2 : Gen.PyInterp.Stateful.into_claim_phase p1.2 with _ | _ | t1' <;> simp only [Option.map_none, Option.map_some]
  rcases h3 : runWithTr k E cb.length t1' cb with _ | _ | p2 <;> simp only [Option.map_none, Option.map_some]
  rcases h4 : Gen.PyInterp.Stateful.into_proof_phase p2.2 with _ | _ | t2' <;> simp only [Option.map_none, Option.map_some]
  rcases h5 : runWithTr k E pb.length t2' pb with _ | _ | p3 <;> simp only [Option.map_none, Option.map_some]

/-- **a module, through the texts, in lock step** (`roundtrip_modG` with the steps) -/
theorem roundtrip_modL (n k : Nat) (E : PySt → Res → Option (Option (PySt × List Nat))) (hE : ExecSound k E)
    (claims : List NPat) (gs cls pfs : List Call) (s' : PySt) (g c p : List Instr)
    (hclaims : ∀ q ∈ claims, q.Shape = true)
    (hok : ModOK n claims gs cls pfs)
    (hkeys : ∀ x ∈ gs ++ cls ++ pfs, x.keysNodup = true)
    (hT : PySt.trackAll n (PySt.init claims) (gs ++ .intoClaim :: (cls ++ .intoProof :: pfs)) ([], [], [])
      = some (some (s', (g, c, p)))) :
    ∀ r, deserModWithTr k E (PySt.init claims) (encode g) (encode c) (encode p) = some r →
      ∃ cs' t', r = some (cs', t') ∧
        Lock n k (PySt.init claims) (PySt.init claims) (gs ++ .intoClaim :: (cls ++ .intoProof :: pfs)) cs' s' t' ∧
        ShapeSt t' := by
  intro r hr
  -- split the history
  obtain ⟨s1, o1, hT1, hT⟩ := trackAll_append_some n gs _ _ _ _ hT
  obtain ⟨s1', hi1, hT⟩ := trackAll_into n .intoClaim (Or.inl rfl) _ s1 o1 _ hT
  obtain ⟨s2, o2, hT2, hT⟩ := trackAll_append_some n cls _ _ _ _ hT
  obtain ⟨s2', hi2, hT3⟩ := trackAll_into n .intoProof (Or.inr rfl) _ s2 o2 _ hT
  obtain ⟨hokg, hok⟩ := hok
  obtain ⟨hokc, hok⟩ := hok s1 o1 s1' hT1 hi1
  have hokp := hok s2 o2 s2' hT2 hi2
  have hS0 := shapeSt_init claims hclaims
  have hkg : ∀ x ∈ gs, x.keysNodup = true := fun x hx => hkeys x (by simp [hx])
  have hkc : ∀ x ∈ cls, x.keysNodup = true := fun x hx => hkeys x (by simp [hx])
  have hkp : ∀ x ∈ pfs, x.keysNodup = true := fun x hx => hkeys x (by simp [hx])
  -- the history side: the three instruction lists
  obtain ⟨isg, hemg, ho1⟩ := trackAll_emitAll n gs _ s1 _ o1 hS0 hokg hT1
  obtain ⟨hS1, hC1⟩ := emitAll_final n gs _ s1 isg hS0 (canonTab_init claims) hokg hemg
  obtain ⟨_, _, _, hS1', _, hC1'⟩ :=
    into_congr n n .intoClaim (Or.inl rfl) s1 s1 s1' _ (StEqG.refl true _) hS1 hS1 hC1 hi1 hi1
  obtain ⟨isc, hemc, ho2⟩ := trackAll_emitAll n cls s1' s2 o1 o2 hS1' hokc hT2
  obtain ⟨hS2, hC2⟩ := emitAll_final n cls s1' s2 isc hS1' hC1' hokc hemc
  obtain ⟨_, _, _, hS2', _, hC2'⟩ :=
    into_congr n n .intoProof (Or.inr rfl) s2 s2 s2' _ (StEqG.refl true _) hS2 hS2 hC2 hi2 hi2
  obtain ⟨isp, hemp, ho3⟩ := trackAll_emitAll n pfs s2' s' o2 (g, c, p) hS2' hokp hT3
  have hph1 : s1.phase = .gamma := by
    cases hph : s1.phase <;> simp [PySt.track1, hph] at hi1 <;> rfl
  have hph1' : s1'.phase = .claim := by
    simp only [PySt.track1, hph1, Option.some.injEq] at hi1; subst hi1; rfl
  have hph2 : s2.phase = .claim := by
    cases hph : s2.phase <;> simp [PySt.track1, hph] at hi2 <;> rfl
  have hph2' : s2'.phase = .proof := by
    simp only [PySt.track1, hph2, Option.some.injEq] at hi2; subst hi2; rfl
  rw [hph1'] at ho2
  rw [hph2'] at ho3
  rw [ho1] at ho2
  rw [ho2] at ho3
  simp only [PySt.init, addOut, List.nil_append, Prod.mk.injEq] at ho3
  obtain ⟨rfl, rfl, rfl⟩ := ho3
  -- the deserialiser's run
  simp only [deserModWithTr] at hr
  have hrt1 := roundtrip_phaseL n k E hE gs _ _ s1 g (StEqG.refl true _) hS0 hS0 (canonTab_init claims) hokg hkg hemg
  rcases call_some hr with ⟨hx, _⟩ | ⟨p1, hx, hr⟩
  · obtain ⟨_, _, ht', _⟩ := hrt1 _ hx
    cases ht'
  obtain ⟨c1, t1, ht1', _, hL1, hSt1⟩ := hrt1 _ hx
  cases ht1'
  have hE1 := hL1.final
  simp only [] at hr
  rw [InterpTie.into_claim_phase_tie k t1] at hr
  rcases call_some hr with ⟨hx, _⟩ | ⟨t1', hx, hr⟩
  · obtain ⟨_, h', _⟩ := into_congr n k .intoClaim (Or.inl rfl) s1 t1 s1' _ hE1 hS1 hSt1 hC1 hi1 hx
    cases h'
  have hxc := hx
  obtain ⟨t1c, h', hE1', _, hSt1', _⟩ := into_congr n k .intoClaim (Or.inl rfl) s1 t1 s1' _ hE1 hS1 hSt1 hC1 hi1 hx
  cases h'
  have hLc := Lock.switch (n := n) (k := k) .intoClaim (Or.inl rfl) hE1 hE1' hi1 hxc
  have hrt2 := roundtrip_phaseL n k E hE cls s1' t1' s2 c hE1' hS1' hSt1' hC1' hokc hkc hemc
  rcases call_some hr with ⟨hx, _⟩ | ⟨p2, hx, hr⟩
  · obtain ⟨_, _, h', _⟩ := hrt2 _ hx
    cases h'
  obtain ⟨c2, t2, h', _, hL2, hSt2⟩ := hrt2 _ hx
  cases h'
  have hE2 := hL2.final
  simp only [] at hr
  rw [InterpTie.into_proof_phase_tie k t2] at hr
  rcases call_some hr with ⟨hx, _⟩ | ⟨t2', hx, hr⟩
  · obtain ⟨_, h', _⟩ := into_congr n k .intoProof (Or.inr rfl) s2 t2 s2' _ hE2 hS2 hSt2 hC2 hi2 hx
    cases h'
  have hxp := hx
  obtain ⟨t2p, h', hE2', _, hSt2', _⟩ := into_congr n k .intoProof (Or.inr rfl) s2 t2 s2' _ hE2 hS2 hSt2 hC2 hi2 hx
  cases h'
  have hLp := Lock.switch (n := n) (k := k) .intoProof (Or.inr rfl) hE2 hE2' hi2 hxp
  have hrt3 := roundtrip_phaseL n k E hE pfs s2' t2' s' p hE2' hS2' hSt2' hC2' hokp hkp hemp
  rcases call_some hr with ⟨hx, _⟩ | ⟨p3, hx, hr⟩
  · obtain ⟨_, _, h', _⟩ := hrt3 _ hx
    cases h'
  obtain ⟨c3, t3, h', _, hL3, hSt3⟩ := hrt3 _ hx
  cases h'
  simp only [Option.some.injEq] at hr
  subst hr
  refine ⟨_, t3, rfl, ?_, hSt3⟩
  have := hL1.append (hLc.append (hL2.append (hLp.append hL3)))
  simpa using this

end EndToEnd

#print axioms EndToEnd.replayCalls_lock
#print axioms EndToEnd.Lock.sameSteps
#print axioms EndToEnd.step_call
#print axioms EndToEnd.runWithTr_replayCalls
#print axioms EndToEnd.roundtrip_phaseL
#print axioms EndToEnd.roundtrip_modL
