import Pi2.ModuleMOKAccept
/-!
# `PModule.MOK` is exactly the side conditions, on modules that run

For a module whose axioms and claims are shaped and machine-OK and whose `execute_full` run returns:
`PModule.MOK m = true` ⇔ every proof has its patterns in order and the machine accepts its instantiations (`PfOK`) and
there is one proof per claim (⇔ no claim is left).  So `MOK` loses nothing: the checks it makes on `mp` (premises
match), `gen` (freshness) and `loadAxiom` (declared) are consequences of the run itself.
-/
set_option linter.unusedSimpArgs false
set_option linter.unusedVariables false
open Pat PySt

namespace KMod
open NPat

theorem patsOK_shaped : ∀ (pf : Pf), pf.patsOK = true → pf.Shaped := by
  intro pf
  induction pf with
  | prop1 => intro _; trivial
  | prop2 => intro _; trivial
  | prop3 => intro _; trivial
  | quantifier => intro _; trivial
  | loadAxiom a => intro h; exact h
  | mp l r ihl ihr =>
    intro h
    simp only [Pf.patsOK, Bool.and_eq_true] at h
    exact ⟨ihl h.1, ihr h.2⟩
  | gen p x ih => intro h; exact ih h
  | dynInst p δ ih =>
    intro h
    simp only [Pf.patsOK, Bool.and_eq_true, decide_eq_true_eq] at h
    exact ⟨ih h.1.1.1, h.1.2⟩

theorem declared_of_axOK (ax : List NPat) : ∀ (pf : Pf), pf.AxOK ax → pf.declared ax = true := by
  intro pf
  induction pf with
  | prop1 => intro _; rfl
  | prop2 => intro _; rfl
  | prop3 => intro _; rfl
  | quantifier => intro _; rfl
  | loadAxiom a =>
    intro h
    obtain ⟨x, hx, he⟩ := h a (by simp [Pf.loadedAxioms])
    simp only [Pf.declared, List.any_eq_true, beq_iff_eq]
    exact ⟨x, hx, he⟩
  | mp l r ihl ihr =>
    intro h
    simp only [Pf.declared, Bool.and_eq_true]
    exact ⟨ihl fun a ha => h a (by simp [Pf.loadedAxioms, ha]), ihr fun a ha => h a (by simp [Pf.loadedAxioms, ha])⟩
  | gen p x ih => intro h; exact ih fun a ha => h a (by simpa [Pf.loadedAxioms] using ha)
  | dynInst p δ ih => intro h; exact ih fun a ha => h a (by simpa [Pf.loadedAxioms] using ha)

theorem checkF_conc {ax : List NPat} {k : Nat} {pf : Pf} {s' s1 : PySt} {a' a1 : List Call} {c : NPat}
    (h : checkF ax k pf s' a' = some (some (s1, a1, c))) : ∃ adv, Pf.concF ax k pf = some (some adv) := by
  simp only [checkF] at h
  split at h
  · simp only [Option.bind_eq_some_iff] at h
    obtain ⟨o, ho, h⟩ := h
    cases o with
    | none => simp at h
    | some adv => exact ⟨adv, ho⟩
  · simp at h

/-- a run that returns under the side conditions certifies `Pf.MOK` -/
theorem mok_of_run {k : Nat} {ax : List NPat} {pf : Pf} {s s1 : PySt} {acc a1 : List Call} {c : NPat}
    (hax : AxShaped ax) (hpf : PfOK pf)
    (h : Pf.runF {} ax k s pf acc = some (some (s1, a1, c))) : Pf.MOK ax pf = true := by
  obtain ⟨_, _, hS, _⟩ := runC (Nat.le_refl k) ax h hpf.1 hpf.2
  have hc := concM_of_sem hS hpf.1 hpf.2
  cases k with
  | zero => simp [Pf.runF] at h
  | succ k =>
    rw [runF_succ] at h
    rcases andThen_eq_some _ _ _ h with ⟨_, e⟩ | ⟨s3, a3, _, hchk⟩
    · cases e
    obtain ⟨adv, hadv⟩ := checkF_conc hchk
    have hok := concF_axok ax hax k pf adv (patsOK_shaped pf hpf.1) hadv
    simp [Pf.MOK, hpf.1, declared_of_axOK ax pf hok, hc]

theorem proofs_runs {M : PModule} {n : Nat} :
    ∀ (pfs : List Pf) (s : PySt) (acc : List Call) (s' : PySt) (a' : List Call),
    PModule.executeFull.proofs {} M n s acc pfs = some (some (s', a')) →
    ∀ pf ∈ pfs, ∃ s0 acc0 s1 a1 c, Pf.runF {} M.axiomsOf n s0 pf acc0 = some (some (s1, a1, c)) := by
  intro pfs
  induction pfs with
  | nil => intro _ _ _ _ _ pf hpf; cases hpf
  | cons pf r ih =>
    intro s acc s' a' h x hx
    obtain ⟨s1, a1, c, s2, a2, hrun, hpub, hrest⟩ := proofs_cons_inv h
    rcases List.mem_cons.mp hx with rfl | hx
    · exact ⟨s, acc, s1, a1, c, hrun⟩
    · exact ih s2 a2 s' a' hrest x hx

theorem proofsM_len {M : PModule} {n : Nat} :
    ∀ (pfs : List Pf) (s : PySt) (acc : List Call) (s' : PySt) (a' : List Call),
    PModule.executeFull.proofs {} M n s acc pfs = some (some (s', a')) →
    (∀ pf ∈ pfs, PfOK pf) → PInvMk s → s.claims.length = s'.claims.length + pfs.length := by
  intro pfs
  induction pfs with
  | nil =>
    intro s acc s' a' h _ _
    simp only [PModule.executeFull.proofs, Option.some.injEq, Prod.mk.injEq] at h
    obtain ⟨rfl, rfl⟩ := h
    simp
  | cons pf r ih =>
    intro s acc s' a' h hpfs hinv
    obtain ⟨s1, a1, c, s2, a2, hrun, hpub, hrest⟩ := proofs_cons_inv h
    obtain ⟨hinv2, _, hl⟩ := stepM_ext M.axiomsOf (hpfs pf (by simp)) hrun hpub hinv
    have := ih s2 a2 s' a' hrest (fun x hx => hpfs x (List.mem_cons_of_mem _ hx)) hinv2
    simp only [List.length_cons]
    omega

/-- where the proof phase of `execute_full` starts -/
theorem module_proof_start {n : Nat} (M : PModule) (s : PySt) (calls : List Call)
    (hgam : ∀ a ∈ M.gammaAxioms, a.SM = true) (hclm : ∀ a ∈ M.claimsOf, a.SM = true)
    (hex : PModule.executeFull {} n M = some (some (s, calls))) :
    ∃ e4 a4, PModule.executeFull.proofs {} M n e4 a4 M.proofsOf = some (some (s, calls)) ∧ PInvMk e4 ∧
      e4.claims = M.claimsOf := by
  have hsm : ∀ a : NPat, a.SM = true → a.Shape = true ∧ a.MOK = true := by
    intro a h; simpa [NPat.SM] using h
  simp only [PModule.executeFull, Option.bind_eq_bind, Option.bind_eq_some_iff] at hex
  obtain ⟨o1, hpub1, hex⟩ := hex
  rcases o1 with _ | ⟨e1, a1⟩
  · simp at hex
  simp only [Option.bind_eq_some_iff] at hex
  obtain ⟨o2, hd1, hex⟩ := hex
  rcases o2 with _ | ⟨e2, a2⟩
  · simp at hex
  simp only [Option.bind_eq_some_iff] at hex
  obtain ⟨o3, hpub2, hex⟩ := hex
  rcases o3 with _ | ⟨e3, a3⟩
  · simp at hex
  simp only [Option.bind_eq_some_iff] at hex
  obtain ⟨o4, hd2, hex⟩ := hex
  rcases o4 with _ | ⟨e4, a4⟩
  · simp at hex
  simp only [] at hex
  obtain ⟨ht1, rfl⟩ := MM.doCalls_one hd1
  obtain ⟨ht2, rfl⟩ := MM.doCalls_one hd2
  obtain ⟨hphe1, he2⟩ := intoClaim_spec n e1 e2 ht1
  obtain ⟨hphe3, he4⟩ := intoProof_spec n e3 e4 ht2
  have hmokG : ∀ a ∈ M.gammaAxioms, a.MOK = true := fun a ha => (hsm a (hgam a ha)).2
  have hmokC : ∀ a ∈ M.claimsOf.reverse, a.MOK = true :=
    fun a ha => (hsm a (hclm a (List.mem_reverse.mp ha))).2
  have hph2 : e2.phase = .claim := by rw [he2]
  obtain ⟨⟨hmem1, hcl1, _, _⟩, _⟩ := pubAxiomC (fun nm => e1.symtab.idxOf nm) M.gammaAxioms _ [] e1 a1 hpub1
    hmokG rfl (agree_idxOf _)
  obtain ⟨⟨hmem3, hcl3, _, _⟩, _⟩ := pubClaimC (fun nm => e3.symtab.idxOf nm) M.claimsOf.reverse e2 _ e3 a3
    hpub2 hmokC hph2 (agree_idxOf _)
  have hmem4 : e4.memory = M.gammaAxioms.map .proved := by
    rw [he4]; show e3.memory = _
    rw [hmem3, he2]; show e1.memory = _
    rw [hmem1]; simp [PySt.init]
  have hcl4 : e4.claims = M.claimsOf := by
    rw [he4]; show e3.claims = _
    rw [hcl3, he2]; show e1.claims = _
    rw [hcl1]; rfl
  refine ⟨e4, _, hex, ⟨by rw [he4], ?_, ?_⟩, hcl4⟩
  · intro t ht
    rw [hmem4] at ht
    obtain ⟨a, ha, rfl⟩ := List.mem_map.mp ht
    exact ⟨a, rfl, (hsm a (hgam a ha)).1⟩
  · intro c hc
    rw [hcl4] at hc
    exact (hsm c (hclm c hc)).1

/-- no claim is left iff there is one proof per claim -/
theorem module_len_iff {n : Nat} (M : PModule) (s : PySt) (calls : List Call)
    (hgam : ∀ a ∈ M.gammaAxioms, a.SM = true) (hclm : ∀ a ∈ M.claimsOf, a.SM = true)
    (hpfs : ∀ pf ∈ M.proofsOf, PfOK pf)
    (hex : PModule.executeFull {} n M = some (some (s, calls))) :
    s.claims = [] ↔ M.claimsOf.length = M.proofsOf.length := by
  obtain ⟨e4, a4, hP, hinv, hcl⟩ := module_proof_start M s calls hgam hclm hex
  have := proofsM_len M.proofsOf e4 a4 s calls hP hpfs hinv
  rw [hcl] at this
  constructor
  · intro h; rw [h] at this; simpa using this
  · intro h; rw [h] at this
    exact List.length_eq_zero_iff.mp (by omega)

/-- **the side conditions, on a module that runs, are `PModule.MOK`** -/
theorem module_mok_of_run {n : Nat} (M : PModule) (s : PySt) (calls : List Call)
    (hgam : ∀ a ∈ M.gammaAxioms, a.SM = true) (hclm : ∀ a ∈ M.claimsOf, a.SM = true)
    (hpfs : ∀ pf ∈ M.proofsOf, PfOK pf) (hfin : s.claims = [])
    (hex : PModule.executeFull {} n M = some (some (s, calls))) : M.MOK = true := by
  have hlen := (module_len_iff M s calls hgam hclm hpfs hex).mp hfin
  obtain ⟨e4, a4, hP, _, _⟩ := module_proof_start M s calls hgam hclm hex
  have hax : AxShaped M.axiomsOf := by
    intro a ha
    have := hgam a (axiomsOf_sub_gamma M a ha)
    simp only [NPat.SM, Bool.and_eq_true] at this
    exact this.1
  simp only [PModule.MOK, Bool.and_eq_true, List.all_eq_true, beq_iff_eq]
  refine ⟨⟨⟨hgam, hclm⟩, ?_⟩, hlen⟩
  intro pf hpf
  obtain ⟨s0, acc0, s1, a1, c, hrun⟩ := proofs_runs M.proofsOf e4 a4 s calls hP pf hpf
  exact mok_of_run hax (hpfs pf hpf) hrun

end KMod
