import Pi2.LemmaDefs
import Pi2.ProofThm
/-!
# The derived-rule libraries: the proof-tree side (`GTh`, `dyn`); the language, its interpreter and the conclusion algebra are
in `Pi2/LemmaDefs.lean`
-/
open Pat

namespace Lem

/-- a proof tree with its conclusion and the evidence that the tree means it -/
structure GTh where
  pf : Pf
  conc : Pat
  ok : Pf.Sem pf conc

/-- `dynamic_inst(pf, delta)`: an empty `delta` returns `pf` itself -/
def dyn (pf : Pf) (δ : List (Nat × Pat)) : Pf :=
  if δ.isEmpty then pf else .dynInst pf (δ.map fun (i, p) => (i, NPat.ofPat p))

end Lem
