import Pi2.Tracker
/-!
# Vocabulary of the generated deserialiser (`Pi2/Gen/Deserializer.lean`, from `deserialize.py`)

Hand-written and small.  The generated file says, per opcode, which operand bytes are read, which interpreter method is
called and *where its arguments come from* (`Arg`); this file gives those words their meaning:

* the three reader closures of `deserialize_instructions` on the rest of the stream (`nextByte`, `nextBytes`, `readList`;
  the translator checks the Python closures against the shape these definitions mirror),
* Python's `dict(pairs)`, negative slices of `interpreter.stack`, `zip(.., strict=True)`, `isinstance`,
* `toCall`: the tracker call (`Call`, `Pi2/Tracker.lean`) that a method call *with these arguments* is.  A `Call` carries
  no pattern arguments because `StatefulInterpreter` (stateful_interpreter.py) asserts that the arguments it is given
  are the entries it takes off its own stack (`*self.stack, expected_left, expected_right = self.stack; assert
  expected_left == left; ..`); `toCall` therefore answers only when the argument list is literally that list of positions
  (`implies(stack[-2], stack[-1])`, `esubst(id, stack[-1], stack[-2])`, the plugs of `instantiate` deepest first, …).
  `Pi2/DeserTie.lean` proves per call kind that these positions are the ones `track1` uses.
* `exec`: one loop iteration = evaluate the arguments (an `IndexError` is an exception), make the call on the tracker.
-/

namespace PyDeser

/-- where an argument of an interpreter call comes from -/
inductive Arg where
  | stackTop (k : Nat)                    -- `interpreter.stack[-(k+1)]`
  | byte (v : Nat)                        -- an operand byte read by `next_byte`
  | str (a : Arg)                         -- `str(·)`
  | mkVar (ctor : String) (a : Arg)       -- `EVar(·)` / `SVar(·)`
  | vars (ctor : String) (ids : List Nat) -- `tuple(EVar(i) for i in ids)` / `tuple(SVar(i) for i in ids)`
  | tuple0                                -- `()`
  | memLen                                -- `len(interpreter.memory)`
  | memAt (i : Nat)                       -- `interpreter.memory[i]`
  | dict (pairs : List (Nat × Nat))       -- a dict in insertion order: key ↦ `interpreter.stack[-(k+1)]`
deriving Repr

/-- `interpreter.method(args)` -/
structure DCall where
  method : String
  args : List Arg
deriving Repr

/-- what one iteration of the loop does after reading the opcode byte -/
inductive Res where
  | raise                                  -- an exception (DeserializingException, NotImplementedError, assert, …)
  | fuel                                   -- a fuelled Python `==` did not finish (artefact of the model)
  | call (c : DCall) (rest : List Nat)     -- this call, then continue with `rest`
  | noop (rest : List Nat)                 -- no call, continue with `rest`
deriving Repr

/-! ## the reader closures, on the unread rest of `data` -/

/-- `next_byte(msg)`: `maybe_next_byte()`, `None` = `raise DeserializingException(msg)` -/
def nextByte (bs : List Nat) (k : Nat → List Nat → Res) : Res :=
  match bs with
  | [] => .raise
  | b :: r => k b r

/-- `[next_byte(msg) for _ in range(n)]` -/
def nextBytes : Nat → List Nat → (List Nat → List Nat → Res) → Res
  | 0, bs, k => k [] bs
  | n + 1, bs, k => nextByte bs fun b bs => nextBytes n bs fun l bs => k (b :: l) bs

/-- `read_list()`: a length byte, then that many bytes -/
def readList (bs : List Nat) (k : List Nat → List Nat → Res) : Res :=
  nextByte bs fun length bs => nextBytes length bs k

/-! ## Python expressions -/

/-- `assert b` -/
def assertThat (b : Bool) (r : Res) : Res := if b then r else .raise

/-- `if c: t else: e` for a condition that contains a fuelled `==` -/
def ifM (c : Option Bool) (t e : Res) : Res :=
  match c with
  | none => .fuel
  | some true => t
  | some false => e

def pyNot (a : Option Bool) : Option Bool := a.map (!·)
/-- `a or b` (short-circuit) -/
def pyOr (a b : Option Bool) : Option Bool :=
  match a with
  | none => none
  | some true => some true
  | some false => b
/-- `a and b` (short-circuit) -/
def pyAnd (a b : Option Bool) : Option Bool :=
  match a with
  | none => none
  | some false => some false
  | some true => b

/-- the term an argument denotes, for the arguments that are terms -/
def Arg.term (s : PySt) : Arg → Option TTerm
  | .stackTop k => (s.stack[k]?).map (·.1)
  | .memAt i => s.memory[i]?
  | _ => none

/-- `isinstance(a, Proved)` -/
def isProved (s : PySt) (a : Arg) : Bool :=
  match a.term s with
  | some (.proved _) => true
  | _ => false

/-- `isinstance(a, Pattern)` -/
def isPattern (s : PySt) (a : Arg) : Bool :=
  match a.term s with
  | some (.pat _) => true
  | _ => false

/-- `map(assert_is_pattern, ..)` over stack positions -/
def allPattern (s : PySt) (ks : List Nat) : Bool := ks.all fun k => isPattern s (.stackTop k)

/-- the positions (0 = top) of `interpreter.stack[-a:-b]` in Python order (deepest first), `depth = len(interpreter.stack)`:
indices `max(depth-a,0) .. depth-b-1`, i.e. positions `min(a,depth)-1` down to `b` -/
def stackSlice (depth a b : Nat) : List Nat := (List.range' b (min a depth - b)).reverse

/-- `zip(xs, ys, strict=True)`: `ValueError` when the lengths differ -/
def zipStrict (xs ys : List Nat) (k : List (Nat × Nat) → Res) : Res :=
  if xs.length = ys.length then k (xs.zip ys) else .raise

/-- `d[k] = v` on an insertion-ordered dict -/
def pyDictInsert (d : List (Nat × Nat)) (k v : Nat) : List (Nat × Nat) :=
  if d.any (·.1 == k) then d.map (fun p => if p.1 == k then (k, v) else p) else d ++ [(k, v)]

/-- `dict(pairs)`: a repeated key keeps its first position and gets its last value -/
def pyDict (l : List (Nat × Nat)) : List (Nat × Nat) := l.foldl (fun d p => pyDictInsert d p.1 p.2) []

/-- `interpreter.claims[0].pattern == a.conclusion` (the claim is the left operand); `none` = out of fuel.  Only evaluated
behind `not interpreter.claims or ..` and `assert isinstance(a, Proved)`. -/
def claimHeadEq (n : Nat) (s : PySt) (a : Arg) : Option Bool :=
  match s.claims, a.term s with
  | c :: _, some t => NPat.peqF n c t.body
  | _, _ => none

/-! ## from a method call with located arguments to a tracker call -/

/-- evaluating the argument does not raise (`IndexError`) -/
def Arg.defined (s : PySt) : Arg → Bool
  | .stackTop k => decide (k < s.stack.length)
  | .memAt i => decide (i < s.memory.length)
  | .dict pairs => pairs.all fun p => decide (p.2 < s.stack.length)
  | .str a => a.defined s
  | .mkVar _ a => a.defined s
  | _ => true

/-- the positions of the `m` plugs below the top, deepest first: the order of `expected_plugs = self.stack[-m:]` after the
target has been taken off, which `StatefulInterpreter.instantiate` asserts to be `list(delta.values())` -/
def plugPositions (m : Nat) : List Nat := (List.range' 1 m).reverse

/-- the tracker call a method call with these arguments is; `none` when the arguments are not (literally) the stack entries
`StatefulInterpreter` expects for that method, or the method is unknown -/
def toCall (s : PySt) (dc : DCall) : Option Call :=
  match dc.method with
  | "evar" => (match dc.args with | [.byte x] => some (.evar x) | _ => none)
  | "svar" => (match dc.args with | [.byte x] => some (.svar x) | _ => none)
  | "symbol" => (match dc.args with | [.str (.byte x)] => some (.symbol x) | _ => none)
  | "implies" => (match dc.args with | [.stackTop 1, .stackTop 0] => some .implies | _ => none)
  | "app" => (match dc.args with | [.stackTop 1, .stackTop 0] => some .app | _ => none)
  | "exists" => (match dc.args with | [.byte x, .stackTop 0] => some (.ex x) | _ => none)
  | "mu" => (match dc.args with | [.byte x, .stackTop 0] => some (.mu x) | _ => none)
  | "esubst" => (match dc.args with | [.byte x, .stackTop 0, .stackTop 1] => some (.esubst x) | _ => none)
  | "ssubst" => (match dc.args with | [.byte x, .stackTop 0, .stackTop 1] => some (.ssubst x) | _ => none)
  | "metavar" =>
      (match dc.args with
       | [.byte id, .vars "EVar" ef, .vars "SVar" sf, .vars "SVar" ps, .vars "SVar" ns, .vars "EVar" hs] =>
           some (.metavar id ef sf ps ns hs)
       | [.byte id, .tuple0, .tuple0, .tuple0, .tuple0, .tuple0] => some (.metavar id [] [] [] [] [])
       | _ => none)
  | "prop1" => (match dc.args with | [] => some .prop1 | _ => none)
  | "prop2" => (match dc.args with | [] => some .prop2 | _ => none)
  | "prop3" => (match dc.args with | [] => some .prop3 | _ => none)
  | "exists_quantifier" => (match dc.args with | [] => some .quantifier | _ => none)
  | "modus_ponens" => (match dc.args with | [.stackTop 1, .stackTop 0] => some .mp | _ => none)
  | "exists_generalization" => (match dc.args with | [.stackTop 0, .mkVar "EVar" (.byte x)] => some (.gen x) | _ => none)
  | "instantiate" =>
      (match dc.args with
       | [.stackTop 0, .dict pairs] =>
           if pairs.map (·.2) = plugPositions pairs.length then some (.instantiate (pairs.map (·.1))) else none
       | _ => none)
  | "instantiate_pattern" =>
      (match dc.args with
       | [.stackTop 0, .dict pairs] =>
           if pairs.map (·.2) = plugPositions pairs.length then some (.instantiatePattern (pairs.map (·.1))) else none
       | _ => none)
  | "pop" => (match dc.args with | [.stackTop 0] => some .pop | _ => none)
  | "save" => (match dc.args with | [.str .memLen, .stackTop 0] => some .save | _ => none)
  | "load" =>
      (match dc.args with
       | [.str (.byte i), .memAt j] => if i = j then (s.memory[j]?).map .load else none
       | _ => none)
  | "publish_axiom" => (match dc.args with | [.stackTop 0] => some .publishAxiom | _ => none)
  | "publish_claim" => (match dc.args with | [.stackTop 0] => some .publishClaim | _ => none)
  | "publish_proof" => (match dc.args with | [.stackTop 0] => some .publishProof | _ => none)
  | _ => none

/-- one loop iteration on the tracker: `some none` = exception, outer `none` = out of fuel (or a call `toCall` does not
know, which `DeserTie` shows not to occur) -/
def exec (n : Nat) (s : PySt) : Res → Option (Option (PySt × List Nat))
  | .raise => some none
  | .fuel => none
  | .noop rest => some (some (s, rest))
  | .call dc rest =>
      if dc.args.all (Arg.defined s) then
        match toCall s dc with
        | some c => (PySt.track1 n s c).map (Option.map (·, rest))
        | none => none
      else some none

end PyDeser
