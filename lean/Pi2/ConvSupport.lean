import Pi2.SliceSupport
import Pi2.Notation
import Pi2.Gen.ImportProof
/-!
# What the generated `MetamathConverter` (`Pi2/Gen/MMConv.lean`, written by `vlib/transconv.py`) is expressed in

Hand-written and small: the outcome type `Res`, Python's containers, the objects of `converter/representation.py` and
`converter/scope.py` as records, `VarDict` (`converter/vardict.py`, a `UserDict` subclass, by hand), and the few primitives of
`converter.py` that are not translated (`re`, `str.startswith`, the call of the already translated `_import_proof`).
The `isinstance` tests and attribute accessors of `metamath/ast.py` are those of `Pi2/SliceSupport.lean`.

Conventions of the translation
* `Res α`: `.ok a` = the Python code returns `a`; `.raise` = it raises; `.outside` = it reaches a path that is listed as outside the
  modelled fragment in the header of the generated file; `.nofuel` = a `while` loop / a recursion ran out of `fuel`.
* a `Metavariable` object that is not a term (`VariableStatement.metavariables`, the values of `_declared_variables`) is its name.
* a `set[str]` is a list WITHOUT repetitions in insertion order (`setAdd`); the translator accepts only membership tests, `len`,
  `update`/`add`, `sorted(..)` and `tuple(..)` of a set, the last one only where the tuple is used as a set again or for its length.
* a `dict` with `str` keys is an insertion-ordered association list (`SliceSup.PyDict`).
* an object that a method mutates in place is a value: the method returns it (before its result) and the caller rebinds it.
* a closure (`Callable[[VarArg(Pattern)], Pattern]` / `… bool`) is a Lean function that takes, besides `*args`, the fields of the
  converter that closures read (`SelfView`) AS THEY ARE WHEN THE CLOSURE IS CALLED; a closure that would modify the converter
  (`_resolve` on an undeclared notation) is `.outside`.
* `Symbol(name)` is `NPat.sym (σ name)` for a numbering `σ` of the constants (the model's symbols are numbers).
-/
open Pat
namespace ConvSup
open MM SliceSup

/-! ## outcomes -/
inductive Res (α : Type) where
  | ok (a : α) | raise | outside | nofuel
deriving Repr, Inhabited

namespace Res
def bind {α β : Type} (r : Res α) (f : α → Res β) : Res β :=
  match r with
  | ok a => f a | raise => raise | outside => outside | nofuel => nofuel
instance : Monad Res where
  pure := ok
  bind := bind
@[simp] theorem pure_eq {α : Type} (a : α) : (pure a : Res α) = ok a := rfl
@[simp] theorem bind_ok {α β : Type} (a : α) (f : α → Res β) : (ok a >>= f) = f a := rfl
@[simp] theorem bind_raise {α β : Type} (f : α → Res β) : ((raise : Res α) >>= f) = raise := rfl
@[simp] theorem bind_outside {α β : Type} (f : α → Res β) : ((outside : Res α) >>= f) = outside := rfl
@[simp] theorem bind_nofuel {α β : Type} (f : α → Res β) : ((nofuel : Res α) >>= f) = nofuel := rfl
@[simp] theorem map_ok {α β : Type} (a : α) (f : α → β) : (f <$> (ok a : Res α)) = ok (f a) := rfl
def isOk {α : Type} : Res α → Bool | ok _ => true | _ => false
end Res

/-- `assert b` -/
def pyAssert (b : Bool) : Res Unit := if b then .ok () else .raise
/-- an `Option` of the translations that use `none` for "raises" -/
def ofOption {α : Type} : Option α → Res α | some a => .ok a | none => .raise
@[simp] theorem pyAssert_true : pyAssert true = .ok () := rfl
@[simp] theorem pyAssert_false : pyAssert false = .raise := rfl

/-- `a and b` when an operand can raise: `b` is only evaluated if `a` is true -/
def andR (a : Res Bool) (b : Unit → Res Bool) : Res Bool := do if (← a) then b () else pure false
/-- `a or b` -/
def orR (a : Res Bool) (b : Unit → Res Bool) : Res Bool := do if (← a) then pure true else b ()
@[simp] theorem andR_true (b : Unit → Res Bool) : andR (.ok true) b = b () := rfl
@[simp] theorem andR_false (b : Unit → Res Bool) : andR (.ok false) b = .ok false := rfl
@[simp] theorem orR_true (b : Unit → Res Bool) : orR (.ok true) b = .ok true := rfl
@[simp] theorem orR_false (b : Unit → Res Bool) : orR (.ok false) b = b () := rfl

/-- `while c(s): s = body(s)` -/
def whileM {σ : Type} (cond : σ → Bool) (body : σ → Res σ) : Nat → σ → Res σ
  | 0, _ => .nofuel
  | n + 1, s => if cond s then do let s' ← body s; whileM cond body n s' else pure s

/-- `for x in xs: s = body(s, x)` -/
def forM' {α σ : Type} (xs : List α) (s : σ) (body : σ → α → Res σ) : Res σ := xs.foldlM body s
@[simp] theorem forM'_nil {α σ : Type} (s : σ) (body : σ → α → Res σ) : forM' [] s body = .ok s := rfl
@[simp] theorem forM'_cons {α σ : Type} (x : α) (xs : List α) (s : σ) (body : σ → α → Res σ) :
    forM' (x :: xs) s body = (body s x >>= fun s' => forM' xs s' body) := rfl

/-- `[f(x) for x in xs]` when `f` can raise -/
def mapR {α β : Type} (xs : List α) (f : α → Res β) : Res (List β) := xs.mapM f
/-- `[f(x) for x in xs]` when `f` also modifies an object `s` -/
def mapS {α β σ : Type} : List α → σ → (σ → α → Res (σ × β)) → Res (σ × List β)
  | [], s, _ => .ok (s, [])
  | x :: xs, s, f => do
      let (s, y) ← f s x
      let (s, ys) ← mapS xs s f
      pure (s, y :: ys)

/-! ## sequences -/
/-- `xs[i]` (`IndexError`) -/
def listGet {α : Type} (xs : List α) (i : Nat) : Res α := ofOption xs[i]?
/-- `xs[-1]` -/
def listLast {α : Type} (xs : List α) : Res α := ofOption xs.getLast?
/-- `xs.pop()`: the list without its last element, and that element -/
def listPop {α : Type} (xs : List α) : Res (List α × α) :=
  match xs.getLast? with
  | some a => .ok (xs.dropLast, a)
  | none => .raise
/-- `x, *xs = xs` -/
def headRest {α : Type} : List α → Res (α × List α)
  | [] => .raise
  | x :: xs => .ok (x, xs)

/-! ## `set[str]` -/
def setAdd (s : List String) (x : String) : List String := if s.contains x then s else s ++ [x]
def setUnion (s t : List String) : List String := t.foldl setAdd s
/-- `set(xs)` -/
def setOf (xs : List String) : List String := setUnion [] xs
/-- `sorted(s)` -/
def sortedStrs (s : List String) : List String := sortDedup s

/-! ## `dict[str, _]` (the operations `SliceSup` does not have) -/
/-- `k in d` -/
def dictHas {α : Type} (d : PyDict α) (k : String) : Bool := (d.lookup k).isSome
/-- `d[k]` -/
def dictGet {α : Type} (d : PyDict α) (k : String) : Res α := ofOption (d.lookup k)
/-- `d.setdefault(k, v)` (result unused) -/
def dictSetDefault {α : Type} (d : PyDict α) (k : String) (v : α) : PyDict α := if dictHas d k then d else d ++ [(k, v)]

/-! ## patterns -/
/-- the classes of `pattern.py` that the converter tests for -/
inductive PyType where
  | MetaVar | EVar | SVar | Symbol | Other
deriving DecidableEq, Repr, Inhabited
/-- `type(p)` -/
def typeOf : NPat → PyType
  | .mv .. => .MetaVar | .evar _ => .EVar | .svar _ => .SVar | .sym _ => .Symbol | _ => .Other
/-- `isinstance(p, t)` for one of the leaf classes above -/
def isinstanceTy (p : NPat) (t : PyType) : Bool := typeOf p == t
/-- `isinstance(p, Pattern)` -/
def isPattern (_p : NPat) : Bool := true
/-- `p.name` of an `EVar` / `SVar` / `MetaVar` (`AttributeError` otherwise; `Symbol.name` is a string: not modelled) -/
def patName : NPat → Res Nat
  | .evar x => .ok x | .svar x => .ok x | .mv id .. => .ok id | _ => .raise
/-- `MetaVar(n)` -/
def mkMetaVar (n : Nat) : NPat := .mv n [] [] [] [] []
/-- `Symbol(name)` -/
def mkSymbol (σ : String → Nat) (name : String) : NPat := .sym (σ name)
/-- `App(l, r)`, `Implies(l, r)` -/
def mkApp (l r : NPat) : NPat := .app l r
def mkImplies (l r : NPat) : NPat := .imp l r

/-! ## `VarDict` (converter/vardict.py): a `UserDict` whose keys may be given as `Metavariable` objects (= their names here) and
whose `__setitem__` raises `TypeError` unless the value is an instance of `expected` -/
structure VarDict where
  data : PyDict NPat
  expected : Option PyType
deriving Inhabited
def vdFits (expected : Option PyType) (v : NPat) : Bool :=
  match expected with
  | some t => isinstanceTy v t
  | none => true
/-- `d[k] = v` -/
def vdSet (d : VarDict) (k : String) (v : NPat) : Res VarDict :=
  if vdFits d.expected v then .ok { d with data := dictSet d.data k v } else .raise
/-- `VarDict(None, expected)` -/
def vdEmpty (expected : PyType) : VarDict := ⟨[], some expected⟩
/-- `VarDict(items, expected)`: `UserDict.__init__` stores the items one by one through `__setitem__` -/
def vdOfDict (items : PyDict NPat) (expected : Option PyType) : Res VarDict :=
  items.foldlM (fun d (k, v) => vdSet d k v) ⟨[], expected⟩
/-- `VarDict(other)` for a `VarDict` `other`: its data, its `expected` -/
def vdCopy (other : VarDict) : Res VarDict := vdOfDict other.data other.expected
/-- `k in d` -/
def vdHas (d : VarDict) (k : String) : Bool := dictHas d.data k
/-- `d[k]` -/
def vdGet (d : VarDict) (k : String) : Res NPat := dictGet d.data k
/-- `len(d)` -/
def vdLen (d : VarDict) : Nat := d.data.length
/-- `d.items()` -/
def vdItems (d : VarDict) : PyDict NPat := d.data

/-! ## the objects -/
/-- the fields of the converter that closures read -/
structure SelfView where
  _symbols : VarDict
  _declared_constants : List String
deriving Inhabited

abbrev Closure := SelfView → List NPat → Res NPat
abbrev TCClosure := SelfView → List NPat → Res Bool

/-- `representation.Notation` -/
structure Notation where
  name : String
  args : List String
  type_check : TCClosure
  callable : Closure
instance : Inhabited Notation := ⟨⟨"", [], fun _ _ => .raise, fun _ _ => .raise⟩⟩

/-- `Scope`, `GlobalScope` (`_ambiguous_vars`) and `NotationScope` (`_args`) of converter/scope.py in one record -/
structure ScopeObj where
  _metavars : VarDict
  _element_vars : VarDict
  _set_vars : VarDict
  _notations : PyDict (List Notation)
  _ambiguous_vars : List String
  _args : List String
deriving Inhabited

inductive AxCls where
  | Axiom | AxiomWithAntecedents | Lemma | LemmaWithAntecedents
deriving DecidableEq, Repr, Inhabited
/-- `isinstance(a, AxiomWithAntecedents)` / `isinstance(a, Lemma)` (class hierarchy of representation.py) -/
def AxCls.isWithAntecedents : AxCls → Bool | .AxiomWithAntecedents | .LemmaWithAntecedents => true | _ => false
def AxCls.isLemma : AxCls → Bool | .Lemma | .LemmaWithAntecedents => true | _ => false

/-- `Axiom`, `AxiomWithAntecedents`, `Lemma`, `LemmaWithAntecedents` of representation.py in one record; a field the class does
not have is `none` (reading it raises `AttributeError`).  `LemmaWithAntecedents` is not a dataclass of its own: it inherits the
`__init__` of `AxiomWithAntecedents` and has NO `proof`. -/
structure AxiomObj where
  cls : AxCls
  name : String
  args : List String
  type_check : TCClosure
  pattern : NPat
  metavars : List String
  antecedents? : Option (List NPat)
  proof? : Option Gen.ImportProof.Proof
instance : Inhabited AxiomObj := ⟨⟨.Axiom, "", [], fun _ _ => .raise, .evar 0, [], none, none⟩⟩
/-- `a.antecedents` -/
def AxiomObj.antecedents (a : AxiomObj) : Res (List NPat) := ofOption a.antecedents?
/-- `a.proof` -/
def AxiomObj.proof (a : AxiomObj) : Res Gen.ImportProof.Proof := ofOption a.proof?

/-- `MetamathConverter`: the fields `__init__` creates -/
structure ConvObj where
  parsed : MDb
  _scope : ScopeObj
  _declared_constants : List String
  _declared_variables : PyDict String
  _symbols : VarDict
  _domain_values : List String
  _axioms : PyDict (List AxiomObj)
  _pattern_constructors : List String
  _proof_rules : List String
  _ignored_axioms : List MStmt
  _lemmas : PyDict (List AxiomObj)
  _ignored_lemmas : List MStmt
  _missing_declarations : List String
  _floating_patterns : List String
  _fp_label_to_pattern : PyDict (List NPat)
deriving Inhabited

/-- what a closure sees of the converter -/
def ConvObj.view (c : ConvObj) : SelfView := ⟨c._symbols, c._declared_constants⟩

/-- the argument of `GlobalScope.is_ambiguous(name: str | Metavariable)` -/
inductive StrOrMv where
  | str (s : String) | mv (name : String)
/-- the string itself / the `.name` of the `Metavariable` -/
def StrOrMv.key : StrOrMv → String | .str s => s | .mv n => n

end ConvSup

namespace MM
mutual
/-- `==` of the dataclasses `Metavariable` / `Application` (`hash_cache` is `compare=False`) -/
def MTerm.beq : MTerm → MTerm → Bool
  | .mv a, .mv b => a == b
  | .app s xs, .app t ys => s == t && MTerm.beqList xs ys
  | _, _ => false
def MTerm.beqList : List MTerm → List MTerm → Bool
  | [], [] => true
  | x :: xs, y :: ys => MTerm.beq x y && MTerm.beqList xs ys
  | _, _ => false
end
instance : BEq MTerm := ⟨MTerm.beq⟩
/-- `Metavariable.name` of a term -/
def MTerm.name : MTerm → String | .mv n => n | _ => ""
/-- `ConstantStatement.constants` -/
def MStmt.constants : MStmt → List String | .const cs => cs | _ => []
end MM

namespace ConvSup
open MM SliceSup

/-! ## primitives that are not translated -/
/-- `re.compile(r'"\S+"').match(s)` is not `None`: `s` starts with `"`, at least one non-whitespace character, `"` (the regular
expression is greedy with backtracking: some later `"` such that everything before it is not whitespace; tokens contain no
whitespace at all, so: some `"` at index ≥ 2) -/
def reConstantMatch (s : String) : Bool :=
  match s.toList with
  | '"' :: c :: rest => !ImpSup.pyIsSpace c && go rest
  | _ => false
where go : List Char → Bool
  | [] => false
  | c :: rest => c == '"' || (!ImpSup.pyIsSpace c && go rest)

/-- `s.startswith(p)` -/
def strStartsWith (s p : String) : Bool := p.toList.isPrefixOf s.toList

/-- `' '.join(tokens)`: what the parser stores in `ProvableStatement.proof` (`None` is not produced by `include_proof=True`) -/
def joinToks : List (List Char) → List Char
  | [] => []
  | [t] => t
  | t :: u :: ts => t ++ ' ' :: joinToks (u :: ts)

/-- `self._import_proof(statement)`: the generated `Gen.ImportProof.import_proof` (character level) on the statement's
metavariables and the joined proof tokens -/
def callImportProof (floating : List String) (st : MStmt) : Res Gen.ImportProof.Proof :=
  ofOption (Gen.ImportProof.import_proof ⟨floating.map String.toList⟩
    ⟨st.get_metavariables.map String.toList, some (joinToks (st.proof.map String.toList))⟩)

end ConvSup
