import Pi2.InterpSupport
import Pi2.Proof
/-!
# Support for the translated proof generator (`Pi2/Gen/PyProof.lean`)

The target language of `vlib/transproof.py`, on top of `Pi2/InterpSupport.lean` (`Py`, `ret`, `raise`,
`call`, `fuel`, `assert_`, …): `proof.py` (`ProofThunk`, `ProofExp`), `Interpreter.pattern`
(interpreter.py), `InterpreterTransformer` (interpreter_transformer.py), `InstantiationOptimizer` and
`MemoizingInterpreter` (optimizing_interpreters.py) are written against an *interpreter object*.

* `Interp σ` is such an object: one field per abstract method of `class Interpreter` (the translator
  checks the list of `@abstractmethod`s against `Interp.methods`), the attribute `phase`, the
  inherited/overridden method `pattern`, and the two facts `MemoizingInterpreter.pattern` asks of its
  sub-interpreter (`isinstance(_, StatefulInterpreter)`, `.memory`).  `σ` is the mutable state of the
  object; a method takes the state and returns the new one (and its value).
* `TrSt σ` is the state of an `InterpreterTransformer`: its own `phase` attribute
  (`Interpreter.__init__`) and the state of `self.sub_interpreter`.
* `ProofThunk σ` / `ProofExp σ` are the two classes of proof.py (`_notations` is not modelled: no
  translated method reads it).  `_expr` takes the fuel of the call (`n`), the interpreter object and its
  state.
* `Interp.close` is method resolution for `self.pattern(...)`: the object whose `pattern` is the given
  method body applied to the object itself, `k` = the recursion depth still available.
-/
open Pat

namespace PyI

/-- an interpreter object (`class Interpreter` and subclasses) with mutable state `σ` -/
structure Interp (σ : Type) where
  /-- `self.phase` -/
  phase : σ → Phase
  /-- `isinstance(self, StatefulInterpreter)` -/
  isStateful : Bool
  /-- `self.memory` (of a `StatefulInterpreter`) -/
  memory : σ → List TTerm
  /-- `Interpreter.pattern` or its override -/
  pattern : σ → NPat → Py (σ × NPat)
  evar : σ → Nat → Py (σ × NPat)
  svar : σ → Nat → Py (σ × NPat)
  symbol : σ → Nat → Py (σ × NPat)
  metavar : σ → Nat → List VId → List VId → List VId → List VId → List VId → Py (σ × NPat)
  implies : σ → NPat → NPat → Py (σ × NPat)
  app : σ → NPat → NPat → Py (σ × NPat)
  «exists» : σ → Nat → NPat → Py (σ × NPat)
  esubst : σ → Nat → NPat → NPat → Py (σ × NPat)
  ssubst : σ → Nat → NPat → NPat → Py (σ × NPat)
  mu : σ → Nat → NPat → Py (σ × NPat)
  prop1 : σ → Py (σ × Proved)
  prop2 : σ → Py (σ × Proved)
  prop3 : σ → Py (σ × Proved)
  modus_ponens : σ → Proved → Proved → Py (σ × Proved)
  exists_quantifier : σ → Py (σ × Proved)
  exists_generalization : σ → Proved → VId → Py (σ × Proved)
  instantiate : σ → Proved → List (Nat × NPat) → Py (σ × Proved)
  instantiate_pattern : σ → NPat → List (Nat × NPat) → Py (σ × NPat)
  pop : σ → TTerm → Py σ
  save : σ → Nat → TTerm → Py σ
  load : σ → Nat → TTerm → Py σ
  publish_proof : σ → Proved → Py σ
  publish_axiom : σ → NPat → Py σ
  publish_claim : σ → NPat → Py σ
  into_claim_phase : σ → Py σ
  into_proof_phase : σ → Py σ

/-- the abstract methods of `class Interpreter`, in source order, with their parameter names and
annotations; the translator compares this table with interpreter.py -/
def Interp.methods : List (String × List (String × String) × String) := [
  ("evar", [("id", "int")], "Pattern"),
  ("svar", [("id", "int")], "Pattern"),
  ("symbol", [("name", "str")], "Pattern"),
  ("metavar", [("id", "int"), ("e_fresh", "tuple[EVar, ...]"), ("s_fresh", "tuple[SVar, ...]"),
    ("positive", "tuple[SVar, ...]"), ("negative", "tuple[SVar, ...]"),
    ("application_context", "tuple[EVar, ...]")], "Pattern"),
  ("implies", [("left", "Pattern"), ("right", "Pattern")], "Pattern"),
  ("app", [("left", "Pattern"), ("right", "Pattern")], "Pattern"),
  ("exists", [("var", "int"), ("subpattern", "Pattern")], "Pattern"),
  ("esubst", [("evar_id", "int"), ("pattern", "MetaVar | ESubst | SSubst"), ("plug", "Pattern")], "Pattern"),
  ("ssubst", [("svar_id", "int"), ("pattern", "MetaVar | ESubst | SSubst"), ("plug", "Pattern")], "Pattern"),
  ("mu", [("var", "int"), ("subpattern", "Pattern")], "Pattern"),
  ("prop1", [], "Proved"), ("prop2", [], "Proved"), ("prop3", [], "Proved"),
  ("modus_ponens", [("left", "Proved"), ("right", "Proved")], "Proved"),
  ("exists_quantifier", [], "Proved"),
  ("exists_generalization", [("proved", "Proved"), ("var", "EVar")], "Proved"),
  ("instantiate", [("proved", "Proved"), ("delta", "dict[int, Pattern]")], "Proved"),
  ("instantiate_pattern", [("pattern", "Pattern"), ("delta", "Mapping[int, Pattern]")], "Pattern"),
  ("pop", [("term", "Pattern | Proved")], "None"),
  ("save", [("id", "str"), ("term", "Pattern | Proved")], "None"),
  ("load", [("id", "str"), ("term", "Pattern | Proved")], "None"),
  ("publish_proof", [("term", "Proved")], "None"),
  ("publish_axiom", [("term", "Pattern")], "None"),
  ("publish_claim", [("term", "Pattern")], "None")]

/-- method resolution for `self.pattern`: the object `I` whose `pattern` is `pat self` with `self` the
object itself; `k` bounds the depth of the recursion through `self.pattern` (`RecursionError`) -/
def Interp.close {σ} (pat : Interp σ → σ → NPat → Py (σ × NPat)) (I : Interp σ) : Nat → Interp σ
  | 0 => { I with pattern := fun _ _ => none }
  | k + 1 => { I with pattern := pat (Interp.close pat I k) }

/-- the state of an `InterpreterTransformer` object -/
structure TrSt (σ : Type) where
  /-- `self.phase` (set by `Interpreter.__init__`, changed by `Interpreter.into_*_phase`) -/
  phase : Phase
  /-- the state of `self.sub_interpreter` -/
  sub : σ

/-- `class ProofThunk`: `_expr: Callable[[Interpreter], Proved]`, `conc: Pattern` -/
structure ProofThunk (σ : Type) where
  _expr : Nat → Interp σ → σ → Py (σ × Proved)
  conc : NPat

/-- `class ProofExp`: `_axioms`, `_claims`, `_proof_expressions`, `_submodules` -/
inductive ProofExp (σ : Type) where
  | mk (_axioms _claims : List NPat) (_proof_expressions : List (ProofThunk σ))
      (_submodules : List (ProofExp σ))

namespace ProofExp
def _axioms {σ} : ProofExp σ → List NPat | mk a _ _ _ => a
def _claims {σ} : ProofExp σ → List NPat | mk _ c _ _ => c
def _proof_expressions {σ} : ProofExp σ → List (ProofThunk σ) | mk _ _ p _ => p
def _submodules {σ} : ProofExp σ → List (ProofExp σ) | mk _ _ _ s => s
end ProofExp

/-- `for x in l: body` where the body updates the loop state `s` -/
def forEach {α τ β} (l : List α) (s : τ) (body : α → τ → Py τ) (k : τ → Py β) : Py β :=
  match l with
  | [] => k s
  | a :: r => call (body a s) fun s => forEach r s body k

/-- a `str` argument (`str(p)`, `repr(p)`, an f-string): the identifiers passed to `save` / `load` are
diagnostics, strings are not modelled -/
def noStr : Nat := 0

/-- `p in S` for a `set[Pattern]`: hashing of the frozen dataclasses, i.e. structural equality
(`NPat.seq`, see `Pi2/Proof.lean`) -/
def inSet (p : NPat) (S : List NPat) : Bool := S.any (NPat.seq p)

/-- `a in l` for a `list[Pattern]`: some element `x` with `x == a`, left to right -/
def patMemF (n : Nat) (a : NPat) : List NPat → Option Bool
  | [] => some false
  | x :: r => do
      if ← NPat.peqF n x a then pure true else patMemF n a r

/-- `delta.items()` / `delta.values()` are lists in insertion order (`deltaValues` of InterpSupport) -/
def deltaItems (δ : List (Nat × NPat)) : List (Nat × NPat) := δ

/-- `delta[k] = v` for a key that is present: the value is replaced, the insertion order kept -/
def dictSet (δ : List (Nat × NPat)) (k : Nat) (v : NPat) : List (Nat × NPat) :=
  δ.map fun kv => if kv.1 = k then (kv.1, v) else kv

/-- `dict(delta)`: a copy -/
def dictCopy (δ : List (Nat × NPat)) : List (Nat × NPat) := δ

/-- `reversed(l)` -/
def pyReversed {α} (l : List α) : List α := l.reverse

/-- `a and b` where evaluating `b` can run out of fuel: `b` is evaluated only if `a` holds -/
def andAlso {β} (a : Bool) (b : (Bool → Py β) → Py β) (k : Bool → Py β) : Py β :=
  if a then b k else k false

end PyI
