import Pi2.XProofTie
/-!
# `exec_proof` (the generated text, `Pi2/Gen/ExecProof.lean`) only looks at its converter through the labels of the proof

Two converters that answer alike for every label of the label list (and resolve alike the metavariables of those labels) give the
same run of `exec_proof`.  An `Axiom` object is read through `.pattern`, `.antecedents` and `len(.metavars) > 0` only.
-/
set_option linter.unusedSimpArgs false
set_option linter.unusedVariables false
open MM PyXProof PySt

namespace XProofCongr

/-- the two `Axiom` objects are the same as far as `exec_proof` can tell -/
def AxRel : Option AxiomRec → Option AxiomRec → Prop
  | none, none => True
  | some a, some b => a.pattern = b.pattern ∧ a.antecedents = b.antecedents ∧ (decide (a.metavars.length > 0) = decide (b.metavars.length > 0))
  | _, _ => False

structure ConvAgree (c1 c2 : Conv) (l : Lbl) : Prop where
  pc : c1.isPatternConstructor l = c2.isPatternConstructor l
  fl : c1.floating l = c2.floating l
  ex : c1.isExportedAxiom l = c2.isExportedAxiom l
  pr : c1.isProofRule l = c2.isProofRule l
  ax : AxRel (c1.axiom? l) (c2.axiom? l)
  mio : c1.metavarsInOrder l = c2.metavarsInOrder l
  rm : ∀ v ∈ c1.metavarsInOrder l, c1.resolveMetavar v = c2.resolveMetavar v

theorem forEach_congr {α σ : Type} (l : List α) (st : σ) (b1 b2 : α → σ → (σ → R) → R) (k : σ → R)
    (h : ∀ a ∈ l, ∀ s kk, b1 a s kk = b2 a s kk) : forEach l st b1 k = forEach l st b2 k := by
  induction l generalizing st k with
  | nil => rfl
  | cons a l ih =>
    simp only [forEach]
    rw [h a (by simp)]
    congr 1
    funext st'
    exact ih st' k (fun a' ha' => h a' (by simp [ha']))

theorem get_delta_congr (c1 c2 : Conv) (x : XSt) (vars : List Nat) (k : Dict → R)
    (h : ∀ v ∈ vars, c1.resolveMetavar v = c2.resolveMetavar v) :
    Gen.XProof.get_delta c1 x vars k = Gen.XProof.get_delta c2 x vars k := by
  unfold Gen.XProof.get_delta
  simp only []
  apply forEach_congr
  intro v hv s kk
  rw [h v hv]

theorem br_pc_congr (c1 c2 : Conv) (cfg : Cfg) (n : Nat) (labels : List Lbl) (off : Nat) (x : XSt) (lemma : Nat) (l : Lbl) (k : XSt → R)
    (h : ConvAgree c1 c2 l) :
    Gen.XProof.br_pattern_constructors c1 cfg n labels off x lemma l k =
      Gen.XProof.br_pattern_constructors c2 cfg n labels off x lemma l k := by
  have hargs : (c1.metavarsInOrder l).map c1.resolveMetavar = (c2.metavarsInOrder l).map c2.resolveMetavar := by
    rw [← h.mio]
    exact List.map_congr_left h.rm
  have hax := h.ax
  unfold Gen.XProof.br_pattern_constructors
  simp only [hargs, ← h.mio]
  cases h1 : c1.axiom? l with
  | none =>
    cases h2 : c2.axiom? l with
    | none => simp only [getAxiom, h1, h2]
    | some b => simp [AxRel, h1, h2] at hax
  | some a =>
    cases h2 : c2.axiom? l with
    | none => simp [AxRel, h1, h2] at hax
    | some b =>
      simp only [AxRel, h1, h2] at hax
      obtain ⟨hp, _, hm⟩ := hax
      have hgd : ∀ (x' : XSt) (kk : Dict → R), Gen.XProof.get_delta c1 x' (c1.metavarsInOrder l) kk =
          Gen.XProof.get_delta c2 x' (c1.metavarsInOrder l) kk := fun x' kk => get_delta_congr c1 c2 x' _ kk h.rm
      simp only [getAxiom, h1, h2, Option.map_some, hp, hm, hgd]

theorem br_fp_congr (c1 c2 : Conv) (cfg : Cfg) (n : Nat) (labels : List Lbl) (off : Nat) (x : XSt) (lemma : Nat) (l : Lbl) (k : XSt → R)
    (h : ConvAgree c1 c2 l) :
    Gen.XProof.br_fp_label_to_pattern c1 cfg n labels off x lemma l k =
      Gen.XProof.br_fp_label_to_pattern c2 cfg n labels off x lemma l k := by
  unfold Gen.XProof.br_fp_label_to_pattern
  simp only [fp0, h.fl]

theorem br_ex_congr (c1 c2 : Conv) (cfg : Cfg) (n : Nat) (labels : List Lbl) (off : Nat) (x : XSt) (lemma : Nat) (l : Lbl) (k : XSt → R)
    (h : ConvAgree c1 c2 l) :
    Gen.XProof.br_exported_axioms c1 cfg n labels off x lemma l k =
      Gen.XProof.br_exported_axioms c2 cfg n labels off x lemma l k := by
  have hax := h.ax
  have hgd : ∀ (x' : XSt) (kk : Dict → R), Gen.XProof.get_delta c1 x' (c1.metavarsInOrder l) kk =
      Gen.XProof.get_delta c2 x' (c1.metavarsInOrder l) kk := fun x' kk => get_delta_congr c1 c2 x' _ kk h.rm
  unfold Gen.XProof.br_exported_axioms
  simp only [← h.mio]
  cases h1 : c1.axiom? l with
  | none =>
    cases h2 : c2.axiom? l with
    | none => simp only [getAxiom, h1, h2]
    | some b => simp [AxRel, h1, h2] at hax
  | some a =>
    cases h2 : c2.axiom? l with
    | none => simp [AxRel, h1, h2] at hax
    | some b =>
      simp only [AxRel, h1, h2] at hax
      obtain ⟨hp, ha, hm⟩ := hax
      simp only [getAxiom, h1, h2, hp, ha, hm, hgd, antsOf]

theorem get_rule_delta_congr (c1 c2 : Conv) (n : Nat) (x : XSt) (l : Lbl) (schema : NPat) (k : Dict → R) (h : ConvAgree c1 c2 l) :
    Gen.XProof.get_rule_delta c1 n x l schema k = Gen.XProof.get_rule_delta c2 n x l schema k := by
  have hax := h.ax
  have hgd : ∀ (x' : XSt) (kk : Dict → R), Gen.XProof.get_delta c1 x' (c1.metavarsInOrder l) kk =
      Gen.XProof.get_delta c2 x' (c1.metavarsInOrder l) kk := fun x' kk => get_delta_congr c1 c2 x' _ kk h.rm
  unfold Gen.XProof.get_rule_delta
  simp only [← h.mio]
  cases h1 : c1.axiom? l with
  | none =>
    cases h2 : c2.axiom? l with
    | none => simp only [getAxiom, h1, h2]
    | some b => simp [AxRel, h1, h2] at hax
  | some a =>
    cases h2 : c2.axiom? l with
    | none => simp [AxRel, h1, h2] at hax
    | some b =>
      simp only [AxRel, h1, h2] at hax
      obtain ⟨hp, _, _⟩ := hax
      simp only [getAxiom, h1, h2, hp, hgd]

theorem br_pr_congr (c1 c2 : Conv) (cfg : Cfg) (n : Nat) (labels : List Lbl) (off : Nat) (x : XSt) (lemma : Nat) (l : Lbl) (k : XSt → R)
    (h : ConvAgree c1 c2 l) :
    Gen.XProof.br_proof_rules c1 cfg n labels off x lemma l k =
      Gen.XProof.br_proof_rules c2 cfg n labels off x lemma l k := by
  have hr : ∀ (x' : XSt) (schema : NPat) (kk : Dict → R), Gen.XProof.get_rule_delta c1 n x' l schema kk =
      Gen.XProof.get_rule_delta c2 n x' l schema kk := fun x' schema kk => get_rule_delta_congr c1 c2 n x' l schema kk h
  unfold Gen.XProof.br_proof_rules
  simp only [hr]

theorem step_congr (c1 c2 : Conv) (cfg : Cfg) (n : Nat) (labels : List Lbl) (off : Nat) (x : XSt) (lemma : Nat) (k : XSt → R)
    (h : ∀ l ∈ labels, ConvAgree c1 c2 l) :
    Gen.XProof.step c1 cfg n labels off x lemma k = Gen.XProof.step c2 cfg n labels off x lemma k := by
  unfold Gen.XProof.step
  split
  · rfl
  · unfold labelsGet
    split
    · rfl
    · cases hl : labels[lemma - 1]? with
      | none => rfl
      | some l =>
        have hmem : l ∈ labels := List.mem_of_getElem? hl
        have ha := h l hmem
        simp only [ha.pc, ha.fl, ha.ex, ha.pr, fp0, br_pc_congr c1 c2 cfg n labels off x lemma l k ha,
          br_fp_congr c1 c2 cfg n labels off x lemma l k ha, br_ex_congr c1 c2 cfg n labels off x lemma l k ha,
          br_pr_congr c1 c2 cfg n labels off x lemma l k ha]
        rfl

theorem exec_proof_congr (c1 c2 : Conv) (cfg : Cfg) (n : Nat) (labels : List Lbl) (steps : List Nat) (s : PySt) (acc : List Call)
    (h : ∀ l ∈ labels, ConvAgree c1 c2 l) (ht : c1.targetPattern = c2.targetPattern) :
    Gen.XProof.exec_proof c1 cfg n labels steps s acc = Gen.XProof.exec_proof c2 cfg n labels steps s acc := by
  unfold Gen.XProof.exec_proof
  simp only [ht]
  apply forEach_congr
  intro lemma _ x kl
  exact step_congr c1 c2 cfg n labels labels.length x lemma kl h

end XProofCongr

#print axioms XProofCongr.exec_proof_congr
