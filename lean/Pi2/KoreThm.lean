import Pi2.Kore
import Pi2.NotationThm
import Pi2.MatchThm
/-!
# K traces → proof modules: scopes, chaining, conversion commutes with substitution
-/
open Pat
set_option linter.unusedSimpArgs false
set_option linter.unusedVariables false

/-! ## fuel monotonicity of the notation operations -/
namespace NPat.KMono

/-- `b` is defined wherever `a` is, with the same value -/
def OLe {α} (a b : Option α) : Prop := ∀ r, a = some r → b = some r

theorem OLe.refl {α} (a : Option α) : OLe a a := fun _ h => h

theorem OLe.bind {α β} {a a' : Option α} {f f' : α → Option β} (h1 : OLe a a')
    (h2 : ∀ x, OLe (f x) (f' x)) : OLe (a.bind f) (a'.bind f') := by
  intro r h
  cases a with
  | none => cases h
  | some x => rw [h1 x rfl]; exact h2 x r h

theorem OLe.ite {α} {c : Prop} [Decidable c] {a a' b b' : Option α} (h1 : OLe a a') (h2 : OLe b b') :
    OLe (if c then a else b) (if c then a' else b') := by
  by_cases hc : c
  · simpa only [hc, if_true] using h1
  · simpa only [hc, if_false] using h2

theorem OLe.trans {α} {a b c : Option α} (h1 : OLe a b) (h2 : OLe b c) : OLe a c :=
  fun r h => h2 r (h1 r h)

structure MonoAt (n : Nat) : Prop where
  inst : ∀ δ p, OLe (instF n δ p) (instF (n + 1) δ p)
  map : ∀ δ m, OLe (mapF n δ m) (mapF (n + 1) δ m)
  mvs : ∀ p, OLe (metavarsF n p) (metavarsF (n + 1) p)
  esub : ∀ x plug p, OLe (esubF n x plug p) (esubF (n + 1) x plug p)
  ssub : ∀ x plug p, OLe (ssubF n x plug p) (ssubF (n + 1) x plug p)

theorem mono_zero : MonoAt 0 := by
  refine ⟨?_, ?_, ?_, ?_, ?_⟩ <;> intros <;> intro r h
  · simp [instF] at h
  · simp [mapF] at h
  · simp [metavarsF] at h
  · simp [esubF] at h
  · simp [ssubF] at h

theorem mono_step (n : Nat) (ih : MonoAt n) : MonoAt (n + 1) := by
  obtain ⟨hI, hM, hV, hE, hS⟩ := ih
  refine ⟨?_, ?_, ?_, ?_, ?_⟩
  · intro δ p
    cases p <;> simp only [instF, Option.bind_eq_bind, Option.pure_def] <;>
      repeat' (first | exact OLe.refl _ | apply hI | apply hM | apply hV | apply hE | apply hS
                     | apply OLe.ite | apply OLe.bind | intro _)
  · intro δ m
    cases m with
    | nil => simp only [mapF]; exact OLe.refl _
    | cons kv r =>
      obtain ⟨k, v⟩ := kv
      simp only [mapF, Option.bind_eq_bind, Option.pure_def]
      repeat' (first | exact OLe.refl _ | apply hI | apply hM | apply OLe.bind | intro _)
  · intro p
    cases p <;> simp only [metavarsF, Option.bind_eq_bind, Option.pure_def] <;>
      repeat' (first | exact OLe.refl _ | apply hI | apply hM | apply hV | apply hE | apply hS
                     | apply OLe.ite | apply OLe.bind | intro _)
  · intro x plug p
    cases p <;> simp only [esubF, Option.bind_eq_bind, Option.pure_def] <;>
      repeat' (first | exact OLe.refl _ | apply hI | apply hM | apply hV | apply hE | apply hS
                     | apply OLe.ite | apply OLe.bind | intro _)
  · intro x plug p
    cases p <;> simp only [ssubF, Option.bind_eq_bind, Option.pure_def] <;>
      repeat' (first | exact OLe.refl _ | apply hI | apply hM | apply hV | apply hE | apply hS
                     | apply OLe.ite | apply OLe.bind | intro _)

theorem mono_all (n : Nat) : MonoAt n := by
  induction n with
  | zero => exact mono_zero
  | succ n ih => exact mono_step n ih

theorem instF_mono {n m : Nat} (h : n ≤ m) (δ : List (Nat × NPat)) (p : NPat) :
    OLe (instF n δ p) (instF m δ p) := by
  induction h with
  | refl => exact OLe.refl _
  | step _ ih => exact OLe.trans ih ((mono_all _).inst δ p)

theorem mapF_mono {n m : Nat} (h : n ≤ m) (δ : List (Nat × NPat)) (l : List (Nat × NPat)) :
    OLe (mapF n δ l) (mapF m δ l) := by
  induction h with
  | refl => exact OLe.refl _
  | step _ ih => exact OLe.trans ih ((mono_all _).map δ l)

theorem metavarsF_mono {n m : Nat} (h : n ≤ m) (p : NPat) :
    OLe (metavarsF n p) (metavarsF m p) := by
  induction h with
  | refl => exact OLe.refl _
  | step _ ih => exact OLe.trans ih ((mono_all _).mvs p)

end NPat.KMono

namespace Kore

/-! ## K1. scopes -/

theorem idxOf?_of_mem {l : List Nat} {x : Nat} (h : x ∈ l) : l.idxOf? x = some (l.idxOf x) := by
  induction l with
  | nil => cases h
  | cons a l ih =>
    rw [List.idxOf?_cons, List.idxOf_cons]
    by_cases hax : a = x
    · subst hax; simp
    · have hx : x ∈ l := by
        cases h with
        | head => exact absurd rfl hax
        | tail _ h => exact h
      have hb : (a == x) = false := by simpa using hax
      simp [hb, ih hx]

theorem idxOf?_of_not_mem {l : List Nat} {x : Nat} (h : x ∉ l) : l.idxOf? x = none :=
  List.idxOf?_eq_none_iff.mpr h

theorem resolveMv_mem (sc : Scope) (x : Nat) (h : x ∈ sc.mvs) :
    sc.resolveMv x = (sc, sc.mvs.idxOf x) := by
  simp only [Scope.resolveMv, idxOf?_of_mem h]

theorem resolveMv_not_mem (sc : Scope) (x : Nat) (h : x ∉ sc.mvs) :
    sc.resolveMv x = ({ sc with mvs := sc.mvs ++ [x] }, sc.mvs.length) := by
  simp only [Scope.resolveMv, idxOf?_of_not_mem h]

theorem resolveMv_snd (sc : Scope) (x : Nat) : (sc.resolveMv x).2 = sc.mvs.idxOf x := by
  by_cases h : x ∈ sc.mvs
  · rw [resolveMv_mem sc x h]
  · rw [resolveMv_not_mem sc x h, List.idxOf_eq_length h]

theorem resolveMv_mem_after (sc : Scope) (x : Nat) : x ∈ (sc.resolveMv x).1.mvs := by
  by_cases h : x ∈ sc.mvs
  · rw [resolveMv_mem sc x h]; exact h
  · rw [resolveMv_not_mem sc x h]; simp

theorem resolveMv_spec (sc : Scope) (x : Nat) (h : sc.mvs.Nodup) :
    (sc.resolveMv x).1.mvs.Nodup ∧ (∃ ext, (sc.resolveMv x).1.mvs = sc.mvs ++ ext) ∧
    (sc.resolveMv x).1.mvs[(sc.resolveMv x).2]? = some x ∧ (sc.resolveMv x).1.sortParams = sc.sortParams := by
  by_cases hx : x ∈ sc.mvs
  · rw [resolveMv_mem sc x hx]
    refine ⟨h, ⟨[], by simp⟩, ?_, rfl⟩
    have hlt : sc.mvs.idxOf x < sc.mvs.length := List.idxOf_lt_length_iff.mpr hx
    show sc.mvs[sc.mvs.idxOf x]? = some x
    rw [List.getElem?_eq_getElem hlt, List.getElem_idxOf hlt]
  · rw [resolveMv_not_mem sc x hx]
    refine ⟨?_, ⟨[x], rfl⟩, ?_, rfl⟩
    · show (sc.mvs ++ [x]).Nodup
      rw [List.nodup_append]
      refine ⟨h, by simp, ?_⟩
      intro a ha b hb
      have : b = x := by simpa using hb
      subst this
      intro hab; subst hab; exact hx ha
    · show (sc.mvs ++ [x])[sc.mvs.length]? = some x
      simp

theorem idxOf_inj {l : List Nat} {x y : Nat} (hx : x ∈ l) (h : l.idxOf x = l.idxOf y) : x = y := by
  have hlt : l.idxOf x < l.length := List.idxOf_lt_length_iff.mpr hx
  have hlt' : l.idxOf y < l.length := h ▸ hlt
  have e1 : l[l.idxOf x] = x := List.getElem_idxOf hlt
  have e2 : l[l.idxOf y] = y := List.getElem_idxOf hlt'
  rw [← e1, ← e2]
  congr 1

theorem idxOf_append_of_mem {l e : List Nat} {x : Nat} (hx : x ∈ l) : (l ++ e).idxOf x = l.idxOf x := by
  rw [List.idxOf_append, if_pos hx]

theorem scope_injective (sc : Scope) (h : sc.mvs.Nodup) (x y : Nat) :
    ((sc.resolveMv x).2 = ((sc.resolveMv x).1.resolveMv y).2 ↔ x = y) := by
  have hmem := resolveMv_mem_after sc x
  have hsnd : (sc.resolveMv x).2 = (sc.resolveMv x).1.mvs.idxOf x := by
    rw [resolveMv_snd]
    by_cases hx : x ∈ sc.mvs
    · rw [resolveMv_mem sc x hx]
    · rw [resolveMv_not_mem sc x hx]
      show _ = (sc.mvs ++ [x]).idxOf x
      rw [List.idxOf_append, if_neg hx, List.idxOf_eq_length hx]; simp
  rw [hsnd, resolveMv_snd]
  constructor
  · exact idxOf_inj hmem
  · intro e; rw [e]

/-- a name keeps its id however the scope grows afterwards -/
theorem scope_stable (sc sc' : Scope) (x : Nat) (hx : x ∈ sc.mvs) (hext : ∃ ext, sc'.mvs = sc.mvs ++ ext) :
    (sc'.resolveMv x) = (sc', sc.mvs.idxOf x) := by
  obtain ⟨ext, he⟩ := hext
  have hx' : x ∈ sc'.mvs := by rw [he]; exact List.mem_append_left _ hx
  rw [resolveMv_mem sc' x hx', he, idxOf_append_of_mem hx]

/-- pattern variables and sort parameters do not collide as long as a scope has at most 100 variables -/
theorem ids_disjoint (sc : Scope) (x s : Nat) (h : sc.mvs.length < 100) :
    (sc.resolveMv x).2 ≠ (sc.resolveSortParam s).2 := by
  rw [resolveMv_snd]
  have h1 : sc.mvs.idxOf x ≤ sc.mvs.length := List.idxOf_le_length
  have h2 : 100 ≤ (sc.resolveSortParam s).2 := by
    unfold Scope.resolveSortParam sortParamBase
    split <;> simp
  omega

/-- … and they DO collide beyond that (the recorded limitation KF-C20-ids) -/
example : ∃ sc : Scope, sc.mvs.Nodup ∧ (sc.resolveMv 1000).2 = (sc.resolveSortParam 0).2 :=
  ⟨{ mvs := List.range 100, sortParams := [] }, List.nodup_range, by decide⟩

end Kore

namespace Kore

/-! ## K2. chaining -/

theorem rewriteEvent_spec (sg : Sig) (n : Nat) (st st' : ExecSt) (rule : NPat) (σ : List (Nat × NPat))
    (h : rewriteEventF sg n st rule σ = some (some st')) :
    ∃ inst rw ar s lhs rhs, NPat.instF n σ rule = some inst ∧ koreNotation "kore-rewrites" = some (rw, ar) ∧
      NPat.notationMatchesF n rw ar inst = some (some [s, lhs, rhs]) ∧ NPat.peqF n lhs st.curr = some true ∧
      st'.claims = st.claims ++ [inst] ∧ st'.curr = rhs ∧ st'.proofs.length = st.proofs.length + 1 := by
  unfold rewriteEventF at h
  simp only [Option.bind_eq_bind, Option.bind_eq_some_iff, Option.pure_def] at h
  obtain ⟨inst, hi, h⟩ := h
  cases hk : koreNotation "kore-rewrites" with
  | none => simp [hk] at h
  | some v =>
    obtain ⟨rw, ar⟩ := v
    simp only [hk] at h
    cases hm : NPat.notationMatchesF n rw ar inst with
    | none => simp [hm] at h
    | some mr =>
      simp only [hm, Option.bind_some] at h
      split at h
      · next s lhs rhs =>
        cases hp : NPat.peqF n lhs st.curr with
        | none => simp [hp] at h
        | some b =>
          simp only [hp, Option.bind_some] at h
          cases b with
          | false => simp at h
          | true =>
            simp only [Bool.not_true, Bool.false_eq_true, if_false] at h
            cases hf : addFunctionalF sg n st.axioms σ with
            | none => simp [hf] at h
            | some fr =>
              simp only [hf, Option.bind_some] at h
              cases fr with
              | none => simp at h
              | some axs1 =>
                simp only at h
                cases ha : addAxiomF n axs1 rule with
                | none => simp [ha] at h
                | some axs2 =>
                  simp only [ha, Option.bind_some, Option.some.injEq] at h
                  subst h
                  exact ⟨inst, rw, ar, s, lhs, rhs, hi, rfl, hm, hp, rfl, rfl, by simp⟩
      · simp at h

/-- a step that does not start from the configuration reached is refused -/
theorem mismatch_refused (sg : Sig) (n : Nat) (st : ExecSt) (rule : NPat) (σ : List (Nat × NPat))
    (inst rw s lhs rhs : NPat) (ar : Nat)
    (hi : NPat.instF n σ rule = some inst) (hk : koreNotation "kore-rewrites" = some (rw, ar))
    (hm : NPat.notationMatchesF n rw ar inst = some (some [s, lhs, rhs]))
    (hne : NPat.peqF n lhs st.curr = some false) :
    rewriteEventF sg n st rule σ = some none := by
  unfold rewriteEventF
  simp [hi, hk, hm, hne]

theorem traceF_cons_inv (sg : Sig) (n : Nat) (st st' : ExecSt) (rule : NPat) (σ : List (Nat × NPat))
    (r : List (NPat × List (Nat × NPat)))
    (h : traceF sg n st ((rule, σ) :: r) = some (some st')) :
    ∃ st1, rewriteEventF sg n st rule σ = some (some st1) ∧ traceF sg n st1 r = some (some st') := by
  simp only [traceF, Option.bind_eq_bind, Option.pure_def] at h
  cases hr : rewriteEventF sg n st rule σ with
  | none => simp [hr] at h
  | some o =>
    simp only [hr, Option.bind_some] at h
    cases o with
    | none => simp at h
    | some st1 => exact ⟨st1, rfl, h⟩

/-- a whole trace: one claim per step, in order, each the instantiated rule of its step … -/
theorem chain_claims (sg : Sig) (n : Nat) : ∀ (steps : List (NPat × List (Nat × NPat))) (st st' : ExecSt),
    traceF sg n st steps = some (some st') →
    ∃ insts, st'.claims = st.claims ++ insts ∧ insts.length = steps.length ∧
      ∀ i (h : i < steps.length), ∃ inst, insts[i]? = some inst ∧ NPat.instF n (steps[i]).2 (steps[i]).1 = some inst := by
  intro steps
  induction steps with
  | nil =>
    intro st st' h
    simp only [traceF, Option.some.injEq] at h
    subst h
    exact ⟨[], by simp, rfl, fun i h => absurd h (Nat.not_lt_zero _)⟩
  | cons step r ih =>
    intro st st' h
    obtain ⟨rule, σ⟩ := step
    obtain ⟨st1, h1, h2⟩ := traceF_cons_inv sg n st st' rule σ r h
    obtain ⟨inst, rw, ar, s, lhs, rhs, hi, _, _, _, hc, _, _⟩ := rewriteEvent_spec sg n st st1 rule σ h1
    obtain ⟨insts, hcl, hlen, hall⟩ := ih st1 st' h2
    refine ⟨inst :: insts, ?_, by simp [hlen], ?_⟩
    · rw [hcl, hc]; simp
    · intro i hi'
      cases i with
      | zero => exact ⟨inst, rfl, hi⟩
      | succ j =>
        have hj : j < r.length := by simpa using hi'
        obtain ⟨x, hx1, hx2⟩ := hall j hj
        exact ⟨x, by simpa using hx1, by simpa using hx2⟩

/-- … and linked: each starts where the previous one ended (`Linked` from `Kore.lean`) -/
theorem chain_links (sg : Sig) (n : Nat) : ∀ (steps : List (NPat × List (Nat × NPat))) (st st' : ExecSt),
    traceF sg n st steps = some (some st') →
    ∃ insts, st'.claims = st.claims ++ insts ∧ Linked n st.curr insts st'.curr := by
  intro steps
  induction steps with
  | nil =>
    intro st st' h
    simp only [traceF, Option.some.injEq] at h
    subst h
    exact ⟨[], by simp, rfl⟩
  | cons step r ih =>
    intro st st' h
    obtain ⟨rule, σ⟩ := step
    obtain ⟨st1, h1, h2⟩ := traceF_cons_inv sg n st st' rule σ r h
    obtain ⟨inst, rw, ar, s, lhs, rhs, hi, hk, hm, hp, hc, hcur, _⟩ := rewriteEvent_spec sg n st st1 rule σ h1
    obtain ⟨insts, hcl, hlink⟩ := ih st1 st' h2
    refine ⟨inst :: insts, ?_, ?_⟩
    · rw [hcl, hc]; simp
    · exact ⟨rw, ar, s, lhs, rhs, hk, hm, hp, hcur ▸ hlink⟩

end Kore

namespace Kore

/-! ## a uniform view of `conv`: every non-variable term is a notation applied to sorts, extra
symbols and converted sub-terms -/

def KTerm.isEvar : KTerm → Bool
  | .evar _ => true
  | _ => false

/-- definition and arity of the notation a term is converted to -/
def KTerm.head (sg : Sig) : KTerm → Option (NPat × Nat)
  | .evar _ => none
  | .app f _ _ => (sg.symbols.find? (·.name == f)).bind fun d =>
      if d.isKseq then koreNotation "kore-kseq"
      else some (naryDef (symSym f) (d.nSortParams + d.nInputs), d.nSortParams + d.nInputs)
  | .dv _ _ => koreNotation "kore-dv"
  | .top _ => koreNotation "kore-top"
  | .bottom _ => koreNotation "kore-bottom"
  | .not _ _ => koreNotation "kore-not"
  | .next _ _ => koreNotation "kore-next"
  | .and _ _ _ => koreNotation "kore-and"
  | .or _ _ _ => koreNotation "kore-or"
  | .implies _ _ _ => koreNotation "kore-implies"
  | .iff _ _ _ => koreNotation "kore-iff"
  | .rewrites _ _ _ => koreNotation "kore-rewrites"
  | .ceil _ _ _ => koreNotation "kore-ceil"
  | .floor _ _ _ => koreNotation "kore-floor"
  | .equals _ _ _ _ => koreNotation "kore-equals"
  | .kin _ _ _ _ => koreNotation "kore-in"

def KTerm.sorts : KTerm → List KSort
  | .evar _ => []
  | .app _ ss _ => ss
  | .dv s _ => [s] | .top s => [s] | .bottom s => [s]
  | .not s _ => [s] | .next s _ => [s]
  | .and s _ _ => [s] | .or s _ _ => [s] | .implies s _ _ => [s] | .iff s _ _ => [s]
  | .rewrites s _ _ => [s]
  | .ceil a b _ => [a, b] | .floor a b _ => [a, b]
  | .equals a b _ _ => [a, b] | .kin a b _ _ => [a, b]

def KTerm.extra : KTerm → List NPat
  | .dv _ v => [dvSym v]
  | _ => []

def KTerm.kids : KTerm → List KTerm
  | .evar _ => []
  | .app _ _ as => as
  | .dv _ _ => [] | .top _ => [] | .bottom _ => []
  | .not _ p => [p] | .next _ p => [p]
  | .and _ l r => [l, r] | .or _ l r => [l, r] | .implies _ l r => [l, r] | .iff _ l r => [l, r]
  | .rewrites _ l r => [l, r]
  | .ceil _ _ p => [p] | .floor _ _ p => [p]
  | .equals _ _ l r => [l, r] | .kin _ _ l r => [l, r]

/-- the uniform description of `conv` on a non-variable term -/
def convNode (sg : Sig) (sc : Scope) (t : KTerm) : Option (Scope × NPat) := do
  let (d, ar) ← t.head sg
  let (sc1, sp) ← convSorts sg sc t.sorts
  let (sc2, ap) ← convList sg sc1 t.kids
  let r ← applyDef d ar (sp ++ t.extra ++ ap)
  pure (sc2, r)

theorem koreNotation_isSome_of (lbl : String) (h : (koreNotation lbl).isSome = true) :
    ∃ d ar, koreNotation lbl = some (d, ar) := by
  obtain ⟨⟨d, ar⟩, hk⟩ := Option.isSome_iff_exists.mp h
  exact ⟨d, ar, hk⟩

macro "conv_node_tac" lbl:str : tactic => `(tactic| (
  simp only [conv, convNode, KTerm.head, KTerm.sorts, KTerm.kids, KTerm.extra, convSorts, convList, applyN]
  obtain ⟨d, ar, hk⟩ := koreNotation_isSome_of $lbl (by decide)
  simp only [hk, Option.bind_eq_bind, Option.bind_some, Option.bind_assoc, Option.pure_def,
    List.nil_append, List.cons_append, List.append_nil]))

theorem conv_node (sg : Sig) (sc : Scope) (t : KTerm) (ht : t.isEvar = false) :
    conv sg sc t = convNode sg sc t := by
  cases t with
  | evar x => cases ht
  | app f ss as =>
    simp only [conv, convNode, KTerm.head, KTerm.sorts, KTerm.kids, KTerm.extra, applyN]
    cases sg.symbols.find? (·.name == f) with
    | none => rfl
    | some d =>
      simp only [Option.bind_eq_bind, Option.bind_some, Option.pure_def]
      by_cases hq : d.isKseq = true
      · simp only [hq, if_true]
        obtain ⟨d', ar, hk⟩ := koreNotation_isSome_of "kore-kseq" (by decide)
        simp only [hk, Option.bind_some, Option.bind_assoc, List.append_nil]
      · simp only [hq, if_false, Option.bind_some, Option.bind_assoc, List.append_nil]; rfl
  | dv s v => conv_node_tac "kore-dv"
  | top s => conv_node_tac "kore-top"
  | bottom s => conv_node_tac "kore-bottom"
  | not s p => conv_node_tac "kore-not"
  | next s p => conv_node_tac "kore-next"
  | and s l r => conv_node_tac "kore-and"
  | or s l r => conv_node_tac "kore-or"
  | implies s l r => conv_node_tac "kore-implies"
  | iff s l r => conv_node_tac "kore-iff"
  | rewrites s l r => conv_node_tac "kore-rewrites"
  | ceil a b p => conv_node_tac "kore-ceil"
  | floor a b p => conv_node_tac "kore-floor"
  | equals a b l r => conv_node_tac "kore-equals"
  | kin a b l r => conv_node_tac "kore-in"

theorem conv_node_iff (sg : Sig) (sc sc' : Scope) (t : KTerm) (p : NPat) (ht : t.isEvar = false) :
    conv sg sc t = some (sc', p) ↔
      ∃ d ar sc1 sp ap, t.head sg = some (d, ar) ∧ convSorts sg sc t.sorts = some (sc1, sp) ∧
        convList sg sc1 t.kids = some (sc', ap) ∧ (sp ++ t.extra ++ ap).length = ar ∧
        p = .inst d ((List.range ar).zip (sp ++ t.extra ++ ap)) := by
  rw [conv_node sg sc t ht]
  unfold convNode
  constructor
  · intro h
    simp only [Option.bind_eq_bind, Option.bind_eq_some_iff, Option.pure_def] at h
    obtain ⟨⟨d, ar⟩, hh, ⟨sc1, sp⟩, hs, ⟨sc2, ap⟩, hl, r, hr, he⟩ := h
    simp only [Option.some.injEq, Prod.mk.injEq] at he
    obtain ⟨rfl, rfl⟩ := he
    unfold applyDef at hr
    split at hr
    · next hlen =>
      simp only [Option.some.injEq] at hr
      exact ⟨d, ar, sc1, sp, ap, hh, hs, hl, hlen, hr.symm⟩
    · cases hr
  · rintro ⟨d, ar, sc1, sp, ap, hh, hs, hl, hlen, rfl⟩
    simp only [hh, hs, hl, applyDef, hlen, Option.bind_eq_bind, Option.bind_some, Option.pure_def, if_true]

theorem conv_evar (sg : Sig) (sc : Scope) (x : Nat) :
    conv sg sc (.evar x) = some ((sc.resolveMv x).1, mvN (sc.resolveMv x).2) := by
  simp only [conv]

/-- induction over terms through the uniform view -/
theorem KTerm.ind {P : KTerm → Prop} {Q : List KTerm → Prop}
    (hev : ∀ x, P (.evar x))
    (hnode : ∀ t, t.isEvar = false → Q t.kids → P t)
    (hnil : Q []) (hcons : ∀ t ts, P t → Q ts → Q (t :: ts)) : (∀ t, P t) ∧ (∀ ts, Q ts) := by
  have main : ∀ t : KTerm, P t := by
    intro t
    induction t using KTerm.rec (motive_2 := Q) with
    | evar x => exact hev x
    | nil => exact hnil
    | cons t ts iht ihts => exact hcons t ts iht ihts
    | app f ss as ih => exact hnode _ rfl ih
    | dv s v => exact hnode _ rfl hnil
    | top s => exact hnode _ rfl hnil
    | bottom s => exact hnode _ rfl hnil
    | not s p ih => exact hnode _ rfl (hcons _ _ ih hnil)
    | next s p ih => exact hnode _ rfl (hcons _ _ ih hnil)
    | and s l r ihl ihr => exact hnode _ rfl (hcons _ _ ihl (hcons _ _ ihr hnil))
    | or s l r ihl ihr => exact hnode _ rfl (hcons _ _ ihl (hcons _ _ ihr hnil))
    | implies s l r ihl ihr => exact hnode _ rfl (hcons _ _ ihl (hcons _ _ ihr hnil))
    | iff s l r ihl ihr => exact hnode _ rfl (hcons _ _ ihl (hcons _ _ ihr hnil))
    | rewrites s l r ihl ihr => exact hnode _ rfl (hcons _ _ ihl (hcons _ _ ihr hnil))
    | ceil a b p ih => exact hnode _ rfl (hcons _ _ ih hnil)
    | floor a b p ih => exact hnode _ rfl (hcons _ _ ih hnil)
    | equals a b l r ihl ihr => exact hnode _ rfl (hcons _ _ ihl (hcons _ _ ihr hnil))
    | kin a b l r ihl ihr => exact hnode _ rfl (hcons _ _ ihl (hcons _ _ ihr hnil))
  refine ⟨main, ?_⟩
  intro ts
  induction ts with
  | nil => exact hnil
  | cons t ts ih => exact hcons t ts (main t) ih

theorem convList_nil (sg : Sig) (sc : Scope) : convList sg sc [] = some (sc, []) := by
  simp only [convList]

theorem convList_cons_iff (sg : Sig) (sc sc' : Scope) (t : KTerm) (ts : List KTerm) (ps : List NPat) :
    convList sg sc (t :: ts) = some (sc', ps) ↔
      ∃ sc1 p ps', conv sg sc t = some (sc1, p) ∧ convList sg sc1 ts = some (sc', ps') ∧ ps = p :: ps' := by
  simp only [convList, Option.bind_eq_bind, Option.bind_eq_some_iff, Option.pure_def, Option.some.injEq,
    Prod.mk.injEq, Prod.exists]
  constructor
  · rintro ⟨sc1, p, h1, sc2, ps', h2, rfl, rfl⟩
    exact ⟨sc1, p, ps', h1, h2, rfl⟩
  · rintro ⟨sc1, p, ps', h1, h2, rfl⟩
    exact ⟨sc1, p, h1, sc', ps', h2, rfl, rfl⟩

theorem subst_node (sg : Sig) (σ : List (Nat × KTerm)) (t : KTerm) (ht : t.isEvar = false) :
    (t.subst σ).isEvar = false ∧ (t.subst σ).head sg = t.head sg ∧ (t.subst σ).sorts = t.sorts ∧
      (t.subst σ).extra = t.extra ∧ (t.subst σ).kids = substList σ t.kids := by
  cases t with
  | evar x => cases ht
  | _ => simp only [KTerm.subst, substList, KTerm.kids, KTerm.sorts, KTerm.extra, KTerm.isEvar, KTerm.head, and_self]

theorem ground_node (t : KTerm) (ht : t.isEvar = false) :
    t.ground = (t.sorts.all KSort.ground && groundList t.kids) := by
  cases t with
  | evar x => cases ht
  | _ => simp [KTerm.ground, groundList, KTerm.kids, KTerm.sorts, Bool.and_assoc]

theorem evars_node (t : KTerm) (ht : t.isEvar = false) : t.evars = evarsList t.kids := by
  cases t with
  | evar x => cases ht
  | _ => simp [KTerm.evars, evarsList, KTerm.kids]

/-! ## sorts -/

/-- what a sort converts to: a sort-parameter metavariable (id ≥ 100) or a sort symbol -/
def IsSortPat (p : NPat) : Prop := (∃ i, 100 ≤ i ∧ p = mvN i) ∨ (∃ n, p = sortSym n)

theorem convSort_spec (sg : Sig) (sc sc' : Scope) (s : KSort) (p : NPat)
    (h : convSort sg sc s = some (sc', p)) :
    sc'.mvs = sc.mvs ∧ IsSortPat p ∧
    (∀ m, convSort sg { mvs := m, sortParams := sc.sortParams } s =
        some ({ mvs := m, sortParams := sc'.sortParams }, p)) ∧
    (s.ground = true → sc' = sc) := by
  cases s with
  | var x =>
    simp only [convSort, Scope.resolveSortParam, sortParamBase] at h ⊢
    cases hi : sc.sortParams.idxOf? x with
    | some i =>
      simp only [hi, Option.some.injEq, Prod.mk.injEq] at h
      obtain ⟨rfl, rfl⟩ := h
      refine ⟨rfl, Or.inl ⟨100 + i, by omega, rfl⟩, fun m => ?_, fun hg => by simp [KSort.ground] at hg⟩
      simp only [hi]
    | none =>
      simp only [hi, Option.some.injEq, Prod.mk.injEq] at h
      obtain ⟨rfl, rfl⟩ := h
      refine ⟨rfl, Or.inl ⟨100 + sc.sortParams.length, by omega, rfl⟩, fun m => ?_, fun hg => by simp [KSort.ground] at hg⟩
      simp only [hi]
  | app n =>
    simp only [convSort] at h ⊢
    split at h
    · next hc =>
      simp only [Option.some.injEq, Prod.mk.injEq] at h
      obtain ⟨rfl, rfl⟩ := h
      refine ⟨rfl, Or.inr ⟨n, rfl⟩, fun m => ?_, fun _ => rfl⟩
      simp only [hc, if_true]
    · cases h

theorem convSorts_spec (sg : Sig) : ∀ (ss : List KSort) (sc sc' : Scope) (sp : List NPat),
    convSorts sg sc ss = some (sc', sp) →
    sc'.mvs = sc.mvs ∧ (∀ p ∈ sp, IsSortPat p) ∧
    (∀ m, convSorts sg { mvs := m, sortParams := sc.sortParams } ss =
        some ({ mvs := m, sortParams := sc'.sortParams }, sp)) ∧
    (ss.all KSort.ground = true → sc' = sc) ∧ sp.length = ss.length := by
  intro ss
  induction ss with
  | nil =>
    intro sc sc' sp h
    simp only [convSorts, Option.some.injEq, Prod.mk.injEq] at h
    obtain ⟨rfl, rfl⟩ := h
    exact ⟨rfl, by simp, fun m => by simp only [convSorts], fun _ => rfl, rfl⟩
  | cons s ss ih =>
    intro sc sc' sp h
    simp only [convSorts, Option.bind_eq_bind, Option.bind_eq_some_iff, Option.pure_def, Option.some.injEq,
      Prod.mk.injEq, Prod.exists] at h
    obtain ⟨sc1, p, h1, sc2, ps, h2, rfl, rfl⟩ := h
    obtain ⟨a1, a2, a3, a4⟩ := convSort_spec sg sc sc1 s p h1
    obtain ⟨b1, b2, b3, b4, b5⟩ := ih sc1 sc2 ps h2
    refine ⟨b1.trans a1, ?_, fun m => ?_, fun hg => ?_, by simp [b5]⟩
    · intro q hq
      cases hq with
      | head => exact a2
      | tail _ hq => exact b2 q hq
    · simp only [convSorts, a3 m, b3 m, Option.bind_eq_bind, Option.bind_some, Option.pure_def]
    · simp only [List.all_cons, Bool.and_eq_true] at hg
      have := a4 hg.1
      subst this
      exact b4 hg.2

theorem IsSortPat.shape {p : NPat} (h : IsSortPat p) : p.Shape = true := by
  rcases h with ⟨i, _, rfl⟩ | ⟨n, rfl⟩ <;> simp [mvN, sortSym, NPat.Shape]

theorem IsSortPat.inst_fix {p : NPat} (h : IsSortPat p) (θ : VId → Option Pat)
    (hθ : ∀ k, 100 ≤ k → θ k = none) : Py.inst θ p.expand = p.expand := by
  rcases h with ⟨i, hi, rfl⟩ | ⟨n, rfl⟩
  · simp [mvN, NPat.expand, Py.inst, hθ i hi]
  · simp [sortSym, NPat.expand, Py.inst]

/-! ## K1 (continued): conversion only appends to the scope -/

def ScopeGrows (sc sc' : Scope) (vars : List Nat) : Prop :=
  (∃ ext, sc'.mvs = sc.mvs ++ ext) ∧ (sc.mvs.Nodup → sc'.mvs.Nodup) ∧ (∀ x ∈ vars, x ∈ sc'.mvs)

theorem conv_scope_both (sg : Sig) :
    (∀ t : KTerm, ∀ sc sc' p, conv sg sc t = some (sc', p) → ScopeGrows sc sc' t.evars) ∧
    (∀ ts : List KTerm, ∀ sc sc' ps, convList sg sc ts = some (sc', ps) → ScopeGrows sc sc' (evarsList ts)) := by
  apply KTerm.ind
  · intro x sc sc' p h
    rw [conv_evar] at h
    simp only [Option.some.injEq, Prod.mk.injEq] at h
    obtain ⟨rfl, _⟩ := h
    refine ⟨?_, fun hn => (resolveMv_spec sc x hn).1, ?_⟩
    · by_cases hx : x ∈ sc.mvs
      · rw [resolveMv_mem sc x hx]; exact ⟨[], by simp⟩
      · rw [resolveMv_not_mem sc x hx]; exact ⟨[x], rfl⟩
    · intro y hy
      simp only [KTerm.evars, List.mem_singleton] at hy
      subst hy
      exact resolveMv_mem_after sc y
  · intro t ht ih sc sc' p h
    obtain ⟨d, ar, sc1, sp, ap, hh, hs, hl, hlen, rfl⟩ := (conv_node_iff sg sc sc' t p ht).mp h
    obtain ⟨e1, _, _, _, _⟩ := convSorts_spec sg _ _ _ _ hs
    obtain ⟨⟨ext, he⟩, hn, hv⟩ := ih sc1 sc' ap hl
    rw [evars_node t ht]
    exact ⟨⟨ext, by rw [he, e1]⟩, fun h => hn (e1 ▸ h), hv⟩
  · intro sc sc' ps h
    rw [convList_nil] at h
    simp only [Option.some.injEq, Prod.mk.injEq] at h
    obtain ⟨rfl, _⟩ := h
    exact ⟨⟨[], by simp⟩, id, by simp [evarsList]⟩
  · intro t ts iht ihts sc sc' ps h
    obtain ⟨sc1, p, ps', h1, h2, rfl⟩ := (convList_cons_iff sg sc sc' t ts ps).mp h
    obtain ⟨⟨e1, he1⟩, hn1, hv1⟩ := iht sc sc1 p h1
    obtain ⟨⟨e2, he2⟩, hn2, hv2⟩ := ihts sc1 sc' ps' h2
    refine ⟨⟨e1 ++ e2, by rw [he2, he1, List.append_assoc]⟩, fun h => hn2 (hn1 h), ?_⟩
    intro x hx
    simp only [evarsList, List.mem_append] at hx
    rcases hx with hx | hx
    · rw [he2]; exact List.mem_append_left _ (hv1 x hx)
    · exact hv2 x hx

/-- conversion only appends to the scope, and afterwards every element variable of the term is in it -/
theorem conv_scope (sg : Sig) (sc sc' : Scope) (t : KTerm) (p : NPat) (h : conv sg sc t = some (sc', p))
    (hn : sc.mvs.Nodup) :
    sc'.mvs.Nodup ∧ (∃ ext, sc'.mvs = sc.mvs ++ ext) ∧ (∀ x ∈ t.evars, x ∈ sc'.mvs) := by
  obtain ⟨a, b, c⟩ := (conv_scope_both sg).1 t sc sc' p h
  exact ⟨b hn, a, c⟩

/-! ## K3. the notation definitions used by the conversion -/

/-- a definition is well shaped, mentions only metavariables below its arity, and its metavariable
set can be computed with finite fuel -/
def GoodDef (d : NPat) (ar : Nat) : Prop :=
  d.Shape = true ∧ (∀ k ∈ Py.metavars d.expand, k < ar) ∧ ∃ n, (NPat.metavarsF n d).isSome = true

set_option maxRecDepth 100000 in
theorem kore_entries_good : ∀ e ∈ Gen.notations, e.group = "kore" →
    e.definition.Shape = true ∧ (Py.metavars e.definition.expand).all (· < e.arity) = true ∧
      (NPat.metavarsF 50 e.definition).isSome = true := by decide +kernel

theorem koreNotation_good (lbl : String) (d : NPat) (ar : Nat) (h : koreNotation lbl = some (d, ar)) :
    GoodDef d ar := by
  unfold koreNotation at h
  simp only [Option.map_eq_some_iff, Prod.mk.injEq] at h
  obtain ⟨e, he, rfl, rfl⟩ := h
  have hmem := List.mem_of_find?_eq_some he
  have hp := List.find?_some he
  simp only [Bool.and_eq_true, beq_iff_eq] at hp
  obtain ⟨g1, g2, g3⟩ := kore_entries_good e hmem hp.1
  refine ⟨g1, ?_, 50, g3⟩
  intro k hk
  have := List.all_eq_true.mp g2 k hk
  simpa using this

theorem naryDef_succ (sym : NPat) (n : Nat) : naryDef sym (n + 1) = .app (naryDef sym n) (mvN n) := by
  simp only [naryDef, List.range_succ, List.foldl_append, List.foldl_cons, List.foldl_nil, mvN]

theorem naryDef_zero (sym : NPat) : naryDef sym 0 = sym := by
  simp [naryDef]

theorem naryDef_good (s : Nat) (n : Nat) : GoodDef (naryDef (.sym s) n) n := by
  induction n with
  | zero =>
    rw [naryDef_zero]
    exact ⟨rfl, by simp [NPat.expand, Py.metavars], 1, rfl⟩
  | succ n ih =>
    obtain ⟨h1, h2, m, h3⟩ := ih
    rw [naryDef_succ]
    refine ⟨by simp [NPat.Shape, h1, mvN], ?_, m + 1, ?_⟩
    · intro k hk
      simp only [NPat.expand, mvN, Py.metavars, List.mem_append, List.mem_singleton] at hk
      rcases hk with hk | hk
      · exact Nat.lt_succ_of_lt (h2 k hk)
      · subst hk; exact Nat.lt_succ_self _
    · obtain ⟨L, hL⟩ := Option.isSome_iff_exists.mp h3
      cases m with
      | zero => simp [NPat.metavarsF] at hL
      | succ m' =>
        simp [NPat.metavarsF, hL, mvN]

theorem head_good (sg : Sig) (t : KTerm) (d : NPat) (ar : Nat) (h : t.head sg = some (d, ar)) :
    GoodDef d ar := by
  cases t with
  | evar x => simp [KTerm.head] at h
  | app f ss as =>
    simp only [KTerm.head, Option.bind_eq_some_iff] at h
    obtain ⟨sd, _, h⟩ := h
    split at h
    · exact koreNotation_good _ _ _ h
    · simp only [Option.some.injEq, Prod.mk.injEq] at h
      obtain ⟨rfl, rfl⟩ := h
      exact naryDef_good _ _
  | _ => exact koreNotation_good _ _ _ h

/-! ## expansion of a notation application -/

theorem lookup_zip_range' (args : List NPat) : ∀ (s k : Nat),
    Py.lookup (NPat.expand.expandMap ((List.range' s args.length).zip args)) k =
      if s ≤ k then (args[k - s]?).map NPat.expand else none := by
  induction args with
  | nil => intro s k; simp [NPat.expand.expandMap, Py.lookup]
  | cons a as ih =>
    intro s k
    simp only [List.length_cons, List.range'_succ, List.zip_cons_cons, NPat.expand.expandMap, Py.lookup]
    by_cases hsk : s = k
    · subst hsk; simp
    · rw [if_neg hsk, ih (s + 1) k]
      by_cases hlt : s < k
      · have h1 : s + 1 ≤ k := hlt
        have h2 : s ≤ k := Nat.le_of_lt hlt
        have h3 : k - s = (k - (s + 1)) + 1 := by omega
        rw [if_pos h1, if_pos h2, h3, List.getElem?_cons_succ]
      · have h1 : ¬ s + 1 ≤ k := by omega
        have h2 : ¬ s ≤ k := by omega
        rw [if_neg h1, if_neg h2]

theorem node_expand (d : NPat) (ar : Nat) (args : List NPat) (hlen : args.length = ar) :
    (NPat.inst d ((List.range ar).zip args)).expand =
      Py.inst (fun k => (args[k]?).map NPat.expand) d.expand := by
  subst hlen
  simp only [NPat.expand]
  congr 1
  funext k
  rw [List.range_eq_range', lookup_zip_range' args 0 k]
  simp

/-! ## converted patterns are well shaped -/

theorem shapeMap_zip (ks : List Nat) (args : List NPat) (h : ∀ a ∈ args, a.Shape = true) :
    NPat.ShapeMap (ks.zip args) = true := by
  rw [NPat.shapeMap_iff]
  intro kv hkv
  exact h _ (List.of_mem_zip hkv).2

theorem conv_shape_both (sg : Sig) :
    (∀ t : KTerm, ∀ sc sc' p, conv sg sc t = some (sc', p) → p.Shape = true) ∧
    (∀ ts : List KTerm, ∀ sc sc' ps, convList sg sc ts = some (sc', ps) → ∀ p ∈ ps, p.Shape = true) := by
  apply KTerm.ind
  · intro x sc sc' p h
    rw [conv_evar] at h
    simp only [Option.some.injEq, Prod.mk.injEq] at h
    obtain ⟨_, rfl⟩ := h
    simp [mvN, NPat.Shape]
  · intro t ht ih sc sc' p h
    obtain ⟨d, ar, sc1, sp, ap, hh, hs, hl, hlen, rfl⟩ := (conv_node_iff sg sc sc' t p ht).mp h
    obtain ⟨_, hsp, _, _, _⟩ := convSorts_spec sg _ _ _ _ hs
    have hd := (head_good sg t d ar hh).1
    simp only [NPat.Shape, hd, Bool.true_and]
    apply shapeMap_zip
    intro a ha
    simp only [List.mem_append] at ha
    rcases ha with (ha | ha) | ha
    · exact (hsp a ha).shape
    · cases t <;> simp [KTerm.extra] at ha
      subst ha; rfl
    · exact ih sc1 sc' ap hl a ha
  · intro sc sc' ps h
    rw [convList_nil] at h
    simp only [Option.some.injEq, Prod.mk.injEq] at h
    obtain ⟨_, rfl⟩ := h
    simp
  · intro t ts iht ihts sc sc' ps h
    obtain ⟨sc1, p, ps', h1, h2, rfl⟩ := (convList_cons_iff sg sc sc' t ts ps).mp h
    intro q hq
    cases hq with
    | head => exact iht sc sc1 p h1
    | tail _ hq => exact ihts sc1 sc' ps' h2 q hq

theorem conv_shape (sg : Sig) (sc sc' : Scope) (t : KTerm) (p : NPat) (h : conv sg sc t = some (sc', p)) :
    p.Shape = true := (conv_shape_both sg).1 t sc sc' p h

/-! ## ground terms: the scope is not touched and does not matter -/

theorem convSorts_ground (sg : Sig) : ∀ (ss : List KSort) (sc sc' : Scope) (sp : List NPat),
    ss.all KSort.ground = true → convSorts sg sc ss = some (sc', sp) →
    ∀ sc2, convSorts sg sc2 ss = some (sc2, sp) := by
  intro ss
  induction ss with
  | nil =>
    intro sc sc' sp _ h sc2
    simp only [convSorts, Option.some.injEq, Prod.mk.injEq] at h ⊢
    simp [h.2]
  | cons s ss ih =>
    intro sc sc' sp hg h sc2
    simp only [List.all_cons, Bool.and_eq_true] at hg
    simp only [convSorts, Option.bind_eq_bind, Option.bind_eq_some_iff, Option.pure_def, Option.some.injEq,
      Prod.mk.injEq, Prod.exists] at h
    obtain ⟨sc1, p, h1, sc3, ps, h3, rfl, rfl⟩ := h
    have h1' : convSort sg sc2 s = some (sc2, p) := by
      cases s with
      | var x => simp [KSort.ground] at hg
      | app n =>
        simp only [convSort] at h1 ⊢
        split at h1
        · next hc =>
          simp only [Option.some.injEq, Prod.mk.injEq] at h1
          simp only [hc, if_true, h1.2]
        · cases h1
    simp only [convSorts, h1', ih sc1 sc3 ps hg.2 h3 sc2, Option.bind_eq_bind, Option.bind_some, Option.pure_def]

def ScopeFree (sg : Sig) (t : KTerm) : Prop :=
  ∀ sc sc' p, conv sg sc t = some (sc', p) → sc' = sc ∧ ∀ sc2, conv sg sc2 t = some (sc2, p)

def ScopeFreeL (sg : Sig) (ts : List KTerm) : Prop :=
  ∀ sc sc' ps, convList sg sc ts = some (sc', ps) → sc' = sc ∧ ∀ sc2, convList sg sc2 ts = some (sc2, ps)

theorem conv_ground_both (sg : Sig) :
    (∀ t : KTerm, t.ground = true → ScopeFree sg t) ∧
    (∀ ts : List KTerm, groundList ts = true → ScopeFreeL sg ts) := by
  apply KTerm.ind
  · intro x hg
    simp [KTerm.ground] at hg
  · intro t ht ih hg sc sc' p h
    rw [ground_node t ht, Bool.and_eq_true] at hg
    obtain ⟨d, ar, sc1, sp, ap, hh, hs, hl, hlen, rfl⟩ := (conv_node_iff sg sc sc' t p ht).mp h
    obtain ⟨_, _, _, hsc, _⟩ := convSorts_spec sg _ _ _ _ hs
    have e1 := hsc hg.1
    subst e1
    obtain ⟨e2, hall⟩ := ih hg.2 sc1 sc' ap hl
    subst e2
    refine ⟨rfl, fun sc2 => ?_⟩
    rw [conv_node_iff sg sc2 sc2 t _ ht]
    exact ⟨d, ar, sc2, sp, ap, hh, convSorts_ground sg _ _ _ _ hg.1 hs sc2, hall sc2, hlen, rfl⟩
  · intro _ sc sc' ps h
    rw [convList_nil] at h
    simp only [Option.some.injEq, Prod.mk.injEq] at h
    obtain ⟨rfl, rfl⟩ := h
    exact ⟨rfl, fun sc2 => convList_nil sg sc2⟩
  · intro t ts iht ihts hg sc sc' ps h
    simp only [groundList, Bool.and_eq_true] at hg
    obtain ⟨sc1, p, ps', h1, h2, rfl⟩ := (convList_cons_iff sg sc sc' t ts ps).mp h
    obtain ⟨e1, a1⟩ := iht hg.1 sc sc1 p h1
    subst e1
    obtain ⟨e2, a2⟩ := ihts hg.2 sc1 sc' ps' h2
    subst e2
    refine ⟨rfl, fun sc2 => ?_⟩
    rw [convList_cons_iff]
    exact ⟨sc2, p, ps', a1 sc2, a2 sc2, rfl⟩

theorem conv_ground (sg : Sig) (t : KTerm) (hg : t.ground = true) : ScopeFree sg t :=
  (conv_ground_both sg).1 t hg

/-! ## K3. the main induction: converting the substituted term = instantiating the converted term -/

theorem resolveMv_idx (sc : Scope) (x : Nat) : (sc.resolveMv x).1.mvs.idxOf x = sc.mvs.idxOf x := by
  by_cases hx : x ∈ sc.mvs
  · rw [resolveMv_mem sc x hx]
  · rw [resolveMv_not_mem sc x hx]
    show (sc.mvs ++ [x]).idxOf x = _
    rw [List.idxOf_append, if_neg hx, List.idxOf_eq_length hx]; simp

theorem resolveMv_sortParams (sc : Scope) (x : Nat) : (sc.resolveMv x).1.sortParams = sc.sortParams := by
  by_cases hx : x ∈ sc.mvs
  · rw [resolveMv_mem sc x hx]
  · rw [resolveMv_not_mem sc x hx]

theorem extra_spec (t : KTerm) : ∀ a ∈ t.extra, ∃ v, a = dvSym v := by
  intro a ha
  cases t <;> simp [KTerm.extra] at ha
  exact ⟨_, ha⟩

/-- `Pat`-level core: instantiating a notation application = instantiating its arguments, when the
definition only mentions its own parameters -/
theorem inst_node (θ : VId → Option Pat) (D : Pat) (A A' : List Pat) (hD : D.Shape = true)
    (hmv : ∀ k ∈ Py.metavars D, k < A.length) (hA : ∀ v ∈ A, v.Shape = true)
    (hA' : A' = A.map (Py.inst θ)) :
    Py.inst θ (Py.inst (fun k => A[k]?) D) = Py.inst (fun k => A'[k]?) D := by
  rw [Py.inst_comp _ _ (fun k v h => hA v (List.mem_of_getElem? h)) D hD]
  apply Py.inst_congr
  intro k hk
  have hlt := hmv k hk
  subst hA'
  simp [List.getElem?_map, List.getElem?_eq_getElem hlt]

section main
variable (sg : Sig) (σ : List (Nat × KTerm)) (θ : VId → Option Pat) (scF : Scope)

/-- a variable of the rule: bound by `σ` to a ground term whose conversion is what `θ` maps the
variable's metavariable to -/
def GoodVar (x : Nat) : Prop :=
  ∃ v pv, σ.lookup x = some v ∧ v.ground = true ∧ (∀ sc, conv sg sc v = some (sc, pv)) ∧
    θ (scF.mvs.idxOf x) = some pv.expand

theorem conv_subst_both (hθ : ∀ k, 100 ≤ k → θ k = none) :
    (∀ t : KTerm, ∀ sc sc' p, conv sg sc t = some (sc', p) → (∃ ext, scF.mvs = sc'.mvs ++ ext) →
      (∀ x ∈ t.evars, GoodVar sg σ θ scF x) →
      ∀ m, ∃ q, conv sg { mvs := m, sortParams := sc.sortParams } (t.subst σ) =
          some ({ mvs := m, sortParams := sc'.sortParams }, q) ∧ q.expand = Py.inst θ p.expand) ∧
    (∀ ts : List KTerm, ∀ sc sc' ps, convList sg sc ts = some (sc', ps) → (∃ ext, scF.mvs = sc'.mvs ++ ext) →
      (∀ x ∈ evarsList ts, GoodVar sg σ θ scF x) →
      ∀ m, ∃ qs, convList sg { mvs := m, sortParams := sc.sortParams } (substList σ ts) =
          some ({ mvs := m, sortParams := sc'.sortParams }, qs) ∧
          qs.map NPat.expand = (ps.map NPat.expand).map (Py.inst θ)) := by
  apply KTerm.ind
  · -- variable
    intro x sc sc' p h hext hgood m
    rw [conv_evar] at h
    simp only [Option.some.injEq, Prod.mk.injEq] at h
    obtain ⟨rfl, rfl⟩ := h
    obtain ⟨v, pv, hl, hg, hc, hth⟩ := hgood x (by simp [KTerm.evars])
    refine ⟨pv, ?_, ?_⟩
    · simp only [KTerm.subst, hl, Option.getD_some, resolveMv_sortParams]
      exact hc _
    · obtain ⟨ext, he⟩ := hext
      have hi : (sc.resolveMv x).2 = scF.mvs.idxOf x := by
        rw [he, idxOf_append_of_mem (resolveMv_mem_after sc x), resolveMv_idx, resolveMv_snd]
      simp only [mvN, NPat.expand, Py.inst, hi, hth]
  · -- notation application
    intro t ht ih sc sc' p h hext hgood m
    obtain ⟨d, ar, sc1, sp, ap, hh, hs, hl, hlen, rfl⟩ := (conv_node_iff sg sc sc' t p ht).mp h
    obtain ⟨_, hsp, hs', _, _⟩ := convSorts_spec sg _ _ _ _ hs
    rw [evars_node t ht] at hgood
    obtain ⟨qs, hq, hqe⟩ := ih sc1 sc' ap hl hext hgood m
    obtain ⟨s1, s2, s3, s4, s5⟩ := subst_node sg σ t ht
    have hlq : qs.length = ap.length := by
      have := congrArg List.length hqe
      simpa using this
    have hlen' : (sp ++ t.extra ++ qs).length = ar := by
      rw [← hlen]; simp only [List.length_append, hlq]
    refine ⟨.inst d ((List.range ar).zip (sp ++ t.extra ++ qs)), ?_, ?_⟩
    · rw [conv_node_iff sg _ _ _ _ s1]
      refine ⟨d, ar, { mvs := m, sortParams := sc1.sortParams }, sp, qs, by rw [s2, hh], by rw [s3]; exact hs' m,
        by rw [s5]; exact hq, by rw [s4]; exact hlen', by rw [s4]⟩
    · obtain ⟨gd1, gd2, _⟩ := head_good sg t d ar hh
      rw [node_expand d ar _ hlen', node_expand d ar _ hlen]
      have e1 : (fun k : Nat => ((sp ++ t.extra ++ qs)[k]?).map NPat.expand) =
          fun k : Nat => ((sp ++ t.extra ++ qs).map NPat.expand)[k]? := by
        funext k; rw [List.getElem?_map]
      have e2 : (fun k : Nat => ((sp ++ t.extra ++ ap)[k]?).map NPat.expand) =
          fun k : Nat => ((sp ++ t.extra ++ ap).map NPat.expand)[k]? := by
        funext k; rw [List.getElem?_map]
      rw [e1, e2]
      symm
      apply inst_node θ _ _ _ (NPat.shape_expand d gd1)
      · intro k hk
        rw [List.length_map, hlen]
        exact gd2 k hk
      · intro v hv
        obtain ⟨a, ha, rfl⟩ := List.mem_map.mp hv
        apply NPat.shape_expand
        simp only [List.mem_append] at ha
        rcases ha with (ha | ha) | ha
        · exact (hsp a ha).shape
        · obtain ⟨w, rfl⟩ := extra_spec t a ha; rfl
        · exact (conv_shape_both sg).2 _ _ _ _ hl a ha
      · simp only [List.map_append, hqe]
        congr 1
        congr 1
        · rw [List.map_map]
          apply List.map_congr_left
          intro a ha
          exact ((hsp a ha).inst_fix θ hθ).symm
        · rw [List.map_map]
          apply List.map_congr_left
          intro a ha
          obtain ⟨w, rfl⟩ := extra_spec t a ha
          rfl
  · intro sc sc' ps h hext hgood m
    rw [convList_nil] at h
    simp only [Option.some.injEq, Prod.mk.injEq] at h
    obtain ⟨rfl, rfl⟩ := h
    exact ⟨[], by simp only [substList, convList], rfl⟩
  · intro t ts iht ihts sc sc' ps h hext hgood m
    obtain ⟨sc1, p, ps', h1, h2, rfl⟩ := (convList_cons_iff sg sc sc' t ts ps).mp h
    obtain ⟨⟨e2, he2⟩, _, _⟩ := (conv_scope_both sg).2 ts sc1 sc' ps' h2
    obtain ⟨ext, hext'⟩ := hext
    have hext1 : ∃ ext, scF.mvs = sc1.mvs ++ ext := ⟨e2 ++ ext, by rw [hext', he2, List.append_assoc]⟩
    obtain ⟨q, hq, hqe⟩ := iht sc sc1 p h1 hext1
      (fun x hx => hgood x (by simp only [evarsList, List.mem_append]; exact Or.inl hx)) m
    obtain ⟨qs, hqs, hqse⟩ := ihts sc1 sc' ps' h2 ⟨ext, hext'⟩
      (fun x hx => hgood x (by simp only [evarsList, List.mem_append]; exact Or.inr hx)) m
    refine ⟨q :: qs, ?_, ?_⟩
    · simp only [substList]
      rw [convList_cons_iff]
      exact ⟨_, q, qs, hq, hqs, rfl⟩
    · simp only [List.map_cons, hqe, hqse]

end main

/-! ## K3. the converted substitution -/

/-- entry-wise relation between a Kore substitution and its conversion in the scope `sc` -/
def SubstRel (sg : Sig) (sc : Scope) (xv : Nat × KTerm) (ip : Nat × NPat) : Prop :=
  xv.1 ∈ sc.mvs ∧ ip.1 = sc.mvs.idxOf xv.1 ∧ conv sg sc xv.2 = some (sc, ip.2)

inductive SubstRelL (sg : Sig) (sc : Scope) : List (Nat × KTerm) → List (Nat × NPat) → Prop
  | nil : SubstRelL sg sc [] []
  | cons {xv ip σ ps} : SubstRel sg sc xv ip → SubstRelL sg sc σ ps → SubstRelL sg sc (xv :: σ) (ip :: ps)

theorem convertSubst_spec (sg : Sig) (sc : Scope) : ∀ (σ : List (Nat × KTerm)) (acc : List (Nat × NPat))
    (sc' : Scope) (δ : List (Nat × NPat)),
    (∀ x t, (x, t) ∈ σ → t.ground = true) → (σ.map (·.1)).Nodup →
    (∀ y ∈ σ.map (·.1), ∀ kv ∈ acc, kv.1 ≠ sc.mvs.idxOf y) →
    convertSubst sg sc σ acc = some (sc', δ) →
    sc' = sc ∧ ∃ ps, δ = acc ++ ps ∧ SubstRelL sg sc σ ps := by
  intro σ
  induction σ with
  | nil =>
    intro acc sc' δ _ _ _ h
    simp only [convertSubst, Option.some.injEq, Prod.mk.injEq] at h
    obtain ⟨rfl, rfl⟩ := h
    exact ⟨rfl, [], by simp, SubstRelL.nil⟩
  | cons xt r ih =>
    intro acc sc' δ hg hnd hinv h
    obtain ⟨x, t⟩ := xt
    simp only [convertSubst, Option.bind_eq_bind, Option.bind_eq_some_iff] at h
    obtain ⟨i, hi, ⟨sc1, p⟩, hc, h⟩ := h
    have hx : x ∈ sc.mvs := by
      by_cases hx : x ∈ sc.mvs
      · exact hx
      · rw [idxOf?_of_not_mem hx] at hi; cases hi
    rw [idxOf?_of_mem hx] at hi
    simp only [Option.some.injEq] at hi
    subst hi
    obtain ⟨e1, _⟩ := conv_ground sg t (hg x t (by simp)) sc sc1 p hc
    subst e1
    have hany : acc.any (fun kv => kv.1 == sc1.mvs.idxOf x) = false := by
      rw [List.any_eq_false]
      intro kv hkv
      have := hinv x (by simp) kv hkv
      simpa using this
    simp only [hany, Bool.false_eq_true, if_false] at h
    simp only [List.map_cons, List.nodup_cons] at hnd
    obtain ⟨e2, ps, hps, hrel⟩ := ih (acc ++ [(sc1.mvs.idxOf x, p)]) sc' δ
      (fun y u hy => hg y u (List.mem_cons_of_mem _ hy)) hnd.2
      (by
        intro y hy kv hkv
        simp only [List.mem_append, List.mem_singleton] at hkv
        rcases hkv with hkv | rfl
        · exact hinv y (by simp only [List.map_cons]; exact List.mem_cons_of_mem _ hy) kv hkv
        · intro heq
          have := idxOf_inj hx heq
          subst this
          exact hnd.1 hy) h
    refine ⟨e2, (sc1.mvs.idxOf x, p) :: ps, by rw [hps]; simp, ?_⟩
    exact SubstRelL.cons ⟨hx, rfl, hc⟩ hrel

theorem substRel_lookup (sg : Sig) (sc : Scope) : ∀ (σ : List (Nat × KTerm)) (ps : List (Nat × NPat)),
    SubstRelL sg sc σ ps → ∀ x v, σ.lookup x = some v →
    ∃ pv, conv sg sc v = some (sc, pv) ∧ Py.lookup ps (sc.mvs.idxOf x) = some pv := by
  intro σ ps h
  induction h with
  | nil => intro x v hl; simp at hl
  | @cons yw iq σ' ps' hr _ ih =>
    intro x v hl
    obtain ⟨y, w⟩ := yw
    obtain ⟨i, q⟩ := iq
    obtain ⟨hy, hi, hc⟩ := hr
    simp only at hy hi hc
    simp only [List.lookup] at hl
    by_cases hxy : x = y
    · subst hxy
      simp only [beq_self_eq_true, Option.some.injEq] at hl
      subst hl
      exact ⟨q, hc, by simp [Py.lookup, hi]⟩
    · have hb : (x == y) = false := by simpa using hxy
      simp only [hb] at hl
      obtain ⟨pv, h1, h2⟩ := ih x v hl
      refine ⟨pv, h1, ?_⟩
      simp only [Py.lookup]
      rw [if_neg]
      · exact h2
      · intro heq
        rw [hi] at heq
        exact hxy (idxOf_inj hy heq).symm

theorem substRel_mem (sg : Sig) (sc : Scope) : ∀ (σ : List (Nat × KTerm)) (ps : List (Nat × NPat)),
    SubstRelL sg sc σ ps → ∀ kv ∈ ps, kv.1 < sc.mvs.length ∧ kv.2.Shape = true := by
  intro σ ps h
  induction h with
  | nil => intro kv hkv; cases hkv
  | @cons yw iq σ' ps' hr _ ih =>
    intro kv hkv
    cases hkv with
    | head =>
      obtain ⟨hy, hi, hc⟩ := hr
      exact ⟨by rw [hi]; exact List.idxOf_lt_length_iff.mpr hy, conv_shape sg _ _ _ _ hc⟩
    | tail _ hkv => exact ih kv hkv

/-! ## K3. enough fuel exists to instantiate a converted pattern -/

def InstTerminates (δ : List (Nat × NPat)) (p : NPat) : Prop := ∃ n, (NPat.instF n δ p).isSome = true

theorem mapF_terminates (δ : List (Nat × NPat)) : ∀ (m : List (Nat × NPat)),
    (∀ kv ∈ m, InstTerminates δ kv.2) → ∃ n, (NPat.mapF n δ m).isSome = true := by
  intro m
  induction m with
  | nil => intro _; exact ⟨1, rfl⟩
  | cons kv r ih =>
    intro h
    obtain ⟨k, v⟩ := kv
    obtain ⟨n1, h1⟩ := h (k, v) (by simp)
    obtain ⟨n2, h2⟩ := ih (fun kv hkv => h kv (List.mem_cons_of_mem _ hkv))
    obtain ⟨a, ha⟩ := Option.isSome_iff_exists.mp h1
    obtain ⟨b, hb⟩ := Option.isSome_iff_exists.mp h2
    refine ⟨max n1 n2 + 1, ?_⟩
    have ha' := NPat.KMono.instF_mono (Nat.le_max_left n1 n2) δ v a ha
    have hb' := NPat.KMono.mapF_mono (Nat.le_max_right n1 n2) δ r b hb
    simp [NPat.mapF, ha', hb']

theorem inst_node_terminates (δ : List (Nat × NPat)) (d : NPat) (m : List (Nat × NPat))
    (hm : ∃ n, (NPat.mapF n δ m).isSome = true) (hd : ∃ n, (NPat.metavarsF n d).isSome = true) :
    InstTerminates δ (.inst d m) := by
  obtain ⟨n1, h1⟩ := hm
  obtain ⟨n2, h2⟩ := hd
  obtain ⟨a, ha⟩ := Option.isSome_iff_exists.mp h1
  obtain ⟨b, hb⟩ := Option.isSome_iff_exists.mp h2
  refine ⟨max n1 n2 + 1, ?_⟩
  have ha' := NPat.KMono.mapF_mono (Nat.le_max_left n1 n2) δ m a ha
  have hb' := NPat.KMono.metavarsF_mono (Nat.le_max_right n1 n2) d b hb
  simp [NPat.instF, ha', hb']

theorem conv_terminates_both (sg : Sig) (δ : List (Nat × NPat)) :
    (∀ t : KTerm, ∀ sc sc' p, conv sg sc t = some (sc', p) → InstTerminates δ p) ∧
    (∀ ts : List KTerm, ∀ sc sc' ps, convList sg sc ts = some (sc', ps) → ∀ p ∈ ps, InstTerminates δ p) := by
  apply KTerm.ind
  · intro x sc sc' p h
    rw [conv_evar] at h
    simp only [Option.some.injEq, Prod.mk.injEq] at h
    obtain ⟨_, rfl⟩ := h
    exact ⟨1, rfl⟩
  · intro t ht ih sc sc' p h
    obtain ⟨d, ar, sc1, sp, ap, hh, hs, hl, hlen, rfl⟩ := (conv_node_iff sg sc sc' t p ht).mp h
    obtain ⟨_, hsp, _, _, _⟩ := convSorts_spec sg _ _ _ _ hs
    apply inst_node_terminates δ d _ _ (head_good sg t d ar hh).2.2
    apply mapF_terminates
    intro kv hkv
    have ha := (List.of_mem_zip hkv).2
    simp only [List.mem_append] at ha
    rcases ha with (ha | ha) | ha
    · rcases hsp _ ha with ⟨i, _, e⟩ | ⟨n, e⟩ <;> rw [e] <;> exact ⟨1, rfl⟩
    · obtain ⟨w, e⟩ := extra_spec t _ ha
      rw [e]; exact ⟨1, rfl⟩
    · exact ih sc1 sc' ap hl _ ha
  · intro sc sc' ps h
    rw [convList_nil] at h
    simp only [Option.some.injEq, Prod.mk.injEq] at h
    obtain ⟨_, rfl⟩ := h
    simp
  · intro t ts iht ihts sc sc' ps h
    obtain ⟨sc1, p, ps', h1, h2, rfl⟩ := (convList_cons_iff sg sc sc' t ts ps).mp h
    intro q hq
    cases hq with
    | head => exact iht sc sc1 p h1
    | tail _ hq => exact ihts sc1 sc' ps' h2 q hq

/-! ## K3. conversion commutes with substitution -/

theorem mem_of_lookup {σ : List (Nat × KTerm)} {x : Nat} {v : KTerm} (h : σ.lookup x = some v) :
    (x, v) ∈ σ := by
  obtain ⟨l1, l2, e, _⟩ := List.lookup_eq_some_iff.mp h
  rw [e]; simp

/-- For a quantifier-free rule `r` converted in a fresh scope, and a substitution `σ` that is total on
the variables of `r`, has distinct keys and ground values: instantiating the converted rule with the
converted substitution gives a pattern with the same expansion as converting the substituted rule.
(`hsub` is not used by the proof: `hδ` already forces every key of `σ` to be in the scope.) -/
theorem convert_subst (sg : Sig) (r : KTerm) (σ : List (Nat × KTerm)) (sc1 sc1' : Scope) (p : NPat)
    (δ : List (Nat × NPat))
    (hr : conv sg {} r = some (sc1, p))
    (hkeys : (σ.map (·.1)).Nodup) (hground : ∀ x t, (x, t) ∈ σ → t.ground = true)
    (hdom : ∀ x ∈ r.evars, (σ.lookup x).isSome) (hsub : ∀ x t, (x, t) ∈ σ → x ∈ r.evars)
    (hδ : convertSubst sg sc1 σ [] = some (sc1', δ)) (hsmall : sc1.mvs.length ≤ 100) :
    ∃ sc2 q n inst, conv sg {} (r.subst σ) = some (sc2, q) ∧ NPat.instF n δ p = some inst ∧
      inst.expand = q.expand := by
  -- the converted substitution
  obtain ⟨_, ps, hps, hrel⟩ := convertSubst_spec sg sc1 σ [] sc1' δ hground hkeys
    (fun _ _ kv hkv => by cases hkv) hδ
  simp only [List.nil_append] at hps
  subst hps
  have hmem := substRel_mem sg sc1 σ δ hrel
  have hshape : NPat.ShapeMap δ = true := by
    rw [NPat.shapeMap_iff]; intro kv hkv; exact (hmem kv hkv).2
  -- the `Pat`-level instantiation it denotes
  have hθ : ∀ k, 100 ≤ k → Py.lookup (NPat.expand.expandMap δ) k = none := by
    intro k hk
    rw [NPat.lookup_expandMap]
    cases hl : Py.lookup δ k with
    | none => rfl
    | some v =>
      have := (hmem (k, v) (Py.lookup_mem _ _ _ hl)).1
      exact absurd (Nat.lt_of_lt_of_le this hsmall) (Nat.not_lt.mpr hk)
  have hgood : ∀ x ∈ r.evars, GoodVar sg σ (Py.lookup (NPat.expand.expandMap δ)) sc1 x := by
    intro x hx
    obtain ⟨v, hv⟩ := Option.isSome_iff_exists.mp (hdom x hx)
    have hg := hground x v (mem_of_lookup hv)
    obtain ⟨pv, hc, hl⟩ := substRel_lookup sg sc1 σ δ hrel x v hv
    refine ⟨v, pv, hv, hg, (conv_ground sg v hg sc1 sc1 pv hc).2, ?_⟩
    rw [NPat.lookup_expandMap, hl]; rfl
  -- converting the substituted rule
  obtain ⟨q, hq, hqe⟩ := (conv_subst_both sg σ _ sc1 hθ).1 r {} sc1 p hr ⟨[], by simp⟩ hgood []
  -- instantiating the converted rule
  obtain ⟨n, hn⟩ := (conv_terminates_both sg δ).1 r {} sc1 p hr
  obtain ⟨inst, hinst⟩ := Option.isSome_iff_exists.mp hn
  have hie := (NPat.instF_expand n δ p inst (conv_shape sg _ _ _ _ hr) hshape hinst).1
  exact ⟨_, q, n, inst, hq, hinst, by rw [hie, hqe]⟩

#print axioms resolveMv_spec
#print axioms scope_injective
#print axioms scope_stable
#print axioms conv_scope
#print axioms ids_disjoint
#print axioms rewriteEvent_spec
#print axioms mismatch_refused
#print axioms chain_claims
#print axioms chain_links
#print axioms convert_subst

end Kore
