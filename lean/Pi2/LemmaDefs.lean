import Pi2.Notation
import Pi2.Machine
import Pi2.Gen.Notations
/-!
# The derived-rule libraries as data (`proofs/propositional.py`, `tautology.py`)

The translator (`vlib/translate.py: gen_lemmas`) turns the body of every schematic method of the two
libraries into a value of type `Lem.Def` — a small straight-line language: pattern expressions,
thunk expressions (calls of other lemmas, `modus_ponens`, the instantiated axioms), destructuring
(`Implies.extract`, `N.assert_matches`), `assert a == b`.  `Lem.sem` interprets a list of definitions
over an algebra of thunks, so that the *same* translated body can be read

* on conclusions only (`algC`: what `ProofThunk.conc` computes at construction time), and
* on proof trees with their meaning (`algG`: `Pf` together with `Pf.Sem`, the documented rules).

Patterns are notation-free (`Pat`): every operation the bodies use commutes with expansion
(`Pi2.NotationThm`, `Pi2.MatchThm`), and `==` of the real code is equality of expansions.
Core Lean only.  (Definitions only — the driver `pi2drv` imports this file; the proof-tree algebra `algG`, which needs
`Pf.Sem`, is in `Pi2/Lemma.lean`.)
-/
open Pat

namespace Lem

/-! ## the propositional notations on expanded patterns -/
def botP : Pat := .mu 0 (.svar 0)
def negP (a : Pat) : Pat := .imp a botP
def topP : Pat := negP botP
def andP (a b : Pat) : Pat := negP (.imp a (negP b))
def orP (a b : Pat) : Pat := .imp (negP a) b
def equivP (a b : Pat) : Pat := andP (.imp a b) (.imp b a)

/-- the notation table of `pattern.py` (regenerated from the source on every run) expands to these -/
def tableDef (label : String) : Option Pat :=
  (Gen.notations.find? fun e => e.group == "pattern" && e.label == label).map (·.definition.expand)

/-- pattern expressions -/
inductive PE where
  | pvar (i : Nat)
  | mv (i : Nat)
  | imp (a b : PE)
  | bot
  | neg (a : PE)
  | top
  | and (a b : PE)
  | or (a b : PE)
  | equiv (a b : PE)
  | concOf (t : Nat)
deriving Repr, Inhabited

/-- the notations whose `assert_matches` the bodies use -/
inductive Notn where
  | neg | and | or | equiv
deriving Repr, Inhabited, DecidableEq

/-- thunk expressions -/
inductive TE where
  | tvar (j : Nat)
  | call (f : Nat) (ps : List PE) (ts : List TE)
  | mp (l r : TE)
  | prop1 (p q : PE)
  | prop2 (p q r : PE)
  | prop3 (p : PE)
  | axiomInst (i : Nat) (ps : List PE)
deriving Repr, Inhabited

inductive Stmt where
  | letP (e : PE)
  | letT (e : TE)
  | extractImp (e : PE)
  | matchNot (n : Notn) (e : PE)
  | assertEq (a b : PE)
deriving Repr, Inhabited

structure Def where
  name : String
  nP : Nat
  nT : Nat
  body : List Stmt
  ret : TE
deriving Repr, Inhabited

/-- an algebra of thunks -/
structure Alg (τ : Type) where
  conc : τ → Pat
  mp : τ → τ → Option τ
  prop1 : Pat → Pat → τ
  prop2 : Pat → Pat → Pat → τ
  prop3 : Pat → τ
  axiomInst : Nat → List Pat → Option τ

def evalPE {τ} (A : Alg τ) (ps : List Pat) (ts : List τ) : PE → Option Pat
  | .pvar i => ps[i]?
  | .mv i => some (phi i)
  | .imp a b => do pure (.imp (← evalPE A ps ts a) (← evalPE A ps ts b))
  | .bot => some botP
  | .neg a => do pure (negP (← evalPE A ps ts a))
  | .top => some topP
  | .and a b => do pure (andP (← evalPE A ps ts a) (← evalPE A ps ts b))
  | .or a b => do pure (orP (← evalPE A ps ts a) (← evalPE A ps ts b))
  | .equiv a b => do pure (equivP (← evalPE A ps ts a) (← evalPE A ps ts b))
  | .concOf t => (ts[t]?).map A.conc

def evalPEs {τ} (A : Alg τ) (ps : List Pat) (ts : List τ) : List PE → Option (List Pat)
  | [] => some []
  | e :: es => do pure ((← evalPE A ps ts e) :: (← evalPEs A ps ts es))

/-- the semantic function of a definition: pattern arguments, thunk arguments ↦ a thunk (or an exception) -/
abbrev Fun (τ : Type) := List Pat → List τ → Option τ

mutual
def evalTE {τ} (A : Alg τ) (funs : List (Fun τ)) (ps : List Pat) (ts : List τ) : TE → Option τ
  | .tvar j => ts[j]?
  | .call f pes tes => do
      let g ← funs[f]?
      let pa ← evalPEs A ps ts pes
      let ta ← evalTEs A funs ps ts tes
      g pa ta
  | .mp l r => do A.mp (← evalTE A funs ps ts l) (← evalTE A funs ps ts r)
  | .prop1 p q => do pure (A.prop1 (← evalPE A ps ts p) (← evalPE A ps ts q))
  | .prop2 p q r => do pure (A.prop2 (← evalPE A ps ts p) (← evalPE A ps ts q) (← evalPE A ps ts r))
  | .prop3 p => do pure (A.prop3 (← evalPE A ps ts p))
  | .axiomInst i pes => do A.axiomInst i (← evalPEs A ps ts pes)
def evalTEs {τ} (A : Alg τ) (funs : List (Fun τ)) (ps : List Pat) (ts : List τ) : List TE → Option (List τ)
  | [] => some []
  | e :: es => do pure ((← evalTE A funs ps ts e) :: (← evalTEs A funs ps ts es))
end

def matchAnd : Pat → Option (List Pat)
  | .imp (.imp a (.imp b c)) d => if c = botP ∧ d = botP then some [a, b] else none
  | _ => none

/-- `N.assert_matches(x)`: the arguments of the notation, `none` = `AssertionError` -/
def matchNotn : Notn → Pat → Option (List Pat)
  | .neg, .imp a b => if b = botP then some [a] else none
  | .neg, _ => none
  | .and, x => matchAnd x
  | .or, .imp (.imp a c) b => if c = botP then some [a, b] else none
  | .or, _ => none
  | .equiv, x =>
      match matchAnd x with
      | some [.imp a b, .imp b' a'] => if a = a' ∧ b = b' then some [a, b] else none
      | _ => none

/-- run the statements of a body: the environments grow at the end -/
def evalBody {τ} (A : Alg τ) (funs : List (Fun τ)) : List Pat → List τ → List Stmt → Option (List Pat × List τ)
  | ps, ts, [] => some (ps, ts)
  | ps, ts, .letP e :: r => do evalBody A funs (ps ++ [← evalPE A ps ts e]) ts r
  | ps, ts, .letT e :: r => do evalBody A funs ps (ts ++ [← evalTE A funs ps ts e]) r
  | ps, ts, .extractImp e :: r => do
      match ← evalPE A ps ts e with
      | .imp a b => evalBody A funs (ps ++ [a, b]) ts r
      | _ => none
  | ps, ts, .matchNot n e :: r => do
      let xs ← matchNotn n (← evalPE A ps ts e)
      evalBody A funs (ps ++ xs) ts r
  | ps, ts, .assertEq a b :: r => do
      if (← evalPE A ps ts a) = (← evalPE A ps ts b) then evalBody A funs ps ts r else none

def evalDef {τ} (A : Alg τ) (funs : List (Fun τ)) (d : Def) : Fun τ := fun ps ts =>
  if ps.length = d.nP ∧ ts.length = d.nT then do
    let (ps', ts') ← evalBody A funs ps ts d.body
    evalTE A funs ps' ts' d.ret
  else none

/-- the semantic functions of a library: a definition may call the ones before it -/
def sem {τ} (A : Alg τ) : List Def → List (Fun τ)
  | [] => []
  | d :: ds => sem.go A [evalDef A [] d] ds
where
  go {τ} (A : Alg τ) (acc : List (Fun τ)) : List Def → List (Fun τ)
    | [] => acc
    | d :: ds => go A (acc ++ [evalDef A acc d]) ds

/-! ## the two algebras -/

/-- `_build_subst([p₀, p₁, …])`: identity entries are dropped -/
def buildSubst (ps : List Pat) : List (Nat × Pat) :=
  (List.range ps.length).zip ps |>.filter fun (i, p) => p != phi i

def instP (δ : List (Nat × Pat)) (a : Pat) : Pat := Py.inst (Py.lookup δ) a

def mpC (l r : Pat) : Option Pat :=
  match l with
  | .imp a b => if a = r then some b else none
  | _ => none

/-- the axioms the `Tautology` module adds in its constructor (index order), on expansions -/
def tautAxioms : List Pat :=
  [ .imp (orP (orP (phi 0) (phi 1)) (phi 2)) (orP (phi 0) (orP (phi 1) (phi 2))),
    .imp (orP (phi 0) (orP (phi 1) (phi 2))) (orP (orP (phi 0) (phi 1)) (phi 2)),
    .imp (orP (andP (phi 0) (phi 1)) (phi 2)) (andP (orP (phi 0) (phi 2)) (orP (phi 1) (phi 2))),
    .imp (andP (orP (phi 0) (phi 2)) (orP (phi 1) (phi 2))) (orP (andP (phi 0) (phi 1)) (phi 2)),
    .imp (orP (phi 0) (andP (phi 1) (phi 2))) (andP (orP (phi 0) (phi 1)) (orP (phi 0) (phi 2))),
    .imp (andP (orP (phi 0) (phi 1)) (orP (phi 0) (phi 2))) (orP (phi 0) (andP (phi 1) (phi 2))) ]

/-- conclusions only -/
def algC : Alg Pat where
  conc := id
  mp := mpC
  prop1 p q := .imp p (.imp q p)
  prop2 p q r := .imp (.imp p (.imp q r)) (.imp (.imp p q) (.imp p r))
  prop3 p := .imp (negP (negP p)) p
  axiomInst i ps := (tautAxioms[i]?).map (instP (buildSubst ps))

end Lem

namespace Lem

/-- the documented schema of a library entry point at its generic point: the pattern parameters are the
distinct metavariables `params`, premise `i` concludes `premises[i]` -/
structure Spec where
  name : String
  idx : Nat
  params : List Pat
  premises : List Pat
  concl : Pat
deriving Repr, Inhabited

/-- the kernel-checkable obligation of one entry: evaluating the translated body on conclusions at the
generic point yields exactly the documented conclusion -/
def Spec.holds (defs : List Def) (s : Spec) : Bool :=
  match (sem algC defs)[s.idx]? with
  | some f => f s.params s.premises == some s.concl
  | none => false

end Lem
