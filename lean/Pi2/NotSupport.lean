import Pi2.MatchSupport
/-!
# Support for the translated pattern methods with notation (`Pi2/Gen/PyNotation.lean`)

The target language of `vlib/transnot.py`: the methods `evar_is_free`, `metavars`, `instantiate`,
`apply_esubst`, `apply_ssubst`, `__eq__` of the eleven pattern classes of `pattern.py` (the ten
notation-free ones and `Instantiate`) are translated statement by statement into functions
`Nat → NPat → … → Option _` (`none` = out of fuel, a Python `RecursionError`; none of these methods
raises anything else on values of the declared types).

Fuel discipline of the translator: every *method* is defined by cases on the fuel (`0` = out of fuel,
`n + 1` = the body, every method call in it gets `n`); a comprehension whose element expression calls
a method is a frame of its own (as in CPython) and is lifted to a recursive function that consumes one
unit per element; `Instantiate.simplify` (`return self.pattern.instantiate(self.inst)`) is inlined at
its call sites; operators (`==`, `and`, `in`, …) and loops without calls consume nothing.

Data: a `dict[int, Pattern]` / `frozendict` is its insertion-ordered item list (`PyM.Dict`; `k in d` and
`d[k]` are `Py.lookup`, `d[k] = v` is `PyM.dictSet`); a `set[int]` is a list of its elements in the order
of construction (`set()` = `[]`, `{x}` = `[x]`, `a.union(b)` = `a ++ b`, `x in s` = `List.contains`) —
order and multiplicity are not observable in Python; an `EVar` / `SVar` object in a `var` field or in an
`e_fresh` / `s_fresh` tuple is its id (as in `NPat`).
-/
open Pat
namespace PyN
open PyM

/-- Python's operator `a == b` on two pattern objects, given the `__eq__` methods (`some none` =
`NotImplemented`): `a.__eq__(b)`; on `NotImplemented` the reflected `b.__eq__(a)`; if both decline, the
default comparison by identity — the two objects then have different classes, so they are not the same
object: `False`.  (No pattern class is a subclass of another pattern class, so the reflected method is
never tried first.) -/
def opEq (eqm : NPat → NPat → Option (Option Bool)) (a b : NPat) : Option Bool :=
  match eqm a b with
  | none => none
  | some (some r) => some r
  | some none =>
    match eqm b a with
    | none => none
    | some (some r) => some r
    | some none => some false

/-- `for k, v in d.items(): <body>` with a body that only updates the state `s` (no calls, no `return`) -/
def forItems {σ} (d : Dict) (s : σ) (body : Nat → NPat → σ → σ) : σ :=
  d.foldl (fun s kv => body kv.1 kv.2 s) s

/-- `{k: f(k, v) for k, v in d.items()}` with an element expression without calls -/
def mapItems (f : Nat → NPat → NPat) (d : Dict) : Dict := d.map fun kv => (kv.1, f kv.1 kv.2)
/-- `… for k, v in d.items() if c(k, v)` -/
def filterItems (c : Nat → NPat → Bool) (d : Dict) : Dict := d.filter fun kv => c kv.1 kv.2
/-- `s <= d.keys()` -/
def subsetKeys (s : List VId) (d : Dict) : Bool := s.all fun k => dictHas d k

end PyN
