import Pi2.ClauseBase
/-!
# `ac_move_to_front` (with its nested `unroll`), `or_move_to_front`, `and_move_to_front` on conclusions
(second part of `Pi2/ClauseThm.lean`; same namespace)

`unroll(term_l, term_r, positions, l, unrolling)` works on a ZIPPER over the operand list `xs`: `term_l` is the LEFT-nested
chain of the first `unrolling + 1` operands, `term_r` the right-nested chain of the others.  `unroll_C`: for every zipper
`(lr, rs)` (`lr` = the left part reversed) and every well-formed position list `qs` ending in the sentinel `0`, with fuel above
the potential `Phi`, the run does not raise and concludes `term_l . term_r <-> foldr_op(op, mf qs xs)`, where `mf` moves, one
after the other, the operand at the given position (relative to what is left) to the front.
-/
set_option linter.unusedSimpArgs false
open Pat

namespace ClauseThm
open Lem StageSup Gen.PyTaut TautSup TautTie StageThm Gen.Clause

/-- the LEFT-nested `op`-chain `((x0 . x1) . x2) ..` of a non-empty list given in REVERSE order -/
def foldlR (op : Pat → Pat → Pat) : List Pat → Pat
  | [] => Lem.botP
  | [a] => a
  | m :: b :: r => op (foldlR op (b :: r)) m

theorem foldlR_cons (op : Pat → Pat → Pat) (m : Pat) (lr : List Pat) (h : lr ≠ []) :
    foldlR op (m :: lr) = op (foldlR op lr) m := by
  cases lr with
  | nil => exact absurd rfl h
  | cons b r => rfl

/-- what `unroll` does to the operand list: for each position in turn (relative to the operands that are left), that
operand goes to the front; two operands left: swap or not, and stop -/
def mf : List Nat → List Pat → List Pat
  | [], xs => xs
  | q :: qs, xs =>
    if xs.length ≤ 2 then (if q = 0 then xs else xs.reverse)
    else match xs[q]? with
      | some x => x :: mf qs (xs.eraseIdx q)
      | none => xs

theorem mf_length : ∀ (qs : List Nat) (xs : List Pat), (mf qs xs).length = xs.length := by
  intro qs
  induction qs with
  | nil => intro xs; rfl
  | cons q qs ih =>
    intro xs
    unfold mf
    split
    · split
      · rfl
      · simp
    · split
      · rename_i x hx
        have hq : q < xs.length := by
          have := (List.getElem?_eq_some_iff.mp hx).1
          exact this
        simp only [List.length_cons, ih, List.length_eraseIdx, hq, if_true]
        omega
      · rfl

theorem mf_ne_nil (qs : List Nat) (xs : List Pat) (h : xs ≠ []) : mf qs xs ≠ [] := by
  intro e
  have := mf_length qs xs
  rw [e] at this
  exact h (List.length_eq_zero_iff.mp this.symm)

/-- the positions are in range (as long as `unroll` looks at them: it stops at two operands) -/
def WFQ : List Nat → Nat → Prop
  | [], _ => True
  | q :: qs, l => q < l ∧ (2 < l → WFQ qs (l - 1))

/-- fuel: an upper bound of the work for the positions that follow -/
def Psi : List Nat → Nat → Nat
  | [], _ => 0
  | _ :: qs, l => l + Psi qs (l - 1)

/-- the number of zipper moves before the operand at `q` is consumed -/
def dist (q u l : Nat) : Nat := if q ≤ u then u - q else min q (l - 2) - u

/-- the potential of a call of `unroll` -/
def Phi : List Nat → Nat → Nat → Nat
  | [], _, _ => 0
  | q :: qs, l, u => dist q u l + 1 + Psi qs (l - 1)

theorem dist_le (q u l : Nat) (h : u + 1 < l) : dist q u l ≤ l - 2 := by
  unfold dist
  split <;> omega

theorem Phi_le_Psi (qs : List Nat) (l u : Nat) (h : u + 1 < l) : Phi qs l u ≤ Psi qs l := by
  cases qs with
  | nil => simp [Phi, Psi]
  | cons q qs =>
    have := dist_le q u l h
    simp only [Phi, Psi]
    omega

/-- what `ac_move_to_front` is told about its parameters -/
structure ACOp (op : Pat → Pat → Pat) (assoc : Pat → Pat → Pat → Option Pat) (comm : Pat → Pat → Option Pat)
    (cong : Pat → Pat → Option Pat) (extract : Pat → Option (List Pat)) : Prop where
  hassoc : ∀ a b c, assoc a b c = some (equivP (op a (op b c)) (op (op a b) c))
  hcomm : ∀ a b, comm a b = some (equivP (op a b) (op b a))
  hcong : ∀ a b c d, cong (equivP a b) (equivP c d) = some (equivP (op a c) (op b d))
  hext : ∀ a b, extract (op a b) = some [a, b]

/-- `assoc_rev = lambda a, b, c: self.equiv_sym(assoc(a, b, c))` -/
def assocRev (assoc : Pat → Pat → Pat → Option Pat) : Pat → Pat → Pat → Option Pat :=
  fun a b c => do let t1_ ← assoc a b c; let t2_ ← lib algCS ix_equiv_sym [] [t1_]; pure t2_

theorem assocRev_eq {op assoc comm cong extract} (H : ACOp op assoc comm cong extract) (a b c : Pat) :
    assocRev assoc a b c = some (equivP (op (op a b) c) (op a (op b c))) := by
  simp [assocRev, H.hassoc, lib_equiv_sym]

theorem pySliceFrom_one {α} (x : α) (T : List α) : pySliceFrom (x :: T) (1 : Int) = T := by
  simp [pySliceFrom]

section Steps
variable {op : Pat → Pat → Pat} {assoc : Pat → Pat → Pat → Option Pat} {comm : Pat → Pat → Option Pat}
  {cong : Pat → Pat → Option Pat} {extract : Pat → Option (List Pat)} (H : ACOp op assoc comm cong extract)
  (f : Nat) (tl tr mid X : Pat) (Q L U : Int) (T : List Int)

local notation "UN" => ac_move_to_front_unroll algCS assoc comm cong op extract (assocRev assoc)

include H

omit H in
theorem step_nil : UN (f + 1) tl tr [] L U = some (equivP (op tl tr) (op tl tr)) := by
  simp [ac_move_to_front_unroll, lib_equiv_refl]

omit H in
theorem step_keep2 (hQ : Q ≤ 0) (hL2 : L = 2) (hU0 : U = 0) :
    UN (f + 1) tl tr (Q :: T) L U = some (equivP (op tl tr) (op tl tr)) := by
  subst hL2 hU0
  have h2 : Q < 2 := by omega
  simp [ac_move_to_front_unroll, lib_equiv_refl, pyIndex_cons_zero, pyAssert, hQ, h2]

theorem step_keep (hQ : Q ≤ 0) (h1 : 1 < L) (hL : L ≠ 2) (hU0 : U = 0)
    (hrec : UN f mid tr T (L - 1) 0 = some (equivP (op mid tr) X)) :
    UN (f + 1) tl (op mid tr) (Q :: T) L U = some (equivP (op tl (op mid tr)) (op tl X)) := by
  subst hU0
  have h2 : Q < L := by omega
  simp [ac_move_to_front_unroll, lib_equiv_refl, pyIndex_cons_zero, pyAssert, hQ, h1, h2, hL, H.hext, ClauseSup.pyUnpack2,
    pySliceFrom_one, hrec, H.hcong]

theorem step_take (hQU : Q = U) (hU : U ≠ 0) (h1 : U + 1 < L)
    (hrec : UN f tl tr T (L - 1) (U - 1) = some (equivP (op tl tr) X)) :
    UN (f + 1) (op tl mid) tr (Q :: T) L U = some (equivP (op (op tl mid) tr) (op mid X)) := by
  subst hQU
  have h2 : Q < L := by omega
  simp [ac_move_to_front_unroll, lib_equiv_refl, pyIndex_cons_zero, pyAssert, h1, h2, hU, H.hext, ClauseSup.pyUnpack2,
    pySliceFrom_one, hrec, H.hcong, H.hcomm, assocRev_eq H, lib_equiv_transitivity]

theorem step_back (hQU : Q < U) (hU : U ≠ 0) (h1 : U + 1 < L)
    (hrec : UN f tl (op mid tr) (Q :: T) L (U - 1) = some (equivP (op tl (op mid tr)) X)) :
    UN (f + 1) (op tl mid) tr (Q :: T) L U = some (equivP (op (op tl mid) tr) X) := by
  have h2 : Q < L := by omega
  have h3 : Q ≤ U := by omega
  have h4 : Q ≠ U := by omega
  simp [ac_move_to_front_unroll, pyIndex_cons_zero, pyAssert, h1, h2, h3, h4, hU, H.hext, ClauseSup.pyUnpack2,
    hrec, assocRev_eq H, lib_equiv_transitivity]

theorem step_swap2 (hQ : 0 < Q) (h2 : Q < 2) (hL2 : L = 2) (hU0 : U = 0) :
    UN (f + 1) tl tr (Q :: T) L U = some (equivP (op tl tr) (op tr tl)) := by
  subst hL2 hU0
  have h3 : ¬ Q ≤ 0 := by omega
  simp [ac_move_to_front_unroll, pyIndex_cons_zero, pyAssert, h2, h3, H.hcomm]

theorem step_last (hQU : U < Q) (h2 : Q < L) (hL : L ≠ 2) (hU : U = L - 2)
    (hrec : UN f tl mid T (L - 1) (L - 3) = some (equivP (op tl mid) X)) :
    UN (f + 1) (op tl mid) tr (Q :: T) L U = some (equivP (op (op tl mid) tr) (op tr X)) := by
  subst hU
  have h1 : L - 2 + 1 < L := by omega
  have h3 : ¬ Q ≤ L - 2 := by omega
  simp [ac_move_to_front_unroll, lib_equiv_refl, pyIndex_cons_zero, pyAssert, h1, h2, h3, hL, H.hext, ClauseSup.pyUnpack2,
    pySliceFrom_one, hrec, H.hcong, H.hcomm, lib_equiv_transitivity]

theorem step_fwd (hQU : U < Q) (h2 : Q < L) (h1 : U + 1 < L) (hL : L ≠ 2) (hU : U ≠ L - 2)
    (hrec : UN f (op tl mid) tr (Q :: T) L (U + 1) = some (equivP (op (op tl mid) tr) X)) :
    UN (f + 1) tl (op mid tr) (Q :: T) L U = some (equivP (op tl (op mid tr)) X) := by
  have h3 : ¬ Q ≤ U := by omega
  simp [ac_move_to_front_unroll, pyIndex_cons_zero, pyAssert, h1, h2, h3, hL, hU, H.hext, ClauseSup.pyUnpack2,
    hrec, H.hassoc, lib_equiv_transitivity]

end Steps

theorem getElem?_append_mid {α} (A : List α) (m : α) (B : List α) : (A ++ m :: B)[A.length]? = some m := by
  simp

theorem eraseIdx_append_mid {α} (A : List α) (m : α) (B : List α) : (A ++ m :: B).eraseIdx A.length = A ++ B := by
  induction A with
  | nil => rfl
  | cons a A ih => simp [ih]

theorem mf_mid (qs : List Nat) (A : List Pat) (m : Pat) (B : List Pat) (h : 2 < (A ++ m :: B).length) :
    mf (A.length :: qs) (A ++ m :: B) = m :: mf qs (A ++ B) := by
  have h' : ¬ (A ++ m :: B).length ≤ 2 := by omega
  rw [mf, if_neg h', getElem?_append_mid]
  simp only [eraseIdx_append_mid]

theorem WFQ_cons {q : Nat} {qs : List Nat} {l : Nat} (h : WFQ (q :: qs) l) : q < l ∧ (2 < l → WFQ qs (l - 1)) := h

theorem dist_fwd (q u l : Nat) (h : u < q) (h2 : u + 2 < l) : dist q (u + 1) l + 1 = dist q u l := by
  simp only [dist, Nat.min_def]
  repeat' split
  all_goals omega

theorem dist_back (q u l : Nat) (h : q < u) : dist q (u - 1) l + 1 = dist q u l := by
  simp only [dist, Nat.min_def]
  repeat' split
  all_goals omega

theorem Phi_consume (q : Nat) (qs : List Nat) (l u u' : Nat) (h : u' + 1 < l - 1) :
    Phi qs (l - 1) u' < Phi (q :: qs) l u := by
  have := Phi_le_Psi qs (l - 1) u' h
  show Phi qs (l - 1) u' < dist q u l + 1 + Psi qs (l - 1)
  omega

theorem Phi_fwd (q : Nat) (qs : List Nat) (l u : Nat) (h : u < q) (h2 : u + 2 < l) :
    Phi (q :: qs) l (u + 1) + 1 = Phi (q :: qs) l u := by
  have := dist_fwd q u l h h2
  show dist q (u + 1) l + 1 + Psi qs (l - 1) + 1 = dist q u l + 1 + Psi qs (l - 1)
  omega

theorem Phi_back (q : Nat) (qs : List Nat) (l u : Nat) (h : q < u) :
    Phi (q :: qs) l (u - 1) + 1 = Phi (q :: qs) l u := by
  have := dist_back q u l h
  show dist q (u - 1) l + 1 + Psi qs (l - 1) + 1 = dist q u l + 1 + Psi qs (l - 1)
  omega

section Main
variable {op : Pat → Pat → Pat} {assoc : Pat → Pat → Pat → Option Pat} {comm : Pat → Pat → Option Pat}
  {cong : Pat → Pat → Option Pat} {extract : Pat → Option (List Pat)}

local notation "UN" => ac_move_to_front_unroll algCS assoc comm cong op extract (assocRev assoc)

/-- **`unroll`.**  On every zipper, for every well-formed position list that ends in the sentinel `0`, with fuel above the
potential: no raise, and the conclusion is `term_l . term_r <-> (the operands moved as `mf` says, right-nested)` -/
theorem unroll_C (H : ACOp op assoc comm cong extract) :
    ∀ (fuel : Nat) (lr rs : List Pat) (qs : List Nat), lr ≠ [] → rs ≠ [] →
      WFQ qs (lr.length + rs.length) → (∀ h : qs ≠ [], qs.getLast h = 0) → (qs = [] → lr.length = 1) →
      Phi qs (lr.length + rs.length) (lr.length - 1) < fuel →
      UN fuel (foldlR op lr) (foldrP op rs) (qs.map fun (k : Nat) => (k : Int))
        ((lr.length + rs.length : Nat) : Int) ((lr.length - 1 : Nat) : Int) =
        some (equivP (op (foldlR op lr) (foldrP op rs)) (foldrP op (mf qs (lr.reverse ++ rs)))) := by
  intro fuel
  induction fuel with
  | zero => intro lr rs qs _ _ _ _ _ hf; omega
  | succ f ih =>
    intro lr rs qs hl hr hw hs he hf
    cases qs with
    | nil =>
      have h1 := he rfl
      match lr, h1 with
      | [x0], _ =>
        simp only [List.map_nil, step_nil, mf, List.reverse_cons, List.reverse_nil, List.nil_append, List.singleton_append]
        rw [foldrP_cons op x0 rs hr]; rfl
    | cons q qs' =>
      simp only [List.map_cons]
      obtain ⟨hq, hw'⟩ := WFQ_cons hw
      have hsent : ∀ h : qs' ≠ [], qs'.getLast h = 0 := by
        intro h
        have := hs (by simp)
        rwa [List.getLast_cons h] at this
      have hq0 : qs' = [] → q = 0 := by
        intro h
        subst h
        simpa using hs (by simp)
      cases lr with
      | nil => exact absurd rfl hl
      | cons m lr' =>
        cases rs with
        | nil => exact absurd rfl hr
        | cons n rs' =>
          generalize hL : (((m :: lr').length + (n :: rs').length : Nat) : Int) = L
          generalize hU : (((m :: lr').length - 1 : Nat) : Int) = U
          generalize hQ : ((q : Nat) : Int) = Q
          simp only [List.length_cons] at hL hU hq
          by_cases hlr : lr' = []
          · subst hlr
            simp only [List.length_nil] at hL hU hq
            by_cases hrs : rs' = []
            · subst hrs
              simp only [List.length_nil] at hL hU hq
              by_cases hq0' : q = 0
              · subst hq0'
                rw [step_keep2 f _ _ Q L U _ (by omega) (by omega) (by omega)]
                simp [foldlR, foldrP, mf]
              · rw [step_swap2 H f _ _ Q L U _ (by omega) (by omega) (by omega) (by omega)]
                simp [foldlR, foldrP, mf, hq0']
            · have hr1 : 1 ≤ rs'.length := List.length_pos_iff.mpr hrs
              by_cases hq0' : q = 0
              · subst hq0'
                have hrec := ih [n] rs' qs' (by simp) hrs
                  (by
                    have e : [n].length + rs'.length = ([m].length + (n :: rs').length) - 1 := by simp; omega
                    rw [e]; exact hw' (by simp; omega))
                  hsent (fun _ => rfl)
                  (by
                    have e : [n].length + rs'.length = ([m].length + (n :: rs').length) - 1 := by simp; omega
                    have := Phi_consume 0 qs' ([m].length + (n :: rs').length) ([m].length - 1) ([n].length - 1)
                      (by simp; omega)
                    rw [e]; omega)
                have e1 : ((([n].length + rs'.length : Nat)) : Int) = L - 1 := by
                  simp only [List.length_cons, List.length_nil]; omega
                have e2 : ((([n].length - 1 : Nat)) : Int) = 0 := by simp
                rw [e1, e2] at hrec
                rw [foldrP_cons op n rs' hrs]
                simp only [foldlR] at hrec ⊢
                rw [step_keep H f _ _ _ _ Q L U _ (by omega) (by omega) (by omega) (by omega) hrec]
                have hm := mf_mid qs' [] m (n :: rs') (by simp; omega)
                simp only [List.length_nil, List.nil_append] at hm
                simp only [List.reverse_cons, List.reverse_nil, List.nil_append, List.singleton_append, hm]
                rw [foldrP_cons op m _ (mf_ne_nil _ _ (by simp))]
              · have eL : [n, m].length + rs'.length = [m].length + (n :: rs').length := by simp; omega
                have hrec := ih [n, m] rs' (q :: qs') (by simp) hrs (by rw [eL]; exact hw) hs (by simp)
                  (by
                    have e2 : [n, m].length - 1 = ([m].length - 1) + 1 := by simp
                    have := Phi_fwd q qs' ([m].length + (n :: rs').length) ([m].length - 1) (by simp; omega) (by simp; omega)
                    rw [eL, e2]; omega)
                have e1 : ((([n, m].length + rs'.length : Nat)) : Int) = L := by
                  simp only [List.length_cons, List.length_nil]; omega
                have e2 : ((([n, m].length - 1 : Nat)) : Int) = U + 1 := by
                  simp only [List.length_cons, List.length_nil]; omega
                rw [e1, e2] at hrec
                simp only [List.map_cons, hQ] at hrec
                rw [foldrP_cons op n rs' hrs]
                simp only [foldlR] at hrec ⊢
                rw [step_fwd H f _ _ _ _ Q L U _ (by omega) (by omega) (by omega) (by omega) (by omega) hrec]
                simp
          · have hl1 : 1 ≤ lr'.length := List.length_pos_iff.mpr hlr
            by_cases c1 : q = lr'.length
            · -- the operand at the position is the last one of the left part: it goes to the front
              have eL : lr'.length + (n :: rs').length = ((m :: lr').length + (n :: rs').length) - 1 := by simp; omega
              have hrec := ih lr' (n :: rs') qs' hlr (by simp) (by rw [eL]; exact hw' (by simp; omega)) hsent
                (by intro h; have := hq0 h; omega)
                (by
                  have := Phi_consume q qs' ((m :: lr').length + (n :: rs').length) ((m :: lr').length - 1) (lr'.length - 1)
                    (by simp; omega)
                  rw [eL]; omega)
              have e1 : (((lr'.length + (n :: rs').length : Nat)) : Int) = L - 1 := by
                simp only [List.length_cons]; omega
              have e2 : (((lr'.length - 1 : Nat)) : Int) = U - 1 := by omega
              rw [e1, e2] at hrec
              rw [foldlR_cons op m lr' hlr]
              rw [step_take H f _ _ _ _ Q L U _ (by omega) (by omega) (by omega) hrec]
              have hm := mf_mid qs' lr'.reverse m (n :: rs') (by simp; omega)
              simp only [List.length_reverse] at hm
              simp only [List.reverse_cons, List.append_assoc, List.singleton_append, c1, hm]
              rw [foldrP_cons op m _ (mf_ne_nil _ _ (by simp))]
            · by_cases c2 : q < lr'.length
              · -- the position is further left: one step back
                have eL : lr'.length + (m :: n :: rs').length = (m :: lr').length + (n :: rs').length := by simp; omega
                have hrec := ih lr' (m :: n :: rs') (q :: qs') hlr (by simp) (by rw [eL]; exact hw) hs (by simp)
                  (by
                    have e2 : lr'.length - 1 = ((m :: lr').length - 1) - 1 := by simp
                    have := Phi_back q qs' ((m :: lr').length + (n :: rs').length) ((m :: lr').length - 1) (by simp; omega)
                    rw [eL, e2]; omega)
                have e1 : (((lr'.length + (m :: n :: rs').length : Nat)) : Int) = L := by
                  simp only [List.length_cons]; omega
                have e2 : (((lr'.length - 1 : Nat)) : Int) = U - 1 := by omega
                rw [e1, e2] at hrec
                simp only [List.map_cons, hQ] at hrec
                rw [foldlR_cons op m lr' hlr]
                rw [foldrP_cons op m (n :: rs') (by simp)] at hrec
                rw [step_back H f _ _ _ _ Q L U _ (by omega) (by omega) (by omega) hrec]
                simp
              · by_cases hrs : rs' = []
                · -- the position is the last operand: swap it to the front
                  subst hrs
                  simp only [List.length_nil] at hL hq
                  have eL : lr'.length + [m].length = ((m :: lr').length + [n].length) - 1 := by simp
                  have hrec := ih lr' [m] qs' hlr (by simp) (by rw [eL]; exact hw' (by simp; omega)) hsent
                    (by intro h; have := hq0 h; omega)
                    (by
                      have := Phi_consume q qs' ((m :: lr').length + [n].length) ((m :: lr').length - 1) (lr'.length - 1)
                        (by simp; omega)
                      rw [eL]; omega)
                  have e1 : (((lr'.length + [m].length : Nat)) : Int) = L - 1 := by
                    simp only [List.length_cons, List.length_nil]; omega
                  have e2 : (((lr'.length - 1 : Nat)) : Int) = L - 3 := by omega
                  rw [e1, e2] at hrec
                  rw [foldlR_cons op m lr' hlr]
                  simp only [foldrP] at hrec ⊢
                  rw [step_last H f _ _ _ _ Q L U _ (by omega) (by omega) (by omega) (by omega) hrec]
                  have hqe : q = (m :: lr').reverse.length := by simp; omega
                  have hm := mf_mid qs' (m :: lr').reverse n [] (by simp; omega)
                  rw [← hqe] at hm
                  simp only [List.append_nil] at hm
                  rw [hm, foldrP_cons op n _ (mf_ne_nil _ _ (by simp))]
                  simp
                · -- the position is further right: one step forward
                  have hr1 : 1 ≤ rs'.length := List.length_pos_iff.mpr hrs
                  have eL : (n :: m :: lr').length + rs'.length = (m :: lr').length + (n :: rs').length := by simp; omega
                  have hrec := ih (n :: m :: lr') rs' (q :: qs') (by simp) hrs (by rw [eL]; exact hw) hs (by simp)
                    (by
                      have e2 : (n :: m :: lr').length - 1 = ((m :: lr').length - 1) + 1 := by simp
                      have := Phi_fwd q qs' ((m :: lr').length + (n :: rs').length) ((m :: lr').length - 1)
                        (by simp; omega) (by simp; omega)
                      rw [eL, e2]; omega)
                  have e1 : ((((n :: m :: lr').length + rs'.length : Nat)) : Int) = L := by
                    simp only [List.length_cons]; omega
                  have e2 : ((((n :: m :: lr').length - 1 : Nat)) : Int) = U + 1 := by
                    simp only [List.length_cons]; omega
                  rw [e1, e2] at hrec
                  simp only [List.map_cons, hQ] at hrec
                  rw [foldrP_cons op n rs' hrs]
                  rw [foldlR_cons op n (m :: lr') (by simp)] at hrec
                  rw [step_fwd H f _ _ _ _ Q L U _ (by omega) (by omega) (by omega) (by omega) (by omega) hrec]
                  simp

end Main

/-! ## the position bookkeeping of `ac_move_to_front`: `sorted`, `sorted_pos[i] -= i`, the sentinel -/

theorem pyInsert_le (x : Int) : ∀ (l : List Int), (∀ y ∈ l, x ≤ y) → ClauseSup.pyInsert x l = x :: l := by
  intro l h
  cases l with
  | nil => rfl
  | cons y r => simp [ClauseSup.pyInsert, h y List.mem_cons_self]

/-- `sorted` of an ascending list -/
theorem pySorted_sorted : ∀ (l : List Int), l.Pairwise (· ≤ ·) → ClauseSup.pySorted l = l := by
  intro l
  induction l with
  | nil => intro _; rfl
  | cons x l ih =>
    intro h
    rw [List.pairwise_cons] at h
    rw [ClauseSup.pySorted, ih h.2, pyInsert_le x l h.1]

/-- `sorted_pos[i] = sorted_pos[i] - i` for `i = k, k + 1, ..` -/
def adjOff : Nat → List Nat → List Nat
  | _, [] => []
  | k, p :: ps => (p - k) :: adjOff (k + 1) ps

theorem adjOff_length : ∀ (ps : List Nat) (k : Nat), (adjOff k ps).length = ps.length := by
  intro ps
  induction ps with
  | nil => intro k; rfl
  | cons p ps ih => intro k; simp [adjOff, ih]

theorem pyListSet_mid {α} (pre : List α) (x y : α) (suf : List α) :
    ClauseSup.pyListSet (pre ++ x :: suf) (pre.length : Int) y = some (pre ++ y :: suf) := by
  simp [ClauseSup.pyListSet]

theorem pyIndex_mid {α} (pre : List α) (x : α) (suf : List α) : pyIndex (pre ++ x :: suf) (pre.length : Int) = some x := by
  simp [pyIndex]

theorem ac_for1_C {τ} (A : SAlg τ) : ∀ (ps : List Nat) (k : Nat) (pre : List Int), pre.length = k → (∀ p ∈ ps, k ≤ p) →
    ps.Pairwise (· < ·) →
    ac_move_to_front_for1 A ((List.range' k ps.length).map fun (i : Nat) => (i : Int)) (pre ++ ps.map fun (p : Nat) => (p : Int)) =
      some (pre ++ (adjOff k ps).map fun (p : Nat) => (p : Int)) := by
  intro ps
  induction ps with
  | nil => intro k pre _ _ _; rfl
  | cons p ps ih =>
    intro k pre hk hge hs
    rw [List.pairwise_cons] at hs
    have hp : k ≤ p := hge p List.mem_cons_self
    have e : ((p : Int) - (k : Int)) = ((p - k : Nat) : Int) := by omega
    have hrec := ih (k + 1) (pre ++ [((p - k : Nat) : Int)]) (by simp [hk])
      (fun p' hp' => by have := hs.1 p' hp'; omega) hs.2
    simp only [List.append_assoc, List.singleton_append] at hrec
    simp only [List.length_cons, List.range'_succ, List.map_cons, ac_move_to_front_for1, Option.pure_def,
      Option.bind_eq_bind, ← hk, pyIndex_mid, pyListSet_mid, Option.bind_some, adjOff]
    rw [hk, e, hrec]

theorem WFQ_adj : ∀ (ps : List Nat) (k l : Nat), ps.Pairwise (· < ·) → (∀ p ∈ ps, k ≤ p ∧ p < k + l) → 0 < l →
    WFQ (adjOff k ps ++ [0]) l := by
  intro ps
  induction ps with
  | nil => intro k l _ _ hl; exact ⟨hl, fun _ => trivial⟩
  | cons p ps ih =>
    intro k l hs hr hl
    rw [List.pairwise_cons] at hs
    have hp := hr p List.mem_cons_self
    refine ⟨by omega, fun h2 => ?_⟩
    apply ih (k + 1) (l - 1) hs.2 _ (by omega)
    intro p' hp'
    have h1 := hs.1 p' hp'
    have h2' := hr p' (List.mem_cons_of_mem _ hp')
    omega

theorem Psi_le : ∀ (qs : List Nat) (l : Nat), Psi qs l ≤ qs.length * l := by
  intro qs
  induction qs with
  | nil => intro l; simp [Psi]
  | cons q qs ih =>
    intro l
    have h1 := ih (l - 1)
    have h2 : qs.length * (l - 1) ≤ qs.length * l := Nat.mul_le_mul_left _ (Nat.sub_le _ _)
    simp only [Psi, List.length_cons, Nat.succ_mul]
    omega

section Move
variable {op : Pat → Pat → Pat} {assoc : Pat → Pat → Pat → Option Pat} {comm : Pat → Pat → Option Pat}
  {cong : Pat → Pat → Option Pat} {extract : Pat → Option (List Pat)}

/-- **`ac_move_to_front`.**  For an ascending list `ps` of positions of `terms`: the proof concludes
`foldr_op(op, terms) <-> foldr_op(op, moved)` where `moved` has the operands at `ps` in front (`mf` on the positions made
relative by `sorted_pos[i] -= i`, with the sentinel `0`) -/
theorem ac_move_to_front_C (H : ACOp op assoc comm cong extract) (ps : List Nat) (xs : List Pat) (fuel : Nat)
    (hs : ps.Pairwise (· < ·)) (hr : ∀ p ∈ ps, p < xs.length) (hx : xs ≠ [])
    (hf : (ps.length + 1) * xs.length < fuel) :
    ac_move_to_front algCS fuel (ps.map fun (p : Nat) => (p : Int)) xs assoc comm cong op extract =
      some (equivP (foldrP op xs) (foldrP op (mf (adjOff 0 ps ++ [0]) xs))) := by
  have hsI : (ps.map fun (p : Nat) => (p : Int)).Pairwise (· ≤ ·) := by
    rw [List.pairwise_map]
    exact hs.imp (fun h => by omega)
  have hfor := ac_for1_C algCS ps 0 [] rfl (fun _ _ => Nat.zero_le _) hs
  simp only [List.nil_append] at hfor
  have hrange : pyRange (pyLen (ps.map fun (p : Nat) => (p : Int))) = (List.range' 0 ps.length).map fun (i : Nat) => (i : Int) := by
    simp [pyRange, pyLen, List.range_eq_range']
  cases xs with
  | nil => exact absurd rfl hx
  | cons x0 r =>
    by_cases hr0 : r = []
    · subst hr0
      have : mf (adjOff 0 ps ++ [0]) [x0] = [x0] := by
        cases h : adjOff 0 ps ++ [0] with
        | nil => rfl
        | cons q qs => simp [mf]
      simp [ac_move_to_front, pyLen, pyIndex, lib_equiv_refl, this, foldrP]
    · have hlen : ¬ (pyLen (x0 :: r) == (1 : Int)) = true := by
        have : 1 ≤ r.length := List.length_pos_iff.mpr hr0
        simp [pyLen]; omega
      have hr1 : 1 ≤ r.length := List.length_pos_iff.mpr hr0
      have hlx : (x0 :: r).length = r.length + 1 := rfl
      have hfo := foldr_op_default algCS op (x0 :: r) 1 fuel (by rw [hlx]; omega)
        (by
          have : (x0 :: r).length ≤ (ps.length + 1) * (x0 :: r).length := Nat.le_mul_of_pos_left _ (by omega)
          omega)
      simp only [List.drop_succ_cons, List.drop_zero] at hfo
      rw [show (((1 : Nat)) : Int) = 1 from rfl] at hfo
      have e : [x0].length + r.length = r.length + 1 := by simp; omega
      have e0 : [x0].length - 1 = 0 := rfl
      have hun := unroll_C H fuel [x0] r (adjOff 0 ps ++ [0]) (by simp) hr0
        (by
          rw [e]
          exact WFQ_adj ps 0 (r.length + 1) hs (fun p hp => ⟨Nat.zero_le _, by have := hr p hp; rw [hlx] at this; omega⟩)
            (by omega))
        (by intro h; simp)
        (by intro h; simp at h)
        (by
          rw [e, e0]
          have h1 := Phi_le_Psi (adjOff 0 ps ++ [0]) (r.length + 1) 0 (by omega)
          have h2 := Psi_le (adjOff 0 ps ++ [0]) (r.length + 1)
          have h3 : (adjOff 0 ps ++ [0]).length = ps.length + 1 := by simp [adjOff_length]
          rw [h3] at h2
          rw [hlx] at hf
          omega)
      have e1 : ((([x0].length + r.length : Nat)) : Int) = pyLen (x0 :: r) := by simp [pyLen]; omega
      have e2 : ((([x0].length - 1 : Nat)) : Int) = 0 := by simp
      rw [e1, e2] at hun
      simp only [foldlR, List.map_append, List.map_cons, List.map_nil, List.reverse_cons, List.reverse_nil, List.nil_append,
        List.singleton_append] at hun
      have hcast : (((0 : Nat)) : Int) = 0 := rfl
      rw [hcast] at hun
      have har : (fun (a : Pat) (b : Pat) (c : Pat) => (assoc a b c).bind fun t1_ => lib algCS ix_equiv_sym [] [t1_]) =
          assocRev assoc := by
        funext a b c
        simp [assocRev]
      simp only [ac_move_to_front, hlen, Bool.false_eq_true, if_false, pySorted_sorted _ hsI, hrange, hfor, pyIndex_cons_zero,
        hfo, Option.pure_def, Option.bind_eq_bind, Option.bind_some, har, hun]
      rw [foldrP_cons op x0 r hr0]

end Move

/-! ## what `mf` does for an ascending list of positions: the selected operands first, in order, then the others -/

/-- the positions (from `k` on) at which a mask is set -/
def idxs : Nat → List Bool → List Nat
  | _, [] => []
  | k, b :: bs => if b then k :: idxs (k + 1) bs else idxs (k + 1) bs

/-- the elements at which a mask is set -/
def sel {α : Type} : List Bool → List α → List α
  | b :: bs, x :: xs => if b then x :: sel bs xs else sel bs xs
  | _, _ => []

theorem idxs_bounds : ∀ (bs : List Bool) (k : Nat), ∀ p ∈ idxs k bs, k ≤ p ∧ p < k + bs.length := by
  intro bs
  induction bs with
  | nil => intro k p hp; simp [idxs] at hp
  | cons b bs ih =>
    intro k p hp
    simp only [idxs] at hp
    split at hp
    · simp only [List.mem_cons] at hp
      rcases hp with rfl | hp
      · simp
      · have := ih (k + 1) p hp; simp; omega
    · have := ih (k + 1) p hp; simp; omega

theorem idxs_sorted : ∀ (bs : List Bool) (k : Nat), (idxs k bs).Pairwise (· < ·) := by
  intro bs
  induction bs with
  | nil => intro k; simp [idxs]
  | cons b bs ih =>
    intro k
    simp only [idxs]
    split
    · rw [List.pairwise_cons]
      exact ⟨fun p hp => by have := idxs_bounds bs (k + 1) p hp; omega, ih (k + 1)⟩
    · exact ih (k + 1)

theorem idxs_replicate_false (bs : List Bool) : ∀ (p k : Nat), idxs k (List.replicate p false ++ bs) = idxs (k + p) bs := by
  intro p
  induction p with
  | zero => intro k; rfl
  | succ p ih =>
    intro k
    simp only [List.replicate_succ, List.cons_append, idxs, Bool.false_eq_true, if_false, ih]
    congr 1; omega

theorem idxs_pred : ∀ (bs : List Bool) (k : Nat), (idxs (k + 1) bs).map (· - 1) = idxs k bs := by
  intro bs
  induction bs with
  | nil => intro k; rfl
  | cons b bs ih =>
    intro k
    simp only [idxs]
    split
    · simp [ih]
    · exact ih (k + 1)

theorem adjOff_succ : ∀ (I : List Nat) (k : Nat), adjOff (k + 1) I = adjOff k (I.map (· - 1)) := by
  intro I
  induction I with
  | nil => intro k; rfl
  | cons i I ih =>
    intro k
    simp only [adjOff, List.map_cons, ih]
    congr 1; omega

theorem first_true : ∀ (bs : List Bool) (k : Nat), idxs k bs ≠ [] →
    ∃ p bs', bs = List.replicate p false ++ true :: bs' := by
  intro bs
  induction bs with
  | nil => intro k h; exact absurd rfl h
  | cons b bs ih =>
    intro k h
    cases b with
    | true => exact ⟨0, bs, rfl⟩
    | false =>
      simp only [idxs, Bool.false_eq_true, if_false] at h
      obtain ⟨p, bs', e⟩ := ih (k + 1) h
      exact ⟨p + 1, bs', by rw [e]; rfl⟩

theorem sel_replicate_false {α : Type} (bs : List Bool) (B : List α) : ∀ (A : List α),
    sel (List.replicate A.length false ++ bs) (A ++ B) = sel bs B := by
  intro A
  induction A with
  | nil => rfl
  | cons a A ih => simp [List.replicate_succ, sel, ih]

theorem sel_replicate_true {α : Type} (bs : List Bool) (B : List α) : ∀ (A : List α),
    sel (List.replicate A.length true ++ bs) (A ++ B) = A ++ sel bs B := by
  intro A
  induction A with
  | nil => rfl
  | cons a A ih => simp [List.replicate_succ, sel, ih]

theorem sel_all_false {α : Type} : ∀ (bs : List Bool) (k : Nat) (xs : List α), idxs k bs = [] → bs.length = xs.length →
    sel bs xs = [] ∧ sel (bs.map not) xs = xs := by
  intro bs
  induction bs with
  | nil => intro k xs _ hl; cases xs with | nil => exact ⟨rfl, rfl⟩ | cons _ _ => simp at hl
  | cons b bs ih =>
    intro k xs h hl
    cases xs with
    | nil => simp at hl
    | cons x xs =>
      cases b with
      | true => simp [idxs] at h
      | false =>
        simp only [idxs, Bool.false_eq_true, if_false] at h
        obtain ⟨h1, h2⟩ := ih (k + 1) xs h (by simpa using hl)
        simp [sel, h1, h2]

theorem mf_sentinel (xs : List Pat) (h : xs ≠ []) : mf [0] xs = xs := by
  cases xs with
  | nil => exact absurd rfl h
  | cons x r =>
    unfold mf
    split
    · rfl
    · simp [mf]

/-- for the positions of a mask, made relative, with the sentinel: the selected operands, then the others -/
theorem mf_mask : ∀ (n : Nat) (bs : List Bool) (xs : List Pat), (idxs 0 bs).length = n → bs.length = xs.length → xs ≠ [] →
    mf (adjOff 0 (idxs 0 bs) ++ [0]) xs = sel bs xs ++ sel (bs.map not) xs := by
  intro n
  induction n with
  | zero =>
    intro bs xs hn hl hx
    have h0 : idxs 0 bs = [] := List.length_eq_zero_iff.mp hn
    obtain ⟨h1, h2⟩ := sel_all_false bs 0 xs h0 hl
    rw [h0, h1, h2]
    exact mf_sentinel xs hx
  | succ n ih =>
    intro bs xs hn hl hx
    obtain ⟨p, bs', rfl⟩ := first_true bs 0 (by intro h; rw [h] at hn; simp at hn)
    have hl' : xs.length = p + (bs'.length + 1) := by simpa using hl.symm
    obtain ⟨A, x, B, rfl, hA, hB⟩ : ∃ A x B, xs = A ++ x :: B ∧ A.length = p ∧ B.length = bs'.length := by
      have hp : p < xs.length := by omega
      refine ⟨xs.take p, xs[p], xs.drop (p + 1), ?_, by simp; omega, by simp; omega⟩
      rw [← List.drop_eq_getElem_cons hp, List.take_append_drop]
    subst hA
    have hI : idxs 0 (List.replicate A.length false ++ true :: bs') = A.length :: idxs (A.length + 1) bs' := by
      rw [idxs_replicate_false]; simp [idxs]
    have hsel1 : sel (List.replicate A.length false ++ true :: bs') (A ++ x :: B) = x :: sel bs' B := by
      rw [sel_replicate_false]; simp [sel]
    have hsel2 : sel ((List.replicate A.length false ++ true :: bs').map not) (A ++ x :: B) = A ++ sel (bs'.map not) B := by
      simp only [List.map_append, List.map_replicate, List.map_cons, Bool.not_false, Bool.not_true]
      rw [sel_replicate_true]; simp [sel]
    rw [hI, hsel1, hsel2]
    simp only [adjOff, Nat.sub_zero, List.cons_append]
    by_cases h2 : (A ++ x :: B).length ≤ 2
    · -- at most two operands: the run stops here
      match A, B, bs', hB, h2 with
      | [], [], [], _, _ => simp [mf, sel]
      | [], [y], [b], _, _ => cases b <;> simp [mf, sel]
      | [a], [], [], _, _ => simp [mf, sel]
      | [], _ :: _ :: _, _, _, h2 => simp at h2
      | [_], _ :: _, _, _, h2 => simp at h2
      | _ :: _ :: _, _, _, _, h2 => simp at h2
    · have hm := mf_mid (adjOff 1 (idxs (A.length + 1) bs') ++ [0]) A x B (by omega)
      rw [hm]
      have hbs2 : idxs 0 (List.replicate A.length false ++ bs') = (idxs (A.length + 1) bs').map (· - 1) := by
        rw [idxs_replicate_false, idxs_pred]; simp
      have hrec := ih (List.replicate A.length false ++ bs') (A ++ B)
        (by rw [hbs2, List.length_map]; rw [hI] at hn; simpa using hn)
        (by simp [hB])
        (by
          intro h
          have h3 : (A ++ x :: B).length = (A ++ B).length + 1 := by simp; omega
          rw [h] at h3
          simp only [List.length_nil] at h3
          omega)
      rw [hbs2, ← adjOff_succ] at hrec
      rw [hrec, sel_replicate_false]
      simp only [List.map_append, List.map_replicate, Bool.not_false]
      rw [sel_replicate_true]

theorem idxs_length_le : ∀ (bs : List Bool) (k : Nat), (idxs k bs).length ≤ bs.length := by
  intro bs
  induction bs with
  | nil => intro k; simp [idxs]
  | cons b bs ih =>
    intro k
    have := ih (k + 1)
    simp only [idxs]
    split <;> simp <;> omega

/-! ## `or_move_to_front`, `and_move_to_front` -/

theorem acOp_or : ACOp orP (fun x1_ x2_ x3_ => lib algCS ix_or_assoc [x1_, x2_, x3_] [])
    (fun x1_ x2_ => lib algCS ix_or_comm [x1_, x2_] []) (fun x1_ x2_ => lib algCS ix_or_cong [] [x1_, x2_])
    (Lem.matchNotn .or) :=
  ⟨lib_or_assoc, lib_or_comm, lib_or_cong, matchNotn_or⟩

theorem acOp_and : ACOp andP (fun x1_ x2_ x3_ => lib algCS ix_and_assoc [x1_, x2_, x3_] [])
    (fun x1_ x2_ => lib algCS ix_and_comm [x1_, x2_] []) (fun x1_ x2_ => lib algCS ix_and_cong [] [x1_, x2_])
    (Lem.matchNotn .and) :=
  ⟨lib_and_assoc, lib_and_comm, lib_and_cong, matchNotn_and⟩

/-- the fuel that suffices for moving operands of a list of `n` operands -/
def moveFuel (n : Nat) : Nat := (n + 1) * n + 1

theorem move_fuel_ok (bs : List Bool) (xs : List Pat) (fuel : Nat) (hl : bs.length = xs.length)
    (hf : moveFuel xs.length ≤ fuel) : ((idxs 0 bs).length + 1) * xs.length < fuel := by
  have h1 := idxs_length_le bs 0
  have h2 : ((idxs 0 bs).length + 1) * xs.length ≤ (xs.length + 1) * xs.length :=
    Nat.mul_le_mul_right _ (by omega)
  unfold moveFuel at hf
  omega

/-- **`or_move_to_front(pos, terms)`** for the ascending positions `pos` of a mask over `terms`: the proof concludes
`t0 \/ (t1 \/ ..) <-> (the selected operands, in order) \/ (the others, in order)` -/
theorem or_move_to_front_C (bs : List Bool) (xs : List Pat) (fuel : Nat) (hl : bs.length = xs.length) (hx : xs ≠ [])
    (hf : moveFuel xs.length ≤ fuel) :
    or_move_to_front algCS fuel ((idxs 0 bs).map fun (p : Nat) => (p : Int)) xs =
      some (equivP (foldrP orP xs) (foldrP orP (sel bs xs ++ sel (bs.map not) xs))) := by
  have := ac_move_to_front_C acOp_or (idxs 0 bs) xs fuel (idxs_sorted bs 0)
    (fun p hp => by have := idxs_bounds bs 0 p hp; omega) hx (move_fuel_ok bs xs fuel hl hf)
  rw [mf_mask _ bs xs rfl hl hx] at this
  simp only [or_move_to_front, this, Option.pure_def, Option.bind_eq_bind, Option.bind_some]

/-- **`and_move_to_front(pos, terms)`**, likewise for conjunctions -/
theorem and_move_to_front_C (bs : List Bool) (xs : List Pat) (fuel : Nat) (hl : bs.length = xs.length) (hx : xs ≠ [])
    (hf : moveFuel xs.length ≤ fuel) :
    and_move_to_front algCS fuel ((idxs 0 bs).map fun (p : Nat) => (p : Int)) xs =
      some (equivP (foldrP andP xs) (foldrP andP (sel bs xs ++ sel (bs.map not) xs))) := by
  have := ac_move_to_front_C acOp_and (idxs 0 bs) xs fuel (idxs_sorted bs 0)
    (fun p hp => by have := idxs_bounds bs 0 p hp; omega) hx (move_fuel_ok bs xs fuel hl hf)
  rw [mf_mask _ bs xs rfl hl hx] at this
  simp only [and_move_to_front, this, Option.pure_def, Option.bind_eq_bind, Option.bind_some]

end ClauseThm
