import Pi2.KDefTieM9
/-!
# `get_proof_hints` on ANY store that answers `get_axiom` / the cached scopes like a list of rules (`HintInv`) — in particular the finished
several-module store — is `KDefSpec.traceStepsR`

`get_proof_hints` reads the store only through `semView` (signature, cached scopes), `get_axiom` and writes only the cache (`semBack`);
`get_axiom` does not read the cache (`ls_get_axiom_cache`).
-/
set_option linter.unusedVariables false
set_option linter.unusedSimpArgs false
namespace KDefTieM2
open PyI PyM PyK Kore Gen.PyKDef KDefSpec KDefTie KDefTieM

theorem modules_cache (h : PyLS) (c : KDict PyScope) :
    ∀ n self, KModule.modules n { h with _cached_axiom_scopes := c } self = KModule.modules n h self := by
  intro n
  induction n with
  | zero => intro self; rfl
  | succ n ih => intro self; unfold KModule.modules; simp only [ih]; rfl

theorem kget_axiom_cache (h : PyLS) (c : KDict PyScope) (o : Nat) :
    ∀ n self, KModule.get_axiom n { h with _cached_axiom_scopes := c } self o = KModule.get_axiom n h self o := by
  intro n
  induction n with
  | zero => intro self; rfl
  | succ n ih => intro self; unfold KModule.get_axiom; simp only [ih, modules_cache]; rfl

theorem ls_get_axiom_cache (h : PyLS) (c : KDict PyScope) (n o : Nat) :
    LanguageSemantics.get_axiom n { h with _cached_axiom_scopes := c } o = LanguageSemantics.get_axiom n h o := by
  unfold LanguageSemantics.get_axiom LanguageSemantics.main_module
  simp only [kget_axiom_cache]

theorem find_setScope_ne (rules : List Rule) (o o' : Nat) (sc : Scope) (hne : o' ≠ o) :
    (setScope rules o sc).find? (·.ordinal == o') = rules.find? (·.ordinal == o') := by
  induction rules with
  | nil => rfl
  | cons r rs ih =>
    by_cases h : (r.ordinal == o) = true
    · have h' : (r.ordinal == o') = false := by
        have : r.ordinal = o := by simpa using h
        simpa [this] using fun e : o = o' => hne e.symm
      simp [setScope, h, List.find?_cons, h']
    · simp only [setScope, h, Bool.false_eq_true, if_false, List.find?_cons, ih]

theorem find_setScope_eq (rules : List Rule) (o : Nat) (sc : Scope) :
    (setScope rules o sc).find? (·.ordinal == o) = (rules.find? (·.ordinal == o)).map fun ru => { ru with scope := sc } := by
  induction rules with
  | nil => rfl
  | cons r rs ih =>
    by_cases h : (r.ordinal == o) = true
    · simp [setScope, h, List.find?_cons]
    · simp only [setScope, h, Bool.false_eq_true, if_false, List.find?_cons, ih]

/-- the store answers `get_axiom` and holds the cached scopes of the rules `rules`; its signature is `sg` -/
structure HintInv (n : Nat) (sg : Sig) (h : PyLS) (rules : List Rule) : Prop where
  sig : sigView h = sg
  ax : ∀ o, LanguageSemantics.get_axiom n h o = some ((rules.find? (·.ordinal == o)).map axiomOf)
  cache : ∀ o ru, rules.find? (·.ordinal == o) = some ru → h._cached_axiom_scopes.lookup o = some (scopeObj ru.scope)

theorem hintInv_step {n sg h rules} (hi : HintInv n sg h rules) (o : Nat) (sc : Scope) :
    HintInv n sg { h with _cached_axiom_scopes := kSet h._cached_axiom_scopes o (scopeObj sc) } (setScope rules o sc) where
  sig := hi.sig
  ax := by
    intro o'
    rw [ls_get_axiom_cache, hi.ax]
    by_cases he : o' = o
    · subst he
      rw [find_setScope_eq]
      cases rules.find? (·.ordinal == o') with
      | none => rfl
      | some ru => simp [axiomOf_setScope]
    · rw [find_setScope_ne _ _ _ _ he]
  cache := by
    intro o' ru hf
    by_cases he : o' = o
    · subst he
      rw [find_setScope_eq] at hf
      show (kSet _ _ _).lookup _ = _
      rw [KoreTie.lookup_kSet]
      cases hr : rules.find? (·.ordinal == o') with
      | none => simp [hr] at hf
      | some r0 => simp [hr] at hf; subst hf; rfl
    · rw [find_setScope_ne _ _ _ _ he] at hf
      show (kSet _ _ _).lookup _ = _
      rw [lookup_kSet_ne _ _ _ _ he]
      exact hi.cache o' ru hf

/-! ## the loop of `get_proof_hints` -/

/-- the body of the loop of the generated `get_proof_hints` (verbatim; `get_proof_hints_unfold`: by `rfl`) -/
def hintBody (n : Nat) : PyTraceItem × PyTraceItem → NPat × NPat × PyLS × List PyHint →
    (NPat × NPat × PyLS × List PyHint → Py (PyLS × List PyHint)) → Py (PyLS × List PyHint) :=
  fun (v_e1, v_e2) (v_pre_config, v_post_config, h, yield_) continue_ =>
    match v_e1 with
    | .rule b_rule_ordinal b_substitution => (
      match v_e2 with
      | .config b_e2 => (
        let v_pre_config : NPat := v_post_config
        call (Gen.PyKore.LanguageSemantics.convert_pattern (semView h) b_e2) fun t2 =>
        let v_post_config : NPat := t2
        call (LanguageSemantics.get_axiom n h b_rule_ordinal) fun t3 =>
        let v_axiom : PyAxiom := t3
        call (Gen.PyKore.LanguageSemantics.convert_substitutions (semView h) (kDictOf b_substitution) b_rule_ordinal) fun (t5, t4) =>
        let h : PyLS := semBack h t5
        let v_substitutions : Dict := t4
        let v_hint : PyHint := (PyHint.mk v_pre_config v_post_config v_axiom v_substitutions)
        let yield_ : List PyHint := yield_ ++ [v_hint]
        continue_ (v_pre_config, v_post_config, h, yield_))
      | _ =>
      continue_ (v_pre_config, v_post_config, h, yield_))
    | _ =>
    continue_ (v_pre_config, v_post_config, h, yield_)

theorem get_proof_hints_unfold (n : Nat) (h : PyLS) (tr : PyLLVMTrace) :
    get_proof_hints n h tr
      = call (Gen.PyKore.LanguageSemantics.convert_pattern (semView h) tr.initial_config) fun t1 =>
        if (decide (tr.trace.length > 0)) then
          forEach (List.zip tr.trace (tr.trace.drop 1)) (t1, t1, h, []) (hintBody n) fun (_, _, h, yield_) => ret (h, yield_)
        else ret (h, []) := rfl

theorem hints_loopM (n : Nat) (sg : Sig) :
    ∀ (pairs : List (PyTraceItem × PyTraceItem)) (pre post : NPat) (h : PyLS) (rules : List Rule) (ys : List PyHint),
      HintInv n sg h rules →
      match stepsF sg rules post (pairs.filterMap pairOf) with
      | none => forEach pairs (pre, post, h, ys) (hintBody n) (fun (_, _, h, yield_) => ret (h, yield_)) = some none
      | some (rules', steps) => ∃ h', HintInv n sg h' rules' ∧
          forEach pairs (pre, post, h, ys) (hintBody n) (fun (_, _, h, yield_) => ret (h, yield_)) = ret (h', ys ++ steps.map hintOf) := by
  intro pairs
  induction pairs with
  | nil => intro pre post h rules ys hi; exact ⟨h, hi, by simp [forEach]⟩
  | cons e l ih =>
    intro pre post h rules ys hi
    obtain ⟨e1, e2⟩ := e
    cases e1 with
    | otherEvent => simp only [pairOf, List.filterMap_cons]; exact ih pre post h rules ys hi
    | config c0 => simp only [pairOf, List.filterMap_cons]; exact ih pre post h rules ys hi
    | rule o σ =>
      cases e2 with
      | otherEvent => simp only [pairOf, List.filterMap_cons]; exact ih pre post h rules ys hi
      | rule o' σ' => simp only [pairOf, List.filterMap_cons]; exact ih pre post h rules ys hi
      | config c =>
        simp only [pairOf, List.filterMap_cons, stepsF, Option.bind_eq_bind, forEach, hintBody, KoreTie.convert_pattern_eq, semView, hi.sig]
        cases convertPattern sg c with
        | none => rfl
        | some post' =>
          simp only [Option.bind_some, call_some, hi.ax]
          cases hf : rules.find? (·.ordinal == o) with
          | none => rfl
          | some ru =>
            simp only [Option.bind_some, Option.map_some, call_some]
            have hc : (semView h)._cached_axiom_scopes.lookup o = some (KoreTie.withScope Gen.PyKore.ConvertionScope.__init__ ru.scope) :=
              hi.cache o ru hf
            have hcs := KoreTie.convert_substitutions_eq (semView h) _ ru.scope (kDictOf σ) o hc
            simp only [semView, hi.sig] at hcs
            rw [hcs]
            cases hx : convertSubst sg ru.scope (kDictOf σ) [] with
            | none => rfl
            | some x =>
              simp only [Option.bind_some, KoreTie.call_ret_val]
              have hi' := hintInv_step hi o x.1
              have := ih post post' _ (setScope rules o x.1) (ys ++ [hintOf { before := post, after := post', rule := ru, subst := x.2 }]) hi'
              cases hs : stepsF sg (setScope rules o x.1) post' (l.filterMap pairOf) with
              | none => rw [hs] at this; exact this
              | some y =>
                rw [hs] at this
                obtain ⟨h', hinv', heq⟩ := this
                refine ⟨h', hinv', Eq.trans heq ?_⟩
                simp [List.append_assoc]

/-- `get_proof_hints` on a store that answers like the rules `ds.rules` (signature `ds.sg`) is `traceStepsR` -/
theorem get_proof_hints_inv (n : Nat) (h : PyLS) (ds : DefSem) (hi : HintInv n ds.sg h ds.rules) (tr : PyLLVMTrace) :
    match traceStepsR ds tr with
    | none => get_proof_hints n h tr = raise
    | some (_, rules', steps) => ∃ h', get_proof_hints n h tr = ret (h', steps.map hintOf) ∧ HintInv n ds.sg h' rules' := by
  rw [get_proof_hints_unfold]
  unfold traceStepsR
  simp only [KoreTie.convert_pattern_eq, semView, hi.sig, Option.bind_eq_bind]
  cases hc : convertPattern ds.sg tr.initial_config with
  | none => rfl
  | some init =>
    simp only [call_some, Option.bind_some]
    by_cases hl : tr.trace.length > 0
    · simp only [hl, decide_true, if_true]
      have := hints_loopM n ds.sg (List.zip tr.trace (tr.trace.drop 1)) init init h ds.rules [] hi
      simp only [hintPairs]
      cases hs : stepsF ds.sg ds.rules init (List.filterMap pairOf (tr.trace.zip (tr.trace.drop 1))) with
      | none => rw [hs] at this; exact this
      | some y =>
        rw [hs] at this
        obtain ⟨h', hinv', heq⟩ := this
        exact ⟨h', by simpa using heq, hinv'⟩
    · have ht : tr.trace = [] := by
        cases hh : tr.trace with
        | nil => rfl
        | cons a l => simp [hh] at hl
      simp only [ht, hintPairs]
      exact ⟨h, rfl, hi⟩

/-- the finished several-module store answers like the rules of `sigOfDefinitionM` -/
theorem hintInv_final (pL : Option Bool) {b : FSt} (hb : InvF b) (hord : OrdOK (projF b).1) (n : Nat) (hn : b.fin.length + 1 ≤ n) :
    HintInv n (projF b).1.sg (heapF pL b) ((projF b).1.rules.filter fun r => (mainOrdinals (projF b).2).contains r.ordinal) where
  sig := sigView_heapF pL b
  ax := get_axiom_final pL hb hord n hn
  cache := by
    intro o ru hf
    rw [cached_final]
    have hall := (List.mem_filter.1 (List.mem_of_find?_eq_some hf)).1
    have hruo : ru.ordinal = o := by simpa using List.find?_some hf
    cases hf2 : (projF b).1.rules.find? (·.ordinal == o) with
    | none => rw [List.find?_eq_none] at hf2; have := hf2 ru hall; simp [hruo] at this
    | some ru' =>
      have h1 := List.mem_of_find?_eq_some hf2
      have h2 : ru'.ordinal = o := by simpa using List.find?_some hf2
      have : ru' = ru := ordOK_inj hord h1 hall (by rw [h2, hruo])
      rw [this]; rfl

#print axioms get_proof_hints_inv
#print axioms hintInv_final
end KDefTieM2
