import Pi2.KDefSupport
/-!
# What a Kore definition and an LLVM hint stream MEAN for the model of C20 (specification)

`sigOfDefinition` — how a Kore definition (`PyK.KDefinition`: modules of `Import / SortDecl / SymbolDecl / Axiom` sentences, the
classes of `pyk.kore.syntax`) determines the model's signature `Kore.Sig`, and the list of its rules: every `Axiom` sentence
takes the next ORDINAL (0, 1, 2, … in the order of the sentences — also the axioms that are neither rewrite nor equational
rules), a rewrite rule `\rewrites{S}(\and{S}(lhs, _), \and{S}(rhs, _))` stands for `\rewrites{S}(lhs, rhs)`, an equational rule
`\implies{S}(_, \equals…)` / `\implies{S}(_, \and{S}(…\equals…))` for itself, each converted (`Kore.conv`, the conversion
already tied to the source text) in a fresh scope against the declarations BEFORE it; the scope is kept with the rule.
`none` = the definition is refused (`from_kore_definition` raises): a sort or symbol declared twice, a symbol over an
undeclared sort or a sort variable it does not bind, a rule that does not convert — or the definition is outside the
fragment of this specification (exactly one module, no `Import`).

`traceSteps` — how an LLVM rewrite trace (`PyK.PyLLVMTrace`) determines the steps of the model's trace: every
`LLVMRuleEvent` that is directly followed by a configuration is a step `(ordinal, substitution)`; its substitution is
converted in the rule's scope (which it may extend — the scope stays with the rule), the configurations before / after are
converted in fresh scopes.

Written from the meaning of the sentences; `Pi2/KDefTie.lean` proves the text of `from_kore_definition`, `get_axiom`,
`get_sort`, `get_symbol`, `resolve_to_ksymbol`, `get_proof_hints` equal to it.  Core Lean only.
-/
open Pat
namespace KDefSpec
open Kore PyK

inductive RuleKind where
  | rewrite | equational
deriving DecidableEq, Repr, Inhabited

/-- a rule of the definition: its ordinal, the converted pattern, the scope of its variables -/
structure Rule where
  ordinal : Nat
  kind : RuleKind
  pattern : NPat
  scope : Scope
deriving Repr, Inhabited

/-- what a definition means: the signature, the rules, the number of `Axiom` sentences -/
structure DefSem where
  sg : Sig
  rules : List Rule
  nAxioms : Nat
deriving Repr, Inhabited

/-- the attribute list contains the application of the symbol `a` -/
def hasAttr (attrs : List KTerm) (a : String) : Bool :=
  attrs.any fun t => match t with
    | .app s _ _ => s == strName a
    | _ => false

/-- the declaration of a symbol, as far as the model uses it -/
def symDecl (name : Nat) (vars params : List KSort) (attrs : List KTerm) : SymDecl :=
  { name := name, nSortParams := vars.length, nInputs := params.length, isCell := hasAttr attrs "cell",
    isFunctional := hasAttr attrs "functional", isKseq := name == strName "kseq" }

/-- a sort in a symbol declaration: a declared sort, or a sort variable of the symbol -/
def sortOk (sg : Sig) (vars : List KSort) : KSort → Bool
  | .app n => sg.sorts.contains n
  | .var x => vars.any fun v => sortName v == x

def isEquals : KTerm → Bool
  | .equals .. => true
  | _ => false

/-- `\rewrites{S}(\and{S}(lhs, _), \and{S}(rhs, _))` -/
def isRewriteRule : KTerm → Bool
  | .rewrites _ (.and ..) (.and ..) => true
  | _ => false

/-- `\implies{S}(_, \equals…)` or `\implies{S}(_, \and{S}(x, y))` with an equation among `x`, `y` -/
def isEquationalRule : KTerm → Bool
  | .implies _ _ (.equals ..) => true
  | .implies _ _ (.and _ x y) => isEquals x || isEquals y
  | _ => false

/-- a rewrite rule without its side conditions (the second operands of the two conjunctions) -/
def stripSideConditions : KTerm → KTerm
  | .rewrites s (.and _ lhs _) (.and _ rhs _) => .rewrites s lhs rhs
  | t => t

/-- which axioms are rules, and the Kore pattern that is converted -/
def ruleOf (p : KTerm) : Option (RuleKind × KTerm) :=
  if isRewriteRule p then some (.rewrite, stripSideConditions p)
  else if isEquationalRule p then some (.equational, p) else none

/-- one sentence -/
def addSentence (d : DefSem) : KSentence → Option DefSem
  | .sortDecl name _ =>
      if d.sg.sorts.contains name then none else some { d with sg := { d.sg with sorts := d.sg.sorts ++ [name] } }
  | .symbolDecl name vars params sort attrs =>
      if d.sg.symbols.any (·.name == name) then none
      else if !(params ++ [sort]).all (sortOk d.sg vars) then none
      else some { d with sg := { d.sg with symbols := d.sg.symbols ++ [symDecl name vars params attrs] } }
  | .«axiom» p =>
      match ruleOf p with
      | none => some { d with nAxioms := d.nAxioms + 1 }
      | some (kind, t) =>
          (conv d.sg {} t).map fun r =>
            { d with rules := d.rules ++ [{ ordinal := d.nAxioms, kind := kind, pattern := r.2, scope := r.1 }],
                     nAxioms := d.nAxioms + 1 }
  | .«import» _ => none
  | .other => some d

def addSentences : DefSem → List KSentence → Option DefSem
  | d, [] => some d
  | d, s :: ss => (addSentence d s).bind fun d' => addSentences d' ss

/-- the meaning of a (one-module) definition -/
def sigOfDefinition (d : KDefinition) : Option DefSem :=
  match d.modules with
  | [m] => addSentences { sg := { sorts := [], symbols := [] }, rules := [], nAxioms := 0 } m.sentences
  | _ => none

/-- `get_axiom(ordinal)`: the rule with this ordinal -/
def DefSem.rule? (d : DefSem) (ordinal : Nat) : Option Rule := d.rules.find? (·.ordinal == ordinal)

/-! ## the hint stream -/

/-- two consecutive items of the trace are a step iff a rule event is directly followed by a configuration -/
def pairOf : PyTraceItem × PyTraceItem → Option (Nat × List (Nat × KTerm) × KTerm)
  | (.rule o σ, .config c) => some (o, σ, c)
  | _ => none

/-- the steps of a hint stream -/
def hintPairs (tr : List PyTraceItem) : List (Nat × List (Nat × KTerm) × KTerm) := (tr.zip (tr.drop 1)).filterMap pairOf

/-- a step of the model's trace -/
structure Step where
  before : NPat
  after : NPat
  rule : Rule
  subst : List (Nat × NPat)
deriving Repr, Inhabited

/-- the scope of the (first) rule with the ordinal `o` is now `sc` -/
def setScope : List Rule → Nat → Scope → List Rule
  | [], _, _ => []
  | r :: rs, o, sc => if r.ordinal == o then { r with scope := sc } :: rs else r :: setScope rs o sc

def stepsF (sg : Sig) : List Rule → NPat → List (Nat × List (Nat × KTerm) × KTerm) → Option (List Rule × List Step)
  | rules, _, [] => some (rules, [])
  | rules, cur, (o, σ, c) :: rest => do
      let post ← convertPattern sg c
      let r ← rules.find? (·.ordinal == o)
      let (sc', δ) ← convertSubst sg r.scope (kDictOf σ) []
      let (rs, steps) ← stepsF sg (setScope rules o sc') post rest
      pure (rs, { before := cur, after := post, rule := r, subst := δ } :: steps)

/-- the initial configuration, the rules with their scopes after the trace, and the steps (`none`: `get_proof_hints` raises) -/
def traceStepsR (d : DefSem) (tr : PyLLVMTrace) : Option (NPat × List Rule × List Step) := do
  let init ← convertPattern d.sg tr.initial_config
  let (rules, steps) ← stepsF d.sg d.rules init (hintPairs tr.trace)
  pure (init, rules, steps)

/-- the initial configuration and the steps of a trace -/
def traceSteps (d : DefSem) (tr : PyLLVMTrace) : Option (NPat × List Step) :=
  (traceStepsR d tr).map fun x => (x.1, x.2.2)

/-- the steps as the model's `traceF` takes them -/
def modelSteps (steps : List Step) : List (NPat × List (Nat × NPat)) := steps.map fun s => (s.rule.pattern, s.subst)

end KDefSpec
