import Pi2.KDefSupport
/-!
# What a Kore definition and an LLVM hint stream MEAN for the model of C20 (specification)

`sigOfDefinition` — how a Kore definition (`PyK.KDefinition`: modules of `Import / SortDecl / SymbolDecl / Axiom` sentences, the
classes of `pyk.kore.syntax`) determines the model's signature `Kore.Sig`, and the list of its rules: every `Axiom` sentence
takes the next ORDINAL (0, 1, 2, … in the order of the sentences — also the axioms that are neither rewrite nor equational
rules), a rewrite rule `\rewrites{S}(\and{S}(lhs, _), \and{S}(rhs, _))` stands for `\rewrites{S}(lhs, rhs)`, an equational rule
`\implies{S}(_, \equals…)` / `\implies{S}(_, \and{S}(…\equals…))` for itself, each converted (`Kore.conv`, the conversion
already tied to the source text) in a fresh scope against the declarations BEFORE it; the scope is kept with the rule.
`none` = the definition is refused (`from_kore_definition` raises): a sort or symbol declared twice, a symbol over an
undeclared sort or a sort variable it does not bind, a rule that does not convert — or the definition is outside the
fragment of this specification (exactly one module, no `Import`).

`traceSteps` — how an LLVM rewrite trace (`PyK.PyLLVMTrace`) determines the steps of the model's trace: every
`LLVMRuleEvent` that is directly followed by a configuration is a step `(ordinal, substitution)`; its substitution is
converted in the rule's scope (which it may extend — the scope stays with the rule), the configurations before / after are
converted in fresh scopes.

Written from the meaning of the sentences; `Pi2/KDefTie.lean` proves the text of `from_kore_definition`, `get_axiom`,
`get_sort`, `get_symbol`, `resolve_to_ksymbol`, `get_proof_hints` equal to it.  Core Lean only.
-/
open Pat
namespace KDefSpec
open Kore PyK

inductive RuleKind where
  | rewrite | equational
deriving DecidableEq, Repr, Inhabited

/-- a rule of the definition: its ordinal, the converted pattern, the scope of its variables -/
structure Rule where
  ordinal : Nat
  kind : RuleKind
  pattern : NPat
  scope : Scope
deriving Repr, Inhabited

/-- what a definition means: the signature, the rules, the number of `Axiom` sentences -/
structure DefSem where
  sg : Sig
  rules : List Rule
  nAxioms : Nat
deriving Repr, Inhabited

/-- the attribute list contains the application of the symbol `a` -/
def hasAttr (attrs : List KTerm) (a : String) : Bool :=
  attrs.any fun t => match t with
    | .app s _ _ => s == strName a
    | _ => false

/-- the declaration of a symbol, as far as the model uses it -/
def symDecl (name : Nat) (vars params : List KSort) (attrs : List KTerm) : SymDecl :=
  { name := name, nSortParams := vars.length, nInputs := params.length, isCell := hasAttr attrs "cell",
    isFunctional := hasAttr attrs "functional", isKseq := name == strName "kseq" }

/-- a sort in a symbol declaration: a declared sort, or a sort variable of the symbol -/
def sortOk (sg : Sig) (vars : List KSort) : KSort → Bool
  | .app n => sg.sorts.contains n
  | .var x => vars.any fun v => sortName v == x

def isEquals : KTerm → Bool
  | .equals .. => true
  | _ => false

/-- `\rewrites{S}(\and{S}(lhs, _), \and{S}(rhs, _))` -/
def isRewriteRule : KTerm → Bool
  | .rewrites _ (.and ..) (.and ..) => true
  | _ => false

/-- `\implies{S}(_, \equals…)` or `\implies{S}(_, \and{S}(x, y))` with an equation among `x`, `y` -/
def isEquationalRule : KTerm → Bool
  | .implies _ _ (.equals ..) => true
  | .implies _ _ (.and _ x y) => isEquals x || isEquals y
  | _ => false

/-- a rewrite rule without its side conditions (the second operands of the two conjunctions) -/
def stripSideConditions : KTerm → KTerm
  | .rewrites s (.and _ lhs _) (.and _ rhs _) => .rewrites s lhs rhs
  | t => t

/-- which axioms are rules, and the Kore pattern that is converted -/
def ruleOf (p : KTerm) : Option (RuleKind × KTerm) :=
  if isRewriteRule p then some (.rewrite, stripSideConditions p)
  else if isEquationalRule p then some (.equational, p) else none

/-- one sentence -/
def addSentence (d : DefSem) : KSentence → Option DefSem
  | .sortDecl name _ =>
      if d.sg.sorts.contains name then none else some { d with sg := { d.sg with sorts := d.sg.sorts ++ [name] } }
  | .symbolDecl name vars params sort attrs =>
      if d.sg.symbols.any (·.name == name) then none
      else if !(params ++ [sort]).all (sortOk d.sg vars) then none
      else some { d with sg := { d.sg with symbols := d.sg.symbols ++ [symDecl name vars params attrs] } }
  | .«axiom» p =>
      match ruleOf p with
      | none => some { d with nAxioms := d.nAxioms + 1 }
      | some (kind, t) =>
          (conv d.sg {} t).map fun r =>
            { d with rules := d.rules ++ [{ ordinal := d.nAxioms, kind := kind, pattern := r.2, scope := r.1 }],
                     nAxioms := d.nAxioms + 1 }
  | .«import» _ => none
  | .other => some d

def addSentences : DefSem → List KSentence → Option DefSem
  | d, [] => some d
  | d, s :: ss => (addSentence d s).bind fun d' => addSentences d' ss

/-- the meaning of a (one-module) definition -/
def sigOfDefinition (d : KDefinition) : Option DefSem :=
  match d.modules with
  | [m] => addSentences { sg := { sorts := [], symbols := [] }, rules := [], nAxioms := 0 } m.sentences
  | _ => none

/-! ## definitions with SEVERAL modules

What the real builder does (found out on the real code, `vlib/try_kdef.py` compares on every run):
* the modules are processed in order; a module whose NAME an earlier module has is refused (`LanguageSemantics.module`: `ValueError`);
* `Import N`: `N` must be the name of a module that EXISTS ALREADY — an earlier one (a later / unknown module: `get_module` raises
  `ValueError`; a cyclic import can therefore not be written down, except the import of the module ITSELF, which the real code accepts
  and then recurses without end on the next lookup that leaves the module: the specification refuses it, the theorems assume there is
  none); importing the same module twice into one module is refused;
* a sort / symbol may be declared once PER MODULE (`KModule._sort` / `KModule.symbol` look at the own tables only);
* the sorts of a symbol declaration are looked up by `KModule.get_sort`: the module's own sorts and the sorts of the modules it imports
  TRANSITIVELY (`KModule.modules`) — not the sorts of other modules;
* an axiom is converted by `LanguageSemantics._convert_pattern`, whose `get_sort` / `get_symbol` search ALL modules that exist so far
  (`LanguageSemantics.modules` starts from every module ever created), imported or not: a rule sees every declaration BEFORE it in
  the whole definition;
* ONE counter: the ordinals run on across the modules;
* the finished semantics: `get_sort` / `get_symbol` see all modules; `get_axiom` is `main_module.get_axiom`, the main module is the LAST
  one: a rule of a module that the last module does not (transitively) import is NOT found (its scope stays cached).
Where a name is declared in two different modules the real search order is process-dependent (a `set` of objects hashed by address);
the specification then takes the first declaration, the theorems exclude the case (`KDefTieM.InFragmentM`). -/

/-- what the specification keeps of a module: its name, the modules it imports (names, in order), the modules it imports
transitively, the sorts and symbols it declares itself, the ordinals of its own rules -/
structure ModSem where
  name : Nat
  imports : List Nat
  reach : List Nat
  sorts : List Nat
  symbols : List Nat
  ordinals : List Nat
deriving Repr, Inhabited, DecidableEq

def ModSem.new (name : Nat) : ModSem := { name := name, imports := [], reach := [], sorts := [], symbols := [], ordinals := [] }

/-- the state of the construction: `all` — the declarations and rules of ALL modules so far (in the order of the sentences) and the one
counter; the finished modules; the module under construction -/
structure DefSemM where
  all : DefSem
  done : List ModSem
  cur : ModSem
deriving Repr, Inhabited

/-- the sorts of the modules with these names -/
def sortsOf (ms : List ModSem) (names : List Nat) : List Nat := (ms.filter fun m => names.contains m.name).flatMap (·.sorts)
/-- the rule ordinals of the modules with these names -/
def ordinalsOf (ms : List ModSem) (names : List Nat) : List Nat := (ms.filter fun m => names.contains m.name).flatMap (·.ordinals)

/-- the sorts a symbol declaration of the current module may use: its own and those of the modules it imports transitively -/
def DefSemM.visibleSorts (d : DefSemM) : List Nat := d.cur.sorts ++ sortsOf d.done d.cur.reach

/-- one sentence of the module under construction -/
def addSentenceM (d : DefSemM) : KSentence → Option DefSemM
  | .«import» mn =>
      match d.done.find? (·.name == mn) with
      | none => none
      | some m =>
          if d.cur.imports.contains mn then none
          else some { d with cur := { d.cur with imports := d.cur.imports ++ [mn], reach := d.cur.reach ++ mn :: m.reach } }
  | .sortDecl name _ =>
      if d.cur.sorts.contains name then none
      else some { d with all := { d.all with sg := { d.all.sg with sorts := d.all.sg.sorts ++ [name] } },
                         cur := { d.cur with sorts := d.cur.sorts ++ [name] } }
  | .symbolDecl name vars params sort attrs =>
      if d.cur.symbols.contains name then none
      else if !(params ++ [sort]).all (sortOk { sorts := d.visibleSorts, symbols := [] } vars) then none
      else some { d with all := { d.all with sg := { d.all.sg with symbols := d.all.sg.symbols ++ [symDecl name vars params attrs] } },
                         cur := { d.cur with symbols := d.cur.symbols ++ [name] } }
  | .«axiom» p =>
      match ruleOf p with
      | none => some { d with all := { d.all with nAxioms := d.all.nAxioms + 1 } }
      | some (kind, t) =>
          (conv d.all.sg {} t).map fun r =>
            { d with all := { d.all with rules := d.all.rules ++ [{ ordinal := d.all.nAxioms, kind := kind, pattern := r.2, scope := r.1 }],
                                         nAxioms := d.all.nAxioms + 1 },
                     cur := { d.cur with ordinals := d.cur.ordinals ++ [d.all.nAxioms] } }
  | .other => some d

def addSentencesM : DefSemM → List KSentence → Option DefSemM
  | d, [] => some d
  | d, s :: ss => (addSentenceM d s).bind fun d' => addSentencesM d' ss

/-- one module: refused if its name is taken -/
def addModule (a : DefSem × List ModSem) (m : KModuleDef) : Option (DefSem × List ModSem) :=
  if a.2.any (·.name == m.name) then none
  else (addSentencesM { all := a.1, done := a.2, cur := ModSem.new m.name } m.sentences).map fun d => (d.all, d.done ++ [d.cur])

def addModules : DefSem × List ModSem → List KModuleDef → Option (DefSem × List ModSem)
  | a, [] => some a
  | a, m :: ms => (addModule a m).bind fun a' => addModules a' ms

def emptySem : DefSem := { sg := { sorts := [], symbols := [] }, rules := [], nAxioms := 0 }

/-- ALL modules of a definition: the declarations, rules and the counter, and the modules -/
def modulesOfDefinition (d : KDefinition) : Option (DefSem × List ModSem) := addModules (emptySem, []) d.modules

/-- the ordinals `get_axiom` finds: those of the main (= last) module and of the modules it imports transitively -/
def mainOrdinals (ms : List ModSem) : List Nat :=
  match ms.getLast? with
  | none => []
  | some main => main.ordinals ++ ordinalsOf ms main.reach

/-- the meaning of a definition with any number of modules: the signature has the declarations of ALL modules, the rules are
those `get_axiom` finds (`mainOrdinals`), `nAxioms` counts the axioms of all modules -/
def sigOfDefinitionM (d : KDefinition) : Option DefSem :=
  (modulesOfDefinition d).map fun a => { a.1 with rules := a.1.rules.filter fun r => (mainOrdinals a.2).contains r.ordinal }

/-- `_cached_axiom_scopes`: the scopes of the rules of ALL modules, also of those `get_axiom` does not find -/
def allRulesOfDefinition (d : KDefinition) : Option (List Rule) := (modulesOfDefinition d).map (·.1.rules)

/-- `get_axiom(ordinal)`: the rule with this ordinal -/
def DefSem.rule? (d : DefSem) (ordinal : Nat) : Option Rule := d.rules.find? (·.ordinal == ordinal)

/-! ## the hint stream -/

/-- two consecutive items of the trace are a step iff a rule event is directly followed by a configuration -/
def pairOf : PyTraceItem × PyTraceItem → Option (Nat × List (Nat × KTerm) × KTerm)
  | (.rule o σ, .config c) => some (o, σ, c)
  | _ => none

/-- the steps of a hint stream -/
def hintPairs (tr : List PyTraceItem) : List (Nat × List (Nat × KTerm) × KTerm) := (tr.zip (tr.drop 1)).filterMap pairOf

/-- a step of the model's trace -/
structure Step where
  before : NPat
  after : NPat
  rule : Rule
  subst : List (Nat × NPat)
deriving Repr, Inhabited

/-- the scope of the (first) rule with the ordinal `o` is now `sc` -/
def setScope : List Rule → Nat → Scope → List Rule
  | [], _, _ => []
  | r :: rs, o, sc => if r.ordinal == o then { r with scope := sc } :: rs else r :: setScope rs o sc

def stepsF (sg : Sig) : List Rule → NPat → List (Nat × List (Nat × KTerm) × KTerm) → Option (List Rule × List Step)
  | rules, _, [] => some (rules, [])
  | rules, cur, (o, σ, c) :: rest => do
      let post ← convertPattern sg c
      let r ← rules.find? (·.ordinal == o)
      let (sc', δ) ← convertSubst sg r.scope (kDictOf σ) []
      let (rs, steps) ← stepsF sg (setScope rules o sc') post rest
      pure (rs, { before := cur, after := post, rule := r, subst := δ } :: steps)

/-- the initial configuration, the rules with their scopes after the trace, and the steps (`none`: `get_proof_hints` raises) -/
def traceStepsR (d : DefSem) (tr : PyLLVMTrace) : Option (NPat × List Rule × List Step) := do
  let init ← convertPattern d.sg tr.initial_config
  let (rules, steps) ← stepsF d.sg d.rules init (hintPairs tr.trace)
  pure (init, rules, steps)

/-- the initial configuration and the steps of a trace -/
def traceSteps (d : DefSem) (tr : PyLLVMTrace) : Option (NPat × List Step) :=
  (traceStepsR d tr).map fun x => (x.1, x.2.2)

/-- the steps as the model's `traceF` takes them -/
def modelSteps (steps : List Step) : List (NPat × List (Nat × NPat)) := steps.map fun s => (s.rule.pattern, s.subst)

end KDefSpec
