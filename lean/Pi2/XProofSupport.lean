import Pi2.MM.Translate
import Pi2.Match
/-!
# Vocabulary of the generated `exec_proof` (`Pi2/Gen/ExecProof.lean`, from `metamath/translate.py`)

Hand-written and small.  `vlib/transxproof.py` turns every statement of `exec_proof`, of its closures `get_delta`,
`get_rule_delta`, `do_mp` and of `convert_to_implication` into one line of continuation-passing Lean; this file gives the
words of those lines their meaning.

* `R = Option (Option XSt)`: outer `none` = out of fuel (or a call `toCall` does not know), inner `none` = a Python
  exception — as everywhere in the model (`Pi2/MM/Translate.lean`).  `XSt` is the model's state: the tracker state
  (`sub_interp` / `interp`, a `StatefulInterpreter`), the calls made so far, `mm_memory`.
* `Conv`: the converter (`MetamathConverter`) as an abstract record of exactly the queries `exec_proof` makes.
  `Pi2/XProofTie.lean` (`Conv.ofDB`) says how the model's `DB` answers each of them.
* `Val`: a value read from the interpreter's stack *with its provenance* (position from the top, number of interpreter
  calls made when it was read).  `StatefulInterpreter` asserts that the arguments it is given are the entries it takes off
  its own stack (`assert expected_left == left`, …); the tracker model's `Call` therefore has no pattern arguments.
  `toCall` answers only if every such argument was read from the position the method takes it from, with no interpreter
  call in between (then the assertion compares an object with itself).  `load` takes its term by value.
* the id strings of `save` / `load` (`str(pat)`, `f'Axiom {axiom}'`) are not interpreted: no interpreter of the stateful
  family looks at them (`toCall` accepts any first argument).
* `interpreter().pattern(p)` is `PySt.patternF` (plain or through `MemoizingInterpreter`, `cfg`); the stack is the
  sub-interpreter's in the latter case (the first statements of `exec_proof`, checked by shape in the translator).
* `proofexp.load_axiom(p)(interpreter())` is `interpreter.load('Axiom …', Proved(p))` (proof.py:179-187); as in the model
  the two assertions around it (`p in self._axioms`, `proved.conclusion == self.conc`, a term compared with itself) are not
  represented.
-/
open Pat PySt
namespace PyXProof
open MM

abbrev R := Option (Option XSt)
/-- an exception -/
def raise : R := some none
/-- sequencing: the rest runs on the state the first part delivers -/
def bindR (r : R) (k : XSt → R) : R :=
  match r with
  | none => none
  | some none => some none
  | some (some x) => k x
/-- `assert b` -/
def assertThat (b : Bool) (r : R) : R := if b then r else raise

/-! ## the converter -/

/-- `Axiom` / `AxiomWithAntecedents` (converter/representation.py): the fields `exec_proof` reads -/
structure AxiomRec where
  pattern : NPat
  /-- `axiom.metavars` (only its length is used) -/
  metavars : List Nat
  /-- `some` = the object is an `AxiomWithAntecedents` with these `antecedents` -/
  antecedents : Option (List NPat)

/-- the queries `exec_proof` makes of `converter`; labels are the model's `Lbl`, metavariable names are variable numbers -/
structure Conv where
  /-- `label in converter.pattern_constructors` -/
  isPatternConstructor : Lbl → Bool
  /-- `converter._fp_label_to_pattern.get(label)`: `label in converter._fp_label_to_pattern`,
  `converter.get_floating_pattern_by_name(label)` -/
  floating : Lbl → Option (List NPat)
  /-- `label in converter.exported_axioms` -/
  isExportedAxiom : Lbl → Bool
  /-- `label in converter.proof_rules` -/
  isProofRule : Lbl → Bool
  /-- `converter.get_axiom_by_name(label)` (`none`: its assertion `is_axiom(label)` fails) -/
  axiom? : Lbl → Option AxiomRec
  /-- `converter.get_metavars_in_order(label)` -/
  metavarsInOrder : Lbl → List Nat
  /-- `converter.resolve_metavar(name)` (total: the names come from `get_metavars_in_order`) -/
  resolveMetavar : Nat → NPat
  /-- `converter.get_lemma_by_name(target).pattern` -/
  targetPattern : NPat

/-- `label == '<name>'` for the five labels `exec_proof` knows by name (the fixed names of the fragment, see `MM.DB`) -/
def lblIs (name : String) (l : Lbl) : Bool :=
  match name, l with
  | "app-is-pattern", .appC => true
  | "imp-is-pattern", .impC => true
  | "proof-rule-prop-1", .p1 => true
  | "proof-rule-prop-2", .p2 => true
  | "proof-rule-mp", .mp => true
  | _, _ => false

/-- `converter.get_axiom_by_name(label)` -/
def getAxiom (conv : Conv) (l : Lbl) (k : AxiomRec → R) : R :=
  match conv.axiom? l with
  | some a => k a
  | none => raise

/-- `converter.get_floating_pattern_by_name(label)[0]`, only translated behind the test `label in _fp_label_to_pattern` -/
def fp0 (conv : Conv) (l : Lbl) : NPat := (((conv.floating l).getD []).head?).getD (.evar 0)

/-- `axiom.antecedents` (`AttributeError` on a plain `Axiom`) -/
def antsOf (a : AxiomRec) (k : List NPat → R) : R :=
  match a.antecedents with
  | some l => k l
  | none => raise

/-- `isinstance(p, MetaVar)` -/
def isMetaVar : NPat → Bool
  | .mv .. => true
  | _ => false

/-- `p.name` (`AttributeError` unless `p` is a `MetaVar`) -/
def attrName (p : NPat) (k : Nat → R) : R :=
  match p with
  | .mv id _ _ _ _ _ => k id
  | _ => raise

/-- `MetaVar(name)` -/
def mkMetaVar (name : Nat) : NPat := .mv name [] [] [] [] []
/-- `App(*args)` (`TypeError` unless there are two arguments) -/
def pyApp : List NPat → Option NPat
  | [a, b] => some (.app a b)
  | _ => none
/-- `Implies(*args)` -/
def pyImplies : List NPat → Option NPat
  | [a, b] => some (.imp a b)
  | _ => none

/-! ## `exported_proof.labels`: the dict `{1: l₁, …, k: l_k}` (converter.py `_import_proof`) as the list `[l₁, …, l_k]` -/

/-- `lemma in exported_proof.labels` -/
def labelsHas (labels : List Lbl) (i : Nat) : Bool := decide (1 ≤ i ∧ i ≤ labels.length)
/-- `exported_proof.labels[lemma]` (`KeyError`) -/
def labelsGet (labels : List Lbl) (i : Nat) (k : Lbl → R) : R :=
  if i = 0 then raise else
  match labels[i - 1]? with
  | some l => k l
  | none => raise

/-! ## values -/

/-- a `Pattern | Proved` object and where it was read: `(position from the top, number of calls made so far)` -/
structure Val where
  t : TTerm
  src : Option (Nat × Nat)

/-- an argument of an interpreter call -/
inductive Arg where
  | val (v : Val)
  | str (v : Val)                    -- `str(v)`
  | dict (d : List (Nat × Val))      -- a dict in insertion order
  | nat (k : Nat)

abbrev Dict := List (Nat × Val)

/-- `l[i]` for a Python list given in Python order -/
def pyIndex {α} (l : List α) (i : Int) : Option α :=
  if i < 0 then (if (-i).toNat ≤ l.length then l[l.length - (-i).toNat]? else none) else l[i.toNat]?

/-- `stack()[i]`: the model's stack has its top at the head -/
def stackIdx (x : XSt) (i : Int) (k : Val → R) : R :=
  let pos : Option Nat :=
    if i < 0 then some ((-i).toNat - 1)
    else if i.toNat < x.s.stack.length then some (x.s.stack.length - 1 - i.toNat) else none
  match pos with
  | none => raise
  | some p =>
    match x.s.stack[p]? with
    | some e => k ⟨e.1, some (p, x.calls.length)⟩
    | none => raise

/-- `mm_memory[i]` -/
def memIdx (x : XSt) (i : Int) (k : Val → R) : R :=
  match pyIndex x.mem i with
  | some t => k ⟨t, none⟩
  | none => raise

/-- `mm_memory.append(v)` -/
def memAppend (x : XSt) (v : Val) (k : XSt → R) : R := k { x with mem := x.mem ++ [v.t] }

/-- `isinstance(v, Proved)` -/
def isProved (v : Val) : Bool := v.t.isProved
/-- `isinstance(v, Pattern)` -/
def isPattern (v : Val) : Bool := !v.t.isProved

/-- `v.conclusion` (`AttributeError` on a `Pattern`) -/
def attrConclusion (v : Val) (k : NPat → R) : R :=
  match v.t with
  | .proved p => k p
  | .pat _ => raise

/-- `d[key] = v` on an insertion-ordered dict -/
def dictSet (d : Dict) (key : Nat) (v : Val) : Dict :=
  if d.any (·.1 == key) then d.map (fun p => if p.1 == key then (key, v) else p) else d ++ [(key, v)]

/-! ## conditions that contain a Python `==` between patterns: outer `none` = fuel, inner `none` = exception -/

abbrev Cond := Option (Option Bool)
def cPure (b : Bool) : Cond := some (some b)
/-- `a and b` (short-circuit) -/
def cAnd (a b : Cond) : Cond :=
  match a with
  | none => none
  | some none => some none
  | some (some false) => some (some false)
  | some (some true) => b
/-- `a == b` for two pattern-valued expressions that may raise -/
def patEq (n : Nat) (a b : Option NPat) : Cond :=
  match a, b with
  | some p, some q => (NPat.peqF n p q).map some
  | _, _ => some none
/-- `v == Proved(p)` (a `Pattern` is never equal to a `Proved`) -/
def provedEq (n : Nat) (v : Val) (p : NPat) : Cond :=
  match v.t with
  | .proved c => (NPat.peqF n c p).map some
  | .pat _ => some (some false)
/-- `if c: t else: e` -/
def ifC (c : Cond) (t e : R) : R :=
  match c with
  | none => none
  | some none => some none
  | some (some true) => t
  | some (some false) => e
/-- `assert c` -/
def assertC (c : Cond) (r : R) : R := ifC c r raise

/-! ## control flow -/

/-- an `if` statement that is followed by further statements: both branches end in `k σ` (`σ` = the state and the locals
the branches assign) unless they leave the loop body -/
def pyIf {σ} (c : Bool) (t e : (σ → R) → R) (k : σ → R) : R := if c then t k else e k

/-- `for a in l: body` with the loop-carried locals `σ` -/
def forEach {α σ} : List α → σ → (α → σ → (σ → R) → R) → (σ → R) → R
  | [], st, _, k => k st
  | a :: as, st, body, k => body a st fun st' => forEach as st' body k

/-- `(a,) = l` (`ValueError` unless `l` has one element) -/
def unpack1 (l : List Nat) (k : Nat → R) : R :=
  match l with
  | [a] => k a
  | _ => raise

/-- `match_single(a, b)` (`Pi2/Match.lean`) -/
def matchSingle (n : Nat) (a b : NPat) (k : Option NPat.Subst → R) : R :=
  match NPat.matchF n a b [] with
  | none => none
  | some r => k r

/-- `assert roles is not None` -/
def assertSome {α} (o : Option α) (k : α → R) : R :=
  match o with
  | some a => k a
  | none => raise

/-- `(name for name, value in d.items() if c(name, value))` -/
def genKeys (d : NPat.Subst) (c : Nat → NPat → Cond) (k : List Nat → R) : R :=
  match d with
  | [] => k []
  | (name, value) :: r => ifC (c name value) (genKeys r c fun l => k (name :: l)) (genKeys r c k)

/-! ## interpreter calls -/

structure ICall where
  method : String
  args : List Arg

/-- the value was read from position `k` of the stack as it is now -/
def Val.isAt (x : XSt) (v : Val) (k : Nat) : Bool := v.src == some (k, x.calls.length)

/-- the positions of the `m` plugs below the top, deepest first: `expected_plugs = self.stack[-m:]` after the target has
been taken off, which `StatefulInterpreter.instantiate` asserts to be `list(delta.values())` -/
def plugPositions (m : Nat) : List Nat := (List.range' 1 m).reverse

def dictAtPlugs (x : XSt) (d : Dict) : Bool :=
  (d.map (·.2.src)) == (plugPositions d.length).map fun p => some (p, x.calls.length)

/-- the tracker call a method call with these arguments is; `none` when the arguments are not (literally) the stack entries
`StatefulInterpreter` expects for that method, or the method is not one `exec_proof` is known to use -/
def toCall (x : XSt) (c : ICall) : Option Call :=
  match c.method with
  | "metavar" => (match c.args with | [.nat id] => some (.metavar id [] [] [] [] []) | _ => none)
  | "implies" => (match c.args with | [.val l, .val r] => if l.isAt x 1 && r.isAt x 0 then some .implies else none | _ => none)
  | "app" => (match c.args with | [.val l, .val r] => if l.isAt x 1 && r.isAt x 0 then some .app else none | _ => none)
  | "prop1" => (match c.args with | [] => some .prop1 | _ => none)
  | "prop2" => (match c.args with | [] => some .prop2 | _ => none)
  | "modus_ponens" =>
      (match c.args with | [.val l, .val r] => if l.isAt x 1 && r.isAt x 0 then some .mp else none | _ => none)
  | "instantiate" =>
      (match c.args with
       | [.val v, .dict d] => if v.isAt x 0 && dictAtPlugs x d then some (.instantiate (d.map (·.1))) else none
       | _ => none)
  | "instantiate_pattern" =>
      (match c.args with
       | [.val v, .dict d] => if v.isAt x 0 && dictAtPlugs x d then some (.instantiatePattern (d.map (·.1))) else none
       | _ => none)
  | "pop" => (match c.args with | [.val v] => if v.isAt x 0 then some .pop else none | _ => none)
  | "save" => (match c.args with | [_, .val v] => if v.isAt x 0 then some .save else none | _ => none)
  | "load" => (match c.args with | [_, .val v] => some (.load v.t) | _ => none)
  | "publish_proof" => (match c.args with | [.val v] => if v.isAt x 0 then some .publishProof else none | _ => none)
  | _ => none

/-- `interpreter().method(args)`, result unused -/
def icall (n : Nat) (x : XSt) (c : ICall) (k : XSt → R) : R :=
  match toCall x c with
  | none => none
  | some c => bindR (x.doC n [c]) k

/-- `r = interpreter().method()` for a method that returns the term it pushed (`prop1`, `prop2`) -/
def icallRet (n : Nat) (x : XSt) (c : ICall) (k : XSt → Val → R) : R :=
  icall n x c fun x' =>
    match x'.s.stack with
    | e :: _ => k x' ⟨e.1, some (0, x'.calls.length)⟩
    | [] => none

/-- `interpreter().pattern(p)` -/
def ipattern (cfg : Cfg) (n : Nat) (x : XSt) (p : NPat) (k : XSt → R) : R :=
  match patternF cfg n x.s p x.calls with
  | none => none
  | some none => some none
  | some (some (s', c')) => k { x with s := s', calls := c' }

/-- `proofexp.load_axiom(p)(interpreter())` -/
def loadAxiom (n : Nat) (x : XSt) (p : NPat) (k : XSt → R) : R :=
  bindR (x.doC n [.load (.proved p)]) k

end PyXProof
