import Pi2.Machine
/-!
# Renaming of symbols commutes with everything the checker does

The serializer writes a symbol as its position in the table of symbols met so far; the tracker keeps the
name.  `Pat.ren ρ` renames the symbols of a pattern by an arbitrary function `ρ`; the four syntactic
judgements do not see it and substitution / instantiation commute with it.  (Only functionality of `ρ`
is used: equal patterns stay equal.)
-/
open Pat

namespace Pat

def ren (ρ : Nat → Nat) : Pat → Pat
  | evar x => evar x | svar X => svar X | sym s => sym (ρ s)
  | imp l r => imp (ren ρ l) (ren ρ r)
  | app l r => app (ren ρ l) (ren ρ r)
  | ex x p => ex x (ren ρ p)
  | mu X p => mu X (ren ρ p)
  | mv id ef sf ps ns hs => mv id ef sf ps ns hs
  | esub p x q => esub (ren ρ p) x (ren ρ q)
  | ssub p X q => ssub (ren ρ p) X (ren ρ q)

variable (ρ : Nat → Nat)

@[simp] theorem eFresh_ren (e : VId) (p : Pat) : (ren ρ p).eFresh e = p.eFresh e := by
  induction p with
  | esub p x q ihp ihq => simp only [ren, eFresh, ihp, ihq]
  | _ => simp_all [ren, eFresh]

@[simp] theorem sFresh_ren (s : VId) (p : Pat) : (ren ρ p).sFresh s = p.sFresh s := by
  induction p with
  | ssub p x q ihp ihq => simp only [ren, sFresh, ihp, ihq]
  | _ => simp_all [ren, sFresh]

theorem pos_ng_ren (p : Pat) : ∀ s, (ren ρ p).pos s = p.pos s ∧ (ren ρ p).ng s = p.ng s := by
  induction p with
  | evar _ => intro s; simp [ren, pos, ng]
  | svar _ => intro s; simp [ren, pos, ng]
  | sym _ => intro s; simp [ren, pos, ng]
  | mv _ _ _ _ _ _ => intro s; simp [ren, pos, ng]
  | imp l r ihl ihr => intro s; simp [ren, pos, ng, (ihl s).1, (ihl s).2, (ihr s).1, (ihr s).2]
  | app l r ihl ihr => intro s; simp [ren, pos, ng, (ihl s).1, (ihl s).2, (ihr s).1, (ihr s).2]
  | ex x p ih => intro s; simp [ren, pos, ng, (ih s).1, (ih s).2]
  | mu X p ih => intro s; simp [ren, pos, ng, (ih s).1, (ih s).2]
  | esub p x q ihp ihq => intro s; simp [ren, pos, ng, (ihp s).1, (ihp s).2]
  | ssub p X q ihp ihq =>
    intro s
    simp only [ren, pos, ng, (ihp s).1, (ihp s).2, (ihp X).1, (ihp X).2, (ihq s).1, (ihq s).2,
      sFresh_ren, and_self]

@[simp] theorem pos_ren (s : VId) (p : Pat) : (ren ρ p).pos s = p.pos s := (pos_ng_ren ρ p s).1
@[simp] theorem ng_ren (s : VId) (p : Pat) : (ren ρ p).ng s = p.ng s := (pos_ng_ren ρ p s).2

@[simp] theorem isMeta_ren (p : Pat) : (ren ρ p).isMeta = p.isMeta := by
  cases p <;> rfl

theorem ren_eq_evar (p : Pat) (x : VId) : ren ρ p = evar x ↔ p = evar x := by
  cases p <;> simp [ren]

theorem ren_eq_svar (p : Pat) (x : VId) : ren ρ p = svar x ↔ p = svar x := by
  cases p <;> simp [ren]

@[simp] theorem beq_evar_ren (p : Pat) (x : VId) : (ren ρ p == evar x) = (p == evar x) := by
  by_cases h : p = evar x
  · subst h; simp [ren]
  · have : ren ρ p ≠ evar x := fun e => h ((ren_eq_evar ρ p x).mp e)
    rw [beq_eq_false_iff_ne.mpr h, beq_eq_false_iff_ne.mpr this]

@[simp] theorem beq_svar_ren (p : Pat) (x : VId) : (ren ρ p == svar x) = (p == svar x) := by
  by_cases h : p = svar x
  · subst h; simp [ren]
  · have : ren ρ p ≠ svar x := fun e => h ((ren_eq_svar ρ p x).mp e)
    rw [beq_eq_false_iff_ne.mpr h, beq_eq_false_iff_ne.mpr this]

theorem applyESubst_ren (x : VId) (plug : Pat) (p : Pat) :
    applyESubst x (ren ρ plug) (ren ρ p) = (applyESubst x plug p).map (ren ρ) := by
  induction p with
  | evar y => simp only [ren, applyESubst]; split <;> simp [ren]
  | svar _ => simp [ren, applyESubst]
  | sym _ => simp [ren, applyESubst]
  | imp l r ihl ihr =>
    simp only [ren, applyESubst, ihl, ihr]
    cases applyESubst x plug l <;> cases applyESubst x plug r <;> simp [ren]
  | app l r ihl ihr =>
    simp only [ren, applyESubst, ihl, ihr]
    cases applyESubst x plug l <;> cases applyESubst x plug r <;> simp [ren]
  | ex y p ih =>
    simp only [ren, applyESubst, ih, eFresh_ren]
    split
    · simp [ren]
    · split
      · cases applyESubst x plug p <;> simp [ren]
      · simp
  | mu Y p ih =>
    simp only [ren, applyESubst, ih, sFresh_ren]
    split
    · cases applyESubst x plug p <;> simp [ren]
    · simp
  | mv id ef sf ps ns hs => simp only [ren, applyESubst]; split <;> simp [ren]
  | esub p y q _ _ => simp [ren, applyESubst]
  | ssub p Y q _ _ => simp [ren, applyESubst]

theorem applySSubst_ren (X : VId) (plug : Pat) (p : Pat) :
    applySSubst X (ren ρ plug) (ren ρ p) = (applySSubst X plug p).map (ren ρ) := by
  induction p with
  | svar y => simp only [ren, applySSubst]; split <;> simp [ren]
  | evar _ => simp [ren, applySSubst]
  | sym _ => simp [ren, applySSubst]
  | imp l r ihl ihr =>
    simp only [ren, applySSubst, ihl, ihr]
    cases applySSubst X plug l <;> cases applySSubst X plug r <;> simp [ren]
  | app l r ihl ihr =>
    simp only [ren, applySSubst, ihl, ihr]
    cases applySSubst X plug l <;> cases applySSubst X plug r <;> simp [ren]
  | ex y p ih =>
    simp only [ren, applySSubst, ih, eFresh_ren]
    split
    · cases applySSubst X plug p <;> simp [ren]
    · simp
  | mu Y p ih =>
    simp only [ren, applySSubst, ih, sFresh_ren]
    split
    · simp [ren]
    · split
      · cases applySSubst X plug p <;> simp [ren]
      · simp
  | mv id ef sf ps ns hs => simp only [ren, applySSubst]; split <;> simp [ren]
  | esub p y q _ _ => simp [ren, applySSubst]
  | ssub p Y q _ _ => simp [ren, applySSubst]

@[simp] theorem okPlug_ren (ef sf ps ns : List VId) (q : Pat) :
    okPlug ef sf ps ns (ren ρ q) = okPlug ef sf ps ns q := by
  simp [okPlug]

/-- instantiation commutes with renaming -/
theorem inst_ren (θ : VId → Option Pat) (p : Pat) :
    inst (fun k => (θ k).map (ren ρ)) (ren ρ p) = (inst θ p).map (ren ρ) := by
  induction p with
  | evar _ => simp [ren, inst]
  | svar _ => simp [ren, inst]
  | sym _ => simp [ren, inst]
  | mv id ef sf ps ns hs =>
    simp only [ren, inst]
    cases θ id with
    | none => simp [ren]
    | some q => simp only [Option.map_some, okPlug_ren]; split <;> simp
  | imp l r ihl ihr =>
    simp only [ren, inst, ihl, ihr]
    cases inst θ l <;> cases inst θ r <;> simp [ren]
  | app l r ihl ihr =>
    simp only [ren, inst, ihl, ihr]
    cases inst θ l <;> cases inst θ r <;> simp [ren]
  | ex x p ih =>
    simp only [ren, inst, ih]
    cases inst θ p <;> simp [ren]
  | mu X p ih =>
    simp only [ren, inst, ih]
    cases inst θ p <;> simp [ren]
  | esub p x q ihp ihq =>
    simp only [ren, inst, ihp, ihq]
    cases inst θ p <;> cases inst θ q <;> simp [applyESubst_ren]
  | ssub p X q ihp ihq =>
    simp only [ren, inst, ihp, ihq]
    cases inst θ p <;> cases inst θ q <;> simp [applySSubst_ren]

theorem lookupPlug_ren (ks : List VId) (ps : List Pat) (k : VId) :
    lookupPlug ks (ps.map (ren ρ)) k = (lookupPlug ks ps k).map (ren ρ) := by
  induction ks generalizing ps with
  | nil => simp [lookupPlug]
  | cons a ks ih =>
    cases ps with
    | nil => simp [lookupPlug]
    | cons p ps =>
      simp only [List.map_cons, lookupPlug, ih]
      split <;> simp

end Pat

